(* PowerLossProofs.v — the power-loss invariant (synced images, durable names) of the
   protocol with SyncWrites and both repairs, and the C10 theorems. *)
From Coq Require Import Lia Arith PeanoNat.
From Coq Require Import ZifyN ZifyNat ZifyBool.
From Verif Require Import FS Recover Persist Crash FSProofs RecoverProofs CrashProofs.
Open Scope N_scope.

(* what Open replays from WAL f after a power loss *)
Definition img_cells (s : fs) (f : N) : list cell :=
  match img s (Wal f) with Some wi => wal_cells wi | None => [] end.

(* m = number of completed requests whose WAL records are inside a synced WAL image *)
Record Inv_p (st : pstate) (m : nat) : Prop := mkInvP {
  ip_m : (acked st <= m)%nat /\ (m <= length (units st))%nat;
  ip_m2 : todo st <> [] -> m = length (units st);
  ip_m3 : forall u, In u (skipn m (units st)) -> fst u = walcur st;
  ip_seal : sealed st = walcur st -> m = length (units st);
  ip_q : forall f, img_cells (pfs st) f = cells_of (units_of f (firstn m (units st)));
  ip_wdur : (forall u, In u (units st) -> nflushed_s st < fst u -> In (Wal (fst u)) (dur (pfs st)))
            /\ (todo st <> [] -> In (Wal (walcur st)) (dur (pfs st)));
  ip_man : In Manifest (dur (pfs st)) /\
           exists mi, img (pfs st) Manifest = Some mi /\ replay_manifest [] mi = Some (live_s st);
  ip_tab : forall x, In x (live st) \/ In x (live_s st) ->
           In (Sst (fst x)) (dur (pfs st)) /\ In (Sst (fst x)) (dir (pfs st)) /\
           img (pfs st) (Sst (fst x)) = Some (cur (pfs st) (Sst (fst x)));
  ip_cover : cells_refine (cells_of (flushed_units (nflushed_s st) (units st))) (lsm_cells (pfs st) (live_s st));
  ip_ptr : forall c, In c (cells_of (units st)) \/ (todo st <> [] /\ In c (pend st)) ->
           forall p, snd c = Some p ->
           In (Vlog (vp_fid p)) (dur (pfs st)) /\
           exists vi, img (pfs st) (Vlog (vp_fid p)) = Some vi /\ nth_error vi (vp_idx p) = Some (IV (fst c));
  ip_vlog : (forall f, In (Vlog f) (dur (pfs st)) -> In (Vlog f) (dir (pfs st))) /\
            (forall f vi, img (pfs st) (Vlog f) = Some vi -> exists rest, cur (pfs st) (Vlog f) = vi ++ rest)
}.

Definition fixed_sync (c : cfg) : Prop := sync_writes c = true /\ fix_dirsync c = true /\ fix_zerolog c = true.

(* ---- list facts ---- *)
Lemma In_firstn_skipn : forall A (l : list A) m x, In x l -> In x (firstn m l) \/ In x (skipn m l).
Proof. intros A l m x H. rewrite <- (firstn_skipn m l) in H. apply in_app_or in H. exact H. Qed.
Lemma In_skipn_in : forall A (l : list A) m x, In x (skipn m l) -> In x l.
Proof. intros A l m x H. rewrite <- (firstn_skipn m l). apply in_or_app. right. exact H. Qed.

Lemma units_of_firstn : forall f w (us : ulist) m,
  (forall u, In u (skipn m us) -> fst u = w) -> f <> w -> units_of f (firstn m us) = units_of f us.
Proof.
  intros f w us m H Hn. rewrite <- (firstn_skipn m us) at 2. rewrite units_of_app.
  assert (E : units_of f (skipn m us) = []).
  { unfold units_of. induction (skipn m us) as [|u l IH]; [reflexivity|]. cbn [filter].
    destruct (fst u =? f) eqn:Eq.
    - apply N.eqb_eq in Eq. rewrite (H u (or_introl eq_refl)) in Eq. congruence.
    - apply IH. intros v Hv. apply H. right. exact Hv. }
  rewrite E, app_nil_r. reflexivity.
Qed.

Lemma firstn_app_le : forall A (a b : list A) m, (m <= length a)%nat -> firstn m (a ++ b) = firstn m a.
Proof.
  intros A a b m H. rewrite firstn_app. replace (m - length a)%nat with 0%nat by lia. cbn [firstn]. apply app_nil_r.
Qed.
Lemma firstn_snoc_le : forall A (l : list A) x m, (m <= length l)%nat -> firstn m (l ++ [x]) = firstn m l.
Proof. intros A l x m H. rewrite firstn_app. replace (m - length l)%nat with 0%nat by lia. cbn [firstn]. apply app_nil_r. Qed.
Lemma skipn_snoc_len : forall A (l : list A) x, skipn (length l) (l ++ [x]) = [x].
Proof. intros A l x. rewrite skipn_app, skipn_all, Nat.sub_diag. reflexivity. Qed.

(* the WAL image of the current WAL covers every completed request once the WAL is synced *)
Lemma skipn_nil_len : forall A (l : list A) m, skipn m l = [] -> (length l <= m)%nat.
Proof.
  intros A l m H. pose proof (firstn_skipn m l) as E. rewrite H, app_nil_r in E.
  rewrite <- E. apply firstn_le_length.
Qed.

Lemma raise_m : forall st m, Inv_c st -> Inv_p st m ->
  log_synced (pfs st) (Wal (walcur st)) = true -> Inv_p st (length (units st)).
Proof.
  intros st m I P Hl. destruct (ic_order st I) as [Ho1 [Ho2 Ho3]].
  destruct (N.eq_dec (nflushed_s st) (walcur st)) as [Heq|Hneq].
  { assert (Hse : sealed st = walcur st) by lia. rewrite <- (ip_seal st m P Hse). exact P. }
  assert (Hd : In (Wal (walcur st)) (dir (pfs st))).
  { apply (ic_wal_dir st I); lia. }
  destruct (inv_c_wal_cells st _ I Hd) as [[_ Hw]|[_ [_ [Hz|Hz]]]].
  - destruct P as [[Pa Pb] P2 P3 Ps Pq Pw Pm Pt Pc Pp Pv]. constructor; try assumption.
    + split; lia.
    + intros _. reflexivity.
    + rewrite skipn_all. intros u [].
    + intros _. reflexivity.
    + intro f. rewrite firstn_all. destruct (N.eq_dec f (walcur st)) as [->|Hn].
      * unfold img_cells. destruct (log_synced_img _ _ Hl) as [E|[E1 E2]].
        -- rewrite E. exact Hw.
        -- rewrite E1. rewrite E2 in Hw. cbn in Hw. exact Hw.
      * rewrite (Pq f). rewrite (units_of_firstn f (walcur st) _ m P3 Hn). reflexivity.
  - lia.
  - assert (Hs : skipn m (units st) = []).
    { destruct (skipn m (units st)) as [|u l] eqn:E; [reflexivity|]. exfalso.
      assert (Hu : In u (skipn m (units st))) by (rewrite E; left; reflexivity).
      pose proof (ip_m3 st m P u Hu) as Hf. apply In_skipn_in in Hu.
      assert (Hin : In u (units_of (walcur st) (units st))) by (apply units_of_In; split; assumption).
      rewrite Hz in Hin. contradiction. }
    apply skipn_nil_len in Hs. destruct (ip_m st m P) as [_ Hle].
    replace (length (units st)) with m by lia. exact P.
Qed.

(* events that change neither durable names, images nor the ghost state *)
Lemma inv_p_frame : forall st m s',
  Inv_p st m ->
  dur s' = dur (pfs st) -> img s' = img (pfs st) ->
  (forall x, In x (live st) \/ In x (live_s st) ->
     (In (Sst (fst x)) (dir (pfs st)) -> In (Sst (fst x)) (dir s')) /\
     cur s' (Sst (fst x)) = cur (pfs st) (Sst (fst x))) ->
  (forall f, In (Vlog f) (dir (pfs st)) -> In (Vlog f) (dir s')) ->
  (forall f, exists rest, cur s' (Vlog f) = cur (pfs st) (Vlog f) ++ rest) ->
  Inv_p (set_fs st s') m.
Proof.
  intros st m s' [Pm1 P2 P3 Ps Pq Pw Pm Pt Pc Pp Pv] Hdur Himg Htab Hvd Hvc.
  constructor; cbn [set_fs pfs units pend todo acked walcur vlogcur nflushed nflushed_s live live_s sealed]; try assumption.
  - intro f. unfold img_cells. rewrite Himg. apply Pq.
  - rewrite Hdur. exact Pw.
  - rewrite Hdur, Himg. exact Pm.
  - intros x Hx. destruct (Pt x Hx) as [H1 [H2 H3]]. destruct (Htab x Hx) as [H4 H5].
    rewrite Hdur, Himg, H5. split; [exact H1|split; [apply H4; exact H2|exact H3]].
  - rewrite (lsm_cells_ext (pfs st)); [exact Pc|]. intros x Hx. apply Htab. right. exact Hx.
  - rewrite Hdur, Himg. exact Pp.
  - rewrite Hdur, Himg. destruct Pv as [Pv1 Pv2]. split.
    + intros f Hf. apply Hvd. apply Pv1. exact Hf.
    + intros f vi Hi. destruct (Pv2 f vi Hi) as [rest Hr]. destruct (Hvc f) as [rest' Hr'].
      exists (rest ++ rest'). rewrite Hr', Hr, app_assoc. reflexivity.
Qed.

Ltac psimp := cbn [pfs units pend todo acked walcur vlogcur nflushed nflushed_s live live_s usedtabs sealed
                   set_fs apply_event dir dur cur img sized upd fname_eqb] in *.

Lemma not_in_tabs : forall id (t1 t2 : tabs) x, tab_mem id t1 = false -> tab_mem id t2 = false ->
  In x t1 \/ In x t2 -> fst x <> id.
Proof.
  intros id t1 t2 x H1 H2 [Hx|Hx] E; subst id; rewrite (tab_mem_fst x _ Hx) in *; discriminate.
Qed.

Lemma app_nil_ex : forall A (l : list A), exists rest, l = l ++ rest.
Proof. intros. exists []. rewrite app_nil_r. reflexivity. Qed.

Lemma inv_p_frames : forall c st m e st',
  Inv_p st m -> pstep c st (PE e) = Some st' ->
  match e with
  | Init _ | Truncate0 _ | Unlink _ => True
  | Append (Sst _) _ | Append (Vlog _) _ => True
  | _ => False
  end -> Inv_p st' m.
Proof.
  intros c st m e st' P H He. destruct e as [f|f|f x|f|f|f|a b|]; try contradiction.
  - (* Init *)
    destruct f; cbn [pstep] in H; try discriminate; apply ok_some in H; destruct H as [_ ->];
      (apply inv_p_frame; [exact P|reflexivity|reflexivity| | |]; psimp;
       [intros x _; split; [auto|reflexivity]|auto|intro; apply app_nil_ex]).
  - (* Append Sst / Vlog *)
    destruct f; try contradiction; cbn [pstep] in H; destruct x; try discriminate; apply ok_some in H; destruct H as [G ->].
    + apply inv_p_frame; [exact P|reflexivity|reflexivity| | |]; psimp.
      * intros x _. split; [auto|reflexivity].
      * auto.
      * intro g. unfold upd. cbn [fname_eqb]. destruct (g =? f) eqn:E; [|apply app_nil_ex].
        apply N.eqb_eq in E. subst g. eexists. reflexivity.
    + rewrite !Bool.andb_true_iff in G. destruct G as [[[[G1 G2] G3] G4] G5].
      apply Bool.negb_true_iff in G4, G5.
      apply inv_p_frame; [exact P|reflexivity|reflexivity| | |]; psimp.
      * intros x Hx. split; [auto|]. unfold upd. cbn [fname_eqb].
        pose proof (not_in_tabs _ _ _ x G4 G5 Hx) as Hn. apply N.eqb_neq in Hn. rewrite Hn. reflexivity.
      * auto.
      * intro; apply app_nil_ex.
  - (* Truncate0 *)
    destruct f; cbn [pstep] in H; try discriminate; apply ok_some in H; destruct H as [G ->].
    + apply inv_p_frame; [exact P|reflexivity|reflexivity| | |]; psimp;
        [intros x _; split; [auto|reflexivity]|auto|intro; apply app_nil_ex].
    + rewrite !Bool.andb_true_iff in G. destruct G as [[G1 G2] G3]. apply Bool.negb_true_iff in G2, G3.
      apply inv_p_frame; [exact P|reflexivity|reflexivity| | |]; psimp.
      * intros x Hx. split; [auto|]. unfold upd. cbn [fname_eqb].
        pose proof (not_in_tabs _ _ _ x G2 G3 Hx) as Hn. apply N.eqb_neq in Hn. rewrite Hn. reflexivity.
      * auto.
      * intro; apply app_nil_ex.
  - (* Unlink *)
    destruct f; cbn [pstep] in H; try discriminate; apply ok_some in H; destruct H as [G ->].
    + apply inv_p_frame; [exact P|reflexivity|reflexivity| | |]; psimp.
      * intros x _. split; [|reflexivity]. intro Hx. apply removef_In. split; [exact Hx|discriminate].
      * intros g Hg. apply removef_In. split; [exact Hg|discriminate].
      * intro; apply app_nil_ex.
    + rewrite !Bool.andb_true_iff in G. destruct G as [[G1 G2] G3]. apply Bool.negb_true_iff in G2, G3.
      apply inv_p_frame; [exact P|reflexivity|reflexivity| | |]; psimp.
      * intros x Hx. split; [|reflexivity]. intro Hd. apply removef_In. split; [exact Hd|].
        intro E. inversion E. apply (not_in_tabs _ _ _ x G2 G3 Hx). assumption.
      * intros g Hg. apply removef_In. split; [exact Hg|discriminate].
      * intro; apply app_nil_ex.
Qed.

Lemma ptr_ok_img : forall c s cl, sync_writes c = true -> fix_dirsync c = true -> ptr_ok c s cl = true ->
  forall p, snd cl = Some p ->
  In (Vlog (vp_fid p)) (dur s) /\
  exists vi, img s (Vlog (vp_fid p)) = Some vi /\ nth_error vi (vp_idx p) = Some (IV (fst cl)).
Proof.
  intros c s cl Hs Hf H p Hp. unfold ptr_ok in H. rewrite Hp, Hs, Hf in H. cbn [imp negb orb] in H.
  rewrite !Bool.andb_true_iff in H. destruct H as [[[_ _] H3] H4]. split; [apply memf_In; exact H4|].
  destruct (img s (Vlog (vp_fid p))) as [vi|]; [|discriminate]. exists vi. split; [reflexivity|].
  unfold vrec_at in H3. destruct (nth_error vi (vp_idx p)) as [[| |e| |]|]; try discriminate.
  apply centry_eqb_eq in H3. subst. reflexivity.
Qed.

Lemma inv_p_begin : forall c st m cells st', fixed_sync c -> Inv_c st -> Inv_p st m ->
  pstep c st (PBegin cells) = Some st' -> exists m', Inv_p st' m'.
Proof.
  intros c st m cells st' [Hs [Hf Hz]] I P H. cbn [pstep] in H. apply ok_some in H. destruct H as [G ->].
  rewrite !Bool.andb_true_iff in G. destruct G as [[[[[[[[[[G1 G1s] G2] G3] G4] G5] G6] G7] G8] G9] G10].
  apply N.ltb_lt in G1s. rewrite Hs in G8. rewrite Hf in G9. cbn [imp negb orb] in G8, G9. apply memf_In in G9.
  pose proof (raise_m st m I P G8) as P'. exists (length (units st)).
  destruct P' as [Pm1 P2 P3 Ps Pq [Pw1 Pw2] Pm Pt Pc Pp Pv]. constructor; psimp; try assumption.
  - intros _. reflexivity.
  - split; [exact Pw1|intros _; exact G9].
  - intros cl [Hc|[_ Hc]]; [apply Pp; left; exact Hc|].
    rewrite forallb_forall in G5. apply (ptr_ok_img c); [exact Hs|exact Hf|apply G5; exact Hc].
Qed.

Lemma inv_p_ack : forall c st m st', fixed_sync c -> Inv_c st -> Inv_p st m ->
  pstep c st PAck = Some st' -> exists m', Inv_p st' m'.
Proof.
  intros c st m st' [Hs [Hf Hz]] I P H. cbn [pstep] in H. apply ok_some in H. destruct H as [G ->].
  rewrite !Bool.andb_true_iff in G. destruct G as [G1 G2]. rewrite Hs in G2. cbn [imp negb orb] in G2.
  pose proof (raise_m st m I P G2) as P'. exists (length (units st)).
  destruct P' as [Pm1 P2 P3 Ps Pq Pw Pm Pt Pc Pp Pv]. constructor; psimp; try assumption. split; lia.
Qed.

Lemma inv_p_seal : forall c st m st', fixed_sync c -> Inv_c st -> Inv_p st m ->
  pstep c st PSeal = Some st' -> exists m', Inv_p st' m'.
Proof.
  intros c st m st' [Hs [Hf Hz]] I P H. cbn [pstep] in H. apply ok_some in H. destruct H as [G ->].
  rewrite !Bool.andb_true_iff in G. destruct G as [[G1 G2] G3]. rewrite Hs in G3. cbn [imp negb orb] in G3.
  pose proof (raise_m st m I P G3) as P'. exists (length (units st)).
  destruct P' as [Pm1 P2 P3 Ps Pq Pw Pm Pt Pc Pp Pv]. constructor; psimp; try assumption.
  intros _. reflexivity.
Qed.

Lemma inv_p_syncdir : forall c st m st', Inv_c st -> Inv_p st m ->
  pstep c st (PE SyncDir) = Some st' -> exists m', Inv_p st' m'.
Proof.
  intros c st m st' I P H. cbn [pstep] in H. inversion H; subst; clear H. exists m.
  destruct P as [Pm1 P2 P3 Ps Pq [Pw1 Pw2] [Pm Pm'] Pt Pc Pp [Pv1 Pv2]].
  destruct (ic_order st I) as [Ho1 [Ho2 Ho3]].
  constructor; psimp; try assumption.
  - split.
    + intros u Hu Hlt. apply (ic_wal_dir st I); [exact Hlt|]. apply (ic_units st I u Hu).
    + intros Hn. pose proof (ic_seal st I Hn) as Hsl. apply (ic_wal_dir st I); lia.
  - split; [apply (ic_man st I)|exact Pm'].
  - intros x Hx. destruct (Pt x Hx) as [H1 [H2 H3]]. split; [exact H2|split; [exact H2|exact H3]].
  - intros cl Hc p Hp. destruct (Pp cl Hc p Hp) as [H1 H2]. split; [apply Pv1; exact H1|exact H2].
  - split; [auto|exact Pv2].
Qed.

Lemma inv_p_syncfile : forall c st m f st', Inv_c st -> Inv_p st m ->
  pstep c st (PE (SyncFile f)) = Some st' -> exists m', Inv_p st' m'.
Proof.
  intros c st m f st' I P H. cbn [pstep] in H. apply ok_some in H. destruct H as [G ->].
  apply Bool.andb_true_iff in G. destruct G as [G1 G2]. apply memf_In in G1.
  destruct f as [f|f|id|].
  - (* WAL *)
    assert (Hw : wal_cells (cur (pfs st) (Wal f)) = cells_of (units_of f (units st))).
    { destruct (inv_c_wal_cells st f I G1) as [[_ Hw]|[Hz _]]; [exact Hw|congruence]. }
    destruct P as [[Pa Pb] P2 P3 Ps Pq Pw Pm Pt Pc Pp Pv].
    exists (if f =? walcur st then length (units st) else m).
    constructor; psimp; try assumption.
    + destruct (f =? walcur st); split; lia.
    + intro Hn. destruct (f =? walcur st); [reflexivity|apply P2; exact Hn].
    + destruct (f =? walcur st); [rewrite skipn_all; intros u []|exact P3].
    + intro Hse. destruct (f =? walcur st); [reflexivity|apply Ps; exact Hse].
    + intro g. unfold img_cells. psimp. unfold upd. cbn [fname_eqb]. destruct (g =? f) eqn:Egf.
      * apply N.eqb_eq in Egf. subst g. rewrite Hw. destruct (f =? walcur st) eqn:Ef.
        -- rewrite firstn_all. reflexivity.
        -- apply N.eqb_neq in Ef. rewrite (units_of_firstn f (walcur st) _ m P3 Ef). reflexivity.
      * fold (img_cells (pfs st) g). rewrite (Pq g). destruct (f =? walcur st) eqn:Ef; [|reflexivity].
        apply N.eqb_eq in Ef. subst f. apply N.eqb_neq in Egf.
        rewrite firstn_all, (units_of_firstn g (walcur st) _ m P3 Egf). reflexivity.
  - (* vlog *)
    exists m. destruct P as [Pm1 P2 P3 Ps Pq Pw Pm Pt Pc Pp [Pv1 Pv2]]. constructor; psimp; try assumption.
    + intros cl Hc p Hp. destruct (Pp cl Hc p Hp) as [H1 [vi [H2 H3]]]. split; [exact H1|].
      unfold upd. cbn [fname_eqb]. destruct (vp_fid p =? f) eqn:E; [|exists vi; split; assumption].
      apply N.eqb_eq in E. rewrite E in *. destruct (Pv2 f vi H2) as [rest Hr].
      exists (cur (pfs st) (Vlog f)). split; [reflexivity|]. rewrite Hr. rewrite nth_error_app1; [exact H3|].
      apply nth_error_Some. congruence.
    + split; [exact Pv1|]. intros g vi. unfold upd. cbn [fname_eqb]. destruct (g =? f) eqn:E.
      * apply N.eqb_eq in E. subst g. intro Hi. inversion Hi. exists []. rewrite app_nil_r. reflexivity.
      * apply Pv2.
  - (* table *)
    exists m. destruct P as [Pm1 P2 P3 Ps Pq Pw Pm Pt Pc Pp Pv]. constructor; psimp; try assumption.
    intros x Hx. destruct (Pt x Hx) as [H1 [H2 H3]]. split; [exact H1|split; [exact H2|]].
    unfold upd. cbn [fname_eqb]. destruct (fst x =? id) eqn:E; [|exact H3].
    apply N.eqb_eq in E. rewrite E. reflexivity.
  - (* MANIFEST *)
    exists m. destruct P as [Pm1 P2 P3 Ps Pq [Pw1 Pw2] [Pm Pm'] Pt Pc Pp Pv].
    destruct (ic_order st I) as [Ho1 [Ho2 Ho3]].
    constructor; psimp; try assumption.
    + split; [|exact Pw2]. intros u Hu Hlt. apply Pw1; [exact Hu|lia].
    + split; [exact Pm|]. exists (cur (pfs st) Manifest). split; [reflexivity|apply (ic_man st I)].
    + intros x Hx. apply Pt. left. destruct Hx; assumption.
    + apply (ic_cover st I).
Qed.

Lemma units_of_none : forall f (us : ulist), (forall u, In u us -> fst u <> f) -> units_of f us = [].
Proof.
  intros f us H. unfold units_of. induction us as [|u us IH]; [reflexivity|]. cbn [filter].
  destruct (fst u =? f) eqn:E.
  - apply N.eqb_eq in E. exfalso. apply (H u); [left; reflexivity|exact E].
  - apply IH. intros v Hv. apply H. right. exact Hv.
Qed.

Lemma inv_p_wal_create : forall c st m f st', fixed_sync c -> Inv_c st -> Inv_p st m ->
  pstep c st (PE (Create (Wal f))) = Some st' -> exists m', Inv_p st' m'.
Proof.
  intros c st m f st' [Hs [Hf Hz]] I P H. cbn [pstep] in H. apply ok_some in H. destruct H as [G ->].
  rewrite !Bool.andb_true_iff in G. destruct G as [[[[[G1 G1s] G2] G3] G4] G5].
  apply N.eqb_eq in G1. apply is_nil_true in G2. apply Bool.negb_true_iff in G3.
  rewrite Hs in G5. cbn [imp negb orb] in G5.
  pose proof (raise_m st m I P G5) as P'. exists (length (units st)).
  destruct P' as [Pm1 P2 P3 Ps Pq [Pw1 Pw2] Pm Pt Pc Pp [Pv1 Pv2]].
  constructor; psimp; rewrite ?G3; psimp; try assumption.
  - rewrite skipn_all. intros u [].
  - intros _. reflexivity.
  - intro g. unfold img_cells. psimp. unfold upd. cbn [fname_eqb]. destruct (g =? f) eqn:E.
    + apply N.eqb_eq in E. subst g. rewrite firstn_all. rewrite units_of_none; [reflexivity|].
      intros u Hu. destruct (ic_units st I u Hu) as [_ Hle]. lia.
    + apply Pq.
  - split; [exact Pw1|intro Hn; contradiction].
  - intros x Hx. destruct (Pt x Hx) as [H1 [H2 H3]]. split; [exact H1|split; [right; exact H2|exact H3]].
  - split; [|exact Pv2]. intros g Hg. right. apply Pv1. exact Hg.
Qed.

Lemma inv_p_vlog_create : forall c st m f st', Inv_p st m ->
  pstep c st (PE (Create (Vlog f))) = Some st' -> exists m', Inv_p st' m'.
Proof.
  intros c st m f st' P H. cbn [pstep] in H. apply ok_some in H. destruct H as [G ->].
  rewrite !Bool.andb_true_iff in G. destruct G as [[G1 G2] G3]. apply Bool.negb_true_iff in G2.
  exists m. destruct P as [Pm1 P2 P3 Ps Pq Pw Pm Pt Pc Pp [Pv1 Pv2]].
  assert (Hfresh : forall g, In (Vlog g) (dur (pfs st)) -> g <> f).
  { intros g Hg E. subst g. apply Pv1 in Hg. apply memf_false in G2. contradiction. }
  constructor; psimp; rewrite ?G2; psimp; try assumption.
  - intros x Hx. destruct (Pt x Hx) as [H1 [H2 H3]]. split; [exact H1|split; [right; exact H2|exact H3]].
  - intros cl Hc p Hp. destruct (Pp cl Hc p Hp) as [H1 H2]. split; [exact H1|].
    unfold upd. cbn [fname_eqb]. pose proof (Hfresh _ H1) as Hn. apply N.eqb_neq in Hn. rewrite Hn. exact H2.
  - split.
    + intros g Hg. right. apply Pv1. exact Hg.
    + intros g vi. unfold upd. cbn [fname_eqb]. destruct (g =? f); [discriminate|apply Pv2].
Qed.

Lemma inv_p_sst_create : forall c st m id st', Inv_p st m ->
  pstep c st (PE (Create (Sst id))) = Some st' -> exists m', Inv_p st' m'.
Proof.
  intros c st m id st' P H. cbn [pstep] in H. apply ok_some in H. destruct H as [G ->].
  rewrite !Bool.andb_true_iff in G. destruct G as [G1 G2]. apply Bool.negb_true_iff in G2.
  exists m. destruct P as [Pm1 P2 P3 Ps Pq Pw Pm Pt Pc Pp [Pv1 Pv2]].
  assert (Hfr : forall x, In x (live st) \/ In x (live_s st) -> fst x <> id).
  { intros x Hx E. subst id. destruct (Pt x Hx) as [_ [H2 _]]. apply memf_false in G2. contradiction. }
  constructor; psimp; rewrite ?G2; psimp; try assumption.
  - intros x Hx. destruct (Pt x Hx) as [H1 [H2 H3]]. split; [exact H1|split; [right; exact H2|]].
    unfold upd. cbn [fname_eqb]. pose proof (Hfr x Hx) as Hn. apply N.eqb_neq in Hn. rewrite Hn. exact H3.
  - rewrite (lsm_cells_ext (pfs st)); [exact Pc|]. intros x Hx. psimp. unfold upd. cbn [fname_eqb].
    pose proof (Hfr x (or_intror Hx)) as Hn. apply N.eqb_neq in Hn. rewrite Hn. reflexivity.
  - split; [|exact Pv2]. intros g Hg. right. apply Pv1. exact Hg.
Qed.

Lemma inv_p_wal_append : forall c st m f x st', Inv_c st -> Inv_p st m ->
  pstep c st (PE (Append (Wal f) x)) = Some st' -> exists m', Inv_p st' m'.
Proof.
  intros c st m f x st' I P H. cbn [pstep] in H. destruct (todo st) as [|y rest] eqn:Et; [discriminate|].
  apply ok_some in H. destruct H as [G Hst]. exists m.
  destruct P as [[Pa Pb] P2 P3 Ps Pq [Pw1 Pw2] Pm Pt Pc Pp Pv].
  assert (Hne : todo st <> []) by (rewrite Et; discriminate).
  pose proof (P2 Hne) as Hm. destruct (ic_order st I) as [Ho1 [Ho2 Ho3]].
  pose proof (ic_seal st I Hne) as Hsl.
  destruct rest as [|z rest]; subst st'.
  - constructor; psimp; try assumption.
    + rewrite app_length. cbn [length]. split; lia.
    + intro Hn. contradiction.
    + rewrite Hm, skipn_snoc_len. intros u [<-|[]]. reflexivity.
    + intro Hse. lia.
    + intro g. rewrite firstn_snoc_le; [apply Pq|lia].
    + split; [|intro Hn; contradiction]. intros u Hu Hlt. apply in_app_or in Hu.
      destruct Hu as [Hu|[<-|[]]]; [apply Pw1; assumption|]. cbn [fst]. apply Pw2. exact Hne.
    + rewrite flushed_units_snoc_gt; [exact Pc|lia].
    + intros cl [Hc|[Hn _]]; [|contradiction]. rewrite cells_of_app in Hc. apply in_app_or in Hc.
      destruct Hc as [Hc|Hc]; [apply Pp; left; exact Hc|]. cbn [cells_of flat_map snd] in Hc. rewrite app_nil_r in Hc.
      apply Pp. right. split; [exact Hne|exact Hc].
  - constructor; psimp; try assumption.
    + split; lia.
    + intros _. exact Hm.
    + split; [exact Pw1|intros _; apply Pw2; exact Hne].
    + intros cl [Hc|[_ Hc]]; apply Pp; [left; exact Hc|right; split; [exact Hne|exact Hc]].
Qed.

Lemma inv_p_manifest : forall c st m x st', fixed_sync c -> Inv_c st -> Inv_p st m ->
  pstep c st (PE (Append Manifest x)) = Some st' -> exists m', Inv_p st' m'.
Proof.
  intros c st m x st' [Hs [Hf Hz]] I P H. cbn [pstep] in H. destruct x as [| | |cs|]; try discriminate.
  destruct (apply_changes (live st) cs) as [live'|] eqn:Ea; [|discriminate]. exists m.
  destruct P as [Pm1 P2 P3 Ps Pq Pw Pm Pt Pc Pp Pv].
  destruct (is_nil (deletes cs)) eqn:En.
  - destruct cs as [|[id l|] [|]]; try discriminate; destruct l; try discriminate.
    apply ok_some in H. destruct H as [G ->].
    rewrite !Bool.andb_true_iff in G. destruct G as [[[[G1 G2] G3] G4] G5].
    cbn [creates flat_map forallb app] in G2. rewrite !Bool.andb_true_iff in G2. destruct G2 as [[[G2a G2b] G2c] _].
    rewrite Hf in G5. cbn [imp negb orb] in G5. apply memf_In in G2a, G5. apply synced_img in G2c.
    cbn [apply_changes] in Ea. destruct (tab_mem id (live st)); [discriminate|]. inversion Ea; subst live'; clear Ea.
    constructor; psimp; try assumption.
    intros y [Hy|Hy]; [|apply Pt; right; exact Hy]. apply in_app_or in Hy.
    destruct Hy as [Hy|[<-|[]]]; [apply Pt; left; exact Hy|]. cbn [fst]. split; [exact G5|split; [exact G2a|exact G2c]].
  - apply ok_some in H. destruct H as [G ->].
    rewrite !Bool.andb_true_iff in G. destruct G as [[[[[G1 G2] G3] G4] G5] G6].
    rewrite forallb_forall in G2, G3.
    constructor; psimp; try assumption.
    intros y [Hy|Hy]; [|apply Pt; right; exact Hy].
    destruct (apply_changes_from _ _ _ Ea y Hy) as [Hy'|Hy']; [apply Pt; left; exact Hy'|].
    specialize (G2 _ Hy'). specialize (G3 _ Hy'). rewrite !Bool.andb_true_iff in G2. destruct G2 as [[Ga Gb] Gc].
    split; [apply memf_In; exact G3|split; [apply memf_In; exact Ga|apply synced_img; exact Gc]].
Qed.

Theorem inv_p_step : forall c st m pe st', fixed_sync c -> Inv_c st -> Inv_p st m ->
  pstep c st pe = Some st' -> exists m', Inv_p st' m'.
Proof.
  intros c st m pe st' Hc I P H. destruct pe as [e|cells| |].
  - destruct e as [f|f|f x|f|f|f|a b|].
    + destruct f; [eapply inv_p_wal_create|eapply inv_p_vlog_create|eapply inv_p_sst_create|discriminate]; eassumption.
    + exists m. eapply inv_p_frames; [exact P|exact H|constructor].
    + destruct f.
      * eapply inv_p_wal_append; eassumption.
      * exists m. eapply inv_p_frames; [exact P|exact H|constructor].
      * exists m. eapply inv_p_frames; [exact P|exact H|constructor].
      * eapply inv_p_manifest; eassumption.
    + eapply inv_p_syncfile; eassumption.
    + exists m. eapply inv_p_frames; [exact P|exact H|constructor].
    + exists m. eapply inv_p_frames; [exact P|exact H|constructor].
    + discriminate.
    + eapply inv_p_syncdir; eassumption.
  - eapply inv_p_begin; eassumption.
  - eapply inv_p_ack; eassumption.
  - eapply inv_p_seal; eassumption.
Qed.

Lemma inv_p_init : forall c, fixed_sync c -> Inv_p (init c) 0.
Proof.
  intros c [_ [Hf _]]. constructor;
    cbn [init pfs units pend todo acked walcur vlogcur nflushed nflushed_s live live_s sealed init_fs dir dur cur img sized].
  - split; lia.
  - intro Hn. contradiction.
  - intros u [].
  - intro Hn. discriminate.
  - intro f. reflexivity.
  - split; [intros u []|intro Hn; contradiction].
  - rewrite Hf. split; [left; reflexivity|]. exists []. split; reflexivity.
  - intros x [[]|[]].
  - split; [intros x []|intros x []].
  - intros cl [[]|[Hn _]]. contradiction.
  - rewrite Hf. split.
    + intros f [E|[E|[E|[]]]]; try discriminate. inversion E. right. right. left. reflexivity.
    + intros f vi E. discriminate.
Qed.

Theorem inv_p_run : forall c tr st st' m, fixed_sync c -> Inv_c st -> Inv_p st m ->
  run c st tr = Some st' -> exists m', Inv_p st' m'.
Proof.
  intros c tr. induction tr as [|e tr IH]; intros st st' m Hc I P H; cbn [run] in H.
  - inversion H; subst. exists m. exact P.
  - destruct (pstep c st e) as [st1|] eqn:E; [|discriminate].
    destruct (inv_p_step c st m e st1 Hc I P E) as [m1 P1].
    apply (IH st1 st' m1 Hc (inv_c_step c st e st1 I E) P1 H).
Qed.

(* ---- from the invariants to the content recovered after a power loss ---- *)
Lemma commits_concat : forall (us : ulist), concat (map (fun u => map fst (snd u)) us) = map fst (cells_of us).
Proof.
  intro us. unfold cells_of. induction us as [|u l IH]; [reflexivity|].
  cbn [map concat flat_map]. rewrite IH, map_app. reflexivity.
Qed.

Theorem power_loss_recovers : forall c st m, fixed_sync c -> Inv_c st -> Inv_p st m ->
  exists R, power_loss_result c st = Some R /\ refines (map fst (cells_of (firstn m (units st)))) R.
Proof.
  intros c st m [Hs [Hf Hz]] I [[Pa Pb] P2 P3 Ps Pq [Pw1 Pw2] [Pm [mi [Pmi Pmr]]] Pt [Pca Pcb] Pp [Pv1 Pv2]].
  destruct (ic_order st I) as [Ho1 [Ho2 Ho3]].
  unfold power_loss_result, recover. cbn [power_loss dir cur].
  apply memf_In in Pm. rewrite Pm, Pmi, Pmr.
  rewrite (logs_ok_true c _ (or_introl Hz)).
  assert (Ht : tables_ok (power_loss (pfs st)) (live_s st) = true).
  { unfold tables_ok. apply forallb_forall. intros x Hx. destruct (Pt x (or_intror Hx)) as [H1 [_ H3]].
    cbn [power_loss dir sized]. apply memf_In in H1. rewrite H1, H3. reflexivity. }
  rewrite Ht. cbn [andb]. eexists. split; [reflexivity|].
  set (s' := power_loss (pfs st)).
  assert (Hlsm : lsm_cells s' (live_s st) = lsm_cells (pfs st) (live_s st)).
  { apply lsm_cells_ext. intros x Hx. destruct (Pt x (or_intror Hx)) as [_ [_ H3]].
    unfold s'. cbn [power_loss cur]. rewrite H3. reflexivity. }
  assert (Hmem : forall cl, In cl (mem_cells s') <-> exists n, In (Wal n) (dur (pfs st)) /\ In cl (img_cells (pfs st) n)).
  { intro cl. rewrite mem_cells_In. unfold s', img_cells. cbn [power_loss dir cur].
    split; intros [n [H1 H2]]; exists n; (split; [exact H1|]); destruct (img (pfs st) (Wal n)); assumption. }
  assert (Hder : forall cl, In cl (cells_of (units st)) -> deref s' cl = Some (fst cl)).
  { intros cl Hcl. unfold deref. destruct (snd cl) as [p|] eqn:Ep; [|reflexivity].
    destruct (Pp cl (or_introl Hcl) p Ep) as [H1 [vi [H2 H3]]].
    unfold s'. cbn [power_loss dir cur]. apply memf_In in H1. rewrite H1, H2, H3.
    assert (E : centry_eqb (fst cl) (fst cl) = true) by (apply centry_eqb_eq; reflexivity). rewrite E. reflexivity. }
  assert (Hfl : forall cl, In cl (cells_of (flushed_units (nflushed_s st) (units st))) ->
                  In cl (cells_of (firstn m (units st)))).
  { intros cl Hcl. apply In_cells_of in Hcl. destruct Hcl as [u [Hu Hc]]. unfold flushed_units in Hu.
    apply filter_In in Hu. destruct Hu as [Hu Hle]. apply N.leb_le in Hle.
    apply In_cells_of. exists u. split; [|exact Hc].
    destruct (In_firstn_skipn _ _ m u Hu) as [Hin|Hin]; [exact Hin|]. pose proof (P3 u Hin) as Hw.
    assert (Hse : sealed st = walcur st) by lia. rewrite (Ps Hse), skipn_all in Hin. contradiction. }
  assert (Hsubm : forall cl, In cl (cells_of (firstn m (units st))) -> In cl (cells_of (units st))).
  { intros cl Hcl. apply In_cells_of in Hcl. destruct Hcl as [u [Hu Hc]]. apply In_cells_of. exists u.
    split; [eapply In_firstn_in; exact Hu|exact Hc]. }
  assert (Hsub : forall cl, In cl (lsm_cells s' (live_s st) ++ mem_cells s') -> In cl (cells_of (firstn m (units st)))).
  { intros cl Hcl. apply in_app_or in Hcl. destruct Hcl as [Hcl|Hcl].
    - rewrite Hlsm in Hcl. apply Hfl. apply Pca. exact Hcl.
    - apply Hmem in Hcl. destruct Hcl as [n [_ Hcl]]. rewrite (Pq n) in Hcl.
      apply In_cells_of in Hcl. destruct Hcl as [u [Hu Hc]]. apply units_of_In in Hu.
      apply In_cells_of. exists u. split; [apply Hu|exact Hc]. }
  split.
  - intros e He. apply readable_In in He. destruct He as [cl [Hcl Hd]].
    pose proof (Hsub cl Hcl) as Hu. rewrite (Hder cl (Hsubm cl Hu)) in Hd. inversion Hd; subst e.
    apply in_map. exact Hu.
  - intros e He. apply in_map_iff in He. destruct He as [cl [<- Hcl]].
    pose proof Hcl as Hcl0. apply In_cells_of in Hcl. destruct Hcl as [u [Hu Hc]].
    pose proof (In_firstn_in _ _ _ _ Hu) as Hu'.
    destruct (N.le_gt_cases (fst u) (nflushed_s st)) as [Hle|Hgt].
    + assert (Hfc : In cl (cells_of (flushed_units (nflushed_s st) (units st)))).
      { apply In_cells_of. exists u. split; [|exact Hc]. unfold flushed_units. apply filter_In.
        split; [exact Hu'|apply N.leb_le; exact Hle]. }
      destruct (Pcb cl Hfc) as [Hin|[c' [Hin [Hk Hv]]]].
      * left. apply readable_In. exists cl. split; [apply in_or_app; left; rewrite Hlsm; exact Hin|].
        apply Hder. apply Hsubm. exact Hcl0.
      * right. exists (fst c'). split; [|split; assumption]. apply readable_In. exists c'.
        split; [apply in_or_app; left; rewrite Hlsm; exact Hin|]. apply Hder. apply Hsubm. apply Hfl. apply Pca. exact Hin.
    + left. apply readable_In. exists cl. split; [|apply Hder; apply Hsubm; exact Hcl0].
      apply in_or_app. right. apply Hmem. exists (fst u). split; [apply Pw1; [exact Hu'|lia]|].
      rewrite (Pq (fst u)). apply In_cells_of. exists u. split; [|exact Hc].
      apply units_of_In. split; [exact Hu|reflexivity].
Qed.

Theorem C10_power_loss_prefix_fixed : forall c tr st, fixed_sync c -> run c (init c) tr = Some st ->
  exists R, power_loss_result c st = Some R /\ prefix_ok st R.
Proof.
  intros c tr st Hc H.
  pose proof (inv_c_run c tr _ _ (inv_c_init c) H) as I.
  destruct (inv_p_run c tr _ _ 0%nat Hc (inv_c_init c) (inv_p_init c Hc) H) as [m P].
  destruct (power_loss_recovers c st m Hc I P) as [R [HR Href]]. exists R. split; [exact HR|].
  destruct (ip_m st m P) as [Pa Pb].
  exists m. split; [exact Pa|]. split.
  - unfold issued. rewrite app_length. unfold done_commits. rewrite map_length. eapply Nat.le_trans; [exact Pb|apply Nat.le_add_r].
  - assert (E : firstn m (issued st) = map (fun u => map fst (snd u)) (firstn m (units st))).
    { unfold issued, done_commits. rewrite firstn_app_le; [apply firstn_map|].
      rewrite map_length. exact Pb. }
    rewrite E, commits_concat. exact Href.
Qed.

Theorem C10_visible_state : forall c tr st, fixed_sync c -> run c (init c) tr = Some st ->
  exists R n, power_loss_result c st = Some R /\ (acked st <= n)%nat /\ (n <= length (issued st))%nat /\
    forall e, visible (concat (firstn n (issued st))) e <-> visible R e.
Proof.
  intros c tr st Hc H. destruct (C10_power_loss_prefix_fixed c tr st Hc H) as [R [HR [n [H1 [H2 H3]]]]].
  exists R, n. split; [exact HR|split; [exact H1|split; [exact H2|]]]. apply refines_visible. exact H3.
Qed.

(* ---- pinned tree: refutations (F9) ---- *)
Theorem C10_refuted_wal_name :
  exists tr st R, run (cfg_pinned true) (init (cfg_pinned true)) tr = Some st /\
    power_loss_result (cfg_pinned true) st = Some R /\ ~ prefix_ok st R.
Proof.
  exists (tr_f9_wal false). eexists. eexists. split; [vm_compute; reflexivity|]. split; [vm_compute; reflexivity|].
  intro H. apply prefix_okb_spec in H. vm_compute in H. discriminate.
Qed.
Theorem C10_refuted_table_name :
  exists tr st, run (cfg_pinned true) (init (cfg_pinned true)) tr = Some st /\
    power_loss_result (cfg_pinned true) st = None.
Proof. exists (tr_flush false). eexists. split; vm_compute; reflexivity. Qed.
Theorem C10_refuted_vlog_name :
  exists tr st R, run (cfg_pinned true) (init (cfg_pinned true)) tr = Some st /\
    power_loss_result (cfg_pinned true) st = Some R /\ ~ prefix_ok st R.
Proof.
  exists tr_f9_vlog. eexists. eexists. split; [vm_compute; reflexivity|]. split; [vm_compute; reflexivity|].
  intro H. apply prefix_okb_spec in H. vm_compute in H. discriminate.
Qed.

(* ---- the sync events the protocol guard insists on ----
   The C10 harness builds its traces with SyncFile / SyncDir events taken from the system calls
   the process really made (strace).  A missing sync is a missing event, and these are the
   places where the guard then rejects the trace: the acknowledgement (WAL msync), the release
   of a flushed WAL (its table must be in the MANIFEST as of the last MANIFEST fsync), the next
   change set (the previous one must be fsynced), a value pointer into the value log (the record
   must be in the synced image). *)
Lemma C10_guard_ack : forall c st st', sync_writes c = true ->
  pstep c st PAck = Some st' -> log_synced (pfs st) (Wal (walcur st)) = true.
Proof.
  intros c st st' Hs H. cbn in H. rewrite Hs in H. cbn in H.
  destruct (is_nil (todo st)); cbn in H; [|discriminate].
  destruct (log_synced (pfs st) (Wal (walcur st))); [reflexivity|discriminate].
Qed.

Lemma C10_guard_wal_release : forall c st f st',
  pstep c st (PE (Truncate0 (Wal f))) = Some st' \/ pstep c st (PE (Unlink (Wal f))) = Some st' ->
  f <= nflushed_s st.
Proof.
  intros c st f st' [H|H]; cbn in H; destruct (f <=? nflushed_s st) eqn:E; cbn in H; try discriminate;
    apply N.leb_le; exact E.
Qed.

Lemma C10_guard_changeset : forall c st cs st',
  pstep c st (PE (Append Manifest (IM cs))) = Some st' -> synced (pfs st) Manifest = true.
Proof.
  intros c st cs st' H. cbn in H.
  destruct (apply_changes (live st) cs); [|discriminate].
  destruct (synced (pfs st) Manifest); [reflexivity|].
  destruct (is_nil (deletes cs)).
  - destruct cs as [|ch rest]; [discriminate|]. destruct ch as [id l|id]; [|discriminate].
    destruct l; [|discriminate]. destruct rest; [|discriminate]. cbn in H. discriminate.
  - cbn in H. discriminate.
Qed.

Theorem C10_sync_events_required : forall c st,
  (forall st', sync_writes c = true -> pstep c st PAck = Some st' ->
     log_synced (pfs st) (Wal (walcur st)) = true) /\
  (forall f st', pstep c st (PE (Truncate0 (Wal f))) = Some st' \/ pstep c st (PE (Unlink (Wal f))) = Some st' ->
     f <= nflushed_s st) /\
  (forall cs st', pstep c st (PE (Append Manifest (IM cs))) = Some st' -> synced (pfs st) Manifest = true).
Proof.
  intros c st. split; [|split].
  - intros st'. apply C10_guard_ack.
  - intros f st'. apply C10_guard_wal_release.
  - intros cs st'. apply C10_guard_changeset.
Qed.

(* the seeded change "fsync the MANIFEST only for change sets that delete tables": the trace the
   harness reads off the system calls is rejected; with the fsync it is accepted and the
   power-loss image keeps the acknowledged commit; the same file-system events applied without
   the guard lose it (Open succeeds on a MANIFEST without the table, the WAL is gone) *)
Lemma C10_missing_manifest_sync :
  run (cfg_fixed true) (init (cfg_fixed true)) (tr_flush_release false) = None /\
  match run (cfg_fixed true) (init (cfg_fixed true)) (tr_flush_release true) with
  | Some st => match power_loss_result (cfg_fixed true) st with
               | Some R => prefix_okb st R && Nat.eqb (acked st) 1 && Nat.eqb (length R) 1
               | None => false end
  | None => false
  end = true /\
  recover (cfg_fixed true)
    (power_loss (apply_events (init_fs (cfg_fixed true)) (fs_events (tr_flush_release false)))) = Some [].
Proof. repeat split; vm_compute; reflexivity. Qed.
