(* LockProofs.v — invariants of the directory-lock protocol (Lock.v) over all label sequences. *)
From Coq Require Import List NArith Bool Lia Arith.
From Coq Require Import ZifyN ZifyNat ZifyBool.
From Verif Require Import Lock.
Import ListNotations.
Open Scope N_scope.

(* ---------- counting guards ---------- *)
Definition geqb (d : N) (ro : bool) (g : N * bool) : bool := (fst g =? d) && Bool.eqb (snd g) ro.

Fixpoint cnt (d : N) (ro : bool) (gs : list (N * bool)) : nat :=
  match gs with
  | [] => O
  | g :: r => ((if geqb d ro g then 1 else 0) + cnt d ro r)%nat
  end.

Lemma cnt_app : forall d ro a b, cnt d ro (a ++ b) = (cnt d ro a + cnt d ro b)%nat.
Proof. induction a as [|g a IH]; intros b; cbn [cnt app]; [reflexivity|rewrite IH; lia]. Qed.

Definition all_guards (hs : list (N * handle)) : list (N * bool) :=
  flat_map (fun ih => guards (snd ih)) hs.

Lemma all_guards_app : forall a b, all_guards (a ++ b) = all_guards a ++ all_guards b.
Proof. intros. unfold all_guards. apply flat_map_app. Qed.

Definition word_of (nrw nro : nat) : lockw :=
  match nrw, nro with
  | O, O => Free
  | O, _ => Shared nro
  | _, _ => Exclusive
  end.

Definition okc (nrw nro : nat) : Prop := nrw = O \/ (nrw = 1%nat /\ nro = O).

(* the lock word of every directory is the summary of the guards held on it *)
Definition inv_g (ds : dirs) (G : list (N * bool)) : Prop :=
  forall d, lw (ds d) = word_of (cnt d false G) (cnt d true G) /\ okc (cnt d false G) (cnt d true G).

Lemma inv_g_perm : forall ds G G', inv_g ds G ->
  (forall d ro, cnt d ro G' = cnt d ro G) -> inv_g ds G'.
Proof. intros ds G G' H E d. rewrite !E. apply H. Qed.

Lemma geqb_true : forall d ro d' ro', geqb d ro (d', ro') = true <-> d' = d /\ ro' = ro.
Proof.
  intros. unfold geqb. cbn [fst snd]. rewrite andb_true_iff, N.eqb_eq, eqb_true_iff. tauto.
Qed.

Lemma cnt_cons_other : forall d ro d' ro' G, (d' <> d \/ ro' <> ro) -> cnt d ro ((d', ro') :: G) = cnt d ro G.
Proof.
  intros d ro d' ro' G H. cbn [cnt]. destruct (geqb d ro (d', ro')) eqn:E; [|reflexivity].
  apply geqb_true in E. destruct E; subst. destruct H; congruence.
Qed.

Lemma cnt_cons_same : forall d ro G, cnt d ro ((d, ro) :: G) = S (cnt d ro G).
Proof.
  intros. cbn [cnt]. replace (geqb d ro (d, ro)) with true; [reflexivity|].
  symmetry. apply geqb_true. split; reflexivity.
Qed.

Lemma acquire_dirs : forall ds p d ro ds', acquire ds p d ro = Some ds' ->
  exists w, flock_try (lw (ds d)) ro = Some w /\ lw (ds' d) = w /\ forall d', d' <> d -> ds' d' = ds d'.
Proof.
  intros ds p d ro ds' H. unfold acquire in H. destruct (flock_try (lw (ds d)) ro) as [w|] eqn:E; [|discriminate].
  injection H as <-. exists w. split; [reflexivity|]. unfold upd. split.
  - rewrite N.eqb_refl. reflexivity.
  - intros d' Hd. apply N.eqb_neq in Hd. rewrite Hd. reflexivity.
Qed.

Lemma acquire_inv : forall ds G p d ro ds', inv_g ds G -> acquire ds p d ro = Some ds' ->
  inv_g ds' ((d, ro) :: G).
Proof.
  intros ds G p d ro ds' HI HA d'. apply acquire_dirs in HA. destruct HA as (w & Hw & Hl & Ho).
  destruct (N.eq_dec d' d) as [->|Hn].
  - destruct (HI d) as [Hlw Hok]. rewrite Hl. rewrite Hlw in Hw.
    destruct ro.
    + rewrite cnt_cons_same. rewrite (cnt_cons_other d false d true) by (right; discriminate).
      destruct Hok as [Hz|[H1 Hz]].
      * rewrite Hz in *. cbn [word_of] in *. destruct (cnt d true G); cbn in Hw; injection Hw as <-;
          (split; [reflexivity|left; reflexivity]).
      * rewrite H1, Hz in Hw. cbn in Hw. discriminate.
    + rewrite cnt_cons_same. rewrite (cnt_cons_other d true d false) by (right; discriminate).
      destruct Hok as [Hz|[H1 Hz]].
      * rewrite Hz in *. cbn [word_of] in *. destruct (cnt d true G) eqn:E; cbn in Hw; [|discriminate].
        injection Hw as <-. split; [reflexivity|right; split; reflexivity].
      * rewrite H1, Hz in Hw. cbn in Hw. discriminate.
  - rewrite (Ho d' Hn). rewrite !cnt_cons_other by (left; congruence). apply HI.
Qed.

(* a refused lock has a conflicting guard *)
Lemma acquire_none : forall ds G p d ro, inv_g ds G -> acquire ds p d ro = None ->
  (cnt d false G = 1%nat) \/ (ro = false /\ (cnt d true G > 0)%nat).
Proof.
  intros ds G p d ro HI HA. unfold acquire in HA.
  destruct (flock_try (lw (ds d)) ro) eqn:E; [discriminate|]. clear HA.
  destruct (HI d) as [Hlw Hok]. rewrite Hlw in E.
  destruct Hok as [Hz|[H1 Hz]]; [|left; assumption].
  rewrite Hz in E. cbn [word_of] in E. destruct (cnt d true G) eqn:En.
  - destruct ro; discriminate.
  - destruct ro; [discriminate|]. right. split; [reflexivity|lia].
Qed.

Lemma acquire_some : forall ds G p d ro, inv_g ds G ->
  cnt d false G = O -> (ro = true \/ cnt d true G = O) -> exists ds', acquire ds p d ro = Some ds'.
Proof.
  intros ds G p d ro HI Hz Hr. unfold acquire. destruct (HI d) as [Hlw _]. rewrite Hlw, Hz.
  cbn [word_of]. destruct (cnt d true G) eqn:E.
  - destruct ro; cbn; eexists; reflexivity.
  - destruct Hr as [->|Hr]; [cbn; eexists; reflexivity|discriminate].
Qed.

(* unlocking: any dirs update whose lock words are those of flock_unlock on d *)
Lemma unlock_inv : forall ds ds' A B d ro,
  inv_g ds (A ++ (d, ro) :: B) ->
  lw (ds' d) = flock_unlock (lw (ds d)) ro ->
  (forall d', d' <> d -> lw (ds' d') = lw (ds d')) ->
  inv_g ds' (A ++ B).
Proof.
  intros ds ds' A B d ro HI Hl Ho d'.
  destruct (N.eq_dec d' d) as [->|Hn].
  - destruct (HI d) as [Hlw Hok]. rewrite Hl, Hlw. rewrite !cnt_app in *.
    destruct ro.
    + rewrite cnt_cons_same in *. rewrite (cnt_cons_other d false d true) in * by (right; discriminate).
      destruct Hok as [Hz|[H1 Hz]]; [|lia].
      assert (Ha : cnt d false A = O) by lia. assert (Hb : cnt d false B = O) by lia.
      rewrite Ha, Hb in *. cbn [Nat.add word_of].
      replace (cnt d true A + S (cnt d true B))%nat with (S (cnt d true A + cnt d true B)) by lia.
      split; [|left; reflexivity].
      destruct (cnt d true A + cnt d true B)%nat; reflexivity.
    + rewrite cnt_cons_same in *. rewrite (cnt_cons_other d true d false) in * by (right; discriminate).
      destruct Hok as [Hz|[H1 Hz]]; [lia|].
      assert (Ha : cnt d false A = O) by lia. assert (Hb : cnt d false B = O) by lia.
      assert (Hc : cnt d true A = O) by lia. assert (Hd : cnt d true B = O) by lia.
      rewrite Ha, Hb, Hc, Hd in *. cbn. split; [reflexivity|left; reflexivity].
  - rewrite (Ho d' Hn). specialize (HI d'). rewrite !cnt_app in *.
    rewrite !cnt_cons_other in HI by (left; congruence). exact HI.
Qed.

Lemma release_lw : forall ds d ro, lw (release ds d ro d) = flock_unlock (lw (ds d)) ro
  /\ forall d', d' <> d -> release ds d ro d' = ds d'.
Proof.
  intros. unfold release, upd. rewrite N.eqb_refl. split; [reflexivity|].
  intros d' Hn. apply N.eqb_neq in Hn. rewrite Hn. reflexivity.
Qed.

Lemma drop_lw : forall ds d ro, lw (drop_lock ds d ro d) = flock_unlock (lw (ds d)) ro
  /\ forall d', d' <> d -> drop_lock ds d ro d' = ds d'.
Proof.
  intros. unfold drop_lock, upd. rewrite N.eqb_refl. split; [reflexivity|].
  intros d' Hn. apply N.eqb_neq in Hn. rewrite Hn. reflexivity.
Qed.

Lemma release_inv : forall ds A B d ro, inv_g ds (A ++ (d, ro) :: B) -> inv_g (release ds d ro) (A ++ B).
Proof.
  intros ds A B d ro HI. destruct (release_lw ds d ro) as [H1 H2].
  eapply unlock_inv; [exact HI|exact H1|]. intros d' Hn. rewrite (H2 d' Hn). reflexivity.
Qed.

Lemma drop_inv : forall ds A B d ro, inv_g ds (A ++ (d, ro) :: B) -> inv_g (drop_lock ds d ro) (A ++ B).
Proof.
  intros ds A B d ro HI. destruct (drop_lw ds d ro) as [H1 H2].
  eapply unlock_inv; [exact HI|exact H1|]. intros d' Hn. rewrite (H2 d' Hn). reflexivity.
Qed.

Lemma release_all_inv : forall gs ds A B, inv_g ds (A ++ gs ++ B) -> inv_g (release_all ds gs) (A ++ B).
Proof.
  induction gs as [|[d ro] gs IH]; intros ds A B HI; cbn [release_all app] in *; [exact HI|].
  apply IH. apply release_inv. exact HI.
Qed.

Lemma drop_all_inv : forall gs ds A B, inv_g ds (A ++ gs ++ B) -> inv_g (drop_all ds gs) (A ++ B).
Proof.
  induction gs as [|[d ro] gs IH]; intros ds A B HI; cbn [drop_all app] in *; [exact HI|].
  apply IH. apply drop_inv. exact HI.
Qed.

(* release after a successful acquire restores the lock word *)
Lemma release_acquire_lw : forall ds G p d ro ds', inv_g ds G -> acquire ds p d ro = Some ds' ->
  forall d', lw (release ds' d ro d') = lw (ds d').
Proof.
  intros ds G p d ro ds' HI HA d'. pose proof (acquire_inv _ _ _ _ _ _ HI HA) as HI'.
  pose proof (release_inv ds' [] G d ro HI') as HR. cbn [app] in HR.
  destruct (HR d') as [E1 _]. destruct (HI d') as [E2 _]. congruence.
Qed.

(* ---------- the state invariant ---------- *)
Definition inv (s : state) : Prop :=
  inv_g (st_dirs s) (all_guards (st_handles s))
  /\ (forall i h, In (i, h) (st_handles s) -> i < st_next s)
  /\ NoDup (map fst (st_handles s)).

Lemma inv_init : inv init.
Proof.
  unfold inv, init. cbn. split; [|split; [intros ? ? []|constructor]].
  intros d. cbn. split; [reflexivity|left; reflexivity].
Qed.

Lemma guards_handle_of : forall o, o_bypass o = false ->
  guards (handle_of o) = (o_dir o, o_ro o) :: (if o_same o then [] else [(o_vdir o, o_ro o)]).
Proof.
  intros o Hb. unfold guards, handle_of. cbn. rewrite Hb. destruct (o_same o); reflexivity.
Qed.

Lemma add_handle_inv : forall s ds o s' r, inv s ->
  inv_g ds (guards (handle_of o) ++ all_guards (st_handles s)) ->
  add_handle s ds o = (s', r) -> inv s'.
Proof.
  intros s ds o s' r (HI & Hlt & Hnd) HG HA. unfold add_handle in HA. injection HA as <- <-.
  unfold inv. cbn [st_dirs st_handles st_next]. split; [|split].
  - exact HG.
  - intros i h [E|Hin]; [injection E as <- <-; lia|]. specialize (Hlt i h Hin). lia.
  - cbn [map fst]. constructor; [|exact Hnd]. intros Hin. apply in_map_iff in Hin.
    destruct Hin as ([i h] & E & Hin). cbn in E. subst i. specialize (Hlt _ _ Hin). lia.
Qed.

Lemma with_dirs_inv : forall s ds, inv s -> inv_g ds (all_guards (st_handles s)) ->
  inv (mkS ds (st_handles s) (st_next s)).
Proof. intros s ds (_ & H2 & H3) HG. split; [exact HG|split; assumption]. Qed.

Lemma open_step_inv : forall s o s' r, inv s -> open_step s o = (s', r) -> inv s'.
Proof.
  intros s o s' r HI HS. pose proof HI as (HG & _ & _). unfold open_step in HS.
  destruct (o_env o) eqn:Ee; [injection HS as <- <-; exact HI| |].
  - (* EnvRest *)
    destruct (o_bypass o) eqn:Eb; [injection HS as <- <-; exact HI|].
    destruct (acquire (st_dirs s) (o_proc o) (o_dir o) (o_ro o)) as [d1|] eqn:E1;
      [|injection HS as <- <-; exact HI].
    pose proof (acquire_inv _ _ _ _ _ _ HG E1) as H1.
    destruct (o_same o) eqn:Es.
    + injection HS as <- <-. apply with_dirs_inv; [exact HI|]. apply (release_inv d1 [] _ _ _ H1).
    + destruct (acquire d1 (o_proc o) (o_vdir o) (o_ro o)) as [d2|] eqn:E2.
      * pose proof (acquire_inv _ _ _ _ _ _ H1 E2) as H2.
        injection HS as <- <-. apply with_dirs_inv; [exact HI|].
        apply (release_inv _ [] _ _ _). apply (release_inv d2 [] _ _ _ H2).
      * injection HS as <- <-. apply with_dirs_inv; [exact HI|]. apply (release_inv d1 [] _ _ _ H1).
  - (* EnvOk *)
    destruct (o_bypass o) eqn:Eb.
    + eapply add_handle_inv; [exact HI| |exact HS]. unfold guards, handle_of. cbn. rewrite Eb. exact HG.
    + destruct (acquire (st_dirs s) (o_proc o) (o_dir o) (o_ro o)) as [d1|] eqn:E1;
        [|injection HS as <- <-; exact HI].
      pose proof (acquire_inv _ _ _ _ _ _ HG E1) as H1.
      destruct (o_same o) eqn:Es.
      * eapply add_handle_inv; [exact HI| |exact HS]. rewrite guards_handle_of, Es by exact Eb. exact H1.
      * destruct (acquire d1 (o_proc o) (o_vdir o) (o_ro o)) as [d2|] eqn:E2.
        -- pose proof (acquire_inv _ _ _ _ _ _ H1 E2) as H2.
           eapply add_handle_inv; [exact HI| |exact HS]. rewrite guards_handle_of, Es by exact Eb.
           eapply inv_g_perm; [exact H2|]. intros d ro. cbn [app cnt]. lia.
        -- injection HS as <- <-. apply with_dirs_inv; [exact HI|]. apply (release_inv d1 [] _ _ _ H1).
Qed.

Lemma find_handle_split : forall i hs h, find_handle i hs = Some h ->
  exists A B, hs = A ++ (i, h) :: B /\ remove_handle i hs = A ++ B /\ ~ In i (map fst A).
Proof.
  induction hs as [|[j hj] r IH]; intros h H; cbn [find_handle] in H; [discriminate|].
  cbn [remove_handle]. destruct (j =? i) eqn:E.
  - apply N.eqb_eq in E. subst j. injection H as <-. exists [], r. cbn. tauto.
  - destruct (IH h H) as (A & B & E1 & E2 & E3). exists ((j, hj) :: A), B. subst r. rewrite E2.
    split; [reflexivity|split; [reflexivity|]]. cbn. apply N.eqb_neq in E. intros [F|F]; tauto.
Qed.

Lemma NoDup_app_remove : forall (A : list N) x B, NoDup (A ++ x :: B) -> NoDup (A ++ B) /\ ~ In x (A ++ B).
Proof. intros A x B H. split; [eapply NoDup_remove_1; exact H|eapply NoDup_remove_2; exact H]. Qed.

Lemma close_step_inv : forall s i s' r, inv s -> close_step s i = (s', r) -> inv s'.
Proof.
  intros s i s' r (HG & Hlt & Hnd) HS. unfold close_step in HS.
  destruct (find_handle i (st_handles s)) as [h|] eqn:E; [|injection HS as <- <-; unfold inv; auto].
  injection HS as <- <-. destruct (find_handle_split _ _ _ E) as (A & B & E1 & E2 & _).
  unfold inv. cbn [st_dirs st_handles st_next]. rewrite E2. rewrite E1 in *. split; [|split].
  - rewrite all_guards_app. apply release_all_inv. rewrite all_guards_app in HG.
    cbn [all_guards flat_map snd] in HG. fold (all_guards B) in HG. exact HG.
  - intros j hj Hin. apply (Hlt j hj). apply in_app_iff in Hin. apply in_app_iff.
    destruct Hin; [left|right; right]; assumption.
  - rewrite map_app in *. cbn [map fst] in Hnd. apply NoDup_app_remove in Hnd. apply Hnd.
Qed.

Lemma kill_handles_spec : forall p hs ds hs' ds' X,
  kill_handles p hs ds = (hs', ds') -> inv_g ds (all_guards hs ++ X) ->
  inv_g ds' (all_guards hs' ++ X)
  /\ (forall ih, In ih hs' <-> In ih hs /\ (h_proc (snd ih) =? p) = false)
  /\ (NoDup (map fst hs) -> NoDup (map fst hs')).
Proof.
  induction hs as [|[i h] r IH]; intros ds hs' ds' X HK HI; cbn [kill_handles] in HK.
  - injection HK as <- <-. split; [exact HI|]. split; [intros ih; cbn; tauto|auto].
  - destruct (kill_handles p r ds) as [r' dsr] eqn:E.
    assert (HI' : inv_g ds (all_guards r ++ (guards h ++ X))).
    { eapply inv_g_perm; [exact HI|]. intros d ro. cbn [all_guards flat_map snd]. fold (all_guards r).
      rewrite !cnt_app. lia. }
    destruct (IH ds r' dsr _ E HI') as (H1 & H2 & H3).
    destruct (h_proc h =? p) eqn:Ep; injection HK as <- <-.
    + split; [|split].
      * apply drop_all_inv. exact H1.
      * intros ih. rewrite H2. cbn [In]. split; [tauto|]. intros [[<-|Hin] Hp]; [cbn in Hp; congruence|tauto].
      * intros Hnd. apply H3. inversion Hnd; assumption.
    + split; [|split].
      * eapply inv_g_perm; [exact H1|]. intros d ro. cbn [all_guards flat_map snd]. fold (all_guards r').
        rewrite !cnt_app. lia.
      * intros ih. cbn [In]. rewrite H2. split; [intros [<-|[? ?]]; [split; [left; reflexivity|exact Ep]|tauto]|].
        intros [[<-|Hin] Hp]; [left; reflexivity|right; tauto].
      * intros Hnd. cbn [map fst]. inversion Hnd as [|? ? Hni Hnd']; subst. constructor; [|apply H3; exact Hnd'].
        intros Hin. apply Hni. apply in_map_iff in Hin. destruct Hin as (ih & Ei & Hin).
        apply H2 in Hin. apply in_map_iff. exists ih. tauto.
Qed.

Lemma kill_step_inv : forall s p s' r, inv s -> kill_step s p = (s', r) -> inv s'.
Proof.
  intros s p s' r (HG & Hlt & Hnd) HS. unfold kill_step in HS.
  destruct (kill_handles p (st_handles s) (st_dirs s)) as [hs ds] eqn:E. injection HS as <- <-.
  assert (HG' : inv_g (st_dirs s) (all_guards (st_handles s) ++ [])) by (rewrite app_nil_r; exact HG).
  destruct (kill_handles_spec _ _ _ _ _ _ E HG') as (H1 & H2 & H3).
  unfold inv. cbn [st_dirs st_handles st_next]. rewrite app_nil_r in H1. split; [exact H1|split].
  - intros i h Hin. apply H2 in Hin. apply (Hlt i h). tauto.
  - apply H3. exact Hnd.
Qed.

Lemma step_inv : forall s l s' r, inv s -> step s l = (s', r) -> inv s'.
Proof.
  intros s [o|h|p] s' r HI HS; cbn [step] in HS;
    [eapply open_step_inv|eapply close_step_inv|eapply kill_step_inv]; eassumption.
Qed.

Lemma exec_inv : forall ls s, inv s -> inv (fst (exec s ls)).
Proof.
  induction ls as [|l ls IH]; intros s HI; cbn [exec]; [exact HI|].
  destruct (step s l) as [s1 x] eqn:E. specialize (IH s1 (step_inv _ _ _ _ HI E)).
  destruct (exec s1 ls) as [s2 xs]. exact IH.
Qed.

Lemma reachable_inv : forall s, reachable s -> inv s.
Proof. intros s [ls <-]. apply exec_inv. exact inv_init. Qed.

(* ---------- holders and counts ---------- *)
Lemma holder_cnt : forall h d, h_bypass h = false -> h_same h = true -> h_vdir h = h_dir h -> uses h d ->
  (cnt d (h_ro h) (guards h) >= 1)%nat.
Proof.
  intros h d Hb Hs Hv Hu. assert (E : h_dir h = d) by (destruct Hu; congruence).
  unfold guards. rewrite Hb, Hs. subst d. rewrite cnt_cons_same. lia.
Qed.

Lemma holder_cnt' : forall h d, h_bypass h = false -> h_same h = false -> uses h d ->
  (cnt d (h_ro h) (guards h) >= 1)%nat.
Proof.
  intros h d Hb Hs [Hu|Hu]; unfold guards; rewrite Hb, Hs; subst d.
  - rewrite cnt_cons_same. lia.
  - cbn [cnt]. replace (geqb (h_vdir h) (h_ro h) (h_vdir h, h_ro h)) with true; [lia|].
    symmetry. apply geqb_true. split; reflexivity.
Qed.

(* handles in reachable states are normalised: same-path handles have ValueDir = Dir *)
Definition norm (s : state) : Prop := forall i h, In (i, h) (st_handles s) -> h_same h = true -> h_vdir h = h_dir h.

Lemma norm_handle_of : forall o, h_same (handle_of o) = true -> h_vdir (handle_of o) = h_dir (handle_of o).
Proof. intros o H. unfold handle_of in *. cbn in *. rewrite H. reflexivity. Qed.

Lemma add_handle_norm : forall s ds o s' r, norm s -> add_handle s ds o = (s', r) -> norm s'.
Proof.
  intros s ds o s' r HN HA. unfold add_handle in HA. injection HA as <- <-. intros i h [E|Hin] Hs.
  - injection E as <- <-. apply norm_handle_of. exact Hs.
  - exact (HN i h Hin Hs).
Qed.

Lemma open_step_handles : forall s o s' r, open_step s o = (s', r) ->
  (st_handles s' = st_handles s /\ st_next s' = st_next s /\ (r = RLockFail \/ r = ROtherFail))
  \/ (exists ds, add_handle s ds o = (s', r) /\ o_env o = EnvOk).
Proof.
  intros s o s' r HS. unfold open_step in HS.
  destruct (o_env o) eqn:Ee; [injection HS as <- <-; left; auto| |].
  - destruct (o_bypass o); [injection HS as <- <-; left; auto|].
    destruct (acquire _ _ _ _) as [d1|]; [|injection HS as <- <-; left; auto].
    destruct (o_same o); [injection HS as <- <-; left; auto|].
    destruct (acquire _ _ _ _) as [d2|]; injection HS as <- <-; left; auto.
  - destruct (o_bypass o); [right; eexists; split; [exact HS|reflexivity]|].
    destruct (acquire _ _ _ _) as [d1|]; [|injection HS as <- <-; left; auto].
    destruct (o_same o); [right; eexists; split; [exact HS|reflexivity]|].
    destruct (acquire _ _ _ _) as [d2|]; [right; eexists; split; [exact HS|reflexivity]|].
    injection HS as <- <-; left; auto.
Qed.

Lemma step_norm : forall s l s' r, norm s -> step s l = (s', r) -> norm s'.
Proof.
  intros s [o|i|p] s' r HN HS; cbn [step] in HS.
  - destruct (open_step_handles _ _ _ _ HS) as [(E & _)|(ds & HA & _)].
    + intros j h Hin. rewrite E in Hin. exact (HN j h Hin).
    + eapply add_handle_norm; eassumption.
  - unfold close_step in HS. destruct (find_handle i (st_handles s)) as [h|] eqn:E; [|injection HS as <- <-; exact HN].
    injection HS as <- <-. destruct (find_handle_split _ _ _ E) as (A & B & E1 & E2 & _).
    intros j hj Hin. cbn [st_handles] in Hin. rewrite E2 in Hin. apply (HN j hj). rewrite E1.
    apply in_app_iff in Hin. apply in_app_iff. destruct Hin; [left|right; right]; assumption.
  - unfold kill_step in HS. destruct (kill_handles p (st_handles s) (st_dirs s)) as [hs ds] eqn:E.
    injection HS as <- <-. intros j hj Hin. cbn [st_handles] in Hin.
    assert (HX : forall hs0 ds0 hs1 ds1, kill_handles p hs0 ds0 = (hs1, ds1) -> forall x, In x hs1 -> In x hs0).
    { induction hs0 as [|[a b] r0 IH]; intros ds0 hs1 ds1 HK x Hx; cbn [kill_handles] in HK.
      - injection HK as <- <-. exact Hx.
      - destruct (kill_handles p r0 ds0) as [r' dsr] eqn:Er. destruct (h_proc b =? p); injection HK as <- <-.
        + right. eapply IH; [exact Er|exact Hx].
        + destruct Hx as [<-|Hx]; [left; reflexivity|right; eapply IH; [exact Er|exact Hx]]. }
    apply (HN j hj). eapply HX; eassumption.
Qed.

Lemma exec_norm : forall ls s, norm s -> norm (fst (exec s ls)).
Proof.
  induction ls as [|l ls IH]; intros s HN; cbn [exec]; [exact HN|].
  destruct (step s l) as [s1 x] eqn:E. specialize (IH s1 (step_norm _ _ _ _ HN E)).
  destruct (exec s1 ls) as [s2 xs]. exact IH.
Qed.

Lemma reachable_norm : forall s, reachable s -> norm s.
Proof. intros s [ls <-]. apply exec_norm. intros i h []. Qed.

Lemma holder_guard_cnt : forall s i h d, norm s -> holder s i h d -> (cnt d (h_ro h) (guards h) >= 1)%nat.
Proof.
  intros s i h d HN (Hin & Hb & Hu). destruct (h_same h) eqn:Es.
  - apply holder_cnt; auto. exact (HN i h Hin Es).
  - apply holder_cnt'; auto.
Qed.

Lemma in_cnt_ge : forall hs i h d ro, In (i, h) hs -> (cnt d ro (all_guards hs) >= cnt d ro (guards h))%nat.
Proof.
  intros hs i h d ro Hin. apply in_split in Hin. destruct Hin as (A & B & ->).
  rewrite all_guards_app. cbn [all_guards flat_map snd]. rewrite !cnt_app. lia.
Qed.

Lemma in2_cnt_ge : forall hs i1 h1 i2 h2 d ro1 ro2, In (i1, h1) hs -> In (i2, h2) hs -> i1 <> i2 ->
  (cnt d ro1 (all_guards hs) >= (if Bool.eqb ro1 ro2 then cnt d ro1 (guards h1) + cnt d ro1 (guards h2) else cnt d ro1 (guards h1)))%nat
  /\ (cnt d ro2 (all_guards hs) >= (if Bool.eqb ro1 ro2 then cnt d ro2 (guards h1) + cnt d ro2 (guards h2) else cnt d ro2 (guards h2)))%nat.
Proof.
  intros hs i1 h1 i2 h2 d ro1 ro2 H1 H2 Hne. apply in_split in H1. destruct H1 as (A & B & ->).
  assert (H2' : In (i2, h2) (A ++ B)).
  { apply in_app_iff in H2. apply in_app_iff. destruct H2 as [H2|[H2|H2]]; [left; exact H2| |right; exact H2].
    injection H2 as E _. congruence. }
  pose proof (in_cnt_ge (A ++ B) i2 h2 d ro1 H2') as G1. pose proof (in_cnt_ge (A ++ B) i2 h2 d ro2 H2') as G2.
  rewrite all_guards_app in *. cbn [all_guards flat_map snd]. fold (all_guards B). rewrite !cnt_app in *.
  destruct (Bool.eqb ro1 ro2) eqn:E; [apply eqb_prop in E; subst ro2|]; lia.
Qed.

(* ---------- C35 ---------- *)

(* exclusion: two distinct non-bypassing handles that use the same directory are both read-only *)
Theorem exclusion : forall s, reachable s -> forall d i1 h1 i2 h2,
  holder s i1 h1 d -> holder s i2 h2 d -> i1 <> i2 -> h_ro h1 = true /\ h_ro h2 = true.
Proof.
  intros s HR d i1 h1 i2 h2 H1 H2 Hne. pose proof (reachable_inv s HR) as (HG & _ & _).
  pose proof (reachable_norm s HR) as HN.
  pose proof (holder_guard_cnt _ _ _ _ HN H1) as C1. pose proof (holder_guard_cnt _ _ _ _ HN H2) as C2.
  destruct H1 as (I1 & _ & _). destruct H2 as (I2 & _ & _).
  destruct (in2_cnt_ge _ _ _ _ _ d (h_ro h1) (h_ro h2) I1 I2 Hne) as [G1 G2].
  destruct (HG d) as [_ Hok]. destruct (h_ro h1) eqn:R1, (h_ro h2) eqn:R2; cbn [Bool.eqb] in *;
    try (split; reflexivity); exfalso; destruct Hok as [Hz|[Ho Hz]]; lia.
Qed.

(* a read-write holder holds its directory once (never together with a second guard of its own) *)
Theorem rw_holder_word : forall s, reachable s -> forall d i h, holder s i h d -> h_ro h = false ->
  lw (st_dirs s d) = Exclusive.
Proof.
  intros s HR d i h H Hro. pose proof (reachable_inv s HR) as (HG & _ & _).
  pose proof (holder_guard_cnt _ _ _ _ (reachable_norm s HR) H) as C. destruct H as (I & _ & _).
  pose proof (in_cnt_ge _ _ _ d (h_ro h) I) as G. rewrite Hro in *. destruct (HG d) as [-> Hok].
  destruct (cnt d false (all_guards (st_handles s))); [lia|]. destruct Hok as [?|[? ->]]; [lia|reflexivity].
Qed.

Lemma no_holder_cnt : forall s d, norm s -> (forall i h, ~ holder s i h d) -> forall ro,
  cnt d ro (all_guards (st_handles s)) = O.
Proof.
  intros s d HN HH ro. assert (forall hs, (forall i h, In (i, h) hs -> In (i, h) (st_handles s)) -> cnt d ro (all_guards hs) = O) as X.
  { induction hs as [|[i h] r IH]; intros Hsub; [reflexivity|]. cbn [all_guards flat_map snd]. fold (all_guards r).
    rewrite cnt_app, IH by (intros; apply Hsub; right; assumption). rewrite Nat.add_0_r.
    assert (Hin : In (i, h) (st_handles s)) by (apply Hsub; left; reflexivity).
    unfold guards. destruct (h_bypass h) eqn:Eb; [reflexivity|].
    assert (N1 : h_dir h <> d) by (intros E; apply (HH i h); split; [exact Hin|split; [exact Eb|left; exact E]]).
    assert (N2 : h_vdir h <> d) by (intros E; apply (HH i h); split; [exact Hin|split; [exact Eb|right; exact E]]).
    rewrite cnt_cons_other by (left; exact N1). destruct (h_same h); [reflexivity|].
    rewrite cnt_cons_other by (left; exact N2). reflexivity. }
  apply X. auto.
Qed.

Lemma ro_holders_cnt : forall s d, norm s -> (forall i h, holder s i h d -> h_ro h = true) ->
  cnt d false (all_guards (st_handles s)) = O.
Proof.
  intros s d HN HH. assert (forall hs, (forall i h, In (i, h) hs -> In (i, h) (st_handles s)) -> cnt d false (all_guards hs) = O) as X.
  { induction hs as [|[i h] r IH]; intros Hsub; [reflexivity|]. cbn [all_guards flat_map snd]. fold (all_guards r).
    rewrite cnt_app, IH by (intros; apply Hsub; right; assumption). rewrite Nat.add_0_r.
    assert (Hin : In (i, h) (st_handles s)) by (apply Hsub; left; reflexivity).
    unfold guards. destruct (h_bypass h) eqn:Eb; [reflexivity|].
    destruct (h_ro h) eqn:Er.
    - rewrite cnt_cons_other by (right; discriminate). destruct (h_same h); [reflexivity|].
      rewrite cnt_cons_other by (right; discriminate). reflexivity.
    - assert (N1 : h_dir h <> d).
      { intros E. assert (holder s i h d) as Hh by (split; [exact Hin|split; [exact Eb|left; exact E]]).
        specialize (HH _ _ Hh). congruence. }
      assert (N2 : h_vdir h <> d).
      { intros E. assert (holder s i h d) as Hh by (split; [exact Hin|split; [exact Eb|right; exact E]]).
        specialize (HH _ _ Hh). congruence. }
      rewrite cnt_cons_other by (left; exact N1). destruct (h_same h); [reflexivity|].
      rewrite cnt_cons_other by (left; exact N2). reflexivity. }
  apply X. auto.
Qed.

(* an open that meets no conflicting holder on Dir and ValueDir, and is not refused by the rest of
   Open, succeeds.  "No conflict": every holder of the two directories is read-only and so is the
   request, or there is no holder at all. *)
Definition no_conflict (s : state) (o : openreq) (d : N) : Prop :=
  (forall i h, ~ holder s i h d) \/ (o_ro o = true /\ forall i h, holder s i h d -> h_ro h = true).

Theorem open_succeeds : forall s o, reachable s -> o_env o = EnvOk -> ~ self_conflict o ->
  no_conflict s o (o_dir o) -> no_conflict s o (o_vd o) ->
  exists s', open_step s o = (s', ROk (st_next s))
             /\ st_handles s' = (st_next s, handle_of o) :: st_handles s.
Proof.
  intros s o HR He Hsc Hd Hv. pose proof (reachable_inv s HR) as (HG & _ & _).
  pose proof (reachable_norm s HR) as HN. unfold open_step. rewrite He.
  destruct (o_bypass o) eqn:Eb; [eexists; split; reflexivity|].
  assert (Cd : cnt (o_dir o) false (all_guards (st_handles s)) = O
               /\ (o_ro o = true \/ cnt (o_dir o) true (all_guards (st_handles s)) = O)).
  { destruct Hd as [Hd|[Hr Hd]].
    - split; [|right]; apply no_holder_cnt; assumption.
    - split; [apply ro_holders_cnt; assumption|left; exact Hr]. }
  destruct (acquire_some _ _ (o_proc o) _ (o_ro o) HG (proj1 Cd) (proj2 Cd)) as [d1 E1]. rewrite E1.
  destruct (o_same o) eqn:Es; [eexists; split; reflexivity|].
  pose proof (acquire_inv _ _ _ _ _ _ HG E1) as H1. unfold o_vd in Hv. rewrite Es in Hv.
  assert (Cv : cnt (o_vdir o) false ((o_dir o, o_ro o) :: all_guards (st_handles s)) = O
               /\ (o_ro o = true \/ cnt (o_vdir o) true ((o_dir o, o_ro o) :: all_guards (st_handles s)) = O)).
  { destruct (o_ro o) eqn:Er.
    - split; [|left; reflexivity]. rewrite cnt_cons_other by (right; discriminate).
      destruct Hv as [Hv|[_ Hv]]; [apply no_holder_cnt|apply ro_holders_cnt]; assumption.
    - assert (Hne : o_vdir o <> o_dir o).
      { intros E. apply Hsc. unfold self_conflict. auto. }
      destruct Hv as [Hv|[Hr _]]; [|congruence].
      rewrite !cnt_cons_other by (left; congruence). split; [|right]; apply no_holder_cnt; assumption. }
  destruct (acquire_some _ _ (o_proc o) _ (o_ro o) H1 (proj1 Cv) (proj2 Cv)) as [d2 E2]. rewrite E2.
  eexists; split; reflexivity.
Qed.

(* Close of an open handle succeeds, removes exactly that handle, and nothing else changes hands *)
Theorem close_removes : forall s i h, reachable s -> In (i, h) (st_handles s) ->
  exists s', close_step s i = (s', RClosed)
    /\ (forall j hj, In (j, hj) (st_handles s') <-> In (j, hj) (st_handles s) /\ j <> i).
Proof.
  intros s i h HR Hin. pose proof (reachable_inv s HR) as (_ & _ & Hnd).
  assert (E : find_handle i (st_handles s) = Some h).
  { revert Hnd Hin. generalize (st_handles s). induction l as [|[j hj] r IH]; intros Hnd Hin; [destruct Hin|].
    cbn [find_handle]. cbn [map fst] in Hnd. inversion Hnd as [|? ? Hni Hnd']; subst.
    destruct Hin as [E|Hin].
    - injection E as -> ->. rewrite N.eqb_refl. reflexivity.
    - destruct (j =? i) eqn:Ej; [|apply IH; assumption]. apply N.eqb_eq in Ej. subst j. exfalso. apply Hni.
      apply in_map_iff. exists (i, h). split; [reflexivity|exact Hin]. }
  unfold close_step. rewrite E. eexists. split; [reflexivity|]. cbn [st_handles].
  destruct (find_handle_split _ _ _ E) as (A & B & E1 & E2 & HA). rewrite E2. rewrite E1 in *.
  rewrite map_app in Hnd. cbn [map fst] in Hnd. apply NoDup_app_remove in Hnd. destruct Hnd as [_ Hni].
  intros j hj. rewrite !in_app_iff. cbn [In]. split.
  - intros Hj. split; [tauto|]. intros ->. apply Hni. rewrite <- map_app. apply in_map_iff.
    exists (i, hj). split; [reflexivity|apply in_app_iff; exact Hj].
  - intros [[Hj|[Hj|Hj]] Hne]; [left; exact Hj| |right; exact Hj]. injection Hj as -> _. congruence.
Qed.

(* every failed open leaves all lock words and handles as they were *)
Theorem failed_open_releases : forall s o s' r, reachable s -> open_step s o = (s', r) ->
  (forall h, r <> ROk h) ->
  st_handles s' = st_handles s /\ forall d, lw (st_dirs s' d) = lw (st_dirs s d).
Proof.
  intros s o s' r HR HS Hr. pose proof (reachable_inv s HR) as (HG & _ & _). unfold open_step in HS.
  assert (Hadd : forall ds, add_handle s ds o = (s', r) -> False).
  { intros ds HA. unfold add_handle in HA. injection HA as _ <-. eapply Hr; reflexivity. }
  destruct (o_env o); [injection HS as <- <-; auto| |].
  - destruct (o_bypass o); [injection HS as <- <-; auto|].
    destruct (acquire (st_dirs s) _ _ _) as [d1|] eqn:E1; [|injection HS as <- <-; auto].
    destruct (o_same o).
    + injection HS as <- <-. split; [reflexivity|]. cbn [st_dirs]. eapply release_acquire_lw; eassumption.
    + pose proof (acquire_inv _ _ _ _ _ _ HG E1) as H1.
      destruct (acquire d1 _ _ _) as [d2|] eqn:E2; injection HS as <- <-; (split; [reflexivity|]); cbn [st_dirs]; intros d.
      * pose proof (release_acquire_lw _ _ _ _ _ _ H1 E2) as R2.
        pose proof (acquire_inv _ _ _ _ _ _ H1 E2) as H2.
        pose proof (release_inv d2 [] _ _ _ H2) as H3. cbn [app] in H3.
        pose proof (release_inv _ [] _ _ _ H3) as H4. cbn [app] in H4.
        destruct (H4 d) as [-> _]. destruct (HG d) as [-> _]. reflexivity.
      * eapply release_acquire_lw; eassumption.
  - destruct (o_bypass o); [exfalso; eapply Hadd; exact HS|].
    destruct (acquire (st_dirs s) _ _ _) as [d1|] eqn:E1; [|injection HS as <- <-; auto].
    destruct (o_same o); [exfalso; eapply Hadd; exact HS|].
    destruct (acquire d1 _ _ _) as [d2|] eqn:E2; [exfalso; eapply Hadd; exact HS|].
    injection HS as <- <-. split; [reflexivity|]. cbn [st_dirs]. eapply release_acquire_lw; eassumption.
Qed.

(* the partial-failure path exists and is the RLockFail at ValueDir: Dir granted, ValueDir refused *)
Theorem partial_failure : forall s o d1, reachable s -> o_env o <> EnvPre -> o_bypass o = false ->
  o_same o = false ->
  acquire (st_dirs s) (o_proc o) (o_dir o) (o_ro o) = Some d1 ->
  acquire d1 (o_proc o) (o_vdir o) (o_ro o) = None ->
  exists s', open_step s o = (s', RLockFail)
    /\ st_handles s' = st_handles s /\ forall d, lw (st_dirs s' d) = lw (st_dirs s d).
Proof.
  intros s o d1 HR He Hb Hs E1 E2.
  assert (HS : exists s', open_step s o = (s', RLockFail)).
  { unfold open_step. rewrite Hb, E1, Hs, E2. destruct (o_env o); [congruence| |]; eexists; reflexivity. }
  destruct HS as [s' HS]. exists s'. split; [exact HS|]. eapply failed_open_releases; [exact HR|exact HS|discriminate].
Qed.


(* ---------- a refused lock has a live conflicting holder ---------- *)
Lemma cnt_pos_holder : forall hs d ro, (cnt d ro (all_guards hs) > 0)%nat ->
  exists i h, In (i, h) hs /\ h_bypass h = false /\ uses h d /\ h_ro h = ro.
Proof.
  induction hs as [|[i h] r IH]; intros d ro Hc; [cbn in Hc; lia|].
  cbn [all_guards flat_map snd] in Hc. fold (all_guards r) in Hc. rewrite cnt_app in Hc.
  destruct (cnt d ro (guards h)) eqn:E.
  - destruct (IH d ro) as (j & hj & Hin & Hj); [lia|]. exists j, hj. split; [right; exact Hin|exact Hj].
  - exists i, h. split; [left; reflexivity|]. unfold guards in E. destruct (h_bypass h) eqn:Eb; [discriminate|].
    split; [reflexivity|]. cbn [cnt] in E.
    destruct (geqb d ro (h_dir h, h_ro h)) eqn:G1.
    + apply geqb_true in G1. destruct G1. split; [left; assumption|assumption].
    + destruct (h_same h); [discriminate|]. cbn [cnt] in E.
      destruct (geqb d ro (h_vdir h, h_ro h)) eqn:G2; [|discriminate].
      apply geqb_true in G2. destruct G2. split; [right; assumption|assumption].
Qed.

Theorem lock_fail_has_holder : forall s o s', reachable s -> open_step s o = (s', RLockFail) ->
  self_conflict o \/
  exists i h d, holder s i h d /\ (d = o_dir o \/ d = o_vd o) /\ (h_ro h = false \/ o_ro o = false).
Proof.
  intros s o s' HR HS. pose proof (reachable_inv s HR) as (HG & _ & _). unfold open_step in HS.
  assert (Hadd : forall ds, add_handle s ds o = (s', RLockFail) -> False)
    by (intros ds HA; unfold add_handle in HA; discriminate).
  assert (Conf : forall d, (cnt d false (all_guards (st_handles s)) = 1%nat
                            \/ (o_ro o = false /\ (cnt d true (all_guards (st_handles s)) > 0)%nat)) ->
          exists i h, holder s i h d /\ (h_ro h = false \/ o_ro o = false)).
  { intros d [Hc|[Hr Hc]].
    - destruct (cnt_pos_holder (st_handles s) d false) as (i & h & Hin & Hb & Hu & Hro); [lia|].
      exists i, h. split; [split; [exact Hin|split; assumption]|left; exact Hro].
    - destruct (cnt_pos_holder (st_handles s) d true Hc) as (i & h & Hin & Hb & Hu & Hro).
      exists i, h. split; [split; [exact Hin|split; assumption]|right; exact Hr]. }
  assert (Main : o_bypass o = false ->
    match acquire (st_dirs s) (o_proc o) (o_dir o) (o_ro o) with
    | None => True
    | Some d1 => o_same o = false -> acquire d1 (o_proc o) (o_vdir o) (o_ro o) = None ->
        self_conflict o \/ exists i h, holder s i h (o_vdir o) /\ (h_ro h = false \/ o_ro o = false)
    end).
  { intros Eb. destruct (acquire (st_dirs s) _ _ _) as [d1|] eqn:E1; [|exact I]. intros Es E2.
    pose proof (acquire_inv _ _ _ _ _ _ HG E1) as H1.
    destruct (acquire_none _ _ _ _ _ H1 E2) as [Hc|[Hr Hc]].
    - destruct (N.eq_dec (o_vdir o) (o_dir o)) as [Ev|Ev].
      + destruct (o_ro o) eqn:Er.
        * rewrite cnt_cons_other in Hc by (right; discriminate). right. apply Conf. left. exact Hc.
        * left. unfold self_conflict. auto.
      + rewrite cnt_cons_other in Hc by (left; congruence). right. apply Conf. left. exact Hc.
    - destruct (N.eq_dec (o_vdir o) (o_dir o)) as [Ev|Ev]; [left; unfold self_conflict; auto|].
      rewrite cnt_cons_other in Hc by (left; congruence). right. apply Conf. right. split; assumption. }
  destruct (o_env o); [discriminate| |].
  - destruct (o_bypass o) eqn:Eb; [discriminate|]. specialize (Main eq_refl).
    destruct (acquire (st_dirs s) _ _ _) as [d1|] eqn:E1.
    + destruct (o_same o) eqn:Es; [discriminate|]. destruct (acquire d1 _ _ _) as [d2|] eqn:E2; [discriminate|].
      destruct (Main eq_refl eq_refl) as [?|(i & h & Hh & Hm)]; [left; assumption|]. right. exists i, h, (o_vdir o).
      split; [exact Hh|split; [right; unfold o_vd; rewrite Es; reflexivity|exact Hm]].
    + right. destruct (Conf _ (acquire_none _ _ _ _ _ HG E1)) as (i & h & Hh & Hm). exists i, h, (o_dir o). auto.
  - destruct (o_bypass o) eqn:Eb; [exfalso; eapply Hadd; exact HS|]. specialize (Main eq_refl).
    destruct (acquire (st_dirs s) _ _ _) as [d1|] eqn:E1.
    + destruct (o_same o) eqn:Es; [exfalso; eapply Hadd; exact HS|].
      destruct (acquire d1 _ _ _) as [d2|] eqn:E2; [exfalso; eapply Hadd; exact HS|].
      destruct (Main eq_refl eq_refl) as [?|(i & h & Hh & Hm)]; [left; assumption|]. right. exists i, h, (o_vdir o).
      split; [exact Hh|split; [right; unfold o_vd; rewrite Es; reflexivity|exact Hm]].
    + right. destruct (Conf _ (acquire_none _ _ _ _ _ HG E1)) as (i & h & Hh & Hm). exists i, h, (o_dir o). auto.
Qed.

(* ---------- closing everything ---------- *)
Lemma exec_app : forall a b s, fst (exec s (a ++ b)) = fst (exec (fst (exec s a)) b).
Proof.
  induction a as [|l a IH]; intros b s; cbn [app exec fst]; [reflexivity|].
  destruct (step s l) as [s1 x]. specialize (IH b s1).
  destruct (exec s1 (a ++ b)) as [s2 xs]. destruct (exec s1 a) as [s3 ys]. cbn [fst] in *. exact IH.
Qed.

Lemma reachable_exec : forall s ls, reachable s -> reachable (fst (exec s ls)).
Proof. intros s ls [l0 <-]. exists (l0 ++ ls). apply exec_app. Qed.

Definition close_all_labels (s : state) : list label := map (fun ih => Close (fst ih)) (st_handles s).

Lemma close_all_empty : forall l s, st_handles s = l ->
  st_handles (fst (exec s (map (fun ih => Close (fst ih)) l))) = [].
Proof.
  induction l as [|[i h] r IH]; intros s E; cbn [map exec fst]; [exact E|].
  cbn [step]. unfold close_step. rewrite E. cbn [find_handle remove_handle]. rewrite N.eqb_refl.
  match goal with |- context [exec ?s1 _] => specialize (IH s1 eq_refl) end.
  destruct (exec _ _) as [s2 xs]. exact IH.
Qed.

Theorem release_after_close_all : forall s o, reachable s -> o_env o = EnvOk -> ~ self_conflict o ->
  let s0 := fst (exec s (close_all_labels s)) in
  exists s', open_step s0 o = (s', ROk (st_next s0)).
Proof.
  intros s o HR He Hsc s0.
  assert (H0 : st_handles s0 = []) by (apply close_all_empty; reflexivity).
  assert (HR0 : reachable s0) by (apply reachable_exec; exact HR).
  destruct (open_succeeds s0 o HR0 He Hsc) as (s' & HS & _).
  - left. intros i h (Hin & _). rewrite H0 in Hin. destruct Hin.
  - left. intros i h (Hin & _). rewrite H0 in Hin. destruct Hin.
  - exists s'. exact HS.
Qed.

(* ---------- the advisory pid file names the read-write holder ---------- *)
Definition pid_inv (s : state) : Prop := forall i h d, holder s i h d -> h_ro h = false ->
  pidf (st_dirs s d) = Some (h_proc h).

Lemma rw_holder_word_inv : forall s d i h, inv s -> norm s -> holder s i h d -> h_ro h = false ->
  lw (st_dirs s d) = Exclusive.
Proof.
  intros s d i h (HG & _ & _) HN H Hro.
  pose proof (holder_guard_cnt _ _ _ _ HN H) as C. destruct H as (I & _ & _).
  pose proof (in_cnt_ge _ _ _ d (h_ro h) I) as G. rewrite Hro in *. destruct (HG d) as [-> Hok].
  destruct (cnt d false (all_guards (st_handles s))); [lia|]. destruct Hok as [?|[? ->]]; [lia|reflexivity].
Qed.

Lemma acquire_excl_other : forall ds p d ro ds' d', acquire ds p d ro = Some ds' ->
  lw (ds d') = Exclusive -> d <> d' /\ ds' d' = ds d'.
Proof.
  intros ds p d ro ds' d' HA HE. destruct (acquire_dirs _ _ _ _ _ HA) as (w & Hw & _ & Ho).
  assert (d <> d') by (intros ->; rewrite HE in Hw; destruct ro; discriminate).
  split; [assumption|apply Ho; congruence].
Qed.

Lemma release_other : forall ds d ro d', d <> d' -> release ds d ro d' = ds d'.
Proof. intros. apply release_lw. congruence. Qed.

Lemma open_step_excl_untouched : forall s o s' r d', open_step s o = (s', r) ->
  lw (st_dirs s d') = Exclusive -> st_dirs s' d' = st_dirs s d'.
Proof.
  intros s o s' r d' HS HE. unfold open_step, add_handle in HS.
  destruct (o_env o); [injection HS as <- <-; reflexivity| |];
  (destruct (o_bypass o); [injection HS as <- <-; reflexivity|]);
  (destruct (acquire (st_dirs s) _ _ _) as [d1|] eqn:E1; [|injection HS as <- <-; reflexivity]);
  destruct (acquire_excl_other _ _ _ _ _ _ E1 HE) as [N1 Q1];
  (destruct (o_same o); [injection HS as <- <-; cbn [st_dirs]; try rewrite release_other by exact N1; exact Q1|]);
  (destruct (acquire d1 _ _ _) as [d2|] eqn:E2;
   [assert (HE1 : lw (d1 d') = Exclusive) by (rewrite Q1; exact HE);
    destruct (acquire_excl_other _ _ _ _ _ _ E2 HE1) as [N2 Q2]|]);
  injection HS as <- <-; cbn [st_dirs]; rewrite ?release_other by assumption; congruence.
Qed.

Lemma acquire_pid_rw : forall ds p d ds', acquire ds p d false = Some ds' -> pidf (ds' d) = Some p.
Proof.
  intros ds p d ds' H. unfold acquire in H. destruct (flock_try _ _); [|discriminate]. injection H as <-.
  unfold upd. rewrite N.eqb_refl. reflexivity.
Qed.

Lemma open_step_new_pid : forall s o s' h d, inv s -> open_step s o = (s', ROk h) ->
  o_bypass o = false -> o_ro o = false -> (d = o_dir o \/ d = o_vd o) -> pidf (st_dirs s' d) = Some (o_proc o).
Proof.
  intros s o s' h d (HG & _ & _) HS Eb Er Hd. unfold open_step, add_handle, o_vd in *. rewrite Eb, Er in *.
  destruct (o_env o); [discriminate| |];
  (destruct (acquire (st_dirs s) _ _ _) as [d1|] eqn:E1; [|discriminate]);
  (destruct (o_same o) eqn:Es; [try discriminate|
    destruct (acquire d1 _ _ _) as [d2|] eqn:E2; [|discriminate]; try discriminate]).
  - injection HS as <- _. cbn [st_dirs]. assert (d = o_dir o) as -> by tauto. eapply acquire_pid_rw; exact E1.
  - injection HS as <- _. cbn [st_dirs]. destruct Hd as [->| ->]; [|eapply acquire_pid_rw; exact E2].
    pose proof (acquire_inv _ _ _ _ _ _ HG E1) as H1.
    assert (HE : lw (d1 (o_dir o)) = Exclusive).
    { destruct (acquire_dirs _ _ _ _ _ E1) as (w & Hw & <- & _). destruct (lw (st_dirs s (o_dir o))); cbn in Hw; congruence. }
    destruct (acquire_excl_other _ _ _ _ _ _ E2 HE) as [_ ->]. eapply acquire_pid_rw; exact E1.
Qed.

Lemma release_all_other : forall gs ds d', (forall g, In g gs -> fst g <> d') -> release_all ds gs d' = ds d'.
Proof.
  induction gs as [|[d ro] r IH]; intros ds d' H; cbn [release_all]; [reflexivity|].
  rewrite IH by (intros g Hg; apply H; right; exact Hg). apply release_other. apply (H (d, ro)). left. reflexivity.
Qed.

Lemma drop_all_pid : forall gs ds d', pidf (drop_all ds gs d') = pidf (ds d').
Proof.
  induction gs as [|[d ro] r IH]; intros ds d'; cbn [drop_all]; [reflexivity|]. rewrite IH.
  unfold drop_lock, upd. destruct (d' =? d) eqn:E; [apply N.eqb_eq in E; subst; reflexivity|reflexivity].
Qed.

Lemma kill_handles_pid : forall p hs ds hs' ds' d, kill_handles p hs ds = (hs', ds') -> pidf (ds' d) = pidf (ds d).
Proof.
  induction hs as [|[i h] r IH]; intros ds hs' ds' d HK; cbn [kill_handles] in HK; [injection HK as <- <-; reflexivity|].
  destruct (kill_handles p r ds) as [r' dsr] eqn:E. specialize (IH _ _ _ d E).
  destruct (h_proc h =? p); injection HK as <- <-; [rewrite drop_all_pid|]; exact IH.
Qed.

Lemma guards_uses : forall h g, In g (guards h) -> h_bypass h = false /\ uses h (fst g).
Proof.
  intros h g Hg. unfold guards in Hg. destruct (h_bypass h); [destruct Hg|]. split; [reflexivity|].
  destruct Hg as [<-|Hg]; [left; reflexivity|]. destruct (h_same h); [destruct Hg|].
  destruct Hg as [<-|[]]. right. reflexivity.
Qed.

Lemma exclusion_inv : forall s, inv s -> norm s -> forall d i1 h1 i2 h2,
  holder s i1 h1 d -> holder s i2 h2 d -> i1 <> i2 -> h_ro h1 = true /\ h_ro h2 = true.
Proof.
  intros s (HG & _ & _) HN d i1 h1 i2 h2 H1 H2 Hne.
  pose proof (holder_guard_cnt _ _ _ _ HN H1) as C1. pose proof (holder_guard_cnt _ _ _ _ HN H2) as C2.
  destruct H1 as (I1 & _ & _). destruct H2 as (I2 & _ & _).
  destruct (in2_cnt_ge _ _ _ _ _ d (h_ro h1) (h_ro h2) I1 I2 Hne) as [G1 G2].
  destruct (HG d) as [_ Hok]. destruct (h_ro h1) eqn:R1, (h_ro h2) eqn:R2; cbn [Bool.eqb] in *;
    try (split; reflexivity); exfalso; destruct Hok as [Hz|[Ho Hz]]; lia.
Qed.

Lemma step_pid_inv : forall s l s' r, inv s -> norm s -> pid_inv s -> step s l = (s', r) -> pid_inv s'.
Proof.
  intros s [o|i|p] s' r HI HN HP HS; cbn [step] in HS.
  - (* Open *)
    destruct (open_step_handles _ _ _ _ HS) as [(Eh & _ & _)|(ds & HA & He)].
    + intros j h d (Hin & Hb & Hu) Hro. rewrite Eh in Hin.
      assert (Hh : holder s j h d) by (split; [exact Hin|split; assumption]).
      rewrite (open_step_excl_untouched _ _ _ _ d HS (rw_holder_word_inv _ _ _ _ HI HN Hh Hro)). exact (HP _ _ _ Hh Hro).
    + pose proof HA as HA'. unfold add_handle in HA'. injection HA' as Es' Er'. subst r.
      intros j h d (Hin & Hb & Hu) Hro. rewrite <- Es' in Hin. cbn [st_handles] in Hin. destruct Hin as [E|Hin].
      * injection E as <- <-. cbn in Hb, Hro, Hu |- *.
        eapply open_step_new_pid; [exact HI|exact HS|exact Hb|exact Hro|]. unfold o_vd. unfold uses, handle_of in Hu. cbn in Hu. destruct Hu as [Hu|Hu]; [left|right]; symmetry; exact Hu.
      * assert (Hh : holder s j h d) by (split; [exact Hin|split; assumption]).
        rewrite (open_step_excl_untouched _ _ _ _ d HS (rw_holder_word_inv _ _ _ _ HI HN Hh Hro)). exact (HP _ _ _ Hh Hro).
  - (* Close *)
    unfold close_step in HS. destruct (find_handle i (st_handles s)) as [h0|] eqn:E; [|injection HS as <- <-; exact HP].
    injection HS as <- <-. destruct (find_handle_split _ _ _ E) as (A & B & E1 & E2 & HA).
    pose proof HI as (_ & _ & Hnd).
    intros j h d (Hin & Hb & Hu) Hro. cbn [st_handles st_dirs] in *. rewrite E2 in Hin.
    assert (Hin' : In (j, h) (st_handles s)).
    { rewrite E1. apply in_app_iff in Hin. apply in_app_iff. destruct Hin; [left|right; right]; assumption. }
    assert (Hne : j <> i).
    { rewrite E1, map_app in Hnd. cbn [map fst] in Hnd. apply NoDup_app_remove in Hnd. destruct Hnd as [_ Hni].
      intros ->. apply Hni. rewrite <- map_app. apply in_map_iff. exists (i, h). split; [reflexivity|exact Hin]. }
    assert (Hh : holder s j h d) by (split; [exact Hin'|split; assumption]).
    rewrite release_all_other; [exact (HP _ _ _ Hh Hro)|].
    intros g Hg Eg. destruct (guards_uses _ _ Hg) as [Hb0 Hu0]. rewrite Eg in Hu0.
    assert (Hh0 : holder s i h0 d).
    { split; [rewrite E1; apply in_app_iff; right; left; reflexivity|split; assumption]. }
    destruct (exclusion_inv s HI HN d j h i h0 Hh Hh0 Hne). congruence.
  - (* Kill *)
    unfold kill_step in HS. destruct (kill_handles p (st_handles s) (st_dirs s)) as [hs ds] eqn:E.
    injection HS as <- <-. intros j h d (Hin & Hb & Hu) Hro. cbn [st_handles st_dirs] in *.
    rewrite (kill_handles_pid _ _ _ _ _ d E).
    assert (HG' : inv_g (st_dirs s) (all_guards (st_handles s) ++ [])) by (rewrite app_nil_r; apply HI).
    destruct (kill_handles_spec _ _ _ _ _ _ E HG') as (_ & H2 & _). apply H2 in Hin. destruct Hin as [Hin _].
    apply (HP j h d); [split; [exact Hin|split; assumption]|exact Hro].
Qed.

Lemma exec_all_inv : forall ls s, inv s -> norm s -> pid_inv s ->
  let s' := fst (exec s ls) in inv s' /\ norm s' /\ pid_inv s'.
Proof.
  induction ls as [|l ls IH]; intros s HI HN HP; cbn [exec]; [cbn; auto|].
  destruct (step s l) as [s1 x] eqn:E.
  specialize (IH s1 (step_inv _ _ _ _ HI E) (step_norm _ _ _ _ HN E) (step_pid_inv _ _ _ _ HI HN HP E)).
  destruct (exec s1 ls) as [s2 xs]. exact IH.
Qed.

Theorem pid_file_names_writer : forall s, reachable s -> pid_inv s.
Proof.
  intros s [ls <-]. apply exec_all_inv; [exact inv_init|intros i h []|].
  intros i h d (Hin & _). destruct Hin.
Qed.

(* ---------- statements in the form props/C35.v uses ---------- *)
Lemma rw_holder_refuses : forall s, reachable s -> forall d i h, holder s i h d -> h_ro h = false ->
  lw (st_dirs s d) = Exclusive /\ forall ro, flock_try (lw (st_dirs s d)) ro = None.
Proof.
  intros s HR d i h H Hro. rewrite (rw_holder_word s HR d i h H Hro).
  split; [reflexivity|intros []; reflexivity].
Qed.

Lemma ro_coexist : forall s o, reachable s -> o_env o = EnvOk -> o_ro o = true ->
  (forall i h, holder s i h (o_dir o) -> h_ro h = true) ->
  (forall i h, holder s i h (o_vd o) -> h_ro h = true) ->
  exists s', open_step s o = (s', ROk (st_next s))
             /\ st_handles s' = (st_next s, handle_of o) :: st_handles s.
Proof.
  intros s o HR He Hro Hd Hv. apply open_succeeds; try assumption.
  - intros (_ & _ & _ & Hc). congruence.
  - right. split; assumption.
  - right. split; assumption.
Qed.

Lemma release_no_holder : forall s o, reachable s -> o_env o = EnvOk -> ~ self_conflict o ->
  (forall i h, ~ holder s i h (o_dir o)) -> (forall i h, ~ holder s i h (o_vd o)) ->
  exists s', open_step s o = (s', ROk (st_next s)).
Proof.
  intros s o HR He Hsc Hd Hv.
  destruct (open_succeeds s o HR He Hsc (or_introl Hd) (or_introl Hv)) as (s' & H & _).
  exists s'. exact H.
Qed.
