(* FSProofs.v — basic facts about the abstract file system and the decidable equalities *)
From Coq Require Import Lia Arith PeanoNat.
From Coq Require Import ZifyN ZifyNat ZifyBool.
From Verif Require Import FS Recover Persist.
Open Scope N_scope.

Lemma fname_eqb_eq : forall a b, fname_eqb a b = true <-> a = b.
Proof.
  intros [x|x|x|] [y|y|y|]; cbn [fname_eqb]; split; intro H; try discriminate; try reflexivity;
    try (apply N.eqb_eq in H; subst; reflexivity); try (inversion H; apply N.eqb_refl).
Qed.
Lemma fname_eqb_refl : forall a, fname_eqb a a = true.
Proof. intro a. apply fname_eqb_eq. reflexivity. Qed.
Lemma fname_eqb_neq : forall a b, fname_eqb a b = false <-> a <> b.
Proof.
  intros a b. split.
  - intros H E. apply fname_eqb_eq in E. congruence.
  - intro H. destruct (fname_eqb a b) eqn:E; [apply fname_eqb_eq in E; contradiction|reflexivity].
Qed.
Lemma fname_eq_dec : forall a b : fname, {a = b} + {a <> b}.
Proof. intros a b. destruct (fname_eqb a b) eqn:E; [left; apply fname_eqb_eq; exact E|right; apply fname_eqb_neq; exact E]. Qed.

Lemma memf_In : forall f l, memf f l = true <-> In f l.
Proof.
  intros f l. unfold memf. rewrite existsb_exists. split.
  - intros [x [Hx E]]. apply fname_eqb_eq in E. subst. exact Hx.
  - intro H. exists f. split; [exact H|apply fname_eqb_refl].
Qed.
Lemma memf_false : forall f l, memf f l = false <-> ~ In f l.
Proof.
  intros f l. split.
  - intros H I. apply memf_In in I. congruence.
  - intro H. destruct (memf f l) eqn:E; [apply memf_In in E; contradiction|reflexivity].
Qed.
Lemma removef_In : forall x f l, In x (removef f l) <-> In x l /\ x <> f.
Proof.
  intros x f l. unfold removef. rewrite filter_In. split.
  - intros [H E]. split; [exact H|]. apply Bool.negb_true_iff in E. apply fname_eqb_neq in E. exact E.
  - intros [H E]. split; [exact H|]. apply Bool.negb_true_iff. apply fname_eqb_neq. exact E.
Qed.

Lemma upd_same : forall A f (v : A) g, upd f v g f = v.
Proof. intros. unfold upd. rewrite fname_eqb_refl. reflexivity. Qed.
Lemma upd_other : forall A f (v : A) g x, x <> f -> upd f v g x = g x.
Proof. intros A f v g x H. unfold upd. apply fname_eqb_neq in H. rewrite H. reflexivity. Qed.

Lemma centry_eqb_eq : forall a b, centry_eqb a b = true <-> a = b.
Proof.
  intros [k v x] [k' v' x']. unfold centry_eqb. cbn [ce_key ce_ver ce_val].
  rewrite !Bool.andb_true_iff, !N.eqb_eq. split.
  - intros [[-> ->] ->]. reflexivity.
  - intro H. inversion H. auto.
Qed.
Lemma vptr_eqb_eq : forall a b, vptr_eqb a b = true <-> a = b.
Proof.
  intros [f i] [f' i']. unfold vptr_eqb. cbn [vp_fid vp_idx].
  rewrite Bool.andb_true_iff, N.eqb_eq, Nat.eqb_eq. split.
  - intros [-> ->]. reflexivity.
  - intro H. inversion H. auto.
Qed.
Lemma optptr_eqb_eq : forall a b, optptr_eqb a b = true <-> a = b.
Proof.
  intros [a|] [b|]; cbn [optptr_eqb]; split; intro H; try discriminate; try reflexivity.
  - apply vptr_eqb_eq in H. subst. reflexivity.
  - inversion H. apply vptr_eqb_eq. reflexivity.
Qed.
Lemma cell_eqb_eq : forall a b : cell, cell_eqb a b = true <-> a = b.
Proof.
  intros [e p] [e' p']. unfold cell_eqb. cbn [fst snd].
  rewrite Bool.andb_true_iff, centry_eqb_eq, optptr_eqb_eq. split.
  - intros [-> ->]. reflexivity.
  - intro H. inversion H. auto.
Qed.
Lemma mchange_eqb_eq : forall a b, mchange_eqb a b = true <-> a = b.
Proof.
  intros [i l|i] [j m|j]; cbn [mchange_eqb]; split; intro H; try discriminate.
  - apply Bool.andb_true_iff in H. destruct H as [H1 H2]. apply N.eqb_eq in H1, H2. subst. reflexivity.
  - inversion H. rewrite !N.eqb_refl. reflexivity.
  - apply N.eqb_eq in H. subst. reflexivity.
  - inversion H. apply N.eqb_refl.
Qed.
Lemma list_eqb_eq : forall A (eqb : A -> A -> bool),
  (forall a b, eqb a b = true <-> a = b) -> forall l m, list_eqb eqb l m = true <-> l = m.
Proof.
  intros A eqb He. induction l as [|x l IH]; intros [|y m]; cbn [list_eqb]; split; intro H;
    try discriminate; try reflexivity.
  - apply Bool.andb_true_iff in H. destruct H as [H1 H2]. apply He in H1. apply IH in H2. subst. reflexivity.
  - inversion H. subst. apply Bool.andb_true_iff. split; [apply He; reflexivity|apply IH; reflexivity].
Qed.
Lemma item_eqb_eq : forall a b, item_eqb a b = true <-> a = b.
Proof.
  intros [c|t|e|cs|c] [c'|t'|e'|cs'|c']; cbn [item_eqb]; split; intro H; try discriminate.
  - apply cell_eqb_eq in H. subst. reflexivity.
  - inversion H. apply cell_eqb_eq. reflexivity.
  - apply N.eqb_eq in H. subst. reflexivity.
  - inversion H. apply N.eqb_refl.
  - apply centry_eqb_eq in H. subst. reflexivity.
  - inversion H. apply centry_eqb_eq. reflexivity.
  - apply (list_eqb_eq _ _ mchange_eqb_eq) in H. subst. reflexivity.
  - inversion H. apply (list_eqb_eq _ _ mchange_eqb_eq). reflexivity.
  - apply cell_eqb_eq in H. subst. reflexivity.
  - inversion H. apply cell_eqb_eq. reflexivity.
Qed.
Lemma items_eqb_eq : forall l m, list_eqb item_eqb l m = true <-> l = m.
Proof. apply list_eqb_eq. exact item_eqb_eq. Qed.

Lemma cell_mem_In : forall c l, cell_mem c l = true <-> In c l.
Proof.
  intros c l. unfold cell_mem. rewrite existsb_exists. split.
  - intros [x [Hx E]]. apply cell_eqb_eq in E. subst. exact Hx.
  - intro H. exists c. split; [exact H|apply cell_eqb_eq; reflexivity].
Qed.
Lemma cells_incl_incl : forall a b, cells_incl a b = true <-> incl a b.
Proof.
  intros a b. unfold cells_incl. rewrite forallb_forall. split.
  - intros H x Hx. apply cell_mem_In. apply H. exact Hx.
  - intros H x Hx. apply cell_mem_In. apply H. exact Hx.
Qed.

Lemma synced_img : forall s f, synced s f = true -> img s f = Some (cur s f).
Proof.
  intros s f H. unfold synced in H. destruct (img s f) as [c|]; [|discriminate].
  apply items_eqb_eq in H. subst. reflexivity.
Qed.
Lemma log_synced_img : forall s f, log_synced s f = true ->
  img s f = Some (cur s f) \/ (img s f = None /\ cur s f = []).
Proof.
  intros s f H. unfold log_synced in H. destruct (img s f) as [c|].
  - apply items_eqb_eq in H. subst. left. reflexivity.
  - right. split; [reflexivity|]. destruct (cur s f); [reflexivity|discriminate].
Qed.
