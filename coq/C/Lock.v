(* Lock.v — directory locking: dir_unix.go acquireDirectoryLock / directoryLockGuard.release,
   db.go Open (lock Dir, then ValueDir when its absolute path differs; BypassLockGuard; deferred
   release of whatever was taken when Open fails later) and DB.close (release both guards).

   The modelled primitive is flock(2) on a freshly opened file description of the directory
   (LOCK_EX|LOCK_NB for a read-write open, LOCK_SH|LOCK_NB for a read-only open): its semantics
   are the lock-word transition functions [flock_try] / [flock_unlock] below (ASSUMED OS behaviour:
   locks belong to the open file description, every guard opens its own description, descriptions
   are close-on-exec, closing the description — or the death of the process — drops the lock).

   Directories are identified by the directory they resolve to (inode), [o_same] is the result of
   the code's comparison of the two absolute path STRINGS (filepath.Abs does not resolve symlinks):
   o_same = true implies o_dir = o_vdir, but not conversely (ValueDir a symlink to Dir). *)
From Coq Require Import List NArith Bool.
Import ListNotations.
Open Scope N_scope.

Inductive lockw := Free | Shared (n : nat) | Exclusive.

(* flock(fd, (ro ? LOCK_SH : LOCK_EX) | LOCK_NB) on a new description: None = EWOULDBLOCK *)
Definition flock_try (w : lockw) (ro : bool) : option lockw :=
  match w, ro with
  | Free, true => Some (Shared 1)
  | Free, false => Some Exclusive
  | Shared n, true => Some (Shared (S n))
  | Shared _, false => None
  | Exclusive, _ => None
  end.

(* close(fd) of a description that holds the lock in mode ro *)
Definition flock_unlock (w : lockw) (ro : bool) : lockw :=
  match w, ro with
  | Shared (S (S n)), true => Shared (S n)
  | Shared _, true => Free
  | Exclusive, false => Free
  | w, _ => w            (* not reachable: unlocking a mode that is not held *)
  end.

(* what the model tracks per directory: the lock word and the advisory pid file "LOCK" *)
Record dstate := mkD { lw : lockw; pidf : option N }.
Definition dirs := N -> dstate.
Definition dinit : dirs := fun _ => mkD Free None.
Definition upd (s : dirs) (d : N) (x : dstate) : dirs := fun d' => if d' =? d then x else s d'.

(* acquireDirectoryLock(dir, "LOCK", readOnly) by process p: flock, then (rw only) write the pid file *)
Definition acquire (s : dirs) (p d : N) (ro : bool) : option dirs :=
  match flock_try (lw (s d)) ro with
  | None => None
  | Some w => Some (upd s d (mkD w (if ro then pidf (s d) else Some p)))
  end.

(* directoryLockGuard.release: (rw only) remove the pid file, close the description *)
Definition release (s : dirs) (d : N) (ro : bool) : dirs :=
  upd s d (mkD (flock_unlock (lw (s d)) ro) (if ro then pidf (s d) else None)).

(* the process dies: the description is closed by the OS, the pid file stays *)
Definition drop_lock (s : dirs) (d : N) (ro : bool) : dirs :=
  upd s d (mkD (flock_unlock (lw (s d)) ro) (pidf (s d))).

Record handle := mkH { h_proc : N; h_dir : N; h_vdir : N; h_same : bool; h_ro : bool; h_bypass : bool }.

(* the guards a DB handle holds: (directory, shared?) *)
Definition guards (h : handle) : list (N * bool) :=
  if h_bypass h then []
  else (h_dir h, h_ro h) :: (if h_same h then [] else [(h_vdir h, h_ro h)]).

Record state := mkS { st_dirs : dirs; st_handles : list (N * handle); st_next : N }.
Definition init : state := mkS dinit [] 0.

(* everything in Open that is not locking, as seen from the lock protocol:
   EnvPre  = checkAndSetOptions / createDirs fail (before any lock is taken; e.g. a read-only open
             of a directory that does not exist),
   EnvRest = a step after the locks fails (no MANIFEST for a read-only open, …): the deferred
             functions release ValueDir's guard, then Dir's,
   EnvOk   = the rest of Open succeeds. *)
Inductive env := EnvPre | EnvRest | EnvOk.

Record openreq := mkO { o_proc : N; o_ro : bool; o_dir : N; o_vdir : N; o_same : bool;
                        o_bypass : bool; o_env : env }.

Inductive label :=
| Open (o : openreq)
| Close (h : N)
| Kill (p : N).

Inductive result :=
| ROk (h : N)        (* Open returned a DB; model handle id *)
| RLockFail          (* "Cannot acquire directory lock" *)
| ROtherFail         (* Open failed for another reason *)
| RClosed            (* Close done *)
| RNoHandle          (* Close of an unknown handle (not produced by the harness) *)
| RKilled.

(* equal path strings denote the same directory: when o_same, ValueDir IS Dir (o_vdir is not looked at) *)
Definition handle_of (o : openreq) : handle :=
  mkH (o_proc o) (o_dir o) (if o_same o then o_dir o else o_vdir o) (o_same o) (o_ro o) (o_bypass o).

Definition add_handle (s : state) (ds : dirs) (o : openreq) : state * result :=
  (mkS ds ((st_next s, handle_of o) :: st_handles s) (st_next s + 1), ROk (st_next s)).

(* db.go Open, lock part *)
Definition open_step (s : state) (o : openreq) : state * result :=
  let ds := st_dirs s in
  match o_env o with
  | EnvPre => (s, ROtherFail)
  | e =>
    if o_bypass o then
      match e with EnvOk => add_handle s ds o | _ => (s, ROtherFail) end
    else
      match acquire ds (o_proc o) (o_dir o) (o_ro o) with
      | None => (s, RLockFail)
      | Some d1 =>
          if o_same o then
            match e with
            | EnvOk => add_handle s d1 o
            | _ => (mkS (release d1 (o_dir o) (o_ro o)) (st_handles s) (st_next s), ROtherFail)
            end
          else
            match acquire d1 (o_proc o) (o_vdir o) (o_ro o) with
            | None => (mkS (release d1 (o_dir o) (o_ro o)) (st_handles s) (st_next s), RLockFail)
            | Some d2 =>
                match e with
                | EnvOk => add_handle s d2 o
                | _ => (mkS (release (release d2 (o_vdir o) (o_ro o)) (o_dir o) (o_ro o))
                            (st_handles s) (st_next s), ROtherFail)
                end
            end
      end
  end.

Fixpoint release_all (ds : dirs) (gs : list (N * bool)) : dirs :=
  match gs with
  | [] => ds
  | (d, ro) :: r => release_all (release ds d ro) r
  end.

Fixpoint drop_all (ds : dirs) (gs : list (N * bool)) : dirs :=
  match gs with
  | [] => ds
  | (d, ro) :: r => drop_all (drop_lock ds d ro) r
  end.

Fixpoint find_handle (i : N) (hs : list (N * handle)) : option handle :=
  match hs with
  | [] => None
  | (j, h) :: r => if j =? i then Some h else find_handle i r
  end.

Fixpoint remove_handle (i : N) (hs : list (N * handle)) : list (N * handle) :=
  match hs with
  | [] => []
  | (j, h) :: r => if j =? i then r else (j, h) :: remove_handle i r
  end.

(* DB.close: dirLockGuard.release, then valueDirGuard.release *)
Definition close_step (s : state) (i : N) : state * result :=
  match find_handle i (st_handles s) with
  | None => (s, RNoHandle)
  | Some h => (mkS (release_all (st_dirs s) (guards h)) (remove_handle i (st_handles s)) (st_next s),
               RClosed)
  end.

Fixpoint kill_handles (p : N) (hs : list (N * handle)) (ds : dirs) : list (N * handle) * dirs :=
  match hs with
  | [] => ([], ds)
  | (i, h) :: r =>
      let '(r', ds') := kill_handles p r ds in
      if h_proc h =? p then (r', drop_all ds' (guards h)) else ((i, h) :: r', ds')
  end.

Definition kill_step (s : state) (p : N) : state * result :=
  let '(hs, ds) := kill_handles p (st_handles s) (st_dirs s) in
  (mkS ds hs (st_next s), RKilled).

Definition step (s : state) (l : label) : state * result :=
  match l with
  | Open o => open_step s o
  | Close h => close_step s h
  | Kill p => kill_step s p
  end.

Fixpoint exec (s : state) (ls : list label) : state * list result :=
  match ls with
  | [] => (s, [])
  | l :: r => let '(s1, x) := step s l in let '(s2, xs) := exec s1 r in (s2, x :: xs)
  end.

Definition reachable (s : state) : Prop := exists ls, fst (exec init ls) = s.

(* a non-bypassing open handle that uses directory d (as Dir or as ValueDir) *)
Definition uses (h : handle) (d : N) : Prop := h_dir h = d \/ h_vdir h = d.
Definition holder (s : state) (i : N) (h : handle) (d : N) : Prop :=
  In (i, h) (st_handles s) /\ h_bypass h = false /\ uses h d.

(* the directory an open request uses as ValueDir *)
Definition o_vd (o : openreq) : N := if o_same o then o_dir o else o_vdir o.
(* ValueDir reaches Dir through a different path string (symlink) in a read-write open: the code
   then locks the same directory twice and refuses itself *)
Definition self_conflict (o : openreq) : Prop :=
  o_bypass o = false /\ o_same o = false /\ o_vdir o = o_dir o /\ o_ro o = false.
