(* EncryptProofs.v — proofs about Encrypt.v. *)
From Verif Require Import Bytes BytesProofs Uvarint UvarintProofs Codec C20Proofs Encrypt.
From Coq Require Import ZifyN ZifyNat ZifyBool FinFun.
Open Scope N_scope.

(* ---------- the key-stream form satisfies the cipher hypotheses ---------- *)
Lemma lxor_invol x k : N.lxor (N.lxor x k) k = x.
Proof. rewrite N.lxor_assoc, N.lxor_nilpotent, N.lxor_0_r. reflexivity. Qed.

Lemma xor_bytes_invol d : forall ks, xor_bytes (xor_bytes d ks) ks = d.
Proof.
  induction d as [|x d IH]; intros [|k ks]; cbn; try reflexivity.
  - rewrite IH. reflexivity.
  - rewrite lxor_invol, IH. reflexivity.
Qed.
Lemma xor_bytes_len d : forall ks, length (xor_bytes d ks) = length d.
Proof. induction d as [|x d IH]; intros [|k ks]; cbn; try reflexivity; rewrite IH; reflexivity. Qed.
Lemma xor_bytes_prefix a : forall b ks, firstn (length a) (xor_bytes (a ++ b) ks) = xor_bytes a ks.
Proof.
  induction a as [|x a IH]; intros b ks; [reflexivity|].
  destruct ks as [|k ks]; cbn; rewrite IH; reflexivity.
Qed.

Theorem enc_ks_invol stream k iv d : enc_ks stream k iv (enc_ks stream k iv d) = d.
Proof. apply xor_bytes_invol. Qed.
Theorem enc_ks_len stream k iv d : length (enc_ks stream k iv d) = length d.
Proof. apply xor_bytes_len. Qed.
Theorem enc_ks_prefix stream k iv a b : firstn (length a) (enc_ks stream k iv (a ++ b)) = enc_ks stream k iv a.
Proof. apply xor_bytes_prefix. Qed.

(* ---------- list helpers ---------- *)
Lemma firstn_app_exact {A} (a b : list A) n : n = length a -> firstn n (a ++ b) = a.
Proof. intros ->. rewrite firstn_app, Nat.sub_diag, firstn_all. cbn. apply app_nil_r. Qed.
Lemma skipn_app_exact {A} (a b : list A) n : n = length a -> skipn n (a ++ b) = b.
Proof. intros ->. rewrite skipn_app, Nat.sub_diag, skipn_all. reflexivity. Qed.

Lemma blen_nat (b : bytes) : N.to_nat (blen b) = length b.
Proof. unfold blen. lia. Qed.

Section Transparent.
  Variable enc : bytes -> bytes -> bytes -> bytes.
  Variable crc : bytes -> N.
  Hypothesis enc_invol : forall k iv d, enc k iv (enc k iv d) = d.
  Hypothesis enc_len : forall k iv d, length (enc k iv d) = length d.
  Hypothesis enc_prefix : forall k iv a b, firstn (length a) (enc k iv (a ++ b)) = enc k iv a.

  Lemma log_body_invol dk biv off kv : log_body enc dk biv off (log_body enc dk biv off kv) = kv.
  Proof using enc_invol. destruct dk; cbn; [apply enc_invol|reflexivity]. Qed.
  Lemma log_body_len dk biv off kv : length (log_body enc dk biv off kv) = length kv.
  Proof using enc_len. destruct dk; cbn; [apply enc_len|reflexivity]. Qed.
  Lemma log_body_prefix dk biv off a b :
    firstn (length a) (log_body enc dk biv off (a ++ b)) = log_body enc dk biv off a.
  Proof using enc_prefix. destruct dk; cbn; [apply enc_prefix|apply firstn_app_exact; reflexivity]. Qed.

  Definition le_ok (e : lentry) : Prop :=
    blen (le_key e) < two32 /\ blen (le_val e) < two32 /\ le_exp e < two64.

  (* WAL replay / value-log iteration path: what safeRead.Entry reconstructs from an encoded
     record (whatever follows it in the file) is the entry that was encoded *)
  Theorem log_read_exact_record dk biv off e rest : le_ok e ->
    log_read_exact enc dk biv off (log_record enc crc dk biv off e ++ rest)
    = Some (le_header e, le_key e, le_val e).
  Proof using enc_invol enc_len.
    clear enc_prefix. intros (Hk & Hv & Hx). unfold log_read_exact, log_record.
    set (body := log_body enc dk biv off (le_key e ++ le_val e)).
    rewrite <- !app_assoc.
    rewrite (header_roundtrip (le_header e) _ Hk Hv Hx). rewrite slice_from_app.
    cbn [le_header h_klen h_vlen].
    assert (Hb : length body = (length (le_key e) + length (le_val e))%nat).
    { unfold body. rewrite log_body_len, app_length. reflexivity. }
    rewrite firstn_app_exact by (unfold blen; lia).
    unfold body. rewrite log_body_invol.
    rewrite firstn_app_exact by (unfold blen; lia). rewrite skipn_app_exact by (unfold blen; lia). reflexivity.
  Qed.

  (* value-log read path (valueLog.Read, logFile.decodeEntry): the record including its CRC
     goes through the cipher; key and value are still recovered *)
  Theorem log_read_tail_record dk biv off e : le_ok e ->
    log_read_tail enc dk biv off (log_record enc crc dk biv off e)
    = Some (le_header e, le_key e, le_val e).
  Proof using enc_invol enc_len enc_prefix.
    intros (Hk & Hv & Hx). unfold log_read_tail, log_record.
    set (body := log_body enc dk biv off (le_key e ++ le_val e)).
    set (c := be_enc 4 (crc (header_encode (le_header e) ++ body))).
    rewrite <- !app_assoc.
    rewrite (header_roundtrip (le_header e) _ Hk Hv Hx). rewrite slice_from_app.
    cbn [le_header h_klen h_vlen].
    assert (Hb : length body = (length (le_key e) + length (le_val e))%nat).
    { unfold body. rewrite log_body_len, app_length. reflexivity. }
    set (kv := log_body enc dk biv off (body ++ c)).
    assert (Hp : firstn (length body) kv = le_key e ++ le_val e).
    { unfold kv. rewrite log_body_prefix. unfold body. apply log_body_invol. }
    assert (Hkey : firstn (length (le_key e)) kv = le_key e).
    { replace (firstn (length (le_key e)) kv) with (firstn (length (le_key e)) (firstn (length body) kv)).
      - rewrite Hp. apply firstn_app_exact. reflexivity.
      - rewrite firstn_firstn. f_equal. lia. }
    assert (Hval : firstn (length (le_val e)) (skipn (length (le_key e)) kv) = le_val e).
    { replace (firstn (length (le_val e)) (skipn (length (le_key e)) kv))
        with (skipn (length (le_key e)) (firstn (length body) kv)).
      - rewrite Hp. apply skipn_app_exact. reflexivity.
      - rewrite skipn_firstn_comm. f_equal. lia. }
    rewrite !blen_nat, Hkey, Hval. reflexivity.
  Qed.

  (* table blocks and index *)
  Theorem unseal_seal dk iv data : length iv = 16%nat -> unseal enc dk (seal enc dk iv data) = data.
  Proof using enc_invol.
    intros H. destruct dk as [k|]; cbn [seal unseal]; [|reflexivity].
    rewrite <- H. rewrite lastn_app, dropn_end_app. apply enc_invol.
  Qed.
  Lemma seal_iv k iv data : length iv = 16%nat -> lastn 16 (seal enc (Some k) iv data) = iv.
  Proof. intros H. cbn [seal]. rewrite <- H. apply lastn_app. Qed.
End Transparent.

(* ---------- key registry ---------- *)
Section Registry.
  Variable enc : bytes -> bytes -> bytes -> bytes.
  Variable crc : bytes -> N.
  Variable pb_dk : datakey -> bytes.
  Variable pb_dk_parse : bytes -> option datakey.
  Variable supply : N -> bytes.
  Hypothesis enc_invol : forall k iv d, enc k iv (enc k iv d) = d.
  Hypothesis enc_len : forall k iv d, length (enc k iv d) = length d.
  (* protobuf round trip and the uint32 length field, for the data keys actually stored *)
  Definition stored_form (m : option bytes) (d : datakey) : datakey :=
    mkDK (dk_id d) (wrap enc m (dk_iv d) (dk_data d)) (dk_iv d) (dk_created d).
  Definition pb_ok (d : datakey) : Prop := pb_dk_parse (pb_dk d) = Some d /\ blen (pb_dk d) < two32.
  Hypothesis crc_range : forall d, crc d < two32.
  Hypothesis supply_len : forall n, length (supply n) = 16%nat.

  Lemma wrap_invol m iv d : wrap enc m iv (wrap enc m iv d) = d.
  Proof using enc_invol. destruct m; cbn; [apply enc_invol|reflexivity]. Qed.
  Lemma wrap_len m iv d : length (wrap enc m iv d) = length d.
  Proof using enc_len. destruct m; cbn; [apply enc_len|reflexivity]. Qed.

  Lemma be4 x : x < two32 -> be_dec (be_enc 4 x) = x.
  Proof. intros H. apply be_dec_enc_small. rewrite <- two32_pow. exact H. Qed.

  Lemma read_dks_stored m dks : forall fuel acc, Forall (fun d => pb_ok (stored_form m d)) dks -> (length dks <= fuel)%nat ->
    read_dks enc crc pb_dk_parse m fuel (concat (map (stored_dk enc crc pb_dk m) dks)) acc = KrOk (rev acc ++ dks).
  Proof using enc_invol enc_len crc_range.
    induction dks as [|d dks IH]; intros fuel acc Hpb Hf.
    - cbn. destruct fuel; cbn; rewrite app_nil_r; reflexivity.
    - inversion Hpb as [|? ? [Hrt Hsz] Hpb']; subst.
      destruct fuel as [|fuel]; [cbn in Hf; lia|]. cbn [map concat read_dks].
      set (d' := mkDK (dk_id d) (wrap enc m (dk_iv d) (dk_data d)) (dk_iv d) (dk_created d)).
      set (pb := pb_dk d'). set (tail := concat (map (stored_dk enc crc pb_dk m) dks)).
      assert (Hs : stored_dk enc crc pb_dk m d = be_enc 4 (blen pb) ++ be_enc 4 (crc pb) ++ pb) by reflexivity.
      rewrite Hs. rewrite <- !app_assoc.
      assert (L4 : forall x, length (be_enc 4 x) = 4%nat) by (intros; apply be_enc_length).
      assert (Hlen : (length (be_enc 4 (blen pb) ++ be_enc 4 (crc pb) ++ pb ++ tail) <? 8)%nat = false).
      { rewrite !app_length, !L4. apply Nat.ltb_ge. lia. }
      rewrite Hlen.
      rewrite (firstn_app_exact (be_enc 4 (blen pb))) by (rewrite L4; reflexivity).
      rewrite (be4 (blen pb)) by exact Hsz. rewrite blen_nat.
      rewrite (skipn_app_exact (be_enc 4 (blen pb)) _ 4) by (rewrite L4; reflexivity).
      rewrite (firstn_app_exact (be_enc 4 (crc pb))) by (rewrite L4; reflexivity).
      rewrite (be4 (crc pb)) by apply crc_range.
      replace (skipn 8 (be_enc 4 (blen pb) ++ be_enc 4 (crc pb) ++ pb ++ tail)) with (pb ++ tail)
        by (rewrite (app_assoc (be_enc 4 (blen pb)) (be_enc 4 (crc pb)) (pb ++ tail)), skipn_app_exact;
            [reflexivity|rewrite app_length, !L4; reflexivity]).
      rewrite (firstn_app_exact pb) by reflexivity.
      rewrite Nat.ltb_irrefl, N.eqb_refl. cbn [negb]. unfold pb at 1. unfold stored_form in Hrt. fold d' in Hrt. rewrite Hrt.
      replace (skipn (8 + length pb) (be_enc 4 (blen pb) ++ be_enc 4 (crc pb) ++ pb ++ tail)) with tail
        by (rewrite (app_assoc (be_enc 4 (blen pb)) (be_enc 4 (crc pb)) (pb ++ tail)),
                    (app_assoc (be_enc 4 (blen pb) ++ be_enc 4 (crc pb)) pb tail), skipn_app_exact;
            [reflexivity|rewrite !app_length, !L4; lia]).
      cbn [dk_id dk_iv dk_data dk_created d']. rewrite wrap_invol.
      rewrite IH by (try exact Hpb'; cbn in Hf; lia). cbn [rev]. rewrite <- app_assoc. destruct d; reflexivity.
  Qed.

  Lemma registry_file_parts m iv dks : length iv = 16%nat ->
    firstn 16 (registry_file enc crc pb_dk m iv dks) = iv /\
    firstn 12 (skipn 16 (registry_file enc crc pb_dk m iv dks)) = wrap enc m iv sanity_text /\
    skipn 28 (registry_file enc crc pb_dk m iv dks) = concat (map (stored_dk enc crc pb_dk m) dks) /\
    (28 + length dks <= length (registry_file enc crc pb_dk m iv dks))%nat.
  Proof using enc_len.
    intros H. unfold registry_file.
    assert (Hs : length (wrap enc m iv sanity_text) = 12%nat) by (rewrite wrap_len; reflexivity).
    repeat split.
    - apply firstn_app_exact. symmetry. exact H.
    - rewrite skipn_app_exact by (symmetry; exact H). apply firstn_app_exact. symmetry. exact Hs.
    - rewrite app_assoc. apply skipn_app_exact. rewrite app_length, H, Hs. reflexivity.
    - rewrite !app_length, H, Hs. clear. induction dks as [|d dks IH]; cbn [map concat length]; [lia|].
      rewrite app_length. unfold stored_dk at 1. rewrite !app_length, !be_enc_length. lia.
  Qed.

  (* the right key reads back exactly the data keys that were written *)
  Theorem read_registry_written m iv dks : length iv = 16%nat -> Forall (fun d => pb_ok (stored_form m d)) dks ->
    read_registry enc crc pb_dk_parse m (registry_file enc crc pb_dk m iv dks) = KrOk dks.
  Proof using enc_invol enc_len crc_range.
    intros H Hpb. destruct (registry_file_parts m iv dks H) as (H1 & H2 & H3 & H4).
    unfold read_registry. replace (length _ <? 28)%nat with false by (symmetry; apply Nat.ltb_ge; lia).
    rewrite H1, H2, H3, wrap_invol. rewrite (proj2 (bytes_eqb_eq _ _) eq_refl).
    rewrite read_dks_stored by (try exact Hpb; lia). reflexivity.
  Qed.

  (* a key that does not reproduce the sanity text: ErrEncryptionKeyMismatch, and opening an
     existing registry emits no persistence event *)
  Theorem wrong_key m m' iv dks n : length iv = 16%nat ->
    wrap enc m' iv (wrap enc m iv sanity_text) <> sanity_text ->
    open_registry enc crc pb_dk pb_dk_parse supply m' n (Some (registry_file enc crc pb_dk m iv dks))
    = (KrKeyMismatch, []).
  Proof using enc_len.
    clear enc_invol crc_range supply_len. intros H Hne. destruct (registry_file_parts m iv dks H) as (H1 & H2 & H3 & H4).
    unfold open_registry, read_registry. replace (length _ <? 28)%nat with false by (symmetry; apply Nat.ltb_ge; lia).
    rewrite H1, H2. destruct (bytes_eqb _ _) eqn:E; [|reflexivity]. apply bytes_eqb_eq in E. contradiction.
  Qed.

  (* master-key rotation (badger rotate): the rewritten registry, read with the new key, holds
     the same data keys; no other file is touched, so everything stays decryptable *)
  Theorem rotation_readable old new iv dks n : length iv = 16%nat ->
    Forall (fun d => pb_ok (stored_form old d)) dks -> Forall (fun d => pb_ok (stored_form new d)) dks ->
    exists f, rotate enc crc pb_dk pb_dk_parse supply old new n (registry_file enc crc pb_dk old iv dks) = Some f /\
              read_registry enc crc pb_dk_parse new f = KrOk dks.
  Proof using enc_invol enc_len crc_range supply_len.
    intros H Ho Hn. unfold rotate. rewrite read_registry_written by assumption.
    eexists. split; [reflexivity|]. apply read_registry_written; [apply supply_len|exact Hn].
  Qed.

  (* automatic data-key rotation keeps every earlier data key *)
  Definition ids_bounded (r : registry) : Prop := forall d, In d (r_dks r) -> dk_id d <= r_next r.

  Lemma dk_lookup_app dks d id : dk_id d <> id -> dk_lookup (dks ++ [d]) id = dk_lookup dks id.
  Proof using Type.
    intros Hne. induction dks as [|x dks IH]; cbn.
    - destruct (dk_id d =? id) eqn:E; [apply N.eqb_eq in E; contradiction|reflexivity].
    - destruct (dk_id x =? id); [reflexivity|exact IH].
  Qed.

  Theorem latest_keeps_old m keygen n now rot r id :
    ids_bounded r -> id <= r_next r ->
    let r' := fst (fst (fst (latest_data_key enc crc pb_dk supply m keygen n now rot r))) in
    dk_lookup (r_dks r') id = dk_lookup (r_dks r) id /\ ids_bounded r'.
  Proof using Type.
    clear enc_invol enc_len crc_range supply_len pb_dk_parse. intros Hb Hid. unfold latest_data_key. destruct m as [k|]; [|split; [reflexivity|exact Hb]].
    destruct (now - r_last r <? rot); [split; [reflexivity|exact Hb]|]. cbn [fst r_dks r_next]. split.
    - apply dk_lookup_app. cbn. lia.
    - intros d Hin. cbn [r_dks r_next] in *. apply in_app_or in Hin. destruct Hin as [Hin|[<-|[]]].
      + specialize (Hb d Hin). lia.
      + cbn. lia.
  Qed.

  (* the record LatestDataKey appends extends the file to the registry file of the longer list *)
  Theorem latest_appends m iv dks d :
    registry_file enc crc pb_dk m iv dks ++ stored_dk enc crc pb_dk m d = registry_file enc crc pb_dk m iv (dks ++ [d]).
  Proof using Type. unfold registry_file. rewrite map_app, concat_app. cbn. rewrite app_nil_r, <- !app_assoc. reflexivity. Qed.
End Registry.

(* ---------- IVs ---------- *)
Lemma be_dec_app a b : be_dec (a ++ b) = be_dec a * 256 ^ N.of_nat (length b) + be_dec b.
Proof. unfold be_dec at 1. rewrite fold_left_app. rewrite be_dec_acc. reflexivity. Qed.

Lemma log_iv_num biv off : off < two32 -> iv_num (log_iv biv off) = iv_num biv * two32 + off.
Proof.
  intros H. unfold iv_num, log_iv. rewrite be_dec_app, be_enc_length, <- two32_pow.
  rewrite be_dec_enc_small by (rewrite <- two32_pow; exact H). reflexivity.
Qed.

(* distinct offsets give distinct IVs *)
Theorem log_iv_inj biv o1 o2 : o1 < two32 -> o2 < two32 -> log_iv biv o1 = log_iv biv o2 -> o1 = o2.
Proof.
  intros H1 H2 E. apply (f_equal iv_num) in E. rewrite !log_iv_num in E by assumption. lia.
Qed.

Lemma nblocks_le n : nblocks n <= n + 1.
Proof. unfold nblocks. apply N.div_le_upper_bound; lia. Qed.

Lemma log_uses_ge es : forall off o n, In (o, n) (log_uses off es) -> off <= o.
Proof.
  induction es as [|e es IH]; intros off o n Hin; [destruct Hin|]. cbn [log_uses] in Hin.
  destruct Hin as [E|Hin]; [inversion E; lia|]. apply IH in Hin. lia.
Qed.

(* records of one log file: the CTR counter ranges [off, off + nblocks) (relative to the base IV)
   of an earlier and a later record do not meet *)
Theorem log_uses_disjoint es : forall off i j o1 n1 o2 n2, (i < j)%nat ->
  nth_error (log_uses off es) i = Some (o1, n1) -> nth_error (log_uses off es) j = Some (o2, n2) ->
  o1 + nblocks n1 <= o2.
Proof.
  induction es as [|e es IH]; intros off i j o1 n1 o2 n2 Hij Hi Hj; [destruct i; discriminate|].
  cbn [log_uses] in Hi, Hj. destruct j as [|j]; [lia|]. cbn [nth_error] in Hj. destruct i as [|i].
  - cbn in Hi. inversion Hi. subst. apply nth_error_In in Hj. apply log_uses_ge in Hj.
    pose proof (nblocks_le (blen (le_key e) + blen (le_val e))). lia.
  - cbn [nth_error] in Hi. eapply IH; [|exact Hi|exact Hj]. lia.
Qed.

(* counter block j of the record at offset off *)
Definition ctr (biv : bytes) (off j : N) : N := iv_num (log_iv biv off) + j.

(* no carry into the 12-byte base IV: every counter block of a record that lies inside a file
   of less than 4 GiB keeps the base IV as its upper 96 bits *)
Theorem ctr_no_carry biv off j : off + j < two32 -> ctr biv off j / two32 = iv_num biv /\ ctr biv off j mod two32 = off + j.
Proof.
  intros H. unfold ctr. rewrite log_iv_num by lia.
  replace (iv_num biv * two32 + off + j) with (off + j + iv_num biv * two32) by lia.
  assert (two32 <> 0) by (unfold two32; lia).
  rewrite N.div_add, N.mod_add by assumption. rewrite N.div_small, N.mod_small by assumption. split; lia.
Qed.

Theorem log_ctr_disjoint biv es off i j o1 n1 o2 n2 a b : (i < j)%nat ->
  nth_error (log_uses off es) i = Some (o1, n1) -> nth_error (log_uses off es) j = Some (o2, n2) ->
  o2 + nblocks n2 <= two32 -> a < nblocks n1 -> b < nblocks n2 ->
  ctr biv o1 a <> ctr biv o2 b.
Proof.
  intros Hij Hi Hj Hw Ha Hb. pose proof (log_uses_disjoint es off i j o1 n1 o2 n2 Hij Hi Hj).
  unfold ctr. rewrite !log_iv_num by lia. lia.
Qed.

(* different files (different base IVs), same data key: no shared counter block either *)
Theorem log_ctr_disjoint_files biv1 biv2 o1 o2 a b :
  iv_num biv1 <> iv_num biv2 -> o1 + a < two32 -> o2 + b < two32 -> ctr biv1 o1 a <> ctr biv2 o2 b.
Proof.
  intros Hne H1 H2 E. destruct (ctr_no_carry biv1 o1 a H1) as [A _]. destruct (ctr_no_carry biv2 o2 b H2) as [B _].
  rewrite E in A. congruence.
Qed.

Lemma NoDup_map_in {A B} (f : A -> B) l :
  (forall a b, In a l -> In b l -> f a = f b -> a = b) -> NoDup l -> NoDup (map f l).
Proof.
  induction l as [|x l IH]; intros Hinj Hnd; [constructor|]. inversion Hnd; subst. cbn. constructor.
  - intros Hin. apply in_map_iff in Hin. destruct Hin as (y & Hy & Hyl).
    assert (y = x) by (apply Hinj; [right; exact Hyl|left; reflexivity|exact Hy]). subst. contradiction.
  - apply IH; [|assumption]. intros a b Ha Hb. apply Hinj; right; assumption.
Qed.

Lemma draws_in n k x : In x (map N.of_nat (seq (N.to_nat n) k)) -> n <= x < n + N.of_nat k.
Proof. intros H. apply in_map_iff in H. destruct H as (p & <- & Hp). apply in_seq in Hp. lia. Qed.


(* ---------- table IVs: one fresh IV per block and one for the index ---------- *)
Section Fresh.
  Variable enc : bytes -> bytes -> bytes -> bytes.
  Variable cksum : bytes -> bytes.
  Variable supply : N -> bytes.
  Variable bound : N.      (* number of draws considered (at most 2^128: IVs are 16 bytes) *)
  Hypothesis supply_inj : forall a b, a < bound -> b < bound -> supply a = supply b -> a = b.  (* crypto/rand never repeats *)
  Hypothesis supply_len : forall n, length (supply n) = 16%nat.

  Theorem table_ivs_fresh n blocks : n + N.of_nat (S (length blocks)) <= bound -> NoDup (table_ivs supply n blocks).
  Proof using supply_inj.
    clear supply_len. intros Hb. unfold table_ivs. apply NoDup_map_in.
    - intros a b Ha Hb'. apply draws_in in Ha, Hb'. apply supply_inj; lia.
    - apply Injective_map_NoDup; [intros a b; apply Nat2N.inj|]. apply seq_NoDup.
  Qed.

  (* two tables built from disjoint ranges of draws share no IV *)
  Theorem table_ivs_disjoint n1 b1 n2 b2 iv :
    n1 + N.of_nat (S (length b1)) <= n2 -> n2 + N.of_nat (S (length b2)) <= bound ->
    In iv (table_ivs supply n1 b1) -> ~ In iv (table_ivs supply n2 b2).
  Proof using supply_inj.
    clear supply_len. unfold table_ivs. intros Hle Hb H1 H2. apply in_map_iff in H1, H2.
    destruct H1 as (x & <- & Hx). destruct H2 as (y & E & Hy).
    apply draws_in in Hx, Hy. apply supply_inj in E; lia.
  Qed.

  (* the IVs stored in the file are exactly these draws *)
  Lemma seal_blocks_ivs k blocks : forall n,
    map (lastn 16) (seal_blocks enc supply (Some k) n blocks) = map supply (map N.of_nat (seq (N.to_nat n) (length blocks))).
  Proof using supply_len.
    clear supply_inj bound cksum. induction blocks as [|b r IH]; intros n; [reflexivity|]. cbn [seal_blocks map length seq].
    rewrite IH. f_equal.
    - cbn [seal]. rewrite <- (supply_len n) at 1. rewrite lastn_app. f_equal. lia.
    - replace (N.to_nat (n + 1)) with (S (N.to_nat n)) by lia. reflexivity.
  Qed.

  Theorem table_file_ivs k n blocks index :
    map (lastn 16) (seal_blocks enc supply (Some k) n blocks ++ [seal enc (Some k) (supply (n + N.of_nat (length blocks))) index])
    = table_ivs supply n blocks.
  Proof using supply_len.
    clear supply_inj bound cksum. rewrite map_app, seal_blocks_ivs. unfold table_ivs. rewrite seq_S, !map_app. f_equal. cbn [map seal].
    rewrite <- (supply_len (n + N.of_nat (length blocks))) at 1. rewrite lastn_app. do 2 f_equal. lia.
  Qed.
End Fresh.

(* ---------- confinement: user bytes reach the files only through the cipher ---------- *)
Section Confinement.
  Variable enc : bytes -> bytes -> bytes -> bytes.
  Variable crc : bytes -> N.
  Variable cksum : bytes -> bytes.
  Variable supply : N -> bytes.
  (* a cipher whose output does not depend on the CONTENT of the plaintext, only on its length *)
  Hypothesis blind : forall k iv d d', length d = length d' -> enc k iv d = enc k iv d'.

  Definition same_shape (a b : lentry) : Prop :=
    length (le_key a) = length (le_key b) /\ length (le_val a) = length (le_val b) /\
    le_exp a = le_exp b /\ le_meta a = le_meta b /\ le_umeta a = le_umeta b.

  Theorem log_record_confined k biv off a b : same_shape a b ->
    log_record enc crc (Some k) biv off a = log_record enc crc (Some k) biv off b.
  Proof using blind.
    clear cksum supply. intros (Hk & Hv & Hx & Hm & Hu). unfold log_record, le_header, blen, log_body. rewrite Hk, Hv, Hx, Hm, Hu.
    rewrite (blind k (log_iv biv off) (le_key a ++ le_val a) (le_key b ++ le_val b)) by (rewrite !app_length; lia).
    reflexivity.
  Qed.

  Theorem log_file_confined kid k biv es1 es2 : Forall2 same_shape es1 es2 ->
    log_file enc crc kid (Some k) biv es1 = log_file enc crc kid (Some k) biv es2.
  Proof using blind.
    clear cksum supply. intros H. unfold log_file. f_equal. generalize c_vlogHeaderSize.
    induction H as [|a b l1 l2 Hab _ IH]; intros off; [reflexivity|]. cbn [log_records].
    rewrite (log_record_confined k biv off a b Hab), IH. reflexivity.
  Qed.

  Theorem table_file_confined k n bl1 bl2 idx1 idx2 :
    Forall2 (fun a b : bytes => length a = length b) bl1 bl2 -> length idx1 = length idx2 ->
    table_file enc cksum supply (Some k) n bl1 idx1 = table_file enc cksum supply (Some k) n bl2 idx2.
  Proof using blind.
    clear crc. intros H Hi. unfold table_file.
    assert (Hl : length bl1 = length bl2) by (clear -H; induction H; cbn; congruence).
    assert (Hb : forall m, seal_blocks enc supply (Some k) m bl1 = seal_blocks enc supply (Some k) m bl2).
    { induction H as [|a b l1 l2 Hab _ IH]; intros m; [reflexivity|]. cbn [seal_blocks seal].
      rewrite (blind k (supply m) a b Hab), IH; [reflexivity|]. cbn in Hl. lia. }
    rewrite Hb, Hl. cbn [seal]. rewrite (blind k _ idx1 idx2 Hi). reflexivity.
  Qed.
End Confinement.

(* ---------- the hypotheses are satisfiable ---------- *)
Lemma supply_example : let supply := be_enc 16 in let bound := 256 ^ N.of_nat 16 in
  (forall a b, a < bound -> b < bound -> supply a = supply b -> a = b) /\ (forall n, length (supply n) = 16%nat).
Proof.
  split.
  - intros a b Ha Hb E. apply (f_equal be_dec) in E. rewrite !be_dec_enc_small in E by assumption. exact E.
  - intros n. apply be_enc_length.
Qed.

Lemma blind_example : let enc := fun (_ _ d : bytes) => repeat 0 (length d) in
  forall k iv d d', length d = length d' -> enc k iv d = enc k iv d'.
Proof. intros enc k iv d d' H. unfold enc. rewrite H. reflexivity. Qed.

Lemma pb_ok_example : let d0 := mkDK 1 [1; 2] (repeat 0 16) 5 in
  pb_ok pb_datakey (fun b => if bytes_eqb b (pb_datakey d0) then Some d0 else None) d0.
Proof. split; vm_compute; reflexivity. Qed.
