(* Persist.v — Layer C: the persistence protocol of badger's write path, flusher and
   compactors as an executable guard over single persistence events.

   A trace is a list of `pevent`s: file-system events (FS.event) plus two ghost labels
   (`PBegin`: the writer starts the WAL unit of one request; `PAck`: requests are acknowledged).
   `pstep` checks that the event is one the code can perform in the current state (the
   protocol relation) and applies it.  The guard is per event and per file, so traces may
   interleave the writer goroutine, the flusher and any number of compactors arbitrarily, and
   every prefix of an accepted trace is accepted: "crash at any persistence step" = any prefix.
   Extra SyncFile / SyncDir events are always accepted.

   What the guards encode (file:function):
   * oracle.go newCommitTs: commit timestamps increase from request to request (normal mode).
   * db.go writeRequests/writeToLSM, value.go valueLog.write: a request's values are stored in
     the current vlog file before its WAL records (a WAL record's value pointer must point at an
     existing vlog record; with SyncWrites at a record inside the vlog's synced image: write's
     deferred curlf.Sync runs before writeToLSM); the records of a request go to the current
     WAL, entries first, then the end marker; with SyncWrites the WAL is msync'ed at the end of
     every request (so at the start of the next request, and at rotation, the WAL is synced).
   * db.go ensureRoomForWrite / memtable.go newMemTable: rotation only between requests: the full
     memtable is pushed to flushChan FIRST (PSeal: its WAL gets no more records; the flusher may
     flush it and record its table before the next WAL even exists), then the new WAL is
     created with the next fid; z.OpenMmapFile = Create (size 0) then Init (ftruncate + header).
   * db.go handleMemTableFlush / levels.go addLevel0Table: a flush change set is exactly one
     create at level 0 of a table holding the replayed content of the OLDEST unflushed,
     immutable WAL; table.CreateTable msyncs the table before it is added (guard: synced).
   * levels.go runCompactDef/compactBuildTables: compaction outputs are synced tables whose
     names were directory-synced before ONE change set creates them and deletes the inputs;
     the outputs keep, from the inputs, at least the newest version of every key (C12's
     business which older versions may go; here: compact_okb).
   * manifest.go addChanges: write + fsync under appendLock (guard: previous change set synced).
   * db.go flushMemtable -> memTable.DecrRef -> logFile.Delete: a WAL is truncated to 0 and
     unlinked only after the MANIFEST fsync that recorded its table; tables are truncated /
     unlinked only when no (synced or unsynced) MANIFEST state lists them.
   * F9 (fix_dirsync = false is the pinned tree): no directory fsync after creating a WAL, a
     vlog file or a flushed table; with the repair the name must be durable before first use.

   Not modelled: value-log GC and vlog deletion, DropAll/DropPrefix, MANIFEST rewrite (Rename is
   never accepted), encryption key registry, the DISCARD file, Close, managed-mode batches
   whose entries carry no transaction markers (txn.go commitAndSend keepTogether = false). *)
From Verif Require Import FS Recover.
Open Scope N_scope.

(* ---- decidable equalities ---- *)
Definition mchange_eqb (a b : mchange) : bool :=
  match a, b with
  | MCreate i l, MCreate j m => (i =? j) && (l =? m)
  | MDelete i, MDelete j => i =? j
  | _, _ => false
  end.
Fixpoint list_eqb {A} (eqb : A -> A -> bool) (a b : list A) : bool :=
  match a, b with
  | [], [] => true
  | x :: a', y :: b' => eqb x y && list_eqb eqb a' b'
  | _, _ => false
  end.
Definition item_eqb (a b : item) : bool :=
  match a, b with
  | IWent c, IWent d | IT c, IT d => cell_eqb c d
  | IWfin s, IWfin t => s =? t
  | IV e, IV f => centry_eqb e f
  | IM x, IM y => list_eqb mchange_eqb x y
  | _, _ => false
  end.

Definition cell_mem (c : cell) (l : list cell) : bool := existsb (cell_eqb c) l.
Definition cells_incl (a b : list cell) : bool := forallb (fun c => cell_mem c b) a.
Definition same_cells (a b : list cell) : bool := cells_incl a b && cells_incl b a.

(* news keep, from olds, every entry or a strictly newer version of its key *)
Definition compact_okb (olds news : list cell) : bool :=
  cells_incl news olds &&
  forallb (fun o => cell_mem o news ||
                    existsb (fun n => (ce_key (fst n) =? ce_key (fst o)) && (ce_ver (fst o) <? ce_ver (fst n))) news)
          olds.

(* ---- protocol state ---- *)
Record pstate := mkP {
  pfs : fs;
  units : list (N * list cell);  (* completed requests, oldest first: (WAL fid, cells) *)
  pend : list cell;              (* cells of the request being written *)
  todo : list item;              (* its WAL records still to be stored *)
  acked : nat;                   (* how many completed requests have been acknowledged *)
  walcur : N;                    (* fid of the current WAL *)
  vlogcur : N;                   (* fid of the current vlog file *)
  nflushed : N;                  (* WALs with fid <= nflushed are covered by MANIFEST tables *)
  nflushed_s : N;                (* ... as of the last MANIFEST fsync *)
  live : tabs;                   (* MANIFEST table set (current content) *)
  live_s : tabs;                 (* ... as of the last MANIFEST fsync *)
  usedtabs : list N;             (* table ids ever created *)
  sealed : N                     (* WALs with fid <= sealed are immutable: handed to the flusher *)
}.

Inductive pevent :=
| PE (e : event)
| PBegin (cells : list cell)
| PAck
| PSeal.   (* ensureRoomForWrite: the full memtable goes to flushChan; its WAL gets no more records *)

Definition is_nil {A} (l : list A) : bool := match l with [] => true | _ => false end.
Definition imp (a b : bool) : bool := negb a || b.

(* the file's synced image equals its content (a never-synced, still empty file counts) *)
Definition synced (s : fs) (f : fname) : bool :=
  match img s f with
  | Some c => list_eqb item_eqb c (cur s f)
  | None => false
  end.
Definition log_synced (s : fs) (f : fname) : bool :=
  match img s f with
  | Some c => list_eqb item_eqb c (cur s f)
  | None => is_nil (cur s f)
  end.

Definition vrec_at (l : list item) (i : nat) (e : centry) : bool :=
  match nth_error l i with Some (IV e') => centry_eqb e' e | _ => false end.

Definition ptr_ok (c : cfg) (s : fs) (cl : cell) : bool :=
  match snd cl with
  | None => true
  | Some p =>
      let f := Vlog (vp_fid p) in
      memf f (dir s) && vrec_at (cur s f) (vp_idx p) (fst cl)
      && imp (sync_writes c) (match img s f with Some im => vrec_at im (vp_idx p) (fst cl) | None => false end)
      && imp (fix_dirsync c) (memf f (dur s))
  end.

Definition unit_ts (cells : list cell) : N :=
  match cells with c :: _ => ce_ver (fst c) | [] => 0 end.
Definition unit_items (cells : list cell) : list item := map IWent cells ++ [IWfin (unit_ts cells)].

Definition set_fs (st : pstate) (s : fs) : pstate :=
  mkP s (units st) (pend st) (todo st) (acked st) (walcur st) (vlogcur st)
      (nflushed st) (nflushed_s st) (live st) (live_s st) (usedtabs st) (sealed st).

Definition creates (cs : list mchange) : list N :=
  flat_map (fun c => match c with MCreate id _ => [id] | _ => [] end) cs.
Definition deletes (cs : list mchange) : list N :=
  flat_map (fun c => match c with MDelete id => [id] | _ => [] end) cs.
Definition sst_cells (s : fs) (ids : list N) : list cell :=
  flat_map (fun id => table_cells (cur s (Sst id))) ids.

Definition pstep (c : cfg) (st : pstate) (pe : pevent) : option pstate :=
  let s := pfs st in
  let ok (b : bool) (r : pstate) := if b then Some r else None in
  match pe with
  | PBegin cells =>
      let w := Wal (walcur st) in
      ok (is_nil (todo st) && (sealed st <? walcur st) && negb (is_nil cells) && negb (unit_ts cells =? 0)
          && forallb (fun cl => ce_ver (fst cl) =? unit_ts cells) cells
          && forallb (ptr_ok c s) cells
          && memf w (dir s) && sized s w
          && imp (sync_writes c) (log_synced s w)
          && imp (fix_dirsync c) (memf w (dur s))
          && forallb (fun u => unit_ts (snd u) <? unit_ts cells) (units st))
         (mkP s (units st) cells (unit_items cells) (acked st) (walcur st) (vlogcur st)
              (nflushed st) (nflushed_s st) (live st) (live_s st) (usedtabs st) (sealed st))
  | PAck =>
      ok (is_nil (todo st) && imp (sync_writes c) (log_synced s (Wal (walcur st))))
         (mkP s (units st) (pend st) (todo st) (length (units st)) (walcur st) (vlogcur st)
              (nflushed st) (nflushed_s st) (live st) (live_s st) (usedtabs st) (sealed st))
  | PSeal =>
      ok (is_nil (todo st) && (sealed st <? walcur st)
          && imp (sync_writes c) (log_synced s (Wal (walcur st))))
         (mkP s (units st) (pend st) (todo st) (acked st) (walcur st) (vlogcur st)
              (nflushed st) (nflushed_s st) (live st) (live_s st) (usedtabs st) (walcur st))
  | PE e =>
      let s' := apply_event s e in
      match e with
      | SyncDir => Some (set_fs st s')
      | Rename _ _ => None
      | SyncFile f =>
          ok (memf f (dir s) && sized s f)
             (match f with
              | Manifest => mkP s' (units st) (pend st) (todo st) (acked st) (walcur st) (vlogcur st)
                                (nflushed st) (nflushed st) (live st) (live st) (usedtabs st) (sealed st)
              | _ => set_fs st s'
              end)
      (* ---- WAL ---- *)
      | Create (Wal f) =>
          ok ((f =? walcur st + 1) && (sealed st =? walcur st) && is_nil (todo st) && negb (memf (Wal f) (dir s))
              && sized s (Wal (walcur st))
              && imp (sync_writes c) (log_synced s (Wal (walcur st))))
             (mkP s' (units st) (pend st) (todo st) (acked st) f (vlogcur st)
                  (nflushed st) (nflushed_s st) (live st) (live_s st) (usedtabs st) (sealed st))
      | Init (Wal f) =>
          ok ((f =? walcur st) && (sealed st <? f) && memf (Wal f) (dir s) && negb (sized s (Wal f))) (set_fs st s')
      | Append (Wal f) x =>
          match todo st with
          | y :: rest =>
              ok ((f =? walcur st) && item_eqb x y && memf (Wal f) (dir s) && sized s (Wal f))
                 (match rest with
                  | [] => mkP s' (units st ++ [(walcur st, pend st)]) [] [] (acked st) (walcur st) (vlogcur st)
                              (nflushed st) (nflushed_s st) (live st) (live_s st) (usedtabs st) (sealed st)
                  | _ => mkP s' (units st) (pend st) rest (acked st) (walcur st) (vlogcur st)
                             (nflushed st) (nflushed_s st) (live st) (live_s st) (usedtabs st) (sealed st)
                  end)
          | [] => None
          end
      | Truncate0 (Wal f) | Unlink (Wal f) =>
          ok ((f <=? nflushed_s st) && memf (Wal f) (dir s)) (set_fs st s')
      (* ---- value log ---- *)
      | Create (Vlog f) =>
          ok ((f =? vlogcur st + 1) && negb (memf (Vlog f) (dir s))
              && imp (sync_writes c) (log_synced s (Vlog (vlogcur st))))
             (mkP s' (units st) (pend st) (todo st) (acked st) (walcur st) f
                  (nflushed st) (nflushed_s st) (live st) (live_s st) (usedtabs st) (sealed st))
      | Init (Vlog f) =>
          ok ((f =? vlogcur st) && memf (Vlog f) (dir s) && negb (sized s (Vlog f))) (set_fs st s')
      | Append (Vlog f) (IV _) =>
          ok ((f =? vlogcur st) && memf (Vlog f) (dir s) && sized s (Vlog f)) (set_fs st s')
      | Truncate0 (Vlog _) | Unlink (Vlog _) => None
      (* ---- tables ---- *)
      | Create (Sst id) =>
          ok (negb (existsb (N.eqb id) (usedtabs st)) && negb (memf (Sst id) (dir s)))
             (mkP s' (units st) (pend st) (todo st) (acked st) (walcur st) (vlogcur st)
                  (nflushed st) (nflushed_s st) (live st) (live_s st) (id :: usedtabs st) (sealed st))
      | Init (Sst id) =>
          ok (memf (Sst id) (dir s) && negb (sized s (Sst id)) && negb (tab_mem id (live st))
              && negb (tab_mem id (live_s st)) && is_nil (cur s (Sst id))) (set_fs st s')
      | Append (Sst id) (IT _) =>
          ok (memf (Sst id) (dir s) && sized s (Sst id)
              && match img s (Sst id) with None => true | Some _ => false end
              && negb (tab_mem id (live st)) && negb (tab_mem id (live_s st))) (set_fs st s')
      | Truncate0 (Sst id) | Unlink (Sst id) =>
          ok (memf (Sst id) (dir s) && negb (tab_mem id (live st)) && negb (tab_mem id (live_s st)))
             (set_fs st s')
      (* ---- MANIFEST ---- *)
      | Append Manifest (IM cs) =>
          match apply_changes (live st) cs with
          | None => None
          | Some live' =>
              let news := creates cs in
              let olds := deletes cs in
              let tables_ready :=
                forallb (fun id => memf (Sst id) (dir s) && sized s (Sst id) && synced s (Sst id)) news in
              if is_nil olds then
                (* flush: exactly one new L0 table = the oldest unflushed immutable WAL *)
                match cs with
                | [MCreate id 0] =>
                    let f := nflushed st + 1 in
                    ok (synced s Manifest && tables_ready && (f <=? sealed st)
                        && same_cells (table_cells (cur s (Sst id))) (wal_cells (cur s (Wal f)))
                        && imp (fix_dirsync c) (memf (Sst id) (dur s)))
                       (mkP s' (units st) (pend st) (todo st) (acked st) (walcur st) (vlogcur st)
                            f (nflushed_s st) live' (live_s st) (usedtabs st) (sealed st))
                | _ => None
                end
              else
                ok (synced s Manifest && tables_ready
                    && forallb (fun id => memf (Sst id) (dur s)) news
                    && forallb (fun id => tab_mem id (live st)) olds
                    && forallb (fun id => negb (tab_mem id (live st))) news
                    && compact_okb (sst_cells s olds) (sst_cells s news))
                   (mkP s' (units st) (pend st) (todo st) (acked st) (walcur st) (vlogcur st)
                        (nflushed st) (nflushed_s st) live' (live_s st) (usedtabs st) (sealed st))
          end
      | _ => None
      end
  end.

Fixpoint run (c : cfg) (st : pstate) (tr : list pevent) : option pstate :=
  match tr with
  | [] => Some st
  | e :: r => match pstep c st e with Some st' => run c st' r | None => None end
  end.

(* a freshly opened empty database (db.go Open on an empty directory): MANIFEST created,
   synced and directory-synced (manifest.go helpRewrite + syncDir); 00001.mem created by
   newMemTable BEFORE newLevelsController's syncDir, so its name is durable; 000001.vlog
   created by valueLog.open AFTER that syncDir: durable only with the F9 repair. *)
Definition init_fs (c : cfg) : fs :=
  mkFS [Manifest; Wal 1; Vlog 1]
       (if fix_dirsync c then [Manifest; Wal 1; Vlog 1] else [Manifest; Wal 1])
       (fun _ => [])
       (fun f => match f with Manifest => Some [] | _ => None end)
       (fun f => match f with Manifest | Wal 1 | Vlog 1 => true | _ => false end).

Definition init (c : cfg) : pstate := mkP (init_fs c) [] [] [] 0 1 1 0 0 [] [] [] 0.

(* issued commits in commit order: the completed requests, then the one in progress *)
Definition done_commits (st : pstate) : list (list centry) := map (fun u => map fst (snd u)) (units st).
Definition issued (st : pstate) : list (list centry) :=
  done_commits st ++ (if is_nil (todo st) then [] else [map fst (pend st)]).
