(* RecoverProofs.v — WAL replay in transaction units, the refinement relation, checkers *)
From Coq Require Import Lia Arith PeanoNat.
From Coq Require Import ZifyN ZifyNat ZifyBool.
From Verif Require Import FS Recover Persist Crash FSProofs.
Open Scope N_scope.

(* a request as commitAndSend builds it: at least one entry, non-zero commit ts carried by
   every entry (keepTogether) *)
Definition valid_unit (cs : list cell) : Prop :=
  cs <> [] /\ unit_ts cs <> 0 /\ forall c, In c cs -> ce_ver (fst c) = unit_ts cs.

Lemma replay_ents : forall cs rest ts last pend out,
  ts <> 0 -> (forall c, In c cs -> ce_ver (fst c) = ts) -> (last = ts \/ last = 0) ->
  wal_replay (map IWent cs ++ rest) last pend out =
  wal_replay rest (match cs with [] => last | _ => ts end) (pend ++ cs) out.
Proof.
  unfold cell in *. induction cs as [|c cs IH]; intros rest ts last pend out Hts Hv Hl.
  - cbn [map app]. rewrite app_nil_r. reflexivity.
  - cbn [map app wal_replay]. rewrite (Hv c (or_introl eq_refl)).
    assert (E : (if last =? 0 then ts else last) = ts).
    { destruct Hl as [->| ->]; [|reflexivity]. destruct (ts =? 0) eqn:E0; [apply N.eqb_eq in E0; contradiction|reflexivity]. }
    rewrite E, N.eqb_refl.
    rewrite (IH rest ts ts); [|exact Hts|intros x Hx; apply Hv; right; exact Hx|left; reflexivity].
    rewrite <- app_assoc. cbn [app]. destruct cs; reflexivity.
Qed.

Lemma replay_unit : forall cs rest out, valid_unit cs ->
  wal_replay (unit_items cs ++ rest) 0 [] out = wal_replay rest 0 [] (out ++ cs).
Proof.
  intros cs rest out [Hne [Hts Hv]]. unfold unit_items. rewrite <- app_assoc.
  rewrite (replay_ents cs _ (unit_ts cs) 0 [] out Hts Hv (or_intror eq_refl)).
  destruct cs as [|c cs]; [contradiction|].
  cbn [app wal_replay]. rewrite N.eqb_refl. reflexivity.
Qed.

Lemma replay_units : forall us rest out, Forall valid_unit us ->
  wal_replay (flat_map unit_items us ++ rest) 0 [] out = wal_replay rest 0 [] (out ++ concat us).
Proof.
  induction us as [|u us IH]; intros rest out Hv.
  - cbn [flat_map concat app]. rewrite app_nil_r. reflexivity.
  - inversion Hv as [|? ? Hu Hus]; subst. cbn [flat_map concat]. rewrite <- app_assoc.
    rewrite (replay_unit u _ out Hu). rewrite (IH rest (out ++ u) Hus). rewrite <- app_assoc. reflexivity.
Qed.

Lemma app_tail_split : forall A (wr td : list A) l x, wr ++ td = l ++ [x] -> td <> [] ->
  exists td', td = td' ++ [x] /\ wr ++ td' = l.
Proof.
  intros A wr td l x H Hne. destruct (exists_last Hne) as [td' [y E]]. subst td.
  rewrite app_assoc in H. apply app_inj_tail in H. destruct H as [H1 H2]. subst. exists td'. split; reflexivity.
Qed.

Lemma In_firstn_in : forall A n (l : list A) x, In x (firstn n l) -> In x l.
Proof.
  intros A n. induction n as [|n IH]; intros [|y l] x H; cbn [firstn] in H; try contradiction.
  destruct H as [->|H]; [left; reflexivity|right; apply IH; exact H].
Qed.

Lemma replay_partial : forall p wr td out, valid_unit p -> unit_items p = wr ++ td -> td <> [] ->
  wal_replay wr 0 [] out = out.
Proof.
  intros p wr td out [Hne [Hts Hv]] E Hn. unfold unit_items in E. symmetry in E.
  destruct (app_tail_split _ wr td _ _ E Hn) as [td' [_ E']].
  assert (Hw : wr = map IWent (firstn (length wr) p)).
  { rewrite <- firstn_map. rewrite <- E'. rewrite firstn_app, Nat.sub_diag, firstn_all. cbn [firstn]. rewrite app_nil_r. reflexivity. }
  rewrite Hw. rewrite <- (app_nil_r (map IWent _)).
  rewrite (replay_ents _ [] (unit_ts p) 0 [] out Hts); [reflexivity| |right; reflexivity].
  intros c Hc. apply Hv. eapply In_firstn_in; exact Hc.
Qed.

Lemma wal_cells_units : forall us wr p td, Forall valid_unit us ->
  (wr = [] \/ (valid_unit p /\ unit_items p = wr ++ td /\ td <> [])) ->
  wal_cells (flat_map unit_items us ++ wr) = concat us.
Proof.
  intros us wr p td Hv Hw. unfold wal_cells. rewrite (replay_units us wr [] Hv). cbn [app].
  destruct Hw as [->|[Hp [E Hn]]]; [reflexivity|]. exact (replay_partial p wr td _ Hp E Hn).
Qed.

(* ---- the refinement relation ---- *)
Lemma refines_visible : forall P R, refines P R -> forall e, visible P e <-> visible R e.
Proof.
  intros P R [Ha Hb] e. split; intros [Hin Hmax].
  - destruct (Hb e Hin) as [HR|[e' [HR' [Hk Hv]]]].
    + split; [exact HR|]. intros e' He' Hk. apply Hmax; [apply Ha; exact He'|exact Hk].
    + pose proof (Hmax e' (Ha e' HR') Hk). lia.
  - split; [apply Ha; exact Hin|]. intros e' He' Hk.
    destruct (Hb e' He') as [HR|[e'' [HR'' [Hk' Hv]]]].
    + apply Hmax; [exact HR|exact Hk].
    + pose proof (Hmax e'' HR'' (eq_trans Hk' Hk)). lia.
Qed.

Lemma refines_same_sets : forall P P' R R', refines P R ->
  (forall e, In e P <-> In e P') -> (forall e, In e R <-> In e R') -> refines P' R'.
Proof.
  intros P P' R R' [Ha Hb] HP HR. split.
  - intros e He. apply HP. apply Ha. apply HR. exact He.
  - intros e He. apply HP in He. destruct (Hb e He) as [H|[e' [H1 H2]]].
    + left. apply HR. exact H.
    + right. exists e'. split; [apply HR; exact H1|exact H2].
Qed.

Lemma ce_mem_In : forall e l, ce_mem e l = true <-> In e l.
Proof.
  intros e l. unfold ce_mem. rewrite existsb_exists. split.
  - intros [x [Hx E]]. apply centry_eqb_eq in E. subst. exact Hx.
  - intro H. exists e. split; [exact H|apply centry_eqb_eq; reflexivity].
Qed.

Lemma refinesb_spec : forall P R, refinesb P R = true <-> refines P R.
Proof.
  intros P R. unfold refinesb, refines. rewrite Bool.andb_true_iff, !forallb_forall. split.
  - intros [Ha Hb]. split.
    + intros e He. apply ce_mem_In. apply Ha. exact He.
    + intros e He. specialize (Hb e He). apply Bool.orb_true_iff in Hb. destruct Hb as [H|H].
      * left. apply ce_mem_In. exact H.
      * right. apply existsb_exists in H. destruct H as [r [Hr H]]. apply Bool.andb_true_iff in H.
        destruct H as [H1 H2]. exists r. split; [exact Hr|]. split; [apply N.eqb_eq; exact H1|apply N.ltb_lt; exact H2].
  - intros [Ha Hb]. split.
    + intros e He. apply ce_mem_In. apply Ha. exact He.
    + intros e He. apply Bool.orb_true_iff. destruct (Hb e He) as [H|[r [Hr [H1 H2]]]].
      * left. apply ce_mem_In. exact H.
      * right. apply existsb_exists. exists r. split; [exact Hr|]. apply Bool.andb_true_iff.
        split; [apply N.eqb_eq; exact H1|apply N.ltb_lt; exact H2].
Qed.

Lemma prefix_okb_from_spec : forall iss R acc n ack,
  prefix_okb_from iss R acc n ack = true <->
  exists j, (j <= length iss)%nat /\ (ack <= n + j)%nat /\ refines (acc ++ concat (firstn j iss)) R.
Proof.
  induction iss as [|cm iss IH]; intros R acc n ack; cbn [prefix_okb_from].
  - rewrite Bool.orb_false_r, Bool.andb_true_iff, Nat.leb_le, refinesb_spec. split.
    + intros [H1 H2]. exists 0%nat. cbn [firstn concat length]. rewrite app_nil_r. split; [lia|split; [lia|exact H2]].
    + intros [j [Hj [Hn Hr]]]. cbn [length] in Hj. assert (j = 0%nat) by lia. subst.
      cbn [firstn concat] in Hr. rewrite app_nil_r in Hr. split; [lia|exact Hr].
  - rewrite Bool.orb_true_iff, Bool.andb_true_iff, Nat.leb_le, refinesb_spec, IH. split.
    + intros [[H1 H2]|[j [Hj [Hn Hr]]]].
      * exists 0%nat. cbn [firstn concat length]. rewrite app_nil_r. split; [lia|split; [lia|exact H2]].
      * exists (S j). cbn [firstn concat length]. rewrite app_assoc. split; [lia|split; [lia|exact Hr]].
    + intros [[|j] [Hj [Hn Hr]]].
      * left. cbn [firstn concat] in Hr. rewrite app_nil_r in Hr. split; [lia|exact Hr].
      * right. exists j. cbn [firstn concat length] in *. rewrite app_assoc in Hr. split; [lia|split; [lia|exact Hr]].
Qed.

Lemma prefix_okb_spec : forall st R, prefix_okb st R = true <-> prefix_ok st R.
Proof.
  intros st R. unfold prefix_okb, prefix_ok. rewrite prefix_okb_from_spec. cbn [app].
  split; intros [j [H1 [H2 H3]]]; exists j; (split; [lia|split; [lia|exact H3]]).
Qed.
