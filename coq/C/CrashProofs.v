(* CrashProofs.v — the crash invariant of the persistence protocol and the C08 theorems.
   Inv_c speaks only about what a killed process leaves behind (names, page-cache content,
   sizes); the power-loss part (synced images, durable names) is in PowerLossProofs.v. *)
From Coq Require Import Lia Arith PeanoNat.
From Coq Require Import ZifyN ZifyNat ZifyBool.
From Verif Require Import FS Recover Persist Crash FSProofs RecoverProofs.
Open Scope N_scope.

(* ---- bookkeeping over the completed requests ---- *)
Definition ulist := list (N * list cell).
Definition units_of (f : N) (us : ulist) : ulist := filter (fun u => fst u =? f) us.
Definition recs_of (f : N) (us : ulist) : list item := flat_map (fun u => unit_items (snd u)) (units_of f us).
Definition cells_of (us : ulist) : list cell := flat_map snd us.
Definition flushed_units (n : N) (us : ulist) : ulist := filter (fun u => fst u <=? n) us.

Definition cells_refine (F T : list cell) : Prop :=
  incl T F /\
  forall c, In c F -> In c T \/
    exists c', In c' T /\ ce_key (fst c') = ce_key (fst c) /\ ce_ver (fst c) < ce_ver (fst c').

(* records of the request in progress that are already stored *)
Definition wr_ok (st : pstate) (wr : list item) : Prop :=
  (todo st = [] /\ wr = []) \/
  (todo st <> [] /\ valid_unit (pend st) /\ unit_items (pend st) = wr ++ todo st).

Record Inv_c (st : pstate) : Prop := mkInvC {
  ic_order : nflushed_s st <= nflushed st /\ nflushed st <= sealed st /\ sealed st <= walcur st;
  ic_acked : (acked st <= length (units st))%nat;
  ic_units : forall u, In u (units st) -> valid_unit (snd u) /\ fst u <= walcur st;
  ic_wal : exists wr, wr_ok st wr /\
     forall f, In (Wal f) (dir (pfs st)) -> f <= walcur st /\
       ((sized (pfs st) (Wal f) = true /\
         cur (pfs st) (Wal f) = recs_of f (units st) ++ (if f =? walcur st then wr else []))
        \/ (sized (pfs st) (Wal f) = false /\ cur (pfs st) (Wal f) = [] /\
            (f <= nflushed_s st \/ (f = walcur st /\ recs_of f (units st) = [] /\ todo st = []))));
  ic_wal_dir : forall f, nflushed_s st < f -> f <= walcur st -> In (Wal f) (dir (pfs st));
  ic_man : In Manifest (dir (pfs st)) /\ replay_manifest [] (cur (pfs st) Manifest) = Some (live st);
  ic_live : forall x, In x (live st) ->
     In (Sst (fst x)) (dir (pfs st)) /\ sized (pfs st) (Sst (fst x)) = true;
  ic_cover : cells_refine (cells_of (flushed_units (nflushed st) (units st))) (lsm_cells (pfs st) (live st));
  ic_ptr : forall c, In c (cells_of (units st)) \/ (todo st <> [] /\ In c (pend st)) ->
     deref (pfs st) c = Some (fst c);
  ic_ts : todo st <> [] -> forall u, In u (units st) -> unit_ts (snd u) < unit_ts (pend st);
  ic_seal : todo st <> [] -> sealed st < walcur st
}.

(* ---- small tools ---- *)
Lemma ok_some : forall (b : bool) (r st' : pstate), (if b then Some r else None) = Some st' -> b = true /\ st' = r.
Proof. intros [|] r st' H; [inversion H; auto|discriminate]. Qed.

Ltac bsplit H :=
  repeat match type of H with
         | (_ && _) = true => let H' := fresh H in apply andb_prop in H; destruct H as [H H']
         end.

Lemma imp_true : forall a b, imp a b = true -> a = true -> b = true.
Proof. intros [|] b H Ha; [exact H|discriminate]. Qed.

Lemma is_nil_true : forall A (l : list A), is_nil l = true <-> l = [].
Proof. intros A [|x l]; cbn; split; intro H; try reflexivity; try discriminate. Qed.
Lemma is_nil_false : forall A (l : list A), is_nil l = false <-> l <> [].
Proof. intros A [|x l]; cbn; split; intro H; try reflexivity; try discriminate; try congruence. Qed.

Lemma replay_manifest_app : forall a b t,
  replay_manifest t (a ++ b) =
  match replay_manifest t a with Some t' => replay_manifest t' b | None => None end.
Proof.
  induction a as [|x a IH]; intros b t; cbn [app replay_manifest]; [reflexivity|].
  destruct x; try reflexivity. destruct (apply_changes t cs); [apply IH|reflexivity].
Qed.

Lemma tab_mem_In : forall id t, tab_mem id t = true <-> exists l, In (id, l) t.
Proof.
  intros id t. unfold tab_mem. rewrite existsb_exists. split.
  - intros [[i l] [H E]]. cbn [fst] in E. apply N.eqb_eq in E. subst. exists l. exact H.
  - intros [l H]. exists (id, l). split; [exact H|apply N.eqb_refl].
Qed.
Lemma tab_mem_fst : forall x t, In x t -> tab_mem (fst x) t = true.
Proof. intros [i l] t H. apply tab_mem_In. exists l. exact H. Qed.
Lemma tab_del_In : forall x id t, In x (tab_del id t) <-> In x t /\ fst x <> id.
Proof.
  intros x id t. unfold tab_del. rewrite filter_In, Bool.negb_true_iff, N.eqb_neq. reflexivity.
Qed.

(* membership facts about applyChangeSet, for any order of the changes *)
Lemma apply_changes_from : forall cs t t', apply_changes t cs = Some t' ->
  forall x, In x t' -> In x t \/ In (fst x) (creates cs).
Proof.
  induction cs as [|[id l|id] cs IH]; intros t t' H x Hx; cbn [apply_changes creates flat_map] in *.
  - inversion H; subst. left. exact Hx.
  - destruct (tab_mem id t); [discriminate|]. destruct (IH _ _ H x Hx) as [H1|H1].
    + apply in_app_or in H1. destruct H1 as [H1|[<-|[]]]; [left; exact H1|right; left; reflexivity].
    + right. right. exact H1.
  - destruct (tab_mem id t); [|discriminate]. destruct (IH _ _ H x Hx) as [H1|H1].
    + left. apply tab_del_In in H1. apply H1.
    + right. exact H1.
Qed.
Lemma apply_changes_keep : forall cs t t', apply_changes t cs = Some t' ->
  forall x, In x t -> In x t' \/ In (fst x) (deletes cs).
Proof.
  induction cs as [|[id l|id] cs IH]; intros t t' H x Hx; cbn [apply_changes deletes flat_map] in *.
  - inversion H; subst. left. exact Hx.
  - destruct (tab_mem id t); [discriminate|]. apply (IH _ _ H x). apply in_or_app. left. exact Hx.
  - destruct (tab_mem id t); [|discriminate]. destruct (N.eq_dec (fst x) id) as [E|E].
    + right. left. symmetry. exact E.
    + destruct (IH _ _ H x) as [H1|H1]; [apply tab_del_In; split; assumption|left; exact H1|right; right; exact H1].
Qed.
Lemma apply_changes_new : forall cs t t', apply_changes t cs = Some t' ->
  forall id, In id (creates cs) -> (exists l, In (id, l) t') \/ In id (deletes cs).
Proof.
  induction cs as [|[i l|i] cs IH]; intros t t' H id Hid; cbn [apply_changes creates deletes flat_map] in *.
  - contradiction.
  - destruct (tab_mem i t); [discriminate|]. destruct Hid as [<-|Hid].
    + destruct (apply_changes_keep _ _ _ H (i, l)) as [H1|H1]; [apply in_or_app; right; left; reflexivity| |].
      * left. exists l. exact H1.
      * right. exact H1.
    + apply (IH _ _ H id Hid).
  - destruct (tab_mem i t); [|discriminate]. destruct (IH _ _ H id Hid) as [H1|H1]; [left; exact H1|right; right; exact H1].
Qed.

Lemma units_of_app : forall f a b, units_of f (a ++ b) = units_of f a ++ units_of f b.
Proof. intros. unfold units_of. apply filter_app. Qed.
Lemma recs_of_app : forall f a b, recs_of f (a ++ b) = recs_of f a ++ recs_of f b.
Proof. intros. unfold recs_of. rewrite units_of_app, flat_map_app. reflexivity. Qed.
Lemma cells_of_app : forall a b, cells_of (a ++ b) = cells_of a ++ cells_of b.
Proof. intros. unfold cells_of. apply flat_map_app. Qed.
Lemma flushed_units_app : forall n a b, flushed_units n (a ++ b) = flushed_units n a ++ flushed_units n b.
Proof. intros. unfold flushed_units. apply filter_app. Qed.

Lemma In_cells_of : forall c us, In c (cells_of us) <-> exists u, In u us /\ In c (snd u).
Proof. intros. unfold cells_of. apply in_flat_map. Qed.

Lemma wal_names_In : forall n d, In n (wal_names d) <-> In (Wal n) d.
Proof.
  intros n d. unfold wal_names. rewrite in_flat_map. split.
  - intros [f [Hf H]]. destruct f; cbn in H; try contradiction. destruct H as [<-|[]]. exact Hf.
  - intro H. exists (Wal n). split; [exact H|left; reflexivity].
Qed.

Lemma lsm_cells_In : forall s t c, In c (lsm_cells s t) <-> exists x, In x t /\ In c (table_cells (cur s (Sst (fst x)))).
Proof. intros. unfold lsm_cells. apply in_flat_map. Qed.
Lemma sst_cells_In : forall s ids c, In c (sst_cells s ids) <-> exists id, In id ids /\ In c (table_cells (cur s (Sst id))).
Proof. intros. unfold sst_cells. apply in_flat_map. Qed.

Lemma lsm_cells_ext : forall s s' t, (forall x, In x t -> cur s' (Sst (fst x)) = cur s (Sst (fst x))) ->
  lsm_cells s' t = lsm_cells s t.
Proof.
  intros s s' t H. unfold lsm_cells. induction t as [|x t IH]; [reflexivity|].
  cbn [flat_map]. rewrite (H x (or_introl eq_refl)). rewrite IH; [reflexivity|].
  intros y Hy. apply H. right. exact Hy.
Qed.

(* deref depends only on the vlog file the pointer names *)
Lemma deref_stable : forall s s' c e, deref s c = Some e ->
  (forall p, snd c = Some p -> In (Vlog (vp_fid p)) (dir s) ->
     In (Vlog (vp_fid p)) (dir s') /\
     (forall x, nth_error (cur s (Vlog (vp_fid p))) (vp_idx p) = Some x ->
                nth_error (cur s' (Vlog (vp_fid p))) (vp_idx p) = Some x)) ->
  deref s' c = Some e.
Proof.
  intros s s' c e H Hs. unfold deref in *. destruct (snd c) as [p|]; [|exact H].
  destruct (memf (Vlog (vp_fid p)) (dir s)) eqn:Em; [|discriminate].
  apply memf_In in Em. destruct (Hs p eq_refl Em) as [Hd Hn].
  apply memf_In in Hd. rewrite Hd.
  destruct (nth_error (cur s (Vlog (vp_fid p))) (vp_idx p)) as [x|] eqn:En; [|discriminate].
  rewrite (Hn x eq_refl). exact H.
Qed.

Ltac psimp := cbn [pfs units pend todo acked walcur vlogcur nflushed nflushed_s live live_s usedtabs sealed
                   set_fs apply_event dir dur cur img sized upd fname_eqb] in *.

Lemma ptr_ok_deref : forall c s cl, ptr_ok c s cl = true -> deref s cl = Some (fst cl).
Proof.
  intros c s cl H. unfold ptr_ok in H. unfold deref. destruct (snd cl) as [p|]; [|reflexivity].
  rewrite !Bool.andb_true_iff in H. destruct H as [[[H1 H2] _] _]. rewrite H1.
  unfold vrec_at in H2. destruct (nth_error (cur s (Vlog (vp_fid p))) (vp_idx p)) as [[| |e| |]|]; try discriminate.
  rewrite H2. apply centry_eqb_eq in H2. subst. reflexivity.
Qed.

Lemma inv_c_begin : forall c st cells st', Inv_c st -> pstep c st (PBegin cells) = Some st' -> Inv_c st'.
Proof.
  intros c st cells st' I H. cbn [pstep] in H. apply ok_some in H. destruct H as [G ->].
  rewrite !Bool.andb_true_iff in G. destruct G as [[[[[[[[[[G1 G1s] G2] G3] G4] G5] G6] G7] G8] G9] G10].
  apply is_nil_true in G1. apply N.ltb_lt in G1s. apply Bool.negb_true_iff in G2. apply is_nil_false in G2.
  apply Bool.negb_true_iff in G3. apply N.eqb_neq in G3.
  assert (Hv : valid_unit cells).
  { split; [exact G2|split; [exact G3|]]. intros x Hx. rewrite forallb_forall in G4. apply N.eqb_eq. apply G4. exact Hx. }
  assert (Hne : unit_items cells <> []). { unfold unit_items. intro E. apply app_eq_nil in E. destruct E; discriminate. }
  destruct I as [Io Ia Iu [wr [Hwr Iw]] Id Im Il Ic Ip It Is]. constructor; psimp; try assumption.
  - exists []. split.
    + right. split; [exact Hne|split; [exact Hv|reflexivity]].
    + intros f Hf. destruct (Iw f Hf) as [Hle Hd]. split; [exact Hle|].
      destruct Hwr as [[_ ->]|[Hn _]]; [|contradiction].
      destruct Hd as [Hd|[Hs [Hc [Hd|[-> _]]]]].
      * left. exact Hd.
      * right. split; [exact Hs|split; [exact Hc|left; exact Hd]].
      * apply memf_In in G6. congruence.
  - intros cl [Hc|[_ Hc]]; [apply Ip; left; exact Hc|].
    rewrite forallb_forall in G5. apply (ptr_ok_deref c). apply G5. exact Hc.
  - intros _ u Hu. rewrite forallb_forall in G10. apply N.ltb_lt. apply G10. exact Hu.
  - intros _. exact G1s.
Qed.

Lemma inv_c_ack : forall c st st', Inv_c st -> pstep c st PAck = Some st' -> Inv_c st'.
Proof.
  intros c st st' I H. cbn [pstep] in H. apply ok_some in H. destruct H as [G ->].
  destruct I as [Io Ia Iu Iw Id Im Il Ic Ip It Is]. constructor; psimp; try assumption. lia.
Qed.

Lemma inv_c_seal : forall c st st', Inv_c st -> pstep c st PSeal = Some st' -> Inv_c st'.
Proof.
  intros c st st' I H. cbn [pstep] in H. apply ok_some in H. destruct H as [G ->].
  rewrite !Bool.andb_true_iff in G. destruct G as [[G1 G2] G3]. apply is_nil_true in G1.
  destruct I as [Io Ia Iu Iw Id Im Il Ic Ip It Is]. constructor; psimp; try assumption.
  - lia.
  - intro Hn. contradiction.
Qed.

Lemma inv_c_syncdir : forall c st st', Inv_c st -> pstep c st (PE SyncDir) = Some st' -> Inv_c st'.
Proof.
  intros c st st' I H. cbn [pstep] in H. inversion H; subst; clear H.
  destruct I as [Io Ia Iu Iw Id Im Il Ic Ip It Is]. constructor; psimp; assumption.
Qed.

Lemma inv_c_syncfile : forall c st f st', Inv_c st -> pstep c st (PE (SyncFile f)) = Some st' -> Inv_c st'.
Proof.
  intros c st f st' I H. cbn [pstep] in H. apply ok_some in H. destruct H as [G ->].
  destruct I as [Io Ia Iu [wr [Hwr Iw]] Id Im Il Ic Ip It Is].
  destruct f; constructor; psimp; try assumption; try (exists wr; split; assumption).
  - lia.
  - exists wr. split; [exact Hwr|]. intros f Hf. destruct (Iw f Hf) as [Hle Hd]. split; [exact Hle|].
    destruct Hd as [Hd|[Hs [Hc [Hd|Hd]]]]; [left; exact Hd|right|right].
    + split; [exact Hs|split; [exact Hc|left; lia]].
    + split; [exact Hs|split; [exact Hc|right; exact Hd]].
  - intros f Hlt Hle. apply Id; lia.
Qed.

Lemma recs_of_none : forall f us, (forall u, In u us -> fst u <> f) -> recs_of f us = [].
Proof.
  intros f us H. unfold recs_of, units_of. induction us as [|u us IH]; [reflexivity|].
  cbn [filter]. destruct (fst u =? f) eqn:E.
  - apply N.eqb_eq in E. exfalso. apply (H u); [left; reflexivity|exact E].
  - apply IH. intros v Hv. apply H. right. exact Hv.
Qed.

Lemma deref_dir_grow : forall s s' c e, deref s c = Some e ->
  (forall f, In (Vlog f) (dir s) -> In (Vlog f) (dir s')) ->
  (forall f, In (Vlog f) (dir s) -> cur s' (Vlog f) = cur s (Vlog f)) -> deref s' c = Some e.
Proof.
  intros s s' c e H Hd Hc. apply (deref_stable s s' c e H). intros p _ Hin. split; [apply Hd; exact Hin|].
  intros x Hx. rewrite (Hc _ Hin). exact Hx.
Qed.

Lemma inv_c_wal_create : forall c st f st', Inv_c st -> pstep c st (PE (Create (Wal f))) = Some st' -> Inv_c st'.
Proof.
  intros c st f st' I H. cbn [pstep] in H. apply ok_some in H. destruct H as [G ->].
  rewrite !Bool.andb_true_iff in G. destruct G as [[[[[G1 G1s] G2] G3] G4] G5].
  apply N.eqb_eq in G1. apply N.eqb_eq in G1s. apply is_nil_true in G2. apply Bool.negb_true_iff in G3.
  destruct I as [Io Ia Iu [wr [Hwr Iw]] Id Im Il Ic Ip It Is]. constructor; psimp; rewrite ?G3; psimp; try assumption.
  - lia.
  - intros u Hu. destruct (Iu u Hu) as [H1 H2]. split; [exact H1|lia].
  - exists []. split; [left; split; [exact G2|reflexivity]|].
    destruct Hwr as [[_ ->]|[Hn _]]; [|contradiction].
    intros f' [E|Hf].
    + inversion E; subst f'. split; [lia|]. right. unfold upd. cbn [fname_eqb]. rewrite N.eqb_refl. split; [reflexivity|split; [reflexivity|]].
      right. split; [reflexivity|split; [|exact G2]]. apply recs_of_none. intros u Hu. destruct (Iu u Hu) as [_ H2]. lia.
    + assert (Hne : f' <> f). { intro E. subst f'. apply memf_false in G3. contradiction. }
      apply N.eqb_neq in Hne. unfold upd. cbn [fname_eqb]. rewrite Hne. destruct (Iw f' Hf) as [Hle Hd]. split; [lia|].
      destruct Hd as [[Hs Hc]|[Hs [Hc [Hd|[-> _]]]]].
      * left. split; [exact Hs|]. rewrite Hc. destruct (f' =? walcur st), (f' =? f); reflexivity.
      * right. split; [exact Hs|split; [exact Hc|left; exact Hd]].
      * congruence.
  - intros f' Hlt Hle. destruct (N.eq_dec f' f) as [->|Hne]; [left; reflexivity|right; apply Id; lia].
  - destruct Im as [Im1 Im2]. split; [right; exact Im1|exact Im2].
  - intros x Hx. destruct (Il x Hx) as [H1 H2]. split; [right; exact H1|exact H2].
  - intro Hn. contradiction.
Qed.

Lemma inv_c_wal_init : forall c st f st', Inv_c st -> pstep c st (PE (Init (Wal f))) = Some st' -> Inv_c st'.
Proof.
  intros c st f st' I H. cbn [pstep] in H. apply ok_some in H. destruct H as [G ->].
  rewrite !Bool.andb_true_iff in G. destruct G as [[[G1 G1s] G2] G3].
  apply N.eqb_eq in G1. subst f. apply N.ltb_lt in G1s. apply Bool.negb_true_iff in G3.
  destruct I as [Io Ia Iu [wr [Hwr Iw]] Id Im Il Ic Ip It Is]. constructor; psimp; try assumption.
  exists wr. split; [exact Hwr|]. intros f Hf. destruct (Iw f Hf) as [Hle Hd]. split; [exact Hle|].
  unfold upd. cbn [fname_eqb]. destruct (N.eq_dec f (walcur st)) as [->|Hne].
  - rewrite N.eqb_refl. left. split; [reflexivity|].
    destruct Hd as [[Hs _]|[_ [Hc [Hd|[_ [Hr Ht]]]]]]; [congruence|lia|].
    rewrite Hc, Hr. destruct Hwr as [[_ ->]|[Hn _]]; [reflexivity|contradiction].
  - apply N.eqb_neq in Hne. rewrite Hne in *. exact Hd.
Qed.

Lemma recs_of_snoc : forall f g cs us,
  recs_of f (us ++ [(g, cs)]) = recs_of f us ++ (if g =? f then unit_items cs else []).
Proof.
  intros. rewrite recs_of_app. f_equal. unfold recs_of, units_of. cbn [filter fst].
  destruct (g =? f); cbn [flat_map snd]; [apply app_nil_r|reflexivity].
Qed.

Lemma flushed_units_snoc_gt : forall n g cs us, n < g -> flushed_units n (us ++ [(g, cs)]) = flushed_units n us.
Proof.
  intros. rewrite flushed_units_app. unfold flushed_units at 2. cbn [filter fst].
  destruct (g <=? n) eqn:E; [apply N.leb_le in E; lia|apply app_nil_r].
Qed.

Lemma inv_c_wal_append : forall c st f x st', Inv_c st -> pstep c st (PE (Append (Wal f) x)) = Some st' -> Inv_c st'.
Proof.
  intros c st f x st' I H. cbn [pstep] in H. destruct (todo st) as [|y rest] eqn:Et; [discriminate|].
  apply ok_some in H. destruct H as [G Hst].
  rewrite !Bool.andb_true_iff in G. destruct G as [[[G1 G2] G3] G4].
  apply N.eqb_eq in G1. subst f. apply item_eqb_eq in G2. subst y. apply memf_In in G3.
  destruct I as [Io Ia Iu [wr [Hwr Iw]] Id Im Il Ic Ip It Is].
  destruct Hwr as [[Hn _]|[_ [Hpv Hpe]]]; [congruence|]. rewrite Et in Hpe.
  assert (Hsl : sealed st < walcur st) by (apply Is; rewrite Et; discriminate).
  assert (Hcur : cur (pfs st) (Wal (walcur st)) = recs_of (walcur st) (units st) ++ wr).
  { destruct (Iw _ G3) as [_ [[_ Hc]|[Hs _]]]; [rewrite N.eqb_refl in Hc; exact Hc|congruence]. }
  destruct rest as [|z rest]; subst st'.
  - (* the unit is complete *)
    constructor; psimp; try assumption.
    + rewrite app_length. cbn [length]. lia.
    + intros u Hu. apply in_app_or in Hu. destruct Hu as [Hu|[<-|[]]]; [apply Iu; exact Hu|].
      cbn [fst snd]. split; [exact Hpv|lia].
    + exists []. split; [left; split; reflexivity|]. intros f Hf. destruct (Iw f Hf) as [Hle Hd]. split; [exact Hle|].
      rewrite recs_of_snoc. unfold upd. cbn [fname_eqb]. rewrite (N.eqb_sym (walcur st) f).
      destruct (f =? walcur st) eqn:E.
      * apply N.eqb_eq in E. subst f. left. split; [exact G4|]. rewrite Hcur, Hpe, !app_nil_r, <- app_assoc. reflexivity.
      * rewrite !app_nil_r. destruct Hd as [Hd|[Hs [Hc [Hd|[-> _]]]]].
        -- left. rewrite app_nil_r in Hd. exact Hd.
        -- right. split; [exact Hs|split; [exact Hc|left; exact Hd]].
        -- rewrite N.eqb_refl in E. discriminate.
    + rewrite flushed_units_snoc_gt; [exact Ic|lia].
    + intros cl [Hc|[Hn _]]; [|contradiction]. rewrite cells_of_app in Hc. apply in_app_or in Hc.
      destruct Hc as [Hc|Hc]; [apply Ip; left; exact Hc|]. cbn [cells_of flat_map snd] in Hc. rewrite app_nil_r in Hc.
      apply Ip. right. split; [rewrite Et; discriminate|exact Hc].
    + intro Hn. contradiction.
    + intro Hn. contradiction.
  - constructor; psimp; try assumption.
    + exists (wr ++ [x]). split.
      * right. psimp. split; [discriminate|split; [exact Hpv|]]. rewrite Hpe, <- app_assoc. reflexivity.
      * intros f Hf. destruct (Iw f Hf) as [Hle Hd]. split; [exact Hle|].
        unfold upd. cbn [fname_eqb]. destruct (f =? walcur st) eqn:E.
        -- apply N.eqb_eq in E. subst f. left. split; [exact G4|]. rewrite Hcur, <- app_assoc. reflexivity.
        -- destruct Hd as [Hd|[Hs [Hc [Hd|[-> _]]]]].
           ++ left. exact Hd.
           ++ right. split; [exact Hs|split; [exact Hc|left; exact Hd]].
           ++ rewrite N.eqb_refl in E. discriminate.
    + intros cl [Hc|[_ Hc]]; apply Ip; [left; exact Hc|right; split; [rewrite Et; discriminate|exact Hc]].
    + intros _. apply It. rewrite Et. discriminate.
    + intros _. exact Hsl.
Qed.

Lemma inv_c_wal_trunc : forall c st f st', Inv_c st -> pstep c st (PE (Truncate0 (Wal f))) = Some st' -> Inv_c st'.
Proof.
  intros c st f st' I H. cbn [pstep] in H. apply ok_some in H. destruct H as [G ->].
  rewrite !Bool.andb_true_iff in G. destruct G as [G1 G2]. apply N.leb_le in G1.
  destruct I as [Io Ia Iu [wr [Hwr Iw]] Id Im Il Ic Ip It Is]. constructor; psimp; try assumption.
  exists wr. split; [exact Hwr|]. intros f' Hf. destruct (Iw f' Hf) as [Hle Hd]. split; [exact Hle|].
  unfold upd. cbn [fname_eqb]. destruct (f' =? f) eqn:E.
  - apply N.eqb_eq in E. subst f'. right. split; [reflexivity|split; [reflexivity|left; exact G1]].
  - exact Hd.
Qed.

Lemma inv_c_wal_unlink : forall c st f st', Inv_c st -> pstep c st (PE (Unlink (Wal f))) = Some st' -> Inv_c st'.
Proof.
  intros c st f st' I H. cbn [pstep] in H. apply ok_some in H. destruct H as [G ->].
  rewrite !Bool.andb_true_iff in G. destruct G as [G1 G2]. apply N.leb_le in G1.
  destruct I as [Io Ia Iu [wr [Hwr Iw]] Id Im Il Ic Ip It Is]. constructor; psimp; try assumption.
  - exists wr. split; [exact Hwr|]. intros f' Hf. apply removef_In in Hf. apply Iw. apply Hf.
  - intros f' Hlt Hle. apply removef_In. split; [apply Id; assumption|]. intro E. inversion E. lia.
  - destruct Im as [Im1 Im2]. split; [|exact Im2]. apply removef_In. split; [exact Im1|discriminate].
  - intros x Hx. destruct (Il x Hx) as [H1 H2]. split; [|exact H2]. apply removef_In. split; [exact H1|discriminate].
  - intros cl Hc. apply (deref_dir_grow _ _ _ _ (Ip cl Hc)); [|reflexivity].
    intros g Hg. apply removef_In. split; [exact Hg|discriminate].
Qed.

Lemma inv_c_vlog_create : forall c st f st', Inv_c st -> pstep c st (PE (Create (Vlog f))) = Some st' -> Inv_c st'.
Proof.
  intros c st f st' I H. cbn [pstep] in H. apply ok_some in H. destruct H as [G ->].
  rewrite !Bool.andb_true_iff in G. destruct G as [[G1 G2] G3]. apply Bool.negb_true_iff in G2.
  destruct I as [Io Ia Iu [wr [Hwr Iw]] Id Im Il Ic Ip It Is]. constructor; psimp; rewrite ?G2; psimp; try assumption.
  - exists wr. split; [exact Hwr|]. intros f' [E|Hf]; [discriminate|]. apply Iw. exact Hf.
  - intros f' Hlt Hle. right. apply Id; assumption.
  - destruct Im as [Im1 Im2]. split; [right; exact Im1|exact Im2].
  - intros x Hx. destruct (Il x Hx) as [H1 H2]. split; [right; exact H1|exact H2].
  - intros cl Hc. apply (deref_dir_grow _ _ _ _ (Ip cl Hc)).
    + intros g Hg. right. exact Hg.
    + intros g Hg. psimp. unfold upd. cbn [fname_eqb]. destruct (g =? f) eqn:E; [|reflexivity].
      apply N.eqb_eq in E. subst g. apply memf_false in G2. contradiction.
Qed.

Lemma inv_c_vlog_init : forall c st f st', Inv_c st -> pstep c st (PE (Init (Vlog f))) = Some st' -> Inv_c st'.
Proof.
  intros c st f st' I H. cbn [pstep] in H. apply ok_some in H. destruct H as [G ->].
  destruct I as [Io Ia Iu [wr [Hwr Iw]] Id Im Il Ic Ip It Is]. constructor; psimp; try assumption.
  exists wr. split; assumption.
Qed.

Lemma nth_error_snoc_some : forall A (l : list A) y i x, nth_error l i = Some x -> nth_error (l ++ [y]) i = Some x.
Proof.
  intros A l y i x H. rewrite nth_error_app1; [exact H|]. apply nth_error_Some. congruence.
Qed.

Lemma inv_c_vlog_append : forall c st f x st', Inv_c st -> pstep c st (PE (Append (Vlog f) x)) = Some st' -> Inv_c st'.
Proof.
  intros c st f x st' I H. cbn [pstep] in H. destruct x; try discriminate.
  apply ok_some in H. destruct H as [G ->].
  destruct I as [Io Ia Iu [wr [Hwr Iw]] Id Im Il Ic Ip It Is]. constructor; psimp; try assumption.
  - exists wr. split; assumption.
  - intros cl Hc. apply (deref_stable _ _ _ _ (Ip cl Hc)). intros p _ Hin. psimp. split; [exact Hin|].
    intros y Hy. unfold upd. cbn [fname_eqb]. destruct (vp_fid p =? f) eqn:E; [|exact Hy].
    apply N.eqb_eq in E. rewrite E in Hy. apply nth_error_snoc_some. exact Hy.
Qed.

(* ---- tables under construction / being removed are not in the MANIFEST ---- *)
Lemma not_live_frame : forall st id, tab_mem id (live st) = false ->
  forall x, In x (live st) -> fst x <> id.
Proof.
  intros st id H x Hx E. subst id. rewrite (tab_mem_fst x _ Hx) in H. discriminate.
Qed.

Lemma inv_c_sst_create : forall c st id st', Inv_c st -> pstep c st (PE (Create (Sst id))) = Some st' -> Inv_c st'.
Proof.
  intros c st id st' I H. cbn [pstep] in H. apply ok_some in H. destruct H as [G ->].
  rewrite !Bool.andb_true_iff in G. destruct G as [G1 G2]. apply Bool.negb_true_iff in G2.
  destruct I as [Io Ia Iu [wr [Hwr Iw]] Id Im Il Ic Ip It Is].
  assert (Hfr : forall x, In x (live st) -> fst x <> id).
  { intros x Hx E. subst id. destruct (Il x Hx) as [H1 _]. apply memf_false in G2. contradiction. }
  constructor; psimp; rewrite ?G2; psimp; try assumption.
  - exists wr. split; [exact Hwr|]. intros f' [E|Hf]; [discriminate|]. apply Iw. exact Hf.
  - intros f' Hlt Hle. right. apply Id; assumption.
  - destruct Im as [Im1 Im2]. split; [right; exact Im1|exact Im2].
  - intros x Hx. destruct (Il x Hx) as [H1 H2]. split; [right; exact H1|].
    unfold upd. cbn [fname_eqb]. pose proof (Hfr x Hx) as Hn. apply N.eqb_neq in Hn. rewrite Hn. exact H2.
  - rewrite (lsm_cells_ext (pfs st)); [exact Ic|]. intros x Hx. psimp. unfold upd. cbn [fname_eqb].
    pose proof (Hfr x Hx) as Hn. apply N.eqb_neq in Hn. rewrite Hn. reflexivity.
Qed.

Lemma inv_c_sst_init : forall c st id st', Inv_c st -> pstep c st (PE (Init (Sst id))) = Some st' -> Inv_c st'.
Proof.
  intros c st id st' I H. cbn [pstep] in H. apply ok_some in H. destruct H as [G ->].
  destruct I as [Io Ia Iu [wr [Hwr Iw]] Id Im Il Ic Ip It Is]. constructor; psimp; try assumption.
  - exists wr. split; assumption.
  - intros x Hx. destruct (Il x Hx) as [H1 H2]. split; [exact H1|]. unfold upd. cbn [fname_eqb].
    destruct (fst x =? id); [reflexivity|exact H2].
Qed.

Lemma inv_c_sst_append : forall c st id x st', Inv_c st -> pstep c st (PE (Append (Sst id) x)) = Some st' -> Inv_c st'.
Proof.
  intros c st id x st' I H. cbn [pstep] in H. destruct x; try discriminate.
  apply ok_some in H. destruct H as [G ->].
  rewrite !Bool.andb_true_iff in G. destruct G as [[[[G1 G2] G3] G4] G5]. apply Bool.negb_true_iff in G4.
  pose proof (not_live_frame st id G4) as Hfr.
  destruct I as [Io Ia Iu [wr [Hwr Iw]] Id Im Il Ic Ip It Is]. constructor; psimp; try assumption.
  - exists wr. split; assumption.
  - rewrite (lsm_cells_ext (pfs st)); [exact Ic|]. intros y Hy. psimp. unfold upd. cbn [fname_eqb].
    pose proof (Hfr y Hy) as Hn. apply N.eqb_neq in Hn. rewrite Hn. reflexivity.
Qed.

Lemma inv_c_sst_trunc : forall c st id st', Inv_c st -> pstep c st (PE (Truncate0 (Sst id))) = Some st' -> Inv_c st'.
Proof.
  intros c st id st' I H. cbn [pstep] in H. apply ok_some in H. destruct H as [G ->].
  rewrite !Bool.andb_true_iff in G. destruct G as [[G1 G2] G3]. apply Bool.negb_true_iff in G2.
  pose proof (not_live_frame st id G2) as Hfr.
  destruct I as [Io Ia Iu [wr [Hwr Iw]] Id Im Il Ic Ip It Is]. constructor; psimp; try assumption.
  - exists wr. split; assumption.
  - intros x Hx. destruct (Il x Hx) as [H1 H2]. split; [exact H1|]. unfold upd. cbn [fname_eqb].
    pose proof (Hfr x Hx) as Hn. apply N.eqb_neq in Hn. rewrite Hn. exact H2.
  - rewrite (lsm_cells_ext (pfs st)); [exact Ic|]. intros y Hy. psimp. unfold upd. cbn [fname_eqb].
    pose proof (Hfr y Hy) as Hn. apply N.eqb_neq in Hn. rewrite Hn. reflexivity.
Qed.

Lemma inv_c_sst_unlink : forall c st id st', Inv_c st -> pstep c st (PE (Unlink (Sst id))) = Some st' -> Inv_c st'.
Proof.
  intros c st id st' I H. cbn [pstep] in H. apply ok_some in H. destruct H as [G ->].
  rewrite !Bool.andb_true_iff in G. destruct G as [[G1 G2] G3]. apply Bool.negb_true_iff in G2.
  pose proof (not_live_frame st id G2) as Hfr.
  destruct I as [Io Ia Iu [wr [Hwr Iw]] Id Im Il Ic Ip It Is]. constructor; psimp; try assumption.
  - exists wr. split; [exact Hwr|]. intros f' Hf. apply removef_In in Hf. apply Iw. apply Hf.
  - intros f' Hlt Hle. apply removef_In. split; [apply Id; assumption|discriminate].
  - destruct Im as [Im1 Im2]. split; [|exact Im2]. apply removef_In. split; [exact Im1|discriminate].
  - intros x Hx. destruct (Il x Hx) as [H1 H2]. split; [|exact H2]. apply removef_In. split; [exact H1|].
    intro E. inversion E. apply (Hfr x Hx). assumption.
  - intros cl Hc. apply (deref_dir_grow _ _ _ _ (Ip cl Hc)); [|reflexivity].
    intros g Hg. apply removef_In. split; [exact Hg|discriminate].
Qed.

Lemma flat_map_map_snd : forall (l : ulist),
  flat_map (fun u => unit_items (snd u)) l = flat_map unit_items (map snd l).
Proof. induction l as [|u l IH]; [reflexivity|]. cbn [flat_map map]. rewrite IH. reflexivity. Qed.
Lemma concat_map_snd : forall (l : ulist), concat (map snd l) = cells_of l.
Proof. intro l. unfold cells_of. rewrite flat_map_concat_map. reflexivity. Qed.

Lemma wal_cells_recs : forall f us wr p td,
  (forall u, In u us -> valid_unit (snd u)) ->
  (wr = [] \/ (valid_unit p /\ unit_items p = wr ++ td /\ td <> [])) ->
  wal_cells (recs_of f us ++ wr) = cells_of (units_of f us).
Proof.
  intros f us wr p td Hv Hw. unfold recs_of. rewrite flat_map_map_snd.
  rewrite (wal_cells_units _ wr p td); [apply concat_map_snd| |exact Hw].
  apply Forall_forall. intros x Hx. apply in_map_iff in Hx. destruct Hx as [u [<- Hu]].
  apply Hv. unfold units_of in Hu. apply filter_In in Hu. apply Hu.
Qed.

(* content of a WAL file as Open replays it, in terms of the completed requests *)
Lemma inv_c_wal_cells : forall st f, Inv_c st -> In (Wal f) (dir (pfs st)) ->
  (sized (pfs st) (Wal f) = true /\ wal_cells (cur (pfs st) (Wal f)) = cells_of (units_of f (units st)))
  \/ (sized (pfs st) (Wal f) = false /\ cur (pfs st) (Wal f) = [] /\
      (f <= nflushed_s st \/ units_of f (units st) = [])).
Proof.
  intros st f [Io Ia Iu [wr [Hwr Iw]] Id Im Il Ic Ip It Is] Hf. destruct (Iw f Hf) as [_ [[Hs Hc]|[Hs [Hc Hd]]]].
  - left. split; [exact Hs|]. rewrite Hc.
    assert (Hv : forall u, In u (units st) -> valid_unit (snd u)) by (intros u Hu; apply Iu; exact Hu).
    destruct Hwr as [[_ ->]|[Hn [Hp He]]].
    + destruct (f =? walcur st); apply (wal_cells_recs f _ [] [] []); auto.
    + destruct (f =? walcur st).
      * apply (wal_cells_recs f _ wr (pend st) (todo st)); [exact Hv|right; auto].
      * apply (wal_cells_recs f _ [] [] []); auto.
  - right. split; [exact Hs|split; [exact Hc|]]. destruct Hd as [Hd|[_ [Hr _]]]; [left; exact Hd|right].
    unfold recs_of in Hr. destruct (units_of f (units st)) as [|u l]; [reflexivity|].
    cbn [flat_map] in Hr. unfold unit_items in Hr. apply app_eq_nil in Hr. destruct Hr as [Hr _].
    apply app_eq_nil in Hr. destruct Hr as [_ Hr]. discriminate.
Qed.

Lemma flushed_succ_In : forall n us c,
  In c (cells_of (flushed_units (n + 1) us)) <->
  In c (cells_of (flushed_units n us)) \/ In c (cells_of (units_of (n + 1) us)).
Proof.
  intros n us c. rewrite !In_cells_of. unfold flushed_units, units_of. split.
  - intros [u [Hu Hc]]. apply filter_In in Hu. destruct Hu as [Hu Hl]. apply N.leb_le in Hl.
    destruct (N.eq_dec (fst u) (n + 1)) as [E|E].
    + right. exists u. split; [apply filter_In; split; [exact Hu|apply N.eqb_eq; exact E]|exact Hc].
    + left. exists u. split; [apply filter_In; split; [exact Hu|apply N.leb_le; lia]|exact Hc].
  - intros [[u [Hu Hc]]|[u [Hu Hc]]]; apply filter_In in Hu; destruct Hu as [Hu Hl]; exists u; (split; [|exact Hc]);
      apply filter_In; (split; [exact Hu|]); apply N.leb_le; [apply N.leb_le in Hl|apply N.eqb_eq in Hl]; lia.
Qed.

Lemma inv_c_manifest : forall c st x st', Inv_c st -> pstep c st (PE (Append Manifest x)) = Some st' -> Inv_c st'.
Proof.
  intros c st x st' I H. cbn [pstep] in H. destruct x as [| | |cs|]; try discriminate.
  destruct (apply_changes (live st) cs) as [live'|] eqn:Ea; [|discriminate].
  pose proof I as I0. destruct I as [Io Ia Iu [wr [Hwr Iw]] Id Im Il Ic Ip It Is].
  assert (Hman : replay_manifest [] (cur (pfs st) Manifest ++ [IM cs]) = Some live').
  { rewrite replay_manifest_app. destruct Im as [_ ->]. cbn [replay_manifest]. rewrite Ea. reflexivity. }
  destruct (is_nil (deletes cs)) eqn:En.
  - (* flush *)
    destruct cs as [|[id l|] [|]]; try discriminate; destruct l; try discriminate.
    apply ok_some in H. destruct H as [G ->].
    rewrite !Bool.andb_true_iff in G. destruct G as [[[[G1 G2] G3] G4] G5].
    cbn [creates flat_map forallb app] in G2. rewrite !Bool.andb_true_iff in G2. destruct G2 as [[[G2a G2b] G2c] _].
    apply memf_In in G2a. apply N.leb_le in G3.
    cbn [apply_changes] in Ea. destruct (tab_mem id (live st)) eqn:Etm; [discriminate|]. inversion Ea; subst live'; clear Ea.
    unfold same_cells in G4. apply Bool.andb_true_iff in G4. destruct G4 as [G4a G4b].
    apply cells_incl_incl in G4a, G4b.
    set (f := nflushed st + 1) in *.
    assert (Hfd : In (Wal f) (dir (pfs st))) by (apply Id; unfold f; lia).
    assert (Hwc : wal_cells (cur (pfs st) (Wal f)) = cells_of (units_of f (units st))).
    { destruct (inv_c_wal_cells st f I0 Hfd) as [[_ Hw]|[_ [Hc [Hd|Hd]]]]; [exact Hw|unfold f in Hd; lia|].
      rewrite Hc, Hd. reflexivity. }
    rewrite Hwc in G4a, G4b.
    constructor; psimp; try assumption.
    + unfold f. lia.
    + exists wr. split; assumption.
    + destruct Im as [Im1 _]. split; [exact Im1|]. unfold upd. cbn [fname_eqb]. exact Hman.
    + intros y Hy. apply in_app_or in Hy. destruct Hy as [Hy|[<-|[]]]; [apply Il; exact Hy|].
      cbn [fst]. split; [exact G2a|exact G2b].
    + destruct Ic as [Ica Icb]. unfold lsm_cells. rewrite flat_map_app. cbn [flat_map fst]. rewrite app_nil_r.
      fold (lsm_cells (pfs st) (live st)). split.
      * intros cl Hcl. apply flushed_succ_In. apply in_app_or in Hcl. destruct Hcl as [Hcl|Hcl].
        -- left. apply Ica. exact Hcl.
        -- right. apply G4a. exact Hcl.
      * intros cl Hcl. apply flushed_succ_In in Hcl. destruct Hcl as [Hcl|Hcl].
        -- destruct (Icb cl Hcl) as [Hin|[c' [Hin Hk]]].
           ++ left. apply in_or_app. left. exact Hin.
           ++ right. exists c'. split; [apply in_or_app; left; exact Hin|exact Hk].
        -- left. apply in_or_app. right. apply G4b. exact Hcl.
  - (* compaction *)
    apply ok_some in H. destruct H as [G ->].
    rewrite !Bool.andb_true_iff in G. destruct G as [[[[[G1 G2] G3] G4] G5] G6].
    rewrite forallb_forall in G2, G4, G5.
    unfold compact_okb in G6. apply Bool.andb_true_iff in G6. destruct G6 as [G6a G6b].
    apply cells_incl_incl in G6a. rewrite forallb_forall in G6b.
    constructor; psimp; try assumption.
    + exists wr. split; assumption.
    + destruct Im as [Im1 _]. split; [exact Im1|]. unfold upd. cbn [fname_eqb]. exact Hman.
    + intros y Hy. destruct (apply_changes_from _ _ _ Ea y Hy) as [Hy'|Hy']; [apply Il; exact Hy'|].
      specialize (G2 _ Hy'). rewrite !Bool.andb_true_iff in G2. destruct G2 as [[Ga Gb] _].
      split; [apply memf_In; exact Ga|exact Gb].
    + destruct Ic as [Ica Icb].
      assert (Hold : forall cl, In cl (sst_cells (pfs st) (deletes cs)) -> In cl (lsm_cells (pfs st) (live st))).
      { intros cl Hcl. apply sst_cells_In in Hcl. destruct Hcl as [id [Hid Hcl]].
        specialize (G4 _ Hid). apply tab_mem_In in G4. destruct G4 as [l Hl].
        apply lsm_cells_In. exists (id, l). split; [exact Hl|exact Hcl]. }
      assert (Hnew : forall cl, In cl (sst_cells (pfs st) (creates cs)) ->
                       In cl (lsm_cells (pfs st) live')).
      { intros cl Hcl. apply sst_cells_In in Hcl. destruct Hcl as [id [Hid Hcl]].
        destruct (apply_changes_new _ _ _ Ea id Hid) as [[l Hl]|Hdel].
        - apply lsm_cells_In. exists (id, l). split; [exact Hl|exact Hcl].
        - specialize (G4 _ Hdel). specialize (G5 _ Hid). rewrite G4 in G5. discriminate. }
      change (cells_refine (cells_of (flushed_units (nflushed st) (units st))) (lsm_cells (pfs st) live')).
      split.
      * intros cl Hcl. apply lsm_cells_In in Hcl. destruct Hcl as [y [Hy Hcl]].
        destruct (apply_changes_from _ _ _ Ea y Hy) as [Hy'|Hy'].
        -- apply Ica. apply lsm_cells_In. exists y. split; assumption.
        -- apply Ica. apply Hold. apply G6a. apply sst_cells_In. exists (fst y). split; assumption.
      * assert (Hmove : forall w, In w (lsm_cells (pfs st) (live st)) ->
                  In w (lsm_cells (pfs st) live') \/
                  exists w', In w' (lsm_cells (pfs st) live') /\ ce_key (fst w') = ce_key (fst w) /\ ce_ver (fst w) < ce_ver (fst w')).
        { intros w Hw. apply lsm_cells_In in Hw. destruct Hw as [y [Hy Hw]].
          destruct (apply_changes_keep _ _ _ Ea y Hy) as [Hy'|Hy'].
          - left. apply lsm_cells_In. exists y. split; assumption.
          - assert (Hwo : In w (sst_cells (pfs st) (deletes cs))) by (apply sst_cells_In; exists (fst y); split; assumption).
            specialize (G6b w Hwo). apply Bool.orb_true_iff in G6b. destruct G6b as [Hm|Hm].
            + left. apply Hnew. apply cell_mem_In. exact Hm.
            + right. apply existsb_exists in Hm. destruct Hm as [n [Hn Hm]]. apply Bool.andb_true_iff in Hm.
              destruct Hm as [Hk Hv]. exists n. split; [apply Hnew; exact Hn|].
              split; [apply N.eqb_eq; exact Hk|apply N.ltb_lt; exact Hv]. }
        intros cl Hcl. destruct (Icb cl Hcl) as [Hin|[c' [Hin [Hk Hv]]]].
        -- apply Hmove. exact Hin.
        -- right. destruct (Hmove c' Hin) as [Hin'|[w' [Hin' [Hk' Hv']]]].
           ++ exists c'. split; [exact Hin'|split; [exact Hk|exact Hv]].
           ++ exists w'. split; [exact Hin'|split; [congruence|lia]].
Qed.

Theorem inv_c_step : forall c st pe st', Inv_c st -> pstep c st pe = Some st' -> Inv_c st'.
Proof.
  intros c st pe st' I H. destruct pe as [e|cells| |].
  - destruct e as [f|f|f x|f|f|f|a b|].
    + destruct f; [eapply inv_c_wal_create|eapply inv_c_vlog_create|eapply inv_c_sst_create|discriminate]; eassumption.
    + destruct f; [eapply inv_c_wal_init|eapply inv_c_vlog_init|eapply inv_c_sst_init|discriminate]; eassumption.
    + destruct f; [eapply inv_c_wal_append|eapply inv_c_vlog_append|eapply inv_c_sst_append|eapply inv_c_manifest]; eassumption.
    + eapply inv_c_syncfile; eassumption.
    + destruct f; [eapply inv_c_wal_trunc|discriminate|eapply inv_c_sst_trunc|discriminate]; eassumption.
    + destruct f; [eapply inv_c_wal_unlink|discriminate|eapply inv_c_sst_unlink|discriminate]; eassumption.
    + discriminate.
    + eapply inv_c_syncdir; eassumption.
  - eapply inv_c_begin; eassumption.
  - eapply inv_c_ack; eassumption.
  - eapply inv_c_seal; eassumption.
Qed.

Lemma inv_c_init : forall c, Inv_c (init c).
Proof.
  intro c. constructor; cbn [init pfs units pend todo acked walcur vlogcur nflushed nflushed_s live live_s sealed init_fs dir cur sized].
  - lia.
  - cbn. lia.
  - intros u [].
  - exists []. split; [left; split; reflexivity|]. intros f Hf.
    destruct Hf as [E|[E|[E|[]]]]; try discriminate. inversion E; subst f. split; [lia|]. left. split; reflexivity.
  - intros f H1 H2. assert (f = 1) by lia. subst. right. left. reflexivity.
  - split; [left; reflexivity|reflexivity].
  - intros x [].
  - split; [intros x []|intros x []].
  - intros cl [[]|[Hn _]]. contradiction.
  - intros _ u [].
  - intro Hn. contradiction.
Qed.

Theorem inv_c_run : forall c tr st st', Inv_c st -> run c st tr = Some st' -> Inv_c st'.
Proof.
  intros c tr. induction tr as [|e tr IH]; intros st st' I H; cbn [run] in H.
  - inversion H; subst. exact I.
  - destruct (pstep c st e) as [st1|] eqn:E; [|discriminate]. apply (IH st1 st'); [eapply inv_c_step; eassumption|exact H].
Qed.

(* every prefix of an accepted trace is accepted *)
Lemma run_prefix : forall c tr st st' n, run c st tr = Some st' -> exists st1, run c st (firstn n tr) = Some st1.
Proof.
  intros c tr. induction tr as [|e tr IH]; intros st st' n H.
  - rewrite firstn_nil. exists st. reflexivity.
  - destruct n as [|n]; [exists st; reflexivity|]. cbn [firstn run] in *.
    destruct (pstep c st e) as [st1|]; [|discriminate]. apply (IH st1 st' n H).
Qed.

(* ---- from the invariant to the recovered content ---- *)
Definition zero_ok (c : cfg) (s : fs) : Prop := fix_zerolog c = true \/ no_zero_logs s.

Lemma readable_In : forall s cs e, In e (readable s cs) <-> exists c, In c cs /\ deref s c = Some e.
Proof.
  intros s cs e. unfold readable. rewrite in_flat_map. split.
  - intros [c [Hc H]]. exists c. split; [exact Hc|]. destruct (deref s c) as [e'|]; [|contradiction].
    destruct H as [<-|[]]. reflexivity.
  - intros [c [Hc H]]. exists c. split; [exact Hc|]. rewrite H. left. reflexivity.
Qed.

Lemma mem_cells_In : forall s c, In c (mem_cells s) <-> exists n, In (Wal n) (dir s) /\ In c (wal_cells (cur s (Wal n))).
Proof.
  intros s c. unfold mem_cells. rewrite in_flat_map. split; intros [n [H1 H2]]; exists n; (split; [|exact H2]); apply wal_names_In; exact H1.
Qed.

Lemma logs_ok_true : forall c s, zero_ok c s -> logs_ok c s = true.
Proof.
  intros c s [H|H]; unfold logs_ok; apply forallb_forall; intros f Hf.
  - rewrite H. apply Bool.orb_true_r.
  - destruct (is_log f) eqn:E; [|reflexivity]. rewrite (H f Hf E). reflexivity.
Qed.

Lemma done_commits_concat : forall st, concat (done_commits st) = map fst (cells_of (units st)).
Proof.
  intro st. unfold done_commits, cells_of. induction (units st) as [|u l IH]; [reflexivity|].
  cbn [map concat flat_map]. rewrite IH, map_app. reflexivity.
Qed.

Lemma units_of_In : forall f us u, In u (units_of f us) <-> In u us /\ fst u = f.
Proof. intros. unfold units_of. rewrite filter_In, N.eqb_eq. reflexivity. Qed.

Theorem crash_recovers : forall c st, Inv_c st -> zero_ok c (pfs st) ->
  exists R, crash_result c st = Some R /\ refines (map fst (cells_of (units st))) R.
Proof.
  intros c st I Hz. pose proof I as I0. destruct I as [Io Ia Iu Iw Id [Im1 Im2] Il Ic Ip It Is].
  unfold crash_result, crash, recover. apply memf_In in Im1. rewrite Im1, Im2.
  rewrite (logs_ok_true c _ Hz).
  assert (Ht : tables_ok (pfs st) (live st) = true).
  { unfold tables_ok. apply forallb_forall. intros x Hx. destruct (Il x Hx) as [H1 H2].
    apply memf_In in H1. rewrite H1, H2. reflexivity. }
  rewrite Ht. cbn [andb]. eexists. split; [reflexivity|].
  assert (Hsub : forall cl, In cl (lsm_cells (pfs st) (live st) ++ mem_cells (pfs st)) -> In cl (cells_of (units st))).
  { intros cl Hcl. apply in_app_or in Hcl. destruct Hcl as [Hcl|Hcl].
    - destruct Ic as [Ica _]. apply Ica in Hcl. apply In_cells_of in Hcl. destruct Hcl as [u [Hu Hc]].
      apply In_cells_of. exists u. split; [|exact Hc]. unfold flushed_units in Hu. apply filter_In in Hu. apply Hu.
    - apply mem_cells_In in Hcl. destruct Hcl as [n [Hn Hcl]].
      destruct (inv_c_wal_cells st n I0 Hn) as [[_ Hw]|[_ [Hc _]]].
      + rewrite Hw in Hcl. apply In_cells_of in Hcl. destruct Hcl as [u [Hu Hc]].
        apply In_cells_of. exists u. split; [|exact Hc]. apply units_of_In in Hu. apply Hu.
      + rewrite Hc in Hcl. contradiction. }
  split.
  - intros e He. apply readable_In in He. destruct He as [cl [Hcl Hd]].
    pose proof (Hsub cl Hcl) as Hu. rewrite (Ip cl (or_introl Hu)) in Hd. inversion Hd; subst e.
    apply in_map. exact Hu.
  - intros e He. apply in_map_iff in He. destruct He as [cl [<- Hcl]].
    pose proof Hcl as Hcl0. apply In_cells_of in Hcl. destruct Hcl as [u [Hu Hc]].
    destruct (N.le_gt_cases (fst u) (nflushed st)) as [Hle|Hgt].
    + assert (Hf : In cl (cells_of (flushed_units (nflushed st) (units st)))).
      { apply In_cells_of. exists u. split; [|exact Hc]. unfold flushed_units. apply filter_In. split; [exact Hu|apply N.leb_le; exact Hle]. }
      destruct Ic as [Ica Icb]. destruct (Icb cl Hf) as [Hin|[c' [Hin [Hk Hv]]]].
      * left. apply readable_In. exists cl. split; [apply in_or_app; left; exact Hin|apply Ip; left; exact Hcl0].
      * right. exists (fst c'). split; [|split; assumption]. apply readable_In. exists c'.
        split; [apply in_or_app; left; exact Hin|]. apply Ip. left. apply Hsub. apply in_or_app. left. exact Hin.
    + left. apply readable_In. exists cl. split; [|apply Ip; left; exact Hcl0]. apply in_or_app. right.
      destruct (Iu u Hu) as [_ Hw]. assert (Hd : In (Wal (fst u)) (dir (pfs st))) by (apply Id; lia).
      apply mem_cells_In. exists (fst u). split; [exact Hd|].
      assert (Huo : In u (units_of (fst u) (units st))) by (apply units_of_In; split; [exact Hu|reflexivity]).
      destruct (inv_c_wal_cells st (fst u) I0 Hd) as [[_ Hwc]|[_ [_ [Hx|Hx]]]].
      * rewrite Hwc. apply In_cells_of. exists u. split; assumption.
      * lia.
      * rewrite Hx in Huo. contradiction.
Qed.

(* the commit in progress shares no entry with a completed one (distinct commit timestamps) *)
Lemma inprogress_fresh : forall st e, Inv_c st -> todo st <> [] ->
  In e (map fst (pend st)) -> ~ In e (map fst (cells_of (units st))).
Proof.
  intros st e I Hn He Hin. destruct I as [Io Ia Iu [wr [Hwr Iw]] Id Im Il Ic Ip It Is].
  destruct Hwr as [[Ht _]|[_ [[_ [_ Hpv]] _]]]; [contradiction|].
  apply in_map_iff in He. destruct He as [cp [<- Hcp]].
  apply in_map_iff in Hin. destruct Hin as [cu [Heq Hcu]]. apply In_cells_of in Hcu. destruct Hcu as [u [Hu Hcu]].
  destruct (Iu u Hu) as [[_ [_ Huv]] _]. pose proof (It Hn u Hu) as Hlt.
  rewrite <- (Hpv cp Hcp), <- (Huv cu Hcu), Heq in Hlt. lia.
Qed.

(* C08 in terms of the issued commits: the recovered content is the complete commits, which
   are a commit-order prefix containing every acknowledged commit *)
Theorem crash_prefix_ok : forall c st, Inv_c st -> zero_ok c (pfs st) ->
  exists R, crash_result c st = Some R /\ prefix_ok st R /\ no_partial st R.
Proof.
  intros c st I Hz. destruct (crash_recovers c st I Hz) as [R [HR Href]]. exists R. split; [exact HR|].
  assert (Hfirst : firstn (length (done_commits st)) (issued st) = done_commits st).
  { unfold issued. rewrite firstn_app, Nat.sub_diag, firstn_all. cbn [firstn]. apply app_nil_r. }
  assert (Hlen : length (done_commits st) = length (units st)) by (unfold done_commits; apply map_length).
  split.
  - exists (length (done_commits st)). split; [rewrite Hlen; apply (ic_acked st I)|]. split.
    + unfold issued. rewrite app_length. lia.
    + rewrite Hfirst, done_commits_concat. exact Href.
  - intros cm Hcm [e0 [He0 HR0]] e He. destruct Href as [Ha Hb]. apply Hb.
    rewrite <- done_commits_concat. apply in_concat. exists cm. split; [|exact He].
    unfold issued in Hcm. apply in_app_or in Hcm. destruct Hcm as [Hcm|Hcm]; [exact Hcm|].
    destruct (is_nil (todo st)) eqn:En; [contradiction|]. destruct Hcm as [<-|[]].
    apply is_nil_false in En. exfalso. apply (inprogress_fresh st e0 I En He0). apply Ha. exact HR0.
Qed.

(* ---- the theorems over traces ---- *)
Theorem C08_crash_prefix_fixed : forall c tr st, fix_zerolog c = true ->
  run c (init c) tr = Some st ->
  exists R, crash_result c st = Some R /\ prefix_ok st R /\ no_partial st R.
Proof.
  intros c tr st Hf H. apply crash_prefix_ok; [exact (inv_c_run c tr _ _ (inv_c_init c) H)|left; exact Hf].
Qed.

Theorem C08_crash_prefix_nozero : forall c tr st, run c (init c) tr = Some st -> no_zero_logs (pfs st) ->
  exists R, crash_result c st = Some R /\ prefix_ok st R /\ no_partial st R.
Proof.
  intros c tr st H Hz. apply crash_prefix_ok; [exact (inv_c_run c tr _ _ (inv_c_init c) H)|right; exact Hz].
Qed.

(* explicit crash point: cut the trace after any number of events *)
Theorem C08_every_cut : forall c tr st n, fix_zerolog c = true -> run c (init c) tr = Some st ->
  exists st1 R, run c (init c) (firstn n tr) = Some st1 /\
                crash_result c st1 = Some R /\ prefix_ok st1 R /\ no_partial st1 R.
Proof.
  intros c tr st n Hf H. destruct (run_prefix c tr _ _ n H) as [st1 H1]. exists st1.
  destruct (C08_crash_prefix_fixed c _ st1 Hf H1) as [R HR]. exists R. split; [exact H1|exact HR].
Qed.

(* the visible state (newest version per key) after recovery = that of the recovered prefix *)
Theorem C08_visible_state : forall c tr st, fix_zerolog c = true -> run c (init c) tr = Some st ->
  exists R n, crash_result c st = Some R /\ (acked st <= n)%nat /\ (n <= length (issued st))%nat /\
    forall e, visible (concat (firstn n (issued st))) e <-> visible R e.
Proof.
  intros c tr st Hf H. destruct (C08_crash_prefix_fixed c tr st Hf H) as [R [HR [[n [H1 [H2 H3]]] _]]].
  exists R, n. split; [exact HR|split; [exact H1|split; [exact H2|]]]. apply refines_visible. exact H3.
Qed.

(* pinned tree: refuted by a zero-size log window *)
Theorem C08_crash_refuted_create :
  exists tr st, run (cfg_pinned false) (init (cfg_pinned false)) tr = Some st /\
                crash_result (cfg_pinned false) st = None.
Proof. exists tr_zero_wal_create. eexists. split; vm_compute; reflexivity. Qed.
Theorem C08_crash_refuted_delete :
  exists tr st, run (cfg_pinned true) (init (cfg_pinned true)) tr = Some st /\
                crash_result (cfg_pinned true) st = None.
Proof. exists tr_zero_wal_delete. eexists. split; vm_compute; reflexivity. Qed.
