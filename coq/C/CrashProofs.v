(* CrashProofs.v — the crash invariant of the persistence protocol and the C08 theorems.
   Inv_c speaks only about what a killed process leaves behind (names, page-cache content,
   sizes); the power-loss part (synced images, durable names) is in PowerLossProofs.v. *)
From Coq Require Import Lia Arith PeanoNat.
From Coq Require Import ZifyN ZifyNat ZifyBool.
From Verif Require Import FS Recover Persist Crash FSProofs RecoverProofs.
Open Scope N_scope.

(* ---- bookkeeping over the completed requests ---- *)
Definition ulist := list (N * list cell).
Definition units_of (f : N) (us : ulist) : ulist := filter (fun u => fst u =? f) us.
Definition recs_of (f : N) (us : ulist) : list item := flat_map (fun u => unit_items (snd u)) (units_of f us).
Definition cells_of (us : ulist) : list cell := flat_map snd us.
Definition flushed_units (n : N) (us : ulist) : ulist := filter (fun u => fst u <=? n) us.

Definition cells_refine (F T : list cell) : Prop :=
  incl T F /\
  forall c, In c F -> In c T \/
    exists c', In c' T /\ ce_key (fst c') = ce_key (fst c) /\ ce_ver (fst c) < ce_ver (fst c').

(* records of the request in progress that are already stored *)
Definition wr_ok (st : pstate) (wr : list item) : Prop :=
  (todo st = [] /\ wr = []) \/
  (todo st <> [] /\ valid_unit (pend st) /\ unit_items (pend st) = wr ++ todo st).

Record Inv_c (st : pstate) : Prop := mkInvC {
  ic_order : nflushed_s st <= nflushed st /\ nflushed st < walcur st;
  ic_acked : (acked st <= length (units st))%nat;
  ic_units : forall u, In u (units st) -> valid_unit (snd u) /\ fst u <= walcur st;
  ic_wal : exists wr, wr_ok st wr /\
     forall f, In (Wal f) (dir (pfs st)) -> f <= walcur st /\
       ((sized (pfs st) (Wal f) = true /\
         cur (pfs st) (Wal f) = recs_of f (units st) ++ (if f =? walcur st then wr else []))
        \/ (sized (pfs st) (Wal f) = false /\ cur (pfs st) (Wal f) = [] /\
            (f <= nflushed_s st \/ (f = walcur st /\ recs_of f (units st) = [] /\ todo st = []))));
  ic_wal_dir : forall f, nflushed_s st < f -> f <= walcur st -> In (Wal f) (dir (pfs st));
  ic_man : In Manifest (dir (pfs st)) /\ replay_manifest [] (cur (pfs st) Manifest) = Some (live st);
  ic_live : forall x, In x (live st) ->
     In (Sst (fst x)) (dir (pfs st)) /\ sized (pfs st) (Sst (fst x)) = true;
  ic_cover : cells_refine (cells_of (flushed_units (nflushed st) (units st))) (lsm_cells (pfs st) (live st));
  ic_ptr : forall c, In c (cells_of (units st)) \/ (todo st <> [] /\ In c (pend st)) ->
     deref (pfs st) c = Some (fst c)
}.

(* ---- small tools ---- *)
Lemma ok_some : forall (b : bool) (r st' : pstate), (if b then Some r else None) = Some st' -> b = true /\ st' = r.
Proof. intros [|] r st' H; [inversion H; auto|discriminate]. Qed.

Ltac bsplit H :=
  repeat match type of H with
         | (_ && _) = true => let H' := fresh H in apply andb_prop in H; destruct H as [H H']
         end.

Lemma imp_true : forall a b, imp a b = true -> a = true -> b = true.
Proof. intros [|] b H Ha; [exact H|discriminate]. Qed.

Lemma is_nil_true : forall A (l : list A), is_nil l = true <-> l = [].
Proof. intros A [|x l]; cbn; split; intro H; try reflexivity; try discriminate. Qed.
Lemma is_nil_false : forall A (l : list A), is_nil l = false <-> l <> [].
Proof. intros A [|x l]; cbn; split; intro H; try reflexivity; try discriminate; try congruence. Qed.

Lemma replay_manifest_app : forall a b t,
  replay_manifest t (a ++ b) =
  match replay_manifest t a with Some t' => replay_manifest t' b | None => None end.
Proof.
  induction a as [|x a IH]; intros b t; cbn [app replay_manifest]; [reflexivity|].
  destruct x; try reflexivity. destruct (apply_changes t cs); [apply IH|reflexivity].
Qed.

Lemma tab_mem_In : forall id t, tab_mem id t = true <-> exists l, In (id, l) t.
Proof.
  intros id t. unfold tab_mem. rewrite existsb_exists. split.
  - intros [[i l] [H E]]. cbn [fst] in E. apply N.eqb_eq in E. subst. exists l. exact H.
  - intros [l H]. exists (id, l). split; [exact H|apply N.eqb_refl].
Qed.
Lemma tab_mem_fst : forall x t, In x t -> tab_mem (fst x) t = true.
Proof. intros [i l] t H. apply tab_mem_In. exists l. exact H. Qed.
Lemma tab_del_In : forall x id t, In x (tab_del id t) <-> In x t /\ fst x <> id.
Proof.
  intros x id t. unfold tab_del. rewrite filter_In, Bool.negb_true_iff, N.eqb_neq. reflexivity.
Qed.

(* membership facts about applyChangeSet, for any order of the changes *)
Lemma apply_changes_from : forall cs t t', apply_changes t cs = Some t' ->
  forall x, In x t' -> In x t \/ In (fst x) (creates cs).
Proof.
  induction cs as [|[id l|id] cs IH]; intros t t' H x Hx; cbn [apply_changes creates flat_map] in *.
  - inversion H; subst. left. exact Hx.
  - destruct (tab_mem id t); [discriminate|]. destruct (IH _ _ H x Hx) as [H1|H1].
    + apply in_app_or in H1. destruct H1 as [H1|[<-|[]]]; [left; exact H1|right; left; reflexivity].
    + right. right. exact H1.
  - destruct (tab_mem id t); [|discriminate]. destruct (IH _ _ H x Hx) as [H1|H1].
    + left. apply tab_del_In in H1. apply H1.
    + right. exact H1.
Qed.
Lemma apply_changes_keep : forall cs t t', apply_changes t cs = Some t' ->
  forall x, In x t -> In x t' \/ In (fst x) (deletes cs).
Proof.
  induction cs as [|[id l|id] cs IH]; intros t t' H x Hx; cbn [apply_changes deletes flat_map] in *.
  - inversion H; subst. left. exact Hx.
  - destruct (tab_mem id t); [discriminate|]. apply (IH _ _ H x). apply in_or_app. left. exact Hx.
  - destruct (tab_mem id t); [|discriminate]. destruct (N.eq_dec (fst x) id) as [E|E].
    + right. left. symmetry. exact E.
    + destruct (IH _ _ H x) as [H1|H1]; [apply tab_del_In; split; assumption|left; exact H1|right; right; exact H1].
Qed.
Lemma apply_changes_new : forall cs t t', apply_changes t cs = Some t' ->
  forall id, In id (creates cs) -> (exists l, In (id, l) t') \/ In id (deletes cs).
Proof.
  induction cs as [|[i l|i] cs IH]; intros t t' H id Hid; cbn [apply_changes creates deletes flat_map] in *.
  - contradiction.
  - destruct (tab_mem i t); [discriminate|]. destruct Hid as [<-|Hid].
    + destruct (apply_changes_keep _ _ _ H (i, l)) as [H1|H1]; [apply in_or_app; right; left; reflexivity| |].
      * left. exists l. exact H1.
      * right. exact H1.
    + apply (IH _ _ H id Hid).
  - destruct (tab_mem i t); [|discriminate]. destruct (IH _ _ H id Hid) as [H1|H1]; [left; exact H1|right; right; exact H1].
Qed.

Lemma units_of_app : forall f a b, units_of f (a ++ b) = units_of f a ++ units_of f b.
Proof. intros. unfold units_of. apply filter_app. Qed.
Lemma recs_of_app : forall f a b, recs_of f (a ++ b) = recs_of f a ++ recs_of f b.
Proof. intros. unfold recs_of. rewrite units_of_app, flat_map_app. reflexivity. Qed.
Lemma cells_of_app : forall a b, cells_of (a ++ b) = cells_of a ++ cells_of b.
Proof. intros. unfold cells_of. apply flat_map_app. Qed.
Lemma flushed_units_app : forall n a b, flushed_units n (a ++ b) = flushed_units n a ++ flushed_units n b.
Proof. intros. unfold flushed_units. apply filter_app. Qed.

Lemma In_cells_of : forall c us, In c (cells_of us) <-> exists u, In u us /\ In c (snd u).
Proof. intros. unfold cells_of. apply in_flat_map. Qed.

Lemma wal_names_In : forall n d, In n (wal_names d) <-> In (Wal n) d.
Proof.
  intros n d. unfold wal_names. rewrite in_flat_map. split.
  - intros [f [Hf H]]. destruct f; cbn in H; try contradiction. destruct H as [<-|[]]. exact Hf.
  - intro H. exists (Wal n). split; [exact H|left; reflexivity].
Qed.

Lemma lsm_cells_In : forall s t c, In c (lsm_cells s t) <-> exists x, In x t /\ In c (table_cells (cur s (Sst (fst x)))).
Proof. intros. unfold lsm_cells. apply in_flat_map. Qed.
Lemma sst_cells_In : forall s ids c, In c (sst_cells s ids) <-> exists id, In id ids /\ In c (table_cells (cur s (Sst id))).
Proof. intros. unfold sst_cells. apply in_flat_map. Qed.

Lemma lsm_cells_ext : forall s s' t, (forall x, In x t -> cur s' (Sst (fst x)) = cur s (Sst (fst x))) ->
  lsm_cells s' t = lsm_cells s t.
Proof.
  intros s s' t H. unfold lsm_cells. induction t as [|x t IH]; [reflexivity|].
  cbn [flat_map]. rewrite (H x (or_introl eq_refl)). rewrite IH; [reflexivity|].
  intros y Hy. apply H. right. exact Hy.
Qed.

(* deref depends only on the vlog file the pointer names *)
Lemma deref_stable : forall s s' c e, deref s c = Some e ->
  (forall p, snd c = Some p -> In (Vlog (vp_fid p)) (dir s) ->
     In (Vlog (vp_fid p)) (dir s') /\
     (forall x, nth_error (cur s (Vlog (vp_fid p))) (vp_idx p) = Some x ->
                nth_error (cur s' (Vlog (vp_fid p))) (vp_idx p) = Some x)) ->
  deref s' c = Some e.
Proof.
  intros s s' c e H Hs. unfold deref in *. destruct (snd c) as [p|]; [|exact H].
  destruct (memf (Vlog (vp_fid p)) (dir s)) eqn:Em; [|discriminate].
  apply memf_In in Em. destruct (Hs p eq_refl Em) as [Hd Hn].
  apply memf_In in Hd. rewrite Hd.
  destruct (nth_error (cur s (Vlog (vp_fid p))) (vp_idx p)) as [x|] eqn:En; [|discriminate].
  rewrite (Hn x eq_refl). exact H.
Qed.

Ltac psimp := cbn [pfs units pend todo acked walcur vlogcur nflushed nflushed_s live live_s usedtabs
                   set_fs apply_event dir dur cur img sized upd fname_eqb] in *.

Lemma ptr_ok_deref : forall c s cl, ptr_ok c s cl = true -> deref s cl = Some (fst cl).
Proof.
  intros c s cl H. unfold ptr_ok in H. unfold deref. destruct (snd cl) as [p|]; [|reflexivity].
  rewrite !Bool.andb_true_iff in H. destruct H as [[[H1 H2] _] _]. rewrite H1.
  unfold vrec_at in H2. destruct (nth_error (cur s (Vlog (vp_fid p))) (vp_idx p)) as [[| |e| |]|]; try discriminate.
  rewrite H2. apply centry_eqb_eq in H2. subst. reflexivity.
Qed.

Lemma inv_c_begin : forall c st cells st', Inv_c st -> pstep c st (PBegin cells) = Some st' -> Inv_c st'.
Proof.
  intros c st cells st' I H. cbn [pstep] in H. apply ok_some in H. destruct H as [G ->].
  rewrite !Bool.andb_true_iff in G. destruct G as [[[[[[[[G1 G2] G3] G4] G5] G6] G7] G8] G9].
  apply is_nil_true in G1. apply Bool.negb_true_iff in G2. apply is_nil_false in G2.
  apply Bool.negb_true_iff in G3. apply N.eqb_neq in G3.
  assert (Hv : valid_unit cells).
  { split; [exact G2|split; [exact G3|]]. intros x Hx. rewrite forallb_forall in G4. apply N.eqb_eq. apply G4. exact Hx. }
  assert (Hne : unit_items cells <> []). { unfold unit_items. intro E. apply app_eq_nil in E. destruct E; discriminate. }
  destruct I as [Io Ia Iu [wr [Hwr Iw]] Id Im Il Ic Ip]. constructor; psimp; try assumption.
  - exists []. split.
    + right. split; [exact Hne|split; [exact Hv|reflexivity]].
    + intros f Hf. destruct (Iw f Hf) as [Hle Hd]. split; [exact Hle|].
      destruct Hwr as [[_ ->]|[Hn _]]; [|contradiction].
      destruct Hd as [Hd|[Hs [Hc [Hd|[-> _]]]]].
      * left. exact Hd.
      * right. split; [exact Hs|split; [exact Hc|left; exact Hd]].
      * apply memf_In in G6. congruence.
  - intros cl [Hc|[_ Hc]]; [apply Ip; left; exact Hc|].
    rewrite forallb_forall in G5. apply (ptr_ok_deref c). apply G5. exact Hc.
Qed.

Lemma inv_c_ack : forall c st st', Inv_c st -> pstep c st PAck = Some st' -> Inv_c st'.
Proof.
  intros c st st' I H. cbn [pstep] in H. apply ok_some in H. destruct H as [G ->].
  destruct I as [Io Ia Iu Iw Id Im Il Ic Ip]. constructor; psimp; try assumption. lia.
Qed.

Lemma inv_c_syncdir : forall c st st', Inv_c st -> pstep c st (PE SyncDir) = Some st' -> Inv_c st'.
Proof.
  intros c st st' I H. cbn [pstep] in H. inversion H; subst; clear H.
  destruct I as [Io Ia Iu Iw Id Im Il Ic Ip]. constructor; psimp; assumption.
Qed.

Lemma inv_c_syncfile : forall c st f st', Inv_c st -> pstep c st (PE (SyncFile f)) = Some st' -> Inv_c st'.
Proof.
  intros c st f st' I H. cbn [pstep] in H. apply ok_some in H. destruct H as [G ->].
  destruct I as [Io Ia Iu [wr [Hwr Iw]] Id Im Il Ic Ip].
  destruct f; constructor; psimp; try assumption; try (exists wr; split; assumption).
  - lia.
  - exists wr. split; [exact Hwr|]. intros f Hf. destruct (Iw f Hf) as [Hle Hd]. split; [exact Hle|].
    destruct Hd as [Hd|[Hs [Hc [Hd|Hd]]]]; [left; exact Hd|right|right].
    + split; [exact Hs|split; [exact Hc|left; lia]].
    + split; [exact Hs|split; [exact Hc|right; exact Hd]].
  - intros f Hlt Hle. apply Id; lia.
Qed.
