(* FS.v — Layer C: an abstract file system for badger's on-disk files.

   Contents are abstracted to lists of records (byte-level framing, CRCs and torn records are
   Layer A: C09/C16/C17/C18):
     NNNNN.mem   (WAL)      list of records: entry records (bitTxn, version = commit ts; value
                            inline or value pointer) and end-of-transaction markers (bitFinTxn)
     NNNNNN.vlog            list of value records
     NNNNNN.sst             list of table entries
     MANIFEST               list of change sets
   Per file: the current content (page cache), the image at the last fsync/msync, and whether
   the file has a non-zero size.  Per directory: the current names and the names as of the
   last directory fsync.

   Events are the persistence steps of the code (y/y.go, z.OpenMmapFile, z.MmapFile.Delete,
   manifest.go addChanges, dir_unix.go syncDir).  An `Append` stores ONE record, so that a
   crash between two events of a trace also covers a crash inside a multi-record write (a torn
   unit is a prefix of its records). *)
From Coq Require Export List NArith Bool.
Export ListNotations.
Open Scope N_scope.

Inductive fname := Wal (f : N) | Vlog (f : N) | Sst (id : N) | Manifest.

Definition fname_eqb (a b : fname) : bool :=
  match a, b with
  | Wal x, Wal y | Vlog x, Vlog y | Sst x, Sst y => x =? y
  | Manifest, Manifest => true
  | _, _ => false
  end.

(* an entry as the crash properties see it: user key, version (= commit ts), value *)
Record centry := mkCE { ce_key : N; ce_ver : N; ce_val : N }.
Definition centry_eqb (a b : centry) : bool :=
  (ce_key a =? ce_key b) && (ce_ver a =? ce_ver b) && (ce_val a =? ce_val b).

(* value pointer: vlog file id + record index (abstracts offset/len) *)
Record vptr := mkVP { vp_fid : N; vp_idx : nat }.
Definition vptr_eqb (a b : vptr) : bool := (vp_fid a =? vp_fid b) && Nat.eqb (vp_idx a) (vp_idx b).

Inductive mchange := MCreate (id level : N) | MDelete (id : N).

(* an LSM cell: entry + where its value lives (None = inline) *)
Definition cell := (centry * option vptr)%type.
Definition optptr_eqb (a b : option vptr) : bool :=
  match a, b with None, None => true | Some x, Some y => vptr_eqb x y | _, _ => false end.
Definition cell_eqb (a b : cell) : bool := centry_eqb (fst a) (fst b) && optptr_eqb (snd a) (snd b).

Inductive item :=
| IWent (c : cell)             (* WAL entry record of a transaction *)
| IWfin (ts : N)               (* WAL end-of-transaction marker carrying the commit ts *)
| IV (e : centry)              (* value-log record *)
| IM (cs : list mchange)       (* MANIFEST change set *)
| IT (c : cell).               (* table entry *)

Record fs := mkFS {
  dir : list fname;                    (* names in the directory now *)
  dur : list fname;                    (* names as of the last directory fsync *)
  cur : fname -> list item;            (* current content (page cache) *)
  img : fname -> option (list item);   (* content at the file's last fsync/msync; None = never *)
  sized : fname -> bool                (* false: size 0 (created and not yet ftruncate'd, or truncated to 0) *)
}.

Inductive event :=
| Create (f : fname)             (* openat(O_CREAT[|O_EXCL]): a new name, size 0 *)
| Init (f : fname)               (* ftruncate to the pre-allocated size (+ log header bootstrap) *)
| Append (f : fname) (x : item)  (* one record stored (mmap store / write(2) on MANIFEST) *)
| SyncFile (f : fname)           (* msync / fsync *)
| Truncate0 (f : fname)          (* ftruncate(fd, 0): first half of z.MmapFile.Delete *)
| Unlink (f : fname)
| Rename (a b : fname)
| SyncDir.

Definition upd {A} (f : fname) (v : A) (g : fname -> A) : fname -> A :=
  fun x => if fname_eqb x f then v else g x.

Definition memf (f : fname) (l : list fname) : bool := existsb (fname_eqb f) l.
Definition removef (f : fname) (l : list fname) : list fname := filter (fun x => negb (fname_eqb x f)) l.

Definition apply_event (s : fs) (e : event) : fs :=
  match e with
  | Create f => mkFS (if memf f (dir s) then dir s else f :: dir s) (dur s)
                     (upd f [] (cur s)) (upd f None (img s)) (upd f false (sized s))
  | Init f => mkFS (dir s) (dur s) (cur s) (img s) (upd f true (sized s))
  | Append f x => mkFS (dir s) (dur s) (upd f (cur s f ++ [x]) (cur s)) (img s) (sized s)
  | SyncFile f => mkFS (dir s) (dur s) (cur s) (upd f (Some (cur s f)) (img s)) (sized s)
  | Truncate0 f => mkFS (dir s) (dur s) (upd f [] (cur s)) (img s) (upd f false (sized s))
  | Unlink f => mkFS (removef f (dir s)) (dur s) (cur s) (img s) (sized s)
  | Rename a b => mkFS (b :: removef a (removef b (dir s))) (dur s)
                       (upd b (cur s a) (cur s)) (upd b (img s a) (img s)) (upd b (sized s a) (sized s))
  | SyncDir => mkFS (dir s) (dir s) (cur s) (img s) (sized s)
  end.

Definition apply_events (s : fs) (es : list event) : fs := fold_left apply_event es s.

(* C08: the process is killed, the OS survives: everything stored so far is what Open sees *)
Definition crash (s : fs) : fs := s.

(* C10: power loss: names as of the last directory fsync; every file has the content of its
   last fsync/msync; a file that was never synced is empty (size 0); unsynced unlinks,
   truncations and appends are undone *)
Definition power_loss (s : fs) : fs :=
  mkFS (dur s) (dur s)
       (fun f => match img s f with Some c => c | None => [] end)
       (img s)
       (fun f => match img s f with Some _ => true | None => false end).
