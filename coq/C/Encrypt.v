(* Encrypt.v — encryption at rest: the on-disk layouts that involve the cipher, as coded.

   y/encrypt.go XORBlock / XORBlockAllocate / XORBlockStream are AES-CTR: the data XORed with
   a key stream determined by (key, iv).  The cipher is the Section variable `enc key iv data`;
   what the theorems need of it is stated as hypotheses in EncryptProofs.v (involution per
   (key, iv), length preserving, and — for the value-log read path, which decrypts the record
   together with its trailing CRC — compatibility with prefixes).  `enc_ks` below is the
   key-stream form, used by the correspondence with the key stream captured from Go.

   Layouts (file : function):
   * memtable.go logFile.encodeEntry / generateIV / decodeEntry, value.go safeRead.Entry /
     valueLog.Read: record = header ‖ enc(dk, baseIV ‖ be32 offset, key ‖ value) ‖ be32 crc;
     the header (lengths, meta, user meta, expiry) is NOT encrypted; the CRC covers header and
     ciphertext; offset = the record's own start offset in the file (lf.writeAt for the WAL,
     vlog.woffset() for the value log); log file header = be64 key id ‖ 12-byte base IV.
   * table/builder.go Builder.encrypt / Done / buildData.Copy, table/table.go Table.decrypt:
     each (compressed) block and the index are stored as enc(dk, iv, data) ‖ iv with a fresh
     16-byte IV; file = blocks ‖ index ‖ be32 len(index) ‖ checksum ‖ be32 len(checksum), the
     checksum being of the stored (encrypted) index.
   * key_registry.go WriteKeyRegistry / storeDataKey / validRegistry / keyRegistryIterator.next
     / LatestDataKey: file = iv ‖ enc(master, iv, "Hello Badger") ‖ { be32 len ‖ be32 crc ‖
     pb(DataKey{id, enc(master, dk.iv, dk.data), dk.iv, created}) }*. *)
From Verif Require Import Bytes Uvarint Codec.
Open Scope N_scope.

Record datakey := mkDK { dk_id : N; dk_data : bytes; dk_iv : bytes; dk_created : N }.

Definition sanity_text : bytes := [72; 101; 108; 108; 111; 32; 66; 97; 100; 103; 101; 114]. (* "Hello Badger" *)

Definition blen (b : bytes) : N := N.of_nat (length b).

(* ---- IV arithmetic (crypto/cipher NewCTR: the 16-byte IV is a big-endian counter, incremented
   by one per 16-byte block with carry through all 16 bytes) ---- *)
Definition iv_num (iv : bytes) : N := be_dec iv.
Definition nblocks (n : N) : N := (n + 15) / 16.
(* logFile.generateIV *)
Definition log_iv (base_iv : bytes) (off : N) : bytes := base_iv ++ be_enc 4 off.

Section Enc.
  Variable enc : bytes -> bytes -> bytes -> bytes.      (* key, iv, data *)
  Variable crc : bytes -> N.                            (* crc32.Checksum(data, Castagnoli) *)
  Variable cksum : bytes -> bytes.                      (* proto.Marshal(pb.Checksum{CRC32C, sum(data)}) *)
  Variable pb_dk : datakey -> bytes.                    (* proto.Marshal(pb.DataKey) *)
  Variable pb_dk_parse : bytes -> option datakey.       (* proto.Unmarshal *)

  (* ---------------- log records ---------------- *)
  Definition log_body (dk : option bytes) (base_iv : bytes) (off : N) (kv : bytes) : bytes :=
    match dk with
    | Some k => enc k (log_iv base_iv off) kv
    | None => kv
    end.

  Record lentry := mkLE { le_key : bytes; le_val : bytes; le_exp : N; le_meta : N; le_umeta : N }.
  Definition le_header (e : lentry) : header :=
    mkHeader (blen (le_key e)) (blen (le_val e)) (le_exp e) (le_meta e) (le_umeta e).

  (* logFile.encodeEntry *)
  Definition log_record (dk : option bytes) (base_iv : bytes) (off : N) (e : lentry) : bytes :=
    let pre := header_encode (le_header e) ++ log_body dk base_iv off (le_key e ++ le_val e) in
    pre ++ be_enc 4 (crc pre).

  (* safeRead.Entry (WAL replay, value-log iteration): exactly klen+vlen bytes are decrypted.
     None = the header decoder runs off the buffer *)
  Definition log_read_exact (dk : option bytes) (base_iv : bytes) (off : N) (buf : bytes)
    : option (header * bytes * bytes) :=
    match header_decode buf with
    | None => None
    | Some (h, hl) =>
        match slice_from buf hl with
        | None => None
        | Some rest =>
            let n := N.to_nat (h_klen h + h_vlen h) in
            let kv := log_body dk base_iv off (firstn n rest) in
            Some (h, firstn (N.to_nat (h_klen h)) kv, skipn (N.to_nat (h_klen h)) kv)
        end
    end.

  (* valueLog.Read / logFile.decodeEntry: everything after the header — including the 4 CRC
     bytes — goes through the cipher, then key and value are sliced out *)
  Definition log_read_tail (dk : option bytes) (base_iv : bytes) (off : N) (buf : bytes)
    : option (header * bytes * bytes) :=
    match header_decode buf with
    | None => None
    | Some (h, hl) =>
        match slice_from buf hl with
        | None => None
        | Some rest =>
            let kv := log_body dk base_iv off rest in
            Some (h, firstn (N.to_nat (h_klen h)) kv,
                  firstn (N.to_nat (h_vlen h)) (skipn (N.to_nat (h_klen h)) kv))
        end
    end.

  (* a log file: header, then records back to back; each record is encoded at its own offset
     (memTable.Put -> writeEntry: lf.writeAt += plen; valueLog.write: woffset advanced by the
     buffer length) *)
  Definition c_vlogHeaderSize : N := 20.
  Definition log_header (key_id : N) (base_iv : bytes) : bytes := be_enc 8 key_id ++ base_iv.
  Fixpoint log_records (dk : option bytes) (base_iv : bytes) (off : N) (es : list lentry) : bytes :=
    match es with
    | [] => []
    | e :: r => let rec := log_record dk base_iv off e in
                rec ++ log_records dk base_iv (off + blen rec) r
    end.
  Definition log_file (key_id : N) (dk : option bytes) (base_iv : bytes) (es : list lentry) : bytes :=
    log_header key_id base_iv ++ log_records dk base_iv c_vlogHeaderSize es.

  (* the cipher uses of a log file: (offset, number of plaintext bytes) per record *)
  Fixpoint log_uses (off : N) (es : list lentry) : list (N * N) :=
    match es with
    | [] => []
    | e :: r =>
        let reclen := blen (header_encode (le_header e)) + blen (le_key e) + blen (le_val e) + 4 in
        (off, blen (le_key e) + blen (le_val e)) :: log_uses (off + reclen) r
    end.

  (* ---------------- table blocks and index ---------------- *)
  (* Builder.encrypt: ciphertext followed by the IV *)
  Definition seal (dk : option bytes) (iv : bytes) (data : bytes) : bytes :=
    match dk with Some k => enc k iv data ++ iv | None => data end.
  (* Table.decrypt: the last 16 bytes are the IV *)
  Definition unseal (dk : option bytes) (stored : bytes) : bytes :=
    match dk with Some k => enc k (lastn 16 stored) (dropn_end 16 stored) | None => stored end.

  (* one IV per block, then one for the index, drawn in this order from the supply
     (crypto/rand through y.GenerateIV); n = number of draws so far *)
  Variable supply : N -> bytes.
  Fixpoint seal_blocks (dk : option bytes) (n : N) (blocks : list bytes) : list bytes :=
    match blocks with
    | [] => []
    | b :: r => seal dk (supply n) b :: seal_blocks dk (n + 1) r
    end.
  Definition table_file (dk : option bytes) (n : N) (blocks : list bytes) (index : bytes) : bytes :=
    let sidx := seal dk (supply (n + N.of_nat (length blocks))) index in
    concat (seal_blocks dk n blocks) ++ sidx ++ be_enc 4 (blen sidx)
    ++ cksum sidx ++ be_enc 4 (blen (cksum sidx)).
  Definition table_ivs (n : N) (blocks : list bytes) : list bytes :=
    map supply (map N.of_nat (seq (N.to_nat n) (S (length blocks)))).

  (* ---------------- key registry ---------------- *)
  Definition wrap (master : option bytes) (iv data : bytes) : bytes :=
    match master with Some k => enc k iv data | None => data end.

  (* storeDataKey *)
  Definition stored_dk (master : option bytes) (d : datakey) : bytes :=
    let pb := pb_dk (mkDK (dk_id d) (wrap master (dk_iv d) (dk_data d)) (dk_iv d) (dk_created d)) in
    be_enc 4 (blen pb) ++ be_enc 4 (crc pb) ++ pb.

  (* WriteKeyRegistry (the data keys in the order the map iteration delivers them) *)
  Definition registry_file (master : option bytes) (iv : bytes) (dks : list datakey) : bytes :=
    iv ++ wrap master iv sanity_text ++ concat (map (stored_dk master) dks).

  Inductive kr_result := KrOk (dks : list datakey) | KrKeyMismatch | KrBadChecksum | KrBadProto | KrShort.

  (* keyRegistryIterator.next, until the file is exhausted (a short tail ends the iteration
     silently: os.File.Read returns io.EOF / a short count) *)
  Fixpoint read_dks (master : option bytes) (fuel : nat) (buf : bytes) (acc : list datakey) : kr_result :=
    match fuel with
    | O => KrOk (rev acc)
    | S fuel' =>
        if (length buf <? 8)%nat then KrOk (rev acc)
        else
          let l := N.to_nat (be_dec (firstn 4 buf)) in
          let c := be_dec (firstn 4 (skipn 4 buf)) in
          let data := firstn l (skipn 8 buf) in
          if (length data <? l)%nat then KrOk (rev acc)
          else if negb (crc data =? c) then KrBadChecksum
          else match pb_dk_parse data with
               | None => KrBadProto
               | Some d =>
                   let d' := mkDK (dk_id d) (wrap master (dk_iv d) (dk_data d)) (dk_iv d) (dk_created d) in
                   read_dks master fuel' (skipn (8 + l) buf) (d' :: acc)
               end
    end.

  (* validRegistry + readKeyRegistry *)
  Definition read_registry (master : option bytes) (file : bytes) : kr_result :=
    if (length file <? 28)%nat then KrShort
    else
      let iv := firstn 16 file in
      let es := firstn 12 (skipn 16 file) in
      if bytes_eqb (wrap master iv es) sanity_text
      then read_dks master (length file) (skipn 28 file) []
      else KrKeyMismatch.

  (* persistence events of OpenKeyRegistry *)
  Inductive kr_event := KrCreateTmp | KrWriteTmp | KrRename | KrSyncDir | KrAppend.
  (* OpenKeyRegistry on a directory: existing file = read only; missing file = WriteKeyRegistry
     of an empty registry (iv drawn from the supply) *)
  Definition open_registry (master : option bytes) (n : N) (file : option bytes)
    : kr_result * list kr_event :=
    match file with
    | Some f => (read_registry master f, [])
    | None => (read_registry master (registry_file master (supply n) []),
               [KrCreateTmp; KrWriteTmp; KrRename; KrSyncDir])
    end.

  (* badger/cmd/rotate.go doRotate: read with the old key (read-only), rewrite with the new *)
  Definition rotate (old new : option bytes) (n : N) (file : bytes) : option bytes :=
    match read_registry old file with
    | KrOk dks => Some (registry_file new (supply n) dks)
    | _ => None
    end.

  (* KeyRegistry.DataKey(id) *)
  Fixpoint dk_lookup (dks : list datakey) (id : N) : option datakey :=
    match dks with
    | [] => None
    | d :: r => if dk_id d =? id then Some d else dk_lookup r id
    end.

  (* KeyRegistry.LatestDataKey: a new key when the newest one is older than the rotation
     period; new key material and IV come from the supply; the record is appended *)
  Record registry := mkReg { r_dks : list datakey (* oldest first *); r_next : N; r_last : N }.
  Definition latest_data_key (master : option bytes) (keygen : N -> bytes) (n : N) (now rot : N) (r : registry)
    : registry * option datakey * list kr_event * bytes :=
    match master with
    | None => (r, None, [], [])
    | Some _ =>
        if now - r_last r <? rot
        then (r, dk_lookup (r_dks r) (r_next r), [], [])
        else
          let d := mkDK (r_next r + 1) (keygen n) (supply n) now in
          (mkReg (r_dks r ++ [d]) (r_next r + 1) now, Some d, [KrAppend], stored_dk master d)
    end.
End Enc.

(* ---- the key-stream form of the cipher: data XOR the first len(data) bytes of the stream
   that (key, iv) determine ---- *)
Fixpoint xor_bytes (d ks : bytes) : bytes :=
  match d, ks with
  | x :: d', k :: ks' => N.lxor x k :: xor_bytes d' ks'
  | x :: d', [] => x :: xor_bytes d' []          (* stream exhausted: never in a case *)
  | [], _ => []
  end.
Definition enc_ks (stream : bytes -> bytes -> bytes) (key iv data : bytes) : bytes :=
  xor_bytes data (stream key iv).

(* protobuf wire format of pb.DataKey as golang/protobuf marshals it (fields in number order,
   zero values omitted) — used by the correspondence only *)
Definition pb_varint_field (tag x : N) : bytes := if x =? 0 then [] else tag :: put_uvarint x.
Definition pb_bytes_field (tag : N) (b : bytes) : bytes :=
  match b with [] => [] | _ => tag :: put_uvarint (blen b) ++ b end.
Definition pb_datakey (d : datakey) : bytes :=
  pb_varint_field 8 (dk_id d) ++ pb_bytes_field 18 (dk_data d) ++ pb_bytes_field 26 (dk_iv d)
  ++ pb_varint_field 32 (dk_created d).
