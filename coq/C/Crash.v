(* Crash.v — Layer C: crash / power-loss outcomes of protocol traces, boolean checkers for
   the prefix relation (used by the correspondence and by the refutation witnesses), and the
   witness traces of the recorded findings. *)
From Verif Require Import FS Recover Persist.
Open Scope N_scope.

(* what Open yields after the process is killed in state st / after a power loss in state st *)
Definition crash_result (c : cfg) (st : pstate) : option (list centry) := recover c (crash (pfs st)).
Definition power_loss_result (c : cfg) (st : pstate) : option (list centry) := recover c (power_loss (pfs st)).

(* R is the content of a commit-order prefix of the issued commits that contains every
   acknowledged commit (the first `acked` ones) *)
Definition prefix_ok (st : pstate) (R : list centry) : Prop :=
  exists n, (acked st <= n)%nat /\ (n <= length (issued st))%nat /\
            refines (concat (firstn n (issued st))) R.

(* no transaction partially visible: a commit with an entry in R has every entry in R or
   superseded in R by a newer version of the same key *)
Definition no_partial (st : pstate) (R : list centry) : Prop :=
  forall cm, In cm (issued st) -> (exists e, In e cm /\ In e R) ->
    forall e, In e cm -> In e R \/ exists e', In e' R /\ ce_key e' = ce_key e /\ ce_ver e < ce_ver e'.

(* every log file in the directory has a non-zero size (no crash between create and
   ftruncate, or between ftruncate(0) and unlink) *)
Definition no_zero_logs (s : fs) : Prop :=
  forall f, In f (dir s) -> is_log f = true -> sized s f = true.

(* ---- boolean checkers ---- *)
Definition ce_mem (e : centry) (l : list centry) : bool := existsb (centry_eqb e) l.
Definition refinesb (P R : list centry) : bool :=
  forallb (fun r => ce_mem r P) R &&
  forallb (fun e => ce_mem e R ||
                    existsb (fun r => (ce_key r =? ce_key e) && (ce_ver e <? ce_ver r)) R) P.

Fixpoint prefix_okb_from (iss : list (list centry)) (R : list centry) (acc : list centry) (n ack : nat) : bool :=
  (Nat.leb ack n && refinesb acc R) ||
  match iss with
  | [] => false
  | cm :: r => prefix_okb_from r R (acc ++ cm) (S n) ack
  end.
Definition prefix_okb (st : pstate) (R : list centry) : bool :=
  prefix_okb_from (issued st) R [] 0 (acked st).

(* the newest version of every key in l (what reads return) *)
Definition visibleb (l : list centry) (e : centry) : bool :=
  ce_mem e l && forallb (fun x => negb (ce_key x =? ce_key e) || (ce_ver x <=? ce_ver e)) l.

(* ---- configurations ---- *)
Definition cfg_pinned (sw : bool) : cfg := mkCfg sw false false.   (* the pinned tree *)
Definition cfg_fixed (sw : bool) : cfg := mkCfg sw true true.      (* both repairs *)

(* ---- witness traces ---- *)
Definition k1v1 : cell := (mkCE 1 1 10, None).
Definition k1v2 : cell := (mkCE 1 2 20, None).
Definition k2v2 : cell := (mkCE 2 2 21, None).
Definition big3 : centry := mkCE 3 1 30.

Definition write_unit (w : N) (cells : list cell) (sync : bool) : list pevent :=
  PBegin cells :: map (fun x => PE (Append (Wal w) x)) (unit_items cells)
  ++ (if sync then [PE (SyncFile (Wal w))] else []) ++ [PAck].

(* commit 1 into 00001.mem, rotation to 00002.mem (pinned: no directory fsync) *)
Definition tr_rotate (sync dirsync : bool) : list pevent :=
  write_unit 1 [k1v1] sync ++ [PSeal; PE (Create (Wal 2)); PE (Init (Wal 2))]
  ++ (if dirsync then [PE SyncDir] else []).

(* F9 (a): one more acknowledged commit into the new WAL, then power loss *)
Definition tr_f9_wal (dirsync : bool) : list pevent :=
  tr_rotate true dirsync ++ write_unit 2 [k1v2; k2v2] true.

(* F9 (b): flush of 00001.mem into table 1 recorded in the MANIFEST, then power loss *)
Definition tr_flush (dirsync : bool) : list pevent :=
  tr_rotate true dirsync ++
  [PE (Create (Sst 1)); PE (Init (Sst 1)); PE (Append (Sst 1) (IT k1v1)); PE (SyncFile (Sst 1))]
  ++ (if dirsync then [PE SyncDir] else [])
  ++ [PE (Append Manifest (IM [MCreate 1 0])); PE (SyncFile Manifest)].

(* F9 (c): first commit of a session with a value-log value: 000001.vlog's name was created
   after Open's only directory fsync *)
Definition tr_f9_vlog : list pevent :=
  [PE (Append (Vlog 1) (IV big3)); PE (SyncFile (Vlog 1))]
  ++ write_unit 1 [(big3, Some (mkVP 1 0))] true.

(* A flush whose MANIFEST change set is (msync = true) / is NOT (msync = false) fsynced before
   the flushed WAL is released, followed by a directory fsync that makes the WAL's removal
   durable.  msync = false is what a change does that skips the fsync of manifest.go addChanges
   for a create-only change set while the hook persist.manifest.done still fires: the C10
   harness takes the SyncFile / SyncDir events of a trace from the system calls the process
   really made (harness/strace.go), so this is the trace it then evaluates. *)
Definition tr_flush_release (msync : bool) : list pevent :=
  tr_rotate true true ++
  [PE (Create (Sst 1)); PE (Init (Sst 1)); PE (Append (Sst 1) (IT k1v1)); PE (SyncFile (Sst 1)); PE SyncDir;
   PE (Append Manifest (IM [MCreate 1 0]))]
  ++ (if msync then [PE (SyncFile Manifest)] else [])
  ++ [PE (Truncate0 (Wal 1)); PE (Unlink (Wal 1)); PE SyncDir].

(* the file-system events of a trace, applied without the protocol guard *)
Definition fs_events (tr : list pevent) : list event :=
  flat_map (fun e => match e with PE x => [x] | _ => [] end) tr.

(* zero-size log windows: killed between ftruncate(0) and unlink of a flushed WAL *)
Definition tr_zero_wal_delete : list pevent :=
  tr_flush false ++ [PE (Truncate0 (Wal 1))].
(* killed between openat(O_CREAT) and ftruncate of a new WAL *)
Definition tr_zero_wal_create : list pevent :=
  write_unit 1 [k1v1] false ++ [PSeal; PE (Create (Wal 2))].

(* a longer accepted trace used as a satisfiability example: two commits (one with a vlog
   value), rotation, flush, WAL deletion, a second flush and a compaction of both tables *)
Definition tr_example (c : cfg) : list pevent :=
  let ds := if fix_dirsync c then [PE SyncDir] else [] in
  let sy (f : fname) := if sync_writes c then [PE (SyncFile f)] else [] in
  [PE (Append (Vlog 1) (IV big3))] ++ sy (Vlog 1)
  ++ write_unit 1 [k1v1; (big3, Some (mkVP 1 0))] (sync_writes c)
  ++ [PSeal; PE (Create (Wal 2)); PE (Init (Wal 2))] ++ ds
  ++ write_unit 2 [k1v2; k2v2] (sync_writes c)
  ++ [PE (Create (Sst 1)); PE (Init (Sst 1)); PE (Append (Sst 1) (IT (big3, Some (mkVP 1 0))));
      PE (Append (Sst 1) (IT k1v1)); PE (SyncFile (Sst 1))] ++ ds
  ++ [PE (Append Manifest (IM [MCreate 1 0])); PE (SyncFile Manifest);
      PE (Truncate0 (Wal 1)); PE (Unlink (Wal 1)); PSeal]
  (* the flusher may record the sealed WAL's table before the next WAL exists *)
  ++ [PE (Create (Sst 2)); PE (Init (Sst 2)); PE (Append (Sst 2) (IT k1v2)); PE (Append (Sst 2) (IT k2v2));
      PE (SyncFile (Sst 2))] ++ ds
  ++ [PE (Append Manifest (IM [MCreate 2 0])); PE (SyncFile Manifest);
      PE (Create (Wal 3)); PE (Init (Wal 3))] ++ ds
  ++ [PE (Create (Sst 3)); PE (Init (Sst 3)); PE (Append (Sst 3) (IT k1v2)); PE (Append (Sst 3) (IT k2v2));
      PE (Append (Sst 3) (IT (big3, Some (mkVP 1 0)))); PE (SyncFile (Sst 3)); PE SyncDir;
      PE (Append Manifest (IM [MCreate 3 1; MDelete 1; MDelete 2])); PE (SyncFile Manifest);
      PE (Truncate0 (Sst 1)); PE (Unlink (Sst 1)); PE (Unlink (Sst 2)); PE (Unlink (Wal 2))].
