(* Recover.v — Layer C: what badger.Open reconstructs from a directory (db.go Open).

   Open: openOrCreateManifestFile (manifest.go ReplayManifestFile/applyChangeSet: replay of the
   change sets; a create of an existing id or a delete of a missing id is an error);
   openMemTables (memtable.go: every NNNNN.mem, ascending fid, logFile.iterate in transaction
   units up to the first incomplete unit; z.OpenMmapFile returns z.NewFile for a ZERO-SIZE file
   and openMemTables treats that as fatal: finding F25); newLevelsController/revertToManifest
   (levels.go: a MANIFEST table without file => error, an unreferenced table file => removed;
   OpenTable on an empty file fails); valueLog.open (value.go: zero-size .vlog => z.NewFile =>
   fatal, same finding).  The recovered content is the set of entries of the MANIFEST's
   tables and of the replayed WAL units, value pointers dereferenced through the value log (an
   entry whose pointer has no target is unreadable and left out).

   Not modelled: the order in which WALs become memtables (the recovered entry SET does not
   depend on it), the files Open itself creates/removes (new WAL, new vlog file, truncation
   of log tails), key registry, DISCARD, LOCK, MANIFEST rewrite, CHECKSUM_MISMATCH tables. *)
From Verif Require Import FS.
Open Scope N_scope.

Record cfg := mkCfg {
  sync_writes : bool;   (* Options.SyncWrites *)
  fix_dirsync : bool;   (* repair of F9: directory fsync after creating .mem / .vlog / flushed .sst *)
  fix_zerolog : bool    (* repair of F25: a zero-size .mem / .vlog is an empty log, not an error *)
}.

(* ---- MANIFEST replay (manifest.go applyManifestChange / applyChangeSet) ---- *)
Definition tabs := list (N * N).   (* (table id, level) *)
Definition tab_mem (id : N) (t : tabs) : bool := existsb (fun x => fst x =? id) t.
Definition tab_del (id : N) (t : tabs) : tabs := filter (fun x => negb (fst x =? id)) t.

Fixpoint apply_changes (t : tabs) (cs : list mchange) : option tabs :=
  match cs with
  | [] => Some t
  | MCreate id l :: r => if tab_mem id t then None else apply_changes (t ++ [(id, l)]) r
  | MDelete id :: r => if tab_mem id t then apply_changes (tab_del id t) r else None
  end.

Fixpoint replay_manifest (t : tabs) (its : list item) : option tabs :=
  match its with
  | [] => Some t
  | IM cs :: r => match apply_changes t cs with Some t' => replay_manifest t' r | None => None end
  | _ :: _ => None
  end.

(* ---- WAL replay (memtable.go logFile.iterate with the memtable replay function) ----
   last = lastCommit (0 = no open transaction), pend = entries of the open transaction,
   out = entries delivered so far.  The loop stops at the first record that does not continue
   the open transaction / at a marker that does not match. *)
Fixpoint wal_replay (its : list item) (last : N) (pend out : list cell) : list cell :=
  match its with
  | [] => out
  | IWent c :: r =>
      let ts := ce_ver (fst c) in
      let last' := if last =? 0 then ts else last in
      if last' =? ts then wal_replay r last' (pend ++ [c]) out else out
  | IWfin ts :: r =>
      if last =? ts then wal_replay r 0 [] (out ++ pend) else out
  | _ :: _ => out
  end.

Definition wal_cells (its : list item) : list cell := wal_replay its 0 [] [].

Definition table_cells (its : list item) : list cell :=
  flat_map (fun it => match it with IT c => [c] | _ => [] end) its.

(* value pointer dereference (value.go Read): the record must exist in a present vlog file *)
Definition deref (s : fs) (c : cell) : option centry :=
  match snd c with
  | None => Some (fst c)
  | Some p =>
      if memf (Vlog (vp_fid p)) (dir s)
      then match nth_error (cur s (Vlog (vp_fid p))) (vp_idx p) with
           | Some (IV e) => if centry_eqb e (fst c) then Some e else None
           | _ => None
           end
      else None
  end.

Definition is_log (f : fname) : bool := match f with Wal _ | Vlog _ => true | _ => false end.
Definition wal_names (d : list fname) : list N :=
  flat_map (fun f => match f with Wal n => [n] | _ => [] end) d.

Definition logs_ok (c : cfg) (s : fs) : bool :=
  forallb (fun f => negb (is_log f) || sized s f || fix_zerolog c) (dir s).
Definition tables_ok (s : fs) (t : tabs) : bool :=
  forallb (fun x => memf (Sst (fst x)) (dir s) && sized s (Sst (fst x))) t.

Definition lsm_cells (s : fs) (t : tabs) : list cell :=
  flat_map (fun x => table_cells (cur s (Sst (fst x)))) t.
Definition mem_cells (s : fs) : list cell :=
  flat_map (fun n => wal_cells (cur s (Wal n))) (wal_names (dir s)).
Definition readable (s : fs) (cs : list cell) : list centry :=
  flat_map (fun c => match deref s c with Some e => [e] | None => [] end) cs.

(* None = Open returns an error; Some R = the entries the re-opened database holds *)
Definition recover (c : cfg) (s : fs) : option (list centry) :=
  match replay_manifest [] (if memf Manifest (dir s) then cur s Manifest else []) with
  | None => None
  | Some t =>
      if logs_ok c s && tables_ok s t
      then Some (readable s (lsm_cells s t ++ mem_cells s))
      else None
  end.

(* ---- the property's relation between issued commits and recovered entries ----
   R refines P: R holds only entries of P, and every entry of P is either in R or superseded
   in R by a newer version of the same key (compaction may have dropped the older one). *)
Definition refines (P R : list centry) : Prop :=
  incl R P /\
  forall e, In e P -> In e R \/ exists e', In e' R /\ ce_key e' = ce_key e /\ ce_ver e < ce_ver e'.

(* e is what a read of its key returns from l: newest version of the key *)
Definition visible (l : list centry) (e : centry) : Prop :=
  In e l /\ forall e', In e' l -> ce_key e' = ce_key e -> ce_ver e' <= ce_ver e.
