(* CorrC15.v — correspondence entry point for histories with value-log GC (model: B/Gc.v).
   Every label carries what the implementation observed; `xexec` replays the history on the
   model (physical entries, value pointers as (fid, record index), value-log files, deferred
   deletions) and reports the first label on which it disagrees. *)
From Verif Require Import Bytes Keys Consts Spec Lsm Compact Iter Sys Corr Gc.
Open Scope N_scope.

Inductive case :=
| GHist (managed detect : bool) (nkeep nlevels next thr maxent : N) (ops : list xop).

Fixpoint dedup (l : list N) (acc : list N) : list N :=
  match l with
  | [] => acc
  | x :: r => if existsb (N.eqb x) acc then dedup r acc else dedup r (x :: acc)
  end.

Definition label_tag (o : xop) : N :=
  match o with
  | Base (Compact _ _) => 60
  | Base (Flush _) => 50
  | Base (Commit _ _ _) => 40
  | Base _ => 0
  | CommitV _ _ _ _ => 40
  | GetHold _ _ _ _ => 0
  | ItemValue _ _ => 0
  | ItOpen _ _ _ => 242
  | ItRun _ _ _ => 0
  | ItClose _ => 0
  | GcStart _ _ => 0
  | GcScan _ => 0
  | GcWriteBack => 0
  | GcDelete _ => 0
  | GcEnd => 202
  | PDump _ _ _ _ _ _ _ => 0
  end.

Definition run_case (c : case) : bool * list N :=
  match c with
  | GHist managed detect nkeep nlevels next thr maxent ops =>
      let '(bad, _, tags) := xexec (init_x managed detect nkeep (N.to_nat nlevels) next thr maxent) ops 0 [] in
      match bad with
      | None => (true, dedup (tags ++ map label_tag ops) [])
      | Some (i, code) => (false, [1000 + i; 100000 + code])
      end
  end.
