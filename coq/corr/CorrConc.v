(* CorrConc.v — correspondence entry point for C02 / C03: API-granularity schedules of
   interleaved transactions on a real DB, replayed by the system model extended with the commits
   refused after timestamp allocation (B/SysRejected.v, pinned tree: fx = false).

   Besides label-by-label agreement (every label carries what the implementation returned), the
   commit log the theorems are stated over (B/TxnLog.v `xrun`) is compared with what the harness
   observed: one (read ts, commit ts, applied) triple per commit that was handed a timestamp. *)
From Verif Require Import Bytes Keys Consts Spec Lsm Compact Iter Sys SysRejected TxnLog Corr.
From Verif Require CorrSys.
Open Scope N_scope.

Inductive case :=
| XHist (managed detect : bool) (nkeep nlevels next : N) (ops : list xop)
        (log : list (N * N * bool)).

Definition overlap (a b : list bytes) : bool :=
  existsb (fun r => existsb (bytes_eqb r) b) a.

(* branch tags of one label, computed in its pre-state with the log so far:
   44 XBlock, 45 XTooBig, 46 commit refused while blocked (code 7), 47 ErrConflict caused only by a
   record that was never applied (finding F12), 48 successful commit of a long-running transaction
   (at least 5 timestamps between read and commit), 49 ErrConflict on a key recorded by an iterator
   or Seek only is not distinguished here (the harness counts it) *)
Definition xop_tags (s : xsys) (L : list crec) (o : xop) : list N :=
  match o with
  | XBlock _ => [44]
  | XTooBig _ _ => [45]
  | Base (Commit t cts r) =>
      (if x_blocked s && (r =? 7) then [46] else []) ++
      match lookup (s_txns (x_base s)) t with
      | Some x =>
          (if (r =? 1) && negb (existsb (fun c => cr_applied c && (x_read x <? cr_cts c) && overlap (x_reads x) (cr_keys c)) L)
           then [47] else []) ++
          (if (r =? 0) && nonempty (x_pend x) && (x_read x + 5 <=? (if s_managed (x_base s) then cts else s_next (x_base s)))
           then [48] else [])
      | None => []
      end ++ CorrSys.op_tags (Commit t cts r)
  | Base o => CorrSys.op_tags o
  end.

Fixpoint xtags (s : xsys) (L : list crec) (ops : list xop) (acc : list N) : list N :=
  match ops with
  | [] => acc
  | o :: r => match xstep false s o with
              | XOk s' => xtags s' (L ++ xcommit_rec false s o) r (xop_tags s L o ++ acc)
              | XBad _ => acc
              end
  end.

Definition triple_eqb (a b : N * N * bool) : bool :=
  (fst (fst a) =? fst (fst b)) && (snd (fst a) =? snd (fst b)) && Bool.eqb (snd a) (snd b).

Definition run_case (c : case) : bool * list N :=
  match c with
  | XHist managed detect nkeep nlevels next ops log =>
      let s0 := init_xsys managed detect nkeep (N.to_nat nlevels) next in
      let '(bad, _) := xexec false s0 ops 0 in
      match bad with
      | Some (i, code) => (false, [1000 + i; 100000 + code])
      | None =>
          match xrun false s0 [] ops with
          | Some (_, L) =>
              if list_eqb triple_eqb (map (fun c => (cr_rts c, cr_cts c, cr_applied c)) L) log
              then (true, CorrSys.dedup (xtags s0 [] ops []) [])
              else (false, [999])
          | None => (false, [998])
          end
      end
  end.
