(* CorrSys.v — correspondence entry point for sequential histories on the system model. *)
From Verif Require Import Bytes Keys Consts Spec Lsm Compact Iter Sys Corr.
Open Scope N_scope.

Inductive case :=
| Hist (managed detect : bool) (nkeep : N) (nlevels : N) (next : N) (ops : list op).

Definition op_tags (o : op) : list N :=
  match o with
  | Begin _ _ _ => []
  | Modify _ e r => [if r =? 0 then (if is_deleted e then 11 else 10) else 12]
  | Get _ _ r => [match r with GFound _ => 20 | GNotFound => 21 | GErr _ => 22 end]
  | Iterate _ o _ items =>
      [(if io_reverse o then 31 else 30); (if io_all o then 32 else 0);
       (match io_prefix o with [] => 0 | _ => 33 end); (if 0 <? io_since o then 34 else 0);
       (match items with [] => 0 | _ => 35 end)]
  | Commit _ _ r => [if r =? 0 then 40 else 41]
  | Discard _ => []
  | Flush id => [if id =? 0 then 0 else 50]
  | Compact c out =>
      [60 + N.of_nat (c_this c); (if (c_this c =? c_next c)%nat then 70 else 0);
       (match c_bot c with [] => 0 | _ => 71 end); (match out with [] => 72 | _ => 0 end)]
  | SetDiscard _ => [80]
  | SetNow _ => []
  | Dump _ => [90]
  | MaxVersion _ => [91]
  end.

Fixpoint dedup (l : list N) (acc : list N) : list N :=
  match l with
  | [] => acc
  | x :: r => if existsb (N.eqb x) acc then dedup r acc else dedup r (x :: acc)
  end.

Definition run_case (c : case) : bool * list N :=
  match c with
  | Hist managed detect nkeep nlevels next ops =>
      let '(bad, _) := exec_strict (init_sys managed detect nkeep (N.to_nat nlevels) next) ops 0 in
      match bad with
      | None => (true, dedup (flat_map op_tags ops) [])
      | Some (i, code) => (false, [1000 + i; 100000 + code])
      end
  end.
