(* CorrC30.v — correspondence entry point for C30: a case is one sequential run of API calls
   (GetSequence / Next / Release / re-open / a read of the stored lease), each with what the
   implementation returned; run_case replays it on Sequence.v with fx = false (the pinned code). *)
From Verif Require Import Bytes Corr Sequence.
Open Scope N_scope.

Inductive aop :=
| AGet (k bw : N) (blocked : bool)
| ANext (o : N) (blocked : bool)
| ARel (o : N) (blocked : bool)
| ARestart
| APeek (k : N).

(* Conc: one deterministic interleaving the harness forced on the real DB (a Release parked inside
   its commit through the hook "sendToWriteCh.beforeSend" while another goroutine calls Next), as
   the list of Sequence.v labels with what was observed at each: RPending = the call is parked in /
   went through a commit, RInvalid on a NextCall = the call did not return while the other call of
   the object was in flight (it waits for seq.lock); replayed with [step false]. *)
Inductive case :=
| Seq (steps : list (aop * result))
| Conc (steps : list (label * result)).

Definition result_eqb (a b : result) : bool :=
  match a, b with
  | RNum x, RNum y => x =? y
  | ROk, ROk | RPending, RPending | RErrConflict, RErrConflict | RErrBlocked, RErrBlocked
  | RErrZeroBw, RErrZeroBw | RErrEmptyKey, RErrEmptyKey | RErrNotFound, RErrNotFound
  | RInvalid, RInvalid => true
  | _, _ => false
  end.

Definition astep (s : state) (a : aop) : state * result :=
  match a with
  | AGet k bw b => a_get false s k bw b
  | ANext o b => a_next false s o b
  | ARel o b => a_release false s o b
  | ARestart => (restart s, ROk)
  | APeek k => (s, match stored (st_store s k) with Some n => RNum n | None => RErrNotFound end)
  end.

Definition has_dup (s : state) : bool :=
  match st_hist s with
  | (k, _, n) :: r => existsb (fun e => (fst (fst e) =? k) && (snd e =? n)) r
  | [] => false
  end.

Definition tags_of (s s' : state) (a : aop) (r : result) : list N :=
  (match a with
   | AGet _ _ _ => match r with ROk => 1 | RErrBlocked => 2 | RErrZeroBw => 12 | RErrEmptyKey => 13 | _ => 99 end
   | ANext o _ =>
       match st_objs s o with
       | Some ob =>
           match r with
           | RNum _ => if o_poison ob then 6 else if o_next ob <? o_leased ob then 3 else 4
           | RErrBlocked => 5
           | _ => 99
           end
       | None => 98
       end
   | ARel o _ =>
       match st_objs s o with
       | Some ob =>
           match r with
           | ROk => if negb (wver (st_store s (o_key ob)) =? wver (st_store s' (o_key ob))) then
                      (if o_next ob <? o_leased ob then 7 else 17) else 8
           | RErrBlocked => 9
           | RErrNotFound => 15
           | _ => 99
           end
       | None => 98
       end
   | ARestart => 10
   | APeek _ => match r with RNum _ => 11 | _ => 0 end
   end)
  :: (if st_wrapped s' && negb (st_wrapped s) then [14] else [])
  ++ (if negb (length (st_hist s') =? length (st_hist s))%nat then (if has_dup s' then [16] else []) else []).

Fixpoint replay (s : state) (steps : list (aop * result)) (i : N) (tags : list N) : bool * list N :=
  match steps with
  | [] => (true, tags)
  | (a, r) :: rest =>
      let '(s', r') := astep s a in
      if result_eqb r r' then replay s' rest (i + 1) (tags_of s s' a r' ++ tags)
      else (false, [1000 + i])
  end.

Definition ltags (s : state) (l : label) (r : result) : list N :=
  match l with
  | GetCall _ _ => [30]
  | NextCall o =>
      match st_objs s o with
      | Some ob =>
          match r, o_pc ob with
          | RInvalid, Releasing _ _ => [20]       (* Next waits for the lock held by Release *)
          | RInvalid, _ => [99]
          | RNum _, _ => if existsb (fun j => match st_objs s j with
                                               | Some oj => (o_key oj =? o_key ob) && negb (j =? o)
                                                            && match o_pc oj with Releasing _ _ => true | _ => false end
                                               | None => false end) (map N.of_nat (seq 0 (N.to_nat (st_nobj s))))
                         then [21]                (* served from memory while another object's Release is in flight *)
                         else [22]
          | RPending, _ => [23]
          | _, _ => [99]
          end
      | None => [98]
      end
  | RelCall _ => match r with RPending => [29] | _ => [99] end
  | Ret o _ =>
      match st_objs s o with
      | Some ob =>
          match o_pc ob, r with
          | Releasing _ true, ROk => [24]
          | Releasing _ false, ROk => [25]
          | Refreshing _ _ true, RNum _ => [26]
          | Refreshing _ _ false, ROk => [27]
          | _, _ => [99]
          end
      | None => [98]
      end
  | Restart => [10]
  end.

Fixpoint replay_l (s : state) (steps : list (label * result)) (i : N) (tags : list N) : bool * list N :=
  match steps with
  | [] => (true, tags)
  | (l, r) :: rest =>
      let '(s', r') := step false s l in
      if result_eqb r r' then replay_l s' rest (i + 1) (ltags s l r' ++ tags)
      else (false, [2000 + i])
  end.

Fixpoint dedup (l : list N) (acc : list N) : list N :=
  match l with
  | [] => acc
  | x :: r => if existsb (N.eqb x) acc then dedup r acc else dedup r (x :: acc)
  end.

Definition run_case (c : case) : bool * list N :=
  match c with
  | Seq steps => let '(ok, t) := replay init steps 0 [] in (ok, if ok then dedup t [] else t)
  | Conc steps => let '(ok, t) := replay_l init steps 0 [] in (ok, if ok then dedup t [] else t)
  end.
