(* CorrC38.v — correspondence entry point for C38.
   A case is either
   * Outcome: a PROGRAM built by the harness from what a real scenario run showed (which calls
     returned with which error class, whether Close returned, what hung / crashed), executed by
     the model: explicit labels (`Do l`, must be enabled) and "let the background goroutines run"
     (`Run`/`RunQ`: the model's own scheduler, with the memtable-fills-up choices supplied);
     for the l0-full runs the labels around the level-0 stall loop come in the ORDER of the real
     hook events: `Not D_flushmt` / `Not F_add` where the flush was seen waiting on a full level 0,
     `Any [K0_..; KO_..]` for a level-0 compaction some worker installed, then the flush's label;
     the model agrees iff the program executes and the final `observe` equals what the
     implementation showed (and, when nothing hung, no call is pending at the end);
   * Snap: the maxima of the real counters sampled during a run, checked against the numeric
     bounds of the proved invariant (i_wch, i_fch, i_l0) under the run's configuration. *)
From Coq Require Import List NArith Arith Bool.
Import ListNotations.
From Verif Require Import Bytes Corr Blocking BlockingStall.
Open Scope N_scope.

Inductive instr :=
  | Do (l : lab)
  | Not (l : lab)                          (* l must be DISABLED here (a goroutine observed waiting) *)
  | Any (ls : list lab)                    (* the first enabled label of ls (some compactor did it; which worker is not observable) *)
  | Run (k : N) (fills : list bool)        (* at most k scheduler steps *)
  | RunQ (fills : list bool).              (* scheduler steps until nothing is enabled (<= mu) *)

Record eobs := mkEobs {
  e_ok : N; e_blk : N; e_rd : N; e_drop : N; e_dblk : N;
  e_closed : bool; e_crashed : bool; e_hung_commit : N; e_hung_read : N }.

Inductive case :=
  | Outcome (strict : bool) (n b m t s k : N) (prog : list instr) (exp : eobs)
  | Snap (n m s : N) (wch fch l0 : N).

Definition cfg_of (n b m t s k : N) : cfg :=
  mkCfg (N.to_nat n) (N.to_nat b) (N.to_nat m) (N.to_nat t) (N.to_nat s) (N.to_nat k).

(* the scheduler of Blocking.v, except that J_write's "this write fills the memtable" flag is
   taken from the supplied list (cyclically; [] = never) *)
Definition cand_fill (f : bool) : list lab :=
  map (fun l => match l with J_write _ => J_write f | x => x end) candidates.

Definition sched_f (strict : bool) (c : cfg) (s : st) (f : bool) : option lab :=
  find (enabled strict c s) (cand_fill f).

Definition next_fill (fills cur : list bool) : bool * list bool :=
  match cur with
  | f :: r => (f, r)
  | [] => match fills with f :: r => (f, r) | [] => (false, []) end
  end.

(* tag bits *)
Definition tbit (b : bool) (i : N) : N := if b then N.shiftl 1 i else 0.
Definition tags_of (c : cfg) (s s' : st) (l : lab) : N :=
  N.lor (tbit (Nat.ltb (fch s) (fch s')) 1)                                            (* memtable rotated / pushed *)
  (N.lor (tbit (match fl s' with FBuild => Nat.leb (cS c) (l0 s') | _ => false end) 2)   (* flusher stalled on L0 *)
  (N.lor (tbit (match job s', mt s' with JRun _ (S _), MtFull => Nat.leb (cM c) (fch s') | _, _ => false end) 3) (* errNoRoom *)
  (N.lor (tbit (Nat.ltb (r_blk s) (r_blk s')) 4)                                        (* ErrBlockedWrites returned *)
  (N.lor (tbit (match clo s, clo s' with COrc, CDone => true | _, _ => false end) 5)    (* Close returned *)
  (N.lor (tbit (Nat.ltb (r_drop s) (r_drop s')) 6)                                      (* drop returned nil *)
  (N.lor (tbit (Nat.ltb (r_dblk s) (r_dblk s')) 7)                                      (* drop returned ErrBlockedWrites *)
  (N.lor (tbit (crashed s') 8)
  (N.lor (tbit (Nat.ltb (l0 s') (l0 s)) 11)                                             (* level-0 compaction / drop shrank L0 *)
  (N.lor (tbit (Nat.leb 2 (wch s')) 12)                                                 (* requests queue up in writeCh *)
  (N.lor (tbit (match l with W_drain => true | _ => false end) 13)                      (* closedCase drained a request *)
  (N.lor (tbit (match l with G_check | G_none => true | _ => false end) 14)             (* value-log GC ran *)
  (N.lor (tbit (match l with E_close => negb (Nat.eqb (reqs s + lockq s) 0) | _ => false end) 15) (* Close begins with writes in flight *)
  (N.lor (tbit (match l with R_pass => true | _ => false end) 16)
  (N.lor (tbit (match l with H_conflict => true | _ => false end) 17)
  (N.lor (tbit (drop_stalled c s') 18)                                                  (* DropPrefix's own flush sits in the L0 stall loop *)
  (N.lor (tbit (match l with D_flushmt => mt_nonempty (mt s) | _ => false end) 19)     (* DropPrefix flushed db.mt into level 0 *)
         (tbit (match l with D_skipmt | C_mt => Nat.leb (cS c) (l0 s) | _ => false end) 20))))))))))))))))). (* DropAll / Close reached its memtable step with L0 at the stall limit *)

Fixpoint run_f (strict : bool) (c : cfg) (fuel : nat) (fills cur : list bool) (s : st) (tg : N) : st * N * list bool :=
  match fuel with
  | O => (s, tg, cur)
  | S fuel' =>
      let '(f, cur') := next_fill fills cur in
      match sched_f strict c s f with
      | Some l =>
          match step strict c s l with
          | Some s' =>
              let used := match l with J_write _ => cur' | _ => cur end in
              run_f strict c fuel' fills used s' (N.lor tg (tags_of c s s' l))
          | None => (s, tg, cur)
          end
      | None => (s, tg, cur)
      end
  end.

Fixpoint interp (strict : bool) (c : cfg) (p : list instr) (s : st) (tg : N) : option (st * N) :=
  match p with
  | [] => Some (s, tg)
  | Do l :: r =>
      match step strict c s l with
      | Some s' => interp strict c r s' (N.lor tg (tags_of c s s' l))
      | None => None
      end
  | Not l :: r =>
      match step strict c s l with
      | Some _ => None
      | None => interp strict c r s tg
      end
  | Any ls :: r =>
      match find (enabled strict c s) ls with
      | Some l =>
          match step strict c s l with
          | Some s' => interp strict c r s' (N.lor tg (tags_of c s s' l))
          | None => None
          end
      | None => None
      end
  | Run k fills :: r =>
      let '(s', tg', _) := run_f strict c (N.to_nat k) fills [] s tg in interp strict c r s' tg'
  | RunQ fills :: r =>
      (* the memtable choices can add work, so the bound is generous but finite: 4 * mu + 64 *)
      let '(s', tg', _) := run_f strict c (4 * mu c s + 64) fills [] s tg in interp strict c r s' tg'
  end.

Definition nat_eqN (a : nat) (b : N) : bool := N.eqb (N.of_nat a) b.

Definition obs_agrees (o : obs) (e : eobs) : bool :=
  nat_eqN (o_ok o) (e_ok e) && nat_eqN (o_blk o) (e_blk e) && nat_eqN (o_rd o) (e_rd e)
  && nat_eqN (o_drop o) (e_drop e) && nat_eqN (o_dblk o) (e_dblk e)
  && Bool.eqb (o_closed o) (e_closed e) && Bool.eqb (o_crashed o) (e_crashed e)
  && nat_eqN (o_hung_commit o) (e_hung_commit e) && nat_eqN (o_hung_read o) (e_hung_read e).

Fixpoint bits_from (n : N) (i : N) (fuel : nat) : list N :=
  match fuel with
  | O => []
  | S f => (if N.testbit n i then [i] else []) ++ bits_from n (i + 1) f
  end.

Definition run_case (cs : case) : bool * list N :=
  match cs with
  | Outcome strict n b m t s k prog exp =>
      let c := cfg_of n b m t s k in
      match interp strict c prog (init c) 0 with
      | Some (s', tg) =>
          let quiet := (N.eqb (e_hung_commit exp) 0) && (N.eqb (e_hung_read exp) 0) && negb (e_crashed exp) in
          let tg := N.lor tg (N.lor (tbit (negb (N.eqb (e_hung_commit exp) 0)) 9) (tbit (negb (N.eqb (e_hung_read exp) 0)) 10)) in
          (obs_agrees (observe s') exp && (if quiet then negb (pending s') else pending s' || crashed s'),
           match bits_from tg 1 20 with [] => [0] | l => l end)
      | None => (false, [99])
      end
  | Snap n m s wch fch l0 =>
      (* i_wch, i_fch, i_l0 of BlockingProofs.inv *)
      ((wch <=? n) && (fch <=? m) && (l0 <=? s),
       [ (if wch =? 0 then 30 else 31); (if fch <? m then 32 else 33); (if l0 <? s then 34 else 35) ])
  end.
