(* CorrC31.v — correspondence entry point for C31: a history on the system model with merge
   operators (f = byte append).  run_case replays it on Sys (MergeOp.xstep) and, in parallel, on
   the per-key version-list abstraction (MergeOp.kstep) that C31_fold is proved on, and checks
   after every label that the key iterator's view in Sys equals the abstract list (strict = true:
   a difference fails the case; strict = false, used by the F8 witness attempt: it is only
   reported as tag 77). *)
From Verif Require Import Bytes Keys Consts Spec Lsm Compact Iter Sys Corr MergeOp.
Open Scope N_scope.

Definition fapp : bytes -> bytes -> bytes := fun a b => a ++ b.

Inductive case :=
| MHist (detect : bool) (nkeep nlevels next : N) (strict : bool) (ops : list xop).

Definition kmap := list (bytes * kstate).
Fixpoint kfind (m : kmap) (k : bytes) : kstate :=
  match m with
  | [] => k_init
  | (j, s) :: r => if bytes_eqb j k then s else kfind r k
  end.
Fixpoint kset (m : kmap) (k : bytes) (s : kstate) : kmap :=
  match m with
  | [] => [(k, s)]
  | (j, x) :: r => if bytes_eqb j k then (k, s) :: r else (j, x) :: kset r k s
  end.

(* the filter state in which the compaction reaches the first entry of key k, and which entries
   of the abstract list are the copies the compaction reads *)
Fixpoint state_before (p : cparams) (st : cstate) (inp : src) (k : bytes) : cstate :=
  match inp with
  | [] => st
  | e :: r => if bytes_eqb (e_key e) k then st else state_before p (fst (filter_step p st e)) r k
  end.

Definition lsm_of (ls : list (list table)) (c : compaction) (k : bytes) (ks : kstate) : kop :=
  let p := mkCP (c_discard c) (c_nkeep c) (compaction_overlap ls c) (c_drop c) (c_now c) in
  let inp := merge_all (compaction_inputs ls c) in
  KLsm p (state_before p cs_init inp k)
       (map (fun e => existsb (entry_eqb e) inp) (k_list ks)).

(* one abstract step, with the computable precondition check of the theorem (kop_okb) *)
Definition kdo (k : bytes) (sb : kstate * bool) (o : kop) : kstate * bool :=
  (kstep fapp k (fst sb) o, snd sb && kop_okb k (fst sb) o).

(* operands that became visible again because the compaction dropped the rewrite shadowing them *)
Definition resurface (k : bytes) (sb : kstate * bool) (view : list entry) : kstate * bool :=
  fold_left (fun st e =>
    if existsb (entry_eqb e) (k_list (fst st)) then st
    else if is_merge e && negb (has_discard e) && (e_exp e =? 0) && (e_umeta e =? 0)
         then kdo k st (KResurface (e_ver e) (e_val e))
         else st) view sb.

(* the abstract run next to Sys; the boolean says whether every abstract step met kop_ok *)
Definition abs_step (s s' : sys) (m : kmap) (o : xop) : kmap * bool :=
  match o with
  | MAdd k v => let '(ks, b) := kdo k (kfind m k, true) (KAdd (s_next s) v) in (kset m k ks, b)
  | MCompact k =>
      let '(ks, b) := kdo k (kdo k (kfind m k, true) (KMergeRead (s_now s))) (KMergeWrite 0) in
      (kset m k ks, b)
  | Base (Compact c _) =>
      let r := map (fun kk => (fst kk, resurface (fst kk)
                                 (kdo (fst kk) (snd kk, true) (lsm_of (l_levels (s_db s)) c (fst kk) (snd kk)))
                                 (key_items s' (fst kk)))) m in
      (map (fun x => (fst x, fst (snd x))) r, forallb (fun x => snd (snd x)) r)
  | _ => (m, true)
  end.

Definition views_ok (s : sys) (m : kmap) : bool :=
  forallb (fun kk => entries_eqb (key_items s (fst kk)) (k_list (snd kk))) m.

Definition has_summary (l : list entry) : bool := existsb (fun e => has_discard e) l.

Definition xtags (s s' : sys) (m m' : kmap) (o : xop) : list N :=
  match o with
  | Base (Flush id) => [if id =? 0 then 0 else 10]
  | Base (Compact c _) =>
      (if (c_this c =? c_next c)%nat then 11 else 12)
      :: flat_map (fun kk =>
           let l := k_list (snd kk) in
           let l' := k_list (kfind m' (fst kk)) in
           match lsm_of (l_levels (s_db s)) c (fst kk) (snd kk) with
           | KLsm _ _ mask =>
               if existsb (fun b => b) mask then
                 (if (length l' <? length l)%nat then [6] else [7])
                 ++ (if negb (entries_eqb l' (match lsm_of (l_levels (s_db s)) c (fst kk) (snd kk) with
                                              | KLsm p st mk => lsm_run p st l mk | _ => l end)) then [17] else [])
                 ++ (if negb (forallb (fun b => b) mask) then [13] else [])
               else []
           | _ => []
           end) m
  | Base _ => []
  | MAdd _ _ => [1]
  | MGet k r =>
      match r with
      | None => [3]
      | Some _ => (if has_summary (k_list (kfind m k)) then
                     match k_list (kfind m k) with
                     | e :: _ => if has_discard e then 8 else 9
                     | [] => 2
                     end
                   else 2)
                  :: (if (1 <? length (key_items s k))%nat then [14] else [])
      end
  | MCompact k => [if (length (s_writes s) <? length (s_writes s'))%nat then 4 else 5]
  | Reopen id _ => [if id =? 0 then 15 else 16]
  end.

Fixpoint replay (strict : bool) (s : sys) (m : kmap) (ops : list xop) (i : N) (tags : list N)
  : bool * list N :=
  match ops with
  | [] => (true, tags)
  | o :: r =>
      match xstep fapp s o with
      | Bad code => (false, [1000 + i; 100000 + code])
      | Ok s' =>
          let '(m', pre_ok) := abs_step s s' m o in
          let abs_get_ok := match o with
                            | MGet k r => opt_bytes_eqb (mget fapp (s_now s) (k_list (kfind m k))) r
                            | _ => true
                            end in
          let t := xtags s s' m m' o in
          if views_ok s' m' && abs_get_ok && pre_ok then replay strict s' m' r (i + 1) (t ++ tags)
          else if strict then (false, [2000 + i])
          else replay strict s' m' r (i + 1) (77 :: t ++ tags)
      end
  end.

Fixpoint dedup (l : list N) (acc : list N) : list N :=
  match l with
  | [] => acc
  | x :: r => if existsb (N.eqb x) acc then dedup r acc else dedup r (x :: acc)
  end.

Definition run_case (c : case) : bool * list N :=
  match c with
  | MHist detect nkeep nlevels next strict ops =>
      let '(ok, t) := replay strict (init_sys false detect nkeep (N.to_nat nlevels) next) [] ops 0 [] in
      (ok, if ok then dedup t [] else t)
  end.
