(* CorrC09.v — correspondence entry point for the log part of C09: logFile.iterate on a
   well-formed log whose tail was cut at some byte of its last unit and either truncated
   (kind 1) or zero-filled (kind 2; kind 3 = zero-filled up to the original length).  The model
   evaluation is the one of CorrC16 (Iter); the extra tag records the kind. *)
From Verif Require Import Bytes Uvarint Keys Codec Corr Crc32c Consts LogRecord LogIter CorrC16.
Open Scope N_scope.

Inductive case :=
| Torn (kind : N) (data : bytes) (offset : N) (out : list delivered) (cls : N) (vend : N).

Definition run_case (c : case) : bool * list N :=
  match c with
  | Torn kind data offset out cls vend =>
      let '(ok, tags) := CorrC16.run_case (Iter data offset out cls vend) in
      (ok, (100 + kind) :: tags)
  end.
