(* CorrC10.v — C10 uses the Layer C correspondence entry point of CorrC08 (CPower cases). *)
From Verif Require Export CorrC08.
