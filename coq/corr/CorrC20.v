(* CorrC20.v — evaluation entry point for the C20 correspondence: every case carries the
   input and what the implementation returned; run_case recomputes it with the model. *)
From Verif Require Import Bytes Uvarint Keys Codec Crc32c LogRecord Corr.
Open Scope N_scope.

Inductive case :=
| KeyRT (k : bytes) (ts : N) (enc pk : bytes) (pts : N)
| ParseRaw (ik pk : bytes) (pts : N)
| Cmp (a b : bytes) (r : option Z)
| Same (a b : bytes) (r : bool)
| HdrEnc (h : header) (enc : bytes)
| HdrDec (buf : bytes) (r : option (header * Z))
| VsEnc (v : value_struct) (enc : bytes) (size : N)
| VsDec (buf : bytes) (r : option value_struct)
| VpEnc (p : vptr) (enc : bytes)
| VpDec (b : bytes) (r : option vptr)
| VpLess (p o : vptr) (r : bool)
| UvPut (x : N) (enc : bytes) (sz : N)
| UvGet (buf : bytes) (v : N) (n : Z)
(* header.DecodeFrom over a reader with short reads: fields + bytes read, or the error class
   (1 io.EOF, 2 io.ErrUnexpectedEOF, 3 overflow); the model is LogRecord.header_read, which does
   not depend on how the reader chunks its input *)
| HdrFrom (buf : bytes) (r : option (header * Z)) (cls : N).

Definition header_eqb (a b : header) : bool :=
  (h_klen a =? h_klen b) && (h_vlen a =? h_vlen b) && (h_expires a =? h_expires b)
  && (h_meta a =? h_meta b) && (h_umeta a =? h_umeta b).
Definition vs_eqb (a b : value_struct) : bool :=
  (vs_meta a =? vs_meta b) && (vs_umeta a =? vs_umeta b) && (vs_expires a =? vs_expires b)
  && bytes_eqb (vs_value a) (vs_value b).
Definition vptr_eqb (a b : vptr) : bool :=
  (vp_fid a =? vp_fid b) && (vp_len a =? vp_len b) && (vp_off a =? vp_off b).

Definition run_case (c : case) : bool * list N :=
  match c with
  | KeyRT k ts enc pk pts =>
      let m := key_with_ts k ts in
      (bytes_eqb m enc && bytes_eqb (parse_key m) pk && (parse_ts m =? pts),
       [if (length k =? 0)%nat then 0 else 1; if 72057594037927936 <=? ts then 2 else 0])
  | ParseRaw ik pk pts =>
      (bytes_eqb (parse_key ik) pk && (parse_ts ik =? pts),
       [if (length ik <? 8)%nat then 3 else if (length ik =? 8)%nat then 4 else 5])
  | Cmp a b r =>
      let m := compare_keys a b in
      (opt_eqb Z.eqb (option_map cmp_to_Z m) r,
       [match m with
        | None => 13
        | Some Eq => 12
        | Some _ => match lex_cmp (dropn_end 8 a) (dropn_end 8 b) with Eq => 11 | _ => 10 end
        end])
  | Same a b r => (Bool.eqb (same_key a b) r, [14 + b2n (same_key a b)])
  | HdrEnc h enc => (bytes_eqb (header_encode h) enc, [20 + N.of_nat (length (header_encode h))])
  | HdrDec buf r =>
      let m := header_decode buf in
      (opt_eqb (pair_eqb header_eqb Z.eqb) m r,
       [match m with None => 50 | Some (_, n) => if (n <? 5)%Z then 51 else 52 end])
  | VsEnc v enc size =>
      (bytes_eqb (vs_encode v) enc && (vs_encoded_size v =? size), [60])
  | VsDec buf r =>
      let m := vs_decode buf in
      (opt_eqb vs_eqb m r, [match m with None => 61 | Some _ => 62 end])
  | VpEnc p enc => (bytes_eqb (vptr_encode p) enc, [70])
  | VpDec b r => (opt_eqb vptr_eqb (vptr_decode b) r, [match vptr_decode b with None => 71 | _ => 72 end])
  | VpLess p o r => (Bool.eqb (vptr_less p o) r, [73 + b2n (vptr_less p o)])
  | UvPut x enc sz =>
      (bytes_eqb (put_uvarint x) enc && (N.of_nat (size_varint x) =? sz),
       [if x <? 128 then 0 else 80 + N.of_nat (length (put_uvarint x))])
  | UvGet buf v n =>
      let m := uvarint buf in
      ((fst m =? v) && (snd m =? n)%Z,
       [if (snd m <? 0)%Z then 91 else if (snd m =? 0)%Z then 92 else 93])
  | HdrFrom buf r cls =>
      match header_read buf with
      | HOk h hlen _ => (opt_eqb (pair_eqb header_eqb Z.eqb) (Some (h, Z.of_nat hlen)) r && (cls =? 0), [95])
      | HEof => (match r with None => true | _ => false end && (cls =? 1), [96])
      | HUnexpected => (match r with None => true | _ => false end && (cls =? 2), [97])
      | HOverflow => (match r with None => true | _ => false end && (cls =? 3), [98])
      end
  end.
