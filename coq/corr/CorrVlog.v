(* CorrVlog.v — evaluation entry point for the value-log half of the C06 correspondence: a
   history of writer calls (each a batch of requests, each a list of entries), the value
   pointers the implementation stored in the memtable and the values it read back through
   Item.ValueCopy; run_case recomputes both with VlogWrite. *)
From Verif Require Import Bytes Uvarint Keys Codec Crc32c LogRecord Consts Corr VlogWrite.
Open Scope N_scope.

Inductive case :=
| VlogHist (file_size max_entries threshold : N)
           (calls : list (list (list entry)))
           (ptrs : list (list (list vptr)))
           (vals : list (list (list (option bytes)))).

(* large values are written as a pattern both sides compute: byte i = (a + i * b) mod 256 *)
Fixpoint pat_f (n : nat) (x b : N) : bytes :=
  match n with O => [] | S m => (x mod 256) :: pat_f m (x + b) b end.
Definition pat (a b n : N) : bytes := pat_f (N.to_nat n) a b.

Definition hdr0 (f : N) : bytes := repeat 0 20.
Definition iv0 (f : N) : bytes := [].

Definition vptr_eqb (a b : vptr) : bool :=
  (vp_fid a =? vp_fid b) && (vp_len a =? vp_len b) && (vp_off a =? vp_off b).

Fixpoint map2 {A B C} (f : A -> B -> C) (a : list A) (b : list B) : list C :=
  match a, b with
  | x :: a', y :: b' => f x y :: map2 f a' b'
  | _, _ => []
  end.

Definition run_case (c : case) : bool * list N :=
  match c with
  | VlogHist fs me thr calls ptrs vals =>
      (* e.skipVlogAndSetThreshold with a static threshold: len(e.Value) < threshold *)
      let dec := map (map (map (fun e => (e, N.of_nat (length (e_value e)) <? thr)))) calls in
      let '(st, psss) := write_calls false xs_id iv0 hdr0 fs me (vlog_init hdr0) dec in
      let okp := list_eqb (list_eqb (list_eqb vptr_eqb)) psss ptrs in
      let mv := map2 (map2 (map2 (fun x p => item_value false xs_id iv0 st (lsm_value (fst x) (snd x) p)))) dec psss in
      let okv := list_eqb (list_eqb (list_eqb (opt_eqb bytes_eqb))) mv vals in
      let nreq := fold_left (fun a cl => N.max a (N.of_nat (length cl))) calls 0 in
      (okp && okv,
       [100 + N.min (vl_max st) 9; 110 + N.min nreq 5;
        120 + b2n (existsb (existsb (existsb (fun x => negb (snd x)))) dec)])
  end.
