(* CorrC37.v — correspondence entry point for C37: one history replayed by the model of the
   mode it was run in (two cases per generated history: on-disk run, in-memory run).
   `Vol`: a volume history (more data than one memtable holds) replayed by B/MemRoom.v: the
   model decides from its own byte counters where ensureRoomForWrite rotates the memtable and
   is compared with what the implementation did at every commit. *)
From Verif Require Import Bytes Keys Consts Spec Lsm Compact Iter Sys SysMode MemRoom Corr.
From Verif Require CorrSys.
Open Scope N_scope.

Inductive case :=
| HistM (inmem : bool) (thr : N) (managed detect : bool) (nkeep nlevels next : N) (ops : list xop)
(* consts = (skl.MaxNodeSize, maxBatchSize, maxBatchCount, arenaSize(opt)) as reported by the
   implementation; died = the process running the history exited before the history ended *)
| Vol (inmem : bool) (thr mts : N) (managed detect : bool) (nkeep nlevels next : N)
      (consts : N * N * N * N) (died : bool) (ops : list vop).

(* values of volume histories are written run-length compressed: hr "prefix" byte n =
   hx "prefix" followed by n times byte *)
From Coq Require Import String.
Definition hr (s : string) (b n : N) : bytes := (hx s ++ repeat b (N.to_nat n))%list.

Definition xop_tags (c : mcfg) (o : xop) : list N :=
  match o with
  | Base (Modify t e r) =>
      CorrSys.op_tags (Modify t e r)
      ++ [if r =? c_errTooBig then 220 else 0;
          if mc_thr c <=? vlen e then (if mc_inmem c then 221 else 230) else 0]
  | Base b => CorrSys.op_tags b
  | DropAll => [210]
  | Files s m v => [if mc_inmem c then 0 else 211; (match s with [] => 0 | _ => 212 end)]
  end.

(* tags of a VCommit label, computed in its pre-state: 300 no rotation, 301 rotation because the
   skiplist is full, 302 rotation because only the WAL is full, 303 a key@version that is
   already in the memtable (setValue), 304 nothing to write, 305 a value pointer is stored *)
Definition vop_tags (c : rcfg) (r : room) (o : vop) : list N :=
  match o with
  | VX (Base (Flush _)) => [match l_mt (s_db (m_sys (r_m r))) with [] => 0 | _ => 306 end]
  | VX DropAll => [210; 307]
  | VX o' => xop_tags (rc_m c) o'
  | VCommit t cts res rot hs _ _ =>
      let s := m_sys (r_m r) in
      let es := commit_applies s t cts in
      match es with
      | [] => [304; if res =? 0 then 40 else 41]
      | _ =>
        [if is_full c (r_sl r) (r_wal r) then (if rc_mts c <=? r_sl r then 301 else 302) else 300;
         (match rot with
          | None => if existsb (mt_has (l_mt (s_db s))) es then 303 else 0
          | Some _ => 0 end);
         if existsb (is_vlog (rc_m c)) es then 305 else 0; 40]
      end
  end.

Fixpoint vtags (c : rcfg) (r : room) (ops : list vop) (acc : list N) : list N :=
  match ops with
  | [] => acc
  | o :: rest =>
      let acc' := CorrSys.dedup (vop_tags c r o) acc in
      match vstep c r o with
      | VOk r' => vtags c r' rest acc'
      | _ => acc'
      end
  end.

Definition run_case (c : case) : bool * list N :=
  match c with
  | Vol inmem thr mts managed detect nkeep nlevels next consts died ops =>
      let cf := mkRC (mkMC inmem thr) mts in
      let r0 := init_room cf managed detect nkeep (N.to_nat nlevels) next in
      let '(mns, mbs, mbc, asz) := consts in
      if negb ((mns =? c_maxNodeSize) && (mbs =? max_batch_size mts) && (mbc =? max_batch_count mts)
               && (asz =? arena_size mts)) then (false, [100000 + 57])
      else
      let '(bad, r) := vexec cf r0 ops 0 in
      match bad with
      | None =>
          if died then (false, [100000 + 997])      (* the implementation died; the model goes on *)
          else
          let ev_ok := if inmem then (match m_ev (r_m r) with [] => true | _ => false end) else true in
          (ev_ok, CorrSys.dedup ((if inmem then 201 else 200) :: 310 + N.min (r_rot r) 3 :: vtags cf r0 ops []) [])
      | Some (i, code) => (false, [1000 + i; 100000 + code])
      end
  | HistM inmem thr managed detect nkeep nlevels next ops =>
      let cf := mkMC inmem thr in
      let '(bad, m) := mexec cf (init_msys cf managed detect nkeep (N.to_nat nlevels) next) ops 0 in
      match bad with
      | None =>
          (* the in-memory model's event list stays empty (C37_no_events, re-evaluated) *)
          let ev_ok := if inmem then (match m_ev m with [] => true | _ => false end) else true in
          (ev_ok, CorrSys.dedup ((if inmem then 201 else 200)
                                 :: (if existsb (fun e => match e with Unlink _ => true | _ => false end) (m_ev m) then 240 else 0)
                                 :: flat_map (xop_tags cf) ops) [])
      | Some (i, code) => (false, [1000 + i; 100000 + code])
      end
  end.
