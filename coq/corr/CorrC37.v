(* CorrC37.v — correspondence entry point for C37: one history replayed by the model of the
   mode it was run in (two cases per generated history: on-disk run, in-memory run). *)
From Verif Require Import Bytes Keys Consts Spec Lsm Compact Iter Sys SysMode Corr.
From Verif Require CorrSys.
Open Scope N_scope.

Inductive case :=
| HistM (inmem : bool) (thr : N) (managed detect : bool) (nkeep nlevels next : N) (ops : list xop).

Definition xop_tags (c : mcfg) (o : xop) : list N :=
  match o with
  | Base (Modify t e r) =>
      CorrSys.op_tags (Modify t e r)
      ++ [if r =? c_errTooBig then 220 else 0;
          if mc_thr c <=? vlen e then (if mc_inmem c then 221 else 230) else 0]
  | Base b => CorrSys.op_tags b
  | DropAll => [210]
  | Files s m v => [if mc_inmem c then 0 else 211; (match s with [] => 0 | _ => 212 end)]
  end.

Definition run_case (c : case) : bool * list N :=
  match c with
  | HistM inmem thr managed detect nkeep nlevels next ops =>
      let cf := mkMC inmem thr in
      let '(bad, m) := mexec cf (init_msys cf managed detect nkeep (N.to_nat nlevels) next) ops 0 in
      match bad with
      | None =>
          (* the in-memory model's event list stays empty (C37_no_events, re-evaluated) *)
          let ev_ok := if inmem then (match m_ev m with [] => true | _ => false end) else true in
          (ev_ok, CorrSys.dedup ((if inmem then 201 else 200)
                                 :: (if existsb (fun e => match e with Unlink _ => true | _ => false end) (m_ev m) then 240 else 0)
                                 :: flat_map (xop_tags cf) ops) [])
      | Some (i, code) => (false, [1000 + i; 100000 + code])
      end
  end.
