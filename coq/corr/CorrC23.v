(* CorrC23.v — correspondence entry point for C23 (encryption at rest).
   The cipher is instantiated by the key streams captured from the implementation
   (y.XORBlock on zero bytes for the same key and IV); CRC and table checksum values are taken
   from the implementation (their computation is the subject of C16 / C18). *)
From Verif Require Import Bytes Uvarint Codec Keys Consts Spec Lsm Compact Iter Sys SysMode Encrypt Corr.
From Verif Require CorrC37.
Open Scope N_scope.

(* key-stream table: (key, iv) -> stream *)
Definition ks_table := list (bytes * bytes * bytes).
Fixpoint stream_of (t : ks_table) (k iv : bytes) : bytes :=
  match t with
  | [] => []
  | (k', iv', s) :: r => if bytes_eqb k k' && bytes_eqb iv iv' then s else stream_of r k iv
  end.
Definition enc_of (t : ks_table) := enc_ks (stream_of t).

Fixpoint assoc_n (t : list (bytes * N)) (d : bytes) : N :=
  match t with [] => 0 | (x, c) :: r => if bytes_eqb x d then c else assoc_n r d end.

Definition opt_bytes_eqb := opt_eqb bytes_eqb.
Definition hdr_eqb (a b : header) : bool :=
  (h_klen a =? h_klen b) && (h_vlen a =? h_vlen b) && (h_expires a =? h_expires b)
  && (h_meta a =? h_meta b) && (h_umeta a =? h_umeta b).
Definition read_ok (r : option (header * bytes * bytes)) (e : lentry) : bool :=
  match r with
  | Some (h, k, v) => hdr_eqb h (le_header e) && bytes_eqb k (le_key e) && bytes_eqb v (le_val e)
  | None => false
  end.

Definition dk_eqb (a b : datakey) : bool :=
  (dk_id a =? dk_id b) && bytes_eqb (dk_data a) (dk_data b) && bytes_eqb (dk_iv a) (dk_iv b)
  && (dk_created a =? dk_created b).

Inductive case :=
(* logFile.encodeEntry output `rec` for entry e at offset off; the implementation's decodeEntry
   returned (dkey, dval) *)
| LogRec (dk : option bytes) (ks : ks_table) (biv : bytes) (off : N) (e : lentry) (crcv : N)
         (rec : bytes) (dkey dval : bytes)
(* a table file: per block and for the index (decrypted bytes, IV); checksum bytes; file image *)
| TblFile (dk : option bytes) (ks : ks_table) (blocks : list (bytes * bytes)) (index : bytes * bytes)
          (cks : bytes) (raws : list bytes) (file : bytes)
(* a KEYREGISTRY file: master key, IV, data keys in file order (plain data) with the CRC of
   their stored protobuf, the file; `wrong`: another master key the implementation rejected *)
| Registry (master : option bytes) (ks : ks_table) (iv : bytes) (dks : list datakey) (crcs : list (bytes * N))
           (file : bytes) (wrong : option bytes)
| HistE (c : CorrC37.case).

Definition parse_of (master : option bytes) (enc : bytes -> bytes -> bytes -> bytes) (dks : list datakey) (d : bytes) : option datakey :=
  find (fun x => bytes_eqb (pb_datakey x) d)
       (map (fun x => mkDK (dk_id x) (wrap enc master (dk_iv x) (dk_data x)) (dk_iv x) (dk_created x)) dks).

Definition run_case (c : case) : bool * list N :=
  match c with
  | LogRec dk ks biv off e crcv rec dkey dval =>
      let enc := enc_of ks in
      let crc := fun _ : bytes => crcv in
      let m := log_record enc crc dk biv off e in
      (bytes_eqb m rec
       && read_ok (log_read_tail enc dk biv off rec) e
       && read_ok (log_read_exact enc dk biv off (rec ++ [0; 0; 0])) e
       && bytes_eqb dkey (le_key e) && bytes_eqb dval (le_val e),
       [match dk with Some _ => 301 | None => 300 end;
        (match le_val e with [] => 302 | _ => 0 end);
        (if 16 <? blen (le_key e) + blen (le_val e) then 303 else 0);
        (if 4294967040 <? off then 304 else 0)])
  | TblFile dk ks blocks index cks raws file =>
      let enc := enc_of ks in
      let ivs := map snd blocks ++ [snd index] in
      let supply := fun n : N => nth (N.to_nat n) ivs [] in
      let m := table_file enc (fun _ => cks) supply dk 0 (map fst blocks) (fst index) in
      (bytes_eqb m file
       && list_eqb bytes_eqb (map (unseal enc dk) raws) (map fst blocks ++ [fst index]),
       [match dk with Some _ => 311 | None => 310 end;
        (if (1 <? length blocks)%nat then 312 else 0)])
  | Registry master ks iv dks crcs file wrong =>
      let enc := enc_of ks in
      let crc := assoc_n crcs in
      let m := registry_file enc crc pb_datakey master iv dks in
      let rd := read_registry enc crc (parse_of master enc dks) master file in
      (bytes_eqb m file
       && (match rd with KrOk l => list_eqb dk_eqb l dks | _ => false end)
       && (match wrong with
           | Some w => match read_registry enc crc (parse_of master enc dks) (Some w) file with
                       | KrKeyMismatch => true | _ => false end
           | None => true
           end),
       [match master with Some _ => 321 | None => 320 end;
        (match dks with [] => 0 | [_] => 322 | _ => 323 end);
        (match wrong with Some _ => 324 | None => 0 end)])
  | HistE c' => CorrC37.run_case c'
  end.
