(* CorrC17.v — evaluation entry point for the C17 / C09(MANIFEST) correspondence.
   Every case carries the input and what /repo's manifest.go returned (through
   /repo/verif_export_manifest.go); run_case recomputes it with A/Manifest.v. *)
From Verif Require Import Bytes Uvarint Consts Crc32cM Manifest Corr.
Open Scope N_scope.

(* canonical projection of a Manifest (VerifManifestState) *)
Record mobs := mkObs {
  o_tables : list (N * (N * (N * N)));   (* id, level, key id, compression — ascending id *)
  o_levels : list (list N);              (* per level: ascending ids *)
  o_cre : Z;
  o_del : Z
}.

Inductive robs := RoErr (code : N) | RoOk (m : mobs) (off : N).

Inductive case :=
| Crc (b : bytes) (r : N)
| Marshal (cs : list change) (enc : bytes)
| Unmarshal (b : bytes) (r : option (list change))
| Replay (ext : N) (file : bytes) (r : robs)
| Run (thr : Z) (ext : N) (steps : list (step * N)) (file : bytes) (live : mobs).

Definition obs_of (m : manifest) : mobs :=
  mkObs (map (fun kv => (fst kv, (tm_level (snd kv), (tm_keyid (snd kv), tm_comp (snd kv))))) (m_tables m))
        (map (@skeys unit) (m_levels m)) (m_creations m) (m_deletions m).

Definition quad_eqb (a b : N * (N * (N * N))) : bool :=
  let '(a1, (a2, (a3, a4))) := a in let '(b1, (b2, (b3, b4))) := b in
  (a1 =? b1) && (a2 =? b2) && (a3 =? b3) && (a4 =? b4).

Definition mobs_eqb (a b : mobs) : bool :=
  list_eqb quad_eqb (o_tables a) (o_tables b)
  && list_eqb (list_eqb N.eqb) (o_levels a) (o_levels b)
  && (o_cre a =? o_cre b)%Z && (o_del a =? o_del b)%Z.

Definition change_eqb (a b : change) : bool :=
  (c_id a =? c_id b) && (c_op a =? c_op b) && (c_level a =? c_level b)
  && (c_keyid a =? c_keyid b) && (c_enc a =? c_enc b) && (c_comp a =? c_comp b).

Definition aerr_code (e : aerr) : N := match e with AExists _ => 7 | ABadOp => 8 end.
Definition rerr_code (e : rerr) : N :=
  match e with
  | EBadMagic => 1 | EVersion => 2 | EExtMagic => 3 | ELenGtSize => 4 | EBadChecksum => 5
  | EUnmarshal => 6 | EUnsupported => 0 | EApply a => aerr_code a
  end.

Definition outcome_code (o : outcome) : N :=
  match o with
  | ORejected (AExists _) => 1 | ORejected ABadOp => 2 | OAppended => 3 | ORewrote => 4
  | OReopened _ => 5 | OReopenFailed _ => 6 | OPanic => 7
  end.

(* ---- branch tags ---- *)
Definition change_tags (m : manifest) (c : change) : list N :=
  (if 256 <=? c_level c then [35] else []) ++
  (if c_op c =? 0 then match sfind (c_id c) (m_tables m) with Some _ => [31] | None => [30] end
   else if c_op c =? 1 then match sfind (c_id c) (m_tables m) with Some _ => [32] | None => [33] end
   else [34]).

Fixpoint cs_tags (m : manifest) (cs : list change) : list N :=
  match cs with
  | [] => []
  | c :: r => change_tags m c ++ (match apply_change m c with
                                  | (m', None) => cs_tags m' r
                                  | (_, Some _) => []
                                  end)
  end.

Definition step_tags (st : mfile) (s : step) (o : outcome) : list N :=
  (20 + outcome_code o) ::
  match s with
  | SReopen => []
  | STear _ zero => [if zero then 59 else 58]
  | SAdd cs ord =>
      (match cs with [] => [38] | _ => [] end) ++ cs_tags (mf_man st) cs ++
      (match o with
       | ORewrote => [if ord_ok ord (m_tables (fst (apply_changeset (mf_man st) cs))) then 36 else 37]
       | _ => []
       end)
  end.

Fixpoint run_obs (cfg : mcfg) (st : mfile) (steps : list (step * N)) : mfile * bool * list N :=
  match steps with
  | [] => (st, true, [])
  | (s, code) :: r =>
      let '(st', o) := do_step cfg st s in
      let '(st'', ok, tags) := run_obs cfg st' r in
      (st'', (outcome_code o =? code) && ok, step_tags st s o ++ tags)
  end.

Fixpoint count_records (fuel : nat) (b : bytes) : nat :=
  match fuel with
  | O => O
  | S f => if (length b <? 8)%nat then O
           else let len := N.to_nat (be_dec (firstn 4 b)) in
                if (length b - 8 <? len)%nat then O else S (count_records f (skipn (8 + len) b))
  end.

Definition replay_tags (file : bytes) (r : rres) : list N :=
  match r with
  | RErr e => [40 + rerr_code e]
  | ROk _ off =>
      let rest := (length file - N.to_nat off)%nat in
      [if (rest =? 0)%nat then 50 else if (rest <? 8)%nat then 51 else 52;
       if (2 <? count_records (length file) (skipn 8 file))%nat then 53 else 0]
  end.

Definition run_case (c : case) : bool * list N :=
  match c with
  | Crc b r => (crc32c_m b =? r, [65])
  | Marshal cs enc =>
      (bytes_eqb (pb_changeset cs) enc,
       [63; if forallb (fun c => (c_op c <? two31) && (c_enc c <? two31)) cs then 0 else 64])
  | Unmarshal b r =>
      match pb_dec_changeset b with
      | DUnsup => (true, [0])
      | DErr => (match r with None => true | Some _ => false end, [62])
      | DOk cs => (opt_eqb (list_eqb change_eqb) (Some cs) r,
                   [if bytes_eqb (pb_changeset cs) b then 60 else 61])
      end
  | Replay ext file r =>
      let m := replay ext file in
      match m with
      | RErr EUnsupported => (true, [0])
      | RErr e => (match r with RoErr code => code =? rerr_code e | _ => false end, replay_tags file m)
      | ROk mm off =>
          (match r with RoOk o off' => mobs_eqb (obs_of mm) o && (off =? off') | _ => false end,
           replay_tags file m)
      end
  | Run thr ext steps file live =>
      let cfg := cfg_current thr ext in
      let '(st, ok, tags) := run_obs cfg (mf_create cfg) steps in
      (ok && bytes_eqb (mf_bytes st) file && mobs_eqb (obs_of (mf_man st)) live, tags)
  end.
