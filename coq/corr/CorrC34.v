(* CorrC34.v — correspondence entry point for C34.
   WmSeq: a sequence of API calls on one real y.WaterMark issued from one goroutine; after every
   call the harness waits until the process goroutine has handled everything (barrier mark) and
   records DoneUntil(), LastIndex() and which waiters have been released.  The model runs the
   same calls with wm_apply and `quiesce` (LProcess until the channel is empty).
   fin = 0: all calls ran; 1: the program died (log.Fatalf) in the call after the last
   observation; 2: the process goroutine never came back (endless notify loop). *)
From Verif Require Import Bytes Corr Watermark OracleWm.
Open Scope N_scope.

Inductive op :=
| OBegin (i : N) | ODone (i : N) | OBeginMany (l : list N) | ODoneMany (l : list N)
| OSetDU (v : N)
| OWait (i w : N)        (* real WaitForMark in its own goroutine *)
| OWaitSlow (i w : N).   (* the waiter mark sent without the fast-path check (hook) *)

(* OrcSeq: calls on a stand-alone real oracle (hooks in /repo/verif_export_oracle.go), one at a
   time, observations at quiescence: nextTs, txnMark.DoneUntil, readMark.DoneUntil, the readTs
   calls that have returned (with their values), the commit ts just assigned (0 if none). *)
Inductive oop := OR | OC (t : nat) | OA (t : nat) | OD (t : nat).

Inductive case :=
| WmSeq (ops : list op) (obs : list (N * N * list N)) (fin : N)
| OrcSeq (n0 : N) (ops : list oop) (obs : list (N * N * N * list (N * N) * N)).

Fixpoint insert_sorted (x : N) (l : list N) : list N :=
  match l with
  | [] => [x]
  | y :: t => if x <=? y then x :: l else y :: insert_sorted x t
  end.
Definition sort_n (l : list N) : list N := fold_right insert_sorted [] l.

Definition op_label (o : op) : label :=
  match o with
  | OBegin i => LBegin i | ODone i => LDone i
  | OBeginMany l => LBeginMany l | ODoneMany l => LDoneMany l
  | OSetDU v => LSetDoneUntil v
  | OWait i w | OWaitSlow i w => LWait i w
  end.

(* one call followed by quiescence; fast = waiters that returned on the fast path *)
Definition step_op (o : op) (sf : wm * list N) : wm * list N :=
  let '(s, fast) := sf in
  match o with
  | OWait i w =>
      let '(s', f) := wait_for_mark i w s in
      (quiesce s', if f then w :: fast else fast)
  | _ => (quiesce (wm_apply (op_label o) s), fast)
  end.

Definition observe (sf : wm * list N) : N * N * list N :=
  let '(s, fast) := sf in
  (done_until (ps s), last_index s, sort_n (fast ++ closed (ps s))).

(* run until the process goroutine is no longer running *)
Fixpoint run_ops (ops : list op) (sf : wm * list N) : list (N * N * list N) * N :=
  match ops with
  | [] => ([], Running)
  | o :: r =>
      let sf' := step_op o sf in
      if st (ps (fst sf')) =? Running then
        let '(l, fin) := run_ops r sf' in (observe sf' :: l, fin)
      else ([], st (ps (fst sf')))
  end.

Definition obs_eqb (a b : N * N * list N) : bool :=
  (fst (fst a) =? fst (fst b)) && (snd (fst a) =? snd (fst b)) && list_eqb N.eqb (snd a) (snd b).

(* ---- branch tags (evidence only) ---- *)
Definition ev_tags (e : ev) (p : pstate) : list N :=
  if negb (st p =? Running) then [] else
  match e with
  | EW i w =>
      [if i <=? done_until p then 10
       else match mget i (waiters p) with None => 11 | Some _ => 12 end]
  | EB i | ED i =>
      let d := match e with ED _ => true | _ => false end in
      let p' := process_one i d p in
      [match mget i (pending p) with None => 1 | Some _ => 2 end;
       if d then 3 else 0;
       if (pend0 i (pending p) + (if d then -1 else 1) <? 0)%Z then 6 else 0;
       if st p' =? Fatal then 4 else if st p' =? Hung then 15 else 0;
       if (length (heap p') <? length (heap p))%nat then 5
       else if (length (heap p') =? length (heap p))%nat && negb (done_until p' =? done_until p) then 5
       else 0;
       if (done_until p' =? done_until p) && (st p' =? Running) && match mget i (pending p') with Some _ => false | None => true end then 18 else 0;
       if (st p' =? Running) && negb (u64_sub (done_until p') (done_until p) <=? N.of_nat (length (waiters p)))
       then (if (length (closed p) <? length (closed p'))%nat then 9 else 8) else 0;
       if (st p' =? Running) && (u64_sub (done_until p') (done_until p) <=? N.of_nat (length (waiters p)))
          && (length (closed p) <? length (closed p'))%nat then 7 else 0;
       if (done_until p' <? done_until p) then 19 else 0]
  end.

Fixpoint evs_tags (es : list ev) (p : pstate) : list N :=
  match es with
  | [] => []
  | e :: r => ev_tags e p ++ evs_tags r (process_ev e p)
  end.

Definition op_tags (o : op) (sf : wm * list N) : list N :=
  let s := fst sf in
  match o with
  | OWait i w => if i <=? done_until (ps s) then [13] else evs_tags [EW i w] (ps s)
  | OSetDU v => [if v <? done_until (ps s) then 21 else 20]
  | _ =>
      (if caller_panics (op_label o) then [14] else []) ++
      match label_mark (op_label o) with
      | None => []
      | Some m =>
          (if (m_index m =? 0) && negb (length (m_indices m) =? 0)%nat then [16] else []) ++
          (if (m_index m =? 0) && (length (m_indices m) =? 0)%nat && m_done m then [17] else []) ++
          evs_tags (mark_events m) (ps s)
      end
  end.

Fixpoint run_tags (ops : list op) (sf : wm * list N) : list N :=
  match ops with
  | [] => []
  | o :: r =>
      let sf' := step_op o sf in
      op_tags o sf ++ (if st (ps (fst sf')) =? Running then run_tags r sf' else [])
  end.

Definition dedup_tags (l : list N) : list N :=
  fold_right (fun x acc => if existsb (N.eqb x) acc then acc else x :: acc) [] l.

(* ---- oracle schedules ---- *)
Definition wake_all (s : orc) : orc :=
  fold_left (fun s t => orc_apply (OWake t) s) (seq 0 (length (txns s))) s.

Definition ostep (o : oop) (s : orc) : orc :=
  match o with
  | OR =>
      let t := length (txns s) in
      (* readTs: locked section, then WaitForMark: fast path if possible, else send the waiter *)
      let s3 := orc_apply (OWaitSend t) (orc_apply (OFast t) (orc_apply OBeginRead s)) in
      wake_all (orc_quiesce s3)
  | OC t => wake_all (orc_quiesce (orc_apply (OCommit t) s))
  | OA t => wake_all (orc_quiesce (orc_apply (OAck t) s))
  | OD t => wake_all (orc_quiesce (orc_apply (ODoneRead t) s))
  end.

Fixpoint returned_from (t : nat) (l : list txn) : list (N * N) :=
  match l with
  | [] => []
  | x :: r => (if 2 <=? t_phase x then [(N.of_nat t, t_read_ts x)] else []) ++ returned_from (S t) r
  end.

Definition oobserve (o : oop) (s : orc) : N * N * N * list (N * N) * N :=
  (next_ts s, done_until (ps (txn_mark s)), done_until (ps (read_mark s)),
   returned_from 0 (txns s),
   match o with
   | OC t => match nth_error (txns s) t with Some x => t_commit_ts x | None => 0 end
   | _ => 0
   end).

Fixpoint orun (ops : list oop) (s : orc) : list (N * N * N * list (N * N) * N) :=
  match ops with
  | [] => []
  | o :: r => let s' := ostep o s in oobserve o s' :: orun r s'
  end.

Definition oobs_eqb (a b : N * N * N * list (N * N) * N) : bool :=
  let '(a1, a2, a3, a4, a5) := a in
  let '(b1, b2, b3, b4, b5) := b in
  (a1 =? b1) && (a2 =? b2) && (a3 =? b3) && list_eqb (pair_eqb N.eqb N.eqb) a4 b4 && (a5 =? b5).

Definition otag (o : oop) (s : orc) : list N :=
  let s' := ostep o s in
  match o with
  | OR => let t := length (txns s) in
          [match nth_error (txns s') t with
           | Some x => if t_phase x =? 1 then 31 else
                       if next_ts s - 1 <=? done_until (ps (txn_mark s)) then 30 else 32
           | None => 0 end]
  | OC t => [if next_ts s' =? next_ts s then 0 else 33;
             match nth_error (txns s) t with Some x => if t_done_read x then 34 else 35 | None => 0 end]
  | OA t => [if (length (returned_from 0 (txns s)) <? length (returned_from 0 (txns s')))%nat then 37
             else if done_until (ps (txn_mark s)) <? done_until (ps (txn_mark s')) then 36 else 38]
  | OD t => [if done_until (ps (read_mark s)) <? done_until (ps (read_mark s')) then 39
             else if (length (g_read s) <? length (g_read s'))%nat then 40 else 41]
  end.

Fixpoint otags (ops : list oop) (s : orc) : list N :=
  match ops with
  | [] => []
  | o :: r => otag o s ++ otags r (ostep o s)
  end.

Definition run_case (c : case) : bool * list N :=
  match c with
  | WmSeq ops obs fin =>
      let '(mobs, mfin) := run_ops ops (wm_init 0, []) in
      (list_eqb obs_eqb mobs obs && (mfin =? fin),
       dedup_tags (run_tags ops (wm_init 0, [])))
  | OrcSeq n0 ops obs =>
      let s0 := orc_quiesce (orc_init n0) in
      (list_eqb oobs_eqb (orun ops s0) obs, dedup_tags (otags ops s0))
  end.
