(* CorrC18.v — evaluation entry point for the C18 correspondence.  A case carries the entries
   given to table.Builder, the table options that matter to the model (BlockSize, encryption
   on/off), what the real table contained / returned, and run_case recomputes all of it. *)
From Coq Require Export Uint63.
From Verif Require Import Bytes Uvarint Keys Codec Block Table Corr.
Open Scope N_scope.

(* compact byte strings in case files: ib n l = the first n bytes of the 7-byte little-endian
   expansions of the primitive integers in l (primitive literals parse ~70x faster than strings) *)
Definition b7 (x : int) : bytes :=
  let z := Z.to_N (Uint63.to_Z x) in
  [N.land z 255; N.land (N.shiftr z 8) 255; N.land (N.shiftr z 16) 255; N.land (N.shiftr z 24) 255;
   N.land (N.shiftr z 32) 255; N.land (N.shiftr z 40) 255; N.land (N.shiftr z 48) 255].
Definition ib (n : N) (l : list int) : bytes := firstn (N.to_nat n) (flat_map b7 l).

(* compact byte strings in case files: rp n b = n copies of byte b (long keys) *)
Definition rp (n b : N) : bytes := repeat b (N.to_nat n).

(* observations refer to the case's entry list where possible (keeps case files small):
   KE i = the key of entry i, VE i = the value of entry i, BE i = the encoded value of entry i *)
Inductive kref := KE (i : N) | KB (b : bytes).
Inductive vref := VN | VE (i : N) | VB (v : value_struct).
Inductive bref := BE (i : N) | BB (b : bytes).
Definition vs_eqb (a b : value_struct) : bool :=
  (vs_meta a =? vs_meta b) && (vs_umeta a =? vs_umeta b) && (vs_expires a =? vs_expires b)
  && bytes_eqb (vs_value a) (vs_value b).
Definition nth_kv (es : list kv) (i : N) : kv := nth (N.to_nat i) es ([], mkVS 0 0 0 []).
Definition kref_eqb (es : list kv) (k : bytes) (r : kref) : bool :=
  match r with KE i => bytes_eqb k (fst (nth_kv es i)) | KB b => bytes_eqb k b end.
Definition vref_eqb (es : list kv) (v : option value_struct) (r : vref) : bool :=
  match r, v with
  | VN, None => true
  | VE i, Some x => vs_eqb x (snd (nth_kv es i))
  | VB y, Some x => vs_eqb x y
  | _, _ => false
  end.
Definition bref_eqb (es : list kv) (b : bytes) (r : bref) : bool :=
  match r with BE i => bytes_eqb b (vs_encode (snd (nth_kv es i))) | BB y => bytes_eqb b y end.

(* --- block-iterator scripts --- *)
Inductive bop := BSet (i : Z) | BSeek (k : bytes) (cur : bool) | BNext | BPrev | BFirst | BLast.
(* idx, eof, key, val, baseKey, prevOverlap *)
Definition bobs := (Z * bool * bytes * bytes * bytes * N)%type.
Definition bobs_r := (Z * bool * kref * bref * kref * N)%type.

Definition b_step (it : biter) (o : bop) : option biter :=
  match o with
  | BSet i => set_idx it i
  | BSeek k c => bi_seek it k c
  | BNext => bi_next it
  | BPrev => bi_prev_ it
  | BFirst => bi_first it
  | BLast => bi_last it
  end.
Definition b_obs (it : biter) : bobs :=
  (bi_idx it, bi_eof it, bi_key it, bi_val it, bi_base it, bi_prev it).
Definition bobs_eqb (es : list kv) (a : bobs) (b : bobs_r) : bool :=
  let '(i1, e1, k1, v1, b1, p1) := a in let '(i2, e2, k2, v2, b2, p2) := b in
  (i1 =? i2)%Z && Bool.eqb e1 e2 && kref_eqb es k1 k2 && bref_eqb es v1 v2 && kref_eqb es b1 b2 && (p1 =? p2).

(* a script runs until the first panic: observations are Some after each op, None = panicked (last) *)
Fixpoint run_script {S O} (step : S -> O -> option S) (s : S) (ops : list O) : list (option S) :=
  match ops with
  | [] => []
  | o :: r => match step s o with
              | None => [None]
              | Some s' => Some s' :: run_script step s' r
              end
  end.

(* --- table-iterator scripts --- *)
Inductive top :=
| TRewind | TSeek (k : bytes) | TNext                                  (* y.Iterator interface *)
| TnextI | TprevI | TfirstI | TlastI | TseekI (k : bytes) | TseekPrevI (k : bytes).  (* unexported *)

Definition t_step (rev : bool) (t : table) (it : titer) (o : top) : option titer :=
  match o with
  | TRewind => ti_Rewind rev t it
  | TSeek k => ti_Seek rev t it k
  | TNext => ti_Next rev t it
  | TnextI => ti_next t it
  | TprevI => ti_prev t it
  | TfirstI => ti_seek_to_first t it
  | TlastI => ti_seek_to_last t it
  | TseekI k => ti_seek t it k
  | TseekPrevI k => ti_seek_for_prev t it k
  end.

(* err class, key, value (only read when valid), bpos, bi.idx *)
Definition tobs := (N * bytes * option value_struct * Z * Z)%type.
Definition tobs_r := (N * kref * vref * Z * Z)%type.
Definition t_obs (it : titer) : tobs :=
  (match ti_err it with ENone => 0 | EEOF => 1 | EOther => 2 end, ti_key it,
   if ti_valid it then ti_value it else None, ti_bpos it, bi_idx (ti_bi it)).
Definition tobs_eqb (es : list kv) (a : tobs) (b : tobs_r) : bool :=
  let '(e1, k1, v1, p1, i1) := a in let '(e2, k2, v2, p2, i2) := b in
  (e1 =? e2) && kref_eqb es k1 k2 && vref_eqb es v1 v2 && (p1 =? p2)%Z && (i1 =? i2)%Z.

(* --- concat-iterator scripts --- *)
Inductive cop := CRewind | CSeek (k : bytes) | CNext.
Definition c_step (rev : bool) (ts : list ttable) (s : citer) (o : cop) : option citer :=
  match o with
  | CRewind => ci_Rewind rev ts s
  | CSeek k => ci_Seek rev ts s k
  | CNext => ci_Next rev ts s
  end.
(* valid, key, value (read only when valid), idx *)
Definition cobs := (bool * bytes * option value_struct * Z)%type.
Definition cobs_r := (bool * kref * vref * Z)%type.
Definition c_obs (s : citer) : cobs :=
  if ci_valid s then (true, match ci_key s with Some k => k | None => [] end, ci_value s, ci_idx s)
  else (false, [], None, ci_idx s).
Definition cobs_eqb (es : list kv) (a : cobs) (b : cobs_r) : bool :=
  let '(e1, k1, v1, i1) := a in let '(e2, k2, v2, i2) := b in
  Bool.eqb e1 e2 && kref_eqb es k1 k2 && vref_eqb es v1 v2 && (i1 =? i2)%Z.

(* --- tables --- *)
(* the checksummed payload of a real block: in full, or (to keep case files small) its length and
   Adler-32 (hash/adler32 in the harness) *)
Inductive pref := PFull (b : bytes) | PSum (len sum : N).
Definition adler32 (b : bytes) : N :=
  let '(a, c) := fold_left (fun (st : N * N) x => let a' := (fst st + x) mod 65521 in
                                                  (a', (snd st + a') mod 65521)) b (1, 0) in
  c * 65536 + a.
Definition pref_eqb (b : bytes) (r : pref) : bool :=
  match r with
  | PFull y => bytes_eqb b y
  | PSum len sum => (N.of_nat (length b) =? len) && (adler32 b =? sum)
  end.
(* what the real table showed per block: index key, checksummed payload, checksum bytes *)
Definition rblock := (bytes * pref * bytes)%type.
(* smallest, biggest, MaxVersion, KeyCount *)
Definition rmeta := (bytes * bytes * N * N)%type.

Definition rblock_eqb (b : bblock) (r : rblock) : bool :=
  let '(base, payload, _) := r in bytes_eqb (bb_base b) base && pref_eqb (block_payload b) payload.

(* model: Builder (coded split policy) -> stored blocks -> OpenTable *)
Definition model_table (bs : N) (enc : bool) (es : list kv) (css : option (list bytes))
  : option (list bblock * option ttable) :=
  match build (should_finish_block bs enc) es with
  | None => None
  | Some (bl, maxv, nk) =>
      let css' := match css with Some c => c | None => repeat [] (length bl) end in
      Some (bl, match mk_table bl css' with
                | None => None
                | Some t => open_table t maxv nk
                end)
  end.

Fixpoint list_eqb2 {A B} (eqb : A -> B -> bool) (a : list A) (b : list B) : bool :=
  match a, b with
  | [], [] => true
  | x :: a', y :: b' => eqb x y && list_eqb2 eqb a' b'
  | _, _ => false
  end.

Definition opt_eqb2 {A B} (eqb : A -> B -> bool) (a : option A) (b : option B) : bool :=
  match a, b with
  | None, None => true
  | Some x, Some y => eqb x y
  | _, _ => false
  end.

Definition tspec := (N * bool * list kv)%type.

Inductive case :=
(* one table: build result (None = Builder.Add panicked), open result (None = open panicked),
   iterator scripts (reversed flag, ops, observations) *)
| CTable (sp : tspec) (built : option (list rblock)) (meta : option rmeta)
         (scripts : list (bool * list top * list (option tobs_r)))
(* a single block (BlockSize large): blockIterator scripts *)
| CBlock (es : list kv) (scripts : list (list bop * list (option bobs_r)))
(* ConcatIterator over several tables *)
| CConcat (sps : list tspec) (scripts : list (bool * list cop * list (option cobs_r))).

Definition never : policy := fun _ _ _ => Some false.

Fixpoint all_some {A} (l : list (option A)) : option (list A) :=
  match l with
  | [] => Some []
  | None :: _ => None
  | Some x :: r => match all_some r with None => None | Some r' => Some (x :: r') end
  end.

Definition meta_eqb (t : ttable) (m : rmeta) : bool :=
  let '(s, b, mv, nk) := m in
  bytes_eqb (tt_smallest t) s && bytes_eqb (tt_biggest t) b && (tt_maxv t =? mv) && (tt_nkeys t =? nk).

Definition nblocks_tag (n : nat) : N :=
  match n with O => 100 | S O => 101 | S (S O) => 102 | _ => if (n <? 8)%nat then 103 else 104 end.

Definition tobs_tags (l : list (option titer)) : list N :=
  flat_map (fun o => match o with
                     | None => [110]
                     | Some it => [111 + match ti_err it with ENone => 0 | EEOF => 1 | EOther => 2 end]
                     end) l.

Definition run_case (c : case) : bool * list N :=
  match c with
  | CTable (bs, enc, es) built meta scripts =>
      match model_table bs enc es (option_map (map (fun r => snd r)) built), built with
      | None, None => (true, [120])
      | Some (bl, ot), Some rb =>
          let ok_build := list_eqb2 rblock_eqb bl rb in
          match ot, meta with
          | None, None => (true, [121; nblocks_tag (length bl)])   (* open panicked: blocks unobservable *)
          | Some t, Some m =>
              let rs := map (fun s => let '(rev, ops, obs) := s in
                                      let tr := run_script (t_step rev (tt_blocks t)) ti_zero ops in
                                      (list_eqb2 (opt_eqb2 (tobs_eqb es)) (map (option_map t_obs) tr) obs,
                                       (if rev then 131 else 130) :: tobs_tags tr)) scripts in
              (ok_build && meta_eqb t m && forallb fst rs,
               (if enc then 123 else 122) :: nblocks_tag (length bl) :: flat_map snd rs)
          | _, _ => (false, [199])
          end
      | _, _ => (false, [198])
      end
  | CBlock es scripts =>
      match build never es with
      | Some ([b], _, _) =>
          match parse_block (block_raw (block_payload b) []) with
          | None => (false, [197])
          | Some k =>
              let rs := map (fun s => let '(ops, obs) := s in
                                      let tr := run_script b_step (set_block k) ops in
                                      (list_eqb2 (opt_eqb2 (bobs_eqb es)) (map (option_map b_obs) tr) obs,
                                       flat_map (fun o => match o with
                                                          | None => [140]
                                                          | Some it => [if bi_eof it then 141 else 142]
                                                          end) tr)) scripts in
              (forallb fst rs, 143 :: flat_map snd rs)
          end
      | _ => (false, [196])
      end
  | CConcat sps scripts =>
      match all_some (map (fun sp => let '(bs, enc, es) := sp in
                                     match model_table bs enc es None with
                                     | Some (_, Some t) => Some t
                                     | _ => None
                                     end) sps) with
      | None => (false, [195])
      | Some ts =>
          let rs := map (fun s => let '(rev, ops, obs) := s in
                                  let tr := run_script (c_step rev ts) (ci_new (length ts)) ops in
                                  (list_eqb2 (opt_eqb2 (cobs_eqb (flat_map (fun sp => snd sp) sps))) (map (option_map c_obs) tr) obs,
                                   (if rev then 151 else 150) ::
                                   flat_map (fun o => match o with
                                                      | None => [152]
                                                      | Some s => [if ci_valid s then 153 else 154]
                                                      end) tr)) scripts in
          (forallb fst rs, 155 + N.of_nat (length ts) :: flat_map snd rs)
      end
  end.
