(* CorrC24.v — correspondence entry point of C24: the Stream / Backup / Load cases of CorrC25
   (constructor SCase) plus the KVLoader batching of one DB.Load / one KVLoader run
   (B/Loader.v): from the limits of the target database and the KV sequence (projected to key and
   value lengths, run-length encoded) the model recomputes the batches handed to the write path. *)
From Verif Require Export CorrC25.
From Verif Require Import Bytes Corr CorrSys Loader.
From Coq Require Import ZArith.
Open Scope N_scope.

Inductive case :=
| SCase (c : CorrC25.case)
(* maxc maxs thr: VerifDBLimits of the target; flush: flushThreshold; runs: (count, (len(key)+8,
   len(value))) in stream order.  Observed: sends = requests that passed sendToWriteCh (hook
   sendToWriteCh.beforeSend) during the run, written = the entry counts of the non-empty requests
   the write path processed, in order (hook persist.wal.request-done), states = for a run
   driven through the KVLoader API the loader's (len(entries), entriesSize, totalSize) in front
   of every send (the rejected one included), err = Load / Set / Finish returned ErrTxnTooBig *)
| LoaderRun (maxc maxs flush thr : Z) (runs : list (Z * (Z * Z))) (sends : N) (written : list Z)
            (states : option (list (Z * (Z * Z)))) (err : bool).

Definition triple_eqb (a b : Z * (Z * Z)) : bool :=
  (fst a =? fst b)%Z && (fst (snd a) =? fst (snd b))%Z && (snd (snd a) =? snd (snd b))%Z.

(* branch tags of one run: 500 any; 501 a flush by the count arm; 502 by the size arm; 503 by the
   total-size arm; 504 more than two batches; 505 an empty batch was sent; 506 a batch was
   rejected; 507 size arm exactly at the limit (entriesSize + estimate = maxBatchSize); 508 size
   arm one below the limit did not flush (a batch of size maxBatchSize - 1 was sent); 509 a
   value at or above the value threshold (estimate counts a pointer); 510 last batch (Finish)
   holds exactly maxBatchCount - 1 entries; 511 Finish had nothing to send *)
Section Tags.
  Variables maxc maxs flush thr : Z.
  Let est := kv_est thr.

  Fixpoint flush_tags (bs : list (list (Z * Z))) : list N :=
    match bs with
    | b :: (((x :: _) :: _) as r) =>
        (if (maxc <=? blen b + 1)%Z then [501]
         else if (flush <=? batch_total est kv_vlen b)%Z then [503]
         else if (maxs <=? batch_size est b + est x)%Z
              then (if (maxs =? batch_size est b + est x)%Z then [502; 507] else [502])
              else [])
        ++ (if (batch_size est b =? maxs - 1)%Z then [508] else [])
        ++ flush_tags r
    | b :: r => flush_tags r
    | [] => []
    end.
End Tags.

Definition run_case (c : case) : bool * list N :=
  match c with
  | SCase c' => CorrC25.run_case c'
  | LoaderRun maxc maxs flush thr runs sends written states err =>
      let kvs := expand_runs runs in
      let '(bs, rej) := kv_loader_run maxc maxs flush thr kvs in
      let est := kv_est thr in
      let all := bs ++ match rej with Some b => [b] | None => [] end in
      let tr := fun b => (blen b, (batch_size est b, batch_total est kv_vlen b)) in
      (Bool.eqb (match rej with Some _ => true | None => false end) err
       && (N.of_nat (length bs) =? sends)
       && list_eqb Z.eqb (filter (fun n => 0 <? n)%Z (map blen bs)) written
       && match states with
          | None => true
          | Some sts => list_eqb triple_eqb (map tr all) sts
          end,
       dedup ([500] ++ flush_tags maxc maxs flush thr all
              ++ (if (2 <? length bs)%nat then [504] else [])
              ++ (if existsb (fun b => match b with [] => true | _ => false end) bs then [505] else [])
              ++ (match rej with Some _ => [506] | None => [] end)
              ++ (if existsb (fun kv => (thr <=? snd kv)%Z) kvs then [509] else [])
              ++ (match rej with
                  | None => if (blen (last bs []) =? maxc - 1)%Z then [510] else []
                  | _ => [] end)
              ++ (match kvs with [] => [511] | _ => [] end)) [])
  end.
