(* CorrC24.v — C24 uses the Stream / Backup / Load correspondence of CorrC25. *)
From Verif Require Export CorrC25.
