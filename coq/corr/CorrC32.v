(* CorrC32.v — correspondence entry point for C32: operation sequences on a real trie.Trie,
   parseIgnoreBytes on rendered range lists, and DB-level histories (Subscribe / cancel / commits)
   compared per subscriber with the publisher model. *)
From Verif Require Import Bytes Keys Trie Publisher Corr.
Open Scope N_scope.

Definition ranges := list (nat * option nat).

Inductive tstep :=
| SAdd (prefix : bytes) (rs : ranges) (id : N)
| SDel (prefix : bytes) (rs : ranges) (id : N)
| SGet (key : bytes) (ids : list N)     (* observed Get result, sorted *)
| SNum (n : N).                         (* observed numNodes(root) *)

Inductive pstep_obs :=
| ESub (ms : list (bytes * ranges))
| EUnsub (id : N)
| ECommit (es : list pentry).           (* entries of one request, user keys ascending *)

Inductive case :=
| TrieSeq (steps : list tstep)
| ParseIg (rs : ranges) (out : list bool)
| PubCase (fx : bool) (base : N) (evs : list pstep_obs) (obs : list (N * list kv)).
(* fx = what the implementation does now about finding F13 (true = the trie is queried with the
   user key), detected by the harness by replaying the F13 witness on every run *)

Fixpoint run_tsteps (t : node) (steps : list tstep) : bool * list N :=
  match steps with
  | [] => (true, [])
  | s :: r =>
      match s with
      | SAdd p rs id =>
          let ig := parse_ignore_ranges rs in
          let '(ok, tags) := run_tsteps (add_match t p ig id) r in
          (ok, (if existsb (fun b : bool => b) (firstn (length p) ig) then 11 else 10) :: tags)
      | SDel p rs id =>
          let t' := delete_match t p (parse_ignore_ranges rs) id in
          let '(ok, tags) := run_tsteps t' r in
          (ok, (if (num_nodes t' <? num_nodes t)%nat then 13 else
                if list_eqb N.eqb (get_ids p t') (get_ids p t) then 12 else 14) :: tags)
      | SGet key ids =>
          let m := get key t in
          let '(ok, tags) := run_tsteps t r in
          (list_eqb N.eqb m ids && ok,
           (match m with [] => 20 | [_] => 21 | _ => 22 end) ::
           (if (length m <? length (get_ids key t))%nat then 23 else 0) :: tags)
      | SNum n =>
          let '(ok, tags) := run_tsteps t r in
          ((N.of_nat (num_nodes t) =? n) && ok, 24 :: tags)
      end
  end.

Definition kv_eqb (a b : kv) : bool :=
  bytes_eqb (kv_key a) (kv_key b) && bytes_eqb (kv_val a) (kv_val b) && (kv_umeta a =? kv_umeta b)
  && (kv_expires a =? kv_expires b) && (kv_version a =? kv_version b).

Definition to_pev (e : pstep_obs) : pev :=
  match e with
  | ESub ms => PSub (map (fun m => (fst m, parse_ignore_ranges (snd m))) ms)
  | EUnsub id => PUnsub id
  | ECommit es => PPublish [es]
  end.

Definition is_internal (k : bytes) : bool := is_prefix [33; 98; 97; 100; 103; 101; 114; 33] k.

Definition run_case (c : case) : bool * list N :=
  match c with
  | TrieSeq steps => run_tsteps empty_node steps
  | ParseIg rs out =>
      (list_eqb Bool.eqb (parse_ignore_ranges rs) out,
       [30 + N.of_nat (Nat.min (length rs) 3);
        if existsb (fun r => match snd r with Some e => (e <? fst r)%nat | None => false end) rs then 35 else 0])
  | PubCase fx base evs obs =>
      let p := run_pub fx (mkPub base [] empty_node []) (map to_pev evs) in
      let pfix := run_pub true (mkPub base [] empty_node []) (map to_pev evs) in
      let ok := forallb (fun o => list_eqb kv_eqb (batch_get (fst o) (p_recv p)) (snd o)) obs
                && (length (p_recv p) <=? length obs)%nat in
      let spurious := existsb (fun o => negb (length (batch_get (fst o) (p_recv p)) =?
                                              length (batch_get (fst o) (p_recv pfix)))%nat) obs in
      let marker := existsb (fun o => existsb (fun x => is_internal (kv_key x)) (snd o)) obs in
      (ok, [40; if spurious then 41 else 0; if marker then 42 else 0;
            if existsb (fun e => match e with EUnsub _ => true | _ => false end) evs then 43 else 0;
            if existsb (fun o => existsb (fun x => negb (is_internal (kv_key x)) && negb (is_prefix [0; 0; 83] (kv_key x))) (snd o)) obs then 44 else 45])
  end.
