(* CorrC16.v — correspondence entry point for C16 (and, re-exported, the log part of C09):
   every case carries the input and what the implementation returned (through
   /repo/verif_export_log.go); run_case recomputes it with the model instantiated for an
   unencrypted file (dataKey == nil). *)
From Verif Require Import Bytes Uvarint Keys Codec Corr Crc32c Consts LogRecord LogIter.
Open Scope N_scope.

Definition xs_plain : bytes -> bytes -> bytes := xs_id.
Definition p_encode := encode_entry false xs_plain [].
Definition p_safe_read := safe_read false xs_plain [].
Definition p_decode := decode_entry false xs_plain [].
Definition p_iterate_file := iterate_file false xs_plain [].

Inductive case :=
| Crc (data : bytes) (crc : N)
| Enc (e : entry) (off : N) (enc : bytes) (n : N)
| Rd (buf : bytes) (off : N) (cls : N) (e : entry) (hlen : N)
| Iter (data : bytes) (offset : N) (out : list delivered) (cls : N) (vend : N)
| Dec (buf : bytes) (off : N) (r : option entry)
| PUint (v : bytes) (r : option N).

Definition entry_eqb (a b : entry) : bool :=
  bytes_eqb (e_key a) (e_key b) && bytes_eqb (e_value a) (e_value b) && (e_meta a =? e_meta b)
  && (e_umeta a =? e_umeta b) && (e_expires a =? e_expires b).
Definition del_eqb (a b : delivered) : bool :=
  entry_eqb (d_entry a) (d_entry b) && (d_off a =? d_off b) && (d_len a =? d_len b).

(* classes as in verif_export_log.go: 0 ok 1 EOF 2 ErrUnexpectedEOF 3 errTruncate 4 other 5 panic *)
Definition rd_class (r : rd_result) : N :=
  match r with RdOk _ _ _ => 0 | RdEof => 1 | RdUnexpected => 2 | RdTruncate => 3 | RdErr => 4 | RdPanic => 5 end.

(* branch tags of one iteration (which arm of the loop every record took, why it ended) *)
Fixpoint iter_tags (fuel : nat) (buf : bytes) (off lc : N) : list N :=
  match fuel with
  | O => []
  | S f =>
      match p_safe_read buf off with
      | RdOk e hlen rest =>
          match e_key e with
          | [] => [37]
          | _ =>
              let off' := (off + record_len hlen e) mod two32 in
              if has_bit (e_meta e) c_bitTxn then
                let ts := parse_ts (e_key e) in
                let lc' := if lc =? 0 then ts else lc in
                if negb (lc' =? ts) then [33] else 31 :: iter_tags f rest off' lc'
              else if has_bit (e_meta e) c_bitFinTxn then
                match parse_uint_dec (e_value e) with
                | None => [34]
                | Some ts => if negb (lc =? ts) then [35] else 32 :: iter_tags f rest off' 0
                end
              else if negb (lc =? 0) then [36] else 30 :: iter_tags f rest off' lc
          end
      | r => [20 + rd_class r]
      end
  end.

Fixpoint dedup (l : list N) : list N :=
  match l with
  | [] => []
  | x :: r => if existsb (N.eqb x) r then dedup r else x :: dedup r
  end.

Definition run_case (c : case) : bool * list N :=
  match c with
  | Crc data crc => (crc32c data =? crc, [if (length data <? 4)%nat then 0 else 1])
  | Enc e off enc n =>
      let m := p_encode e off in
      (bytes_eqb m enc && (N.of_nat (length m) =? n), [2])
  | Rd buf off cls e hlen =>
      let m := p_safe_read buf off in
      (match m with
       | RdOk e' hl _ => (cls =? 0) && entry_eqb e e' && (N.of_nat hl =? hlen)
       | r => rd_class r =? cls
       end, [10 + rd_class m])
  | Iter data offset out cls vend =>
      let '(o, oc) := p_iterate_file data offset in
      let off := if offset =? 0 then c_vlogHeaderSize else offset in
      (list_eqb del_eqb o out &&
       match oc with
       | Done ve => (cls =? 0) && (ve =? vend)
       | Err => (cls =? 4) && (vend =? 0)
       | Panic => cls =? 5
       end,
       dedup (iter_tags (S (length data)) (drop_N data off) off 0))
  | Dec buf off r =>
      let m := p_decode buf off in
      (opt_eqb entry_eqb m r, [match m with None => 40 | Some _ => 41 end])
  | PUint v r =>
      let m := parse_uint_dec v in
      (opt_eqb N.eqb m r, [match m with None => 42 | Some _ => 43 end])
  end.
