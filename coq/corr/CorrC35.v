(* CorrC35.v — correspondence entry point for C35: a case is one sequence of Open/Close/Kill
   labels, each with the result class the implementation returned and the pid files the harness
   read afterwards; run_case replays it on Lock.step. *)
From Verif Require Import Bytes Corr Lock.
Open Scope N_scope.

Inductive case :=
| Run (steps : list (label * result * list (N * option N))).

Definition result_eqb (a b : result) : bool :=
  match a, b with
  | ROk x, ROk y => x =? y
  | RLockFail, RLockFail | ROtherFail, ROtherFail | RClosed, RClosed
  | RNoHandle, RNoHandle | RKilled, RKilled => true
  | _, _ => false
  end.

Definition pids_ok (ds : dirs) (obs : list (N * option N)) : bool :=
  forallb (fun o => opt_eqb N.eqb (pidf (ds (fst o))) (snd o)) obs.

Definition is_shared (w : lockw) : bool := match w with Shared _ => true | _ => false end.

(* branch tags: which path of Open / Close / Kill the label took in the model *)
Definition tags_of (s : state) (l : label) (r : result) : list N :=
  match l with
  | Open o =>
      let w := lw (st_dirs s (o_dir o)) in
      (match r with
       | ROk _ =>
           if o_bypass o then 7
           else if o_ro o then (if is_shared w then 11 else 2)
           else if o_same o then 1 else 12
       | RLockFail =>
           match acquire (st_dirs s) (o_proc o) (o_dir o) (o_ro o) with
           | None => if o_ro o then 13 else (if is_shared w then 14 else 3)
           | Some _ => if (o_dir o =? o_vdir o) then 10 else 4
           end
       | ROtherFail =>
           match o_env o with
           | EnvPre => 5
           | _ => if o_bypass o then 15 else if o_same o then 6 else 16
           end
       | _ => 99
       end)
      :: (if negb (o_proc o =? 0) then [20] else [])
  | Close h =>
      match find_handle h (st_handles s) with
      | Some hd => [if h_bypass hd then 17 else if h_ro hd then 9 else 8]
      | None => [99]
      end
  | Kill p => [if existsb (fun ih => h_proc (snd ih) =? p) (st_handles s) then 18 else 0]
  end.

Fixpoint replay (s : state) (steps : list (label * result * list (N * option N))) (i : N)
                (tags : list N) : bool * list N :=
  match steps with
  | [] => (true, tags)
  | (l, r, obs) :: rest =>
      let '(s', r') := step s l in
      if result_eqb r r' && pids_ok (st_dirs s') obs
      then replay s' rest (i + 1) (tags_of s l r' ++ tags)
      else (false, [1000 + i])
  end.

Fixpoint dedup (l : list N) (acc : list N) : list N :=
  match l with
  | [] => acc
  | x :: r => if existsb (N.eqb x) acc then dedup r acc else dedup r (x :: acc)
  end.

Definition run_case (c : case) : bool * list N :=
  match c with
  | Run steps => let '(ok, t) := replay init steps 0 [] in (ok, if ok then dedup t [] else t)
  end.
