(* CorrC26.v — correspondence entry point for stream-writer histories. *)
From Verif Require Import Bytes Keys Consts Spec Lsm Compact Iter Sys Corr Drop StreamWriter.
From Verif Require CorrSys CorrC29 StreamWriterPlace.
Open Scope N_scope.

(* one class of streamed entries of a placement session (harness/swplace.go):
   (number of entries, len(value), thresholds possibly in force at valueLog.write's
   consultation, thresholds in force later until Flush, a value-log record was written, the
   table stores the value inline) *)
Definition pclass := (N * Z * list Z * list Z * bool * bool)%type.

Inductive case :=
| SWHist (managed detect : bool) (nkeep : N) (nlevels : N) (next : N) (ops : list swop)
| SWPlace (dynamic : bool) (classes : list pclass).

(* index of the first class the placement model disagrees on *)
Fixpoint place_run (cs : list pclass) (i : N) (tags : list N) : option N * list N :=
  match cs with
  | [] => (None, tags)
  | (_, vlen, cands, later, vrec, inln) :: r =>
      if StreamWriterPlace.place_agrees vlen cands later vrec inln
      then place_run r (i + 1) (StreamWriterPlace.place_tags vlen cands later inln ++ tags)
      else (Some i, tags)
  end.

Definition swop_tags (o : swop) : list N :=
  match o with
  | SBase x => CorrC29.xop_tags x
  | StreamWrite incr flat writes layouts _ r _ =>
      [520 + N.min 5 (N.of_nat (length writes)); (match flat with [] => 0 | _ => 530 end);
       (if r =? 0 then 0 else 540 + r)]
  | SCompactAny c _ => [60 + N.of_nat (c_this c)]
  end.

Definition run_case (c : case) : bool * list N :=
  match c with
  | SWHist managed detect nkeep nlevels next ops =>
      let '(bad, _, tags) := swexec (init_sys managed detect nkeep (N.to_nat nlevels) next) ops 0 [] in
      match bad with
      | None => (true, CorrSys.dedup (tags ++ flat_map swop_tags ops) [])
      | Some (i, code) => (false, [1000 + i; 100000 + code])
      end
  | SWPlace dynamic classes =>
      match place_run classes 0 [] with
      | (None, tags) => (true, CorrSys.dedup ((if dynamic then 621 else 620) :: tags) [])
      | (Some i, _) => (false, [1000 + i; 100600])
      end
  end.
