(* CorrC26.v — correspondence entry point for stream-writer histories. *)
From Verif Require Import Bytes Keys Consts Spec Lsm Compact Iter Sys Corr Drop StreamWriter.
From Verif Require CorrSys CorrC29.
Open Scope N_scope.

Inductive case :=
| SWHist (managed detect : bool) (nkeep : N) (nlevels : N) (next : N) (ops : list swop).

Definition swop_tags (o : swop) : list N :=
  match o with
  | SBase x => CorrC29.xop_tags x
  | StreamWrite incr flat writes layouts _ r _ =>
      [520 + N.min 5 (N.of_nat (length writes)); (match flat with [] => 0 | _ => 530 end);
       (if r =? 0 then 0 else 540 + r)]
  | SCompactAny c _ => [60 + N.of_nat (c_this c)]
  end.

Definition run_case (c : case) : bool * list N :=
  match c with
  | SWHist managed detect nkeep nlevels next ops =>
      let '(bad, _, tags) := swexec (init_sys managed detect nkeep (N.to_nat nlevels) next) ops 0 [] in
      match bad with
      | None => (true, CorrSys.dedup (tags ++ flat_map swop_tags ops) [])
      | Some (i, code) => (false, [1000 + i; 100000 + code])
      end
  end.
