(* CorrC08.v — correspondence entry point for Layer C (C08 and C10).
   A case carries the protocol trace reconstructed from the hook log of a real workload up
   to the crash point, and what the real badger.Open did on the crashed directory (C08) or
   on the materialised power-loss image (C10): whether it succeeded and every stored entry.
   The model must (1) accept the trace (Persist.pstep: the protocol relation), (2) predict
   Open's outcome, (3) predict the recovered entries. *)
From Verif Require Import FS Recover Persist Crash Corr.
Open Scope N_scope.

Inductive case :=
| CCrash (c : cfg) (tr : list pevent) (open_ok : bool) (exact : bool) (n_real : nat) (ents : list centry)
| CPower (c : cfg) (tr : list pevent) (open_ok : bool) (ents : list centry).

Definition ce_incl (a b : list centry) : bool := forallb (fun e => ce_mem e b) a.
Definition ce_same (a b : list centry) : bool := ce_incl a b && ce_incl b a.

Definition is_some {A} (o : option A) : bool := match o with Some _ => true | None => false end.

(* branch tags: 1 trace rejected; 2 Open fails in the model; 3 a request is torn (in progress);
   4 at least one rotation; 5 a flush is recorded in the MANIFEST; 6 a WAL has been removed;
   7 a zero-size log file exists; 8 power loss dropped an unsynced tail or a non-durable name;
   9 some value lives in the value log; 10 fewer commits recovered than completed (power loss);
   11 everything completed was recovered; 12 directory fsync in the trace; 13 the power-loss
   result is not a prefix holding the acknowledged commits (the model reproduces F9);
   14 a compaction change set (creates + deletes) is in the trace; 15 a table file was removed *)
Definition state_tags (c : cfg) (st : pstate) (tr : list pevent) : list N :=
  (if is_nil (todo st) then [] else [3])
  ++ (if 1 <? walcur st then [4] else [])
  ++ (if is_nil (live st) then [] else [5])
  ++ (if forallb (fun f => memf (Wal f) (dir (pfs st))) (map fst (units st)) then [] else [6])
  ++ (if forallb (fun f => negb (is_log f) || sized (pfs st) f) (dir (pfs st)) then [] else [7])
  ++ (if existsb (fun u => existsb (fun cl => match snd cl with Some _ => true | None => false end) (snd u)) (units st) then [9] else [])
  ++ (if existsb (fun e => match e with PE SyncDir => true | _ => false end) tr then [12] else [])
  ++ (if existsb (fun e => match e with
                          | PE (Append Manifest (IM cs)) => negb (is_nil (deletes cs))
                          | _ => false end) tr then [14] else [])
  ++ (if existsb (fun e => match e with PE (Unlink (Sst _)) => true | _ => false end) tr then [15] else []).

Definition run_case (k : case) : bool * list N :=
  match k with
  | CCrash c tr open_ok exact n_real ents =>
      match run c (init c) tr with
      | None => (false, [1])
      | Some st =>
          match crash_result c st with
          | None => (negb open_ok, 2 :: state_tags c st tr)
          | Some R =>
              let nm := length (done_commits st) in
              (open_ok
               && Nat.leb nm n_real && Nat.leb n_real (if exact then nm else S nm)
               && refinesb (concat (firstn n_real (issued st))) ents
               && Nat.leb (acked st) n_real
               && (negb exact || ce_same R ents),
               11 :: state_tags c st tr)
          end
      end
  | CPower c tr open_ok ents =>
      match run c (init c) tr with
      | None => (false, [1])
      | Some st =>
          match power_loss_result c st with
          | None => (negb open_ok, 2 :: 8 :: state_tags c st tr)
          | Some R =>
              (open_ok && ce_same R ents,
               (if prefix_okb st R then (if Nat.ltb (length R) (length (concat (done_commits st))) then [10; 8] else [11]) else [13; 8])
               ++ state_tags c st tr)
          end
      end
  end.
