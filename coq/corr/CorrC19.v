(* CorrC19.v — correspondence entry point for C19: y.Hash, y.NewFilter, Filter.MayContain /
   MayContainKey, and a really built table (filter bytes of the index + Table.DoesNotHave). *)
From Verif Require Import Bytes Keys Bloom Corr.
Open Scope N_scope.

Inductive case :=
| HashC (b : bytes) (r : N)
| NewF (hs : list N) (bits : Z) (r : option bytes)            (* None: the Go call panicked *)
| May (f : bytes) (qs : list (N * option bool))       (* (hash, MayContain result) *)
| MayKey (f key : bytes) (r : option bool)
(* table built from internal keys, each added with Builder.Add (false) or Builder.AddStaleKey
   (true), with BloomFalsePositive>0 = fp_pos and bits = BloomBitsPerKey(len, fp); bf = filter
   bytes read back from the opened table; probes = (internal key, DoesNotHave(Hash(ParseKey key))) *)
| Tbl (adds : list (bool * bytes)) (fp_pos : bool) (bits : Z) (bf : bytes) (probes : list (bytes * bool))
(* pickTable-style probe with a user key (prefixIsKey): DoesNotHave(Hash(prefix)) *)
| Pick (bf prefix : bytes) (r : bool).

Definition ob_eqb := opt_eqb Bool.eqb.

Definition run_case (c : case) : bool * list N :=
  match c with
  | HashC b r =>
      (hash b =? r, [10 + N.of_nat (Nat.modulo (length b) 4) + (if (length b <? 4)%nat then 0 else 4)])
  | NewF hs bits r =>
      let m := new_filter hs bits in
      (opt_eqb bytes_eqb m r,
       [match hs with [] => 20 | _ => 21 end;
        (if (bits <? 0)%Z then 22 else if (bits <? 2)%Z then 23 else if (bits <? 44)%Z then 24 else 25);
        (if N.of_nat (length hs) * Z.to_N bits <? 64 then 26 else 27);
        match m with None => 28 | Some _ => 0 end])
  | May f qs =>
      (forallb (fun q => ob_eqb (may_contain f (fst q)) (snd q)) qs,
       map (fun q =>
         if (length f <? 2)%nat then 30
         else if 30 <? last f 0 then 31
         else match may_contain f (fst q) with Some true => 32 | Some false => 33 | None => 34 end) qs)
  | MayKey f key r =>
      let m := may_contain_key f key in
      (ob_eqb m r, [match m with Some true => 35 | Some false => 36 | None => 37 end])
  | Tbl adds fp_pos bits bf probes =>
      let m := build_bloom_adds adds fp_pos bits in
      (opt_eqb bytes_eqb m (Some bf)
       && forallb (fun p => ob_eqb (get_skips_table bf (fst p)) (Some (snd p))) probes,
       [if fp_pos then 41 else 40;
        if existsb (fun p => snd p) probes then 42 else 43;
        if existsb fst adds then (if forallb fst adds then 48 else 47) else 0])
  | Pick bf prefix r =>
      let m := pick_skips_table bf prefix in
      (ob_eqb m (Some r), [match m with Some true => 45 | _ => 46 end])
  end.
