(* CorrC11Wal.v — correspondence entry point for C11's crash / re-open histories
   (harness/c11wal.go): the WAL replay of Open and the oracle's restart value. *)
From Verif Require Import Bytes Keys Consts Spec Lsm Compact Iter Sys SysReopen WalOpen Corr CorrSys.
Open Scope N_scope.

Inductive case :=
(* one NNNNN.mem: the entries in the order logFile.iterate delivered them to
   memTable.replayFunction; the implementation's memTable.maxVersion and skiplist afterwards *)
| WalReplay (wal : list entry) (impl_max : N) (impl_sl : list entry)
(* Open of a crashed directory: the delivered entries of every WAL (ascending file id), the
   tables of the directory; the implementation's nextTxnTs after Open and what an all-versions
   iteration (internal keys included) of the re-opened DB returns *)
| CrashOpen (wals : list (list entry)) (dump : list (list (N * list entry))) (next : N) (scan : list entry).

Fixpoint descends (l : list entry) : bool :=
  match l with
  | a :: ((b :: _) as r) => (e_ver b <? e_ver a) || descends r
  | _ => false
  end.

Definition last_ver (l : list entry) : N := match rev l with e :: _ => e_ver e | [] => 0 end.

Definition wal_tags (wal : list entry) : list N :=
  match wal with
  | [] => [300]
  | _ => [(if descends wal then 302 else 301);
          (* the entry replayed last does not carry the newest version *)
          (if last_ver wal <? replay_max wal then 303 else 0);
          (* a key@version occurs twice in the WAL (the skiplist keeps the later one) *)
          (if (length (replay_sl wal) <? length wal)%nat then 304 else 0)]
  end.

Definition run_case (c : case) : bool * list N :=
  match c with
  | WalReplay wal impl_max impl_sl =>
      ((replay_max wal =? impl_max) && entries_eqb (replay_sl wal) impl_sl, dedup (wal_tags wal) [])
  | CrashOpen wals dump next scan =>
      let levels := tables_of_dump dump in
      let imms := open_imms wals in
      let d := crash_open_db wals levels in
      let wmax := fold_left upd_max (map rm_max imms) 0 in
      let tmax := fold_left upd_max (map table_max (concat levels)) 0 in
      ((crash_open_next wals levels =? next) && entries_eqb (merged d) scan,
       dedup ([310 + N.min 3 (N.of_nat (length imms));
               (if (length imms <? length wals)%nat then 314 else 0);
               (match concat levels with [] => 315 | _ => 316 end);
               (* who holds the largest version: a table (317), a WAL (318), both (319) *)
               (if wmax <? tmax then 317 else if tmax <? wmax then 318 else 319)]
              ++ flat_map wal_tags wals) [])
  end.
