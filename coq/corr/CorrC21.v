(* CorrC21.v — correspondence entry point for C21: table.NewMergeIterator over real child
   iterators (skiplist UniIterator, in-memory table Iterator, ConcatIterator, and a slice-backed
   y.Iterator for malformed inputs), forward and reverse, under arbitrary sequences of
   Next / Rewind / Seek.  The generic model of A/MergeIter.v is instantiated with byte-string keys,
   Keys.compare_keys (None = the CompareKeys panic on keys shorter than 8 bytes), bytes_eqb, []. *)
From Verif Require Import Bytes Keys MergeIter MergeIterKeys Corr.
Open Scope N_scope.

(* the very functions the theorems of props/C21.v are about (A/MergeIterKeys.v), values = bytes *)
Definition bentry : Type := MergeIterKeys.bentry bytes.
Definition biter : Type := MergeIterKeys.biter bytes.
Definition b_new : bool -> list (list bentry) -> option biter := b_new_merge bytes.
Definition b_apply : op bytes -> biter -> res biter := b_apply_op bytes.

(* what the harness observes after an operation: None = the call panicked;
   Some None = !Valid(); Some (Some (i, j)) = Valid() and (Key(), Value()) is entry j of input i
   (the harness makes all values distinct; an entry that is not in the inputs is sent as an
   out-of-range pair and never matches) *)
Definition obs : Type := option (option (N * N)).

Definition locate (inputs : list (list bentry)) (ij : N * N) : option bentry :=
  match nth_error inputs (N.to_nat (fst ij)) with
  | Some run => nth_error run (N.to_nat (snd ij))
  | None => None
  end.

Definition b_obs (it : biter) : option bentry :=
  if b_valid bytes it then
    match b_value bytes it with
    | Some v => Some (b_key bytes it, v)
    | None => None
    end
  else None.

Definition bentry_eqb (a b : bentry) : bool := bytes_eqb (fst a) (fst b) && bytes_eqb (snd a) (snd b).
(* model observation m against the reported one *)
Definition ob1_eqb (inputs : list (list bentry)) (m : option bentry) (o : option (N * N)) : bool :=
  match m, o with
  | None, None => true
  | Some e, Some ij => match locate inputs ij with Some e' => bentry_eqb e e' | None => false end
  | _, _ => false
  end.

Inductive case :=
(* inputs in input order, each in ascending key order (the harness builds the children from
   them); obs0 = observation right after NewMergeIterator; steps = (operation, observation) *)
| MergeRun (rev : bool) (inputs : list (list bentry)) (obs0 : option (N * N))
           (steps : list (op bytes * obs))
(* NewMergeIterator(nil) returned nil *)
| MergeNil (rev : bool) (isnil : bool).

(* run the steps; stop at the first panic (the harness stops there too) *)
Fixpoint run_steps (inputs : list (list bentry)) (it : biter) (steps : list (op bytes * obs)) : bool * list N :=
  match steps with
  | [] => (true, [])
  | (o, ob) :: rest =>
      let was_valid := b_valid bytes it in
      let tag_op := match o with
                    | OpNext => if was_valid then 31 else 34
                    | OpRewind => 33
                    | OpSeek _ => 32
                    end in
      match b_apply o it with
      | Ok it' =>
          let m := b_obs it' in
          let '(ok, tags) := run_steps inputs it' rest in
          ((match ob with Some o => ob1_eqb inputs m o | None => false end) && ok,
           tag_op :: (match m with None => 30 | Some _ => 35 end) :: tags)
      | Panic => ((match ob with None => true | Some _ => false end) && match rest with [] => true | _ => false end, [tag_op; 40])
      | Fuel => (false, [99])
      end
  end.

Definition keys_of (l : list bentry) : list bytes := map fst l.
Definition shares_key (a b : list bentry) : bool :=
  existsb (fun k => existsb (bytes_eqb k) (keys_of b)) (keys_of a).
Fixpoint any_shared (ls : list (list bentry)) : bool :=
  match ls with
  | [] => false
  | l :: ls' => existsb (shares_key l) ls' || any_shared ls'
  end.

Definition run_case (c : case) : bool * list N :=
  match c with
  | MergeRun rv inputs obs0 steps =>
      match b_new rv inputs with
      | None => (false, [98])
      | Some it =>
          let '(ok, tags) := run_steps inputs it steps in
          (ob1_eqb inputs (b_obs it) obs0 && ok,
           (10 + N.min (N.of_nat (length inputs)) 9)
           :: (if rv then 20 else 21)
           :: (if any_shared inputs then 22 else 0)
           :: (if existsb (fun l => match l with [] => true | _ => false end) inputs then 23 else 0)
           :: tags)
      end
  | MergeNil rv isnil =>
      (Bool.eqb (match b_new rv [] with None => true | Some _ => false end) isnil, [10])
  end.
