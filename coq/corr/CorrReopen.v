(* CorrReopen.v — correspondence entry point for histories with close / re-open cycles,
   DropAll and structure checks (C07, C11, C14). *)
From Verif Require Import Bytes Keys Consts Spec Lsm Compact Iter Sys SysReopen Corr CorrSys.
Open Scope N_scope.

Inductive case :=
| XHist (managed detect : bool) (nkeep : N) (nlevels : N) (next : N) (ops : list xop).

Definition nonempty_levels (d : list (list (N * list entry))) : N :=
  N.of_nat (length (filter (fun l => match l with [] => false | _ => true end) d)).

Definition xop_tags (o : xop) : list N :=
  match o with
  | Base b => op_tags b
  | Reopen ro ids next dump =>
      [(if ro then 201 else 200); (match ids with [] => 0 | _ => 202 end);
       (if 2 <=? nonempty_levels dump then 203 else 0)]
  | DropAll _ => [210]
  | GetAt _ _ r => [match r with GFound _ => 230 | GNotFound => 231 | GErr _ => 232 end]
  | CheckWf => [220]
  end.

Definition run_case (c : case) : bool * list N :=
  match c with
  | XHist managed detect nkeep nlevels next ops =>
      let '(bad, _) := xexec (init_xsys managed detect nkeep (N.to_nat nlevels) next) ops 0 in
      match bad with
      | None => (true, dedup (flat_map xop_tags ops) [])
      | Some (i, code) => (false, [1000 + i; 100000 + code])
      end
  end.
