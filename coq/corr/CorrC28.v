(* CorrC28.v — correspondence entry point for C28: transaction scripts run on a real DB
   (Set / SetEntry / Delete / Get / Discard, then Commit / CommitAt) and function-level cases
   for checkAndSetOptions' batch limits, isBanned and estimateSizeAndSetThreshold. *)
From Verif Require Import Bytes Keys Consts TxnModify Corr.
Open Scope N_scope.

(* compact byte strings for long keys / values: prefix ++ n copies of b *)
Definition nrep (n : N) (b : N) : bytes := N.iter n (cons b) [].
Definition pad (p : bytes) (n : N) (b : N) : bytes := p ++ nrep n b.

Inductive op :=
| OSet (e : entry) (kcap vcap : N) (code : N) (count size : Z)   (* observed: error class, Txn.count, Txn.size after *)
| OGet (key : bytes) (now : N) (code : N) (val : bytes) (umeta expires : N)
| ODiscard.

Inductive case :=
| TxnCase (fxm : bool) (d : dbcfg) (thr : Z) (update : bool) (ops : list op) (cts : N) (blocked : bool)
          (thr_c : Z) (commit_code : N)   (* thr: threshold during the calls, thr_c: at Commit *)
| Limits (mts : Z) (count size : Z)
| Banned (off : Z) (banned : list N) (key : bytes) (code : N)
| Estimate (klen vlen : N) (cached thr : Z) (size newthr : Z).

Definition discard (t : txn) : txn :=
  mkTxn (t_update t) true (t_count t) (t_size t) (t_conflict t) (t_pending t) (t_dups t).

Definition opt_code (r : option merr) : N := match r with None => 0 | Some e => merr_code e end.

Fixpoint run_ops (d : dbcfg) (thr : Z) (t : txn) (ops : list op) : txn * bool * list N :=
  match ops with
  | [] => (t, true, [])
  | o :: r =>
      match o with
      | OSet e kc vc code count size =>
          let overwrite := match pending_get (e_key e) (t_pending t) with Some _ => true | None => false end in
          let '(t', res) := modify d thr t e (N.to_nat kc) (N.to_nat vc) in
          let ok := (opt_code res =? code) && (t_count t' =? count)%Z && (t_size t' =? size)%Z in
          let tag := 100 + opt_code res in
          let tag2 := match res with
                      | None => if overwrite
                                then (if (length (t_dups t) <? length (t_dups t'))%nat then 122 else 121)
                                else 120
                      | Some _ => 0
                      end in
          let '(t'', ok', tags) := run_ops d thr t' r in
          (t'', ok && ok', tag :: tag2 :: tags)
      | OGet key now code val umeta expires =>
          let g := txn_get d t key now in
          let '(ok, tag) :=
            match g with
            | GErr e => (merr_code e =? code, 140 + merr_code e)
            | GNotFound => (code =? 20, 160)
            | GDb => (code =? 20, 161)
            | GCached e => ((code =? 0) && bytes_eqb (e_val e) val && (e_umeta e =? umeta)
                            && (e_expires e =? expires), 162)
            end in
          let '(t'', ok', tags) := run_ops d thr t r in
          (t'', ok && ok', tag :: tags)
      | ODiscard =>
          let '(t'', ok', tags) := run_ops d thr (discard t) r in
          (t'', ok', 170 :: tags)
      end
  end.

Definition run_case (c : case) : bool * list N :=
  match c with
  | TxnCase fxm d thr update ops cts blocked thr_c commit_code =>
      (* fxm = the end-marker reservation the implementation uses now (finding F4), read off a
         fresh transaction by the harness *)
      let '(t, ok, tags) := run_ops d thr (new_txn fxm update) ops in
      let r := commit d thr_c blocked t cts in
      let '(code, tag) :=
        match r with
        | CNoop => (0, 200)
        | COk _ _ es => (0, if N.land (e_meta (last es (marker_entry 0))) c_bitFinTxn =? 0 then 202 else 201)
        | CErr e => (merr_code e, 210 + merr_code e)
        | CCrash => (30, 230)
        end in
      (ok && (code =? commit_code), tag :: (if (thr_c =? thr)%Z then 0 else 240) :: tags)
  | Limits mts count size =>
      let '(c, s) := batch_limits mts in
      ((c =? count)%Z && (s =? size)%Z,
       [if (mts <? 0)%Z then 301 else if (614891469123651720 <? mts)%Z then 302 else 300])
  | Banned off banned key code =>
      let r := is_banned (mkDb 0 false off banned false 0 0) key in
      (opt_code r =? code, [310 + opt_code r])
  | Estimate klen vlen cached thr size newthr =>
      let e := mkEntry (nrep klen 107) (nrep vlen 118) 0 0 0 0 cached in
      let '(s, e') := estimate e thr in
      ((s =? size)%Z && (e_thr e' =? newthr)%Z,
       [if (zlen (e_val e) <? eff_thr e thr)%Z then 330 else 331;
        if (cached =? 0)%Z then 332 else 333])
  end.
