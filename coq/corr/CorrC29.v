(* CorrC29.v — correspondence entry point for drop histories (DropPrefix / DropAll / re-open
   on top of the sequential system histories) and for the crash cuts of DropAll. *)
From Verif Require Import Bytes Keys Consts Spec Lsm Compact Iter Sys Corr Drop.
From Verif Require CorrSys.
Open Scope N_scope.

Inductive case :=
| XHist (managed detect : bool) (nkeep : N) (nlevels : N) (next : N) (ops : list xop)
  (* a crash inside DropAll: the tree before the drop (memtables + dump), the number of
     persistence events that happened, and what the re-opened copy returned *)
| CrashDropAll (mt : src) (imm : list src) (levels : list (list (N * list entry)))
               (cut : N) (now : N) (reads : list (bytes * N * getres)).

Definition xop_tags (o : xop) : list N :=
  match o with
  | Base b => CorrSys.op_tags b
  | DropPrefix ps _ os _ =>
      [330 + N.min 4 (N.of_nat (length ps)); 340 + N.min 9 (N.of_nat (length os))]
      ++ flat_map (fun co => [350 + N.of_nat (c_this (fst co)); match snd co with [] => 359 | _ => 0 end]) os
  | DropAll _ => []
  | Reopen _ _ => []
  end.

Definition levels_of_dump (d : list (list (N * list entry))) : list (list table) :=
  map (map (fun ie => mkT (fst ie) (snd ie))) d.

Definition res_of (o : option entry) : getres := match o with Some e => GFound e | None => GNotFound end.

Definition run_case (c : case) : bool * list N :=
  match c with
  | XHist managed detect nkeep nlevels next ops =>
      let '(bad, _, tags) := xexec (init_sys managed detect nkeep (N.to_nat nlevels) next) ops 0 [] in
      match bad with
      | None => (true, CorrSys.dedup (tags ++ flat_map xop_tags ops) [])
      | Some (i, code) => (false, [1000 + i; 100000 + code])
      end
  | CrashDropAll mt imm levels cut now reads =>
      let d := mkLsm mt imm (levels_of_dump levels) in
      let d' := crash_after (persist_of d) dropall_events (N.to_nat cut) in
      let agree := forallb (fun r => let '(k, ts, g) := r in getres_eqb (res_of (read_at d' k ts now)) g) reads in
      (* tag 410: some key shows neither its pre-drop value nor nothing (the F15 class) *)
      let stale := existsb (fun r => let '(k, ts, _) := r in
                              match read_at d' k ts now with
                              | None => false
                              | Some e => negb (getres_eqb (GFound e) (res_of (read_at d k max_u64 now)))
                              end) reads in
      (agree, [400 + cut; if stale then 410 else 0])
  end.
