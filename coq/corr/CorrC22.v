(* CorrC22.v — correspondence entry point for C22: a sequence of operations on one real
   skl.Skiplist (Put, Get, one Iterator: Seek / SeekForPrev / SeekToFirst / SeekToLast / Next /
   Prev, and a dump of every level's keys via the read-only hook) and what each returned.  The
   height randomHeight() chose for a Put is read back from the real node and fed to the model,
   so the model's towers are the real towers.
   Keys shorter than 8 bytes make y.CompareKeys panic (recovered by the harness): the model
   instance compares with compare_keys and `op_panics` says when the first comparison happens. *)
From Verif Require Import Bytes Corr Keys Codec Consts Skiplist SkiplistInst.
Open Scope N_scope.

Inductive sop :=
| SPut (k : bytes) (v : value_struct) (h : nat)
| SGet (k : bytes)
| SSeek (k : bytes) | SSeekForPrev (k : bytes) | SFirst | SLast | SNext | SPrev
| SLevels.

Inductive sobs :=
| OUnit
| OGet (v : value_struct) (version : N)
| OPos (r : option (bytes * value_struct))
| OLv (h : N) (ls : list (list bytes))
| OPanic.

Inductive case := SklSeq (ops : list sop) (obs : list sobs).

Definition short (k : bytes) : bool := (length k <? 8)%nat.
Definition lvl0 (s : sl) : list nat := level_nodes bytes value_struct [] zero_vs s 0.

(* does the operation reach a CompareKeys call with a short key? (see header) *)
Definition op_panics (o : sop) (s : sl) (pos : nat) : bool :=
  let nonempty := negb (get_next bytes value_struct [] zero_vs s head 0 =? 0)%nat in
  (* every node after the reserved slot and the head is linked on level 0 *)
  let stored_short := existsb (fun nd => short (n_key _ _ nd)) (skipn 2 (nodes _ _ s)) in
  match o with
  | SPut k _ _ | SGet k | SSeek k | SSeekForPrev k => nonempty && (short k || stored_short)
  | SPrev => nonempty && stored_short
  | _ => false
  end.

Definition vs_eqb (a b : value_struct) : bool :=
  (vs_meta a =? vs_meta b) && (vs_umeta a =? vs_umeta b) && (vs_expires a =? vs_expires b)
  && bytes_eqb (vs_value a) (vs_value b).

Definition sobs_eqb (a b : sobs) : bool :=
  match a, b with
  | OUnit, OUnit => true
  | OGet v n, OGet v' n' => vs_eqb v v' && (n =? n')
  | OPos r, OPos r' => opt_eqb (pair_eqb bytes_eqb vs_eqb) r r'
  | OLv h ls, OLv h' ls' => (h =? h') && list_eqb (list_eqb bytes_eqb) ls ls'
  | OPanic, OPanic => true
  | _, _ => false
  end.

Definition entry (s : sl) (n : nat) : sobs := OPos (it_entry bytes value_struct [] zero_vs s n).
Definition pos_of (r : option nat) : nat := match r with Some n => n | None => 0%nat end.

(* one operation: new list, new iterator position, observation; fuel failure shows as OUnit on
   an operation that must return something, hence as a disagreement *)
Definition sstep (o : sop) (st : sl * nat) : sl * nat * sobs :=
  let '(s, pos) := st in
  if op_panics o s pos then (s, pos, OPanic) else
  match o with
  | SPut k v h => match s_put k v h s with Some s' => (s', pos, OUnit) | None => (s, pos, OPanic) end
  | SGet k =>
      match s_get s k with
      | Some (Some (k', v)) => (s, pos, OGet v (parse_ts k'))
      | Some None => (s, pos, OGet zero_vs 0)
      | None => (s, pos, OUnit)
      end
  | SSeek k => match it_seek bytes value_struct ckeys [] zero_vs s k with
               | Some n => (s, n, entry s n) | None => (s, pos, OUnit) end
  | SSeekForPrev k => match it_seek_for_prev bytes value_struct ckeys [] zero_vs s k with
                      | Some n => (s, n, entry s n) | None => (s, pos, OUnit) end
  | SFirst => let n := it_seek_to_first bytes value_struct [] zero_vs s in (s, n, entry s n)
  | SLast => match it_seek_to_last bytes value_struct [] zero_vs s with
             | Some n => (s, n, entry s n) | None => (s, pos, OUnit) end
  | SNext => let n := it_next bytes value_struct [] zero_vs s pos in (s, n, entry s n)
  | SPrev => match it_prev bytes value_struct ckeys [] zero_vs s pos with
             | Some n => (s, n, entry s n) | None => (s, pos, OUnit) end
  | SLevels =>
      (s, pos, OLv (N.of_nat (height _ _ s))
                   (map (fun l => map (s_kof s) (level_nodes bytes value_struct [] zero_vs s l))
                        (seq 0 (S (height _ _ s)))))
  end.

(* ---- branch tags ---- *)
Definition stag (o : sop) (st : sl * nat) (res : sl * nat * sobs) : list N :=
  let '(s, pos) := st in
  let '(s', pos', ob) := res in
  match ob with OPanic => [30] | _ =>
  match o with
  | SPut k v h =>
      if (length (nodes _ _ s') =? length (nodes _ _ s))%nat then [4]
      else [if (h <=? height _ _ s)%nat then 1 else if (h =? S (height _ _ s))%nat then 2 else 3]
  | SGet k =>
      [match find_near bytes value_struct ckeys [] zero_vs s k false true with
       | Some (O, _) => 13
       | Some (n, e) => if e then 10 else if same_key k (s_kof s n) then 11 else 12
       | None => 0
       end]
  | SSeek _ => [if (pos' =? 0)%nat then 20 else 21]
  | SSeekForPrev _ => [if (pos' =? 0)%nat then 22 else 23]
  | SFirst => [if (pos' =? 0)%nat then 24 else 25]
  | SLast => [if (pos' =? 0)%nat then 26 else 27]
  | SNext => [if (pos' =? 0)%nat then 28 else 29]
  | SPrev => [if (pos' =? 0)%nat then 31 else 32]
  | SLevels => [40 + N.min 9 (N.of_nat (height _ _ s))]
  end end.

(* observations and tags in one pass *)
Fixpoint srun (ops : list sop) (st : sl * nat) : list sobs * list N :=
  match ops with
  | [] => ([], [])
  | o :: r =>
      let res := sstep o st in
      let '(s', pos', ob) := res in
      let '(obs, tags) := srun r (s', pos') in
      (ob :: obs, stag o st res ++ tags)
  end.

Definition dedup (l : list N) : list N :=
  fold_right (fun x acc => if existsb (N.eqb x) acc then acc else x :: acc) [] l.

Definition run_case (c : case) : bool * list N :=
  match c with
  | SklSeq ops obs =>
      let st0 := (sl_new bytes value_struct [] zero_vs, 0%nat) in
      let '(mobs, tags) := srun ops st0 in
      (list_eqb sobs_eqb mobs obs && (N.of_nat (max_height) =? c_maxHeight), dedup tags)
  end.
