(* CorrC25.v — correspondence entry point for Stream / Backup / Load (C25, C24). *)
From Verif Require Import Bytes Keys Consts Spec Lsm Compact Iter Sys Corr CorrSys Stream SysStream.
Open Scope N_scope.

Inductive case :=
(* function level: the real Stream.ToList / Backup KeyToList closure called on a real key
   iterator; its = what that iterator yields from its position on; out = returned list (None =
   error), remaining = number of items from the iterator's position after the call *)
| KTL (kd : ktl_kind) (now : N) (key : bytes) (its : list entry) (out : option (list entry)) (remaining : N)
(* a history on a real DB with stream / backup runs *)
| XHist (managed detect : bool) (nkeep : N) (nlevels : N) (next : N) (ops : list xop)
(* DB.Load of kvs into a fresh DB: observed nextTxnTs, the AllVersions scan and Gets at rts *)
| Loaded (nkeep next0 now : N) (kvs : list entry) (next rts : N) (allv : list entry)
         (gets : list (bytes * getres)).

Definition ktl_tag (kd : ktl_kind) (its : list entry) (out : option (list entry)) : N :=
  match kd, out with
  | KToList _, Some [] => 401
  | KToList _, Some [_] => match its with e :: _ => if has_discard e then 404 else 402 | [] => 402 end
  | KToList _, Some _ => 403
  | KToList _, None => 405
  | KBackup _, None => 410
  | KBackup _, Some [] => 414
  | KBackup _, Some l =>
      match last l (mkE [] 0 0 0 0 []) with
      | e => if (is_deleted e) && (e_umeta e =? 0) && (e_exp e =? 0) && (1 <? N.of_nat (length l))
                && has_discard (nth (length l - 2) l e) then 411
             else if is_deleted e then 412 else if e_exp e =? 0 then 413 else 415
      end
  end.

Definition xop_tags (o : xop) : list N :=
  match o with
  | Base b => op_tags b
  | Run cfg _ splits outs _ =>
      [match r_kind cfg with KToList n => if n =? 1 then 201 else 208 | KBackup _ => 202 end;
       match r_prefix cfg with [] => 0 | _ => 203 end;
       if 0 <? r_since cfg then 204 else 0;
       match r_reject cfg with [] => 0 | _ => 205 end;
       if (1 <? length outs)%nat then 206 else 0;
       match splits with [] => 0 | _ => 209 end;
       (* a delivered range starts exactly at a split key (boundary of [left, right)) *)
       if existsb (fun out => match out with e :: _ => existsb (bytes_eqb (e_key e)) splits | [] => false end) outs
       then 211 else 0]
  | ProdBegin _ _ => [210]
  | ProdRange _ _ _ _ _ => [207]
  end.

Definition getres_of (d : lsm) (k : bytes) (ts now : N) : getres :=
  match db_get d k ts with
  | Some e => if deleted_or_expired e now then GNotFound else GFound e
  | None => GNotFound
  end.

Definition run_case (c : case) : bool * list N :=
  match c with
  | KTL kd now key its out remaining =>
      let '(l, rest) := key_to_list kd now key its in
      (opt_eqb entries_eqb l out && (N.of_nat (length rest) =? remaining), [ktl_tag kd its l])
  | XHist managed detect nkeep nlevels next ops =>
      let '(bad, _) := xexec (mkX (init_sys managed detect nkeep (N.to_nat nlevels) next) []) ops 0 in
      match bad with
      | None => (true, dedup (flat_map xop_tags ops) [])
      | Some (i, code) => (false, [1000 + i; 100000 + code])
      end
  | Loaded nkeep next0 now kvs next rts allv gets =>
      let s := load (init_sys false false nkeep 1 next0) kvs in
      let m := merged (s_db s) in
      ((s_next s =? next)
       && entries_eqb (iterate (mkIO false true [] false 0 false) rts now no_ban m []) allv
       && forallb (fun kg => getres_eqb (getres_of (s_db s) (fst kg) rts now) (snd kg)) gets,
       [300; if existsb is_deleted kvs then 301 else 0; if existsb has_discard kvs then 302 else 0])
  end.
