(* BlockingStallRefuteProofs.v — C38: the LTS with DropPrefix's stopCompactions moved in front of
   its memtable flush (BlockingStall.step_early) has a reachable deadlock; the coded order serves
   the same state. *)
From Coq Require Import List Arith Bool Lia.
Import ListNotations.
From Verif Require Import Blocking BlockingProofs BlockingStall.
Ltac destr_step Hs :=
  repeat (match type of Hs with
    | context [match ?x with _ => _ end] => destruct x eqn:?; cbn in Hs; try discriminate Hs
    end).

(* ---- (3) the reordered LTS: stopCompactions before DropPrefix's flush deadlocks ---- *)
Lemma exec_early_reach : forall strict c ls s s', reach_early strict c s -> exec_early strict c s ls = Some s' ->
  reach_early strict c s'.
Proof.
  intros strict c ls. induction ls as [|l r IH]; intros s s' Hr He; cbn in He.
  - injection He as <-. assumption.
  - destruct (step_early strict c s l) as [s1|] eqn:E; [|discriminate].
    eapply IH; [|eassumption]. econstructor; eassumption.
Qed.

Lemma cfgW_ok2 : cfg_ok cfgW.
Proof. unfold cfg_ok, cfgW; cbn; lia. Qed.

Definition st_early_hang : st :=
  match exec_early true cfgW (init cfgW) sched_early_hang with Some s => s | None => init cfgW end.

Lemma early_hang_exec : exec_early true cfgW (init cfgW) sched_early_hang = Some st_early_hang.
Proof. vm_compute. reflexivity. Qed.

(* DropPrefix sits in the stall loop of its own flush with every compactor gone; nothing that can
   still happen changes that: writes stay blocked (bw), no writer, no flusher, no compactor *)
Definition early_stuck (c : cfg) (s : st) : Prop :=
  drp s = DFlushMt /\ dkind s = true /\ mt s = MtSome /\ l0 s = cS c /\ bw s = true /\
  job s = JNone /\ w s = WExited /\ fl s = FExited /\ csig s = true /\ crashed s = false /\
  c0 s = CExit /\ oidle s = 0 /\ ol0 s = 0 /\ oli s = 0 /\ olib s = 0 /\ r_drop s = 0 /\
  clo s = CNot /\ wclosed s = false.

Lemma early_stuck_step0 : forall strict c s l s1, early_stuck c s -> step strict c s l = Some s1 ->
  early_stuck c s1 /\ early_next s l s1 = s1.
Proof.
  intros strict c s l s1 (Hd & Hk & Hm & Hl & Hb & Hj & Hw & Hf & Hg & Hx & Hc0 & H1 & H2 & H3 & H4 & H5 & H6 & H7) Hs.
  unfold step in Hs. rewrite Hx in Hs.
  destruct s. unfold crash, early_stuck, early_next, all_exited, l0_pickable, l0_running, l0_blocked in *. cbn in *. subst.
  destruct l; cbn in Hs; destr_step Hs; try discriminate Hs; try (injection Hs as <-); cbn; repeat split; auto; try lia.
  all: exfalso; match goal with H : match ?n with 0 => false | S m' => ?n <=? m' end = true |- _ =>
         change (n <? n = true) in H; rewrite Nat.ltb_irrefl in H; discriminate H end.
Qed.

Lemma early_stuck_step : forall strict c s l s', early_stuck c s -> step_early strict c s l = Some s' -> early_stuck c s'.
Proof.
  intros strict c s l s' Ho Hs. unfold step_early in Hs.
  destruct (step strict c s l) as [s1|] eqn:E; [|discriminate]. injection Hs as <-.
  destruct (early_stuck_step0 _ _ _ _ _ Ho E) as (Ha & Hb). rewrite Hb. exact Ha.
Qed.

Lemma early_stuck_exec : forall strict c ls s s', early_stuck c s -> exec_early strict c s ls = Some s' -> early_stuck c s'.
Proof.
  intros strict c ls. induction ls as [|l r IH]; intros s s' Ho He; cbn in He.
  - injection He as <-. assumption.
  - destruct (step_early strict c s l) as [s1|] eqn:E; [|discriminate].
    eapply IH; [|eassumption]. eapply early_stuck_step; eassumption.
Qed.

Lemma early_stuck_props : forall c s, early_stuck c s ->
  stall_wait c s = true /\ compactors_run s = false /\ all_exited s = true /\ pending s = true.
Proof.
  intros c s (Hd & Hk & Hm & Hl & Hb & Hj & Hw & Hf & Hg & Hx & Hc0 & H1 & H2 & H3 & H4 & _).
  unfold stall_wait, flusher_stalled, drop_stalled, compactors_run, all_exited, pending.
  rewrite Hd, Hk, Hm, Hl, Hg, Hc0, H1, H2, H3, H4, Nat.leb_refl. cbn.
  rewrite !orb_true_r. repeat split; reflexivity.
Qed.

Theorem early_hang :
  reach_early true cfgW st_early_hang /\ early_stuck cfgW st_early_hang /\
  clo st_early_hang = CNot /\ r_drop st_early_hang = 0 /\
  (forall l, work l = true -> step_early true cfgW st_early_hang l = None) /\
  (forall strict ls s', exec_early strict cfgW st_early_hang ls = Some s' ->
     drp s' = DFlushMt /\ bw s' = true /\ r_drop s' = 0 /\
     stall_wait cfgW s' = true /\ compactors_run s' = false /\ all_exited s' = true /\ pending s' = true).
Proof.
  assert (Ho : early_stuck cfgW st_early_hang) by (vm_compute; repeat split; reflexivity).
  split. { eapply exec_early_reach; [constructor | apply early_hang_exec]. }
  split. { exact Ho. }
  split. { vm_compute. reflexivity. }
  split. { vm_compute. reflexivity. }
  split.
  - intros l Hw. destruct l; try discriminate Hw; try (match goal with b : bool |- _ => destruct b end); vm_compute; reflexivity.
  - intros strict ls s' He. pose proof (early_stuck_exec _ _ _ _ _ Ho He) as Hs.
    destruct (early_stuck_props _ _ Hs) as (Ha & Hb & Hc & Hd).
    destruct Hs as (H1 & _ & _ & _ & H5 & _ & _ & _ & _ & _ & _ & _ & _ & _ & _ & H16 & _). repeat split; try assumption.
Qed.

(* off DropPrefix's three re-targeted labels the reordered LTS is the coded one *)
Lemma step_early_same : forall strict c s l,
  dkind s = false \/ (l <> D_view /\ l <> D_waitc /\ l <> D_flushmt) ->
  step_early strict c s l = step strict c s l.
Proof.
  intros strict c s l H. unfold step_early, early_next.
  destruct (step strict c s l) as [s1|]; [|reflexivity].
  destruct H as [H | (H1 & H2 & H3)]; [rewrite H; reflexivity|].
  destruct (dkind s); [|reflexivity]. destruct l; try reflexivity; congruence.
Qed.

(* "a thread in the stall loop implies running compactors" fails in the reordered LTS ... *)
Theorem early_stall_refuted :
  ~ (forall c s, cfg_ok c -> reach_early true c s -> stall_wait c s = true -> compactors_run s = true).
Proof.
  intros H. destruct early_hang as (Hr & Ho & _). destruct (early_stuck_props _ _ Ho) as (Ha & Hb & _).
  rewrite (H cfgW st_early_hang cfgW_ok2 Hr Ha) in Hb. discriminate.
Qed.

(* ... and so does "a pending call implies an enabled work transition" *)
Theorem early_no_stuck_refuted :
  ~ (forall c s, cfg_ok c -> reach_early true c s -> pending s = true ->
       exists l s', work l = true /\ step_early true c s l = Some s').
Proof.
  intros H. destruct early_hang as (Hr & Ho & _ & _ & Hno & _).
  destruct (early_stuck_props _ _ Ho) as (_ & _ & _ & Hp).
  destruct (H cfgW st_early_hang cfgW_ok2 Hr Hp) as (l & s' & Hw & Hs).
  rewrite (Hno l Hw) in Hs. discriminate.
Qed.

(* the coded order from the same state: the flush waits (D_flushmt disabled, stall_wait holds,
   the compactors run), a compactor makes room, DropPrefix completes *)
Example coded_order_ok :
  (exists s, exec true cfgW (init cfgW) (sched_l0_full ++ drop_to_view) = Some s /\
             drp s = DFlushMt /\ l0 s = cS cfgW /\ mt s = MtSome /\
             stall_wait cfgW s = true /\ compactors_run s = true /\ step true cfgW s D_flushmt = None /\
             resolve_path s = [K0_startL0; K0_finishL0 1]) /\
  (exists s, exec true cfgW (init cfgW) sched_coded_ok = Some s /\ pending s = false /\ r_drop s = 1 /\
             compactors_run s = true).
Proof.
  split; eexists; (split; [vm_compute; reflexivity|]); vm_compute; repeat split; reflexivity.
Qed.
