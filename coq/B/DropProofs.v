(* DropProofs.v — proofs about Drop.v: what the drop filter removes and keeps, the exact
   condition under which a prefix reaches into the version suffix (F20), the table picker of
   dropPrefixes (F24), DropAll, crash cuts of DropAll (F15). *)
From Verif Require Import Bytes BytesProofs Keys C20Proofs Consts Spec Lsm Compact Iter Sys
     LsmProofs CompactProofs GetProofs MergeProofs C12Proofs Drop.
From Coq Require Import ZifyN ZifyNat ZifyBool Sorting.Sorted.
Open Scope N_scope.

(* ======================= A. prefixes and internal keys ======================= *)

Lemma is_prefix_nil_r p : is_prefix p [] = match p with [] => true | _ => false end.
Proof. destruct p; reflexivity. Qed.

(* a prefix of k ++ s either lies inside k, or covers k and continues into s *)
Lemma is_prefix_app_split p k s :
  is_prefix p (k ++ s) =
  if (length p <=? length k)%nat then is_prefix p k
  else is_prefix k p && is_prefix (skipn (length k) p) s.
Proof.
  revert k. induction p as [|x p IH]; intros k.
  - cbn. reflexivity.
  - destruct k as [|y k].
    + cbn [app length Nat.leb is_prefix skipn andb]. reflexivity.
    + cbn [app length is_prefix skipn]. rewrite IH.
      change (S (length p) <=? S (length k))%nat with (length p <=? length k)%nat.
      destruct (length p <=? length k)%nat; [reflexivity|].
      rewrite andb_assoc. now rewrite (N.eqb_sym y x).
Qed.

Lemma is_prefix_length p l : is_prefix p l = true -> (length p <= length l)%nat.
Proof.
  revert l. induction p as [|x p IH]; intros l H; cbn; [lia|].
  destruct l as [|y l]; cbn in H; [discriminate|].
  apply andb_true_iff in H. destruct H as [_ H]. apply IH in H. cbn. lia.
Qed.

(* requested => coded: a user key with the prefix has an internal key with the prefix *)
Lemma user_prefix_internal p e : is_prefix p (e_key e) = true -> is_prefix p (ikey e) = true.
Proof.
  intros H. unfold ikey, key_with_ts. rewrite is_prefix_app_split.
  apply is_prefix_length in H as L.
  assert (E: (length p <=? length (e_key e))%nat = true) by (apply Nat.leb_le; lia).
  now rewrite E.
Qed.

Lemma user_has_prefix_internal ps e : user_has_prefix ps (e_key e) = true -> has_any_prefix ps e = true.
Proof.
  unfold user_has_prefix, has_any_prefix. rewrite !existsb_exists.
  intros (p & Hin & Hp). exists p. split; auto. now apply user_prefix_internal.
Qed.

(* F20, exactly: the internal key carries prefix p while the user key does not iff p is the
   user key followed by a non-empty prefix of the 8 version bytes *)
Theorem suffix_match_exact p e :
  (is_prefix p (ikey e) = true /\ is_prefix p (e_key e) = false) <->
  ((length (e_key e) < length p)%nat /\ is_prefix (e_key e) p = true /\
   is_prefix (skipn (length (e_key e)) p) (be_enc 8 (max_u64 - e_ver e)) = true).
Proof.
  unfold ikey, key_with_ts. rewrite is_prefix_app_split.
  destruct (length p <=? length (e_key e))%nat eqn:L.
  - apply Nat.leb_le in L. split.
    + intros [A B]. congruence.
    + intros [A _]. lia.
  - apply Nat.leb_gt in L. rewrite andb_true_iff. split.
    + intros [[A B] _]. auto.
    + intros (_ & A & B). split; auto.
      destruct (is_prefix p (e_key e)) eqn:E; auto. apply is_prefix_length in E. lia.
Qed.

(* hence: when no drop prefix properly extends the user key, coded = requested on that key *)
Definition no_extension (ps : list bytes) (k : bytes) : Prop :=
  forall p, In p ps -> is_prefix k p = true -> (length p <= length k)%nat.

Lemma has_any_prefix_user ps e :
  no_extension ps (e_key e) -> has_any_prefix ps e = user_has_prefix ps (e_key e).
Proof.
  intros H. unfold has_any_prefix, user_has_prefix.
  induction ps as [|p ps IH]; cbn [existsb]; auto.
  rewrite IH by (intros q Hq; apply H; now right). f_equal.
  fold (ikey e). unfold ikey, key_with_ts. rewrite is_prefix_app_split.
  destruct (length p <=? length (e_key e))%nat eqn:L; auto.
  apply Nat.leb_gt in L. destruct (is_prefix (e_key e) p) eqn:E; cbn [andb].
  - specialize (H p (or_introl eq_refl) E). lia.
  - destruct (is_prefix p (e_key e)) eqn:E2; auto. apply is_prefix_length in E2. lia.
Qed.

(* ======================= B. the compaction filter with drop prefixes ======================= *)

Definition nodrop (p : cparams) : cparams :=
  mkCP (cp_discard p) (cp_nkeep p) (cp_overlap p) [] (cp_now p).

Definition unmatched (ps : list bytes) (e : entry) : bool := negb (has_any_prefix ps e).

(* the filter with drop prefixes = the plain filter run on the entries matching no prefix:
   a matching entry is skipped before it can touch the filter state *)
Lemma filter_step_matched p st e :
  has_any_prefix (cp_drop p) e = true -> filter_step p st e = (st, false).
Proof. unfold filter_step. now intros ->. Qed.

Lemma filter_step_unmatched p st e :
  has_any_prefix (cp_drop p) e = false -> filter_step p st e = filter_step (nodrop p) st e.
Proof. unfold filter_step. intros ->. reflexivity. Qed.

Lemma filter_run_drop_eq p st s :
  filter_run p st s = filter_run (nodrop p) st (filter (unmatched (cp_drop p)) s).
Proof.
  revert st. induction s as [|e s IH]; intros st; cbn [filter_run filter]; auto.
  unfold unmatched at 1. destruct (has_any_prefix (cp_drop p) e) eqn:M; cbn [negb].
  - rewrite filter_step_matched by assumption. apply IH.
  - cbn [filter_run]. rewrite filter_step_unmatched by assumption.
    destruct (filter_step (nodrop p) st e) as [st' keep]. destruct keep; now rewrite IH.
Qed.

Theorem compact_filter_drop_eq p m :
  compact_filter p m = compact_filter (nodrop p) (filter (unmatched (cp_drop p)) m).
Proof. apply filter_run_drop_eq. Qed.

(* nothing the filter writes out carries a drop prefix, and everything comes from the input *)
Theorem drop_filter_removes p m e :
  In e (compact_filter p m) -> has_any_prefix (cp_drop p) e = false /\ In e m.
Proof.
  rewrite compact_filter_drop_eq. intros H.
  unfold compact_filter in H. apply filter_run_sub in H. apply filter_In in H. destruct H as [H1 H2].
  unfold unmatched in H2. apply negb_true_iff in H2. auto.
Qed.

Corollary drop_filter_removes_user p m e :
  In e (compact_filter p m) -> user_has_prefix (cp_drop p) (e_key e) = false.
Proof.
  intros H. apply drop_filter_removes in H. destruct H as [H _].
  destruct (user_has_prefix (cp_drop p) (e_key e)) eqn:E; auto.
  apply user_has_prefix_internal in E. congruence.
Qed.

Lemma sorted_filter (f : entry -> bool) (s : src) : sorted s -> sorted (filter f s).
Proof.
  induction s as [|x s IH]; cbn; intros H; [constructor|].
  inversion H as [|? ? Hs Hall]; subst. destruct (f x); [|now apply IH].
  constructor; [now apply IH|]. rewrite Forall_forall in Hall. apply Forall_forall.
  intros y Hy. apply filter_In in Hy. apply Hall. tauto.
Qed.

Lemma filter_cand_unmatched ps m k ts :
  (forall e, In e m -> e_key e = k -> has_any_prefix ps e = false) ->
  filter (cand k ts) (filter (unmatched ps) m) = filter (cand k ts) m.
Proof.
  induction m as [|x m IH]; intros H; cbn [filter]; auto.
  assert (IH': filter (cand k ts) (filter (unmatched ps) m) = filter (cand k ts) m).
  { apply IH. intros e He. apply H. now right. }
  unfold unmatched at 1. destruct (has_any_prefix ps x) eqn:M; cbn [negb].
  - destruct (cand k ts x) eqn:C; auto. exfalso.
    unfold cand in C. apply andb_true_iff in C. destruct C as [C _]. apply bytes_eqb_eq in C.
    rewrite (H x (or_introl eq_refl) C) in M. discriminate.
  - cbn [filter]. now rewrite IH'.
Qed.

Lemma newest_unmatched ps m O k ts :
  (forall e, In e m -> e_key e = k -> has_any_prefix ps e = false) ->
  newest (filter (unmatched ps) m ++ O) k ts = newest (m ++ O) k ts.
Proof.
  intros H. unfold newest. rewrite !filter_app. now rewrite filter_cand_unmatched.
Qed.

(* entries matching no prefix are treated exactly as by a compaction without drop prefixes:
   a key none of whose versions in the compaction carries a prefix reads the same afterwards,
   at every timestamp at or above the discard timestamp *)
Theorem drop_filter_preserves_other_reads p m O k ts now' :
  sorted m ->
  nodup_kv (m ++ O) ->
  (forall e, In e m -> dead_marker p e -> cp_overlap p = false ->
     forall o, In o O -> e_key o = e_key e -> e_ver e < e_ver o) ->
  cp_discard p <= ts -> cp_now p <= now' ->
  (forall e, In e m -> e_key e = k -> has_any_prefix (cp_drop p) e = false) ->
  vis_of now' (newest (compact_filter p m ++ O) k ts) = vis_of now' (newest (m ++ O) k ts).
Proof.
  intros Hs Hnd HR Hts Hnow Hk.
  rewrite compact_filter_drop_eq.
  set (m' := filter (unmatched (cp_drop p)) m).
  assert (Hsub: forall x, In x m' -> In x m) by (intros x Hx; apply filter_In in Hx; tauto).
  rewrite (filter_preserves_reads (nodrop p) eq_refl m' O k ts now').
  - unfold m'. now rewrite newest_unmatched.
  - now apply sorted_filter.
  - intros a b Ha Hb. apply Hnd; apply in_app_or in Ha, Hb; apply in_or_app.
    + destruct Ha; auto.
    + destruct Hb; auto.
  - intros e He Hd Ho. apply HR; auto.
  - exact Hts.
  - exact Hnow.
Qed.

(* the property as requested (user keys), under the hypothesis that excludes F20 *)
Corollary drop_filter_preserves_other_keys_partial p m O k ts now' :
  sorted m -> nodup_kv (m ++ O) ->
  (forall e, In e m -> dead_marker p e -> cp_overlap p = false ->
     forall o, In o O -> e_key o = e_key e -> e_ver e < e_ver o) ->
  cp_discard p <= ts -> cp_now p <= now' ->
  user_has_prefix (cp_drop p) k = false ->
  no_extension (cp_drop p) k ->
  vis_of now' (newest (compact_filter p m ++ O) k ts) = vis_of now' (newest (m ++ O) k ts).
Proof.
  intros Hs Hnd HR Hts Hnow Hu Hne. apply drop_filter_preserves_other_reads; auto.
  intros e _ Ek. rewrite has_any_prefix_user; rewrite Ek; auto.
Qed.

(* the same statement WITHOUT no_extension is false: the F20 witness.  Key "a" (0x61) at
   version 1, drop prefix "a\xff": "a" does not start with it, yet its only version goes *)
Theorem other_keys_unchanged_refuted :
  exists p m O k ts now',
    sorted m /\ nodup_kv (m ++ O) /\
    (forall e, In e m -> dead_marker p e -> cp_overlap p = false ->
       forall o, In o O -> e_key o = e_key e -> e_ver e < e_ver o) /\
    cp_discard p <= ts /\ cp_now p <= now' /\
    user_has_prefix (cp_drop p) k = false /\
    vis_of now' (newest (compact_filter p m ++ O) k ts) <> vis_of now' (newest (m ++ O) k ts).
Proof.
  exists (mkCP 0 1 false [[97; 255]] 0), [mkE [97] 1 0 0 0 [118]], [], [97], 5, 0.
  split; [repeat constructor|].
  split; [intros a b [<-|[]] [<-|[]]; auto|].
  split; [intros e _ _ _ o []|].
  split; [vm_compute; discriminate|].
  split; [vm_compute; discriminate|].
  split; [reflexivity|].
  vm_compute. discriminate.
Qed.

(* ======================= C. the drop plan over the levels ======================= *)

Definition table_clean (ps : list bytes) (t : table) : Prop :=
  forall e, In e (t_ents t) -> has_any_prefix ps e = false.
Definition level_clean (ps : list bytes) (l : list table) : Prop :=
  forall t, In t l -> table_clean ps t.

(* completeness of containsAnyPrefixes on a level: a table it does not report holds no
   entry carrying a prefix.  This is what finding F24 breaks. *)
Definition picker_complete (ps : list bytes) (l : list table) : Prop :=
  forall t, In t l -> contains_any_prefixes ps t = false -> table_clean ps t.

Lemma set_level_nth_in ls n l (t : table) : In t (nth n (set_level ls n l) []) -> In t l.
Proof.
  revert n. induction ls as [|x r IH]; intros n; cbn [set_level].
  - destruct n; cbn; contradiction.
  - destruct n as [|n]; cbn [nth]; auto. apply IH.
Qed.

Lemma set_level_nth_other ls n m l : n <> m -> nth m (set_level ls n l) [] = nth m ls [] (A := list table).
Proof.
  revert n m. induction ls as [|x r IH]; intros n m H; cbn [set_level]; auto.
  destruct n as [|n], m as [|m]; cbn [nth]; auto; try congruence.
Qed.

Lemma reorder_in ids l (t : table) : In t (reorder ids l) -> In t l.
Proof.
  induction ids as [|i r IH]; cbn [reorder]; [contradiction|].
  destruct (find (fun t0 => t_id t0 =? i) l) as [t0|] eqn:F; auto.
  intros [<-|H]; auto. apply find_some in F. tauto.
Qed.

Lemma in_firstn {A} n (l : list A) x : In x (firstn n l) -> In x l.
Proof. intros H. rewrite <- (firstn_skipn n l). apply in_or_app; now left. Qed.
Lemma in_skipn {A} n (l : list A) x : In x (skipn n l) -> In x l.
Proof. intros H. rewrite <- (firstn_skipn n l). apply in_or_app; now right. Qed.

Lemma split_counts_in s layout t e : In t (split_counts s layout) -> In e (t_ents t) -> In e s.
Proof.
  revert s. induction layout as [|[id n] r IH]; intros s; cbn [split_counts]; [contradiction|].
  intros [<-|H] He.
  - cbn in He. eapply in_firstn; eauto.
  - eapply in_skipn. eapply IH; eauto.
Qed.

Lemma ids_eqb_eq a b : ids_eqb a b = true -> a = b.
Proof.
  revert b. induction a as [|x a IH]; intros [|y b]; cbn; try discriminate; auto.
  intros H. apply andb_true_iff in H. destruct H as [H1 H2]. apply N.eqb_eq in H1. f_equal; auto.
Qed.

Lemma prefixes_eqb_eq a b : prefixes_eqb a b = true -> a = b.
Proof.
  revert b. induction a as [|x a IH]; intros [|y b]; cbn; try discriminate; auto.
  intros H. apply andb_true_iff in H. destruct H as [H1 H2]. apply bytes_eqb_eq in H1. f_equal; auto.
Qed.

Lemma in_ids_of g t : In t g -> in_ids (ids_of g) t = true.
Proof.
  intros H. unfold in_ids, ids_of. apply existsb_exists. exists (t_id t). split; [now apply in_map|apply N.eqb_refl].
Qed.

(* where the tables of the output level of an installed compaction come from *)
Lemma apply_compaction_next_in ls c t :
  In t (nth (c_next c) (apply_compaction ls c) []) ->
  (In t (nth (c_next c) ls []) /\ in_ids (c_bot c) t = false)
  \/ In t (split_counts (compaction_output ls c) (c_layout c)).
Proof.
  unfold apply_compaction.
  set (nl := drop_tables (c_bot c) (nth (c_next c) ls []) ++ split_counts (compaction_output ls c) (c_layout c)).
  set (ls1 := set_level ls (c_next c) (reorder (c_order c) nl)).
  intros H.
  assert (H1: In t (nth (c_next c) ls1 [])).
  { destruct (Nat.eq_dec (c_this c) (c_next c)) as [E|E].
    - rewrite E in H. apply set_level_nth_in in H. unfold drop_tables in H. apply filter_In in H. tauto.
    - rewrite set_level_nth_other in H by assumption. exact H. }
  apply set_level_nth_in, reorder_in in H1. unfold nl in H1. apply in_app_or in H1.
  destruct H1 as [H1|H1]; [left|now right].
  unfold drop_tables in H1. apply filter_In in H1. destruct H1 as [A B]. apply negb_true_iff in B. auto.
Qed.

Lemma apply_compaction_this_in ls c t :
  c_this c <> c_next c ->
  In t (nth (c_this c) (apply_compaction ls c) []) ->
  In t (nth (c_this c) ls []) /\ in_ids (c_top c) t = false.
Proof.
  unfold apply_compaction. intros E H. apply set_level_nth_in in H.
  unfold drop_tables in H. apply filter_In in H. destruct H as [A B].
  rewrite set_level_nth_other in A by congruence. apply negb_true_iff in B. auto.
Qed.

Lemma apply_compaction_other ls c j :
  j <> c_this c -> j <> c_next c -> nth j (apply_compaction ls c) [] = nth j ls [].
Proof.
  unfold apply_compaction. intros A B. rewrite !set_level_nth_other by congruence. reflexivity.
Qed.

Lemma apply_obs_ok ls c out ls' : apply_obs ls c out = (0, ls') -> ls' = apply_compaction ls c.
Proof.
  unfold apply_obs. destruct (entries_eqb _ _); [|discriminate].
  destruct (_ || _); [|discriminate]. now intros [= <-].
Qed.

(* the new tables of a compaction run with drop prefixes ps are clean *)
Lemma output_tables_clean ls c t :
  In t (split_counts (compaction_output ls c) (c_layout c)) -> table_clean (c_drop c) t.
Proof.
  intros H e He. pose proof (split_counts_in _ _ _ _ H He) as Hin.
  unfold compaction_output in Hin. apply drop_filter_removes in Hin. cbn [cp_drop] in Hin. tauto.
Qed.

(* every table containsAnyPrefixes reports ends up in a group *)
Lemma table_groups_cover ps l cur t :
  In t cur \/ (In t l /\ contains_any_prefixes ps t = true) ->
  exists g, In g (table_groups ps l cur) /\ In t g.
Proof.
  revert cur. induction l as [|x r IH]; intros cur H; cbn [table_groups].
  - destruct H as [H|[[] _]]. destruct cur as [|c0 cur]; [contradiction|].
    exists (c0 :: cur). split; [now left|exact H].
  - destruct (contains_any_prefixes ps x) eqn:Cx.
    + apply IH. destruct H as [H|[[<-|H] Hc]].
      * left. apply in_or_app; now left.
      * left. apply in_or_app; right; now left.
      * right; auto.
    + destruct cur as [|c0 cur].
      * apply IH. destruct H as [[]|[[<-|H] Hc]]; [congruence|right; auto].
      * destruct H as [H|[[<-|H] Hc]].
        -- exists (c0 :: cur). split; [now left|exact H].
        -- congruence.
        -- destruct (IH [] (or_intror (conj H Hc))) as (g & A & B). exists g. split; [now right|exact B].
Qed.

(* one level >= 1: afterwards every table of the level is either a clean output or an
   original table outside all groups; the other levels are untouched *)
Lemma run_groups_level ps nkeep lvl groups ls os ls' os' :
  run_groups ps nkeep lvl groups ls os = (0, ls', os') ->
  (forall t, In t (nth lvl ls' []) ->
     table_clean ps t \/ (In t (nth lvl ls []) /\ forall g, In g groups -> in_ids (ids_of g) t = false))
  /\ (forall j, j <> lvl -> nth j ls' [] = nth j ls []).
Proof.
  revert ls os. induction groups as [|g gr IH]; intros ls os; cbn [run_groups].
  - intros [= <- <-]. split; auto. intros t Ht. right. split; auto. intros g [].
  - destruct os as [|[c out] os1]; [discriminate|].
    destruct ((c_this c =? lvl)%nat && (c_next c =? lvl)%nat) eqn:E1; cbn [negb]; [|discriminate].
    destruct (c_top c) as [|? ?] eqn:E2; cbn [negb]; [|discriminate].
    destruct (ids_eqb (ids_of g) (c_bot c)) eqn:E3; cbn [negb]; [|discriminate].
    destruct (prefixes_eqb (c_drop c) ps) eqn:E4; cbn [negb]; [|discriminate].
    destruct (c_nkeep c =? nkeep) eqn:E5; cbn [negb]; [|discriminate].
    destruct (apply_obs ls c out) as [code ls1] eqn:E6.
    destruct (code =? 0) eqn:E7; [|intros [= ? ? ?]; subst; discriminate].
    apply N.eqb_eq in E7. subst code. apply apply_obs_ok in E6.
    apply andb_true_iff in E1. destruct E1 as [Et En]. apply Nat.eqb_eq in Et, En.
    apply ids_eqb_eq in E3. apply prefixes_eqb_eq in E4.
    intros H. destruct (IH ls1 os1 H) as [IH1 IH2]. split.
    + intros t Ht. destruct (IH1 t Ht) as [Hc|[Hin Hng]]; [now left|].
      subst ls1.
      rewrite <- En in Hin.
      apply (apply_compaction_next_in ls c t) in Hin.
      destruct Hin as [[A B]|A].
      * right. rewrite En in A. split; auto. intros g' [<-|Hg']; auto. now rewrite E3.
      * left. rewrite <- E4. exact (output_tables_clean ls c t A).
    + intros j Hj. rewrite IH2 by assumption. subst ls1. apply apply_compaction_other; congruence.
Qed.

Lemma run_levels_clean ps nkeep lvls ls os ls' os' :
  NoDup lvls ->
  run_levels ps nkeep lvls ls os = (0, ls', os') ->
  (forall lvl, In lvl lvls -> picker_complete ps (nth lvl ls [])) ->
  (forall lvl, In lvl lvls -> level_clean ps (nth lvl ls' []))
  /\ (forall j, ~ In j lvls -> nth j ls' [] = nth j ls []).
Proof.
  revert ls os. induction lvls as [|lvl r IH]; intros ls os Hnd; cbn [run_levels].
  - intros [= <- <-] _. split; [intros ? []|auto].
  - destruct (run_groups ps nkeep lvl (table_groups ps (nth lvl ls []) []) ls os) as [[code ls1] os1] eqn:E.
    destruct (code =? 0) eqn:Ec; [|intros [= ? ? ?]; subst; discriminate].
    apply N.eqb_eq in Ec. subst code. intros H Hpc.
    inversion Hnd as [|? ? Hnotin Hnd']; subst.
    destruct (run_groups_level _ _ _ _ _ _ _ _ E) as [G1 G2].
    assert (Hpc1: forall l, In l r -> picker_complete ps (nth l ls1 [])).
    { intros l Hl. rewrite G2 by (intros ->; contradiction). apply Hpc. now right. }
    destruct (IH ls1 os1 Hnd' H Hpc1) as [I1 I2]. split.
    + intros l [<-|Hl]; [|now apply I1].
      rewrite I2 by assumption. intros t Ht. destruct (G1 t Ht) as [Hc|[Hin Hng]]; auto.
      apply (Hpc lvl (or_introl eq_refl) t Hin).
      destruct (contains_any_prefixes ps t) eqn:Cp; auto. exfalso.
      destruct (table_groups_cover ps (nth lvl ls []) [] t (or_intror (conj Hin Cp))) as (g & A & B).
      pose proof (Hng g A) as Hf. rewrite (in_ids_of g t B) in Hf. discriminate Hf.
    + intros j Hj. rewrite I2 by (intros Hr; apply Hj; now right).
      apply G2. intros ->. apply Hj. now left.
Qed.

(* level 0: all L0 tables go into the base level through the drop filter *)
Lemma run_l0_clean ps nkeep ls os ls' os' skip :
  run_l0 ps nkeep ls os = (0, ls', os', skip) ->
  (forall j, (1 <= j)%nat -> level_clean ps (nth j ls [])) ->
  (forall j, level_clean ps (nth j ls' [])).
Proof.
  unfold run_l0. destruct (nth 0 ls []) as [|t0 l0] eqn:E0.
  - intros [= <- <- <-] H j. destruct j as [|j]; [rewrite E0; intros ? []|apply H; lia].
  - destruct os as [|[c out] os1]; [discriminate|].
    cbv zeta. destruct ((pick_check ls c =? 0) || (pick_check ls c =? 2011)) eqn:Epc; cbn [negb];
      [|intros [= Hp0 _ _ _]; rewrite Hp0 in Epc; discriminate].
    destruct ((c_this c =? 0)%nat && negb (c_next c =? 0)%nat) eqn:E1; cbn [negb]; [|discriminate].
    destruct (ids_eqb (ids_of (t0 :: l0)) (c_top c)) eqn:E2; cbn [negb]; [|discriminate].
    destruct (prefixes_eqb (c_drop c) ps) eqn:E4; cbn [negb]; [|discriminate].
    destruct (c_nkeep c =? nkeep) eqn:E5; cbn [negb]; [|discriminate].
    destruct (apply_obs ls c out) as [code ls1] eqn:E6.
    intros [= -> <- <- <-]. apply apply_obs_ok in E6. subst ls1.
    apply andb_true_iff in E1. destruct E1 as [Et En]. apply Nat.eqb_eq in Et.
    apply negb_true_iff, Nat.eqb_neq in En. apply ids_eqb_eq in E2. apply prefixes_eqb_eq in E4.
    intros H j t Ht.
    destruct (Nat.eq_dec j (c_next c)) as [->|Hjn].
    + apply (apply_compaction_next_in ls c t) in Ht. destruct Ht as [[A _]|A].
      * apply (H (c_next c)); [lia|exact A].
      * rewrite <- E4. exact (output_tables_clean ls c t A).
    + destruct (Nat.eq_dec j (c_this c)) as [->|Hjt].
      * exfalso. apply (apply_compaction_this_in ls c t) in Ht; [|congruence].
        destruct Ht as [A B]. rewrite Et, E0 in A. rewrite <- E2 in B.
        rewrite (in_ids_of (t0 :: l0) t A) in B. discriminate.
      * rewrite apply_compaction_other in Ht by assumption.
        apply (H j); [lia|exact Ht].
Qed.

Lemma deep_levels_in ls j : In j (deep_levels ls) <-> (1 <= j < length ls)%nat.
Proof. unfold deep_levels. rewrite <- in_rev, in_seq. lia. Qed.

Lemma deep_levels_nodup ls : NoDup (deep_levels ls).
Proof. unfold deep_levels. apply NoDup_rev, seq_NoDup. Qed.

(* levels.go dropPrefixes, whole: if containsAnyPrefixes is complete on every level >= 1,
   no entry carrying a drop prefix is left anywhere in the tree *)
Theorem drop_levels_clean ps nkeep ls os ls' skip :
  drop_levels ps nkeep ls os = (0, ls', skip) ->
  (forall lvl, (1 <= lvl)%nat -> picker_complete ps (nth lvl ls [])) ->
  forall lvl, level_clean ps (nth lvl ls' []).
Proof.
  unfold drop_levels.
  destruct (run_levels ps nkeep (deep_levels ls) ls os) as [[code ls1] os1] eqn:E1.
  destruct (code =? 0) eqn:Ec; cbn [negb]; [|intros [= ? ? ?]; subst; discriminate].
  apply N.eqb_eq in Ec. subst code.
  destruct (run_l0 ps nkeep ls1 os1) as [[[code0 ls2] os2] sk] eqn:E2.
  destruct (code0 =? 0) eqn:Ec0; cbn [negb]; [|intros [= ? ? ?]; subst; discriminate].
  apply N.eqb_eq in Ec0. subst code0.
  destruct os2; [|discriminate]. intros [= <- <-] Hpc.
  destruct (run_levels_clean ps nkeep (deep_levels ls) ls os ls1 os1 (deep_levels_nodup ls) E1) as [R1 R2].
  { intros lvl Hl. apply Hpc. apply deep_levels_in in Hl. lia. }
  apply (run_l0_clean _ _ _ _ _ _ _ E2). intros j Hj.
  destruct (Nat.lt_ge_cases j (length ls)) as [Hlt|Hge].
  - apply R1. apply deep_levels_in. lia.
  - rewrite R2 by (rewrite deep_levels_in; lia). rewrite nth_overflow by lia. intros ? [].
Qed.

Lemma add_l0_deep ls t j : nth (S j) (add_l0 ls t) [] = nth (S j) ls [].
Proof. destruct ls as [|l0 r]; cbn; [now destruct j|reflexivity]. Qed.

Lemma flush_mems_deep ls ms ids ls0 rest j :
  flush_mems ls ms ids = Some (ls0, rest) -> nth (S j) ls0 [] = nth (S j) ls [].
Proof.
  revert ls ids. induction ms as [|m r IH]; intros ls ids; cbn [flush_mems].
  - now intros [= <- <-].
  - destruct m as [|e m]; [apply IH|].
    destruct ids as [|id ids']; [discriminate|]. intros H. apply IH in H. now rewrite add_l0_deep in H.
Qed.

Lemma mk_lsm_entries ls x :
  In x (all_entries (mkLsm [] [] ls)) -> exists lvl t, In t (nth lvl ls []) /\ In x (t_ents t).
Proof.
  rewrite all_entries_in. cbn [l_mt l_imm l_levels]. intros [[]|[(s & [] & _)|(l & t & A & B & C)]].
  destruct (In_nth ls l [] A) as (n & _ & Hn). exists n, t. rewrite Hn. auto.
Qed.

(* db.go DropPrefix, whole (C29_drop_prefix_removes under the hypothesis excluding F24):
   after an accepted DropPrefix no stored entry carries one of the prefixes that had data *)
Theorem drop_prefix_removes_partial s ps l0ids os s' tags :
  drop_prefix s ps l0ids os = DOk s' tags ->
  let fl := filter_prefixes (s_db s) (view_ts s) (s_now s) ps in
  (fl = [] \/ forall lvl, (1 <= lvl)%nat -> picker_complete fl (nth lvl (l_levels (s_db s)) [])) ->
  (fl = [] -> s' = s) /\
  (fl <> [] -> forall e, In e (all_entries (s_db s')) ->
                 has_any_prefix fl e = false /\ user_has_prefix fl (e_key e) = false).
Proof.
  intros H fl Hpc.
  unfold drop_prefix in H. fold fl in H.
  assert (Hnil: ps = [] -> fl = []) by (intros ->; reflexivity).
  clearbody fl.
  destruct ps as [|p0 ps'].
  { rewrite (Hnil eq_refl). destruct l0ids, os; try discriminate. inversion H; subst.
    split; [auto|intros Hne; congruence]. }
  destruct fl as [|f0 fl'] eqn:Efl.
  { destruct l0ids, os; try discriminate. inversion H; subst. split; [auto|intros Hne; congruence]. }
  split; [discriminate|]. intros _.
  destruct Hpc as [Hpc|Hpc]; [discriminate|].
  destruct (flush_mems _ _ l0ids) as [[ls0 rest]|] eqn:Ef; [|discriminate].
  destruct rest; [|discriminate].
  destruct (drop_levels (f0 :: fl') (s_nkeep s) ls0 os) as [[code ls'] skip] eqn:Ed.
  destruct (code =? 0) eqn:Ec; [|discriminate]. apply N.eqb_eq in Ec. subst code.
  inversion H; subst s' tags. cbn [set_db_writes s_db].
  intros e He. apply mk_lsm_entries in He. destruct He as (lvl & t & Ht & Hx).
  assert (Hclean: has_any_prefix (f0 :: fl') e = false).
  { eapply (drop_levels_clean _ _ _ _ _ _ Ed); eauto.
    intros l Hl. destruct l as [|l]; [lia|]. rewrite (flush_mems_deep _ _ _ _ _ l Ef). apply Hpc. lia. }
  split; auto.
  destruct (user_has_prefix (f0 :: fl') (e_key e)) eqn:U; auto.
  apply user_has_prefix_internal in U. congruence.
Qed.

(* the same statement without picker completeness is false: finding F24.  One table
   [a@1, ab@2, b@3] at the last level, DropPrefix("ab"): containsPrefix compares "ab" with
   the smallest INTERNAL key "a\xff..\xfe", finds it smaller and never looks inside *)
Definition f24_table : table :=
  mkT 2 [mkE [97] 1 0 0 0 [1]; mkE [97; 98] 2 0 0 0 [2]; mkE [98] 3 0 0 0 [3]].
Definition f24_sys : sys :=
  mkSys (mkLsm [] [] [[]; []; []; [f24_table]]) 4 [] [] false true 1 0 [] 0.

Theorem drop_prefix_removes_refuted :
  exists s ps s' tags,
    drop_prefix s ps [] [] = DOk s' tags /\
    filter_prefixes (s_db s) (view_ts s) (s_now s) ps = ps /\ ps <> [] /\
    exists e, In e (all_entries (s_db s')) /\ user_has_prefix ps (e_key e) = true.
Proof.
  exists f24_sys, [[97; 98]]. eexists. eexists.
  split; [vm_compute; reflexivity|].
  split; [vm_compute; reflexivity|].
  split; [discriminate|].
  exists (mkE [97; 98] 2 0 0 0 [2]). split; [vm_compute; tauto|reflexivity].
Qed.

(* ======================= D. DropAll ======================= *)

Lemma levels_srcs_empty lvl (ls : list (list table)) :
  concat (levels_srcs lvl (map (fun _ => []) ls)) = [].
Proof.
  revert lvl. induction ls as [|l r IH]; intros lvl; cbn [map levels_srcs]; auto.
  rewrite concat_app, IH, app_nil_r. destruct lvl; reflexivity.
Qed.

Theorem drop_all_empty s : all_entries (s_db (drop_all s)) = [].
Proof. unfold drop_all, all_entries, all_srcs. cbn. apply levels_srcs_empty. Qed.

Lemma level_cands_empty lvl (ls : list (list table)) k ts :
  scan (level_cands lvl (map (fun _ => []) ls) k ts) ts None = None.
Proof.
  revert lvl. induction ls as [|l r IH]; intros lvl; cbn [map level_cands scan]; auto.
  replace (level_get lvl [] k ts) with (@None entry) by (destruct lvl; reflexivity). apply IH.
Qed.

Theorem drop_all_reads_nothing s k ts : db_get (s_db (drop_all s)) k ts = None.
Proof. unfold drop_all, db_get, cands, mem_cands. cbn. apply level_cands_empty. Qed.

(* the oracle, the open transactions and the options are untouched: the state after a drop
   is an ordinary state, and a write committed afterwards is read back *)
Theorem drop_all_keeps_oracle s :
  s_next (drop_all s) = s_next s /\ s_txns (drop_all s) = s_txns s /\
  s_committed (drop_all s) = s_committed s /\ s_managed (drop_all s) = s_managed s.
Proof. repeat split. Qed.

Lemma level_cands_scan_none lvl (ls : list (list table)) k ts b :
  scan (level_cands lvl (map (fun _ => []) ls) k ts) ts b = b.
Proof.
  revert lvl. induction ls as [|l r IH]; intros lvl; cbn [map level_cands scan]; auto.
  replace (level_get lvl [] k ts) with (@None entry) by (destruct lvl; reflexivity). apply IH.
Qed.

Theorem write_after_drop_all s e ts :
  e_ver e <= ts ->
  db_get (apply_entries (s_db (drop_all s)) [e]) (e_key e) ts = Some e.
Proof.
  intros Hv. unfold drop_all, apply_entries, db_get, cands, mem_cands. cbn [s_db set_db_writes l_mt l_imm l_levels fold_left mt_put rev map app].
  unfold src_get. cbn [seek_ge]. unfold key_le, key_order. rewrite lex_cmp_refl.
  assert (Hc: match e_ver e ?= ts with Gt => false | _ => true end = true).
  { destruct (e_ver e ?= ts) eqn:C; try reflexivity. rewrite N.compare_gt_iff in C. lia. }
  rewrite Hc, bytes_eqb_refl. cbn [scan].
  destruct (e_ver e =? ts); [reflexivity|]. cbn [better].
  apply level_cands_scan_none.
Qed.

(* ======================= E. crash cuts of DropAll ======================= *)

Lemma recover_persist d : recover (persist_of d) = d.
Proof.
  unfold recover, persist_of. cbn [p_wal p_levels]. rewrite rev_app_distr. cbn [rev app].
  rewrite rev_involutive. now destruct d.
Qed.

(* F15: the tree [k@2 in the memtable, k@1 in an L0 table]; dropAll's first persistence
   effect removes the memtable's WAL; a crash right after it re-opens with k@1 — neither
   the pre-drop value (k@2) nor nothing *)
Theorem crash_refuted :
  exists d cut k ts now,
    let r := read_at (crash_after (persist_of d) dropall_events cut) k ts now in
    r <> read_at d k ts now /\ r <> None.
Proof.
  exists (mkLsm [mkE [107] 2 0 0 0 [118; 50]] [] [[mkT 1 [mkE [107] 1 0 0 0 [118; 49]]]; []]), 1%nat, [107], 9, 0.
  split; vm_compute; discriminate.
Qed.

Definition mem_entries (d : lsm) : list entry := l_mt d ++ concat (rev (l_imm d)).
Definition table_entries (d : lsm) : list entry := concat (levels_srcs 0 (l_levels d)).

Lemma all_entries_split d : all_entries d = mem_entries d ++ table_entries d.
Proof.
  unfold all_entries, all_srcs, mem_entries, table_entries. cbn [concat].
  now rewrite concat_app, app_assoc.
Qed.

(* versions in the memtables are not older than versions of the same key in the tables
   (true when commit timestamps grow: normal mode, monotone managed mode) *)
Definition mem_newer (d : lsm) : Prop :=
  forall m t, In m (mem_entries d) -> In t (table_entries d) -> e_key m = e_key t -> e_ver t <= e_ver m.

Definition emptied (d : lsm) : lsm := mkLsm (l_mt d) (l_imm d) (map (fun _ => []) (l_levels d)).

Lemma emptied_wf d : lsm_wf d -> lsm_wf (emptied d).
Proof.
  unfold lsm_wf, emptied. cbn [l_mt l_imm l_levels]. intros (A & B & C). split; [exact A|split; [exact B|]].
  destruct (l_levels d) as [|l0 rest]; cbn [map]; auto. split; [constructor|].
  clear. induction rest as [|x r IH]; cbn [map]; constructor; auto.
  split; [constructor|constructor].
Qed.

Lemma emptied_entries d : all_entries (emptied d) = mem_entries d.
Proof.
  rewrite all_entries_split. unfold table_entries, mem_entries, emptied. cbn [l_mt l_imm l_levels].
  now rewrite levels_srcs_empty, app_nil_r.
Qed.

Lemma emptied_get d k ts :
  lsm_wf d -> mem_newer d ->
  db_get (emptied d) k ts = db_get d k ts \/ db_get (emptied d) k ts = None.
Proof.
  intros Hwf Hm. rewrite (db_get_newest (emptied d)) by now apply emptied_wf.
  rewrite (db_get_newest d) by assumption. rewrite emptied_entries, all_entries_split, newest_app.
  destruct (newest (mem_entries d) k ts) as [m|] eqn:Em; [left|now right].
  destruct (newest (table_entries d) k ts) as [t|] eqn:Et; [|reflexivity].
  apply newest_some in Em, Et. destruct Em as (A1 & A2 & _). destruct Et as (B1 & B2 & _).
  cbn [better]. assert (L: (e_ver m <? e_ver t) = false).
  { apply N.ltb_ge. apply Hm; auto. congruence. }
  now rewrite L.
Qed.

Lemma read_at_cases d d' k ts now :
  db_get d' k ts = db_get d k ts \/ db_get d' k ts = None ->
  read_at d' k ts now = read_at d k ts now \/ read_at d' k ts now = None.
Proof. unfold read_at. intros [->| ->]; auto. Qed.

Lemma empty_tree_get (ls : list (list table)) m k ts :
  m = [] \/ m = [[]] ->
  read_at (recover (mkP m (map (fun _ => []) ls))) k ts 0 = None
  /\ forall now, read_at (recover (mkP m (map (fun _ => []) ls))) k ts now = None.
Proof.
  intros [->| ->]; unfold recover, read_at, db_get, cands, mem_cands; cbn [p_wal p_levels rev app l_mt l_imm l_levels map src_get seek_ge];
    cbn [scan]; rewrite level_cands_scan_none; auto.
Qed.

(* with the MANIFEST written first (the reordered variant), every crash cut of DropAll
   leaves each key with its pre-drop value or absent — C29_crash_partial *)
Theorem crash_fixed_partial d cut k ts now :
  lsm_wf d -> mem_newer d ->
  let r := read_at (crash_after (persist_of d) dropall_events_fixed cut) k ts now in
  r = read_at d k ts now \/ r = None.
Proof.
  intros Hwf Hm. unfold crash_after, dropall_events_fixed.
  destruct cut as [|[|[|cut]]]; cbn [firstn fold_left papply].
  - left. now rewrite recover_persist.
  - change (mkP (p_wal (persist_of d)) (map (fun _ => []) (p_levels (persist_of d)))) with (persist_of (emptied d)).
    rewrite recover_persist. apply read_at_cases. now apply emptied_get.
  - right. cbn [p_wal p_levels persist_of]. apply (empty_tree_get (l_levels d) [] k ts). now left.
  - right. replace (firstn cut []) with (@nil pevent) by now destruct cut. cbn [fold_left papply p_wal p_levels persist_of app].
    apply (empty_tree_get (l_levels d) [[]] k ts). now right.
Qed.

(* the same order of effects as coded, but cut AFTER the MANIFEST drop or BEFORE the WAL
   removal, is harmless as well: only the window between the two is exposed *)
Theorem crash_coded_outside_window d cut k ts now :
  cut <> 1%nat -> cut <> 2%nat ->
  let r := read_at (crash_after (persist_of d) dropall_events cut) k ts now in
  r = read_at d k ts now \/ r = None.
Proof.
  intros H1 H2. unfold crash_after, dropall_events.
  destruct cut as [|[|[|cut]]]; try congruence; cbn [firstn fold_left papply].
  - left. now rewrite recover_persist.
  - right. replace (firstn cut []) with (@nil pevent) by now destruct cut. cbn [fold_left papply p_wal p_levels persist_of app].
    apply (empty_tree_get (l_levels d) [[]] k ts). now right.
Qed.

(* ======================= F. reads across one drop compaction ======================= *)

(* C12's compaction theorem with drop prefixes: a key none of whose versions in the
   compaction inputs carries a prefix reads the same afterwards (ts >= discard) *)
Theorem drop_compaction_preserves_other_get d d' p inputs O k ts now' :
  lsm_wf d -> lsm_wf d' ->
  Forall sorted inputs ->
  nodup_kv (all_entries d) ->
  (forall x, In x (all_entries d) <-> In x (concat inputs ++ O)) ->
  (forall x, In x (all_entries d') <-> In x (compact_filter p (merge_all inputs) ++ O)) ->
  (forall e, In e (concat inputs) -> dead_marker p e -> cp_overlap p = false ->
     forall o, In o O -> e_key o = e_key e -> e_ver e < e_ver o) ->
  cp_discard p <= ts -> cp_now p <= now' ->
  (forall e, In e (concat inputs) -> e_key e = k -> has_any_prefix (cp_drop p) e = false) ->
  vis_of now' (db_get d' k ts) = vis_of now' (db_get d k ts).
Proof.
  intros Hwf Hwf' Hin Hnd Hbefore Hafter HR Hts Hnow Hk.
  rewrite !db_get_newest by assumption.
  set (m := merge_all inputs).
  assert (Hnd1: nodup_kv (concat inputs ++ O)) by (eapply nodup_kv_ext; eauto).
  assert (Hndc: nodup_kv (concat inputs)).
  { intros a b Ha Hb. apply Hnd1; apply in_or_app; now left. }
  assert (Hm: forall x, In x m <-> In x (concat inputs)).
  { intros x. split; [apply merge_all_in|now apply merge_all_complete]. }
  assert (HmO: forall x, In x (m ++ O) <-> In x (concat inputs ++ O)).
  { intros x. rewrite !in_app_iff, Hm. tauto. }
  assert (Hnd2: nodup_kv (m ++ O)).
  { eapply nodup_kv_ext; [|exact Hnd1]. intros x. symmetry. apply HmO. }
  rewrite (newest_ext (all_entries d) (m ++ O)); auto.
  2:{ intros x. rewrite Hbefore. symmetry. apply HmO. }
  assert (Hnd3: nodup_kv (compact_filter p m ++ O)).
  { intros a b Ha Hb. apply Hnd2; apply in_app_or in Ha, Hb; apply in_or_app.
    - destruct Ha as [Ha|Ha]; [left; eapply filter_run_sub; eauto|now right].
    - destruct Hb as [Hb|Hb]; [left; eapply filter_run_sub; eauto|now right]. }
  rewrite (newest_ext (all_entries d') (compact_filter p m ++ O)); auto.
  2:{ eapply nodup_kv_ext; [|exact Hnd3]. intros x. symmetry. apply Hafter. }
  apply drop_filter_preserves_other_reads; auto.
  - now apply merge_all_sorted.
  - intros e He. apply HR. now apply Hm.
  - intros e He. apply Hk. now apply Hm.
Qed.

(* once no stored entry carries a prefix, a key with the prefix is not found at any ts *)
Theorem dropped_key_not_found d ps k ts :
  lsm_wf d ->
  (forall e, In e (all_entries d) -> user_has_prefix ps (e_key e) = false) ->
  user_has_prefix ps k = true ->
  db_get d k ts = None.
Proof.
  intros Hwf Hclean Hk. rewrite db_get_newest by assumption.
  destruct (newest (all_entries d) k ts) as [e|] eqn:E; auto.
  apply newest_some in E. destruct E as (A & B & _). specialize (Hclean e A). congruence.
Qed.
