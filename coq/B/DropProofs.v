(* DropProofs.v — proofs about Drop.v: what the drop filter removes and keeps, the exact
   condition under which a prefix reaches into the version suffix (F20), the table picker of
   dropPrefixes (F24), DropAll, crash cuts of DropAll (F15). *)
From Verif Require Import Bytes BytesProofs Keys C20Proofs Consts Spec Lsm Compact Iter Sys
     LsmProofs CompactProofs GetProofs MergeProofs C12Proofs Drop.
From Coq Require Import ZifyN ZifyNat ZifyBool Sorting.Sorted.
Open Scope N_scope.

(* ======================= A. prefixes and internal keys ======================= *)

Lemma is_prefix_nil_r p : is_prefix p [] = match p with [] => true | _ => false end.
Proof. destruct p; reflexivity. Qed.

(* a prefix of k ++ s either lies inside k, or covers k and continues into s *)
Lemma is_prefix_app_split p k s :
  is_prefix p (k ++ s) =
  if (length p <=? length k)%nat then is_prefix p k
  else is_prefix k p && is_prefix (skipn (length k) p) s.
Proof.
  revert k. induction p as [|x p IH]; intros k.
  - cbn. reflexivity.
  - destruct k as [|y k].
    + cbn [app length Nat.leb is_prefix skipn andb]. reflexivity.
    + cbn [app length is_prefix skipn]. rewrite IH.
      change (S (length p) <=? S (length k))%nat with (length p <=? length k)%nat.
      destruct (length p <=? length k)%nat; [reflexivity|].
      rewrite andb_assoc. now rewrite (N.eqb_sym y x).
Qed.

Lemma is_prefix_length p l : is_prefix p l = true -> (length p <= length l)%nat.
Proof.
  revert l. induction p as [|x p IH]; intros l H; cbn; [lia|].
  destruct l as [|y l]; cbn in H; [discriminate|].
  apply andb_true_iff in H. destruct H as [_ H]. apply IH in H. cbn. lia.
Qed.

(* requested => coded: a user key with the prefix has an internal key with the prefix *)
Lemma user_prefix_internal p e : is_prefix p (e_key e) = true -> is_prefix p (ikey e) = true.
Proof.
  intros H. unfold ikey, key_with_ts. rewrite is_prefix_app_split.
  apply is_prefix_length in H as L.
  assert (E: (length p <=? length (e_key e))%nat = true) by (apply Nat.leb_le; lia).
  now rewrite E.
Qed.

Lemma user_has_prefix_internal ps e : user_has_prefix ps (e_key e) = true -> has_any_prefix ps e = true.
Proof.
  unfold user_has_prefix, has_any_prefix. rewrite !existsb_exists.
  intros (p & Hin & Hp). exists p. split; auto. now apply user_prefix_internal.
Qed.

(* F20, exactly: the internal key carries prefix p while the user key does not iff p is the
   user key followed by a non-empty prefix of the 8 version bytes *)
Theorem suffix_match_exact p e :
  (is_prefix p (ikey e) = true /\ is_prefix p (e_key e) = false) <->
  ((length (e_key e) < length p)%nat /\ is_prefix (e_key e) p = true /\
   is_prefix (skipn (length (e_key e)) p) (be_enc 8 (max_u64 - e_ver e)) = true).
Proof.
  unfold ikey, key_with_ts. rewrite is_prefix_app_split.
  destruct (length p <=? length (e_key e))%nat eqn:L.
  - apply Nat.leb_le in L. split.
    + intros [A B]. congruence.
    + intros [A _]. lia.
  - apply Nat.leb_gt in L. rewrite andb_true_iff. split.
    + intros [[A B] _]. auto.
    + intros (_ & A & B). split; auto.
      destruct (is_prefix p (e_key e)) eqn:E; auto. apply is_prefix_length in E. lia.
Qed.

(* hence: when no drop prefix properly extends the user key, coded = requested on that key *)
Definition no_extension (ps : list bytes) (k : bytes) : Prop :=
  forall p, In p ps -> is_prefix k p = true -> (length p <= length k)%nat.

Lemma has_any_prefix_user ps e :
  no_extension ps (e_key e) -> has_any_prefix ps e = user_has_prefix ps (e_key e).
Proof.
  intros H. unfold has_any_prefix, user_has_prefix.
  induction ps as [|p ps IH]; cbn [existsb]; auto.
  rewrite IH by (intros q Hq; apply H; now right). f_equal.
  fold (ikey e). unfold ikey, key_with_ts. rewrite is_prefix_app_split.
  destruct (length p <=? length (e_key e))%nat eqn:L; auto.
  apply Nat.leb_gt in L. destruct (is_prefix (e_key e) p) eqn:E; cbn [andb].
  - specialize (H p (or_introl eq_refl) E). lia.
  - destruct (is_prefix p (e_key e)) eqn:E2; auto. apply is_prefix_length in E2. lia.
Qed.

(* ======================= B. the compaction filter with drop prefixes ======================= *)

Definition nodrop (p : cparams) : cparams :=
  mkCP (cp_discard p) (cp_nkeep p) (cp_overlap p) [] (cp_now p).

Definition unmatched (ps : list bytes) (e : entry) : bool := negb (has_any_prefix ps e).

(* the filter with drop prefixes = the plain filter run on the entries matching no prefix:
   a matching entry is skipped before it can touch the filter state *)
Lemma filter_step_matched p st e :
  has_any_prefix (cp_drop p) e = true -> filter_step p st e = (st, false).
Proof. unfold filter_step. now intros ->. Qed.

Lemma filter_step_unmatched p st e :
  has_any_prefix (cp_drop p) e = false -> filter_step p st e = filter_step (nodrop p) st e.
Proof. unfold filter_step. intros ->. reflexivity. Qed.

Lemma filter_run_drop_eq p st s :
  filter_run p st s = filter_run (nodrop p) st (filter (unmatched (cp_drop p)) s).
Proof.
  revert st. induction s as [|e s IH]; intros st; cbn [filter_run filter]; auto.
  unfold unmatched at 1. destruct (has_any_prefix (cp_drop p) e) eqn:M; cbn [negb].
  - rewrite filter_step_matched by assumption. apply IH.
  - cbn [filter_run]. rewrite filter_step_unmatched by assumption.
    destruct (filter_step (nodrop p) st e) as [st' keep]. destruct keep; now rewrite IH.
Qed.

Theorem compact_filter_drop_eq p m :
  compact_filter p m = compact_filter (nodrop p) (filter (unmatched (cp_drop p)) m).
Proof. apply filter_run_drop_eq. Qed.

(* nothing the filter writes out carries a drop prefix, and everything comes from the input *)
Theorem drop_filter_removes p m e :
  In e (compact_filter p m) -> has_any_prefix (cp_drop p) e = false /\ In e m.
Proof.
  rewrite compact_filter_drop_eq. intros H.
  unfold compact_filter in H. apply filter_run_sub in H. apply filter_In in H. destruct H as [H1 H2].
  unfold unmatched in H2. apply negb_true_iff in H2. auto.
Qed.

Corollary drop_filter_removes_user p m e :
  In e (compact_filter p m) -> user_has_prefix (cp_drop p) (e_key e) = false.
Proof.
  intros H. apply drop_filter_removes in H. destruct H as [H _].
  destruct (user_has_prefix (cp_drop p) (e_key e)) eqn:E; auto.
  apply user_has_prefix_internal in E. congruence.
Qed.

Lemma sorted_filter (f : entry -> bool) (s : src) : sorted s -> sorted (filter f s).
Proof.
  induction s as [|x s IH]; cbn; intros H; [constructor|].
  inversion H as [|? ? Hs Hall]; subst. destruct (f x); [|now apply IH].
  constructor; [now apply IH|]. rewrite Forall_forall in Hall. apply Forall_forall.
  intros y Hy. apply filter_In in Hy. apply Hall. tauto.
Qed.

Lemma filter_cand_unmatched ps m k ts :
  (forall e, In e m -> e_key e = k -> has_any_prefix ps e = false) ->
  filter (cand k ts) (filter (unmatched ps) m) = filter (cand k ts) m.
Proof.
  induction m as [|x m IH]; intros H; cbn [filter]; auto.
  assert (IH': filter (cand k ts) (filter (unmatched ps) m) = filter (cand k ts) m).
  { apply IH. intros e He. apply H. now right. }
  unfold unmatched at 1. destruct (has_any_prefix ps x) eqn:M; cbn [negb].
  - destruct (cand k ts x) eqn:C; auto. exfalso.
    unfold cand in C. apply andb_true_iff in C. destruct C as [C _]. apply bytes_eqb_eq in C.
    rewrite (H x (or_introl eq_refl) C) in M. discriminate.
  - cbn [filter]. now rewrite IH'.
Qed.

Lemma newest_unmatched ps m O k ts :
  (forall e, In e m -> e_key e = k -> has_any_prefix ps e = false) ->
  newest (filter (unmatched ps) m ++ O) k ts = newest (m ++ O) k ts.
Proof.
  intros H. unfold newest. rewrite !filter_app. now rewrite filter_cand_unmatched.
Qed.

(* entries matching no prefix are treated exactly as by a compaction without drop prefixes:
   a key none of whose versions in the compaction carries a prefix reads the same afterwards,
   at every timestamp at or above the discard timestamp *)
Theorem drop_filter_preserves_other_reads p m O k ts now' :
  sorted m ->
  nodup_kv (m ++ O) ->
  (forall e, In e m -> dead_marker p e -> cp_overlap p = false ->
     forall o, In o O -> e_key o = e_key e -> e_ver e < e_ver o) ->
  cp_discard p <= ts -> cp_now p <= now' ->
  (forall e, In e m -> e_key e = k -> has_any_prefix (cp_drop p) e = false) ->
  vis_of now' (newest (compact_filter p m ++ O) k ts) = vis_of now' (newest (m ++ O) k ts).
Proof.
  intros Hs Hnd HR Hts Hnow Hk.
  rewrite compact_filter_drop_eq.
  set (m' := filter (unmatched (cp_drop p)) m).
  assert (Hsub: forall x, In x m' -> In x m) by (intros x Hx; apply filter_In in Hx; tauto).
  rewrite (filter_preserves_reads (nodrop p) eq_refl m' O k ts now').
  - unfold m'. now rewrite newest_unmatched.
  - now apply sorted_filter.
  - intros a b Ha Hb. apply Hnd; apply in_app_or in Ha, Hb; apply in_or_app.
    + destruct Ha; auto.
    + destruct Hb; auto.
  - intros e He Hd Ho. apply HR; auto.
  - exact Hts.
  - exact Hnow.
Qed.

(* the property as requested (user keys), under the hypothesis that excludes F20 *)
Corollary drop_filter_preserves_other_keys_partial p m O k ts now' :
  sorted m -> nodup_kv (m ++ O) ->
  (forall e, In e m -> dead_marker p e -> cp_overlap p = false ->
     forall o, In o O -> e_key o = e_key e -> e_ver e < e_ver o) ->
  cp_discard p <= ts -> cp_now p <= now' ->
  user_has_prefix (cp_drop p) k = false ->
  no_extension (cp_drop p) k ->
  vis_of now' (newest (compact_filter p m ++ O) k ts) = vis_of now' (newest (m ++ O) k ts).
Proof.
  intros Hs Hnd HR Hts Hnow Hu Hne. apply drop_filter_preserves_other_reads; auto.
  intros e _ Ek. rewrite has_any_prefix_user; rewrite Ek; auto.
Qed.

(* the same statement WITHOUT no_extension is false: the F20 witness.  Key "a" (0x61) at
   version 1, drop prefix "a\xff": "a" does not start with it, yet its only version goes *)
Theorem other_keys_unchanged_refuted :
  exists p m O k ts now',
    sorted m /\ nodup_kv (m ++ O) /\
    (forall e, In e m -> dead_marker p e -> cp_overlap p = false ->
       forall o, In o O -> e_key o = e_key e -> e_ver e < e_ver o) /\
    cp_discard p <= ts /\ cp_now p <= now' /\
    user_has_prefix (cp_drop p) k = false /\
    vis_of now' (newest (compact_filter p m ++ O) k ts) <> vis_of now' (newest (m ++ O) k ts).
Proof.
  exists (mkCP 0 1 false [[97; 255]] 0), [mkE [97] 1 0 0 0 [118]], [], [97], 5, 0.
  split; [repeat constructor|].
  split; [intros a b [<-|[]] [<-|[]]; auto|].
  split; [intros e _ _ _ o []|].
  split; [vm_compute; discriminate|].
  split; [vm_compute; discriminate|].
  split; [reflexivity|].
  vm_compute. discriminate.
Qed.
