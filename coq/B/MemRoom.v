(* MemRoom.v — room for writes: memTable.isFull, DB.ensureRoomForWrite, the skiplist arena.

   The system model `Sys` / `SysMode` rotates the memtable only where a history says `Flush`.
   This file adds what the code does on its own: before every write request
   (db.go writeRequests) ensureRoomForWrite asks memTable.isFull and, when the answer is yes,
   hands the memtable to the flusher and installs a new one.  isFull looks at two byte
   counters, modelled here exactly:
     r_sl   Skiplist.MemSize() = Arena.size() of the active memtable
     r_wal  logFile.writeAt of its WAL (on disk only; there is no WAL in InMemory mode)

   memtable.go
     func (mt *memTable) isFull() bool {
         if mt.sl.MemSize() >= mt.opt.MemTableSize { return true }
         if mt.opt.InMemory { return false }          // InMemory mode doesn't have any WAL
         return int64(mt.wal.writeAt) >= mt.opt.MemTableSize }
   db.go
     func arenaSize(opt Options) int64 {
         return opt.MemTableSize + opt.maxBatchSize + opt.maxBatchCount*int64(skl.MaxNodeSize) }
     checkAndSetOptions: opt.maxBatchSize = (15 * opt.MemTableSize) / 100
                         opt.maxBatchCount = opt.maxBatchSize / int64(skl.MaxNodeSize)
   skl/arena.go: putNode / putKey / putVal add to Arena.n and y.AssertTruef(n <= len(buf),
     "Arena too small ...") — log.Fatalf, the process exits: result VDied 1 below.

   A volume history is a SysMode history whose commits carry the room observations:
   `VCommit t cts r rot hs sl wal` = Commit t cts r, during which the active memtable was
   (rot = Some id: handed to the flusher, which built table id) or was not (None) rotated, the
   nodes of the written entries got tower heights hs (skl randomHeight: the implementation's
   choice, an input of the model), and afterwards MemSize() = sl, wal.writeAt = wal. *)
From Verif Require Import Bytes Uvarint Keys Consts Spec Lsm Compact Iter Sys SysMode.
Open Scope N_scope.

(* ---- constants ---- *)
(* skl.MaxNodeSize = unsafe.Sizeof(node{}): value atomic.Uint64 (8) + keyOffset uint32 (4) +
   keySize uint16 (2) + height uint16 (2) + tower [maxHeight]atomic.Uint32 (20 * 4); the
   correspondence compares it with the value the implementation reports *)
Definition c_offsetSize : N := 4.
Definition c_maxNodeSize : N := 8 + 4 + 2 + 2 + c_maxHeight * c_offsetSize.
Definition c_nodeAlign : N := 7.          (* skl/arena.go: int(unsafe.Sizeof(uint64(0))) - 1 *)
Definition c_vptrSize : N := 12.          (* structs.go: unsafe.Sizeof(valuePointer{}) = 3 * uint32 *)
Definition c_crcSize : N := 4.            (* crc32.Size *)

Record rcfg := mkRC { rc_m : mcfg; rc_mts : N }.    (* mode + value threshold, Options.MemTableSize *)

Definition max_batch_size (mts : N) : N := 15 * mts / 100.
Definition max_batch_count (mts : N) : N := max_batch_size mts / c_maxNodeSize.
Definition arena_size (mts : N) : N := mts + max_batch_size mts + max_batch_count mts * c_maxNodeSize.

(* ---- sizes of one entry ---- *)
Definition uvl (x : N) : N := N.of_nat (size_varint x).          (* y.sizeVarint = len of PutUvarint *)
Definition klen (e : entry) : N := N.of_nat (length (e_key e)).
Definition ikey_len (e : entry) : N := klen e + 8.               (* y.KeyWithTs *)

(* what writeToLSM puts into the memtable as the value: the value itself, or the encoded
   value pointer (on disk, len(value) >= threshold) *)
Definition stored_vlen (c : mcfg) (e : entry) : N :=
  match placement c e with Some InVlog => c_vptrSize | _ => vlen e end.

(* y.ValueStruct.EncodedSize: len(Value) + 2 (meta, usermeta) + sizeVarint(ExpiresAt) *)
Definition enc_size (c : mcfg) (e : entry) : N := stored_vlen c e + 2 + uvl (e_exp e).

(* Arena.putNode(height): MaxNodeSize - (maxHeight - height) * offsetSize + nodeAlign *)
Definition node_size (h : N) : N := c_maxNodeSize - (c_maxHeight - h) * c_offsetSize + c_nodeAlign.

(* skl.NewSkiplist: newArena sets n = 1; head = newNode(arena, nil, y.ValueStruct{}, maxHeight)
   = putNode(20) + putKey(nil) + putVal(EncodedSize 0 + 2 + 1) *)
Definition sl_empty : N := 1 + node_size c_maxHeight + 0 + (0 + 2 + 1).

(* Entry.estimateSizeAndSetThreshold on the entry as sendToWriteCh sees it (key with ts) *)
Definition est_size (c : mcfg) (e : entry) : N := ikey_len e + stored_vlen c e + 2.

(* ---- Skiplist.Put ---- *)
Definition mt_has (mt : src) (e : entry) : bool :=
  existsb (fun x => match ent_cmp e x with Eq => true | _ => false end) mt.

(* a node with this key@version exists: setValue = putVal only; else newNode = putNode +
   putKey + putVal *)
Definition sl_put (c : mcfg) (mt : src) (sl : N) (e : entry) (h : N) : N :=
  if mt_has mt e then sl + enc_size c e
  else sl + node_size h + ikey_len e + enc_size c e.

(* writeToLSM: the entries of one request, in order; hs = the heights randomHeight returned *)
Fixpoint sl_puts (c : mcfg) (mt : src) (sl : N) (es : list entry) (hs : list N) : N :=
  match es with
  | [] => sl
  | e :: r => sl_puts c (mt_put mt e) (sl_put c mt sl e (hd 1 hs)) r (tl hs)
  end.

(* ---- the WAL (memTable.Put -> logFile.writeEntry -> encodeEntry), disk mode ---- *)
(* header.Encode: meta, usermeta, uvarint(klen), uvarint(vlen), uvarint(expiresAt) *)
Definition wal_rec (kl vl exp : N) : N := (2 + uvl kl + uvl vl + uvl exp) + kl + vl + c_crcSize.
Definition wal_entry (c : mcfg) (e : entry) : N := wal_rec (ikey_len e) (stored_vlen c e) (e_exp e).

(* strconv.FormatUint(commitTs, 10) *)
Fixpoint dec_len_f (fuel : nat) (x : N) : N :=
  match fuel with
  | O => 1
  | S f => if x <? 10 then 1 else 1 + dec_len_f f (x / 10)
  end.
Definition dec_len (x : N) : N := dec_len_f 20 x.

(* txn.go commitAndSend: when no entry carried its own version (keepTogether) the request ends
   with the entry {Key: KeyWithTs(txnKey, commitTs), Value: decimal commitTs, meta: bitFinTxn};
   memTable.Put writes it to the WAL and not to the skiplist *)
Definition fin_klen : N := N.of_nat (length c_txnKey) + 8.
Definition wal_fin (cts : N) : N := wal_rec fin_klen (dec_len cts) 0.
Definition est_fin (cts : N) : N := fin_klen + dec_len cts + 2.

Definition keep_together (s : sys) (t : N) : bool :=
  match lookup (s_txns s) t with
  | Some x => forallb (fun e => e_ver e =? 0) (map snd (x_pend x) ++ x_dups x)
  | None => true
  end.

Definition wal_batch (c : mcfg) (es : list entry) (fin : bool) (cts : N) : N :=
  fold_left (fun a e => a + wal_entry c e) es 0 + (if fin then wal_fin cts else 0).

(* db.go sendToWriteCh: count >= maxBatchCount || size >= maxBatchSize -> ErrTxnTooBig *)
Definition batch_ok (c : rcfg) (es : list entry) (fin : bool) (cts : N) : bool :=
  (N.of_nat (length es) + (if fin then 1 else 0) <? max_batch_count (rc_mts c))
  && (fold_left (fun a e => a + est_size (rc_m c) e) es 0 + (if fin then est_fin cts else 0)
      <? max_batch_size (rc_mts c)).

(* ---- memTable.isFull ---- *)
Definition is_full (c : rcfg) (sl wal : N) : bool :=
  if rc_mts c <=? sl then true
  else if mc_inmem (rc_m c) then false
  else rc_mts c <=? wal.

(* ---- the state ---- *)
Record room := mkR {
  r_m : msys;
  r_sl : N;            (* db.mt.sl.MemSize() *)
  r_wal : N;           (* db.mt.wal.writeAt; 0 in InMemory mode *)
  r_rot : N;           (* ghost: rotations done by ensureRoomForWrite *)
  r_since : N }.       (* ghost: value bytes put into the active memtable since it was installed *)

(* openMemTable: writeAt = vlogHeaderSize *)
Definition wal_empty (c : rcfg) : N := if mc_inmem (rc_m c) then 0 else c_vlogHeaderSize.

Definition init_room (c : rcfg) (managed detect : bool) (nkeep : N) (nlevels : nat) (next : N) : room :=
  mkR (init_msys (rc_m c) managed detect nkeep nlevels next) sl_empty (wal_empty c) 0 0.

Inductive vop :=
| VX (o : xop)
| VCommit (t cts r : N) (rot : option N) (hs : list N) (sl wal : N).

(* VDied 1: "Arena too small" (y.AssertTruef = log.Fatalf); VDied 2: the Go panic of finding F17 *)
Inductive vresult := VOk (r : room) | VBad (code : N) | VDied (why : N).

Definition lift (c : rcfg) (r : room) (o : xop) (sl wal rot since : N) : vresult :=
  match mstep (rc_m c) (r_m r) o with
  | MOk m' => VOk (mkR m' sl wal rot since)
  | MBad code => VBad code
  | MPanic => VDied 2
  end.

Definition val_bytes (c : mcfg) (es : list entry) : N := fold_left (fun a e => a + stored_vlen c e) es 0.

(* db.go ensureRoomForWrite, as one atomic step of a sequential history: the full memtable
   goes to the flusher (Sys: rotate + flush_oldest, table `id`), a new one is installed *)
Definition ensure_room (c : rcfg) (r : room) (rot : option N) : vresult :=
  match is_full c (r_sl r) (r_wal r), rot with
  | true, Some id => lift c r (Base (Flush id)) sl_empty (wal_empty c) (r_rot r + 1) 0
  | false, None => VOk r
  | true, None => VBad 51        (* a full memtable was not rotated *)
  | false, Some _ => VBad 53     (* a memtable that is not full was rotated *)
  end.

(* the counters after writeToLSM of the request `es` into the state r1 *)
Definition sl_after (c : rcfg) (r1 : room) (es : list entry) (hs : list N) : N :=
  sl_puts (rc_m c) (l_mt (s_db (m_sys (r_m r1)))) (r_sl r1) es hs.
Definition wal_after (c : rcfg) (r1 : room) (es : list entry) (fin : bool) (cts : N) : N :=
  if mc_inmem (rc_m c) then 0 else r_wal r1 + wal_batch (rc_m c) es fin cts.

Definition vstep (c : rcfg) (r : room) (o : vop) : vresult :=
  let s := m_sys (r_m r) in
  match o with
  | VX (Base (Commit _ _ _)) => VBad 59     (* commits of a volume history are VCommit labels *)
  | VX (Base (Flush id)) =>
      (* VerifFlushMemtable: the rotation without the isFull test; an empty memtable stays *)
      match l_mt (s_db s) with
      | [] => lift c r (Base (Flush id)) (r_sl r) (r_wal r) (r_rot r) (r_since r)
      | _ => lift c r (Base (Flush id)) sl_empty (wal_empty c) (r_rot r) 0
      end
  | VX DropAll => lift c r DropAll sl_empty (wal_empty c) (r_rot r) 0     (* db.go dropAll: a new memtable *)
  | VX o' => lift c r o' (r_sl r) (r_wal r) (r_rot r) (r_since r)
  | VCommit t cts res rot hs osl owal =>
      let es := commit_applies s t cts in
      match es with
      | [] =>
          (* ErrConflict, or nothing pending: no request reaches writeRequests *)
          match rot with
          | Some _ => VBad 50
          | None => if (osl =? r_sl r) && (owal =? r_wal r)
                    then lift c r (Base (Commit t cts res)) (r_sl r) (r_wal r) (r_rot r) (r_since r)
                    else VBad 52
          end
      | _ =>
          let fin := keep_together s t in
          if negb (batch_ok c es fin cts) then VBad 56        (* ErrTxnTooBig: not a volume history *)
          else
          match ensure_room c r rot with
          | VOk r1 =>
              let sl' := sl_after c r1 es hs in
              let wal' := wal_after c r1 es fin cts in
              if arena_size (rc_mts c) <? sl' then VDied 1
              else if negb (sl' =? osl) then VBad 54
              else if negb (wal' =? owal) then VBad 55
              else lift c r1 (Base (Commit t cts res)) sl' wal' (r_rot r1) (r_since r1 + val_bytes (rc_m c) es)
          | x => x
          end
      end
  end.

(* replay: (index, code) of the first rejected label; 998 / 999 = the process dies there *)
Fixpoint vexec (c : rcfg) (r : room) (ops : list vop) (i : N) : option (N * N) * room :=
  match ops with
  | [] => (None, r)
  | o :: rest => match vstep c r o with
                 | VOk r' => vexec c r' rest (i + 1)
                 | VBad code => (Some (i, code), r)
                 | VDied 1 => (Some (i, 998), r)
                 | VDied _ => (Some (i, 999), r)
                 end
  end.

(* ---- the write path on the tree alone: requests es_1, es_2, ... each preceded by a rotation
   (Some id) or not (None) ---- *)
Definition room_db (d : lsm) (b : option N * list entry) : lsm :=
  apply_entries (match fst b with Some id => flush_oldest (rotate d) id | None => d end) (snd b).
Definition write_all (d : lsm) (bs : list (option N * list entry)) : lsm := fold_left room_db bs d.

(* heights the arena bound is proved for: randomHeight() <= maxHeight - 5 (it returns h with
   probability (1/3)^(h-1)) *)
Definition heights_ok (hs : list N) : Prop := Forall (fun h => h <= 15) hs.
