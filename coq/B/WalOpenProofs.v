(* WalOpenProofs.v — C11 after a crash: the running maximum that memTable.replayFunction folds
   over a WAL is the maximum of the replayed versions whatever the order of the WAL, so Open's
   nextTxnTs = MaxVersion() + 1 is above every recovered version. *)
From Verif Require Import Bytes BytesProofs Keys Consts Spec Lsm LsmProofs Compact Iter Sys SysReopen
  EntOrderProofs ReopenReadProofs ReopenTsProofs WalOpen.
From Coq Require Import ZifyN ZifyNat ZifyBool Permutation.
Open Scope N_scope.

(* ---- the running maximum ---- *)
Lemma upd_max_max m a : upd_max m a = N.max m a.
Proof. unfold upd_max. destruct (m <? a) eqn:E; lia. Qed.

Lemma fold_upd_ge (l : list N) m : m <= fold_left upd_max l m.
Proof.
  revert m. induction l as [|x l IH]; intros m; cbn [fold_left]; [lia|].
  specialize (IH (upd_max m x)). rewrite upd_max_max in *. lia.
Qed.

Lemma fold_upd_in (l : list N) m x : In x l -> x <= fold_left upd_max l m.
Proof.
  revert m. induction l as [|y l IH]; intros m; cbn [fold_left]; [intros []|].
  intros [->|H]; auto.
  pose proof (fold_upd_ge l (upd_max m x)) as G. rewrite upd_max_max in *. lia.
Qed.

(* the result is the start value or one of the elements *)
Lemma fold_upd_attained (l : list N) m : fold_left upd_max l m = m \/ In (fold_left upd_max l m) l.
Proof.
  revert m. induction l as [|x l IH]; intros m; cbn [fold_left]; [now left|].
  destruct (IH (upd_max m x)) as [E|H].
  - rewrite E. unfold upd_max. destruct (m <? x); [right; now left|now left].
  - right. now right.
Qed.

Lemma fold_ver_map (l : list entry) m :
  fold_left (fun m e => upd_max m (e_ver e)) l m = fold_left upd_max (map e_ver l) m.
Proof. revert m. induction l as [|x l IH]; intros m; cbn [fold_left map]; auto. Qed.

(* ---- replay_max: the maximum of the replayed versions, for every WAL order ---- *)
Theorem replay_max_ge wal e : In e wal -> e_ver e <= replay_max wal.
Proof.
  intros H. unfold replay_max. rewrite fold_ver_map. apply fold_upd_in. now apply in_map.
Qed.

Theorem replay_max_attained wal : wal <> [] -> exists e, In e wal /\ e_ver e = replay_max wal.
Proof.
  intros Hne. unfold replay_max. rewrite fold_ver_map.
  destruct (fold_upd_attained (map e_ver wal) 0) as [E|H].
  - destruct wal as [|e r]; [congruence|]. exists e. split; [now left|]. rewrite E.
    assert (G: e_ver e <= fold_left upd_max (map e_ver (e :: r)) 0) by (apply fold_upd_in; now left).
    lia.
  - apply in_map_iff in H. destruct H as (e & He & Hin). exists e. auto.
Qed.

Theorem replay_max_spec wal :
  (forall e, In e wal -> e_ver e <= replay_max wal) /\
  (replay_max wal = 0 \/ exists e, In e wal /\ e_ver e = replay_max wal).
Proof.
  split; [intros e; apply replay_max_ge|].
  destruct wal as [|e r]; [now left|]. right. apply replay_max_attained. discriminate.
Qed.

Theorem replay_max_perm wal wal' : Permutation wal wal' -> replay_max wal = replay_max wal'.
Proof.
  intros P. destruct wal as [|e r].
  - apply Permutation_nil in P. now subst.
  - assert (Hne: wal' <> []).
    { intros ->. apply Permutation_sym in P. apply Permutation_nil in P. discriminate. }
    destruct (replay_max_attained (e :: r)) as (a & Ha & Ea); [discriminate|].
    destruct (replay_max_attained wal' Hne) as (b & Hb & Eb).
    pose proof (replay_max_ge wal' a (Permutation_in _ P Ha)).
    pose proof (replay_max_ge (e :: r) b (Permutation_in _ (Permutation_sym P) Hb)). lia.
Qed.

Lemma table_max_ge t e : In e (t_ents t) -> e_ver e <= table_max t.
Proof. apply replay_max_ge. Qed.

(* ---- the replayed skiplist holds exactly the key@version pairs of the WAL ---- *)
Lemma replay_sl_in wal x : In x (replay_sl wal) -> In x wal.
Proof. intros H. apply fold_mt_put_in in H. destruct H as [H|[]]; auto. Qed.

Lemma ent_cmp_refl x : ent_cmp x x = Eq.
Proof. apply ent_cmp_eq. auto. Qed.

Lemma ent_cmp_eq_trans a b c : ent_cmp a b = Eq -> ent_cmp b c = Eq -> ent_cmp a c = Eq.
Proof.
  intros H1 H2. apply ent_cmp_eq in H1, H2. apply ent_cmp_eq. destruct H1, H2. split; congruence.
Qed.

Lemma mt_put_has s e : In e (mt_put s e).
Proof.
  induction s as [|y s IH]; cbn [mt_put]; [now left|].
  destruct (ent_cmp e y); [now left|now left|right; exact IH].
Qed.

Lemma mt_put_keeps s e x : In x s -> exists x', In x' (mt_put s e) /\ ent_cmp x' x = Eq.
Proof.
  induction s as [|y s IH]; [intros []|]. cbn [mt_put]. destruct (ent_cmp e y) eqn:C; intros [<-|H].
  - exists e. split; [now left|exact C].
  - exists x. split; [now right|apply ent_cmp_refl].
  - exists y. split; [right; now left|apply ent_cmp_refl].
  - exists x. split; [right; now right|apply ent_cmp_refl].
  - exists y. split; [now left|apply ent_cmp_refl].
  - destruct (IH H) as (x' & H1 & H2). exists x'. split; [now right|exact H2].
Qed.

Lemma fold_mt_put_keeps es s x :
  (exists x', In x' s /\ ent_cmp x' x = Eq) ->
  exists x', In x' (fold_left mt_put es s) /\ ent_cmp x' x = Eq.
Proof.
  revert s. induction es as [|a es IH]; intros s (x' & H1 & H2); cbn [fold_left]; [eauto|].
  apply IH. destruct (mt_put_keeps s a x' H1) as (x'' & H3 & H4). exists x''. split; auto.
  eapply ent_cmp_eq_trans; eauto.
Qed.

Lemma fold_mt_put_covers es s e :
  In e es -> exists e', In e' (fold_left mt_put es s) /\ ent_cmp e' e = Eq.
Proof.
  revert s. induction es as [|a es IH]; intros s; [intros []|]. cbn [fold_left]. intros [->|H].
  - apply fold_mt_put_keeps. exists e. split; [apply mt_put_has|apply ent_cmp_refl].
  - now apply IH.
Qed.

Lemma replay_sl_covers wal e : In e wal -> exists e', In e' (replay_sl wal) /\ ent_cmp e' e = Eq.
Proof. apply fold_mt_put_covers. Qed.

(* ---- every entry of the merged view is stored somewhere ---- *)
Lemma levels_srcs_in lvl ls s e : In s (levels_srcs lvl ls) -> In e s -> In e (lv_entries ls).
Proof.
  revert lvl. induction ls as [|l ls IH]; intros lvl; cbn [levels_srcs]; [intros []|].
  intros H He. apply in_app_or in H. destruct H as [H|H].
  - apply in_lv_entries. destruct lvl; cbn [level_src] in H.
    + apply in_map_iff in H. destruct H as (t & <- & Ht). rewrite <- in_rev in Ht.
      exists l, t. repeat split; auto. now left.
    + destruct H as [<-|[]]. apply in_concat in He. destruct He as (s' & Hs' & He).
      apply in_map_iff in Hs'. destruct Hs' as (t & <- & Ht). exists l, t. repeat split; auto. now left.
  - specialize (IH _ H He). apply in_lv_entries in IH. destruct IH as (l' & t & Hl & Ht & Het).
    apply in_lv_entries. exists l', t. repeat split; auto. now right.
Qed.

Lemma all_srcs_in d s e : In s (all_srcs d) -> In e s -> In e (db_entries d).
Proof.
  unfold all_srcs. intros [<-|H] He; apply in_db_entries.
  - now left.
  - apply in_app_or in H. destruct H as [H|H].
    + right; left. exists s. split; auto. now rewrite in_rev.
    + right; right. eapply levels_srcs_in; eauto.
Qed.

Lemma merged_in d e : In e (merged d) -> In e (db_entries d).
Proof.
  unfold merged. intros H. apply EntOrderProofs.merge_all_in in H. destruct H as (s & Hs & He).
  eapply all_srcs_in; eauto.
Qed.

Lemma fold_max_attained (l : list entry) m :
  fold_left (fun m e => N.max m (e_ver e)) l m = m \/
  exists e, In e l /\ e_ver e = fold_left (fun m e => N.max m (e_ver e)) l m.
Proof.
  revert m. induction l as [|x l IH]; intros m; cbn [fold_left]; [now left|].
  destruct (IH (N.max m (e_ver x))) as [E|(e & He & E)].
  - rewrite E. destruct (N.max_spec m (e_ver x)) as [[_ ->]|[_ ->]]; [right|now left].
    exists x. split; [now left|reflexivity].
  - right. exists e. split; [now right|exact E].
Qed.

Theorem max_version_le d n : (forall e, In e (db_entries d) -> e_ver e <= n) -> max_version d <= n.
Proof.
  intros H. unfold max_version. destruct (fold_max_attained (merged d) 0) as [E|(e & He & E)].
  - rewrite E. lia.
  - rewrite <- E. apply H. now apply merged_in.
Qed.

(* ---- DB.MaxVersion() ---- *)
Lemma db_max_version_ge_imm mt imms levels m : In m imms -> rm_max m <= db_max_version mt imms levels.
Proof.
  unfold db_max_version. intros H.
  apply N.le_trans with (fold_left upd_max (map rm_max imms) (upd_max 0 mt)); [|apply fold_upd_ge].
  apply fold_upd_in. now apply in_map.
Qed.

Lemma db_max_version_ge_table mt imms levels l t :
  In l levels -> In t l -> table_max t <= db_max_version mt imms levels.
Proof.
  unfold db_max_version. intros Hl Ht. apply fold_upd_in. apply in_map. apply in_concat. eauto.
Qed.

Lemma db_max_version_attained mt imms levels :
  let r := db_max_version mt imms levels in
  r = mt \/ (exists m, In m imms /\ rm_max m = r) \/ (exists l t, In l levels /\ In t l /\ table_max t = r).
Proof.
  cbn zeta. unfold db_max_version.
  destruct (fold_upd_attained (map table_max (concat levels))
              (fold_left upd_max (map rm_max imms) (upd_max 0 mt))) as [E|H].
  - rewrite E. destruct (fold_upd_attained (map rm_max imms) (upd_max 0 mt)) as [E2|H2].
    + left. rewrite E2. unfold upd_max. destruct (0 <? mt) eqn:Z; lia.
    + right; left. apply in_map_iff in H2. destruct H2 as (m & Hm & Hin). exists m. auto.
  - right; right. apply in_map_iff in H. destruct H as (t & Ht & Hin).
    apply in_concat in Hin. destruct Hin as (l & Hl & Htl). exists l, t. auto.
Qed.

Lemma open_imms_in wals m :
  In m (open_imms wals) -> exists wal, In wal wals /\ m = replay_wal wal /\ wal <> [].
Proof.
  unfold open_imms. intros H. apply filter_In in H. destruct H as [H Hne].
  apply in_map_iff in H. destruct H as (wal & <- & Hw). exists wal. repeat split; auto.
  intros ->. discriminate.
Qed.

(* ---- Open of a crashed directory ---- *)
Theorem crash_open_next_above wals levels :
  below (crash_open_next wals levels) (crash_open_db wals levels).
Proof.
  intros e He. apply in_db_entries in He. unfold crash_open_next.
  cbn [crash_open_db l_mt l_imm l_levels] in He. destruct He as [[]|[(s & Hs & He)|He]].
  - apply in_map_iff in Hs. destruct Hs as (m & <- & Hm).
    pose proof (db_max_version_ge_imm 0 _ (open_levels levels) m Hm) as G.
    apply open_imms_in in Hm. destruct Hm as (wal & _ & -> & _).
    cbn [replay_wal rm_sl rm_max] in *. apply replay_sl_in in He. apply replay_max_ge in He. lia.
  - apply in_lv_entries in He. destruct He as (l & t & Hl & Ht & He).
    pose proof (db_max_version_ge_table 0 (open_imms wals) _ l t Hl Ht).
    pose proof (table_max_ge t e He). lia.
Qed.

(* the value computed the way the code computes it (running maxima over WAL order, memtables,
   tables) is the largest stored version + 1 *)
Theorem crash_open_next_eq wals levels :
  crash_open_next wals levels = max_version (crash_open_db wals levels) + 1.
Proof.
  assert (B: max_version (crash_open_db wals levels) + 1 <= crash_open_next wals levels).
  { assert (max_version (crash_open_db wals levels) <= crash_open_next wals levels - 1).
    { apply max_version_le. intros e He. apply crash_open_next_above in He. lia. }
    unfold crash_open_next in *. lia. }
  assert (A: db_max_version 0 (open_imms wals) (open_levels levels) <= max_version (crash_open_db wals levels)).
  { destruct (db_max_version_attained 0 (open_imms wals) (open_levels levels)) as [E|[(m & Hm & E)|(l & t & Hl & Ht & E)]].
    - rewrite E. lia.
    - rewrite <- E. pose proof Hm as Hm'. apply open_imms_in in Hm. destruct Hm as (wal & _ & -> & Hne).
      destruct (replay_max_attained wal Hne) as (e & He & Ev).
      destruct (replay_sl_covers wal e He) as (e' & He' & C). apply ent_cmp_eq in C. destruct C as [_ Cv].
      cbn [replay_wal rm_max]. rewrite <- Ev, <- Cv. apply max_version_ge. apply in_db_entries.
      right; left. exists (replay_sl wal). split; auto.
      cbn [crash_open_db l_imm]. change (replay_sl wal) with (rm_sl (replay_wal wal)). now apply in_map.
    - rewrite <- E. destruct (t_ents t) as [|e0 r] eqn:T.
      + unfold table_max. rewrite T. cbn. lia.
      + destruct (replay_max_attained (t_ents t)) as (e & He & Ev); [rewrite T; discriminate|].
        unfold table_max. fold (replay_max (t_ents t)). rewrite <- Ev. apply max_version_ge.
        apply in_db_entries. right; right. apply in_lv_entries. exists l, t. auto. }
  unfold crash_open_next in *. lia.
Qed.

Theorem crash_open_c11_inv detect nkeep now wals levels :
  c11_inv (crash_open_sys false detect nkeep now wals levels).
Proof.
  unfold crash_open_sys. repeat split; auto.
  - cbn [s_db s_next]. apply crash_open_next_above.
  - unfold txns_unver. cbn [s_txns]. constructor.
Qed.

(* every state a normal-mode history reaches after the recovery *)
Theorem crash_open_then_history detect nkeep now wals levels ops :
  let s := x_sys (snd (xexec (mkX (crash_open_sys false detect nkeep now wals levels) false) ops 0)) in
  forall e, In e (db_entries (s_db s)) -> e_ver e < s_next s.
Proof.
  cbn zeta. intros e He.
  pose proof (xexec_preserves_c11 ops (mkX (crash_open_sys false detect nkeep now wals levels) false) 0
                (crash_open_c11_inv _ _ _ _ _)) as (_ & Hb & _).
  now apply Hb.
Qed.
