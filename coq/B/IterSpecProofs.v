(* IterSpecProofs.v — C05 at the level of Iter.iterate: Seek, Prefix, NewKeyIterator, reverse
   Seek, on a stream strictly sorted by ent_cmp; the merged view of a well-formed tree is such a
   stream; and the tie to the MVCC specification for every reachable state
   (iteration = what Get returns, key by key, in key order). *)
From Verif Require Import Bytes BytesProofs Keys C20Proofs Consts Spec Lsm LsmProofs Compact CompactProofs EntOrderProofs Iter.
From Verif Require Import IterOrderProofs.
From Verif Require GetProofs MergeProofs SysProofs.
From Coq Require Import ZifyN ZifyNat ZifyBool Sorting.Sorted.
Open Scope N_scope.

Lemma filter_all {A} (f : A -> bool) l : (forall x, In x l -> f x = true) -> filter f l = l.
Proof.
  induction l as [|y l IH]; intros H; cbn; auto. rewrite (H y (or_introl eq_refl)). f_equal.
  apply IH. intros x Hx. apply H. now right.
Qed.

Lemma filter_comm {A} (f g : A -> bool) l : filter f (filter g l) = filter g (filter f l).
Proof.
  induction l as [|x l IH]; cbn; auto. destruct (f x) eqn:F, (g x) eqn:G; cbn; rewrite ?F, ?G, IH; reflexivity.
Qed.

Lemma filter_and {A} (f g : A -> bool) l : filter (fun x => f x && g x) l = filter f (filter g l).
Proof.
  induction l as [|x l IH]; cbn; auto. destruct (g x) eqn:G; cbn; [destruct (f x); now rewrite IH|].
  now rewrite andb_false_r.
Qed.

(* ---------- byte order and prefixes ---------- *)
Lemma le_key_kle a b : le_key a b = true <-> kle a b.
Proof. unfold le_key, kle. destruct (lex_cmp a b); split; congruence. Qed.

Lemma le_key_nil b : le_key [] b = true.
Proof. destruct b; reflexivity. Qed.

Lemma is_prefix_kle p a : is_prefix p a = true -> kle p a.
Proof.
  revert a. induction p as [|x p IH]; intros a; [destruct a; unfold kle; cbn; congruence|].
  destruct a as [|y a]; [discriminate|]. cbn [is_prefix]. intros H. apply andb_true_iff in H.
  destruct H as [E H]. apply N.eqb_eq in E. subst y. unfold kle. cbn [lex_cmp]. rewrite N.compare_refl.
  apply IH. exact H.
Qed.

(* keys with a common prefix p are contiguous in byte order: among the keys >= p they form an
   initial segment *)
Lemma prefix_block p a b : kle p a -> kle a b -> is_prefix p b = true -> is_prefix p a = true.
Proof.
  revert a b. induction p as [|x p IH]; intros a b Hpa Hab Hb; [reflexivity|].
  destruct b as [|z b]; [discriminate|]. cbn [is_prefix] in Hb. apply andb_true_iff in Hb.
  destruct Hb as [E Hb]. apply N.eqb_eq in E. subst z.
  destruct a as [|y a]; [unfold kle in Hpa; cbn in Hpa; congruence|].
  unfold kle in Hpa, Hab. cbn [lex_cmp] in Hpa, Hab. cbn [is_prefix].
  destruct (x ?= y) eqn:C1.
  - apply N.compare_eq_iff in C1. subst y. rewrite N.compare_refl in Hab. rewrite N.eqb_refl. cbn [andb].
    apply (IH a b); auto.
  - rewrite N.compare_lt_iff in C1. assert (C2: (y ?= x) = Gt) by (apply N.compare_gt_iff; lia).
    rewrite C2 in Hab. congruence.
  - congruence.
Qed.

(* ---------- Seek ---------- *)
Lemma key_le_true_kle k ts e : key_le k ts e = true -> kle k (e_key e).
Proof. unfold key_le, key_order, kle. destruct (lex_cmp k (e_key e)); congruence. Qed.

Lemma key_le_false_inv k ts e :
  key_le k ts e = false -> lex_cmp k (e_key e) = Gt \/ (e_key e = k /\ ts < e_ver e).
Proof.
  unfold key_le, key_order. destruct (lex_cmp k (e_key e)) eqn:E; try discriminate; auto.
  destruct (e_ver e ?= ts) eqn:C; try discriminate. intros _. right. apply lex_cmp_eq in E.
  rewrite N.compare_gt_iff in C. auto.
Qed.

(* seek_ge lands on the first entry >= (k, ts): on a sorted stream, the suffix of all such entries *)
Lemma seek_ge_filter m k ts : ssorted m -> seek_ge m k ts = filter (key_le k ts) m.
Proof.
  induction m as [|e r IH]; intros Hs; [reflexivity|]. cbn [seek_ge filter].
  apply ssorted_cons_inv in Hs. destruct Hs as [Hs He]. rewrite Forall_forall in He.
  destruct (key_le k ts e) eqn:E; [|now apply IH].
  f_equal. symmetry. apply filter_all. intros x Hx. eapply GetProofs.key_le_mono; [apply He|]; eauto.
Qed.

Lemma seek_ge_split m k ts :
  exists pre, m = pre ++ seek_ge m k ts /\ (forall e, In e pre -> key_le k ts e = false).
Proof.
  induction m as [|e r (pre & IH1 & IH2)]; [exists []; split; auto; intros ? []|]. cbn [seek_ge].
  destruct (key_le k ts e) eqn:E.
  - exists []. split; auto. intros ? [].
  - exists (e :: pre). split; [cbn; now f_equal|]. intros x [<-|Hx]; auto.
Qed.

(* reverse Seek: first entry <= (k, version 0) of a descending stream = all entries with key <= k *)
Lemma seek_le_rev_filter t k : dsorted t -> seek_le_rev t k = filter (fun e => le_key (e_key e) k) t.
Proof.
  induction t as [|e r IH]; intros Hd; [reflexivity|]. cbn [seek_le_rev filter].
  apply dsorted_cons_inv in Hd. destruct Hd as [Hd He].
  unfold key_order, le_key. destruct (lex_cmp (e_key e) k) eqn:C.
  - destruct (0 ?= e_ver e) eqn:C0; [| |rewrite N.compare_gt_iff in C0; lia];
    (f_equal; symmetry; apply filter_all; intros x Hx; apply le_key_kle;
     eapply kle_trans; [apply elt_kle, He, Hx|]; unfold kle; rewrite C; congruence).
  - f_equal. symmetry. apply filter_all. intros x Hx. apply le_key_kle.
    eapply kle_trans; [apply elt_kle, He, Hx|]. unfold kle. rewrite C. congruence.
  - now apply IH.
Qed.

Lemma take_while_ext {A} (f g : A -> bool) l : (forall x, In x l -> f x = g x) -> take_while f l = take_while g l.
Proof.
  induction l as [|x l IH]; intros H; cbn; auto. rewrite <- (H x (or_introl eq_refl)).
  destruct (f x); auto. f_equal. apply IH. intros y Hy. apply H. now right.
Qed.

Lemma take_valid_tw o l : take_valid o l = take_while (item_valid o) l.
Proof. induction l as [|x l IH]; cbn; auto. now rewrite IH. Qed.

Lemma kle_nil_r a : kle a [] -> a = [].
Proof. destruct a; auto. unfold kle. cbn. congruence. Qed.

Lemma is_prefix_nil_r p : is_prefix p [] = true -> p = [].
Proof. destruct p; auto. discriminate. Qed.

(* the same options without the Prefix restriction *)
Definition no_prefix (o : iopts) : iopts :=
  mkIO (io_reverse o) (io_all o) [] (io_prefix_is_key o) (io_since o) (io_internal o).

(* the lower bound a forward Seek(key) imposes / the upper bound a reverse Seek(key) imposes *)
Definition fbound (key : bytes) (e : entry) : bool := le_key key (e_key e).
Definition rbound (key : bytes) (e : entry) : bool :=
  match key with [] => true | _ => le_key (e_key e) key end.

Section IterSeek.
  Variable o : iopts.
  Variables rts now : N.
  Variable banned : bytes -> bool.
  Notation skip := (skip_common o rts banned).
  Notation pfx := (fun e : entry => is_prefix (io_prefix o) (e_key e)).
  Notation em := (emit o rts now banned).
  Notation hid := (hidden o rts banned).

  Lemma skip_above_rts e : rts < e_ver e -> skip e = true.
  Proof.
    intros H. unfold skip_common. assert (E: (rts <? e_ver e) = true) by now apply N.ltb_lt.
    rewrite E. now rewrite orb_true_r.
  Qed.

  Lemma emit_true_not_skip m e : em m e = true -> skip e = false.
  Proof. unfold emit. intros H. apply andb_true_iff in H. destruct H as [H _]. now apply negb_true_iff in H. Qed.

  (* restricting the stream does not change who is hidden, as long as no potential hider is removed *)
  Lemma hidden_filter (f : entry -> bool) t e :
    (forall e', In e' t -> e_key e' = e_key e -> e_ver e < e_ver e' -> skip e' = false -> f e' = true) ->
    hid (filter f t) e = hid t e.
  Proof.
    induction t as [|x t IH]; intros H; [reflexivity|]. cbn [filter].
    assert (IH': hid (filter f t) e = hid t e) by (apply IH; intros e' He'; apply H; now right).
    unfold hidden in *. destruct (f x) eqn:F; cbn [existsb]; rewrite IH'; auto.
    destruct (newer_same e x && negb (skip x)) eqn:N; auto. exfalso.
    apply andb_true_iff in N. destruct N as [N1 N2]. unfold newer_same in N1.
    apply andb_true_iff in N1. destruct N1 as [K V]. apply bytes_eqb_eq in K. apply N.ltb_lt in V.
    apply negb_true_iff in N2. rewrite (H x (or_introl eq_refl) K V N2) in F. discriminate.
  Qed.

  Lemma emit_filter (f : entry -> bool) t e :
    (forall e', In e' t -> e_key e' = e_key e -> e_ver e < e_ver e' -> skip e' = false -> f e' = true) ->
    em (filter f t) e = em t e.
  Proof. intros H. unfold emit. now rewrite hidden_filter. Qed.

  Lemma shp_forward e : io_reverse o = false -> stream_has_prefix o e = pfx e.
  Proof.
    intros Hr. unfold stream_has_prefix. rewrite Hr. destruct (io_prefix o); reflexivity.
  Qed.

  (* ---- forward: start position (Rewind or Seek) + Prefix cut ---- *)
  Lemma key_le_fbound key e : e_ver e <= rts -> key_le key rts e = fbound key e.
  Proof.
    intros H. unfold key_le, fbound, le_key, key_order. destruct (lex_cmp key (e_key e)); auto.
    destruct (e_ver e ?= rts) eqn:C; auto.
  Qed.

  Theorem fwd_start_spec m key :
    io_reverse o = false -> ssorted m -> kle (io_prefix o) key ->
    fwd_items o rts now banned (match key with [] => m | _ => seek_ge m key rts end) None =
    filter (fun e => pfx e && fbound key e) (filter (em m) m).
  Proof.
    intros Hr Hs Hpk. destruct key as [|b key'].
    { apply kle_nil_r in Hpk. rewrite fwd_items_spec by assumption. unfold spec_scan.
      rewrite (cut_id_noprefix o m Hpk). symmetry. apply filter_all. intros x _. rewrite Hpk. unfold fbound. now rewrite le_key_nil. }
    set (key := b :: key') in *. rewrite seek_ge_filter by assumption.
    set (kl := key_le key rts). set (s := filter kl m).
    assert (Hss: ssorted s) by (eapply ssorted_subseq; [apply subseq_filter|exact Hs]).
    assert (Hin: forall e, In e s -> In e m /\ kle key (e_key e)).
    { intros e He. apply filter_In in He. destruct He as [He Hk]. split; auto. eapply key_le_true_kle; eauto. }
    rewrite fwd_items_spec by assumption. unfold spec_scan.
    assert (Hcut: cut o s = filter pfx s).
    { unfold cut. rewrite (take_while_ext _ pfx) by (intros x _; now apply shp_forward).
      apply (take_while_filter_sorted elt); auto. intros a c Ha Hc Lac Pc.
      apply (prefix_block _ _ (e_key c)); auto.
      - eapply kle_trans; [exact Hpk|]. apply Hin. exact Ha.
      - now apply elt_kle. }
    rewrite Hcut.
    assert (E1: filter (em s) (filter pfx s) = filter (em m) (filter pfx s)).
    { apply filter_ext_in. intros e He. apply filter_In in He. destruct He as [He _].
      apply emit_filter. intros e' He' Ke' Ve' Se'. destruct (kl e') eqn:K; auto. exfalso.
      apply key_le_false_inv in K. destruct K as [K|[_ K]].
      - destruct (Hin e He) as [_ Q]. unfold kle in Q. rewrite <- Ke' in Q. congruence.
      - rewrite (skip_above_rts e' K) in Se'. discriminate. }
    rewrite E1. unfold s.
    rewrite <- (filter_and pfx kl m).
    rewrite <- (filter_and (em m) (fun x => pfx x && kl x) m).
    rewrite <- (filter_and (fun e => pfx e && fbound key e) (em m) m).
    apply filter_ext_in. intros e He. destruct (em m e) eqn:E; [|now rewrite andb_false_r].
    cbn [andb]. rewrite andb_true_r. unfold kl. rewrite key_le_fbound; auto.
    apply skip_false_ver with (o := o) (banned := banned). eapply emit_true_not_skip; eauto.
  Qed.

  Lemma take_valid_id l : (forall e, In e l -> item_valid o e = true) -> take_valid o l = l.
  Proof. intros H. rewrite take_valid_tw. now apply take_while_id. Qed.

  (* A.3 + A.4 in one equation: a forward iterator positioned by Seek(seek) (seek = [] : Rewind,
     which seeks to the Prefix) yields the items of the unrestricted scan whose key has the
     Prefix and is >= the seek key.  Hypothesis: the position is not below the Prefix. *)
  Theorem iterate_fwd_spec m seek :
    io_reverse o = false -> io_prefix_is_key o = false -> ssorted m ->
    kle (io_prefix o) (match seek with [] => io_prefix o | _ => seek end) ->
    iterate o rts now banned m seek =
    filter (fun e => pfx e && fbound (match seek with [] => io_prefix o | _ => seek end) e) (filter (em m) m).
  Proof.
    intros Hr Hk Hs Hp. unfold iterate. rewrite Hr.
    rewrite fwd_start_spec by assumption. apply take_valid_id.
    intros e He. apply filter_In in He. destruct He as [_ He]. apply andb_true_iff in He.
    unfold item_valid. rewrite Hk. tauto.
  Qed.

  (* NewKeyIterator (prefixIsKey): exactly the emitted entries of that key *)
  Theorem iterate_key_spec m :
    io_reverse o = false -> io_prefix_is_key o = true -> ssorted m ->
    iterate o rts now banned m [] =
    filter (fun e => bytes_eqb (e_key e) (io_prefix o)) (filter (em m) m).
  Proof.
    intros Hr Hk Hs. unfold iterate. rewrite Hr.
    rewrite fwd_start_spec by (auto; apply kle_refl).
    set (g := fun e : entry => pfx e && fbound (io_prefix o) e).
    set (B := filter (em m) m).
    assert (HB: ssorted (filter g B)).
    { eapply ssorted_subseq; [|exact Hs]. eapply subseq_trans; apply subseq_filter. }
    rewrite take_valid_tw.
    rewrite (take_while_ext _ (fun e => bytes_eqb (e_key e) (io_prefix o))).
    2:{ intros x _. unfold item_valid. now rewrite Hk. }
    rewrite (take_while_filter_sorted elt); auto.
    - rewrite <- (filter_and _ g B). apply filter_ext. intros e.
      destruct (bytes_eqb (e_key e) (io_prefix o)) eqn:E; auto. apply bytes_eqb_eq in E.
      unfold g, fbound. rewrite E. rewrite (proj2 (le_key_kle _ _) (kle_refl _)).
      rewrite <- (app_nil_r (io_prefix o)) at 2. now rewrite is_prefix_app.
    - intros a c Ha Hc Lac Ec. apply bytes_eqb_eq in Ec. apply bytes_eqb_eq.
      apply kle_antisym; [rewrite <- Ec; now apply elt_kle|].
      apply filter_In in Ha. destruct Ha as [_ Ha]. unfold g in Ha. apply andb_true_iff in Ha.
      destruct Ha as [_ Ha]. now apply le_key_kle.
  Qed.

  (* ---- reverse ---- *)
  Theorem iterate_rev_spec m seek :
    io_reverse o = true -> io_prefix_is_key o = false -> ssorted m ->
    is_prefix (io_prefix o) (match seek with [] => io_prefix o | _ => seek end) = true ->
    iterate o rts now banned m seek =
    filter (fun e => pfx e && rbound (match seek with [] => io_prefix o | _ => seek end) e)
           (rev (filter (em m) m)).
  Proof.
    intros Hr Hk Hs Hp. unfold iterate. rewrite Hr. cbv zeta.
    set (key := match seek with [] => io_prefix o | _ => seek end) in *.
    pose proof (ssorted_rev_dsorted m Hs) as Hd.
    set (rb := rbound key).
    match goal with |- context [rev_items _ _ _ _ ?X None] => assert (St: X = filter rb (rev m)) end.
    { unfold rb, rbound. destruct key; [symmetry; now apply filter_all|now apply seek_le_rev_filter]. }
    rewrite St.
    assert (Hd': dsorted (filter rb (rev m))) by (eapply StronglySorted_subseq; [apply subseq_filter|exact Hd]).
    rewrite rev_items_spec_d by assumption.
    assert (E1: filter (em (filter rb (rev m))) (filter rb (rev m)) = filter (em m) (filter rb (rev m))).
    { apply filter_ext_in. intros e He. apply filter_In in He. destruct He as [_ He].
      rewrite emit_filter; [apply emit_rev|]. intros e' _ Ke' _ _. revert He. unfold rb, rbound. now rewrite Ke'. }
    rewrite E1. rewrite filter_comm, filter_rev'.
    set (RB := rev (filter (em m) m)).
    assert (HRB: dsorted (filter rb RB)).
    { eapply StronglySorted_subseq; [apply subseq_filter|]. unfold RB.
      apply ssorted_rev_dsorted. eapply ssorted_subseq; [apply subseq_filter|exact Hs]. }
    rewrite take_valid_tw.
    rewrite (take_while_ext _ pfx) by (intros x _; unfold item_valid; now rewrite Hk).
    rewrite (take_while_filter_sorted (fun a c => elt c a)); auto.
    - now rewrite <- (filter_and pfx rb RB).
    - intros a c Ha Hc Lca Pc. destruct key as [|kb key'] eqn:Ek.
      { apply is_prefix_nil_r in Hp. rewrite Hp. reflexivity. }
      apply (prefix_block _ _ (kb :: key')); auto.
      + eapply kle_trans; [apply is_prefix_kle; exact Pc|now apply elt_kle].
      + apply filter_In in Ha. destruct Ha as [_ Ha]. unfold rb, rbound in Ha. now apply le_key_kle.
  Qed.
End IterSeek.

(* ---------- the statements in terms of `iterate` alone ---------- *)
Definition set_reverse (b : bool) (o : iopts) : iopts :=
  mkIO b (io_all o) (io_prefix o) (io_prefix_is_key o) (io_since o) (io_internal o).

Lemma iterate_plain o rts now banned m :
  io_reverse o = false -> io_prefix o = [] -> io_prefix_is_key o = false ->
  iterate o rts now banned m [] = fwd_items o rts now banned m None.
Proof.
  intros Hr Hp Hk. unfold iterate. rewrite Hr, Hp. apply take_valid_id. intros e _.
  unfold item_valid. now rewrite Hk, Hp.
Qed.

Section IterateCorollaries.
  Variable o : iopts.
  Variables rts now : N.
  Variable banned : bytes -> bool.
  Notation it := (fun o' => iterate o' rts now banned).
  Notation pfx := (fun e : entry => is_prefix (io_prefix o) (e_key e)).

  (* the unrestricted forward scan *)
  Theorem iterate_base m :
    io_reverse o = false -> io_prefix_is_key o = false -> ssorted m ->
    iterate (no_prefix o) rts now banned m [] = filter (emit o rts now banned m) m.
  Proof.
    intros Hr Hk Hs. rewrite iterate_plain by auto. rewrite fwd_items_spec by assumption.
    unfold spec_scan. now rewrite (cut_id_noprefix (no_prefix o)).
  Qed.

  (* A.4 Prefix: exactly the items of the unrestricted scan whose key has the prefix *)
  Theorem iterate_prefix_forward m :
    io_reverse o = false -> io_prefix_is_key o = false -> ssorted m ->
    iterate o rts now banned m [] = filter pfx (iterate (no_prefix o) rts now banned m []).
  Proof.
    intros Hr Hk Hs. rewrite iterate_base by assumption.
    rewrite (iterate_fwd_spec o rts now banned m []) by (auto; apply kle_refl).
    apply filter_ext. intros e. destruct (is_prefix (io_prefix o) (e_key e)) eqn:P; auto.
    cbn [andb]. unfold fbound. apply le_key_kle. now apply is_prefix_kle.
  Qed.

  (* A.3 Seek(k): exactly the items of the un-seeked iteration whose key is >= k
     (for a seek key not below the Prefix) *)
  Theorem iterate_seek_forward m seek :
    io_reverse o = false -> io_prefix_is_key o = false -> ssorted m -> kle (io_prefix o) seek ->
    iterate o rts now banned m seek = filter (fbound seek) (iterate o rts now banned m []).
  Proof.
    intros Hr Hk Hs Hp. destruct seek as [|b seek'].
    { symmetry. apply filter_all. intros x _. apply le_key_nil. }
    rewrite (iterate_fwd_spec o rts now banned m (b :: seek')) by auto.
    rewrite (iterate_fwd_spec o rts now banned m []) by (auto; apply kle_refl).
    rewrite (filter_and pfx (fbound (b :: seek'))). rewrite filter_comm. f_equal.
    apply filter_ext. intros e. destruct (is_prefix (io_prefix o) (e_key e)) eqn:P; auto.
    cbn [andb]. unfold fbound. symmetry. apply le_key_kle. now apply is_prefix_kle.
  Qed.

  (* C. reverse without Prefix = the forward result backwards *)
  Theorem iterate_reverse_is_rev m :
    io_reverse o = false -> io_prefix o = [] -> io_prefix_is_key o = false -> ssorted m ->
    iterate (set_reverse true o) rts now banned m [] = rev (iterate o rts now banned m []).
  Proof.
    intros Hr Hp Hk Hs. rewrite (iterate_plain o) by auto. unfold iterate. cbn [set_reverse io_reverse io_prefix].
    rewrite Hp. cbv zeta. rewrite take_valid_id.
    - rewrite (rev_items_rev_fwd (set_reverse true o)); auto; [|now apply cut_id_reverse].
      f_equal. rewrite !fwd_items_spec by assumption. unfold spec_scan.
      rewrite (cut_id_reverse (set_reverse true o)), (cut_id_noprefix o) by auto. reflexivity.
    - intros e _. unfold item_valid. cbn [set_reverse io_prefix_is_key io_prefix]. now rewrite Hk, Hp.
  Qed.

  (* C. reverse Seek(k) without Prefix: the items of the un-seeked reverse iteration with key <= k *)
  Theorem iterate_seek_reverse m seek :
    io_reverse o = true -> io_prefix o = [] -> io_prefix_is_key o = false -> ssorted m ->
    iterate o rts now banned m seek = filter (rbound seek) (iterate o rts now banned m []).
  Proof.
    intros Hr Hp Hk Hs.
    rewrite (iterate_rev_spec o rts now banned m seek) by (auto; rewrite Hp; reflexivity).
    rewrite (iterate_rev_spec o rts now banned m []) by (auto; rewrite Hp; reflexivity).
    rewrite Hp. cbn [is_prefix andb].
    set (X := rev (filter (emit o rts now banned m) m)).
    assert (E: filter (fun e => rbound [] e) X = X) by (apply filter_all; auto).
    rewrite E. destruct seek; reflexivity.
  Qed.
End IterateCorollaries.

(* ---------- soundness of every iteration, whatever the options and the seek key ---------- *)
Lemma skip_common_false_iff o rts banned e :
  skip_common o rts banned e = false <->
  (io_internal o = true \/ is_internal e = false) /\ e_ver e <= rts /\
  (io_since o = 0 \/ io_since o < e_ver e) /\ (is_internal e = true \/ banned (e_key e) = false).
Proof.
  unfold skip_common. rewrite !orb_false_iff, !andb_false_iff, !negb_false_iff.
  rewrite N.ltb_ge, N.ltb_ge, N.leb_gt. split.
  - intros [[[A B] C] D]. split; [exact A|]. split; [exact B|]. split; [|exact D]. destruct C; [left|right]; lia.
  - intros (A & B & C & D). split; [|exact D]. split; [split; [exact A|exact B]|]. destruct C; [left|right]; lia.
Qed.

Theorem iterate_sound o rts now banned m seek e :
  ssorted m -> In e (iterate o rts now banned m seek) ->
  In e m /\ skip_common o rts banned e = false /\ item_valid o e = true /\
  (io_all o = false -> deleted_or_expired e now = false).
Proof.
  intros Hs Hin. unfold iterate in Hin.
  assert (G: forall t, (forall x, In x t -> In x m) -> emit o rts now banned t e = true -> In e t ->
             In e m /\ skip_common o rts banned e = false /\ (io_all o = false -> deleted_or_expired e now = false)).
  { intros t Ht E He. split; [auto|]. split; [eapply emit_true_not_skip; eauto|].
    intros Ha. now apply (emit_nonall_inv o rts now banned t e Ha E). }
  destruct (io_reverse o) eqn:Hr; cbv zeta in Hin; apply SysProofs.take_valid_sound in Hin; destruct Hin as [Hin V].
  - set (key := match seek with [] => io_prefix o | _ => seek end) in *.
    pose proof (ssorted_rev_dsorted m Hs) as Hd.
    match type of Hin with context [rev_items _ _ _ _ ?X None] => assert (exists f, X = filter f (rev m)) as [f Hf] end.
    { destruct key; [exists (fun _ => true); symmetry; now apply filter_all|eexists; now apply seek_le_rev_filter]. }
    rewrite Hf in Hin. rewrite rev_items_spec_d in Hin by (eapply StronglySorted_subseq; [apply subseq_filter|exact Hd]).
    apply filter_In in Hin. destruct Hin as [He E].
    destruct (G (filter f (rev m))) as (A & B & C); auto.
    intros x Hx. apply filter_In in Hx. apply in_rev. tauto.
  - set (key := match seek with [] => io_prefix o | _ => seek end) in *.
    match type of Hin with context [fwd_items _ _ _ _ ?X None] => assert (exists f, X = filter f m) as [f Hf] end.
    { destruct key; [exists (fun _ => true); symmetry; now apply filter_all|eexists; now apply seek_ge_filter]. }
    rewrite Hf in Hin. rewrite fwd_items_spec in Hin by (eapply ssorted_subseq; [apply subseq_filter|exact Hs]).
    unfold spec_scan in Hin. apply filter_In in Hin. destruct Hin as [He E].
    apply take_while_in in He.
    destruct (G (filter f m)) as (A & B & C); auto.
    intros x Hx. apply filter_In in Hx. tauto.
Qed.

Theorem iterate_reverse_keys_decreasing o rts now banned m :
  io_reverse o = false -> io_all o = false -> io_prefix o = [] -> io_prefix_is_key o = false -> ssorted m ->
  StronglySorted (fun a b => klt b a) (map e_key (iterate (set_reverse true o) rts now banned m [])).
Proof.
  intros Hr Ha Hp Hk Hs. rewrite iterate_reverse_is_rev by assumption. rewrite map_rev.
  apply StronglySorted_rev. rewrite iterate_plain by assumption. now apply fwd_items_keys_increasing.
Qed.

(* ---------- what does NOT hold: Seek(k) with k below the Prefix ----------
   The forward loop stops at the first entry outside the Prefix (prefetch / Next:
   `for iitr.Valid() && hasPrefix(it)`); after Seek(k) with k < Prefix the cursor stands on an
   entry below the prefix block, so the iterator is exhausted at once although keys >= k inside
   the Prefix exist. *)
Definition refute_m : src := [mkE [97] 1 0 0 0 [1]; mkE [98] 1 0 0 0 [2]].
Definition refute_o : iopts := mkIO false false [98] false 0 false.

Theorem iterate_seek_below_prefix_refuted :
  exists o rts now m seek,
    io_reverse o = false /\ io_prefix_is_key o = false /\ ssorted m /\
    iterate o rts now (fun _ => false) m seek = [] /\
    filter (fun e => is_prefix (io_prefix o) (e_key e) && fbound seek e)
           (iterate (no_prefix o) rts now (fun _ => false) m []) <> [].
Proof.
  exists refute_o, 5, 0, refute_m, [97]. split; [reflexivity|]. split; [reflexivity|]. split.
  - repeat constructor.
  - split; [vm_compute; reflexivity|vm_compute; discriminate].
Qed.

(* ================= D. the merged view of a well-formed tree, and the tie to Get ================= *)
From Verif Require Import Sys SysReopen SysTree.
From Verif Require TreeInvProofs TreeStepProofs TreeSpecProofs.

Lemma deep_srcs_sorted n rest :
  Forall GetProofs.level_ok rest -> Forall ssorted (levels_srcs (S n) rest).
Proof.
  revert n. induction rest as [|l r IH]; intros n H; cbn [levels_srcs]; [constructor|].
  inversion H as [|? ? Hl Hr]; subst. cbn [level_src app]. constructor; [apply Hl|now apply IH].
Qed.

Lemma all_srcs_sorted d : GetProofs.lsm_wf d -> Forall ssorted (all_srcs d).
Proof.
  intros (Hmt & Himm & Hlev). unfold all_srcs. constructor; [exact Hmt|]. apply Forall_app. split.
  - apply Forall_forall. intros s Hs. apply in_rev in Hs. rewrite Forall_forall in Himm. now apply Himm.
  - destruct (l_levels d) as [|l0 rest]; [constructor|]. destruct Hlev as [H0 Hr].
    cbn [levels_srcs level_src]. apply Forall_app. split; [|now apply deep_srcs_sorted].
    apply Forall_forall. intros s Hs. apply in_map_iff in Hs. destruct Hs as (t & <- & Ht).
    apply in_rev in Ht. rewrite Forall_forall in H0. now apply H0.
Qed.

(* the stream the iterator reads is strictly sorted by ent_cmp *)
Theorem merged_sorted d : GetProofs.lsm_wf d -> ssorted (merged d).
Proof. intros H. apply merge_all_sorted. now apply all_srcs_sorted. Qed.

Lemma merged_in_iff d x :
  nodup_kv (GetProofs.all_entries d) -> (In x (merged d) <-> In x (GetProofs.all_entries d)).
Proof.
  intros Hnd. split; [apply MergeProofs.merge_all_in|now apply MergeProofs.merge_all_complete].
Qed.

Lemma newest_same_set U V k ts :
  nodup_kv U -> (forall x, In x V <-> In x U) -> newest V k ts = newest U k ts.
Proof.
  intros Hnd Hiff.
  assert (HndV: nodup_kv V) by (intros a b Ha Hb; apply Hnd; now apply Hiff).
  destruct (newest U k ts) as [e|] eqn:E.
  - apply newest_some in E. destruct E as (Hin & Hk & Hv & Hmax). apply newest_unique; auto.
    + now apply Hiff.
    + intros x Hx. apply Hmax. now apply Hiff.
  - destruct (newest V k ts) as [e|] eqn:E'; auto. exfalso.
    apply newest_some in E'. destruct E' as (Hin & Hk & Hv & _).
    apply (newest_none _ _ _ E e); auto. now apply Hiff.
Qed.

Lemma find_ext' {A} (f g : A -> bool) l : (forall x, f x = g x) -> find f l = find g l.
Proof. intros H. induction l as [|x l IH]; cbn; auto. now rewrite H, IH. Qed.

(* keys the iterator is allowed to show *)
Definition allowed (o : iopts) (k : bytes) : bool := io_internal o || negb (is_prefix c_badgerPrefix k).

Lemma find_cand_newest m k ts : ssorted m -> find (cand k ts) m = newest m k ts.
Proof.
  induction m as [|x s IH]; intros Hs; [reflexivity|]. cbn [find]. destruct (cand k ts x) eqn:C.
  - symmetry. now apply GetProofs.newest_sorted_head.
  - rewrite GetProofs.newest_skip_noncand by assumption. apply IH. eapply GetProofs.sorted_tail; eauto.
Qed.

(* with SinceTs = 0 and no banned namespaces, the iterator's per-key lookup is the point read *)
Lemma first_nonskip_newest o rts m k :
  io_since o = 0 -> ssorted m ->
  first_nonskip o rts (fun _ => false) m k = if allowed o k then newest m k rts else None.
Proof.
  intros Hsince Hs. unfold first_nonskip.
  assert (P: forall x, bytes_eqb (e_key x) k && negb (skip_common o rts (fun _ => false) x)
                       = allowed o k && cand k rts x).
  { intros x. unfold cand. destruct (bytes_eqb (e_key x) k) eqn:K; [|now rewrite andb_false_r].
    apply bytes_eqb_eq in K. cbn [andb]. unfold skip_common, is_internal, allowed. rewrite Hsince, K.
    cbn [N.ltb N.compare andb]. rewrite andb_false_r, !orb_false_r.
    rewrite negb_orb, negb_andb, negb_involutive. f_equal. now rewrite N.leb_antisym. }
  rewrite (find_ext' _ _ m P). destruct (allowed o k).
  - rewrite <- find_cand_newest by assumption. apply find_ext'. reflexivity.
  - clear. induction m as [|x m IH]; auto.
Qed.

Lemma vis_of_some now c e : vis_of now c = Some e <-> c = Some e /\ deleted_or_expired e now = false.
Proof.
  unfold vis_of. destruct c as [x|]; [|split; [discriminate|intros [? _]; discriminate]].
  destruct (deleted_or_expired x now) eqn:D; split.
  - discriminate.
  - intros [[= ->] D']. congruence.
  - intros [= ->]. auto.
  - intros [[= ->] _]. reflexivity.
Qed.

(* two lists with strictly increasing keys and the same elements are the same list *)
Lemma sorted_keys_unique (l1 l2 : list entry) :
  StronglySorted klt (map e_key l1) -> StronglySorted klt (map e_key l2) ->
  (forall e, In e l1 <-> In e l2) -> l1 = l2.
Proof.
  revert l2. induction l1 as [|x l1 IH]; intros l2 H1 H2 Hiff.
  - destruct l2 as [|y l2]; auto. exfalso. apply (proj2 (Hiff y)). now left.
  - destruct l2 as [|y l2]; [exfalso; apply (proj1 (Hiff x)); now left|].
    cbn [map] in H1, H2. inversion H1 as [|? ? S1 F1]; subst. inversion H2 as [|? ? S2 F2]; subst.
    rewrite Forall_forall in F1, F2.
    assert (x = y).
    { destruct (proj1 (Hiff x) (or_introl eq_refl)) as [E|Hx]; auto.
      destruct (proj2 (Hiff y) (or_introl eq_refl)) as [E|Hy]; auto. exfalso.
      apply (klt_not_sym (e_key x) (e_key y)); [apply F1|apply F2]; now apply in_map. }
    subst y. f_equal. apply IH; auto. intros e. split; intros He.
    + destruct (proj1 (Hiff e) (or_intror He)) as [E|H]; auto. subst e. exfalso.
      apply (klt_irrefl (e_key x)). apply F1. now apply in_map.
    + destruct (proj2 (Hiff e) (or_intror He)) as [E|H]; auto. subst e. exfalso.
      apply (klt_irrefl (e_key x)). apply F2. now apply in_map.
Qed.

(* D, state-independent core: on a well-formed tree with distinct key@version, a default forward
   iteration yields, in strictly increasing key order, exactly the entries e with
   "Get(e_key e) at rts = e and e is live" *)
Theorem iterate_is_get d o rts now :
  GetProofs.lsm_wf d -> nodup_kv (GetProofs.all_entries d) ->
  io_reverse o = false -> io_all o = false -> io_prefix o = [] -> io_prefix_is_key o = false -> io_since o = 0 ->
  let l := iterate o rts now (fun _ => false) (merged d) [] in
  StronglySorted klt (map e_key l) /\
  (forall e, In e l <-> allowed o (e_key e) = true /\ vis_of now (db_get d (e_key e) rts) = Some e).
Proof.
  intros Hwf Hnd Hr Ha Hp Hk Hsince. cbv zeta. rewrite iterate_plain by assumption.
  pose proof (merged_sorted d Hwf) as Hs. split; [now apply fwd_items_keys_increasing|].
  intros e. rewrite fwd_items_in_iff_first by (auto; now apply cut_id_noprefix).
  rewrite first_nonskip_newest by assumption.
  rewrite (newest_same_set (GetProofs.all_entries d) (merged d)) by (auto; intros x; now apply merged_in_iff).
  rewrite <- GetProofs.db_get_newest by assumption. rewrite vis_of_some.
  destruct (allowed o (e_key e)); split; intros H; try tauto.
  - destruct H as [H _]. discriminate.
  - destruct H as [H _]. discriminate.
Qed.

(* the item for key k, as a lookup *)
Theorem iterate_lookup_is_get d o rts now k :
  GetProofs.lsm_wf d -> nodup_kv (GetProofs.all_entries d) ->
  io_reverse o = false -> io_all o = false -> io_prefix o = [] -> io_prefix_is_key o = false -> io_since o = 0 ->
  find (fun e => bytes_eqb (e_key e) k) (iterate o rts now (fun _ => false) (merged d) []) =
  if allowed o k then vis_of now (db_get d k rts) else None.
Proof.
  intros Hwf Hnd Hr Ha Hp Hk Hsince. rewrite iterate_plain by assumption.
  pose proof (merged_sorted d Hwf) as Hs.
  rewrite fwd_items_lookup by (auto; now apply cut_id_noprefix).
  rewrite first_nonskip_newest by assumption.
  rewrite (newest_same_set (GetProofs.all_entries d) (merged d)) by (auto; intros x; now apply merged_in_iff).
  rewrite <- GetProofs.db_get_newest by assumption. destruct (allowed o k); reflexivity.
Qed.

(* ---- every reachable state ---- *)
Lemma reachable_tree_facts detect nkeep nlevels next ops :
  (0 < nlevels)%nat -> Forall op_plain ops ->
  let s := snd (exec_tree (init_sys false detect nkeep nlevels next) ops 0) in
  GetProofs.lsm_wf (s_db s) /\ nodup_kv (GetProofs.all_entries (s_db s)).
Proof.
  cbv zeta. intros Hn HF.
  pose proof (TreeStepProofs.exec_tree_inv ops _ 0 HF (TreeStepProofs.init_sys_inv detect nkeep nlevels next Hn)) as [_ HT].
  destruct HT as (_ & _ & Hok & _ & Hnd & _). split; auto. now apply TreeInvProofs.db_ok_lsm_wf.
Qed.

Theorem forward_equals_spec detect nkeep nlevels next ops :
  (0 < nlevels)%nat -> Forall op_plain ops ->
  let s := snd (exec_tree (init_sys false detect nkeep nlevels next) ops 0) in
  forall x o,
    pend_src x = [] ->
    io_reverse o = false -> io_all o = false -> io_prefix o = [] -> io_prefix_is_key o = false -> io_since o = 0 ->
    TreeSpecProofs.max_discard ops <= x_read x -> TreeSpecProofs.max_now ops <= s_now s ->
    let l := txn_iterate s x o [] in
    let shown := fun e => allowed o (e_key e) = true /\ vis (s_writes s) (e_key e) (x_read x) (s_now s) = Some e in
    StronglySorted klt (map e_key l) /\
    (forall e, In e l <-> shown e) /\
    (forall l', StronglySorted klt (map e_key l') -> (forall e, In e l' <-> shown e) -> l' = l).
Proof.
  cbv zeta. intros Hn HF x o Hpend Hr Ha Hp Hk Hsince Hd Hw.
  destruct (reachable_tree_facts detect nkeep nlevels next ops Hn HF) as [Hwf Hnd].
  set (s := snd (exec_tree (init_sys false detect nkeep nlevels next) ops 0)) in *.
  unfold txn_iterate. rewrite Hpend, merge2_nil_l.
  destruct (iterate_is_get (s_db s) o (x_read x) (s_now s) Hwf Hnd Hr Ha Hp Hk Hsince) as [S I].
  assert (I': forall e, In e (iterate o (x_read x) (s_now s) (fun _ => false) (merged (s_db s)) []) <->
                        allowed o (e_key e) = true /\ vis (s_writes s) (e_key e) (x_read x) (s_now s) = Some e).
  { intros e. rewrite I.
    pose proof (TreeSpecProofs.get_equals_spec detect nkeep nlevels next ops Hn HF (e_key e) (x_read x) (s_now s) Hd Hw) as G.
    cbv zeta in G. fold s in G. rewrite G. reflexivity. }
  split; [exact S|]. split; [exact I'|].
  intros l' S' I''. apply sorted_keys_unique; auto. intros e. rewrite I'', I'. reflexivity.
Qed.

Lemma pend_src_readonly x : x_update x = false -> pend_src x = [].
Proof. unfold pend_src. now intros ->. Qed.
Lemma pend_src_nopending x : x_pend x = [] -> pend_src x = [].
Proof. unfold pend_src. intros ->. now destruct (x_update x). Qed.
