(* SysReopen.v — close / re-open, DropAll and the structural well-formedness of the levels, as
   wrapper labels over Sys.op (the shared system model is not modified).

   db.go close():  blockWrites; stop the write loop; if the active memtable is non-empty push it
     on flushChan / db.imm; stopMemoryFlush drains the flusher, i.e. every immutable memtable
     becomes an L0 table (handleMemTableFlush -> addLevel0Table: appended, so newest last);
     CompactL0OnClose is off in the histories (openSysDB) and forced off in read-only mode
     (options.go); vlog.Close truncates the newest value log to its write offset; the pid/lock
     file is removed.  No .mem file is left by a clean close.
   db.go Open():   openMemTables replays the .mem files into db.imm (none after a clean close);
     a fresh, empty active memtable (none at all when ReadOnly); newLevelsController opens the
     tables named by the MANIFEST and levelHandler.initTables sorts level 0 by file id and the
     other levels by smallest key, then levelsController.validate; a new oracle:
       db.orc.nextTxnTs = db.MaxVersion(); txnMark.Done(nextTxnTs); readMark.Done(nextTxnTs);
       incrementNextTs()
     so nextTxnTs = (largest stored version) + 1, the first read timestamp is the largest stored
     version, committedTxns is empty, discardTs is 0.  Transactions of the previous session are
     gone.  With ReadOnly, DB.newTransaction forces update=false, so every Set/Delete answers
     ErrReadOnlyTxn.
   db.go DropAll(): blocks writes, stops flushes/compactions, drops the memtables, every table
     (levelsController.dropTree) and every value log file; the oracle is NOT touched. *)
From Verif Require Import Bytes Keys Consts Spec Lsm Compact Iter Sys.
Open Scope N_scope.

(* ---- levelHandler.initTables, level 0: sort.Slice by table id (ids are distinct) ---- *)
Fixpoint ins_by_id (t : table) (l : list table) : list table :=
  match l with
  | [] => [t]
  | x :: r => if t_id t <=? t_id x then t :: l else x :: ins_by_id t r
  end.
Definition sort_by_id (l : list table) : list table := fold_right ins_by_id [] l.

(* ---- close: rotate a non-empty active memtable, then flush every immutable memtable;
   ids = the file id each flush received (ignored for an empty memtable), oldest first ---- *)
Definition close_db (d : lsm) (ids : list N) : lsm :=
  let d1 := match l_mt d with [] => d | _ => rotate d end in
  fold_left flush_oldest ids d1.

(* ---- open after a clean close.  Levels >= 1 are re-sorted by smallest key by initTables;
   they already are (C14: levels_wf gives strictly increasing smallest keys), so the model
   leaves them alone and the Reopen label's dump checks the order the implementation has. ---- *)
Definition open_levels (ls : list (list table)) : list (list table) :=
  match ls with
  | [] => []
  | l0 :: r => sort_by_id l0 :: r
  end.
Definition open_db (d : lsm) : lsm := mkLsm [] (l_imm d) (open_levels (l_levels d)).

Definition reopen_db (d : lsm) (ids : list N) : lsm := open_db (close_db d ids).

Definition reopen_sys (s : sys) (ids : list N) : sys :=
  let d := reopen_db (s_db s) ids in
  mkSys d (max_version d + 1) [] [] (s_managed s) (s_detect s) (s_nkeep s) 0 (s_writes s) (s_now s).

Definition drop_all_sys (s : sys) : sys :=
  mkSys (mkLsm [] [] (repeat [] (length (l_levels (s_db s))))) (s_next s) (s_committed s) (s_txns s)
        (s_managed s) (s_detect s) (s_nkeep s) (s_discard s) [] (s_now s).

(* ---- structural well-formedness (C14) ---- *)
(* strictly ascending internal keys: no key@version twice *)
Fixpoint src_sorted (s : src) : bool :=
  match s with
  | a :: ((b :: _) as r) => match ent_cmp a b with Lt => src_sorted r | _ => false end
  | _ => true
  end.

Definition table_ok (t : table) : bool :=
  match t_ents t with [] => false | _ => src_sorted (t_ents t) end.

(* consecutive tables of a level >= 1: biggest(i) < smallest(i+1) in internal-key order and
   the two boundary entries have different user keys (all versions of a key in one table) *)
Fixpoint level_chain (l : list table) : bool :=
  match l with
  | a :: ((b :: _) as r) =>
      match t_biggest a, t_smallest b with
      | Some x, Some y =>
          match ent_cmp x y with
          | Lt => negb (bytes_eqb (e_key x) (e_key y)) && level_chain r
          | _ => false
          end
      | _, _ => false
      end
  | _ => true
  end.

Fixpoint nodup_ids (l : list N) : bool :=
  match l with
  | [] => true
  | x :: r => negb (existsb (N.eqb x) r) && nodup_ids r
  end.

Definition level_wf (l : list table) : bool :=
  forallb table_ok l && level_chain l && nodup_ids (map t_id l).

Definition levels_wf (ls : list (list table)) : bool :=
  match ls with
  | [] => true
  | l0 :: r => forallb table_ok l0 && forallb level_wf r
  end.

(* levelHandler.validate (util.go), level >= 1, as coded: for j >= 1,
   CompareKeys(biggest(j-1), smallest(j)) >= 0 -> "Inter" error;
   CompareKeys(smallest(j), biggest(j)) > 0 -> "Intra" error *)
Fixpoint validate_level (l : list table) : bool :=
  match l with
  | a :: ((b :: _) as r) =>
      match t_biggest a, t_smallest b, t_biggest b with
      | Some x, Some y, Some z =>
          match ent_cmp x y with
          | Lt => match ent_cmp y z with Gt => false | _ => validate_level r end
          | _ => false
          end
      | _, _, _ => false
      end
  | _ => true
  end.
Definition validate_levels (ls : list (list table)) : bool :=
  match ls with [] => true | _ :: r => forallb validate_level r end.

(* ---- extra decidable checks on a Compact label, needed by the C14 invariant ---- *)
(* the new tables are non-empty and a table break falls only between different user keys
   (levels.go subcompact: `if !y.SameKey(it.Key(), lastKey) { ... if builder.ReachedCapacity() break`;
   addSplits: right boundary = key@0) *)
Fixpoint chunks_ok (l : list table) : bool :=
  match l with
  | [] => true
  | a :: r =>
      match t_ents a with [] => false | _ =>
        match r with
        | [] => true
        | b :: _ =>
            match t_biggest a, t_smallest b with
            | Some x, Some y => negb (bytes_eqb (e_key x) (e_key y)) && chunks_ok r
            | _, _ => false
            end
        end
      end
  end.

(* a :: _ is an infix of l *)
Fixpoint is_prefix_ids (p l : list N) : bool :=
  match p, l with
  | [], _ => true
  | x :: p', y :: l' => (x =? y) && is_prefix_ids p' l'
  | _ :: _, [] => false
  end.
Fixpoint is_infix_ids (p l : list N) : bool :=
  is_prefix_ids p l || match l with [] => false | _ :: r => is_infix_ids p r end.

(* reason codes: 0 = fine *)
Definition compact_extra_check (ls : list (list table)) (c : compaction) : N :=
  if negb (chunks_ok (split_counts (compaction_output ls c) (c_layout c))) then 801
  else if negb (nodup_ids (c_order c)) then 802
  else
    match c_this c with
    | O => 0
    | S _ =>
        if (c_this c =? c_next c)%nat then
          (* Lmax -> Lmax (fillMaxLevelTables / collectBotTables): top = one table, bot = the
             tables that follow it in the level: together one contiguous run *)
          if is_infix_ids (c_top c ++ c_bot c) (ids_of (nth (c_this c) ls [])) then 0 else 803
        else 0
    end.

(* ---- the wrapped system ---- *)
Record xsys := mkX { x_sys : sys; x_ro : bool }.

Inductive xop :=
| Base (o : op)
| Reopen (ro : bool) (ids : list N) (next : N) (dump : list (list (N * list entry)))
| DropAll (next : N)
| GetAt (k : bytes) (ts : N) (r : getres)     (* a read-only transaction at read timestamp ts *)
| CheckWf.

Inductive xresult := XOk (s : xsys) | XBad (code : N).

Definition lift (ro : bool) (r : result) : xresult :=
  match r with Ok s => XOk (mkX s ro) | Bad c => XBad c end.

(* codes: as Sys.step, plus 20 = operation impossible on a read-only DB, 21 = explicit version in
   normal mode (Txn.SetEntry has no version parameter; WriteBatch.SetEntryAt/DeleteAt answer an
   error unless the DB is managed), 30 = a memtable survived the close, 31 = nextTxnTs differs,
   32 = levels after Open differ, 33 = DropAll in read-only mode (panics), 7 = levels not
   well-formed, 8xx = compact_extra_check *)
(* Txn.SetEntry / Delete carry no version; WriteBatch.SetEntryAt / DeleteAt refuse a DB that is
   not managed: a Modify label with an explicit version cannot come from a normal-mode DB *)
Definition bad_version (s : sys) (b : op) : bool :=
  match b with
  | Modify _ e _ => negb (s_managed s) && negb (e_ver e =? 0)
  | _ => false
  end.

Definition xstep (xs : xsys) (o : xop) : xresult :=
  let s := x_sys xs in
  match o with
  | Base b =>
      if bad_version s b then XBad 21
      else if x_ro xs then
        match b with
        | Begin t upd rts => lift true (step s (Begin t false rts))
        | Flush _ => XBad 20
        | Compact _ _ => XBad 20
        | _ => lift true (step s b)
        end
      else
        match b with
        | Compact c out =>
            match step s b with
            | Ok s' => let x := compact_extra_check (l_levels (s_db s)) c in
                       if x =? 0 then XOk (mkX s' false) else XBad x
            | Bad code => XBad code
            end
        | _ => lift false (step s b)
        end
  | Reopen ro ids next dump =>
      let closed := close_db (s_db s) ids in
      match l_mt closed, l_imm closed with
      | [], [] =>
          let s' := reopen_sys s ids in
          if negb (s_next s' =? next) then XBad 31
          else if negb (dump_eqb (l_levels (s_db s')) dump) then XBad 32
          else XOk (mkX s' ro)
      | _, _ => XBad 30
      end
  | DropAll next =>
      if x_ro xs then XBad 33
      else let s' := drop_all_sys s in
           if s_next s' =? next then XOk (mkX s' false) else XBad 31
  | GetAt k ts r =>
      let '(r', _) := txn_get s (mkTxn ts false [] [] [] false) k in
      if getres_eqb r' r then XOk xs else XBad 1
  | CheckWf => if levels_wf (l_levels (s_db s)) then XOk xs else XBad 7
  end.

Fixpoint xexec (s : xsys) (ops : list xop) (i : N) : option (N * N) * xsys :=
  match ops with
  | [] => (None, s)
  | o :: r => match xstep s o with
              | XOk s' => xexec s' r (i + 1)
              | XBad code => (Some (i, code), s)
              end
  end.

Definition init_xsys (managed detect : bool) (nkeep : N) (nlevels : nat) (next : N) : xsys :=
  mkX (init_sys managed detect nkeep nlevels next) false.
