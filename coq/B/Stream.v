(* Stream.v — stream.go (ToList, produceRanges, produceKVs, Orchestrate), backup.go (Stream.Backup's
   KeyToList and Send, KVLoader.Set, DB.Load), db.go (Ranges).
   A pb.KV is projected to an `entry`: Key, Version, first Meta byte (the three bits the system
   model keeps; 0 when the field is absent), first UserMeta byte (0 when absent), ExpiresAt, Value.
   Not modelled: batching into z.Buffers (order inside one range is preserved, see streamKVs),
   StreamId / done markers, UseKeyToListWithThreadId, item.Value read errors. *)
From Verif Require Import Bytes Keys Consts Spec Lsm Compact Iter Sys.
Open Scope N_scope.

(* ---------- KeyToList ---------- *)

(* stream.go Stream.ToList(key, itr): the KV built for one item *)
Definition tl_entry (key : bytes) (e : entry) : entry :=
  mkE key (e_ver e) 0 (e_umeta e) (e_exp e) (e_val e).

(* Returns (list, iterator position when the function returns).  `its` is what the iterator
   yields from its current item on (AllVersions: newest version first inside one key). *)
Fixpoint to_list (nkeep now : N) (key : bytes) (its : list entry) : list entry * list entry :=
  match its with
  | [] => ([], [])                                            (* !itr.Valid() *)
  | e :: r =>
      if deleted_or_expired e now then ([], its)              (* break *)
      else if negb (bytes_eqb key (e_key e)) then ([], its)   (* another key: break *)
      else
        let kv := tl_entry key e in
        if nkeep =? 1 then ([kv], its)                        (* NumVersionsToKeep == 1: break *)
        else if has_discard e then ([kv], its)                (* DiscardEarlierVersions: break *)
        else let '(l, rest) := to_list nkeep now key r in (kv :: l, rest)
  end.

(* backup.go Stream.Backup, the KeyToList closure.  uint64 `Version - 1` wraps. *)
Definition ver_pred (v : N) : N := if v =? 0 then max_u64 else v - 1.
Definition bk_entry (now : N) (e : entry) : entry :=
  mkE (e_key e) (e_ver e) (e_meta e) (e_umeta e) (e_exp e)
      (if deleted_or_expired e now then [] else e_val e).
Definition synth_delete (e : entry) : entry :=
  mkE (e_key e) (ver_pred (e_ver e)) c_bitDelete 0 0 [].

(* None = the closure returned an error ("Item Version less than sinceTs"); produceKVs logs a
   warning and skips the key *)
Fixpoint bk_list (since now : N) (key : bytes) (its : list entry) : option (list entry) * list entry :=
  match its with
  | [] => (Some [], [])
  | e :: r =>
      if negb (bytes_eqb (e_key e) key) then (Some [], its)
      else if e_ver e <? since then (None, its)
      else
        let kv := bk_entry now e in
        if has_discard e then (Some [kv; synth_delete e], its)
        else if deleted_or_expired e now then (Some [kv], its)
        else let '(l, rest) := bk_list since now key r in (option_map (cons kv) l, rest)
  end.

Inductive ktl_kind := KToList (nkeep : N) | KBackup (since : N).

Definition key_to_list (kd : ktl_kind) (now : N) (key : bytes) (its : list entry)
  : option (list entry) * list entry :=
  match kd with
  | KToList nkeep => let '(l, r) := to_list nkeep now key its in (Some l, r)
  | KBackup since => bk_list since now key its
  end.

(* ---------- produceKVs: the loop over one key range ---------- *)
Section Produce.
  Variable ktl : bytes -> list entry -> option (list entry) * list entry.
  Variable choose : entry -> bool.          (* Stream.ChooseKey (nil = all) *)
  Variable right : bytes.                   (* kr.right; empty = open *)

  Definition past_right (k : bytes) : bool :=
    match right with
    | [] => false
    | _ => match lex_cmp k right with Lt => false | _ => true end
    end.

  (* one Go loop iteration per unit of fuel; `its` = iterator position, prev = prevKey.
     Result: the non-empty KV lists in the order they are appended to outList. *)
  Fixpoint produce (fuel : nat) (its : list entry) (prev : bytes) : list (list entry) :=
    match fuel with
    | O => []
    | S f =>
        match its with
        | [] => []
        | e :: r =>
            if bytes_eqb (e_key e) prev then produce f r prev           (* itr.Next(); continue *)
            else
              let prev' := e_key e in
              if past_right (e_key e) then []                            (* break *)
              else if negb (choose e) then produce f its prev'           (* continue *)
              else match ktl (e_key e) its with
                   | (Some (x :: l), rest) => (x :: l) :: produce f rest prev'
                   | (_, rest) => produce f rest prev'                   (* error / empty list *)
                   end
        end
    end.
End Produce.

(* every iteration that does not consume an item is followed by one that does *)
Definition produce_fuel (its : list entry) : nat := 2 * length its + 2.

(* ---------- db.Ranges: [nil,k1) [k1,k2) ... [kn,nil) ---------- *)
Fixpoint ranges_from (start : bytes) (ks : list bytes) : list (bytes * bytes) :=
  match ks with
  | [] => [(start, [])]
  | k :: r => (start, k) :: ranges_from k r
  end.
Definition ranges (ks : list bytes) : list (bytes * bytes) := ranges_from [] ks.

(* what the code guarantees about the split keys: sort.Strings order, each split is a stored
   (hence non-empty) key that has the stream prefix *)
Fixpoint sorted_keys (ks : list bytes) : bool :=
  match ks with
  | [] => true
  | k :: r => match r with
              | [] => true
              | k' :: _ => match lex_cmp k k' with Gt => false | _ => true end
              end && sorted_keys r
  end.
Definition splits_ok (prefix : bytes) (ks : list bytes) : bool :=
  sorted_keys ks && forallb (fun k => match k with [] => false | _ => is_prefix prefix k end) ks.

(* ---------- one Stream run ---------- *)
Definition stream_io (prefix : bytes) (since : N) : iopts := mkIO false true prefix false since false.

Section Run.
  Variable prefix : bytes.                  (* Stream.Prefix *)
  Variable since now : N.                   (* Stream.SinceTs; wall clock *)
  Variable banned : bytes -> bool.
  Variable kd : ktl_kind.
  Variable choose : entry -> bool.

  (* txn.NewIterator(AllVersions, Prefix, SinceTs); itr.Seek(kr.left) *)
  Definition range_items (rts : N) (m : src) (left : bytes) : list entry :=
    iterate (stream_io prefix since) rts now banned m left.

  Definition produce_range (rts : N) (m : src) (rng : bytes * bytes) : list (list entry) :=
    let its := range_items rts m (fst rng) in
    produce (key_to_list kd now) choose (snd rng) (produce_fuel its) its [].

  (* all producers read the same view m at the same timestamp *)
  Definition stream_pass (rts : N) (m : src) (ks : list bytes) : list (list entry) :=
    concat (map (produce_range rts m) (ranges ks)).

  (* as coded: the producer that takes a range reads at ITS transaction's timestamp, and sees
     the tree as it is when it iterates *)
  Definition run_reads (rs : list ((bytes * bytes) * (N * src))) : list (list entry) :=
    concat (map (fun x => produce_range (fst (snd x)) (snd (snd x)) (fst x)) rs).
End Run.

(* ---------- Backup / Load ---------- *)
Definition max_ver (l : list entry) : N := fold_left (fun m e => N.max m (e_ver e)) l 0.

Definition all_keys (e : entry) : bool := true.

(* DB.Backup(w, since) at one snapshot: SinceTs = since, no prefix, no ChooseKey.
   Result: KVs written, returned maxVersion (0 when nothing was sent) *)
Definition backup_of (m : src) (r since now : N) (ks : list bytes) : list entry * N :=
  let out := concat (stream_pass [] since now (fun _ => false) (KBackup since) all_keys r m ks) in
  (out, max_ver out).

(* DB.Load: every KV becomes the entry key@Version (KVLoader.Set), applied in order through
   the write path; nextTxnTs is raised above every version seen *)
Definition load_next (n : N) (e : entry) : N :=
  if n <=? e_ver e then (e_ver e + 1) mod two64 else n.
Definition load (s : sys) (kvs : list entry) : sys :=
  mkSys (apply_entries (s_db s) kvs) (fold_left load_next kvs (s_next s)) (s_committed s) (s_txns s)
        (s_managed s) (s_detect s) (s_nkeep s) (s_discard s) (s_writes s ++ kvs) (s_now s).

(* a chain of incremental backups, each taken at one snapshot (view, read ts) and with
   since = the value the previous one returned *)
Fixpoint chain_of (bs : list (src * N)) (since now : N) : list entry :=
  match bs with
  | [] => []
  | (m, r) :: rest => let '(out, ret) := backup_of m r since now [] in out ++ chain_of rest ret now
  end.
