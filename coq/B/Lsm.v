(* Lsm.v — the LSM tree as a list of sorted sources; point lookup as coded in
   db.get / levelsController.get / levelHandler.get / skl.Get; merged view for iterators;
   memtable put; flush. *)
From Verif Require Import Bytes Keys Consts Spec.
Open Scope N_scope.

Definition src := list entry.   (* sorted by ent_cmp, no two entries with the same key@version *)

(* Seek: first entry whose internal key is >= (k, ts) *)
Fixpoint seek_ge (s : src) (k : bytes) (ts : N) : src :=
  match s with
  | [] => []
  | e :: r => if key_le k ts e then s else seek_ge r k ts
  end.

(* skl.Get / table Seek + SameKey check *)
Definition src_get (s : src) (k : bytes) (ts : N) : option entry :=
  match seek_ge s k ts with
  | e :: _ => if bytes_eqb (e_key e) k then Some e else None
  | [] => None
  end.

(* skiplist Put: insert in order; an existing key@version is overwritten *)
Fixpoint mt_put (s : src) (e : entry) : src :=
  match s with
  | [] => [e]
  | x :: r =>
      match ent_cmp e x with
      | Lt => e :: s
      | Eq => e :: r
      | Gt => x :: mt_put r e
      end
  end.

Record table := mkT { t_id : N; t_ents : src }.

Definition t_smallest (t : table) : option entry := hd_error (t_ents t).
Definition t_biggest (t : table) : option entry := last (map Some (t_ents t)) None.

Record lsm := mkLsm {
  l_mt : src;
  l_imm : list src;            (* oldest first, as db.imm *)
  l_levels : list (list table) (* level 0 in list order (oldest first); >= 1 sorted by smallest *)
}.

(* candidate update used everywhere: strictly newer version replaces (first wins on ties) *)
Definition better (best : option entry) (c : option entry) : option entry :=
  match c with
  | None => best
  | Some e => match best with
              | None => Some e
              | Some b => if e_ver b <? e_ver e then Some e else best
              end
  end.

(* levelHandler.get for level 0: all tables, newest (last) first *)
Definition l0_get (ts_ : list table) (k : bytes) (ts : N) : option entry :=
  fold_left (fun best t => better best (src_get (t_ents t) k ts)) (rev ts_) None.

(* levelHandler.get for level >= 1: the first table whose biggest key is >= (k, ts) *)
Fixpoint ln_table_for (ts_ : list table) (k : bytes) (ts : N) : option table :=
  match ts_ with
  | [] => None
  | t :: r =>
      match t_biggest t with
      | Some b => if key_le k ts b then Some t else ln_table_for r k ts
      | None => ln_table_for r k ts
      end
  end.
Definition ln_get (ts_ : list table) (k : bytes) (ts : N) : option entry :=
  match ln_table_for ts_ k ts with
  | Some t => src_get (t_ents t) k ts
  | None => None
  end.

Definition level_get (lvl : nat) (ts_ : list table) (k : bytes) (ts : N) : option entry :=
  match lvl with O => l0_get ts_ k ts | _ => ln_get ts_ k ts end.

(* candidates in the order db.get / levelsController.get consult them *)
Fixpoint level_cands (lvl : nat) (ls : list (list table)) (k : bytes) (ts : N) : list (option entry) :=
  match ls with
  | [] => []
  | l :: r => level_get lvl l k ts :: level_cands (S lvl) r k ts
  end.
Definition mem_cands (d : lsm) (k : bytes) (ts : N) : list (option entry) :=
  src_get (l_mt d) k ts :: map (fun s => src_get s k ts) (rev (l_imm d)).
Definition cands (d : lsm) (k : bytes) (ts : N) : list (option entry) :=
  mem_cands d k ts ++ level_cands 0 (l_levels d) k ts.

(* the scan with the early exit on an exact version match, as coded *)
Fixpoint scan (cs : list (option entry)) (ts : N) (best : option entry) : option entry :=
  match cs with
  | [] => best
  | None :: r => scan r ts best
  | Some e :: r => if e_ver e =? ts then Some e else scan r ts (better best (Some e))
  end.
Definition db_get (d : lsm) (k : bytes) (ts : N) : option entry := scan (cands d k ts) ts None.

(* ---- merged view (what table.MergeIterator yields: sorted union, earliest source wins) ---- *)
Fixpoint merge2 (a : src) : src -> src :=
  fix inner (b : src) : src :=
    match a, b with
    | [], _ => b
    | _, [] => a
    | x :: a', y :: b' =>
        match ent_cmp x y with
        | Lt => x :: merge2 a' b
        | Eq => x :: merge2 a' b'
        | Gt => y :: inner b'
        end
    end.
Definition merge_all (ss : list src) : src := fold_right merge2 [] ss.

Definition level_src (lvl : nat) (ts_ : list table) : list src :=
  match lvl with
  | O => map t_ents (rev ts_)
  | _ => [concat (map t_ents ts_)]
  end.
Fixpoint levels_srcs (lvl : nat) (ls : list (list table)) : list src :=
  match ls with
  | [] => []
  | l :: r => level_src lvl l ++ levels_srcs (S lvl) r
  end.
(* precedence order of all sources: memtable, immutables newest first, L0 newest first, L1.. *)
Definition all_srcs (d : lsm) : list src := l_mt d :: rev (l_imm d) ++ levels_srcs 0 (l_levels d).
Definition merged (d : lsm) : src := merge_all (all_srcs d).

(* ---- flush: rotate the memtable, then the oldest immutable becomes the newest L0 table ---- *)
Definition rotate (d : lsm) : lsm := mkLsm [] (l_imm d ++ [l_mt d]) (l_levels d).
Definition add_l0 (ls : list (list table)) (t : table) : list (list table) :=
  match ls with
  | [] => [[t]]
  | l0 :: r => (l0 ++ [t]) :: r
  end.
Definition flush_oldest (d : lsm) (id : N) : lsm :=
  match l_imm d with
  | [] => d
  | m :: r => mkLsm (l_mt d) r (match m with [] => l_levels d | _ => add_l0 (l_levels d) (mkT id m) end)
  end.
