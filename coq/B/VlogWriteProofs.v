(* VlogWriteProofs.v — every value written through valueLog.write is read back unchanged through
   the pointer that was handed to the LSM tree, whatever the batching of requests, the rotation
   limits and the later writes. *)
From Coq Require Import Lia ZifyN ZifyNat ZifyBool.
From Verif Require Import Bytes BytesProofs Uvarint Keys Codec Crc32c LogRecord Consts LogProofs C20Proofs VlogWrite.
Open Scope N_scope.

Section VlogP.
  Variable encrypted : bool.
  Variable xs : bytes -> bytes -> bytes.
  Variable iv_of : N -> bytes.
  Variable hdr_of : N -> bytes.
  Variable file_size max_entries : N.
  Hypothesis xs_len : forall iv d, length (xs iv d) = length d.
  Hypothesis xs_invol : forall iv d, xs iv (xs iv d) = d.
  Hypothesis xs_stream : forall iv a b, firstn (length a) (xs iv (a ++ b)) = xs iv a.
  Hypothesis hdr_len : forall f, N.of_nat (length (hdr_of f)) = c_vlogHeaderSize.

  Notation vlog := VlogWrite.vlog.
  Notation put1 := (put1 encrypted xs iv_of).
  Notation write_req := (write_req encrypted xs iv_of).
  Notation to_disk := (to_disk hdr_of file_size max_entries).
  Notation write_one := (write_one encrypted xs iv_of hdr_of file_size max_entries).
  Notation write_reqs := (write_reqs encrypted xs iv_of hdr_of file_size max_entries).
  Notation write_call := (write_call encrypted xs iv_of hdr_of file_size max_entries).
  Notation write_calls := (write_calls encrypted xs iv_of hdr_of file_size max_entries).
  Notation read_value := (read_value encrypted xs iv_of).
  Notation item_value := (item_value encrypted xs iv_of).

  (* ---- files ---- *)
  Lemma fget_fapp fs f x g :
    fget (fapp fs f x) g = if g =? f then option_map (fun d => d ++ x) (fget fs f) else fget fs g.
  Proof.
    induction fs as [|[h d] r IH]; cbn [fapp fget].
    - destruct (g =? f); reflexivity.
    - destruct (h =? f) eqn:Ehf; cbn [fget].
      + apply N.eqb_eq in Ehf. subst h. destruct (g =? f) eqn:Egf.
        * apply N.eqb_eq in Egf. subst g. rewrite N.eqb_refl. reflexivity.
        * rewrite (N.eqb_sym f g), Egf. reflexivity.
      + destruct (h =? g) eqn:Ehg.
        * apply N.eqb_eq in Ehg. subst h. rewrite Ehf. reflexivity.
        * exact IH.
  Qed.

  Lemma fget_snoc fs f h g :
    fget (fs ++ [(f, h)]) g = match fget fs g with Some d => Some d | None => if f =? g then Some h else None end.
  Proof.
    induction fs as [|[a d] r IH]; cbn [app fget]; [reflexivity|].
    destruct (a =? g); [reflexivity | exact IH].
  Qed.

  (* ---- the invariant: the writable file exists, its size is the write offset, no file
     above maxFid ---- *)
  Definition vwf (st : vlog) : Prop :=
    (exists d, fget (vl_files st) (vl_max st) = Some d /\ N.of_nat (length d) = vl_woff st) /\
    (forall f, vl_max st < f -> fget (vl_files st) f = None).

  (* every pointer readable in st is readable in st' with the same bytes *)
  Definition ext (st st' : vlog) : Prop :=
    forall p b, read_bytes st p = Some b -> read_bytes st' p = Some b.

  Lemma ext_refl st : ext st st. Proof. intros p b H; exact H. Qed.
  Lemma ext_trans a b c : ext a b -> ext b c -> ext a c.
  Proof. intros H1 H2 p x H. apply H2, H1, H. Qed.

  Lemma read_value_ext st st' p v : ext st st' -> read_value st p = Some v -> read_value st' p = Some v.
  Proof.
    intros E. unfold VlogWrite.read_value. destruct (read_bytes st p) as [b|] eqn:R; [|discriminate].
    rewrite (E _ _ R). auto.
  Qed.

  Lemma firstn_skipn_app {A} (d x : list A) off len :
    (off + len <= length d)%nat -> firstn len (skipn off (d ++ x)) = firstn len (skipn off d).
  Proof.
    intros H. rewrite skipn_app. replace (off - length d)%nat with 0%nat by lia. cbn [skipn].
    rewrite firstn_app. rewrite skipn_length.
    replace (len - (length d - off))%nat with 0%nat by lia. cbn [firstn]. apply app_nil_r.
  Qed.

  Definition wfe (e : entry) : Prop := wf_entry (strip_txn e).

  Lemma put1_ok st e st1 p : vwf st -> wfe e -> put1 st e = (st1, p) ->
    vwf st1 /\ ext st st1 /\ read_value st1 p = Some (e_value e) /\ vl_max st1 = vl_max st /\ vl_n st1 = vl_n st.
  Proof.
    intros [(d & Hd & Hl) Hhi] We H. unfold VlogWrite.put1, put1_with in H.
    assert (Len: (0 < length (enc_of encrypted xs iv_of st e))%nat).
    { unfold enc_of, encode_entry. rewrite !app_length, be_enc_length. lia. }
    assert (Dec: decode_entry encrypted xs (iv_of (vl_max st)) (enc_of encrypted xs iv_of st e) (vl_woff st) = Some (strip_txn e)).
    { unfold enc_of. apply (decode_entry_encode encrypted xs (iv_of (vl_max st)) xs_len xs_invol xs_stream _ _ We). }
    remember (enc_of encrypted xs iv_of st e) as enc eqn:Henc. clear Henc.
    injection H as <- <-.
    split; [split | split; [| split; [| split; reflexivity]]]; cbn [vl_files vl_max vl_woff vl_n].
    - exists (d ++ enc). rewrite fget_fapp, N.eqb_refl, Hd. split; [reflexivity|].
      rewrite app_length. lia.
    - intros f Hf. rewrite fget_fapp. destruct (f =? vl_max st) eqn:E; [lia|]. apply Hhi, Hf.
    - intros p b R. unfold read_bytes in *. cbn [vl_files vl_max vl_woff].
      rewrite fget_fapp. destruct (vp_fid p =? vl_max st) eqn:E.
      + apply N.eqb_eq in E. rewrite E in R. rewrite Hd in R. rewrite Hd. cbn [option_map].
        cbn [andb] in *.
        destruct (vl_woff st <=? vp_off p) eqn:G1; [discriminate|].
        destruct ((N.of_nat (length d) <=? vp_off p) || (N.of_nat (length d) <? vp_off p + vp_len p)) eqn:G2; [discriminate|].
        apply Bool.orb_false_iff in G2. destruct G2 as [G2 G3].
        replace (vl_woff st + N.of_nat (length enc) <=? vp_off p) with false by lia.
        rewrite app_length.
        replace ((N.of_nat (length d + length enc) <=? vp_off p) || (N.of_nat (length d + length enc) <? vp_off p + vp_len p)) with false by lia.
        rewrite firstn_skipn_app by lia. exact R.
      + cbn [andb] in *. exact R.
    - unfold VlogWrite.read_value, read_bytes. cbn [vl_files vl_max vl_woff vp_fid vp_off vp_len].
      rewrite fget_fapp, N.eqb_refl, Hd. cbn [option_map andb].
      replace (vl_woff st + N.of_nat (length enc) <=? vl_woff st) with false by lia.
      rewrite app_length.
      replace ((N.of_nat (length d + length enc) <=? vl_woff st) || (N.of_nat (length d + length enc) <? vl_woff st + N.of_nat (length enc))) with false by lia.
      rewrite <- Hl, !Nnat.Nat2N.id. rewrite skipn_app, Nat.sub_diag, skipn_all. cbn [app skipn].
      rewrite firstn_all. rewrite Hl, Dec.
      reflexivity.
  Qed.

  Lemma to_disk_ok st : vwf st -> vwf (to_disk st) /\ ext st (to_disk st).
  Proof.
    intros [(d & Hd & Hl) Hhi]. unfold VlogWrite.to_disk.
    destruct ((file_size <? vl_woff st) || (max_entries <? vl_n st)); [| split; [split; eauto | apply ext_refl]].
    split; [split|]; cbn [vl_files vl_max vl_woff vl_n].
    - exists (hdr_of (vl_max st + 1)). rewrite fget_snoc, Hhi by lia. rewrite N.eqb_refl. split; [reflexivity | apply hdr_len].
    - intros f Hf. rewrite fget_snoc, Hhi by lia. destruct (vl_max st + 1 =? f) eqn:E; [lia | reflexivity].
    - intros p b R. unfold read_bytes in *. cbn [vl_files vl_max vl_woff].
      rewrite fget_snoc. destruct (fget (vl_files st) (vp_fid p)) as [dd|] eqn:F; [|discriminate].
      assert (vp_fid p <= vl_max st).
      { destruct (N.le_gt_cases (vp_fid p) (vl_max st)) as [L|G]; [exact L|]. rewrite (Hhi _ G) in F. discriminate. }
      replace (vp_fid p =? vl_max st + 1) with false by lia. cbn [andb].
      destruct ((vp_fid p =? vl_max st) && (vl_woff st <=? vp_off p)); [discriminate | exact R].
  Qed.

  Lemma set_n_ok st n : vwf st ->
    vwf (mkVlog (vl_files st) (vl_max st) (vl_woff st) n) /\ ext st (mkVlog (vl_files st) (vl_max st) (vl_woff st) n).
  Proof. intros H. split; [exact H | intros p b R; exact R]. Qed.

  (* what is promised for one entry and its pointer in state st *)
  Definition good (st : vlog) (x : entry * bool) (p : vptr) : Prop :=
    if snd x then p = zero_ptr else read_value st p = Some (e_value (fst x)).

  Lemma good_ext st st' x p : ext st st' -> good st x p -> good st' x p.
  Proof. unfold good. destruct (snd x); auto. intros E. apply read_value_ext, E. Qed.

  Lemma Forall2_good_ext st st' es ps : ext st st' -> Forall2 (good st) es ps -> Forall2 (good st') es ps.
  Proof. intros E H. induction H; constructor; auto. eapply good_ext; eauto. Qed.

  Definition wfes (es : list (entry * bool)) : Prop := Forall (fun x => snd x = false -> wfe (fst x)) es.

  Lemma write_req_ok es : forall st w st' ps w', vwf st -> wfes es -> write_req st es w = (st', ps, w') ->
    vwf st' /\ ext st st' /\ Forall2 (good st') es ps /\ vl_max st' = vl_max st /\ vl_n st' = vl_n st.
  Proof.
    induction es as [|[e skip] r IH]; intros st w st' ps w' W F H; cbn [VlogWrite.write_req] in H.
    - inversion H; subst. split; [|split; [|split; [|split]]]; auto using ext_refl.
    - inversion F as [|x l Fx Fr]; subst. destruct skip.
      + destruct (write_req st r w) as [[s2 ps2] w2] eqn:E. inversion H; subst; clear H.
        destruct (IH _ _ _ _ _ W Fr E) as (W2 & E2 & G2 & M2 & N2).
        split; [|split; [|split; [|split]]]; auto. constructor; [reflexivity | exact G2].
      + destruct (put1 st e) as [s1 p] eqn:P.
        destruct (write_req s1 r (w + 1)) as [[s2 ps2] w2] eqn:E. inversion H; subst; clear H.
        destruct (put1_ok _ _ _ _ W (Fx eq_refl) P) as (W1 & E1 & R1 & M1 & N1).
        destruct (IH _ _ _ _ _ W1 Fr E) as (W2 & E2 & G2 & M2 & N2).
        split; [|split; [|split; [|split]]]; auto; try congruence.
        * eapply ext_trans; eauto.
        * constructor; [| exact G2]. unfold good. cbn [snd fst]. eapply read_value_ext; eauto.
  Qed.

  Lemma write_one_ok st es st' ps : vwf st -> wfes es -> write_one st es = (st', ps) ->
    vwf st' /\ ext st st' /\ Forall2 (good st') es ps.
  Proof.
    intros W F H. unfold VlogWrite.write_one in H.
    destruct (write_req st es 0) as [[s1 ps1] w1] eqn:E. inversion H; subst; clear H.
    destruct (write_req_ok _ _ _ _ _ _ W F E) as (W1 & E1 & G1 & _ & _).
    destruct (set_n_ok s1 (vl_n s1 + w1) W1) as [W2 E2].
    destruct (to_disk_ok _ W2) as [W3 E3].
    split; [|split]; auto.
    - exact (ext_trans _ _ _ E1 (ext_trans _ _ _ E2 E3)).
    - eapply Forall2_good_ext; [|exact G1]. exact (ext_trans _ _ _ E2 E3).
  Qed.

  Definition goods (st : vlog) (req : list (entry * bool)) (ps : list vptr) : Prop := Forall2 (good st) req ps.

  Lemma Forall2_goods_ext st st' rs pss : ext st st' -> Forall2 (goods st) rs pss -> Forall2 (goods st') rs pss.
  Proof. intros E H. induction H; constructor; auto. eapply Forall2_good_ext; eauto. Qed.

  Lemma write_reqs_ok reqs : forall st st' pss, vwf st -> Forall wfes reqs -> write_reqs st reqs = (st', pss) ->
    vwf st' /\ ext st st' /\ Forall2 (goods st') reqs pss.
  Proof.
    induction reqs as [|es r IH]; intros st st' pss W F H; cbn [VlogWrite.write_reqs] in H.
    - inversion H; subst. split; [|split]; auto using ext_refl.
    - inversion F as [|x l Fx Fr]; subst.
      destruct (write_one st es) as [s1 ps] eqn:E1. destruct (write_reqs s1 r) as [s2 pss2] eqn:E2.
      inversion H; subst; clear H.
      destruct (write_one_ok _ _ _ _ W Fx E1) as (W1 & X1 & G1).
      destruct (IH _ _ _ W1 Fr E2) as (W2 & X2 & G2).
      split; [|split]; auto.
      + eapply ext_trans; eauto.
      + constructor; [| exact G2]. eapply Forall2_good_ext; eauto.
  Qed.

  Lemma write_call_ok st reqs st' pss : vwf st -> Forall wfes reqs -> write_call st reqs = (st', pss) ->
    vwf st' /\ ext st st' /\ Forall2 (goods st') reqs pss.
  Proof.
    intros W F H. unfold VlogWrite.write_call in H.
    destruct (write_reqs st reqs) as [s1 pss1] eqn:E. inversion H; subst; clear H.
    destruct (write_reqs_ok _ _ _ _ W F E) as (W1 & X1 & G1).
    destruct (to_disk_ok _ W1) as [W2 X2].
    split; [|split]; auto.
    - eapply ext_trans; eauto.
    - eapply Forall2_goods_ext; eauto.
  Qed.

  Definition goodss (st : vlog) (c : list (list (entry * bool))) (pss : list (list vptr)) : Prop :=
    Forall2 (goods st) c pss.

  (* every history of writer calls: in the final state every pointer handed out so far reads
     back the value it was created for *)
  Theorem write_calls_ok calls : forall st st' psss, vwf st -> Forall (Forall wfes) calls ->
    write_calls st calls = (st', psss) ->
    vwf st' /\ ext st st' /\ Forall2 (goodss st') calls psss.
  Proof.
    induction calls as [|c r IH]; intros st st' psss W F H; cbn [VlogWrite.write_calls] in H.
    - inversion H; subst. split; [|split]; auto using ext_refl.
    - inversion F as [|x l Fx Fr]; subst.
      destruct (write_call st c) as [s1 ps] eqn:E1. destruct (write_calls s1 r) as [s2 pss2] eqn:E2.
      inversion H; subst; clear H.
      destruct (write_call_ok _ _ _ _ W Fx E1) as (W1 & X1 & G1).
      destruct (IH _ _ _ W1 Fr E2) as (W2 & X2 & G2).
      split; [|split]; auto.
      + eapply ext_trans; eauto.
      + constructor; [| exact G2]. unfold goodss. eapply Forall2_goods_ext; eauto.
  Qed.

  Lemma vlog_init_wf : vwf (vlog_init hdr_of).
  Proof.
    split; cbn.
    - exists (hdr_of 1). split; [reflexivity | apply hdr_len].
    - intros f Hf. destruct f; [lia|]. destruct p; try reflexivity; lia.
  Qed.

  (* ---- through the LSM value struct (writeToLSM) and Item.yieldItemValue ---- *)
  (* no uint32 wrap: the guard valueLog.validateWrites is there to establish *)
  Definition small (st : vlog) : Prop :=
    vl_max st < two32 /\ forall f d, fget (vl_files st) f = Some d -> N.of_nat (length d) < two32.

  Lemma readable_ptr_small st p b : vwf st -> small st -> read_bytes st p = Some b ->
    vp_fid p < two32 /\ vp_len p < two32 /\ vp_off p < two32.
  Proof.
    intros [_ Hhi] [Sm Sf] R. unfold read_bytes in R.
    destruct (fget (vl_files st) (vp_fid p)) as [d|] eqn:F; [|discriminate].
    assert (vp_fid p <= vl_max st).
    { destruct (N.le_gt_cases (vp_fid p) (vl_max st)) as [L|G]; [exact L|]. rewrite (Hhi _ G) in F. discriminate. }
    specialize (Sf _ _ F).
    destruct ((vp_fid p =? vl_max st) && (vl_woff st <=? vp_off p)); [discriminate|].
    destruct ((N.of_nat (length d) <=? vp_off p) || (N.of_nat (length d) <? vp_off p + vp_len p)) eqn:G; [discriminate|].
    apply Bool.orb_false_iff in G. lia.
  Qed.

  Lemma land_lor_bit m : N.land (N.lor m c_bitValuePointer) c_bitValuePointer =? 0 = false.
  Proof.
    apply N.eqb_neq. intros H.
    assert (T: N.testbit (N.land (N.lor m c_bitValuePointer) c_bitValuePointer) 1 = true).
    { rewrite N.land_spec, N.lor_spec. unfold c_bitValuePointer. cbn. rewrite Bool.orb_true_r. reflexivity. }
    rewrite H in T. discriminate.
  Qed.

  Lemma good_item_value st x p : vwf st -> small st -> good st x p ->
    item_value st (lsm_value (fst x) (snd x) p) = Some (e_value (fst x)).
  Proof.
    intros W S G. unfold good in G. unfold VlogWrite.item_value, lsm_value. destruct (snd x).
    - cbn [vs_meta vs_value]. rewrite N.land_ldiff, N.eqb_refl. reflexivity.
    - cbn [vs_meta vs_value]. rewrite land_lor_bit.
      assert (R: exists b, read_bytes st p = Some b).
      { unfold VlogWrite.read_value in G. destruct (read_bytes st p) as [b|]; [eauto | discriminate]. }
      destruct R as [b R]. destruct (readable_ptr_small _ _ _ W S R) as (A & B & C).
      destruct (vptr_roundtrip p A B C) as [D _]. rewrite D. exact G.
  Qed.

  Definition reads_back (st : vlog) (x : entry * bool) (p : vptr) : Prop :=
    item_value st (lsm_value (fst x) (snd x) p) = Some (e_value (fst x)).

  Lemma Forall2_impl2 {A B} (P Q : A -> B -> Prop) l1 l2 :
    (forall a b, P a b -> Q a b) -> Forall2 P l1 l2 -> Forall2 Q l1 l2.
  Proof. intros I H. induction H; constructor; auto. Qed.

  Theorem write_calls_read_back calls st st' psss :
    vwf st -> Forall (Forall wfes) calls -> write_calls st calls = (st', psss) -> small st' ->
    Forall2 (Forall2 (Forall2 (reads_back st'))) calls psss.
  Proof.
    intros W F H S. destruct (write_calls_ok _ _ _ _ W F H) as (W' & _ & G).
    eapply Forall2_impl2; [|exact G]. intros c pss Gc.
    eapply Forall2_impl2; [|exact Gc]. intros r ps Gr.
    eapply Forall2_impl2; [|exact Gr]. intros x p Gx. apply good_item_value; auto.
  Qed.

  (* later writes never disturb a value that could be read before *)
  Theorem write_calls_stable calls st st' psss p v :
    vwf st -> Forall (Forall wfes) calls -> write_calls st calls = (st', psss) ->
    read_value st p = Some v -> read_value st' p = Some v.
  Proof.
    intros W F H R. destruct (write_calls_ok _ _ _ _ W F H) as (_ & E & _). eapply read_value_ext; eauto.
  Qed.
End VlogP.
