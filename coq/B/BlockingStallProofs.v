(* BlockingStallProofs.v — C38: whoever waits in addLevel0Table's stall loop is served by the
   compactors alone (all schedules of the code as written), and the LTS with DropPrefix's
   stopCompactions moved before its memtable flush deadlocks. *)
From Coq Require Import List Arith Bool Lia.
Import ListNotations.
From Verif Require Import Blocking BlockingProofs BlockingStall.

Local Arguments Nat.ltb : simpl never.
Local Arguments Nat.leb : simpl never.
Local Arguments Nat.eqb : simpl never.

(* ---- a small invariant of BOTH transition relations (strict or not) ---- *)
Record sinv (c : cfg) (s : st) : Prop := mkSinv {
  s_l0 : l0 s <= cS c;
  s_bw : clo_started (clo s) = true -> bw s = true;
  s_excl : clo s = CNot \/ drp s = DNone;
  s_csig : csig s = clo_csig (clo s) || drp_csig (drp s);
  s_cfexit : clo_csig (clo s) = true -> fl s = FExited;
  s_dfexit : drp_fexit (drp s) = true -> fl s = FExited;
  s_cexit : is_cexit (c0 s) = true -> csig s = true;
  s_oexit : oexit s <> 0 -> csig s = true
}.

Lemma sinv_init : forall c, cfg_ok c -> sinv c (init c).
Proof.
  intros c (_ & _ & _ & _ & Hk). constructor; cbn; try tauto; try lia; try discriminate.
  destruct (cK c) as [|k]; [lia|]. cbn. discriminate.
Qed.

Ltac destr_step Hs :=
  repeat (match type of Hs with
    | context [match ?x with _ => _ end] => destruct x eqn:?; cbn in Hs; try discriminate Hs
    end).

Ltac sleaf :=
  cbn in *; subst; try assumption; try reflexivity; try discriminate; try tauto; try lia; try congruence.

Ltac sfin :=
  first
  [ solve [sleaf]
  | solve [intros; sleaf]
  | solve [intros; repeat match goal with
           | H : ?P -> _, H' : ?P |- _ => match type of P with Prop => specialize (H H') end
           | H : ?x = ?x -> _ |- _ => specialize (H eq_refl)
           | H : _ \/ _ |- _ => destruct H
           end; sleaf]
  | solve [intros; repeat match goal with x : cph |- _ => destruct x end;
           repeat match goal with x : dph |- _ => destruct x end;
           repeat match goal with x : cst |- _ => destruct x end;
           cbn in *;
           repeat match goal with
           | H : _ \/ _ |- _ => destruct H
           | H : true = true -> _ |- _ => specialize (H eq_refl)
           end; sleaf] ].

Lemma sinv_step : forall strict c s l s', cfg_ok c -> sinv c s -> step strict c s l = Some s' -> sinv c s'.
Proof.
  intros strict c s l s' Hc Hi Hs. unfold step in Hs.
  destruct (crashed s); [discriminate|]. destruct Hi.
  destruct s; unfold cfg_ok in Hc; destruct Hc as (_ & _ & _ & _ & Hk); cbn in *.
  destruct l; cbn in Hs; unfold crash in Hs; cbn in Hs; destr_step Hs; try discriminate Hs;
    injection Hs as <-; b2p; constructor; cbn; sfin.
Qed.

Lemma sinv_reach : forall strict c s, cfg_ok c -> reach strict c s -> sinv c s.
Proof.
  intros strict c s Hc Hr. induction Hr; [apply sinv_init; assumption | eapply sinv_step; eassumption].
Qed.

(* ---- (1) a thread in the stall loop implies: the compactors run ---- *)
Lemma stall_fl_or_drp : forall c s, stall_wait c s = true ->
  (fl s = FBuild \/ (drp s = DFlushMt /\ dkind s = true /\ mt_nonempty (mt s) = true)) /\ cS c <= l0 s.
Proof.
  intros c s H. unfold stall_wait, flusher_stalled, drop_stalled in H.
  apply orb_true_iff in H. destruct H as [H|H]; b2p.
  - split; [left|assumption]. destruct (fl s); try discriminate; reflexivity.
  - split; [right|assumption]. repeat split; try assumption. destruct (drp s); try discriminate; reflexivity.
Qed.

Lemma stall_csig_false : forall c s, sinv c s -> stall_wait c s = true -> csig s = false.
Proof.
  intros c s Hi H. destruct (stall_fl_or_drp c s H) as ([Hf | (Hd & _ & _)] & _); destruct Hi.
  - rewrite s_csig0. destruct (clo_csig (clo s)) eqn:E1.
    + rewrite (s_cfexit0 eq_refl) in Hf. discriminate.
    + cbn. destruct (drp_csig (drp s)) eqn:E2; [|reflexivity].
      assert (drp_fexit (drp s) = true) by (destruct (drp s); try discriminate; reflexivity).
      rewrite (s_dfexit0 H0) in Hf. discriminate.
  - rewrite s_csig0, Hd. cbn. destruct s_excl0 as [Hc | Hc]; [rewrite Hc; reflexivity | congruence].
Qed.

Theorem stall_has_compactors : forall c s, sinv c s -> stall_wait c s = true -> compactors_run s = true.
Proof.
  intros c s Hi H. pose proof (stall_csig_false c s Hi H) as Hc. destruct Hi.
  unfold compactors_run. rewrite Hc. cbn.
  destruct (is_cexit (c0 s)) eqn:E; [rewrite (s_cexit0 eq_refl) in Hc; discriminate|]. cbn.
  apply Nat.eqb_eq. destruct (Nat.eq_dec (oexit s) 0) as [|Hn]; [assumption|].
  rewrite (s_oexit0 Hn) in Hc. discriminate.
Qed.

Theorem stall_has_compactors_reach : forall strict c s, cfg_ok c -> reach strict c s ->
  stall_wait c s = true -> compactors_run s = true.
Proof. intros strict c s Hc Hr. apply stall_has_compactors. eapply sinv_reach; eassumption. Qed.

(* contrapositive: while the compactors are stopped (stop signalled by Close or by a drop, until
   D_restart) nobody is in the stall loop — in particular not the thread that stopped them *)
Corollary stopped_no_stall : forall strict c s, cfg_ok c -> reach strict c s ->
  csig s = true -> stall_wait c s = false.
Proof.
  intros strict c s Hc Hr Hs. destruct (stall_wait c s) eqn:E; [|reflexivity].
  pose proof (stall_has_compactors_reach strict c s Hc Hr E) as H. unfold compactors_run in H.
  rewrite Hs in H. discriminate.
Qed.

(* DropAll never enters the stall loop itself *)
Lemma dropall_never_stalls : forall c s, dkind s = false -> drop_stalled c s = false.
Proof. intros c s H. unfold drop_stalled. rewrite H, andb_false_r. reflexivity. Qed.

(* ---- (2) the compactors alone end the stall ---- *)
Definition same_wait (s s' : st) : Prop :=
  fl s' = fl s /\ drp s' = drp s /\ dkind s' = dkind s /\ mt s' = mt s /\ crashed s' = crashed s
  /\ csig s' = csig s.

Lemma same_wait_refl : forall s, same_wait s s.
Proof. intros s. repeat split. Qed.

Lemma same_wait_trans : forall a b d, same_wait a b -> same_wait b d -> same_wait a d.
Proof. unfold same_wait. intros a b d H1 H2. intuition congruence. Qed.

Lemma exec_app : forall strict c l1 l2 s,
  exec strict c s (l1 ++ l2) = match exec strict c s l1 with Some s' => exec strict c s' l2 | None => None end.
Proof.
  intros strict c l1. induction l1 as [|l r IH]; intros l2 s; cbn; [reflexivity|].
  destruct (step strict c s l); [apply IH | reflexivity].
Qed.

Lemma finish_olib : forall strict c n s, crashed s = false -> olib s = n ->
  exists s', exec strict c s (repeat (KO_finishLi true) n) = Some s' /\ olib s' = 0 /\
             c0 s' = c0 s /\ ol0 s' = ol0 s /\ l0 s' = l0 s /\ same_wait s s'.
Proof.
  intros strict c n. induction n as [|n IH]; intros s Hcr Ho.
  - exists s. cbn. repeat split; assumption.
  - cbn [repeat exec]. unfold step. rewrite Hcr. rewrite Ho. cbn.
    destruct (IH (s |> set_olib n |> set_oidle (oidle s + 1))) as (s' & He & H1 & H2 & H3 & H4 & H5);
      [assumption | reflexivity|].
    replace (S n =? 0) with false by (symmetry; apply Nat.eqb_neq; lia).
    replace (n - 0) with n by lia.
    exists s'. split; [exact He|]. repeat split; try assumption; try (destruct H5 as (?&?&?&?&?&?); assumption).
Qed.

Theorem stall_resolves : forall strict c s, cfg_ok c -> sinv c s -> crashed s = false ->
  stall_wait c s = true ->
  forallb compactor_lab (resolve_path s) = true /\
  exists s', exec strict c s (resolve_path s) = Some s' /\ l0 s' < cS c /\ same_wait s s'.
Proof.
  intros strict c s Hc Hi Hcr Hw.
  pose proof (stall_has_compactors c s Hi Hw) as Hrun.
  destruct (stall_fl_or_drp c s Hw) as (_ & Hl0).
  pose proof (s_l0 _ _ Hi) as Hle. destruct Hc as (_ & _ & _ & Hts & _).
  unfold compactors_run in Hrun. b2p. unfold resolve_path.
  destruct (is_cl0 (c0 s)) eqn:E0.
  - split; [reflexivity|]. cbn. unfold step. rewrite Hcr.
    destruct (c0 s); try discriminate E0.
    replace ((1 <=? 1) && (1 <=? l0 s)) with true by (symmetry; apply andb_true_iff; split; apply Nat.leb_le; lia).
    eexists. split; [reflexivity|]. cbn. split; [lia|]. repeat split.
  - destruct (ol0 s =? 0) eqn:E1; cbn [negb].
    + (* no level-0 compaction runs *)
      b2p. split.
      { rewrite forallb_app, forallb_app. apply andb_true_iff. split; [destruct (c0 s) as [| |b|]; reflexivity|].
        apply andb_true_iff. split; [|reflexivity]. induction (olib s); [reflexivity | assumption]. }
      assert (HA : exists s1, exec strict c s (match c0 s with CLi _ => [K0_finishLi] | _ => [] end) = Some s1 /\
                    c0 s1 = CIdle /\ olib s1 = olib s /\ ol0 s1 = 0 /\ l0 s1 = l0 s /\ same_wait s s1).
      { destruct (c0 s) eqn:Ec; try discriminate.
        - exists s. cbn. repeat split; assumption.
        - cbn. unfold step. rewrite Hcr, Ec. eexists. split; [reflexivity|]. cbn. repeat split; assumption. }
      destruct HA as (s1 & He1 & Hc1 & Ho1 & Hz1 & Hl1 & Hs1).
      assert (Hcr1 : crashed s1 = false) by (destruct Hs1 as (_&_&_&_&Hx&_); congruence).
      destruct (finish_olib strict c (olib s) s1 Hcr1 Ho1) as (s2 & He2 & Ho2 & Hc2 & Hz2 & Hl2 & Hs2).
      assert (Hcr2 : crashed s2 = false) by (destruct Hs2 as (_&_&_&_&Hx&_); congruence).
      rewrite exec_app, He1, exec_app, He2. cbn. unfold step. rewrite Hcr2, Hc2, Hc1.
      unfold l0_pickable, l0_running, l0_blocked. rewrite Hc2, Hc1, Hz2, Hz1, Ho2, Hl2, Hl1. cbn.
      replace (cT c <=? l0 s) with true by (symmetry; apply Nat.leb_le; lia).
      replace (1 <=? l0 s) with true by (symmetry; apply Nat.leb_le; lia).
      rewrite Nat.eqb_refl. cbn. rewrite Hcr2. rewrite Hl2, Hl1.
      replace ((1 <=? 1) && (1 <=? l0 s)) with true by (symmetry; apply andb_true_iff; split; apply Nat.leb_le; lia).
      eexists. split; [reflexivity|]. cbn. split; [lia|].
      eapply same_wait_trans; [exact Hs1|]. eapply same_wait_trans; [exact Hs2|]. repeat split.
    + b2p. split; [reflexivity|]. cbn. unfold step. rewrite Hcr.
      replace (ol0 s =? 0) with false by (symmetry; apply Nat.eqb_neq; assumption).
      replace ((1 <=? 1) && (1 <=? l0 s)) with true by (symmetry; apply andb_true_iff; split; apply Nat.leb_le; lia).
      cbn. eexists. split; [reflexivity|]. cbn. split; [lia|]. repeat split.
Qed.

(* in the state the compactors lead to, the waiter's own transition is enabled *)
Lemma waiter_enabled : forall strict c s s', crashed s = false -> stall_wait c s = true -> same_wait s s' -> l0 s' < cS c ->
  (fl s = FBuild -> step strict c s' F_add <> None) /\
  (drop_stalled c s = true -> step strict c s' D_flushmt <> None).
Proof.
  intros strict c s s' Hcr Hw (Hf & Hd & Hk & Hm & Hx & _) Hl. rewrite Hcr in Hx. split.
  - intros H. unfold step. rewrite Hx, Hf, H.
    replace (l0 s' <? cS c) with true by (symmetry; apply Nat.ltb_lt; assumption). discriminate.
  - intros H. unfold drop_stalled in H. b2p. unfold step. rewrite Hx, Hd, Hk, Hm.
    destruct (drp s); try discriminate. rewrite H2. cbn.
    replace (l0 s' <? cS c) with true by (symmetry; apply Nat.ltb_lt; assumption).
    destruct (mt s); try discriminate; discriminate.
Qed.

Theorem stall_resolves_reach : forall strict c s, cfg_ok c -> reach strict c s -> crashed s = false ->
  stall_wait c s = true ->
  forallb compactor_lab (resolve_path s) = true /\
  exists s', exec strict c s (resolve_path s) = Some s' /\ l0 s' < cS c /\ same_wait s s' /\
    (fl s = FBuild -> step strict c s' F_add <> None) /\
    (drop_stalled c s = true -> step strict c s' D_flushmt <> None).
Proof.
  intros strict c s Hc Hr Hcr Hw.
  destruct (stall_resolves strict c s Hc (sinv_reach strict c s Hc Hr) Hcr Hw) as (Hf & s' & He & Hl & Hs).
  split; [assumption|]. exists s'. split; [assumption|]. split; [assumption|]. split; [assumption|].
  apply waiter_enabled; assumption.
Qed.
