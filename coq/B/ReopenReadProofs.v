(* ReopenReadProofs.v — C07: Close (flush of the memtables) followed by Open does not change
   any point lookup nor the merged iterator view. *)
From Verif Require Import Bytes BytesProofs Keys C20Proofs Consts Spec Lsm LsmProofs Compact Iter Sys SysReopen EntOrderProofs.
From Coq Require Import ZifyN ZifyNat ZifyBool Permutation.
Open Scope N_scope.

(* ---- `better` (strict maximum of the version, the earlier candidate wins a tie) is a monoid ---- *)
Lemma better_None_l c : better None c = c.
Proof. destruct c; reflexivity. Qed.

Lemma better_None_r b : better b None = b.
Proof. reflexivity. Qed.

Lemma better_assoc a b c : better (better a b) c = better a (better b c).
Proof.
  destruct a as [a|], b as [b|], c as [c|]; cbn; try reflexivity.
  - destruct (e_ver a <? e_ver b) eqn:E1; destruct (e_ver b <? e_ver c) eqn:E2; cbn;
      rewrite ?E1, ?E2; try reflexivity.
    + assert (E3: (e_ver a <? e_ver c) = true) by (apply N.ltb_lt; apply N.ltb_lt in E1, E2; lia).
      now rewrite E3.
    + destruct (e_ver a <? e_ver c) eqn:E3; auto.
      apply N.ltb_lt in E3. apply N.ltb_ge in E1, E2. lia.
  - destruct (e_ver b <? e_ver c); reflexivity.
Qed.

Lemma first_max_init cs b : first_max cs b = better b (first_max cs None).
Proof.
  unfold first_max. revert b. induction cs as [|c cs IH]; intros b; cbn [fold_left].
  - reflexivity.
  - rewrite IH. rewrite (IH (better None c)). rewrite better_None_l. apply better_assoc.
Qed.

Lemma first_max_app a b i : first_max (a ++ b) i = better (first_max a i) (first_max b None).
Proof. unfold first_max. rewrite fold_left_app. apply first_max_init. Qed.

Lemma first_max_cons c cs : first_max (c :: cs) None = better c (first_max cs None).
Proof. unfold first_max. cbn [fold_left]. rewrite better_None_l. apply first_max_init. Qed.

(* merging two adjacent candidates, dropping an empty one *)
Lemma first_max_join a x y r :
  first_max (a ++ x :: y :: r) None = first_max (a ++ better x y :: r) None.
Proof. rewrite !first_max_app, !first_max_cons. now rewrite better_assoc. Qed.

Lemma first_max_skip a r : first_max (a ++ None :: r) None = first_max (a ++ r) None.
Proof. rewrite !first_max_app, first_max_cons. now rewrite better_None_l. Qed.

(* ---- db_get is the monoid fold of its candidates ---- *)
Lemma l0_get_first_max l k ts :
  l0_get l k ts = first_max (map (fun t => src_get (t_ents t) k ts) (rev l)) None.
Proof.
  unfold l0_get, first_max. generalize (@None entry). induction (rev l) as [|t r IH]; intros b; cbn; auto.
Qed.

Lemma first_max_ver_le ts cs b : Forall (ver_le ts) cs -> ver_le ts b -> ver_le ts (first_max cs b).
Proof.
  unfold first_max. revert b. induction cs as [|c cs IH]; intros b HF Hb; cbn; auto.
  inversion HF; subst. apply IH; auto. apply better_ver_le; auto.
Qed.

Lemma src_get_le s k ts : ver_le ts (src_get s k ts).
Proof.
  destruct (src_get s k ts) as [e|] eqn:E; cbn; auto.
  apply src_get_ver_le in E. lia.
Qed.

Lemma level_cands_ver_le lvl ls k ts : Forall (ver_le ts) (level_cands lvl ls k ts).
Proof.
  revert lvl. induction ls as [|l ls IH]; intros lvl; cbn; constructor; auto.
  destruct lvl; cbn.
  - rewrite l0_get_first_max. apply first_max_ver_le; cbn; auto.
    apply Forall_forall. intros c Hc. apply in_map_iff in Hc. destruct Hc as (t & <- & _). apply src_get_le.
  - unfold ln_get. destruct (ln_table_for l k ts); cbn; auto. apply src_get_le.
Qed.

Lemma cands_ver_le d k ts : Forall (ver_le ts) (cands d k ts).
Proof.
  unfold cands, mem_cands. apply Forall_app. split.
  - constructor; [apply src_get_le|]. apply Forall_forall. intros c Hc.
    apply in_map_iff in Hc. destruct Hc as (s & <- & _). apply src_get_le.
  - apply level_cands_ver_le.
Qed.

Lemma db_get_first_max d k ts : db_get d k ts = first_max (cands d k ts) None.
Proof.
  unfold db_get. apply scan_first_max; cbn; auto.
  - apply cands_ver_le.
  - intros b Hb. discriminate.
Qed.

(* ---- rotate / flush_oldest ---- *)
Lemma src_get_nil k ts : src_get [] k ts = None.
Proof. reflexivity. Qed.

Lemma db_get_rotate d k ts : db_get (rotate d) k ts = db_get d k ts.
Proof.
  rewrite !db_get_first_max. unfold cands, mem_cands, rotate. cbn [l_mt l_imm l_levels].
  rewrite rev_app_distr. cbn [rev app map]. rewrite src_get_nil.
  cbn [app]. rewrite first_max_cons. apply better_None_l.
Qed.

Lemma l0_get_snoc l t k ts : l0_get (l ++ [t]) k ts = better (src_get (t_ents t) k ts) (l0_get l k ts).
Proof.
  rewrite !l0_get_first_max. rewrite rev_app_distr. cbn [rev app map]. apply first_max_cons.
Qed.

Lemma db_get_flush_oldest d id k ts : db_get (flush_oldest d id) k ts = db_get d k ts.
Proof.
  unfold flush_oldest. destruct (l_imm d) as [|m r] eqn:Ei; [reflexivity|].
  rewrite !db_get_first_max. unfold cands, mem_cands. cbn [l_mt l_imm l_levels]. rewrite Ei.
  cbn [rev]. rewrite map_app. cbn [map].
  set (g := fun s : src => src_get s k ts).
  set (A := src_get (l_mt d) k ts :: map g (rev r)).
  assert (EA: forall L, (src_get (l_mt d) k ts :: map g (rev r) ++ [g m]) ++ L = A ++ g m :: L).
  { intros L. unfold A. cbn [app]. now rewrite <- app_assoc. }
  rewrite EA. clear EA.
  destruct m as [|e0 m'].
  - (* an empty memtable produces no table *)
    change (g []) with (@None entry). now rewrite first_max_skip.
  - destruct (l_levels d) as [|l0 ls]; cbn [add_l0 level_cands level_get].
    + unfold l0_get. cbn [rev app fold_left t_ents]. rewrite better_None_l. reflexivity.
    + rewrite l0_get_snoc. cbn [t_ents]. now rewrite first_max_join.
Qed.

Lemma db_get_flush_all ids d k ts : db_get (fold_left flush_oldest ids d) k ts = db_get d k ts.
Proof.
  revert d. induction ids as [|i ids IH]; intros d; cbn [fold_left]; auto.
  rewrite IH. apply db_get_flush_oldest.
Qed.

Theorem db_get_close_db d ids k ts : db_get (close_db d ids) k ts = db_get d k ts.
Proof.
  unfold close_db. rewrite db_get_flush_all. destruct (l_mt d); auto. apply db_get_rotate.
Qed.

(* ---- the merged view: the list of sources, in precedence order, does not change at all ---- *)
Lemma merge_all_app_nil a b : merge_all (a ++ [] :: b) = merge_all (a ++ b).
Proof.
  unfold merge_all. rewrite !fold_right_app. cbn [fold_right]. now rewrite merge2_nil_l.
Qed.

Lemma merged_rotate d : merged (rotate d) = merged d.
Proof.
  unfold merged, all_srcs, rotate. cbn [l_mt l_imm l_levels]. rewrite rev_app_distr. cbn [rev app].
  unfold merge_all. cbn [fold_right]. now rewrite merge2_nil_l.
Qed.

Lemma merged_flush_oldest d id : merged (flush_oldest d id) = merged d.
Proof.
  unfold flush_oldest. destruct (l_imm d) as [|m r] eqn:Ei; [reflexivity|].
  unfold merged, all_srcs. cbn [l_mt l_imm l_levels]. rewrite Ei. cbn [rev].
  rewrite <- app_assoc. cbn [app].
  destruct m as [|e0 m'].
  - symmetry. apply (merge_all_app_nil (l_mt d :: rev r)).
  - destruct (l_levels d) as [|l0 ls]; cbn [add_l0 levels_srcs level_src].
    + reflexivity.
    + rewrite rev_app_distr. cbn [rev app map t_ents]. reflexivity.
Qed.

Lemma merged_flush_all ids d : merged (fold_left flush_oldest ids d) = merged d.
Proof.
  revert d. induction ids as [|i ids IH]; intros d; cbn [fold_left]; auto.
  rewrite IH. apply merged_flush_oldest.
Qed.

Theorem merged_close_db d ids : merged (close_db d ids) = merged d.
Proof.
  unfold close_db. rewrite merged_flush_all. destruct (l_mt d); auto. apply merged_rotate.
Qed.

(* ---- Open ---- *)
Lemma flush_oldest_mt d id : l_mt (flush_oldest d id) = l_mt d.
Proof. unfold flush_oldest. destruct (l_imm d); reflexivity. Qed.

Lemma close_db_mt d ids : l_mt (close_db d ids) = [].
Proof.
  unfold close_db.
  assert (H: forall d0, l_mt (fold_left flush_oldest ids d0) = l_mt d0).
  { induction ids as [|i ids IH]; intros d0; cbn [fold_left]; auto. rewrite IH. apply flush_oldest_mt. }
  rewrite H. destruct (l_mt d) eqn:E; auto.
Qed.

(* level 0 already in file-id order: Open changes nothing *)
Lemma open_db_id d :
  l_mt d = [] -> sort_by_id (nth 0 (l_levels d) []) = nth 0 (l_levels d) [] -> open_db d = d.
Proof.
  intros Hm Hs. unfold open_db, open_levels. destruct d as [mt imm ls].
  cbn [l_mt l_imm l_levels] in *. subst mt.
  destruct ls as [|l0 r]; [reflexivity|]. cbn [nth] in Hs. now rewrite Hs.
Qed.

(* sorting by id permutes level 0 *)
Lemma ins_by_id_perm t l : Permutation (ins_by_id t l) (t :: l).
Proof.
  induction l as [|x l IH]; cbn; auto.
  destruct (t_id t <=? t_id x); auto.
  eapply perm_trans; [apply perm_skip; exact IH|]. apply perm_swap.
Qed.

Lemma sort_by_id_perm l : Permutation (sort_by_id l) l.
Proof.
  induction l as [|x l IH]; cbn; auto.
  eapply perm_trans; [apply ins_by_id_perm|]. now apply perm_skip.
Qed.

(* the versions among a list of candidates *)
Definition cand_vers (cs : list (option entry)) : list N :=
  flat_map (fun c => match c with Some e => [e_ver e] | None => [] end) cs.

Lemma better_comm x y :
  (forall a b, x = Some a -> y = Some b -> e_ver a <> e_ver b) -> better x y = better y x.
Proof.
  destruct x as [a|], y as [b|]; cbn; auto. intros H. specialize (H a b eq_refl eq_refl).
  destruct (e_ver a <? e_ver b) eqn:E1; destruct (e_ver b <? e_ver a) eqn:E2; auto.
  - apply N.ltb_lt in E1, E2. lia.
  - apply N.ltb_ge in E1, E2. lia.
Qed.

Lemma first_max_perm cs cs' :
  Permutation cs cs' -> NoDup (cand_vers cs) -> first_max cs None = first_max cs' None.
Proof.
  induction 1 as [|x l l' HP IH|x y l|l l' l'' HP1 IH1 HP2 IH2]; intros Hn.
  - reflexivity.
  - rewrite !first_max_cons. rewrite IH; auto.
    unfold cand_vers in *. cbn [flat_map] in Hn. destruct x; cbn in Hn; auto. now inversion Hn.
  - rewrite !first_max_cons. rewrite <- !better_assoc. f_equal. apply better_comm.
    intros a b -> ->. unfold cand_vers in Hn. cbn in Hn. inversion Hn as [|? ? Hx _]; subst.
    intros E. apply Hx. left. auto.
  - rewrite IH1; auto. apply IH2.
    eapply Permutation_NoDup; [|exact Hn]. unfold cand_vers. now apply Permutation_flat_map.
Qed.

(* no key@version in two different tables of level 0 *)
Definition l0_versions (l : list table) (k : bytes) : list N :=
  flat_map (fun t => map e_ver (filter (fun e => bytes_eqb (e_key e) k) (t_ents t))) l.

Definition l0_distinct (l : list table) : Prop := forall k, NoDup (l0_versions l k).

Lemma seek_ge_in s k ts e : In e (seek_ge s k ts) -> In e s.
Proof.
  induction s as [|x s IH]; cbn; auto. destruct (key_le k ts x); cbn; auto.
Qed.

Lemma src_get_in s k ts e : src_get s k ts = Some e -> In e s.
Proof.
  unfold src_get. destruct (seek_ge s k ts) as [|x r] eqn:E; [discriminate|].
  destruct (bytes_eqb (e_key x) k); [|discriminate]. intros [= <-].
  apply (seek_ge_in s k ts). rewrite E. now left.
Qed.

Lemma NoDup_app_disjoint {A} (a b : list A) x : NoDup (a ++ b) -> In x a -> In x b -> False.
Proof.
  induction a as [|y a IH]; cbn; [tauto|]. intros Hn [->|Hx] Hb.
  - inversion Hn as [|? ? Hy _]; subst. apply Hy. apply in_or_app. auto.
  - inversion Hn; subst. eauto.
Qed.

Lemma NoDup_app_r {A} (a b : list A) : NoDup (a ++ b) -> NoDup b.
Proof. induction a; cbn; auto. intros H. inversion H; auto. Qed.

Lemma cand_vers_in l k ts v :
  In v (cand_vers (map (fun t => src_get (t_ents t) k ts) l)) -> In v (l0_versions l k).
Proof.
  induction l as [|t l IH]; cbn; auto. intros H. apply in_or_app. apply in_app_or in H.
  destruct H as [H|H]; [left|right; auto].
  destruct (src_get (t_ents t) k ts) as [e|] eqn:E; [|destruct H].
  destruct H as [<-|[]]. apply in_map. apply filter_In. split.
  - eapply src_get_in; eauto.
  - apply src_get_ver_le in E. destruct E as [-> _]. apply bytes_eqb_refl.
Qed.

Lemma l0_distinct_cands l k ts :
  NoDup (l0_versions l k) -> NoDup (cand_vers (map (fun t => src_get (t_ents t) k ts) l)).
Proof.
  induction l as [|t l IH]; cbn; [constructor|]. intros Hn.
  destruct (src_get (t_ents t) k ts) as [e|] eqn:E; cbn.
  - constructor; [|apply IH; eapply NoDup_app_r; eauto].
    intros Hin. apply cand_vers_in in Hin.
    eapply NoDup_app_disjoint; [exact Hn| |exact Hin].
    apply in_map. apply filter_In. split; [eapply src_get_in; eauto|].
    apply src_get_ver_le in E. destruct E as [-> _]. apply bytes_eqb_refl.
  - apply IH. eapply NoDup_app_r; eauto.
Qed.

Lemma l0_get_perm l l' k ts :
  Permutation l l' -> NoDup (l0_versions l k) -> l0_get l k ts = l0_get l' k ts.
Proof.
  intros HP Hn. rewrite !l0_get_first_max. apply first_max_perm.
  - apply Permutation_map. apply Permutation_rev' in HP. exact HP.
  - assert (HP2: Permutation (rev l) l) by (symmetry; apply Permutation_rev).
    eapply Permutation_NoDup; [|apply (l0_distinct_cands l k ts Hn)].
    unfold cand_vers. apply Permutation_flat_map. apply Permutation_map. now symmetry.
Qed.

Theorem db_get_open_db d k ts :
  l_mt d = [] -> l0_distinct (nth 0 (l_levels d) []) -> db_get (open_db d) k ts = db_get d k ts.
Proof.
  intros Hm Hd. rewrite !db_get_first_max. unfold cands, mem_cands, open_db, open_levels.
  cbn [l_mt l_imm l_levels]. rewrite Hm.
  destruct (l_levels d) as [|l0 r]; cbn [level_cands level_get nth] in *; auto.
  rewrite <- (l0_get_perm l0 (sort_by_id l0) k ts); [reflexivity|symmetry; apply sort_by_id_perm|apply Hd].
Qed.

(* level 0 of the closed DB *)
Definition closed_l0 (d : lsm) (ids : list N) : list table := nth 0 (l_levels (close_db d ids)) [].

(* C07, point lookups: for every key and read timestamp *)
Theorem reopen_preserves_get d ids k ts :
  l0_distinct (closed_l0 d ids) -> db_get (reopen_db d ids) k ts = db_get d k ts.
Proof.
  intros Hd. unfold reopen_db. rewrite db_get_open_db; auto.
  - apply db_get_close_db.
  - apply close_db_mt.
Qed.

(* C07, iterator view, when level 0 is in file-id order (no L0->L0 compaction reordered it) *)
Theorem reopen_preserves_merged_sorted_l0 d ids :
  sort_by_id (closed_l0 d ids) = closed_l0 d ids -> merged (reopen_db d ids) = merged d.
Proof.
  intros Hs. unfold reopen_db. rewrite open_db_id; auto.
  - apply merged_close_db.
  - apply close_db_mt.
Qed.

Theorem reopen_preserves_get_sorted_l0 d ids k ts :
  sort_by_id (closed_l0 d ids) = closed_l0 d ids -> db_get (reopen_db d ids) k ts = db_get d k ts.
Proof.
  intros Hs. unfold reopen_db. rewrite open_db_id; auto.
  - apply db_get_close_db.
  - apply close_db_mt.
Qed.

(* ---- read-only mode ---- *)
(* a read-only DB only has read-only transactions: every write is refused *)
Lemma ro_modify_rejected x e : x_update x = false -> txn_modify x e = (3, x).
Proof. unfold txn_modify. now intros ->. Qed.

(* satisfiability of the hypotheses (used by props/C07.v) *)
Definition ex_db1 : lsm :=
  mkLsm [mkE [1] 7 0 0 0 [9]] [] [[mkT 5 [mkE [1] 3 0 0 0 [8]]; mkT 2 [mkE [1] 4 0 0 0 [7]]]; []].
Lemma ex_db1_distinct : l0_distinct (closed_l0 ex_db1 [6]).
Proof.
  intros k. unfold l0_versions, closed_l0, ex_db1. cbn -[bytes_eqb].
  destruct (bytes_eqb [1] k); cbn; repeat constructor; cbn; try tauto.
  - intros [H|[H|[]]]; discriminate.
  - intros [H|[]]; discriminate.
Qed.
