(* BlockingRefuteProofs.v — C38: the full-strength statements are FALSE of the faithful LTS
   (step false = the code as written): concrete reachable states in which a public call is
   pending and can never return. *)
From Coq Require Import List Arith Bool Lia.
Import ListNotations.
From Verif Require Import Blocking BlockingProofs BlockingLiveProofs.

Lemma exec_reach : forall strict c ls s s', reach strict c s -> exec strict c s ls = Some s' -> reach strict c s'.
Proof.
  intros strict c ls. induction ls as [|l r IH]; intros s s' Hr He; cbn in He.
  - injection He as <-. assumption.
  - destruct (step strict c s l) as [s1|] eqn:E; [|discriminate].
    eapply IH; [|eassumption]. econstructor; eassumption.
Qed.

Lemma cfgW_ok : cfg_ok cfgW.
Proof. unfold cfg_ok, cfgW; cbn; lia. Qed.

Definition st_f14_hang : st :=
  match exec false cfgW (init cfgW) sched_f14_hang with Some s => s | None => init cfgW end.
Definition st_f14_panic : st :=
  match exec false cfgW (init cfgW) sched_f14_panic with Some s => s | None => init cfgW end.
Definition st_newtxn_hang : st :=
  match exec false cfgW (init cfgW) sched_newtxn_hang with Some s => s | None => init cfgW end.

Lemma f14_hang_exec : exec false cfgW (init cfgW) sched_f14_hang = Some st_f14_hang.
Proof. vm_compute. reflexivity. Qed.
Lemma f14_panic_exec : exec false cfgW (init cfgW) sched_f14_panic = Some st_f14_panic.
Proof. vm_compute. reflexivity. Qed.
Lemma newtxn_hang_exec : exec false cfgW (init cfgW) sched_newtxn_hang = Some st_newtxn_hang.
Proof. vm_compute. reflexivity. Qed.

(* no transition at all (work or arrival) serves the orphaned request: it stays in writeCh *)
Definition orphaned (s : st) : Prop :=
  w s = WExited /\ clo s = CDone /\ drp s = DNone /\ bw s = true /\ 1 <= wch s.

Ltac destr_step Hs :=
  repeat (match type of Hs with
    | context [match ?x with _ => _ end] => destruct x eqn:?; cbn in Hs; try discriminate Hs
    end).

Lemma orphaned_step : forall strict c s l s', orphaned s -> step strict c s l = Some s' -> orphaned s'.
Proof.
  intros strict c s l s' (Hw & Hc & Hd & Hb & Hn) Hs. unfold step in Hs.
  destruct (crashed s); [discriminate|]. destruct s. unfold crash, orphaned in *. cbn in *. subst.
  destruct l; cbn in Hs; destr_step Hs; try discriminate Hs; try (injection Hs as <-); cbn; repeat split; auto; try lia.
Qed.

Lemma orphaned_exec : forall strict c ls s s', orphaned s -> exec strict c s ls = Some s' -> orphaned s'.
Proof.
  intros strict c ls. induction ls as [|l r IH]; intros s s' Ho He; cbn in He.
  - injection He as <-. assumption.
  - destruct (step strict c s l) as [s1|] eqn:E; [|discriminate].
    eapply IH; [|eassumption]. eapply orphaned_step; eassumption.
Qed.

(* F14 (hang): reachable; Close has returned; a Commit is pending; no work transition is enabled;
   and along EVERY continuation (any labels, including new calls) the request is still in writeCh *)
Theorem close_race_hang :
  reach false cfgW st_f14_hang /\ clo st_f14_hang = CDone /\ crashed st_f14_hang = false /\
  pending st_f14_hang = true /\ o_hung_commit (observe st_f14_hang) = 1 /\
  (forall l, work l = true -> step false cfgW st_f14_hang l = None) /\
  (forall ls s', exec false cfgW st_f14_hang ls = Some s' -> 1 <= wch s' /\ pending s' = true).
Proof.
  split. { eapply exec_reach; [constructor | apply f14_hang_exec]. }
  split. { vm_compute. reflexivity. }
  split. { vm_compute. reflexivity. }
  split. { vm_compute. reflexivity. }
  split. { vm_compute. reflexivity. }
  split.
  - intros l Hw. destruct l; try discriminate Hw; try (match goal with b : bool |- _ => destruct b end); vm_compute; reflexivity.
  - intros ls s' He. assert (Ho : orphaned st_f14_hang) by (vm_compute; repeat split; lia).
    destruct (orphaned_exec _ _ _ _ _ Ho He) as (_ & _ & _ & _ & Hn). split; [assumption|].
    unfold pending, reqs. destruct (wch s'); [lia|]. cbn.
    rewrite !orb_true_r. reflexivity.
Qed.

(* F14 (panic): reachable crashed state = `panic: send on closed channel` in sendToWriteCh *)
Theorem close_race_panic :
  reach false cfgW st_f14_panic /\ crashed st_f14_panic = true /\
  (forall l, step false cfgW st_f14_panic l = None).
Proof.
  split. { eapply exec_reach; [constructor | apply f14_panic_exec]. }
  split. { vm_compute. reflexivity. }
  intros l. unfold step. replace (crashed st_f14_panic) with true by (vm_compute; reflexivity). reflexivity.
Qed.

(* NewTransaction racing Close: the reader waits for ever *)
Definition rd_stuck (s : st) : Prop := stale s = true /\ 1 <= rdwait s.

Lemma rd_stuck_step : forall strict c s l s', rd_stuck s -> step strict c s l = Some s' -> rd_stuck s'.
Proof.
  intros strict c s l s' (Hst & Hn) Hs. unfold step in Hs.
  destruct (crashed s); [discriminate|]. destruct s. unfold crash, rd_stuck in *. cbn in *. subst.
  destruct l; cbn in Hs; destr_step Hs; try discriminate Hs; try (injection Hs as <-); cbn; repeat split; auto; try lia;
    try (rewrite orb_true_r in *; discriminate).
Qed.

Lemma rd_stuck_exec : forall strict c ls s s', rd_stuck s -> exec strict c s ls = Some s' -> rd_stuck s'.
Proof.
  intros strict c ls. induction ls as [|l r IH]; intros s s' Ho He; cbn in He.
  - injection He as <-. assumption.
  - destruct (step strict c s l) as [s1|] eqn:E; [|discriminate].
    eapply IH; [|eassumption]. eapply rd_stuck_step; eassumption.
Qed.

Theorem newtxn_race_hang :
  reach false cfgW st_newtxn_hang /\ clo st_newtxn_hang = CDone /\ crashed st_newtxn_hang = false /\
  pending st_newtxn_hang = true /\ o_hung_read (observe st_newtxn_hang) = 1 /\
  o_hung_commit (observe st_newtxn_hang) = 0 /\
  (forall l, work l = true -> step false cfgW st_newtxn_hang l = None) /\
  (forall ls s', exec false cfgW st_newtxn_hang ls = Some s' -> 1 <= rdwait s' /\ pending s' = true).
Proof.
  split. { eapply exec_reach; [constructor | apply newtxn_hang_exec]. }
  split. { vm_compute. reflexivity. }
  split. { vm_compute. reflexivity. }
  split. { vm_compute. reflexivity. }
  split. { vm_compute. reflexivity. }
  split. { vm_compute. reflexivity. }
  split.
  - intros l Hw. destruct l; try discriminate Hw; try (match goal with b : bool |- _ => destruct b end); vm_compute; reflexivity.
  - intros ls s' He. assert (Ho : rd_stuck st_newtxn_hang) by (vm_compute; split; [reflexivity | lia]).
    destruct (rd_stuck_exec _ _ _ _ _ Ho He) as (_ & Hn). split; [assumption|].
    unfold pending. destruct (rdwait s'); [lia|]. cbn. rewrite !orb_true_r. reflexivity.
Qed.

(* DropPrefix racing a commit: a deadlock that does not involve Close *)
Definition st_drop_hang : st :=
  match exec false cfgW (init cfgW) sched_drop_hang with Some s => s | None => init cfgW end.

Lemma drop_hang_exec : exec false cfgW (init cfgW) sched_drop_hang = Some st_drop_hang.
Proof. vm_compute. reflexivity. Qed.

Definition drop_stuck (s : st) : Prop :=
  drp s = DView /\ dkind s = true /\ w s = WExited /\ bw s = true /\ 1 <= wch s.

Lemma drop_stuck_step : forall strict c s l s', drop_stuck s -> step strict c s l = Some s' -> drop_stuck s'.
Proof.
  intros strict c s l s' (Hd & Hk & Hw & Hb & Hn) Hs. unfold step in Hs.
  destruct (crashed s); [discriminate|]. destruct s. unfold crash, drop_stuck, inflight_ts, reqs in *. cbn in *. subst.
  destruct l; cbn in Hs; destr_step Hs; try discriminate Hs; try (injection Hs as <-); cbn; repeat split; auto; try lia.
  all: exfalso; repeat match goal with
       | H : _ && _ = true |- _ => apply andb_true_iff in H; destruct H
       | H : (_ =? 0) = true |- _ => apply Nat.eqb_eq in H
       end; lia.
Qed.

Lemma drop_stuck_exec : forall strict c ls s s', drop_stuck s -> exec strict c s ls = Some s' -> drop_stuck s'.
Proof.
  intros strict c ls. induction ls as [|l r IH]; intros s s' Ho He; cbn in He.
  - injection He as <-. assumption.
  - destruct (step strict c s l) as [s1|] eqn:E; [|discriminate].
    eapply IH; [|eassumption]. eapply drop_stuck_step; eassumption.
Qed.

(* reachable, Close never called, a Commit and the DropPrefix pending, no work transition enabled,
   and on every continuation DropPrefix is still waiting in its View and the request still queued *)
Theorem drop_race_hang :
  reach false cfgW st_drop_hang /\ clo st_drop_hang = CNot /\ crashed st_drop_hang = false /\
  pending st_drop_hang = true /\ drp st_drop_hang = DView /\ o_hung_commit (observe st_drop_hang) = 1 /\
  (forall l, work l = true -> step false cfgW st_drop_hang l = None) /\
  (forall ls s', exec false cfgW st_drop_hang ls = Some s' -> drp s' = DView /\ 1 <= wch s' /\ pending s' = true).
Proof.
  split. { eapply exec_reach; [constructor | apply drop_hang_exec]. }
  split. { vm_compute. reflexivity. }
  split. { vm_compute. reflexivity. }
  split. { vm_compute. reflexivity. }
  split. { vm_compute. reflexivity. }
  split. { vm_compute. reflexivity. }
  split.
  - intros l Hw. destruct l; try discriminate Hw; try (match goal with b : bool |- _ => destruct b end); vm_compute; reflexivity.
  - intros ls s' He. assert (Ho : drop_stuck st_drop_hang) by (vm_compute; repeat split; lia).
    destruct (drop_stuck_exec _ _ _ _ _ Ho He) as (Hd & _ & _ & _ & Hn). split; [assumption|]. split; [assumption|].
    unfold pending. rewrite Hd. cbn. rewrite !orb_true_r. reflexivity.
Qed.

Lemma drop_excluded_by_h3 : exec true cfgW (init cfgW) [E_commit; L_acq; H_ts; H_check; E_drop true] = None
  /\ exec true cfgW (init cfgW) [E_commit; L_acq; H_ts; H_check] <> None.
Proof. split; vm_compute; [reflexivity | discriminate]. Qed.

(* the full-strength statement is false of the code as written *)
Theorem no_stuck_state_refuted :
  ~ (forall c s, cfg_ok c -> reach false c s -> pending s = true ->
       exists l s', work l = true /\ step false c s l = Some s').
Proof.
  intros H. destruct close_race_hang as (Hr & _ & _ & Hp & _ & Hno & _).
  destruct (H cfgW st_f14_hang cfgW_ok Hr Hp) as (l & s' & Hw & Hs).
  rewrite (Hno l Hw) in Hs. discriminate.
Qed.

(* both witnesses are excluded by the strict relation exactly at the guarded transition *)
Lemma f14_excluded_by_h1 : exec true cfgW (init cfgW) [E_commit; L_acq; H_ts; H_check; E_close] = None
  /\ exec true cfgW (init cfgW) [E_commit; L_acq; H_ts; H_check] <> None.
Proof. split; vm_compute; [reflexivity | discriminate]. Qed.

Lemma newtxn_excluded_by_h2 :
  exec true cfgW (init cfgW) ([E_commit; L_acq; H_ts; E_read; E_close] ++ close_to_writer_exit
     ++ [C_closech; C_mt; C_stopf; F_exit; C_waitf; K0_exit; KO_exit; C_waitc]) <> None /\
  exec true cfgW (init cfgW) ([E_commit; L_acq; H_ts; E_read; E_close] ++ close_to_writer_exit
     ++ close_rest) = None.
Proof. split; vm_compute; [discriminate | reflexivity]. Qed.

(* why ">= 2 compactors" (Open rejects 1, accepts 0): with none, a level-0 stall is permanent
   even in the strict relation *)
Definition st_no_compactors : st :=
  match exec true cfg0 (init cfg0) sched_no_compactors with Some s => s | None => init cfg0 end.

Theorem needs_compactors :
  reach true cfg0 st_no_compactors /\ pending st_no_compactors = true /\
  clo st_no_compactors = CNot /\ drp st_no_compactors = DNone /\
  (forall l, work l = true -> step true cfg0 st_no_compactors l = None).
Proof.
  split. { apply (exec_reach true cfg0 sched_no_compactors (init cfg0)); [constructor | vm_compute; reflexivity]. }
  split. { vm_compute. reflexivity. }
  split. { vm_compute. reflexivity. }
  split. { vm_compute. reflexivity. }
  intros l Hw. destruct l; try discriminate Hw; try (match goal with b : bool |- _ => destruct b end); vm_compute; reflexivity.
Qed.

(* ---- the positive statements over reachable states of the strict relation ---- *)
Theorem no_stuck_reach : forall c s, cfg_ok c -> reach true c s -> pending s = true ->
  exists l s', work l = true /\ step true c s l = Some s' /\ step false c s l = Some s'.
Proof.
  intros c s Hc Hr Hp. destruct (no_stuck c s Hc (inv_reach c s Hc Hr) Hp) as (l & s' & _ & Hw & Hs).
  exists l, s'. split; [assumption|]. split; [assumption | apply strict_sub; assumption].
Qed.

Theorem progress_reach : forall c s, cfg_ok c -> reach true c s ->
  (forall l s', work l = true -> step true c s l = Some s' -> mu c s' < mu c s) /\
  (forall n s', wpath c s n s' -> n + mu c s' <= mu c s) /\
  (exists n s', n <= mu c s /\ wpath c s n s' /\ pending s' = false) /\
  pending (run true c (mu c s) s) = false.
Proof.
  intros c s Hc Hr. pose proof (inv_reach c s Hc Hr) as Hi. split; [|split; [|split]].
  - intros l s' Hw Hs. eapply mu_step; eassumption.
  - intros n s' Hp. eapply progress_bound; eassumption.
  - destruct (progress c s Hc Hi) as (n & s' & Hn & Hp & Hq & _). eauto.
  - apply run_quiesces; assumption.
Qed.

Theorem close_completes_reach : forall c s, cfg_ok c -> reach true c s -> clo s <> CNot ->
  (exists n s', n <= mu c s /\ wpath c s n s' /\ clo s' = CDone /\ pending s' = false) /\
  (forall n s', wpath c s n s' -> sched true c s' = None -> clo s' = CDone /\ pending s' = false).
Proof. intros c s Hc Hr. apply close_completes; [assumption | apply inv_reach; assumption]. Qed.

(* hypotheses are satisfiable: Close in progress with commits at every stage of the pipeline,
   the memtable full, flushChan full, the flusher stalled on level 0 *)
Definition sched_busy_close : list lab :=
  one_commit ++ [J_write true; J_done]
  ++ one_commit ++ [J_rotate; J_write true; J_done; F_take; F_add]
  ++ one_commit ++ [J_rotate; J_write true; J_done; F_take; F_add]
  ++ one_commit ++ [J_rotate; J_write true; J_done; F_take]
  ++ one_commit ++ [J_rotate; J_write true]
  ++ [E_commit; L_acq; H_ts; H_check; H_send; E_commit; L_acq; H_ts; E_commit; E_read; E_close].

Example busy_close_reach :
  exists s, exec true cfgW (init cfgW) sched_busy_close = Some s /\ clo s = CGC /\
            l0 s = cS cfgW /\ fl s = FBuild /\ mt s = MtFull /\ wch s = 1 /\ lockq s = 1 /\ hold s = HTs
            /\ rdwait s = 1 /\ pending s = true.
Proof. eexists. split; [vm_compute; reflexivity|]. vm_compute. repeat split; reflexivity. Qed.
