(* ManagedSpecProofs.v — C36 end to end for MANAGED mode without a discard timestamp:
   commit timestamps are the caller's, in ANY order (a key may be written at version 9 and
   afterwards at version 5).  As long as no compaction runs with a discard timestamp above 0
   (SetDiscardTs never called: levels.go compactBuildTables reads discardTs from
   orc.discardAtOrBelow(), which is the SetDiscardTs value in managed mode; Gc.v's step checks
   c_discard = s_discard, Sys.step / SysTree.step_tree take c_discard from the label without
   looking at s_discard, so the hypothesis is stated on the labels: op_managed), the tree holds
   EXACTLY the committed writes in every reachable state, and therefore a read at any timestamp
   returns exactly the newest write at or below it.

   TreeInv's Mono (sources consulted earlier hold newer versions) does NOT hold here: a newer
   version may sit in a lower level than an older one.  It is not needed: Theorem B
   (GetProofs.db_get_newest) only needs the structural well-formedness db_ok.

   What is excluded, precisely:
   * a compaction label with c_discard > 0 (finding F10: ManagedProofs.managed_nonmonotonic_refuted)
     or with drop prefixes (DropPrefix is C29's);
   * CommitAt(0) (op_managed: 0 < cts).  txn.go commitPrecheck rejects it when no entry carries
     its own version; Sys.txn_commit does not model that rejection and would store version 0,
     and a version-0 entry is at or below the discard timestamp 0, so the filter may drop it:
     zero_commit_ts_not_stored_refuted below;
   * two DIFFERENT writes of the same key@version (hypothesis nodup_kv on the final list of
     writes, which implies it for every earlier state): the memtable overwrites the first, and
     across tables the precedence of two copies can flip (finding F8). *)
From Verif Require Import Bytes BytesProofs Keys C20Proofs Consts Spec Lsm LsmProofs Compact Iter Sys SysReopen SysTree.
From Verif Require Import EntOrderProofs ReopenReadProofs ReopenTsProofs LevelsWfProofs CompactWfProofs.
From Verif Require GetProofs MergeProofs C12Proofs InstallProofs RetentionProofs SysModeProofs ManagedProofs.
From Verif Require Import CompactProofs TreeInvProofs TreeStepProofs TreeSpecProofs.
From Coq Require Import ZifyN ZifyNat ZifyBool Sorted Permutation.
Open Scope N_scope.

(* ---- 1. reads, whenever the tree stores exactly the writes ---- *)
Theorem managed_reads_when_all_stored d ws k ts now :
  GetProofs.lsm_wf d -> nodup_kv ws -> (forall x, In x ws <-> In x (GetProofs.all_entries d)) ->
  vis_of now (db_get d k ts) = vis ws k ts now.
Proof.
  intros Hwf Hnd Hset. rewrite (vis_newest ws k ts now Hnd).
  rewrite (GetProofs.db_get_newest d k ts Hwf). f_equal. symmetry. now apply C12Proofs.newest_ext.
Qed.

(* ---- memtable puts, exactly, when no key@version is written twice with different contents ---- *)
Lemma mt_put_exact_kv s e x :
  (forall y, In y s -> e_key e = e_key y -> e_ver e = e_ver y -> e = y) ->
  (In x (mt_put s e) <-> x = e \/ In x s).
Proof.
  intros Hkv. split; [apply mt_put_in|]. intros [->|Hx]; [apply mt_put_in_new|].
  destruct (ent_cmp e x) eqn:C.
  - apply EntOrderProofs.ent_cmp_eq in C. destruct C as [Ck Cv]. rewrite <- (Hkv x Hx Ck Cv). apply mt_put_in_new.
  - apply mt_put_keeps; auto. congruence.
  - apply mt_put_keeps; auto. congruence.
Qed.

Lemma fold_mt_put_exact_kv es : forall mt x,
  nodup_kv (es ++ mt) -> (In x (fold_left mt_put es mt) <-> In x es \/ In x mt).
Proof.
  induction es as [|e es IH]; intros mt x Hkv; cbn [fold_left].
  - cbn. tauto.
  - assert (Hput: forall y, In y (mt_put mt e) <-> y = e \/ In y mt).
    { intros y. apply mt_put_exact_kv. intros z Hz Ek Ev. apply Hkv; auto.
      - now left.
      - apply in_or_app. right. exact Hz. }
    rewrite IH.
    + rewrite Hput. cbn [In]. split; intros H; intuition auto.
    + eapply nodup_kv_sub; [|exact Hkv]. intros y Hy. apply in_app_iff in Hy. cbn [app In].
      destruct Hy as [Hy|Hy]; [right; apply in_or_app; now left|].
      apply Hput in Hy. destruct Hy as [->|Hy]; [now left|right; apply in_or_app; now right].
Qed.

(* ---- the labels the theorem is about ---- *)
Definition op_managed (o : op) : Prop :=
  match o with
  | Commit _ cts _ => 0 < cts
  | Compact c _ => c_discard c = 0 /\ c_drop c = []
  | _ => True
  end.

(* ---- the invariant ---- *)
Definition MStruct (s : sys) : Prop :=
  s_managed s = true /\ l_imm (s_db s) = [] /\ l_levels (s_db s) <> [] /\ db_ok (s_db s) /\
  NoDup (all_ids (l_levels (s_db s))) /\ (forall w, In w (s_writes s) -> 0 < e_ver w).

Definition MStored (s : sys) : Prop :=
  forall x, In x (s_writes s) <-> In x (GetProofs.all_entries (s_db s)).

(* nodup_kv of a list of writes implies it for every prefix, so the hypothesis on the final
   state is available in every earlier state *)
Definition MInv (s : sys) : Prop := MStruct s /\ (nodup_kv (s_writes s) -> MStored s).

Lemma stamp_pos ts e : 0 < ts -> 0 < e_ver (stamp ts e).
Proof.
  intros Hts. unfold stamp. destruct (e_ver e =? 0) eqn:E; cbn [with_ver e_ver]; [exact Hts|].
  apply N.eqb_neq in E. lia.
Qed.

Lemma commit_entries_pos x ts e : 0 < ts -> In e (commit_entries x ts) -> 0 < e_ver e.
Proof.
  intros Hts. unfold commit_entries. rewrite in_app_iff, !in_map_iff.
  intros [(e0 & <- & _)|(ke & <- & _)]; now apply stamp_pos.
Qed.

Lemma MInv_same s s' :
  s_managed s' = s_managed s -> s_db s' = s_db s -> s_writes s' = s_writes s -> MInv s -> MInv s'.
Proof.
  intros E1 E2 E3 [(A & B & C & D & E & F) G]. unfold MInv, MStruct, MStored. rewrite E1, E2, E3.
  split; [exact (conj A (conj B (conj C (conj D (conj E F)))))|exact G].
Qed.

(* ---- Commit ---- *)
Lemma commit_managed_inv s x cts :
  let es := commit_entries x cts in
  forall s', s_managed s' = true -> s_db s' = apply_entries (s_db s) es -> s_writes s' = s_writes s ++ es ->
  0 < cts -> MInv s -> MInv s'.
Proof.
  cbn zeta. intros s' E1 E2 E3 Hcts [(Hm & Himm & Hne & Hdb & Hnd & Hpos) Hst].
  split.
  - unfold MStruct. rewrite E1, E2, E3.
    split; [reflexivity|]. split; [exact Himm|]. split; [exact Hne|].
    split; [now apply apply_entries_ok|]. split; [exact Hnd|].
    intros w Hw. apply in_app_iff in Hw. destruct Hw as [Hw|Hw]; auto. eapply commit_entries_pos; eauto.
  - unfold MStored. rewrite E2, E3. intros Hkv.
    assert (Hkv0: nodup_kv (s_writes s)).
    { eapply nodup_kv_sub; [|exact Hkv]. intros y Hy. apply in_or_app. now left. }
    specialize (Hst Hkv0). unfold MStored in Hst.
    intros y. rewrite in_app_iff, Hst, !C12Proofs.all_entries_in. unfold apply_entries. cbn [l_mt l_imm l_levels].
    rewrite fold_mt_put_exact_kv; [tauto|].
    eapply nodup_kv_sub; [|exact Hkv]. intros z Hz. apply in_app_iff in Hz. apply in_or_app.
    destruct Hz as [Hz|Hz]; [now right|]. left. apply Hst. apply C12Proofs.all_entries_in. now left.
Qed.

(* ---- Flush ---- *)
Lemma flush_managed_inv s id s' :
  s_managed s' = s_managed s -> s_db s' = flush_oldest (rotate (s_db s)) id -> s_writes s' = s_writes s ->
  (l_mt (s_db s) <> [] -> ~ In id (all_ids (l_levels (s_db s)))) ->
  MInv s -> MInv s'.
Proof.
  intros E1 E2 E3 Hfresh [(Hm & Himm & Hne & Hdb & Hnd & Hpos) Hst].
  assert (Hdb': db_ok (flush_oldest (rotate (s_db s)) id)) by (apply flush_oldest_ok; now apply rotate_ok).
  split.
  - unfold MStruct. rewrite E1, E2, E3. split; [exact Hm|].
    rewrite (flush_shape (s_db s) id Himm) in *. cbn [l_imm l_levels].
    split; [reflexivity|].
    destruct (l_mt (s_db s)) as [|e0 mt] eqn:Em.
    + split; [exact Hne|]. split; [exact Hdb'|]. split; [exact Hnd|exact Hpos].
    + specialize (Hfresh ltac:(discriminate)).
      destruct (l_levels (s_db s)) as [|l0 rest] eqn:El; [congruence|]. cbn [add_l0] in *.
      split; [discriminate|]. split; [exact Hdb'|]. split; [|exact Hpos].
      set (T := mkT id (e0 :: mt)).
      unfold all_ids in *. cbn [concat] in *. rewrite <- app_assoc. cbn [app].
      eapply Permutation_NoDup; [|constructor; [exact Hfresh|exact Hnd]].
      change (id :: map t_id (l0 ++ concat rest)) with (map t_id (T :: l0 ++ concat rest)).
      apply Permutation_map. apply Permutation_middle.
  - unfold MStored. rewrite E2, E3. intros Hkv y. rewrite (Hst Hkv y). symmetry.
    now apply C12Proofs.flush_same_entries.
Qed.

(* ---- Compact: distinct table ids are kept (no use of Mono) ---- *)
Lemma compact_ids_nodup ls c :
  NoDup (all_ids ls) -> pick_check ls c = 0 -> (c_next c < length ls)%nat ->
  layout_ok ls c (compaction_output ls c) = true ->
  order_ok (c_order c)
    (let nl := drop_tables (c_bot c) (nth (c_next c) ls []) ++ InstallProofs.new_tables ls c in
     if (c_this c =? c_next c)%nat then drop_tables (c_top c) nl else nl) = true ->
  NoDup (all_ids (apply_compaction ls c)).
Proof.
  intros Hnd Hp Hn Hlay Hord.
  pose proof (pick_this_lt ls c Hp) as Ht.
  destruct (layout_ok_facts _ _ _ Hlay) as [[Hfresh Hlnd] Hsum].
  assert (HNEW: forall t, In t (InstallProofs.new_tables ls c) -> ~ In (t_id t) (all_ids ls)).
  { intros t Ht0. apply Hfresh. unfold InstallProofs.new_tables in Ht0.
    rewrite <- (InstallProofs.split_counts_ids (compaction_output ls c)). now apply in_map. }
  assert (HOLD: forall i t, In t (nth i ls []) -> In (t_id t) (all_ids ls)).
  { intros i t Hti. unfold all_ids. apply in_map. apply in_concat. exists (nth i ls []). split; auto.
    destruct (nth_in_or_default i ls []) as [H|H]; auto. rewrite H in Hti. destruct Hti. }
  pose proof (proj1 (nodup_all_ids_iff ls) Hnd) as [Hlevnd Hcross].
  apply nodup_all_ids_iff. split.
  - intros i. rewrite nth_apply_compaction. cbn zeta.
    set (L' := reorder (c_order c) (drop_tables (c_bot c) (nth (c_next c) ls []) ++ split_counts (compaction_output ls c) (c_layout c))).
    assert (HL': NoDup (map t_id L')).
    { eapply NoDup_subseq; [apply reorder_ids_subseq|]. eapply order_ok_nodup; eauto. }
    assert (DR: forall ids l, NoDup (map t_id l) -> NoDup (map t_id (drop_tables ids l))).
    { intros ids l H. eapply NoDup_subseq; [apply subseq_map; apply subseq_filter|exact H]. }
    destruct ((i =? c_this c)%nat && (c_this c <? length ls)%nat)%bool.
    + apply DR. destruct ((c_this c =? c_next c)%nat && (c_next c <? length ls)%nat)%bool; auto.
    + destruct ((i =? c_next c)%nat && (c_next c <? length ls)%nat)%bool; auto.
  - intros i j a b Hij Ha Hb E.
    destruct (after_member ls c i a Ht Hn Ha) as [(A1 & _ & _)|[A1 A2]];
    destruct (after_member ls c j b Ht Hn Hb) as [(B1 & _ & _)|[B1 B2]].
    + apply (Hcross i j a b); auto.
    + apply (HNEW b B2). rewrite <- E. eapply HOLD; eauto.
    + apply (HNEW a A2). rewrite E. eapply HOLD; eauto.
    + congruence.
Qed.

(* ---- Compact with discard timestamp 0 over positive versions: the filter is the identity on
   the set of entries, so the tree holds the same entries before and after ---- *)
Lemma compact_zero_discard_same_entries d c x :
  let ls := l_levels d in
  db_ok d -> NoDup (all_ids ls) -> nodup_kv (GetProofs.all_entries d) ->
  (forall y, In y (GetProofs.all_entries d) -> 0 < e_ver y) ->
  pick_check ls c = 0 -> (c_next c < length ls)%nat -> c_drop c = [] -> c_discard c = 0 ->
  layout_ok ls c (compaction_output ls c) = true ->
  order_ok (c_order c)
    (let nl := drop_tables (c_bot c) (nth (c_next c) ls []) ++ InstallProofs.new_tables ls c in
     if (c_this c =? c_next c)%nat then drop_tables (c_top c) nl else nl) = true ->
  In x (GetProofs.all_entries (InstallProofs.tree_after d c)) <-> In x (GetProofs.all_entries d).
Proof.
  cbn zeta. intros Hdb Hnd Hkv Hpos Hp Hn Hdrop Hdisc Hlay Hord.
  set (ls := l_levels d) in *.
  destruct Hdb as (_ & _ & Hlv).
  pose proof (pick_wf_of ls c Hp Hn) as Hpw.
  destruct (layout_ok_facts _ _ _ Hlay) as [Hfresh Hsum].
  assert (Hin_all: forall y, In y (concat (compaction_inputs ls c)) -> In y (GetProofs.all_entries d)).
  { intros y Hy. apply C12Proofs.all_entries_in. right. right. apply InstallProofs.levels_exists_conv. fold ls.
    apply (InstallProofs.levels_entries_before ls c y Hnd Hpw Hdrop). now left. }
  assert (Hsorted: Forall sorted (compaction_inputs ls c)).
  { apply compaction_inputs_sorted; auto. exact (pick_next0 _ c Hp). }
  assert (Hkvc: nodup_kv (concat (compaction_inputs ls c))).
  { eapply nodup_kv_sub; [|exact Hkv]. exact Hin_all. }
  assert (Hout: forall y, In y (compaction_output ls c) <-> In y (concat (compaction_inputs ls c))).
  { intros y. unfold compaction_output.
    set (p := mkCP (c_discard c) (c_nkeep c) (compaction_overlap ls c) (c_drop c) (c_now c)).
    assert (Hnp: cp_drop p = []) by exact Hdrop.
    split.
    - intros H. apply MergeProofs.merge_all_in. exact (RetentionProofs.output_from_input p _ y H).
    - intros H. apply (RetentionProofs.keeps_above_discard p Hnp).
      + now apply MergeProofs.merge_all_sorted.
      + now apply MergeProofs.merge_all_complete.
      + unfold p. cbn [cp_discard]. rewrite Hdisc. apply Hpos. now apply Hin_all. }
  rewrite !C12Proofs.all_entries_in, !InstallProofs.levels_exists_conv.
  cbn [InstallProofs.tree_after l_mt l_imm l_levels]. fold ls.
  rewrite (InstallProofs.levels_entries_after ls c x Hnd Hpw Hfresh Hsum Hord).
  rewrite (InstallProofs.levels_entries_before ls c x Hnd Hpw Hdrop).
  rewrite Hout. tauto.
Qed.

Lemma compact_managed_inv s c out s' :
  op_managed (Compact c out) -> step_tree s (Compact c out) = Ok s' -> MInv s -> MInv s'.
Proof.
  intros [Hdisc Hdrop] H [(Hm & Himm & Hne & Hdb & Hnd & Hpos) Hst].
  pose proof (step_tree_step _ _ _ H) as Hs.
  pose proof (SysModeProofs.step_managed _ _ _ Hs) as Em.
  destruct (step_frame _ _ _ Hs ltac:(intros; discriminate)) as (Ew & _ & _).
  destruct (compact_checks _ _ _ _ H) as (P & Q & X & L & O & Sb & E).
  set (ls := l_levels (s_db s)) in *.
  split.
  - unfold MStruct. rewrite Em, E, Ew. cbn [InstallProofs.tree_after l_mt l_imm l_levels]. fold ls.
    split; [exact Hm|]. split; [exact Himm|]. split.
    { intros E0. apply (f_equal (@length _)) in E0. rewrite apply_compaction_length in E0. cbn [length] in E0.
      apply length_zero_iff_nil in E0. contradiction. }
    split.
    { destruct Hdb as (A & B & C). split; [exact A|]. split; [exact B|]. cbn [l_levels].
      apply apply_compaction_ok; auto. }
    split; [|exact Hpos]. now apply compact_ids_nodup.
  - unfold MStored. rewrite Ew, E. intros Hkv y. specialize (Hst Hkv). unfold MStored in Hst.
    rewrite (Hst y). symmetry. apply compact_zero_discard_same_entries; auto.
    + eapply C12Proofs.nodup_kv_ext; [exact Hst|exact Hkv].
    + intros z Hz. apply Hpos. now apply Hst.
Qed.

(* ---- one label ---- *)
Theorem step_tree_managed s o s' :
  MInv s -> op_managed o -> step_tree s o = Ok s' -> MInv s'.
Proof.
  intros HI Ho H. pose proof (step_tree_step _ _ _ H) as Hs.
  pose proof (SysModeProofs.step_managed _ _ _ Hs) as Em.
  assert (SAME: (forall t cts r, o <> Commit t cts r) -> (forall id, o <> Flush id) ->
                (forall c out, o <> Compact c out) -> MInv s').
  { intros N1 N2 N3. destruct (step_frame _ _ _ Hs N1) as (Ew & _ & Ed).
    apply (MInv_same s s'); auto. }
  destruct o; try (apply SAME; intros; discriminate).
  - (* Commit *)
    cbn [step] in Hs. destruct (lookup (s_txns s) t) as [x|] eqn:L; [|discriminate].
    destruct (txn_commit s t x cts) as [[r' ts0] s1] eqn:C.
    destruct ((r' =? r) && (negb (r' =? 0) || (ts0 =? 0) || (ts0 =? cts))); [|discriminate]. inversion Hs; subst s1.
    pose proof HI as [(Hm & _) _].
    unfold txn_commit in C. destruct (x_pend x) as [|p0 pr] eqn:P.
    + inversion C; subst. apply (MInv_same s); auto.
    + destruct (x_done x); [inversion C; subst; exact HI|].
      destruct (s_detect s && has_conflict s x).
      * inversion C; subst. apply (MInv_same s); auto.
      * rewrite Hm in C. inversion C; subst. clear C.
        apply (commit_managed_inv s x ts0); [reflexivity|reflexivity|reflexivity|exact Ho|exact HI].
  - (* Flush *)
    cbn [step] in Hs. inversion Hs; subst s'. apply (flush_managed_inv s id); auto.
    intros Hmt Hin. unfold step_tree in H. destruct (l_mt (s_db s)); [congruence|].
    assert (E: existsb (N.eqb id) (all_ids (l_levels (s_db s))) = true).
    { apply existsb_exists. exists id. split; auto. apply N.eqb_refl. }
    rewrite E in H. discriminate.
  - (* Compact *)
    eapply compact_managed_inv; eauto.
Qed.

(* ---- all histories ---- *)
Theorem exec_tree_managed ops s i :
  Forall op_managed ops -> MInv s -> MInv (snd (exec_tree s ops i)).
Proof.
  revert s i. induction ops as [|o ops IH]; intros s i HF HI; cbn [exec_tree snd]; auto.
  inversion HF; subst. destruct (step_tree s o) as [s1|code] eqn:S; cbn [snd]; auto.
  apply IH; auto. eapply step_tree_managed; eauto.
Qed.

Lemma init_managed_inv detect nkeep nlevels next :
  (0 < nlevels)%nat -> MInv (init_sys true detect nkeep nlevels next).
Proof.
  intros Hn. split.
  - unfold MStruct, init_sys. cbn [s_managed s_db s_writes l_imm l_levels].
    split; [reflexivity|]. split; [reflexivity|]. split; [destruct nlevels; [lia|discriminate]|].
    split; [apply (init_db_ok true detect nkeep nlevels next)|].
    split; [unfold all_ids; rewrite concat_repeat_nil; constructor|intros w []].
  - intros _ x. unfold init_sys. cbn [s_writes s_db]. split; [intros []|].
    intros Hx. apply C12Proofs.all_entries_in in Hx. cbn [l_mt l_imm l_levels] in Hx.
    destruct Hx as [[]|[(s0 & [] & _)|(l & t & Hl & Ht & _)]]. apply repeat_spec in Hl. subst l. destruct Ht.
Qed.

(* every reachable state is structurally well-formed (unconditionally), and stores exactly the
   committed writes *)
Theorem managed_stored_exactly detect nkeep nlevels next ops :
  (0 < nlevels)%nat -> Forall op_managed ops ->
  let s := snd (exec_tree (init_sys true detect nkeep nlevels next) ops 0) in
  GetProofs.lsm_wf (s_db s) /\
  (forall w, In w (s_writes s) -> 0 < e_ver w) /\
  (nodup_kv (s_writes s) -> forall x, In x (s_writes s) <-> In x (GetProofs.all_entries (s_db s))).
Proof.
  cbn zeta. intros Hn HF.
  pose proof (exec_tree_managed ops _ 0 HF (init_managed_inv detect nkeep nlevels next Hn))
    as [(_ & _ & _ & Hdb & _ & Hpos) Hst].
  split; [now apply db_ok_lsm_wf|]. split; [exact Hpos|exact Hst].
Qed.

(* C36: reads at any chosen timestamp see exactly the newest write at or below it, for
   arbitrary (non-monotone) caller-chosen commit timestamps, at any wall-clock time *)
Theorem managed_get_equals_spec_no_discard detect nkeep nlevels next ops :
  (0 < nlevels)%nat -> Forall op_managed ops ->
  let s := snd (exec_tree (init_sys true detect nkeep nlevels next) ops 0) in
  nodup_kv (s_writes s) ->
  forall k ts now, vis_of now (db_get (s_db s) k ts) = vis (s_writes s) k ts now.
Proof.
  cbn zeta. intros Hn HF Hkv k ts now.
  destruct (managed_stored_exactly detect nkeep nlevels next ops Hn HF) as (Hwf & _ & Hst).
  apply managed_reads_when_all_stored; auto.
Qed.

(* ---- a decidable form of nodup_kv, for concrete histories ---- *)
Fixpoint nodup_kv_b (l : list entry) : bool :=
  match l with
  | [] => true
  | x :: r => forallb (fun y => negb (bytes_eqb (e_key x) (e_key y) && (e_ver x =? e_ver y)) || entry_eqb x y) r
              && nodup_kv_b r
  end.

Lemma nodup_kv_b_sound l : nodup_kv_b l = true -> nodup_kv l.
Proof.
  induction l as [|x r IH]; cbn [nodup_kv_b]; [intros _ a b []|].
  intros H. apply andb_true_iff in H. destruct H as [H1 H2]. specialize (IH H2). rewrite forallb_forall in H1.
  assert (Q: forall y, In y r -> e_key x = e_key y -> e_ver x = e_ver y -> x = y).
  { intros y Hy Ek Ev. specialize (H1 y Hy). apply orb_true_iff in H1. destruct H1 as [H1|H1].
    - rewrite Ek, Ev, bytes_eqb_refl, N.eqb_refl in H1. discriminate.
    - now apply SysModeProofs.entry_eqb_eq. }
  intros a b [<-|Ha] [<-|Hb] Ek Ev; auto.
  symmetry. apply Q; auto.
Qed.

(* ---- the hypotheses are satisfiable: non-monotone timestamps with a flush and a compaction
   in between.  Key 107 is written at version 9, flushed and compacted into level 1; then the
   OLDER version 5 is written and flushed: level 0 (consulted first) now holds the older
   version and level 1 the newer one.  Reads still return the newest write at or below the
   read timestamp. ---- *)
Definition nm_key : bytes := [107].
Definition nm_ops : list op :=
  [ Begin 0 true 0; Modify 0 (mkE nm_key 0 0 0 0 [9]) 0; Commit 0 9 0;
    Flush 1;
    Compact (mkC 0 1 [1] [] 0 1 [] 0 [(2, 1)] [2]) [mkE nm_key 9 0 0 0 [9]];
    Begin 1 true 0; Modify 1 (mkE nm_key 0 0 0 0 [5]) 0; Commit 1 5 0;
    Flush 3 ].

Example nm_ops_accepted :
  let '(bad, s) := exec_tree (init_sys true false 1 2 1) nm_ops 0 in
  bad = None
  /\ l_levels (s_db s) = [[mkT 3 [mkE nm_key 5 0 0 0 [5]]]; [mkT 2 [mkE nm_key 9 0 0 0 [9]]]]
  /\ s_writes s = [mkE nm_key 9 0 0 0 [9]; mkE nm_key 5 0 0 0 [5]]
  /\ db_get (s_db s) nm_key 10 = Some (mkE nm_key 9 0 0 0 [9])
  /\ db_get (s_db s) nm_key 7 = Some (mkE nm_key 5 0 0 0 [5])
  /\ db_get (s_db s) nm_key 4 = None
  /\ nodup_kv_b (s_writes s) = true.
Proof. vm_compute. repeat split; reflexivity. Qed.

Example nm_ops_managed : Forall op_managed nm_ops.
Proof. repeat constructor. Qed.

Example nm_ops_hyps :
  Forall op_managed nm_ops /\
  nodup_kv (s_writes (snd (exec_tree (init_sys true false 1 2 1) nm_ops 0))).
Proof. split; [exact nm_ops_managed|]. apply nodup_kv_b_sound. vm_compute. reflexivity. Qed.

(* ---- what op_managed's "0 < cts" excludes: the model stores a CommitAt(0) write at version 0
   (the Go code rejects that commit unless some entry carries an explicit version), and a
   version-0 delete is at or below the discard timestamp 0, so a compaction without overlap
   below drops it: the set of stored entries is no longer the set of writes ---- *)
Definition z_ops : list op :=
  [ Begin 0 true 0; Modify 0 (mkE nm_key 0 1 0 0 []) 0; Commit 0 0 0;
    Flush 1;
    Compact (mkC 0 1 [1] [] 0 1 [] 0 [] []) [] ].

Theorem zero_commit_ts_not_stored_refuted :
  let '(bad, s) := exec_tree (init_sys true false 1 2 1) z_ops 0 in
  bad = None
  /\ s_writes s = [mkE nm_key 0 1 0 0 []]
  /\ GetProofs.all_entries (s_db s) = [].
Proof. vm_compute. repeat split; reflexivity. Qed.
