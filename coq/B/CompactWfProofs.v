(* CompactWfProofs.v — C14: a compaction label that passes the picker relation (Sys.pick_check)
   and the table-break check (SysReopen.compact_extra_check) keeps the levels well-formed. *)
From Verif Require Import Bytes BytesProofs Keys C20Proofs Consts Spec Lsm LsmProofs Compact Iter Sys SysReopen EntOrderProofs ReopenReadProofs ReopenTsProofs LevelsWfProofs.
From Coq Require Import ZifyN ZifyNat ZifyBool Sorted Permutation.
Open Scope N_scope.

(* ---- small list facts ---- *)
Lemma ids_eqb_eq a b : ids_eqb a b = true <-> a = b.
Proof.
  revert b. induction a as [|x a IH]; intros [|y b]; cbn; try (split; congruence).
  rewrite andb_true_iff, N.eqb_eq, IH. split; [intros [-> ->]; auto|intros [= -> ->]; auto].
Qed.

Lemma set_level_length ls n l : length (set_level ls n l) = length ls.
Proof. revert n. induction ls as [|x ls IH]; intros n; cbn; auto. destruct n; cbn; auto. Qed.

Lemma nth_set_level ls n l m :
  nth m (set_level ls n l) [] = if ((m =? n)%nat && (n <? length ls)%nat)%bool then l else nth m ls [].
Proof.
  revert n m. induction ls as [|x ls IH]; intros n m; cbn [set_level length].
  - rewrite andb_false_r. reflexivity.
  - destruct n as [|n]; destruct m as [|m]; cbn [nth]; auto.
    rewrite IH. reflexivity.
Qed.

Lemma NoDup_map_inj {A B} (f : A -> B) l a b : NoDup (map f l) -> In a l -> In b l -> f a = f b -> a = b.
Proof.
  induction l as [|x l IH]; cbn; [tauto|]. intros Hn. inversion Hn as [|? ? Hx Hn']; subst.
  intros [<-|Ha] [<-|Hb] E; auto.
  - exfalso. apply Hx. rewrite E. now apply in_map.
  - exfalso. apply Hx. rewrite <- E. now apply in_map.
Qed.

(* two filters of a list with distinct ids that select the same ids select the same elements *)
Lemma filter_same_ids (l : list table) f g t :
  NoDup (map t_id l) -> map t_id (filter f l) = map t_id (filter g l) -> In t l -> f t = g t.
Proof.
  intros Hn E Ht.
  assert (K: forall h, h t = true <-> In (t_id t) (map t_id (filter h l))).
  { intros h. split.
    - intros Hh. apply in_map. apply filter_In. auto.
    - intros Hin. apply in_map_iff in Hin. destruct Hin as (t' & Eid & Ht'). apply filter_In in Ht'.
      destruct Ht' as [Hl Hh]. assert (t' = t) by (eapply NoDup_map_inj; eauto). now subst. }
  destruct (f t) eqn:F; destruct (g t) eqn:G; auto.
  - apply K in F. rewrite E in F. apply K in F. congruence.
  - apply K in G. rewrite <- E in G. apply K in G. congruence.
Qed.

Lemma StronglySorted_app_inv {A} (R : A -> A -> Prop) a b :
  StronglySorted R (a ++ b) -> forall x y, In x a -> In y b -> R x y.
Proof.
  induction a as [|z a IH]; cbn; [intros _ ? ? []|]. intros H. inversion H as [|? ? Hs Hz]; subst.
  rewrite Forall_forall in Hz. intros x y [<-|Hx] Hy; auto. apply Hz. apply in_or_app. now right.
Qed.

Lemma is_prefix_ids_spec p l : is_prefix_ids p l = true -> exists r, l = p ++ r.
Proof.
  revert l. induction p as [|x p IH]; intros l; cbn; [eauto|].
  destruct l as [|y l]; [discriminate|]. rewrite andb_true_iff, N.eqb_eq. intros [-> H].
  destruct (IH _ H) as (r & ->). eauto.
Qed.

Lemma is_infix_ids_spec p l : is_infix_ids p l = true -> exists a b, l = a ++ p ++ b.
Proof.
  induction l as [|y l IH]; cbn [is_infix_ids]; rewrite orb_true_iff.
  - intros [H|H]; [|discriminate]. apply is_prefix_ids_spec in H. destruct H as (r & E). exists [], r. exact E.
  - intros [H|H].
    + apply is_prefix_ids_spec in H. destruct H as (r & E). exists [], r. exact E.
    + destruct (IH H) as (a & b & ->). exists (y :: a), b. reflexivity.
Qed.

(* ---- the compaction filter and the table split only select ---- *)
Lemma filter_run_subseq p st s : subseq (filter_run p st s) s.
Proof.
  revert st. induction s as [|x s IH]; intros st; cbn [filter_run]; [apply sub_nil|].
  destruct (filter_step p st x) as [st' keep]. destruct keep; [apply sub_keep|apply sub_skip]; auto.
Qed.

Lemma split_counts_concat s layout : subseq (concat (map t_ents (split_counts s layout))) s.
Proof.
  revert s. induction layout as [|[id n] r IH]; intros s; cbn [split_counts map concat t_ents]; [apply subseq_nil_l|].
  rewrite <- (firstn_skipn (N.to_nat n) s) at 3. apply subseq_app; [apply subseq_refl|apply IH].
Qed.

Lemma reorder_ids_subseq ids l : subseq (map t_id (reorder ids l)) ids.
Proof.
  induction ids as [|i ids IH]; cbn [reorder]; [apply sub_nil|].
  destruct (find (fun t => t_id t =? i) l) as [t|] eqn:F; cbn [map].
  - apply find_some in F. destruct F as [_ F]. apply N.eqb_eq in F. rewrite F. now apply sub_keep.
  - now apply sub_skip.
Qed.

(* ---- user-key range of a set of tables ---- *)
Definition min_step (acc : option bytes) (t : table) : option bytes :=
  match t_smallest t with
  | None => acc
  | Some e => match acc with
              | None => Some (e_key e)
              | Some k => if match lex_cmp (e_key e) k with Lt => true | _ => false end then Some (e_key e) else acc
              end
  end.
Definition max_step (acc : option bytes) (t : table) : option bytes :=
  match t_biggest t with
  | None => acc
  | Some e => match acc with
              | None => Some (e_key e)
              | Some k => if match lex_cmp (e_key e) k with Gt => true | _ => false end then Some (e_key e) else acc
              end
  end.

Lemma tables_min_key_fold ts : tables_min_key ts = fold_left min_step ts None.
Proof. reflexivity. Qed.
Lemma tables_max_key_fold ts : tables_max_key ts = fold_left max_step ts None.
Proof. reflexivity. Qed.

Lemma min_fold_le ts acc lo :
  fold_left min_step ts acc = Some lo ->
  (forall k, acc = Some k -> kle lo k) /\
  (forall t s, In t ts -> t_smallest t = Some s -> kle lo (e_key s)).
Proof.
  revert acc. induction ts as [|t ts IH]; intros acc; cbn [fold_left].
  - intros ->. split; [intros k [= ->]; apply kle_refl|intros ? ? []].
  - intros H. destruct (IH _ H) as [IH1 IH2]. split.
    + intros k ->. unfold min_step in IH1. destruct (t_smallest t) as [e|]; [|auto].
      destruct (lex_cmp (e_key e) k) eqn:C; auto.
      eapply kle_trans; [apply (IH1 _ eq_refl)|]. apply klt_kle. exact C.
    + intros t' s [<-|Ht'] Hs; [|eauto]. unfold min_step in IH1. rewrite Hs in IH1.
      destruct acc as [k|]; [|auto]. destruct (lex_cmp (e_key s) k) eqn:C; auto.
      * apply lex_cmp_eq in C. rewrite C. auto.
      * eapply kle_trans; [apply (IH1 _ eq_refl)|]. apply klt_kle. apply not_kle_klt. exact C.
Qed.

Lemma max_fold_ge ts acc hi :
  fold_left max_step ts acc = Some hi ->
  (forall k, acc = Some k -> kle k hi) /\
  (forall t s, In t ts -> t_biggest t = Some s -> kle (e_key s) hi).
Proof.
  revert acc. induction ts as [|t ts IH]; intros acc; cbn [fold_left].
  - intros ->. split; [intros k [= ->]; apply kle_refl|intros ? ? []].
  - intros H. destruct (IH _ H) as [IH1 IH2]. split.
    + intros k ->. unfold max_step in IH1. destruct (t_biggest t) as [e|]; [|auto].
      destruct (lex_cmp (e_key e) k) eqn:C; auto.
      eapply kle_trans; [|apply (IH1 _ eq_refl)]. apply klt_kle. apply not_kle_klt. exact C.
    + intros t' s [<-|Ht'] Hs; [|eauto]. unfold max_step in IH1. rewrite Hs in IH1.
      destruct acc as [k|]; [|auto]. destruct (lex_cmp (e_key s) k) eqn:C; auto.
      * apply lex_cmp_eq in C. rewrite C. auto.
      * eapply kle_trans; [|apply (IH1 _ eq_refl)]. apply klt_kle. exact C.
Qed.

Lemma user_range_bounds ts lo hi t y :
  user_range ts = Some (lo, hi) -> In t ts -> tbl_ok t -> In y (t_ents t) ->
  kle lo (e_key y) /\ kle (e_key y) hi.
Proof.
  unfold user_range. destruct (tables_min_key ts) as [lo'|] eqn:Emin; [|discriminate].
  destruct (tables_max_key ts) as [hi'|] eqn:Emax; [|discriminate]. intros [= -> ->] Ht Hok Hy.
  rewrite tables_min_key_fold in Emin. rewrite tables_max_key_fold in Emax.
  destruct (tbl_ok_smallest _ Hok) as (s & Hs). destruct (tbl_ok_biggest _ Hok) as (g & Hg).
  split.
  - eapply kle_trans; [apply (proj2 (min_fold_le _ _ _ Emin) t s Ht Hs)|]. eapply smallest_kle; eauto.
  - eapply kle_trans; [|apply (proj2 (max_fold_ge _ _ _ Emax) t g Ht Hg)]. eapply biggest_kle; eauto.
Qed.

(* a table that does not intersect [lo, hi] lies entirely on one side *)
Lemma no_overlap_side lo hi a :
  tbl_ok a -> table_overlaps lo hi a = false ->
  (forall x, In x (t_ents a) -> klt (e_key x) lo) \/ (forall x, In x (t_ents a) -> klt hi (e_key x)).
Proof.
  intros Ha. unfold table_overlaps.
  destruct (tbl_ok_smallest _ Ha) as (s & Hs). destruct (tbl_ok_biggest _ Ha) as (g & Hg). rewrite Hs, Hg.
  rewrite andb_false_iff. unfold le_key. intros [H|H].
  - left. intros x Hx. destruct (lex_cmp lo (e_key g)) eqn:C; try discriminate.
    eapply kle_klt_trans; [eapply biggest_kle; eauto|]. now apply not_kle_klt.
  - right. intros x Hx. destruct (lex_cmp (e_key s) hi) eqn:C; try discriminate.
    eapply klt_kle_trans; [apply not_kle_klt; exact C|]. eapply smallest_kle; eauto.
Qed.

Lemma overlap_bounds lo hi b s g :
  table_overlaps lo hi b = true -> t_smallest b = Some s -> t_biggest b = Some g ->
  kle lo (e_key g) /\ kle (e_key s) hi.
Proof.
  unfold table_overlaps. intros H Hs Hg. rewrite Hs, Hg in H. apply andb_true_iff in H.
  destruct H as [H1 H2]. unfold le_key in H1, H2. unfold kle.
  destruct (lex_cmp lo (e_key g)); destruct (lex_cmp (e_key s) hi); try discriminate; split; intros E; discriminate E.
Qed.

(* ---- what Sys.pick_check = 0 gives ---- *)
Definition top_of (ls : list (list table)) (c : compaction) : list table :=
  pick_tables (c_top c) (nth (c_this c) ls []).
Definition bot_of (ls : list (list table)) (c : compaction) : list table :=
  pick_tables (c_bot c) (nth (c_next c) ls []).

Definition range_pick (ls : list (list table)) (c : compaction) : Prop :=
  exists lo hi, user_range (top_of ls c) = Some (lo, hi) /\
                ids_of (overlapping lo hi (nth (c_next c) ls [])) = c_bot c.

Lemma pick_check_facts ls c : pick_check ls c = 0 ->
  ids_of (bot_of ls c) = c_bot c /\
  match c_this c, c_next c with
  | O, O => c_bot c = []
  | O, S _ => range_pick ls c
  | S _, _ => c_this c = c_next c \/ (c_next c = S (c_this c) /\ range_pick ls c)
  end.
Proof.
  unfold pick_check, range_pick, top_of, bot_of. cbn zeta.
  destruct (ids_eqb (ids_of (pick_tables (c_top c) (nth (c_this c) ls []))) (c_top c)) eqn:E1; cbn [negb]; [|discriminate].
  destruct (ids_eqb (ids_of (pick_tables (c_bot c) (nth (c_next c) ls []))) (c_bot c)) eqn:E2; cbn [negb]; [|discriminate].
  apply ids_eqb_eq in E2. rewrite E2.
  destruct (c_top c) as [|t0 tr] eqn:ET; [discriminate|].
  destruct (c_this c) as [|m] eqn:Et; destruct (c_next c) as [|n] eqn:En.
  - destruct (length (pick_tables (t0 :: tr) (nth 0 ls [])) <? 4)%nat; [discriminate|].
    destruct (c_bot c); [auto|discriminate].
  - match goal with |- (if negb ?b then _ else _) = _ -> _ => destruct b; cbn [negb]; [|discriminate] end.
    destruct (levels_between_empty ls 0 0 (S n)); cbn [negb]; [|discriminate].
    destruct (user_range (pick_tables (t0 :: tr) (nth 0 ls []))) as [[lo hi]|] eqn:U; [|discriminate].
    destruct (ids_eqb (ids_of (overlapping lo hi (nth (S n) ls []))) (c_bot c)) eqn:E3; [|discriminate].
    apply ids_eqb_eq in E3. intros _. split; auto. exists lo, hi. auto.
  - destruct (S m =? 0)%nat eqn:Q; [discriminate Q|]. cbn [negb].
    destruct (S (S m) =? 0)%nat eqn:Q2; [discriminate Q2|]. cbn [negb]. discriminate.
  - destruct (S m =? S n)%nat eqn:Q.
    + apply Nat.eqb_eq in Q. intros _. split; auto.
    + destruct (S (S m) =? S n)%nat eqn:Q2; cbn [negb]; [|discriminate]. apply Nat.eqb_eq in Q2.
      destruct (length (pick_tables (t0 :: tr) (nth (S m) ls [])) =? 1)%nat; cbn [negb]; [|discriminate].
      destruct (user_range (pick_tables (t0 :: tr) (nth (S m) ls []))) as [[lo hi]|] eqn:U; [|discriminate].
      destruct (ids_eqb (ids_of (overlapping lo hi (nth (S n) ls []))) (c_bot c)) eqn:E3; [|discriminate].
      apply ids_eqb_eq in E3. intros _. split; auto. right. split; [congruence|]. exists lo, hi. auto.
Qed.

Lemma pick_tables_nil l : pick_tables [] l = [].
Proof. unfold pick_tables. induction l; cbn; auto. Qed.

Lemma in_ids_iff ids t : in_ids ids t = true <-> In (t_id t) ids.
Proof.
  unfold in_ids. rewrite existsb_exists. split.
  - intros (x & Hx & E). apply N.eqb_eq in E. now subst.
  - intros H. exists (t_id t). split; auto. apply N.eqb_refl.
Qed.

Lemma Forall_subseq {A} (P : A -> Prop) l l' : subseq l l' -> Forall P l' -> Forall P l.
Proof.
  intros Hs HF. rewrite Forall_forall in *. intros x Hx. apply HF. eapply subseq_in; eauto.
Qed.

Lemma level_ok_subseq l l' : subseq l l' -> level_ok l' -> level_ok l.
Proof.
  unfold level_ok. intros Hs (H1 & H2 & H3). repeat split.
  - eapply Forall_subseq; eauto.
  - eapply StronglySorted_subseq; eauto.
  - eapply NoDup_subseq; [apply subseq_map; exact Hs|auto].
Qed.

Lemma lvl_ok_subseq n l l' : subseq l l' -> lvl_ok n l' -> lvl_ok n l.
Proof. destruct n; cbn; [apply Forall_subseq|apply level_ok_subseq]. Qed.

(* ---- the compaction output is one strictly sorted run drawn from the input tables ---- *)
Lemma compaction_output_sorted ls c :
  levels_ok ls -> (c_next c = O -> c_bot c = []) -> ssorted (compaction_output ls c).
Proof.
  intros Hok Hb. unfold compaction_output, compact_filter.
  eapply ssorted_subseq; [apply filter_run_subseq|]. apply merge_all_sorted.
  unfold compaction_inputs. apply Forall_app. split.
  - assert (HT: Forall ssorted (map t_ents (pick_tables (c_top c) (nth (c_this c) ls [])))).
    { apply Forall_forall. intros s Hs. apply in_map_iff in Hs. destruct Hs as (t & <- & Ht).
      unfold pick_tables in Ht. apply filter_In in Ht. destruct Ht as [Ht _].
      pose proof (lvl_ok_tbl _ _ (Hok (c_this c))) as HF. rewrite Forall_forall in HF. apply (HF _ Ht). }
    destruct (c_this c); auto. rewrite Forall_forall in *. intros s Hs. apply HT.
    apply in_map_iff in Hs. destruct Hs as (t & <- & Ht). apply in_map. now apply in_rev.
  - constructor; [|constructor]. destruct (c_next c) as [|n] eqn:En.
    + rewrite (Hb eq_refl). rewrite pick_tables_nil. constructor.
    + pose proof (Hok (S n)) as Hl. cbn [lvl_ok] in Hl.
      assert (Hs: subseq (filter (keep_table (c_drop c)) (pick_tables (c_bot c) (nth (S n) ls []))) (nth (S n) ls [])).
      { eapply subseq_trans; [apply subseq_filter|]. unfold pick_tables. apply subseq_filter. }
      destruct (level_ok_subseq _ _ Hs Hl) as (A & B & _). now apply level_concat_sorted.
Qed.

Lemma compaction_output_src ls c e :
  In e (compaction_output ls c) ->
  exists t, (In t (top_of ls c) \/ In t (bot_of ls c)) /\ In e (t_ents t).
Proof.
  unfold compaction_output, compact_filter, top_of, bot_of. intros H. apply filter_run_in in H.
  apply merge_all_in in H. destruct H as (s & Hs & He). unfold compaction_inputs in Hs.
  apply in_app_iff in Hs. destruct Hs as [Hs|[<-|[]]].
  - assert (H: exists t, In t (pick_tables (c_top c) (nth (c_this c) ls [])) /\ s = t_ents t).
    { destruct (c_this c); apply in_map_iff in Hs; destruct Hs as (t & <- & Ht); exists t; split; auto.
      now apply in_rev. }
    destruct H as (t & Ht & ->). eauto.
  - apply in_concat in He. destruct He as (s' & Hs' & He). apply in_map_iff in Hs'.
    destruct Hs' as (t & <- & Ht). apply filter_In in Ht. destruct Ht as [Ht _]. eauto.
Qed.

(* consecutive chunks of a sorted run that break only between different user keys *)
Lemma chunks_level l :
  ssorted (concat (map t_ents l)) -> chunks_ok l = true -> Forall tbl_ok l /\ StronglySorted tlt l.
Proof.
  induction l as [|a l IH]; intros Hs Hc; [split; constructor|].
  cbn [map concat] in Hs. apply ssorted_app_inv in Hs. destruct Hs as (Hsa & Hsr & Hcross).
  cbn [chunks_ok] in Hc. destruct (t_ents a) as [|a0 ar] eqn:Ea; [discriminate|].
  assert (Ha: tbl_ok a) by (split; rewrite Ea; [discriminate|auto]).
  destruct l as [|b r].
  - split; [constructor; [exact Ha|constructor]|constructor; constructor].
  - destruct (t_biggest a) as [x|] eqn:Bx; [|discriminate].
    destruct (t_smallest b) as [y|] eqn:Sy; [|discriminate].
    apply andb_true_iff in Hc. destruct Hc as [Hne Hc]. apply negb_true_iff in Hne.
    destruct (IH Hsr Hc) as [HF HS]. split; [constructor; auto|]. constructor; auto.
    apply Forall_forall. intros t Ht.
    assert (Hx: In x (a0 :: ar)) by (rewrite <- Ea; now apply biggest_in).
    assert (Hy: In y (concat (map t_ents (b :: r)))).
    { cbn [map concat]. apply in_or_app. left. now apply smallest_in. }
    assert (K: klt (e_key x) (e_key y)).
    { destruct (kle_cases _ _ (elt_kle _ _ (Hcross _ _ Hx Hy))) as [E|K]; auto.
      apply bytes_eqb_eq in E. congruence. }
    rewrite Forall_forall in HF. pose proof (HF _ Ht) as Hok.
    split; [rewrite Ea; discriminate|]. split; [apply Hok|].
    intros u v Hu Hv.
    apply (kle_klt_trans _ (e_key x)); [apply (biggest_kle a x u); auto|].
    apply (klt_kle_trans _ (e_key y)); [exact K|].
    (* y is the head of the sorted rest *)
    assert (Hv': In v (concat (map t_ents (b :: r)))).
    { apply in_concat. exists (t_ents t). split; auto. now apply in_map. }
    unfold t_smallest in Sy. cbn [map concat] in Hsr, Hv'. destruct (t_ents b) as [|y0 br]; [discriminate|].
    cbn in Sy. inversion Sy; subst y0. cbn [app] in Hsr, Hv'.
    destruct (ssorted_hd _ _ _ Hsr Hv') as [->|E]; [apply kle_refl|now apply elt_kle].
Qed.

Lemma sorted_by_smallest_cons a b r :
  sorted_by_smallest (a :: b :: r) =
  match t_smallest a, t_smallest b with
  | Some x, Some y => match ent_cmp x y with Gt => false | _ => sorted_by_smallest (b :: r) end
  | _, _ => false
  end.
Proof. reflexivity. Qed.

(* the observed order, once checked to be sorted by smallest key, makes pairwise-disjoint tables a chain *)
Lemma sorted_pairs F :
  Forall tbl_ok F -> NoDup (map t_id F) -> sorted_by_smallest F = true ->
  (forall a b, In a F -> In b F -> t_id a <> t_id b -> tlt a b \/ tlt b a) -> Sorted tlt F.
Proof.
  induction F as [|a F IH]; intros HF Hn Hs Hp; [constructor|].
  inversion HF as [|? ? Ha HF']; subst. cbn [map] in Hn. inversion Hn as [|? ? Hna Hn']; subst.
  destruct F as [|b r]; [repeat constructor|].
  rewrite sorted_by_smallest_cons in Hs. inversion HF' as [|? ? Hb _]; subst.
  destruct (tbl_ok_smallest _ Ha) as (x & Sx). destruct (tbl_ok_smallest _ Hb) as (y & Sy).
  rewrite Sx, Sy in Hs.
  assert (Hle: ent_cmp x y <> Gt) by (destruct (ent_cmp x y); congruence).
  assert (Hs': sorted_by_smallest (b :: r) = true) by (destruct (ent_cmp x y); congruence).
  constructor.
  - apply IH; auto. intros u v Hu Hv. apply Hp; now right.
  - constructor.
    assert (Hab: tlt a b \/ tlt b a).
    { apply Hp; [now left|right; now left|]. intros E. apply Hna. cbn [map]. left. auto. }
    destruct Hab as [H|H]; auto.
    exfalso. destruct H as (_ & _ & H). specialize (H y x (smallest_in _ _ Sy) (smallest_in _ _ Sx)).
    exact (klt_irrefl _ (klt_kle_trans _ _ _ H (not_gt_kle _ _ Hle))).
Qed.

(* ---- the tables of the output level that stay lie entirely on one side of everything the
   compaction reads ---- *)
Lemma level_ok_pair l a b : level_ok l -> In a l -> In b l -> a = b \/ tlt a b \/ tlt b a.
Proof. unfold level_ok. intros (_ & Hs & _). now apply StronglySorted_pair. Qed.

Lemma level_ok_in l t : level_ok l -> In t l -> tbl_ok t.
Proof. unfold level_ok. intros (HF & _ & _) Ht. rewrite Forall_forall in HF. auto. Qed.

(* adjacent levels: bot = exactly the tables of the next level that intersect top's range *)
Lemma rest_side_adjacent Ln top cbot lo hi a :
  level_ok Ln -> Forall tbl_ok top -> user_range top = Some (lo, hi) ->
  ids_of (overlapping lo hi Ln) = ids_of (pick_tables cbot Ln) ->
  In a Ln -> in_ids cbot a = false ->
  (forall t, In t top \/ In t (pick_tables cbot Ln) -> tlt a t) \/
  (forall t, In t top \/ In t (pick_tables cbot Ln) -> tlt t a).
Proof.
  intros Hl Htop Hur Hids Ha Hna.
  pose proof Hl as (HF & HS & Hnd).
  assert (Hov: forall t, In t Ln -> table_overlaps lo hi t = in_ids cbot t).
  { intros t Ht. apply (filter_same_ids Ln); auto. }
  pose proof (level_ok_in _ _ Hl Ha) as Haok.
  assert (Hao: table_overlaps lo hi a = false) by (rewrite Hov; auto).
  destruct (tbl_ok_smallest _ Haok) as (sa & Hsa). destruct (tbl_ok_biggest _ Haok) as (ga & Hga).
  rewrite Forall_forall in Htop.
  destruct (no_overlap_side _ _ _ Haok Hao) as [Hside|Hside]; [left|right]; intros t [Ht|Ht].
  - split; [apply Haok|]. split; [apply (Htop _ Ht)|]. intros x y Hx Hy.
    eapply klt_kle_trans; [apply Hside; auto|]. eapply user_range_bounds; eauto.
  - unfold pick_tables in Ht. apply filter_In in Ht. destruct Ht as [Ht Hin].
    destruct (level_ok_pair _ _ _ Hl Ha Ht) as [E|[H|H]]; auto; [subst; congruence|]. exfalso.
    pose proof (level_ok_in _ _ Hl Ht) as Htok.
    destruct (tbl_ok_smallest _ Htok) as (st & Hst). destruct (tbl_ok_biggest _ Htok) as (gt & Hgt).
    assert (Hto: table_overlaps lo hi t = true) by (rewrite Hov; auto).
    destruct (overlap_bounds _ _ _ _ _ Hto Hst Hgt) as [B1 _].
    destruct H as (_ & _ & H). specialize (H gt ga (biggest_in _ _ Hgt) (biggest_in _ _ Hga)).
    pose proof (Hside ga (biggest_in _ _ Hga)) as K.
    exact (klt_irrefl _ (klt_kle_trans _ _ _ (klt_trans _ _ _ H K) B1)).
  - split; [apply (Htop _ Ht)|]. split; [apply Haok|]. intros y x Hy Hx.
    eapply kle_klt_trans; [|apply Hside; auto]. eapply user_range_bounds; eauto.
  - unfold pick_tables in Ht. apply filter_In in Ht. destruct Ht as [Ht Hin].
    destruct (level_ok_pair _ _ _ Hl Ha Ht) as [E|[H|H]]; auto; [subst; congruence|]. exfalso.
    pose proof (level_ok_in _ _ Hl Ht) as Htok.
    destruct (tbl_ok_smallest _ Htok) as (st & Hst). destruct (tbl_ok_biggest _ Htok) as (gt & Hgt).
    assert (Hto: table_overlaps lo hi t = true) by (rewrite Hov; auto).
    destruct (overlap_bounds _ _ _ _ _ Hto Hst Hgt) as [_ B2].
    destruct H as (_ & _ & H). specialize (H sa st (smallest_in _ _ Hsa) (smallest_in _ _ Hst)).
    pose proof (Hside sa (smallest_in _ _ Hsa)) as K.
    exact (klt_irrefl _ (klt_trans _ _ _ K (klt_kle_trans _ _ _ H B2))).
Qed.

(* same level (Lmax -> Lmax): top ++ bot is a contiguous run of the level *)
Lemma rest_side_same L ctop cbot a :
  level_ok L -> is_infix_ids (ctop ++ cbot) (ids_of L) = true ->
  In a L -> in_ids cbot a = false -> in_ids ctop a = false ->
  (forall t, In t (pick_tables ctop L) \/ In t (pick_tables cbot L) -> tlt a t) \/
  (forall t, In t (pick_tables ctop L) \/ In t (pick_tables cbot L) -> tlt t a).
Proof.
  intros Hl Hinf Ha Hnb Hnt. pose proof Hl as (HF & HS & Hnd).
  apply is_infix_ids_spec in Hinf. destruct Hinf as (P & S & E). unfold ids_of in E.
  apply map_eq_app in E. destruct E as (Lp & Lr & -> & E1 & E2).
  apply map_eq_app in E2. destruct E2 as (Lm & Ls & -> & E2 & E3).
  assert (Hm: forall t, In t (pick_tables ctop (Lp ++ Lm ++ Ls)) \/ In t (pick_tables cbot (Lp ++ Lm ++ Ls)) -> In t Lm).
  { intros t Ht.
    assert (Hin: In t (Lp ++ Lm ++ Ls) /\ In (t_id t) (ctop ++ cbot)).
    { unfold pick_tables in Ht. rewrite !filter_In, !in_ids_iff in Ht. split; [tauto|apply in_or_app; tauto]. }
    destruct Hin as [Hin Hid]. rewrite <- E2 in Hid. apply in_map_iff in Hid. destruct Hid as (t' & Eid & Ht').
    assert (t' = t); [|now subst].
    eapply NoDup_map_inj; eauto. apply in_or_app. right. apply in_or_app. now left. }
  apply in_app_iff in Ha. destruct Ha as [Ha|Ha]; [left|].
  - intros t Ht. apply Hm in Ht. eapply StronglySorted_app_inv; eauto. apply in_or_app. now left.
  - apply in_app_iff in Ha. destruct Ha as [Ha|Ha].
    + exfalso. assert (Hid: In (t_id a) (ctop ++ cbot)) by (rewrite <- E2; now apply in_map).
      apply in_app_iff in Hid. destruct Hid as [Hid|Hid]; apply in_ids_iff in Hid; congruence.
    + right. intros t Ht. apply Hm in Ht.
      assert (HS': StronglySorted tlt (Lm ++ Ls)).
      { eapply StronglySorted_subseq; [|exact HS]. apply (subseq_app [] Lp); [apply subseq_nil_l|apply subseq_refl]. }
      eapply StronglySorted_app_inv; eauto.
Qed.

Lemma extra_check_facts ls c : compact_extra_check ls c = 0 ->
  chunks_ok (split_counts (compaction_output ls c) (c_layout c)) = true /\ NoDup (c_order c) /\
  (c_this c <> O -> c_this c = c_next c -> is_infix_ids (c_top c ++ c_bot c) (ids_of (nth (c_this c) ls [])) = true).
Proof.
  unfold compact_extra_check.
  destruct (chunks_ok (split_counts (compaction_output ls c) (c_layout c))); cbn [negb]; [|discriminate].
  destruct (nodup_ids (c_order c)) eqn:Nd; cbn [negb]; [|discriminate]. apply nodup_ids_iff in Nd.
  destruct (c_this c) as [|m] eqn:Et.
  - intros _. repeat split; auto; try congruence.
  - destruct (S m =? c_next c)%nat eqn:Q.
    + destruct (is_infix_ids (c_top c ++ c_bot c) (ids_of (nth (S m) ls []))) eqn:I; [|discriminate].
      intros _. repeat split; auto.
    + intros _. repeat split; auto. try (intros _ E; apply Nat.eqb_neq in Q; congruence).
Qed.

Lemma rest_side ls c a :
  levels_ok ls -> pick_check ls c = 0 -> compact_extra_check ls c = 0 -> c_next c <> O ->
  In a (nth (c_next c) ls []) -> in_ids (c_bot c) a = false ->
  (c_this c = c_next c -> in_ids (c_top c) a = false) ->
  (forall t, In t (top_of ls c) \/ In t (bot_of ls c) -> tlt a t) \/
  (forall t, In t (top_of ls c) \/ In t (bot_of ls c) -> tlt t a).
Proof.
  intros Hok Hp Hx Hn Ha Hnb Hnt.
  destruct (pick_check_facts _ _ Hp) as [Hbot Hcase].
  destruct (extra_check_facts _ _ Hx) as (_ & _ & Hinf).
  assert (Hl: level_ok (nth (c_next c) ls [])).
  { pose proof (Hok (c_next c)) as H. destruct (c_next c); [congruence|exact H]. }
  assert (Htop: Forall tbl_ok (top_of ls c)).
  { unfold top_of, pick_tables. eapply Forall_subseq; [apply subseq_filter|]. apply (lvl_ok_tbl _ _ (Hok (c_this c))). }
  assert (ADJ: range_pick ls c ->
     (forall t, In t (top_of ls c) \/ In t (bot_of ls c) -> tlt a t) \/
     (forall t, In t (top_of ls c) \/ In t (bot_of ls c) -> tlt t a)).
  { intros (lo & hi & Hur & Hids). unfold bot_of. eapply rest_side_adjacent; eauto.
    rewrite Hids. symmetry. exact Hbot. }
  destruct (c_this c) as [|m] eqn:Et.
  - destruct (c_next c) as [|n] eqn:En; [congruence|]. auto.
  - destruct Hcase as [E|[_ Hr]]; auto.
    unfold top_of, bot_of. rewrite Et. rewrite <- E. rewrite <- E in Hl, Ha.
    apply rest_side_same; auto.
Qed.

(* ---- the output level after the compaction ---- *)
Lemma final_level_ok ls c F :
  levels_ok ls -> pick_check ls c = 0 -> compact_extra_check ls c = 0 -> c_next c <> O ->
  subseq F (reorder (c_order c)
              (drop_tables (c_bot c) (nth (c_next c) ls []) ++
               split_counts (compaction_output ls c) (c_layout c))) ->
  (c_this c = c_next c -> forall t, In t F -> in_ids (c_top c) t = false) ->
  (sorted_by_smallest F = true \/ (length F <= 1)%nat) ->
  level_ok F.
Proof.
  intros Hok Hp Hx Hn Hsub Htopf Hsorted.
  destruct (pick_check_facts _ _ Hp) as [Hbot Hcase].
  destruct (extra_check_facts _ _ Hx) as (Hch & Hnd & _).
  set (out := split_counts (compaction_output ls c) (c_layout c)) in *.
  assert (Hb0: c_next c = O -> c_bot c = []) by congruence.
  pose proof (compaction_output_sorted ls c Hok Hb0) as Hos.
  assert (Hout: Forall tbl_ok out /\ StronglySorted tlt out).
  { apply chunks_level; auto. eapply ssorted_subseq; [apply split_counts_concat|exact Hos]. }
  destruct Hout as [HoutF HoutS].
  assert (Hl: level_ok (nth (c_next c) ls [])).
  { pose proof (Hok (c_next c)) as H. destruct (c_next c); [congruence|exact H]. }
  (* members of F *)
  assert (Hmem: forall t, In t F ->
            (In t (nth (c_next c) ls []) /\ in_ids (c_bot c) t = false) \/ In t out).
  { intros t Ht. apply (subseq_in _ _ _ Hsub) in Ht. apply reorder_in in Ht.
    apply in_app_iff in Ht. destruct Ht as [Ht|Ht]; auto. left.
    unfold drop_tables in Ht. apply filter_In in Ht. destruct Ht as [H1 H2]. apply negb_true_iff in H2. auto. }
  assert (HFok: Forall tbl_ok F).
  { apply Forall_forall. intros t Ht. destruct (Hmem _ Ht) as [[H _]|H].
    - eapply level_ok_in; eauto. - rewrite Forall_forall in HoutF. auto. }
  assert (HFnd: NoDup (map t_id F)).
  { eapply NoDup_subseq; [|exact Hnd]. eapply subseq_trans; [apply subseq_map; exact Hsub|apply reorder_ids_subseq]. }
  (* an output table only holds entries of the tables the compaction read *)
  assert (Hsrc: forall o y, In o out -> In y (t_ents o) ->
            exists t, (In t (top_of ls c) \/ In t (bot_of ls c)) /\ In y (t_ents t)).
  { intros o y Ho Hy. apply compaction_output_src. unfold out in Ho. eapply split_counts_in; eauto. }
  assert (Hpair: forall a b, In a F -> In b F -> t_id a <> t_id b -> tlt a b \/ tlt b a).
  { intros a b Ha Hb Hid.
    assert (Hne: a <> b) by congruence.
    rewrite Forall_forall in HoutF.
    destruct (Hmem _ Ha) as [[Ha1 Ha2]|Ha1]; destruct (Hmem _ Hb) as [[Hb1 Hb2]|Hb1].
    - destruct (level_ok_pair _ _ _ Hl Ha1 Hb1) as [E|H]; [contradiction|auto].
    - destruct (rest_side ls c a Hok Hp Hx Hn Ha1 Ha2 (fun E => Htopf E a Ha)) as [H|H]; [left|right].
      + split; [apply (level_ok_in _ _ Hl Ha1)|]. split; [apply (HoutF _ Hb1)|].
        intros x y Hx0 Hy. destruct (Hsrc _ _ Hb1 Hy) as (t & Ht & Hyt).
        destruct (H t Ht) as (_ & _ & K). auto.
      + split; [apply (HoutF _ Hb1)|]. split; [apply (level_ok_in _ _ Hl Ha1)|].
        intros y x Hy Hx0. destruct (Hsrc _ _ Hb1 Hy) as (t & Ht & Hyt).
        destruct (H t Ht) as (_ & _ & K). auto.
    - destruct (rest_side ls c b Hok Hp Hx Hn Hb1 Hb2 (fun E => Htopf E b Hb)) as [H|H]; [right|left].
      + split; [apply (level_ok_in _ _ Hl Hb1)|]. split; [apply (HoutF _ Ha1)|].
        intros x y Hx0 Hy. destruct (Hsrc _ _ Ha1 Hy) as (t & Ht & Hyt).
        destruct (H t Ht) as (_ & _ & K). auto.
      + split; [apply (HoutF _ Ha1)|]. split; [apply (level_ok_in _ _ Hl Hb1)|].
        intros y x Hy Hx0. destruct (Hsrc _ _ Ha1 Hy) as (t & Ht & Hyt).
        destruct (H t Ht) as (_ & _ & K). auto.
    - destruct (StronglySorted_pair _ _ _ _ HoutS Ha1 Hb1) as [E|H]; [contradiction|auto]. }
  repeat split; auto. apply Sorted_StronglySorted; [apply tlt_Transitive|].
  destruct Hsorted as [Hs|Hlen].
  - apply sorted_pairs; auto.
  - destruct F as [|a [|b r]]; [constructor|repeat constructor|cbn in Hlen; lia].
Qed.

Lemma pick_next0 ls c : pick_check ls c = 0 -> c_next c = O -> c_bot c = [].
Proof.
  intros Hp En. destruct (pick_check_facts _ _ Hp) as [_ H]. rewrite En in H.
  destruct (c_this c) as [|m] eqn:Et; auto. destruct H as [E|[E _]]; congruence.
Qed.

Lemma nth_apply_compaction ls c n :
  nth n (apply_compaction ls c) [] =
  let L' := reorder (c_order c)
              (drop_tables (c_bot c) (nth (c_next c) ls []) ++
               split_counts (compaction_output ls c) (c_layout c)) in
  if ((n =? c_this c)%nat && (c_this c <? length ls)%nat)%bool
  then drop_tables (c_top c)
         (if ((c_this c =? c_next c)%nat && (c_next c <? length ls)%nat)%bool then L' else nth (c_this c) ls [])
  else if ((n =? c_next c)%nat && (c_next c <? length ls)%nat)%bool then L' else nth n ls [].
Proof.
  unfold apply_compaction. rewrite !nth_set_level, set_level_length. reflexivity.
Qed.

(* every table of the new output level, before ordering, is non-empty and sorted *)
Lemma new_level_tbl_ok ls c t :
  levels_ok ls -> pick_check ls c = 0 -> compact_extra_check ls c = 0 ->
  In t (reorder (c_order c)
          (drop_tables (c_bot c) (nth (c_next c) ls []) ++
           split_counts (compaction_output ls c) (c_layout c))) -> tbl_ok t.
Proof.
  intros Hok Hp Hx Ht. apply reorder_in in Ht. apply in_app_iff in Ht. destruct Ht as [Ht|Ht].
  - unfold drop_tables in Ht. apply filter_In in Ht. destruct Ht as [Ht _].
    pose proof (lvl_ok_tbl _ _ (Hok (c_next c))) as HF. rewrite Forall_forall in HF. auto.
  - destruct (extra_check_facts _ _ Hx) as (Hch & _ & _).
    pose proof (compaction_output_sorted ls c Hok (pick_next0 _ _ Hp)) as Hos.
    destruct (chunks_level _ (ssorted_subseq _ _ (split_counts_concat _ _) Hos) Hch) as [HF _].
    rewrite Forall_forall in HF. auto.
Qed.

(* C14, compaction: the picker relation + breaks only between different user keys + the
   observed order being sorted by smallest key keep every level well-formed *)
Theorem apply_compaction_ok ls c :
  levels_ok ls -> pick_check ls c = 0 -> compact_extra_check ls c = 0 ->
  (sorted_by_smallest (nth (c_next c) (apply_compaction ls c) []) = true \/
   (length (nth (c_next c) (apply_compaction ls c) []) <= 1)%nat) ->
  levels_ok (apply_compaction ls c).
Proof.
  intros Hok Hp Hx Hs n. rewrite nth_apply_compaction in Hs |- *. cbn zeta in *.
  set (L' := reorder (c_order c)
              (drop_tables (c_bot c) (nth (c_next c) ls []) ++
               split_counts (compaction_output ls c) (c_layout c))) in *.
  assert (HL0: Forall tbl_ok L').
  { apply Forall_forall. intros t Ht. eapply new_level_tbl_ok; eauto. }
  destruct ((n =? c_this c)%nat && (c_this c <? length ls)%nat)%bool eqn:Q1.
  - apply andb_true_iff in Q1. destruct Q1 as [En Lt]. apply Nat.eqb_eq in En. subst n.
    destruct ((c_this c =? c_next c)%nat && (c_next c <? length ls)%nat)%bool eqn:Q2.
    + (* this = next: Lmax -> Lmax, or L0 -> L0 *)
      apply andb_true_iff in Q2. destruct Q2 as [E Lt2]. apply Nat.eqb_eq in E.
      assert (Hs': sorted_by_smallest (drop_tables (c_top c) L') = true \/
                   (length (drop_tables (c_top c) L') <= 1)%nat).
      { rewrite <- E in Hs. rewrite !Nat.eqb_refl, Lt in Hs. exact Hs. }
      destruct (c_this c) as [|m] eqn:Et.
      * cbn [lvl_ok]. eapply Forall_subseq; [apply subseq_filter|exact HL0].
      * cbn [lvl_ok]. apply (final_level_ok ls c); auto.
        -- congruence.
        -- apply subseq_filter.
        -- intros _ t Ht. unfold drop_tables in Ht. apply filter_In in Ht. destruct Ht as [_ H].
           now apply negb_true_iff in H.
    + eapply lvl_ok_subseq; [apply subseq_filter|apply Hok].
  - destruct ((n =? c_next c)%nat && (c_next c <? length ls)%nat)%bool eqn:Q2; [|apply Hok].
    apply andb_true_iff in Q2. destruct Q2 as [E2 Lt]. apply Nat.eqb_eq in E2. subst n.
    rewrite Q1, Nat.eqb_refl, Lt in Hs. cbn [andb] in Hs.
    destruct (c_next c) as [|m] eqn:Et; cbn [lvl_ok]; auto.
    apply (final_level_ok ls c); auto.
    + congruence.
    + rewrite Et. apply subseq_refl.
    + intros E. exfalso. rewrite ?Et in E. rewrite E in Q1. rewrite Nat.eqb_refl, Lt in Q1. discriminate.
Qed.

(* ---- the invariant over the wrapped system ---- *)
Lemma apply_entries_ok d es : db_ok d -> db_ok (apply_entries d es).
Proof.
  unfold db_ok. intros (H1 & H2 & H3). unfold apply_entries. repeat split; cbn [l_mt l_imm l_levels]; auto.
  now apply fold_mt_put_sorted.
Qed.

Lemma txn_commit_db s t x cts r ts s' :
  txn_commit s t x cts = (r, ts, s') -> s_db s' = s_db s \/ exists es, s_db s' = apply_entries (s_db s) es.
Proof.
  unfold txn_commit. destruct (x_pend x); [intros [= <- <- <-]; auto|].
  destruct (x_done x); [intros [= <- <- <-]; auto|].
  destruct (s_detect s && has_conflict s x); intros [= <- <- <-]; auto. right. cbn [s_db]. eauto.
Qed.

Theorem step_preserves_db_ok s o s' :
  db_ok (s_db s) ->
  (forall c out, o = Compact c out -> compact_extra_check (l_levels (s_db s)) c = 0) ->
  step s o = Ok s' -> db_ok (s_db s').
Proof.
  intros Hd Hx. destruct o; cbn [step].
  - destruct (s_managed s || (rts =? s_next s - 1)); [|discriminate]. now intros [= <-].
  - destruct (lookup (s_txns s) t); [|discriminate]. destruct (txn_modify t0 e) as [r' x'].
    destruct (r' =? r); [|discriminate]. now intros [= <-].
  - destruct (lookup (s_txns s) t); [|discriminate]. destruct (txn_get s t0 k) as [r' x'].
    destruct (getres_eqb r' r); [|discriminate]. now intros [= <-].
  - destruct (lookup (s_txns s) t); [|discriminate].
    destruct (entries_eqb (txn_iterate s t0 o seek) items); [|discriminate]. now intros [= <-].
  - destruct (lookup (s_txns s) t); [|discriminate].
    destruct (txn_commit s t t0 cts) as [[r' ts] s1] eqn:C.
    destruct ((r' =? r) && (negb (r' =? 0) || (ts =? 0) || (ts =? cts))); [|discriminate]. intros [= <-].
    destruct (txn_commit_db _ _ _ _ _ _ _ C) as [E|(es & E)]; rewrite E; auto. now apply apply_entries_ok.
  - destruct (lookup (s_txns s) t); [|discriminate]. now intros [= <-].
  - intros [= <-]. cbn [set_db s_db]. apply flush_oldest_ok. now apply rotate_ok.
  - destruct (negb (pick_check (l_levels (s_db s)) c =? 0)) eqn:P; [discriminate|].
    apply negb_false_iff, N.eqb_eq in P.
    destruct (entries_eqb (compaction_output (l_levels (s_db s)) c) out); [|discriminate].
    match goal with |- (if ?b then _ else _) = _ -> _ => destruct b eqn:Sb; [|discriminate] end.
    intros [= <-]. cbn [set_db s_db]. destruct Hd as (H1 & H2 & H3). repeat split; cbn [l_mt l_imm l_levels]; auto.
    apply apply_compaction_ok; auto; [eapply Hx; reflexivity|].
    apply orb_true_iff in Sb. destruct Sb as [Sb|Sb]; [now left|right]. apply Nat.leb_le in Sb. exact Sb.
  - now intros [= <-].
  - now intros [= <-].
  - destruct (dump_eqb (l_levels (s_db s)) levels); [|discriminate]. now intros [= <-].
  - destruct (max_version (s_db s) =? v); [|discriminate]. now intros [= <-].
Qed.

Theorem xstep_preserves_db_ok xs o xs' :
  db_ok (s_db (x_sys xs)) -> xstep xs o = XOk xs' -> db_ok (s_db (x_sys xs')).
Proof.
  intros Hd. destruct o; cbn [xstep].
  - destruct (bad_version (x_sys xs) o); [discriminate|].
    assert (L: forall ro b, (forall c out, b <> Compact c out) ->
               lift ro (step (x_sys xs) b) = XOk xs' -> db_ok (s_db (x_sys xs'))).
    { intros ro b Hb. unfold lift. destruct (step (x_sys xs) b) as [s1|] eqn:S; [|discriminate].
      intros [= <-]. cbn [x_sys]. eapply step_preserves_db_ok; eauto. intros c out E. destruct (Hb _ _ E). }
    destruct (x_ro xs).
    + destruct o; try discriminate; apply L; intros; discriminate.
    + destruct o; try (apply L; intros; discriminate).
      destruct (step (x_sys xs) (Compact c out)) as [s1|] eqn:S; [|discriminate].
      destruct (compact_extra_check (l_levels (s_db (x_sys xs))) c =? 0) eqn:X; [|discriminate].
      apply N.eqb_eq in X. intros [= <-]. cbn [x_sys]. eapply step_preserves_db_ok; eauto.
      intros c' out' [= <- <-]. exact X.
  - destruct (l_mt (close_db (s_db (x_sys xs)) ids)); [|discriminate].
    destruct (l_imm (close_db (s_db (x_sys xs)) ids)); [|discriminate].
    destruct (negb (s_next (reopen_sys (x_sys xs) ids) =? next)); [discriminate|].
    destruct (negb (dump_eqb (l_levels (s_db (reopen_sys (x_sys xs) ids))) dump)); [discriminate|].
    intros [= <-]. cbn [x_sys reopen_sys s_db]. unfold reopen_db. apply open_db_ok. now apply close_db_ok.
  - destruct (x_ro xs); [discriminate|].
    destruct (s_next (drop_all_sys (x_sys xs)) =? next); [|discriminate]. intros [= <-].
    cbn [x_sys drop_all_sys s_db]. repeat split; cbn [l_mt l_imm l_levels]; try constructor. apply repeat_nil_ok.
  - destruct (txn_get (x_sys xs) (mkTxn ts false [] [] [] false) k) as [r' x'].
    destruct (getres_eqb r' r); [|discriminate]. now intros [= <-].
  - destruct (levels_wf (l_levels (s_db (x_sys xs)))); [|discriminate]. now intros [= <-].
Qed.

Lemma init_db_ok m d k n next : db_ok (s_db (init_sys m d k n next)).
Proof. unfold init_sys. cbn [s_db]. repeat split; cbn [l_mt l_imm l_levels]; try constructor. apply repeat_nil_ok. Qed.

Theorem xexec_preserves_db_ok ops xs i :
  db_ok (s_db (x_sys xs)) -> db_ok (s_db (x_sys (snd (xexec xs ops i)))).
Proof.
  revert xs i. induction ops as [|o ops IH]; intros xs i Hi; cbn [xexec snd]; auto.
  destruct (xstep xs o) as [xs1|code] eqn:S; cbn [snd]; auto.
  apply IH. eapply xstep_preserves_db_ok; eauto.
Qed.

(* C14: in every state a history reaches, the levels are well-formed (so a CheckWf label never
   fails), Open's validation succeeds, and each user key of a level >= 1 lives in one table *)
Theorem reachable_levels_wf m d k n next ops :
  let s := x_sys (snd (xexec (init_xsys m d k n next) ops 0)) in
  levels_wf (l_levels (s_db s)) = true /\ validate_levels (l_levels (s_db s)) = true.
Proof.
  cbn zeta. pose proof (xexec_preserves_db_ok ops (init_xsys m d k n next) 0 (init_db_ok _ _ _ _ _)) as (_ & _ & H).
  apply levels_wf_iff in H. split; auto. now apply levels_wf_validate.
Qed.

Theorem flush_preserves_wf ls m id :
  levels_wf ls = true -> m <> [] -> src_sorted m = true -> levels_wf (add_l0 ls (mkT id m)) = true.
Proof.
  intros H Hm Hs. apply levels_wf_iff. apply add_l0_ok; [now apply levels_wf_iff|].
  split; cbn [t_ents]; auto. now apply src_sorted_iff.
Qed.

Theorem compaction_preserves_wf ls c :
  levels_wf ls = true -> pick_check ls c = 0 -> compact_extra_check ls c = 0 ->
  (sorted_by_smallest (nth (c_next c) (apply_compaction ls c) []) = true \/
   (length (nth (c_next c) (apply_compaction ls c) []) <= 1)%nat) ->
  levels_wf (apply_compaction ls c) = true.
Proof.
  intros H Hp Hx Hs. apply levels_wf_iff. apply apply_compaction_ok; auto. now apply levels_wf_iff.
Qed.

Theorem one_table_per_key ls n a b x y :
  levels_wf ls = true -> In a (nth (S n) ls []) -> In b (nth (S n) ls []) ->
  In x (t_ents a) -> In y (t_ents b) -> e_key x = e_key y -> a = b.
Proof.
  intros H. apply levels_wf_iff in H. apply (level_ok_one_table _ a b x y (H (S n))).
Qed.
