(* Gc.v — value placement and value-log garbage collection on top of the system model.

   The LSM tree of `Sys.v` now holds PHYSICAL entries: an entry whose meta has bitValuePointer
   carries, instead of its value, a pointer [fid; idx] into the value log (`idx` = index of the
   record in file `fid`: offsets are strictly increasing with the index, so every offset
   comparison of the code is an index comparison here).

   value.go:  valueLog.write (placement + rotation), db.go: writeToLSM,
              valueLog.rewrite (GcStart / GcScan / GcWriteBack / GcDelete / GcEnd as separate
              labels, so that commits, flushes, compactions, reads and iterators can be
              interleaved between the phases), discardEntry, incr/decrIteratorCount,
              deleteLogFile, getFileRLocked / Read;
   iterator.go: Item.yieldItemValue (a failed value-log read is logged and yields an EMPTY
              value with a nil error);
   levels.go: subcompact's gcActive / gcDiscardTs clamp (#2286).

   Abstracted: pickLog / discard statistics (any sealed file may be rewritten), byte offsets
   and lengths of records, rotation by file size (histories stay far below ValueLogFileSize),
   write-back batch splitting (histories stay below 1024 entries / maxBatchSize). *)
From Verif Require Import Bytes Keys Consts Spec Lsm Compact Iter Sys.
Open Scope N_scope.

(* ---- the value log ---- *)
Definition vfile := list entry.          (* records in file order: key, version, meta, umeta, exp, VALUE *)
Definition vlog := list (N * vfile).     (* every file ever created (append-only), ascending fid *)

Definition is_ptr (e : entry) : bool := has_bit (e_meta e) c_bitValuePointer.
Definition set_ptr_meta (m : N) : N := N.lor m c_bitValuePointer.
Definition clr_ptr_meta (m : N) : N := N.ldiff m c_bitValuePointer.

Fixpoint vfind (vl : vlog) (fid : N) : option vfile :=
  match vl with
  | [] => None
  | (f, rs) :: r => if f =? fid then Some rs else vfind r fid
  end.
Fixpoint vset (vl : vlog) (fid : N) (rs : vfile) : vlog :=
  match vl with
  | [] => [(fid, rs)]
  | (f, x) :: r => if f =? fid then (fid, rs) :: r else (f, x) :: vset r fid rs
  end.

Definition gone (g : list N) (fid : N) : bool := existsb (N.eqb fid) g.

Record vstate := mkV {
  v_files : vlog;
  v_gone : list N;       (* files removed by deleteLogFile (ghost: v_files keeps their records) *)
  v_max : N;             (* maxFid: the active file *)
  v_count : N;           (* numEntriesWritten of the active file *)
  v_thr : N;             (* ValueThreshold *)
  v_maxent : N }.        (* ValueLogMaxEntries *)

Definition init_v (thr maxent : N) : vstate := mkV [(1, [])] [] 1 0 thr maxent.

(* vlog.Read through getFileRLocked: None = "file with ID: n not found" *)
Definition read_ptr (v : vstate) (e : entry) : option entry :=
  match e_val e with
  | [fid; idx] =>
      if gone (v_gone v) fid then None
      else match vfind (v_files v) fid with
           | Some rs => nth_error rs (N.to_nat idx)
           | None => None
           end
  | _ => None
  end.

Definition with_val (e : entry) (m : N) (val : bytes) : entry :=
  mkE (e_key e) (e_ver e) m (e_umeta e) (e_exp e) val.

(* the stored entry with its value: None when the pointer dangles *)
Definition deref (v : vstate) (e : entry) : option entry :=
  if is_ptr e then
    match read_ptr v e with
    | Some r => Some (with_val e (clr_ptr_meta (e_meta e)) (e_val r))
    | None => None
    end
  else Some e.

(* what the API returns (Item.ValueCopy / VerifDump): a dangling pointer gives an EMPTY value
   and a nil error *)
Definition view (v : vstate) (e : entry) : entry :=
  match deref v e with
  | Some x => x
  | None => with_val e (clr_ptr_meta (e_meta e)) []
  end.

(* ---- placement: valueLog.write for ONE request, then writeToLSM ---- *)
Definition to_vlog (thr : N) (e : entry) : bool := thr <=? N.of_nat (length (e_val e)).

Definition place1 (thr maxfid : N) (acc : vlog * N * list entry) (e : entry) : vlog * N * list entry :=
  let '(vl, cnt, out) := acc in
  if to_vlog thr e then
    let rs := match vfind vl maxfid with Some rs => rs | None => [] end in
    (vset vl maxfid (rs ++ [with_val e (clr_ptr_meta (e_meta e)) (e_val e)]), cnt + 1,
     out ++ [with_val e (set_ptr_meta (e_meta e)) [maxfid; N.of_nat (length rs)]])
  else (vl, cnt, out ++ [with_val e (clr_ptr_meta (e_meta e)) (e_val e)]).

(* toDisk: rotate when numEntriesWritten > ValueLogMaxEntries (checked after the request) *)
Definition write_req (v : vstate) (es : list entry) : vstate * list entry :=
  let '(vl, cnt, out) := fold_left (place1 (v_thr v) (v_max v)) es (v_files v, v_count v, []) in
  if v_maxent v <? cnt
  then (mkV (vset vl (v_max v + 1) []) (v_gone v) (v_max v + 1) 0 (v_thr v) (v_maxent v), out)
  else (mkV vl (v_gone v) (v_max v) cnt (v_thr v) (v_maxent v), out).

(* ---- GC state ---- *)
Record gcst := mkGc {
  g_fid : N;
  g_clamp : N;                     (* gcDiscardTs = MaxVersion() at the start of rewrite *)
  g_scanned : bool;
  g_wb : list (N * entry) }.       (* (record index, entry to write back), scan order *)

(* an open iterator holds references to the memtables and tables of the moment it was created
   (it_db).  The ACTIVE memtable's skiplist is live: the iterator sees what is put into it later
   (e.g. GC write-backs) until that memtable is rotated out, after which its content is frozen
   (it_frozen). *)
Record iter := mkIt { it_txn : N; it_opts : iopts; it_db : lsm; it_frozen : option src }.

Definition freeze_iters (mt : src) (its : list (N * iter)) : list (N * iter) :=
  map (fun p => (fst p, match it_frozen (snd p) with
                        | None => mkIt (it_txn (snd p)) (it_opts (snd p)) (it_db (snd p)) (Some mt)
                        | Some _ => snd p
                        end)) its.

Definition iter_db (cur : lsm) (it : iter) : lsm :=
  mkLsm (match it_frozen it with Some m => m | None => l_mt cur end) (l_imm (it_db it)) (l_levels (it_db it)).

Record xsys := mkX {
  x_sys : sys;                     (* s_db holds physical entries *)
  x_v : vstate;
  x_gc : option gcst;              (* Some = gcActive *)
  x_iters : list (N * iter);       (* open iterators: numActiveIterators = length *)
  x_todel : list N;                (* filesToBeDeleted *)
  x_items : list (N * entry);      (* items obtained by Txn.Get and still held *)
  x_dmax : N }.                    (* ghost: the largest discard timestamp any compaction has used *)

Definition init_x (managed detect : bool) (nkeep : N) (nlevels : nat) (next thr maxent : N) : xsys :=
  mkX (init_sys managed detect nkeep nlevels next) (init_v thr maxent) None [] [] [] 0.

Definition set_sys (s : xsys) (y : sys) : xsys := mkX y (x_v s) (x_gc s) (x_iters s) (x_todel s) (x_items s) (x_dmax s).
Definition set_v (s : xsys) (v : vstate) : xsys := mkX (x_sys s) v (x_gc s) (x_iters s) (x_todel s) (x_items s) (x_dmax s).
Definition set_gc (s : xsys) (g : option gcst) : xsys := mkX (x_sys s) (x_v s) g (x_iters s) (x_todel s) (x_items s) (x_dmax s).
Definition set_dmax (s : xsys) (d : N) : xsys := mkX (x_sys s) (x_v s) (x_gc s) (x_iters s) (x_todel s) (x_items s) d.
Definition x_db (s : xsys) : lsm := s_db (x_sys s).

(* ---- rewrite, phase 1: the scan of one record (the closure `fe`) ---- *)
Definition gc_keep (d : lsm) (now fid idx : N) (r : entry) : bool :=
  if deleted_or_expired r now then false
  else match db_get d (e_key r) (e_ver r) with
       | None => false                                  (* vs.Version = 0: discardEntry *)
       | Some vs =>
           if negb (e_ver vs =? e_ver r) then false     (* discardEntry: version not found *)
           else if negb (is_ptr vs) then false          (* discardEntry: value is in the LSM *)
           else match e_val vs with
                | [f; i] =>
                    if fid <? f then false              (* points to a newer file *)
                    else if idx <? i then false         (* points to a larger offset *)
                    else (f =? fid) && (i =? idx)       (* else: stale pointer, nothing to do *)
                | _ => false
                end
       end.

Fixpoint gc_scan (d : lsm) (now fid : N) (idx : N) (rs : vfile) : list (N * entry) :=
  match rs with
  | [] => []
  | r :: rest =>
      if gc_keep d now fid idx r
      then (idx, with_val r (clr_ptr_meta (e_meta r)) (e_val r)) :: gc_scan d now fid (idx + 1) rest
      else gc_scan d now fid (idx + 1) rest
  end.

(* why a record is (not) kept — branch tags of the correspondence only *)
Definition gc_reason (d : lsm) (now fid idx : N) (r : entry) : N :=
  if deleted_or_expired r now then 1
  else match db_get d (e_key r) (e_ver r) with
       | None => 2
       | Some vs =>
           if negb (e_ver vs =? e_ver r) then 3
           else if negb (is_ptr vs) then 4
           else match e_val vs with
                | [f; i] => if fid <? f then 5 else if idx <? i then 6
                            else if (f =? fid) && (i =? idx) then 0 else 7
                | _ => 8
                end
       end.
Fixpoint gc_reasons (d : lsm) (now fid : N) (idx : N) (rs : vfile) : list N :=
  match rs with
  | [] => []
  | r :: rest => (280 + gc_reason d now fid idx r) :: gc_reasons d now fid (idx + 1) rest
  end.

Definition remove_fids (fs : list N) (v : vstate) : vstate :=
  mkV (v_files v) (fs ++ v_gone v) (v_max v) (v_count v) (v_thr v) (v_maxent v).

Definition file_present (v : vstate) (fid : N) : bool :=
  negb (gone (v_gone v) fid) && match vfind (v_files v) fid with Some _ => true | None => false end.

(* ---- labels ---- *)
Inductive xop :=
| Base (o : op)
| CommitV (t cts r : N) (ord : list (bytes * N))   (* Commit + observed value-log order *)
| GetHold (h t : N) (k : bytes) (r : getres)     (* Txn.Get; the item is kept, its value not read yet *)
| ItemValue (h : N) (val : bytes)                (* Item.ValueCopy on a held item *)
| ItOpen (i t : N) (o : iopts)                   (* Txn.NewIterator *)
| ItRun (i : N) (seek : bytes) (items : list entry)   (* Seek/Rewind ... Next, reading every value *)
| ItClose (i : N)
| GcStart (fid : N) (r : N)                      (* r = 1: "already marked for deletion" *)
| GcScan (kept : list (bytes * N))
| GcWriteBack
| GcDelete (deferred : bool)
| GcEnd
| PDump (mt : list entry) (imm : list (list entry)) (levels : list (list (N * list entry)))
        (files : list (N * list entry)) (todel : list N) (niter maxfid : N).

Inductive xresult := XOk (s : xsys) (tags : list N) | XBad (code : N).

Definition view_levels (v : vstate) (ls : list (list table)) : list (list table) :=
  map (map (fun t => mkT (t_id t) (map (view v) (t_ents t)))) ls.

Definition getres_view (v : vstate) (r : getres) : getres :=
  match r with GFound e => GFound (view v e) | _ => r end.

(* metadata of a held item (the value is not compared) *)
Definition getres_meta_eqb (v : vstate) (a b : getres) : bool :=
  match a, b with
  | GFound x, GFound y => entry_eqb (with_val (view v x) (e_meta (view v x)) []) (with_val y (e_meta y) [])
  | GNotFound, GNotFound => true
  | GErr x, GErr y => x =? y
  | _, _ => false
  end.

Definition files_eqb (a b : list (N * list entry)) : bool :=
  (fix f (a b : list (N * list entry)) : bool :=
     match a, b with
     | [], [] => true
     | (i, x) :: a', (j, y) :: b' => (i =? j) && entries_eqb x y && f a' b'
     | _, _ => false
     end) a b.

Definition live_files (v : vstate) : list (N * list entry) :=
  filter (fun fr => negb (gone (v_gone v) (fst fr))) (v_files v).

Fixpoint lists_eqb (a b : list (list entry)) : bool :=
  match a, b with
  | [], [] => true
  | x :: a', y :: b' => entries_eqb x y && lists_eqb a' b'
  | _, _ => false
  end.

(* the same-key@version precedence fact a compaction is expected to respect (decidable spot
   check of hypothesis `compact_keeps_winners` of GcProofs.v on the timestamps that matter):
   an entry that wins a lookup at or above the discard timestamp afterwards is the entry that
   won it before *)
Definition level_entries (ls : list (list table)) : list entry := concat (map (fun l => concat (map t_ents l)) ls).
Definition prec_kept (d d' : lsm) (disc : N) : bool :=
  forallb (fun e => let ts := N.max (e_ver e) disc in
                    match db_get d' (e_key e) ts with
                    | Some w => match db_get d (e_key e) ts with
                                | Some w0 => entry_eqb w w0
                                | None => false
                                end
                    | None => true
                    end) (level_entries (l_levels d')).

Definition the_clamp (s : xsys) : option N :=
  match x_gc s with
  | Some g => if 0 <? g_clamp g then Some (g_clamp g) else None
  | None => None
  end.

(* commitAndSend ranges over the pendingWrites MAP: the order in which the entries of one
   transaction reach the value log is not determined by the program.  `ord` is the observed
   order of the entries that went to the value log; the request is that permutation. *)
Fixpoint take_kv (k : bytes) (v : N) (es : list entry) : option (entry * list entry) :=
  match es with
  | [] => None
  | e :: r => if bytes_eqb (e_key e) k && (e_ver e =? v) then Some (e, r)
              else match take_kv k v r with
                   | Some (x, r') => Some (x, e :: r')
                   | None => None
                   end
  end.
Fixpoint order_by (ord : list (bytes * N)) (es : list entry) : list entry :=
  match ord with
  | [] => es
  | (k, v) :: r => match take_kv k v es with
                   | Some (e, rest) => e :: order_by r rest
                   | None => order_by r es
                   end
  end.

(* commitAndSend + one write request (placement) + writeToLSM *)
Definition xcommit (s : xsys) (t : N) (x : txn) (cts : N) (ord : list (bytes * N)) : N * N * xsys :=
  let '(r, ts, y1) := txn_commit (x_sys s) t x cts in
  match x_pend x with
  | [] => (r, ts, set_sys s y1)
  | _ =>
      if (r =? 0) then
        let '(v', pes) := write_req (x_v s) (order_by ord (commit_entries x ts)) in
        (r, ts, set_v (set_sys s (set_db y1 (apply_entries (x_db s) pes))) v')
      else (r, ts, set_sys s y1)
  end.

Definition commit_step (s : xsys) (t cts r : N) (ord : list (bytes * N)) : xresult :=
  match lookup (s_txns (x_sys s)) t with
  | Some x => let '(r', ts, s') := xcommit s t x cts ord in
              if (r' =? r) && ((negb (r' =? 0)) || (ts =? 0) || (ts =? cts))
              then XOk s' [if v_max (x_v s') =? v_max (x_v s) then 0 else 221] else XBad 1
  | None => XBad 2
  end.

Definition base_step (s : xsys) (o : op) : xresult :=
  let y := x_sys s in
  let v := x_v s in
  match o with
  | Get t k r =>
      match lookup (s_txns y) t with
      | Some x => let '(r', x') := txn_get y x k in
                  if getres_eqb (getres_view v r') r then XOk (set_sys s (set_txn y t x')) [] else XBad 1
      | None => XBad 2
      end
  | Iterate t o seek items =>
      match lookup (s_txns y) t with
      | Some x =>
          let its := txn_iterate y x o seek in
          if entries_eqb (map (view v) its) items then
            let rd := (match seek with [] => [] | _ => [seek] end) ++ map e_key its in
            XOk (set_sys s (set_txn y t (if x_update x then mkTxn (x_read x) (x_update x) (rd ++ x_reads x) (x_pend x) (x_dups x) (x_done x) else x))) []
          else XBad 1
      | None => XBad 2
      end
  | Commit t cts r => commit_step s t cts r []
  | Compact c out =>
      let ls := l_levels (s_db y) in
      let pc := pick_check ls c in
      if negb (pc =? 0) then XBad pc
      else if match the_clamp s with Some cl => cl <? c_discard c | None => false end then XBad 7
      else if s_managed y && negb (c_discard c =? match the_clamp s with Some cl => N.min (s_discard y) cl | None => s_discard y end) then XBad 8
      else
      let res := compaction_output ls c in
      if entries_eqb (map (view v) res) out then
        let ls' := apply_compaction ls c in
        if sorted_by_smallest (nth (c_next c) ls' []) || (length (nth (c_next c) ls' []) <=? 1)%nat
        then let d' := mkLsm (l_mt (s_db y)) (l_imm (s_db y)) ls' in
             XOk (set_dmax (set_sys s (set_db y d')) (N.max (x_dmax s) (c_discard c)))
                 [(match the_clamp s with Some cl => if c_discard c =? cl then 261 else 260 | None => 0 end);
                  (if prec_kept (s_db y) d' (c_discard c) then 0 else 277)]
        else XBad 3
      else XBad 1
  | Dump dmp => if dump_eqb (view_levels v (l_levels (s_db y))) dmp then XOk s [] else XBad 1
  | Flush id =>
      match step y o with
      | Ok y' => XOk (mkX y' v (x_gc s)
                          (match l_mt (s_db y) with [] => x_iters s | mt => freeze_iters mt (x_iters s) end)
                          (x_todel s) (x_items s) (x_dmax s)) []
      | Bad c => XBad c
      end
  | _ => match step y o with
         | Ok y' => XOk (set_sys s y') []
         | Bad c => XBad c
         end
  end.

Definition close_iter (s : xsys) (i : N) : xsys :=
  let its := filter (fun p => negb (fst p =? i)) (x_iters s) in
  match its with
  | [] => mkX (x_sys s) (remove_fids (x_todel s) (x_v s)) (x_gc s) [] [] (x_items s) (x_dmax s)   (* decrIteratorCount reached 0 *)
  | _ => mkX (x_sys s) (x_v s) (x_gc s) its (x_todel s) (x_items s) (x_dmax s)
  end.

Definition keys_eqb (a b : list (bytes * N)) : bool :=
  (fix f (a b : list (bytes * N)) : bool :=
     match a, b with
     | [], [] => true
     | (k, v) :: a', (k', v') :: b' => bytes_eqb k k' && (v =? v') && f a' b'
     | _, _ => false
     end) a b.

Definition xstep (s : xsys) (o : xop) : xresult :=
  let y := x_sys s in
  let v := x_v s in
  match o with
  | Base b => base_step s b
  | CommitV t cts r ord => commit_step s t cts r ord
  | GetHold h t k r =>
      match lookup (s_txns y) t with
      | Some x => let '(r', x') := txn_get y x k in
                  if getres_meta_eqb v r' r then
                    XOk (mkX (set_txn y t x') v (x_gc s) (x_iters s) (x_todel s)
                             (match r' with GFound e => update (x_items s) h e | _ => x_items s end) (x_dmax s))
                        [match r' with GFound e => if is_ptr e then 252 else 253 | _ => 0 end]
                  else XBad 1
      | None => XBad 2
      end
  | ItemValue h val =>
      match lookup (x_items s) h with
      | Some e => if bytes_eqb (e_val (view v e)) val
                  then XOk s [if is_ptr e then (match deref v e with Some _ => 250 | None => 251 end) else 0]
                  else XBad 1
      | None => XBad 2
      end
  | ItOpen i t o =>
      match lookup (s_txns y) t with
      | Some _ => XOk (mkX y v (x_gc s) (update (x_iters s) i (mkIt t o (s_db y) None)) (x_todel s) (x_items s) (x_dmax s)) []
      | None => XBad 2
      end
  | ItRun i seek items =>
      match lookup (x_iters s) i with
      | Some it =>
          match lookup (s_txns y) (it_txn it) with
          | Some x =>
              let its := txn_iterate (set_db y (iter_db (s_db y) it)) x (it_opts it) seek in
              if entries_eqb (map (view v) its) items
              then XOk s [match x_todel s with [] => 245 | _ => 246 end] else XBad 1
          | None => XBad 2
          end
      | None => XBad 2
      end
  | ItClose i =>
      match lookup (x_iters s) i with
      | Some _ => let s' := close_iter s i in
                  XOk s' [match x_todel s, x_todel s' with _ :: _, [] => 240 | _, _ => 241 end]
      | None => XBad 2
      end
  | GcStart fid r =>
      match x_gc s with
      | Some _ => XBad 4                                   (* garbageCh: one rewrite at a time *)
      | None =>
          if existsb (N.eqb fid) (x_todel s) then (if r =? 1 then XOk s [201] else XBad 1)
          else if negb (fid <? v_max v) then XBad 5        (* AssertTruef(f.fid < maxFid) *)
          else if negb (file_present v fid) then XBad 6
          else if r =? 0 then XOk (set_gc s (Some (mkGc fid (max_version (s_db y)) false []))) [200]
          else XBad 1
      end
  | GcScan kept =>
      match x_gc s with
      | Some g =>
          if g_scanned g then XBad 4
          else
            let rs := match vfind (v_files v) (g_fid g) with Some rs => rs | None => [] end in
            let wb := gc_scan (s_db y) (s_now y) (g_fid g) 0 rs in
            if keys_eqb (map (fun p => (e_key (snd p), e_ver (snd p))) wb) kept
            then XOk (set_gc s (Some (mkGc (g_fid g) (g_clamp g) true wb)))
                     ((match wb with [] => 211 | _ => 210 end)
                      :: (if (length wb <? length rs)%nat then 212 else 0)
                      :: gc_reasons (s_db y) (s_now y) (g_fid g) 0 rs)
            else XBad 1
      | None => XBad 4
      end
  | GcWriteBack =>
      match x_gc s with
      | Some g =>
          if negb (g_scanned g) then XBad 4
          else match g_wb g with
               | [] => XOk s [222]
               | wb =>
                   let '(v', pes) := write_req v (map snd wb) in
                   XOk (mkX (set_db y (apply_entries (s_db y) pes)) v'
                            (Some (mkGc (g_fid g) (g_clamp g) true [])) (x_iters s) (x_todel s) (x_items s) (x_dmax s))
                       [220; if v_max v' =? v_max v then 0 else 221]
               end
      | None => XBad 4
      end
  | GcDelete deferred =>
      match x_gc s with
      | Some g =>
          if negb (g_scanned g) || negb (match g_wb g with [] => true | _ => false end) then XBad 4
          else if negb (file_present v (g_fid g)) then XBad 6      (* "Unable to find fid" *)
          else
            match x_iters s with
            | [] => if deferred then XBad 1
                    else XOk (set_v s (remove_fids [g_fid g] v)) [230]
            | _ => if deferred
                   then XOk (mkX y v (x_gc s) (x_iters s) (x_todel s ++ [g_fid g]) (x_items s) (x_dmax s)) [231]
                   else XBad 1
            end
      | None => XBad 4
      end
  | GcEnd =>
      match x_gc s with
      | Some _ => XOk (set_gc s None) []
      | None => XBad 4
      end
  | PDump mt imm levels files todel niter maxfid =>
      let d := s_db y in
      if entries_eqb (l_mt d) mt && lists_eqb (l_imm d) imm && dump_eqb (l_levels d) levels
         && files_eqb (live_files v) files && ids_eqb (x_todel s) todel
         && (N.of_nat (length (x_iters s)) =? niter) && (v_max v =? maxfid)
      then XOk s [270] else XBad 1
  end.

Fixpoint xexec (s : xsys) (ops : list xop) (i : N) (tags : list N) : option (N * N) * xsys * list N :=
  match ops with
  | [] => (None, s, tags)
  | o :: r => match xstep s o with
              | XOk s' tg => xexec s' r (i + 1) (tg ++ tags)
              | XBad code => (Some (i, code), s, tags)
              end
  end.

(* ---- observables the theorems speak about ---- *)
(* a read, with the value dereferenced: None = key not found, Some None = dangling pointer *)
Definition lread (s : xsys) (k : bytes) (ts : N) : option (option entry) :=
  option_map (deref (x_v s)) (db_get (x_db s) k ts).
(* the user-visible read (Txn.Get at ts): deleted / expired versions are "not found" *)
Definition vread (s : xsys) (k : bytes) (ts : N) : option entry :=
  match db_get (x_db s) k ts with
  | Some e => if deleted_or_expired e (s_now (x_sys s)) then None else Some (view (x_v s) e)
  | None => None
  end.
