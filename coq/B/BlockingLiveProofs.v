(* BlockingLiveProofs.v — C38: no stuck state, progress measure, Close completes (strict LTS);
   refutation witnesses for the faithful LTS. *)
From Coq Require Import List Arith Bool Lia.
Import ListNotations.
From Verif Require Import Blocking BlockingProofs.

Local Arguments Nat.ltb : simpl never.
Local Arguments Nat.leb : simpl never.
Local Arguments Nat.eqb : simpl never.

(* ---- the scheduler is sound: what it picks is an enabled work transition ---- *)
Lemma candidates_work : forallb work candidates = true.
Proof. reflexivity. Qed.

Lemma sched_sound : forall strict c s l, sched strict c s = Some l ->
  work l = true /\ exists s', step strict c s l = Some s'.
Proof.
  intros strict c s l H. unfold sched in H. apply find_some in H. destruct H as [Hin He]. split.
  - pose proof candidates_work as W. rewrite forallb_forall in W. auto.
  - unfold enabled in He. destruct (step strict c s l); [eauto | discriminate].
Qed.

Definition dis (strict : bool) (c : cfg) (s : st) (l : lab) : Prop := step strict c s l = None.
Arguments dis : simpl never.

Lemma sched_none : forall strict c s, sched strict c s = None ->
  Forall (dis strict c s) candidates.
Proof.
  intros strict c s H. apply Forall_forall. intros l Hin.
  pose proof (find_none _ _ H _ Hin) as E. unfold enabled in E. unfold dis.
  destruct (step strict c s l); congruence.
Qed.

(* ---- no stuck state: if nothing in the candidate list is enabled, no public call is pending ---- *)
Ltac use L :=
  match goal with
  | H : dis _ _ _ L |- _ =>
      let H' := fresh "U" in pose proof H as H'; unfold dis, step, crash in H'; cbn in H';
      rewrite ?Nat.eqb_refl in H'; cbn in H'
  end.

Ltac kill := cbn in *; b2p; try discriminate; try congruence; try lia.

Lemma quiescent : forall c s, cfg_ok c -> inv c s -> sched true c s = None -> pending s = false.
Proof.
  intros c s Hc Hi Hn. apply sched_none in Hn. unfold candidates in Hn.
  repeat match goal with H : Forall _ (_ :: _) |- _ => apply Forall_cons_iff in H; destruct H end.
  match goal with H : Forall _ [] |- _ => clear H end.
  destruct Hc as (HN & HB & HM & HTS & HK).
  destruct Hi. destruct s. cbn in * |-. subst crashed.
  unfold l0_running, all_exited in *; cbn in * |-.
  (* A1: no compaction is running *)
  assert (A1a : is_cl0 c0 = false).
  { destruct c0; try reflexivity. use (K0_finishL0 1). cbn in i_l0run. specialize (i_l0run eq_refl).
    destruct ((1 <=? 1) && (1 <=? l0)) eqn:E; [discriminate|]. apply andb_false_iff in E. destruct E; kill. }
  assert (A1b : ol0 = 0).
  { use (KO_finishL0 1). destruct (ol0 =? 0) eqn:E; [kill|]. cbn in U.
    destruct ((1 <=? 1) && (1 <=? l0)) eqn:E2; [discriminate|].
    assert (1 <= l0). { apply i_l0run. rewrite A1a. reflexivity. }
    apply andb_false_iff in E2. destruct E2; kill. }
  assert (A1c : oli = 0). { use (KO_finishLi false). destruct (oli =? 0) eqn:E; kill. }
  assert (A1d : olib = 0). { use (KO_finishLi true). destruct (olib =? 0) eqn:E; kill. }
  assert (A1e : c0 = CIdle \/ c0 = CExit).
  { destruct c0; auto; [discriminate A1a | use K0_finishLi; discriminate]. }
  subst ol0 oli olib.
  (* the level-0 compaction can be picked whenever level 0 is at the stall limit *)
  assert (A2 : cS c <= l0 -> csig = true).
  { intros Hl. destruct A1e as [-> | ->].
    - use K0_startL0. unfold l0_pickable, l0_running, l0_blocked in U. cbn in U.
      replace (cT c <=? l0) with true in U by (symmetry; apply Nat.leb_le; lia).
      replace (1 <=? l0) with true in U by (symmetry; apply Nat.leb_le; lia).
      cbn in U. discriminate.
    - apply i_cexit; [lia | reflexivity]. }
  assert (A2b : csig = true -> fl = FExited).
  { intros E. rewrite E in i_csig. symmetry in i_csig. apply orb_true_iff in i_csig.
    destruct i_csig as [E1|E1]; [auto|]. apply i_dfexit. destruct drp; try discriminate; reflexivity. }
  (* A3: the flusher is not building, flushChan is empty *)
  assert (A3 : fl <> FBuild).
  { intro E. subst fl. use F_add. destruct (l0 <? cS c) eqn:E; [discriminate|]. apply Nat.ltb_ge in E.
    specialize (A2b (A2 E)). discriminate. }
  assert (A3b : fch = 0).
  { destruct fl; [| congruence | destruct (i_fexit eq_refl); assumption].
    use F_take. destruct (fch =? 0) eqn:E; kill. }
  subst fch.
  assert (A4 : fl = FIdle -> fclosed = false).
  { intros ->. use F_exit. cbn in U. destruct fclosed; [discriminate | reflexivity]. }
  (* A5: no writeRequests call is running *)
  assert (A5 : job = JNone).
  { destruct job as [|k j]; [reflexivity|]. destruct j.
    - use J_done. discriminate.
    - destruct mt.
      + use (J_write false). discriminate.
      + use (J_write false). discriminate.
      + use J_rotate. destruct fclosed; [discriminate|].
        destruct (0 <? cM c) eqn:E; [discriminate|]. kill.
      + use (J_write false). discriminate. }
  subst job.
  (* A6: the writer is idle with an empty channel and no signal, or has exited *)
  assert (A6 : (w = WIdle /\ wch = 0 /\ sig = false) \/ w = WExited).
  { destruct w.
    - left. split; [reflexivity|]. split.
      + use W_recv. destruct (wch =? 0) eqn:E; kill.
      + use W_sig. destruct sig; [discriminate | reflexivity].
    - use W_push. discriminate.
    - use W_drain. use W_default. destruct (wch =? 0); discriminate.
    - use W_final. discriminate.
    - specialize (i_wfinal eq_refl). discriminate.
    - right. reflexivity. }
  (* A7: compactors: with the signal set they have all exited *)
  assert (A7 : csig = true -> c0 = CExit /\ oidle = 0).
  { intros E. subst csig. split.
    - destruct A1e as [-> | ->]; [|reflexivity]. use K0_exit. rewrite E in U. discriminate.
    - use KO_exit. rewrite E in U. cbn in U. destruct (oidle =? 0) eqn:E2; kill. }
  (* A8: Close is not in progress *)
  assert (A8 : clo = CNot \/ clo = CDone).
  { destruct clo; auto; exfalso; cbn in * |-.
    - (* CGC *) destruct i_excl as [E|E]; [discriminate|]. subst drp. cbn in * |-.
      destruct (i_nopass eq_refl) as [_ Hg].
      destruct g.
      + use C_gc. discriminate U.
      + use G_check. destruct bw; discriminate U.
      + discriminate Hg.
      + destruct A6 as [(-> & -> & _) | ->].
        * use G_done. discriminate U.
        * specialize (i_wsig eq_refl). congruence.
    - use C_sig. discriminate.
    - (* CWaitW *) use C_waitw. destruct A6 as [(-> & _ & E) | ->]; [|discriminate].
      destruct i_excl as [E2|E2]; [discriminate|]. subst drp. cbn in i_sig. congruence.
    - use C_closech. discriminate.
    - (* CMt *) destruct i_excl as [E|E]; [discriminate|]. subst drp. cbn in i_fclosed. subst fclosed.
      use C_mt. destruct mt.
      + discriminate U.
      + destruct (0 <? cM c) eqn:E; [discriminate U|]. kill.
      + destruct (0 <? cM c) eqn:E; [discriminate U|]. kill.
      + specialize (i_mtnil eq_refl). discriminate i_mtnil.
    - use C_stopf. discriminate.
    - (* CWaitF *) destruct i_excl as [E|E]; [discriminate|]. subst drp. cbn in i_fclosed.
      use C_waitf. destruct fl; [| congruence | discriminate].
      specialize (A4 eq_refl). congruence.
    - (* CWaitC *) destruct i_excl as [E|E]; [discriminate|]. subst drp. cbn in i_csig.
      destruct (A7 i_csig) as [-> ->]. use C_waitc. discriminate.
    - (* COrc *) destruct i_excl as [E|E]; [discriminate|]. subst drp. cbn in * |-.
      destruct (i_cwexit eq_refl) as [-> _]. specialize (i_noorphan eq_refl eq_refl). subst wch.
      destruct (i_nopass eq_refl) as [Hh _].
      use C_orc. destruct (rdwait =? 0) eqn:E; [discriminate|].
      destruct stale; [specialize (i_stale eq_refl); congruence|].
      destruct hold.
      + use R_pass. rewrite E in U0. discriminate U0.
      + use H_ts. discriminate U0.
      + use H_check. destruct bw; discriminate U0.
      + discriminate Hh. }
  (* A9: no DropAll / DropPrefix is in progress *)
  assert (A9 : drp = DNone).
  { destruct drp; auto; exfalso; (destruct i_excl as [E|E]; [|discriminate]); subst clo; cbn in * |-.
    - use D_sig. discriminate.
    - (* DWaitW *) use D_waitw. destruct A6 as [(-> & _ & E) | ->]; [congruence | discriminate].
    - (* DDrain *) use D_drain. use D_default. destruct (wch =? 0); discriminate.
    - (* DWrite *) destruct (i_dwrite eq_refl). discriminate.
    - use D_stopf. discriminate.
    - (* DWaitF *) use D_waitf. destruct fl; [| congruence | discriminate].
      specialize (A4 eq_refl). congruence.
    - (* DFlushMt *) use D_flushmt. destruct mt.
      + discriminate U.
      + destruct (l0 <? cS c) eqn:E; [discriminate U|]. apply Nat.ltb_ge in E. specialize (A2 E). congruence.
      + destruct (l0 <? cS c) eqn:E; [discriminate U|]. apply Nat.ltb_ge in E. specialize (A2 E). congruence.
      + specialize (i_mtnil eq_refl). discriminate i_mtnil.
    - use D_stopc. discriminate.
    - (* DWaitC *) destruct (A7 i_csig) as [-> ->]. use D_waitc. discriminate.
    - use (D_do 0). discriminate.
    - use D_restart. discriminate. }
  subst drp. cbn in * |-.
  (* A10: nothing is pending *)
  unfold pending, reqs. cbn.
  destruct A8 as [-> | ->]; cbn in * |-.
  - (* Close not called *)
    destruct A6 as [(-> & -> & _) | ->]; [| specialize (i_wsig eq_refl); congruence ].
    subst. cbn.
    assert (Hh : hold = HNone).
    { destruct hold; auto.
      - use H_ts. discriminate.
      - use H_check. discriminate.
      - use H_send. destruct (0 <? cN c) eqn:E; [discriminate|]. kill. }
    subst hold.
    assert (Hl : lockq = 0). { use L_acq. destruct (lockq =? 0) eqn:E; kill. }
    subst lockq.
    assert (Hg : g = GIdle).
    { destruct g; auto.
      - use G_check. discriminate.
      - use G_send. destruct (0 <? cN c) eqn:E; [discriminate|]. kill.
      - use G_done. discriminate. }
    subst g.
    assert (Hr : rdwait = 0).
    { use R_pass. unfold inflight_ts, reqs in U. cbn in U.
      destruct stale; [specialize (i_stale eq_refl); discriminate|].
      destruct (rdwait =? 0) eqn:E; kill. }
    subst rdwait. reflexivity.
  - (* Close returned *)
    destruct (i_cwexit eq_refl) as [-> _]. specialize (i_noorphan eq_refl eq_refl). subst wch.
    destruct (i_nopass eq_refl) as [Hh Hg]. cbn in i_alive. specialize (i_rd i_alive). subst rdwait. cbn.
    assert (Hh' : hold = HNone).
    { destruct hold; [reflexivity | use H_ts; discriminate U | use H_check; destruct bw; discriminate U | discriminate Hh]. }
    subst hold.
    assert (Hl : lockq = 0). { use L_acq. destruct (lockq =? 0) eqn:E; kill. }
    subst lockq.
    assert (Hg' : g = GIdle).
    { destruct g; [reflexivity | use G_check; destruct bw; discriminate U | discriminate Hg | use G_done; discriminate U]. }
    subst g. reflexivity.
Qed.
