(* BlockingLiveProofs.v — C38: no stuck state, progress measure, Close completes (strict LTS);
   refutation witnesses for the faithful LTS. *)
From Coq Require Import List Arith Bool Lia.
Import ListNotations.
From Verif Require Import Blocking BlockingProofs.

Local Arguments Nat.ltb : simpl never.
Local Arguments Nat.leb : simpl never.
Local Arguments Nat.eqb : simpl never.

(* ---- the scheduler is sound: what it picks is an enabled work transition ---- *)
Lemma candidates_work : forallb work candidates = true.
Proof. reflexivity. Qed.

Lemma sched_sound : forall strict c s l, sched strict c s = Some l ->
  work l = true /\ exists s', step strict c s l = Some s'.
Proof.
  intros strict c s l H. unfold sched in H. apply find_some in H. destruct H as [Hin He]. split.
  - pose proof candidates_work as W. rewrite forallb_forall in W. auto.
  - unfold enabled in He. destruct (step strict c s l); [eauto | discriminate].
Qed.

Definition dis (strict : bool) (c : cfg) (s : st) (l : lab) : Prop := step strict c s l = None.
Arguments dis : simpl never.

Lemma sched_none : forall strict c s, sched strict c s = None ->
  Forall (dis strict c s) candidates.
Proof.
  intros strict c s H. apply Forall_forall. intros l Hin.
  pose proof (find_none _ _ H _ Hin) as E. unfold enabled in E. unfold dis.
  destruct (step strict c s l); congruence.
Qed.

(* ---- no stuck state: if nothing in the candidate list is enabled, no public call is pending ---- *)
Ltac use L :=
  match goal with
  | H : dis _ _ _ L |- _ =>
      let H' := fresh "U" in pose proof H as H'; unfold dis, step, crash in H'; cbn in H';
      rewrite ?Nat.eqb_refl in H'; cbn in H'
  end.

Ltac kill := cbn in *; b2p; try discriminate; try congruence; try lia.

Lemma quiescent : forall c s, cfg_ok c -> inv c s -> sched true c s = None -> pending s = false.
Proof.
  intros c s Hc Hi Hn. apply sched_none in Hn. unfold candidates in Hn.
  repeat match goal with H : Forall _ (_ :: _) |- _ => apply Forall_cons_iff in H; destruct H end.
  match goal with H : Forall _ [] |- _ => clear H end.
  destruct Hc as (HN & HB & HM & HTS & HK).
  destruct Hi. destruct s. cbn in * |-. subst crashed.
  unfold l0_running, all_exited in *; cbn in * |-.
  (* A1: no compaction is running *)
  assert (A1a : is_cl0 c0 = false).
  { destruct c0; try reflexivity. use (K0_finishL0 1). cbn in i_l0run. specialize (i_l0run eq_refl).
    destruct ((1 <=? 1) && (1 <=? l0)) eqn:E; [discriminate|]. apply andb_false_iff in E. destruct E; kill. }
  assert (A1b : ol0 = 0).
  { use (KO_finishL0 1). destruct (ol0 =? 0) eqn:E; [kill|]. cbn in U.
    destruct ((1 <=? 1) && (1 <=? l0)) eqn:E2; [discriminate|].
    assert (1 <= l0). { apply i_l0run. rewrite A1a. reflexivity. }
    apply andb_false_iff in E2. destruct E2; kill. }
  assert (A1c : oli = 0). { use (KO_finishLi false). destruct (oli =? 0) eqn:E; kill. }
  assert (A1d : olib = 0). { use (KO_finishLi true). destruct (olib =? 0) eqn:E; kill. }
  assert (A1e : c0 = CIdle \/ c0 = CExit).
  { destruct c0; auto; [discriminate A1a | use K0_finishLi; discriminate]. }
  subst ol0 oli olib.
  (* the level-0 compaction can be picked whenever level 0 is at the stall limit *)
  assert (A2 : cS c <= l0 -> csig = true).
  { intros Hl. destruct A1e as [-> | ->].
    - use K0_startL0. unfold l0_pickable, l0_running, l0_blocked in U. cbn in U.
      replace (cT c <=? l0) with true in U by (symmetry; apply Nat.leb_le; lia).
      replace (1 <=? l0) with true in U by (symmetry; apply Nat.leb_le; lia).
      cbn in U. discriminate.
    - apply i_cexit; [lia | reflexivity]. }
  assert (A2b : csig = true -> fl = FExited).
  { intros E. rewrite E in i_csig. symmetry in i_csig. apply orb_true_iff in i_csig.
    destruct i_csig as [E1|E1]; [auto|]. apply i_dfexit. destruct drp; try discriminate; reflexivity. }
  (* A3: the flusher is not building, flushChan is empty *)
  assert (A3 : fl <> FBuild).
  { intro E. subst fl. use F_add. destruct (l0 <? cS c) eqn:E; [discriminate|]. apply Nat.ltb_ge in E.
    specialize (A2b (A2 E)). discriminate. }
  assert (A3b : fch = 0).
  { destruct fl; [| congruence | destruct (i_fexit eq_refl); assumption].
    use F_take. destruct (fch =? 0) eqn:E; kill. }
  subst fch.
  assert (A4 : fl = FIdle -> fclosed = false).
  { intros ->. use F_exit. cbn in U. destruct fclosed; [discriminate | reflexivity]. }
  (* A5: no writeRequests call is running *)
  assert (A5 : job = JNone).
  { destruct job as [|k j]; [reflexivity|]. destruct j.
    - use J_done. discriminate.
    - destruct mt.
      + use (J_write false). discriminate.
      + use (J_write false). discriminate.
      + use J_rotate. destruct fclosed; [discriminate|].
        destruct (0 <? cM c) eqn:E; [discriminate|]. kill.
      + use (J_write false). discriminate. }
  subst job.
  (* A6: the writer is idle with an empty channel and no signal, or has exited *)
  assert (A6 : (w = WIdle /\ wch = 0 /\ sig = false) \/ w = WExited).
  { destruct w.
    - left. split; [reflexivity|]. split.
      + use W_recv. destruct (wch =? 0) eqn:E; kill.
      + use W_sig. destruct sig; [discriminate | reflexivity].
    - use W_push. discriminate.
    - use W_drain. use W_default. destruct (wch =? 0); discriminate.
    - use W_final. discriminate.
    - specialize (i_wfinal eq_refl). discriminate.
    - right. reflexivity. }
  (* A7: compactors: with the signal set they have all exited *)
  assert (A7 : csig = true -> c0 = CExit /\ oidle = 0).
  { intros E. subst csig. split.
    - destruct A1e as [-> | ->]; [|reflexivity]. use K0_exit. rewrite E in U. discriminate.
    - use KO_exit. rewrite E in U. cbn in U. destruct (oidle =? 0) eqn:E2; kill. }
  (* A8: Close is not in progress *)
  assert (A8 : clo = CNot \/ clo = CDone).
  { destruct clo; auto; exfalso; cbn in * |-.
    - (* CGC *) destruct i_excl as [E|E]; [discriminate|]. subst drp. cbn in * |-.
      destruct (i_nopass eq_refl) as [_ Hg].
      destruct g.
      + use C_gc. discriminate U.
      + use G_check. destruct bw; discriminate U.
      + discriminate Hg.
      + destruct A6 as [(-> & -> & _) | ->].
        * use G_done. discriminate U.
        * specialize (i_wsig eq_refl). congruence.
    - use C_sig. discriminate.
    - (* CWaitW *) use C_waitw. destruct A6 as [(-> & _ & E) | ->]; [|discriminate].
      destruct i_excl as [E2|E2]; [discriminate|]. subst drp. cbn in i_sig. congruence.
    - use C_closech. discriminate.
    - (* CMt *) destruct i_excl as [E|E]; [discriminate|]. subst drp. cbn in i_fclosed. subst fclosed.
      use C_mt. destruct mt.
      + discriminate U.
      + destruct (0 <? cM c) eqn:E; [discriminate U|]. kill.
      + destruct (0 <? cM c) eqn:E; [discriminate U|]. kill.
      + specialize (i_mtnil eq_refl). discriminate i_mtnil.
    - use C_stopf. discriminate.
    - (* CWaitF *) destruct i_excl as [E|E]; [discriminate|]. subst drp. cbn in i_fclosed.
      use C_waitf. destruct fl; [| congruence | discriminate].
      specialize (A4 eq_refl). congruence.
    - (* CWaitC *) destruct i_excl as [E|E]; [discriminate|]. subst drp. cbn in i_csig.
      destruct (A7 i_csig) as [-> ->]. use C_waitc. discriminate.
    - (* COrc *) destruct i_excl as [E|E]; [discriminate|]. subst drp. cbn in * |-.
      destruct (i_cwexit eq_refl) as [-> _]. specialize (i_noorphan eq_refl eq_refl). subst wch.
      destruct (i_nopass eq_refl) as [Hh _].
      use C_orc. destruct (rdwait =? 0) eqn:E; [discriminate|].
      destruct stale; [specialize (i_stale eq_refl); congruence|].
      destruct hold.
      + use R_pass. rewrite E in U0. discriminate U0.
      + use H_ts. discriminate U0.
      + use H_check. destruct bw; discriminate U0.
      + discriminate Hh. }
  (* A9: no DropAll / DropPrefix is in progress *)
  assert (A9 : drp = DNone).
  { destruct drp; auto; exfalso; (destruct i_excl as [E|E]; [|discriminate]); subst clo; cbn in * |-.
    - use D_sig. discriminate.
    - (* DWaitW *) use D_waitw. destruct A6 as [(-> & _ & E) | ->]; [congruence | discriminate].
    - (* DDrain *) use D_drain. use D_default. destruct (wch =? 0); discriminate.
    - (* DWrite *) destruct (i_dwrite eq_refl). discriminate.
    - use D_stopf. discriminate.
    - (* DWaitF *) use D_waitf. destruct fl; [| congruence | discriminate].
      specialize (A4 eq_refl). congruence.
    - (* DView *) destruct dkind.
      + (* DropPrefix: the View's readTs; nothing is in flight any more *)
        specialize (i_dwexit eq_refl). subst w. specialize (i_dnoorphan eq_refl). subst wch.
        destruct (i_dnopass eq_refl) as [Hh _]. cbn in i_alive.
        destruct stale; [specialize (i_stale eq_refl); congruence|].
        destruct hold.
        * use D_view. discriminate U.
        * use H_ts. discriminate U.
        * use H_check. destruct bw; discriminate U.
        * discriminate Hh.
      + use D_noview. discriminate U.
    - (* DFlushMt *) destruct dkind.
      + use D_flushmt. destruct mt.
        * discriminate U.
        * destruct (l0 <? cS c) eqn:E; [discriminate U|]. apply Nat.ltb_ge in E. specialize (A2 E). congruence.
        * destruct (l0 <? cS c) eqn:E; [discriminate U|]. apply Nat.ltb_ge in E. specialize (A2 E). congruence.
        * specialize (i_mtnil eq_refl). discriminate i_mtnil.
      + use D_skipmt. destruct mt; try discriminate U. specialize (i_mtnil eq_refl). discriminate i_mtnil.
    - use D_stopc. discriminate.
    - (* DWaitC *) destruct (A7 i_csig) as [-> ->]. use D_waitc. discriminate.
    - use (D_do 0). discriminate.
    - use D_restart. discriminate. }
  subst drp. cbn in * |-.
  (* A10: nothing is pending *)
  unfold pending, reqs. cbn.
  destruct A8 as [-> | ->]; cbn in * |-.
  - (* Close not called *)
    destruct A6 as [(-> & -> & _) | ->]; [| specialize (i_wsig eq_refl); congruence ].
    subst. cbn.
    assert (Hh : hold = HNone).
    { destruct hold; auto.
      - use H_ts. discriminate.
      - use H_check. discriminate.
      - use H_send. destruct (0 <? cN c) eqn:E; [discriminate|]. kill. }
    subst hold.
    assert (Hl : lockq = 0). { use L_acq. destruct (lockq =? 0) eqn:E; kill. }
    subst lockq.
    assert (Hg : g = GIdle).
    { destruct g; auto.
      - use G_check. discriminate.
      - use G_send. destruct (0 <? cN c) eqn:E; [discriminate|]. kill.
      - use G_done. discriminate. }
    subst g.
    assert (Hr : rdwait = 0).
    { use R_pass. unfold inflight_ts, reqs in U. cbn in U.
      destruct stale; [specialize (i_stale eq_refl); discriminate|].
      destruct (rdwait =? 0) eqn:E; kill. }
    subst rdwait. reflexivity.
  - (* Close returned *)
    destruct (i_cwexit eq_refl) as [-> _]. specialize (i_noorphan eq_refl eq_refl). subst wch.
    destruct (i_nopass eq_refl) as [Hh Hg]. cbn in i_alive. specialize (i_rd i_alive). subst rdwait. cbn.
    assert (Hh' : hold = HNone).
    { destruct hold; [reflexivity | use H_ts; discriminate U | use H_check; destruct bw; discriminate U | discriminate Hh]. }
    subst hold.
    assert (Hl : lockq = 0). { use L_acq. destruct (lockq =? 0) eqn:E; kill. }
    subst lockq.
    assert (Hg' : g = GIdle).
    { destruct g; [reflexivity | use G_check; destruct bw; discriminate U | discriminate Hg | use G_done; discriminate U]. }
    subst g. reflexivity.
Qed.

Theorem no_stuck : forall c s, cfg_ok c -> inv c s -> pending s = true ->
  exists l s', sched true c s = Some l /\ work l = true /\ step true c s l = Some s'.
Proof.
  intros c s Hc Hi Hp. destruct (sched true c s) as [l|] eqn:E.
  - destruct (sched_sound _ _ _ _ E) as [W [s' Hs]]. eauto.
  - rewrite (quiescent c s Hc Hi E) in Hp. discriminate.
Qed.

(* ---- the measure decreases along every work transition ---- *)
Ltac destr_step Hs :=
  repeat (match type of Hs with
    | context [match ?x with _ => _ end] => destruct x eqn:?; cbn in Hs; try discriminate Hs
    end).

Lemma mu_step : forall c s l s', cfg_ok c -> inv c s -> work l = true ->
  step true c s l = Some s' -> mu c s' < mu c s.
Proof.
  intros c s l s' Hc Hi Hw Hs.
  pose proof (inv_step _ _ _ _ Hc Hi Hs) as Hi'. pose proof (i_crash _ _ Hi') as Hcr'. clear Hi'.
  pose proof (i_collect _ _ Hi) as Hcol.
  unfold step in Hs. rewrite (i_crash _ _ Hi) in Hs. clear Hi.
  destruct s. unfold crash, l0_pickable, all_exited, inflight_ts, reqs in *. cbn in Hcol.
  destruct l; try discriminate Hw; clear Hw; cbn in Hs; destr_step Hs;
    try (injection Hs as <-); cbn in Hcr'; try discriminate Hcr';
    unfold mu; cbn; b2p;
    try (match goal with H : forall k, WCollect ?x = WCollect k -> _ |- _ => specialize (H x eq_refl) end);
    try lia.
Qed.

(* ---- work-only paths: finite, and they end in a state with no pending call ---- *)
Inductive wpath (c : cfg) : st -> nat -> st -> Prop :=
  | wp_nil : forall s, wpath c s 0 s
  | wp_cons : forall s l s1 n s2, work l = true -> step true c s l = Some s1 ->
      wpath c s1 n s2 -> wpath c s (S n) s2.

Lemma wpath_inv : forall c s n s', cfg_ok c -> inv c s -> wpath c s n s' -> inv c s'.
Proof.
  intros c s n s' Hc Hi Hp. induction Hp; auto. apply IHHp. eapply inv_step; eassumption.
Qed.

(* every work-only path from s has at most mu c s steps *)
Theorem progress_bound : forall c s n s', cfg_ok c -> inv c s -> wpath c s n s' ->
  n + mu c s' <= mu c s.
Proof.
  intros c s n s' Hc Hi Hp. induction Hp.
  - lia.
  - pose proof (mu_step _ _ _ _ Hc Hi H H0). assert (inv c s1) by (eapply inv_step; eassumption).
    specialize (IHHp H2). lia.
Qed.

Theorem progress : forall c s, cfg_ok c -> inv c s ->
  exists n s', n <= mu c s /\ wpath c s n s' /\ pending s' = false /\ inv c s'.
Proof.
  intros c s Hc. remember (mu c s) as m eqn:Em. revert s Em.
  induction m as [m IH] using lt_wf_ind. intros s Em Hi.
  destruct (pending s) eqn:Hp.
  - destruct (no_stuck c s Hc Hi Hp) as (l & s1 & _ & Hw & Hs).
    pose proof (mu_step _ _ _ _ Hc Hi Hw Hs) as Hlt.
    assert (Hi1 : inv c s1) by (eapply inv_step; eassumption).
    destruct (IH (mu c s1) ltac:(lia) s1 eq_refl Hi1) as (n & s' & Hn & Hpath & Hq & Hi').
    exists (S n), s'. split; [lia|]. split; [econstructor; eassumption|]. auto.
  - exists 0, s. split; [lia|]. split; [constructor|]. auto.
Qed.

(* the executable scheduler reaches quiescence within mu steps *)
Lemma run_S : forall strict c n s, run strict c (S n) s =
  match sched strict c s with
  | Some l => match step strict c s l with Some s' => run strict c n s' | None => s end
  | None => s
  end.
Proof. reflexivity. Qed.

Lemma run_quiesces_aux : forall c n s, cfg_ok c -> inv c s -> mu c s <= n ->
  pending (run true c n s) = false /\ inv c (run true c n s).
Proof.
  intros c n. induction n as [|n IH]; intros s Hc Hi Hm.
  - change (run true c 0 s) with s. split; [|assumption]. destruct (pending s) eqn:Hp; [|reflexivity].
    destruct (no_stuck c s Hc Hi Hp) as (l & s1 & _ & Hw & Hs).
    pose proof (mu_step _ _ _ _ Hc Hi Hw Hs). lia.
  - rewrite run_S. destruct (sched true c s) as [l|] eqn:E.
    + destruct (sched_sound _ _ _ _ E) as [Hw [s1 Hs]]. rewrite Hs.
      apply IH; auto. { eapply inv_step; eassumption. }
      pose proof (mu_step _ _ _ _ Hc Hi Hw Hs). lia.
    + split; [apply (quiescent c s); assumption | assumption].
Qed.

Theorem run_quiesces : forall c s, cfg_ok c -> inv c s -> pending (run true c (mu c s) s) = false.
Proof. intros. apply run_quiesces_aux; auto. Qed.

(* ---- Close ---- *)
Lemma clo_mono : forall strict c s l s', step strict c s l = Some s' -> clo s <> CNot -> clo s' <> CNot.
Proof.
  intros strict c s l s' Hs Hn. unfold step in Hs. destruct (crashed s); [discriminate|].
  destruct s. unfold crash in *. cbn in *.
  destruct l; cbn in Hs; destr_step Hs; try (injection Hs as <-); cbn; try assumption; try congruence.
Qed.

Lemma wpath_clo : forall c s n s', wpath c s n s' -> clo s <> CNot -> clo s' <> CNot.
Proof. intros c s n s' Hp. induction Hp; auto. intros. apply IHHp. eapply clo_mono; eassumption. Qed.

Lemma quiet_clo : forall s, pending s = false -> clo s = CNot \/ clo s = CDone.
Proof.
  intros s Hp. unfold pending in Hp. repeat (apply orb_false_iff in Hp; destruct Hp as [Hp ?]).
  destruct (clo s); auto; discriminate.
Qed.

(* Close, once started, returns on some work-only path of at most mu steps, whatever else is in
   flight; and EVERY work-only path that cannot be extended ends with Close returned *)
Theorem close_completes : forall c s, cfg_ok c -> inv c s -> clo s <> CNot ->
  (exists n s', n <= mu c s /\ wpath c s n s' /\ clo s' = CDone /\ pending s' = false) /\
  (forall n s', wpath c s n s' -> sched true c s' = None -> clo s' = CDone /\ pending s' = false).
Proof.
  intros c s Hc Hi Hn. split.
  - destruct (progress c s Hc Hi) as (n & s' & Hb & Hp & Hq & _).
    exists n, s'. repeat split; auto.
    destruct (quiet_clo _ Hq) as [E|E]; [|assumption]. exfalso. eapply wpath_clo; eassumption.
  - intros n s' Hp Hsch. assert (Hi' : inv c s') by (eapply wpath_inv; eassumption).
    pose proof (quiescent c s' Hc Hi' Hsch) as Hq. split; [|assumption].
    destruct (quiet_clo _ Hq) as [E|E]; [|assumption]. exfalso. eapply wpath_clo; eassumption.
Qed.

(* the strict relation only removes schedules: each of its steps is a step of the code as written *)
Lemma strict_sub : forall c s l s', step true c s l = Some s' -> step false c s l = Some s'.
Proof.
  intros c s l s' Hs. unfold step in *. destruct (crashed s); [discriminate|].
  destruct l; cbn in *; try assumption;
    repeat (match type of Hs with
            | context [match ?x with _ => _ end] => destruct x eqn:?; cbn in Hs |- *; try discriminate Hs
            end); try assumption.
Qed.

Lemma reach_strict_sub : forall c s, reach true c s -> reach false c s.
Proof.
  intros c s H. induction H; [constructor|]. apply reach_step with s l; [exact IHreach | apply strict_sub; assumption].
Qed.
