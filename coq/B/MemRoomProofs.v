(* MemRoomProofs.v — proofs about MemRoom.v (memTable.isFull / ensureRoomForWrite / the arena):
   (i)   the skiplist of the active memtable never outgrows arenaSize(opt): the model never
         reports "Arena too small", in either mode;
   (ii)  a write request that finds MemTableSize bytes in the skiplist rotates the memtable, in
         InMemory mode exactly as on disk; the ghost counter of value bytes bounds MemSize()
         from below, so every history that put MemTableSize value bytes into the active
         memtable rotates at its next write;
   (iii) Get and the merged iterator view after a sequence of write requests do not depend on
         where the rotations happened. *)
From Verif Require GcProofs.
From Verif Require Import Bytes BytesProofs Uvarint Keys C20Proofs Consts Spec Lsm LsmProofs Compact Iter Sys SysMode
  CompactProofs GetProofs EntOrderProofs LevelsWfProofs ReopenReadProofs ReopenMergeProofs MemRoom.
From Coq Require Import ZifyN ZifyNat ZifyBool Sorting.Sorted.
Open Scope N_scope.

Ltac Zify.zify_post_hook ::= Z.to_euclidean_division_equations.

(* ------------------------------------------------------------------------------------ *)
(* sizes *)

Lemma size_varint_f_le f x : (size_varint_f f x <= f)%nat.
Proof.
  revert x. induction f as [|f IH]; intros x; cbn [size_varint_f]; [lia|].
  destruct (x / 128 =? 0); [lia|]. specialize (IH (x / 128)). lia.
Qed.

Lemma uvl_le x : uvl x <= 10.
Proof. unfold uvl, size_varint. pose proof (size_varint_f_le 10 x). lia. Qed.

Lemma max_node_size_val : c_maxNodeSize = 96.
Proof. reflexivity. Qed.

Lemma sl_empty_val : sl_empty = 107.
Proof. reflexivity. Qed.

Lemma node_size_le h : h <= 15 -> node_size h <= 83.
Proof.
  intros H. unfold node_size. rewrite max_node_size_val.
  change c_maxHeight with 20. change c_offsetSize with 4. change c_nodeAlign with 7. lia.
Qed.

Lemma sum_shift {A} (f : A -> N) l : forall a, fold_left (fun x e => x + f e) l a = a + fold_left (fun x e => x + f e) l 0.
Proof.
  induction l as [|e l IH]; intros a; cbn [fold_left]; [lia|].
  rewrite IH, (IH (0 + f e)). lia.
Qed.

Lemma sl_put_le c mt sl e h : h <= 15 -> sl_put c mt sl e h <= sl + est_size c e + 93.
Proof.
  intros H. unfold sl_put, est_size, enc_size. pose proof (node_size_le h H). pose proof (uvl_le (e_exp e)).
  destruct (mt_has mt e); unfold ikey_len; lia.
Qed.

Lemma sl_put_ge c mt sl e h : sl + stored_vlen c e <= sl_put c mt sl e h.
Proof. unfold sl_put, enc_size. destruct (mt_has mt e); lia. Qed.

Lemma hd_heights_ok hs : heights_ok hs -> hd 1 hs <= 15 /\ heights_ok (tl hs).
Proof. intros H. destruct hs as [|h hs]; cbn; [split; [lia|constructor]|]. inversion H; subst. split; assumption. Qed.

Lemma sl_puts_le c es : forall mt sl hs, heights_ok hs ->
  sl_puts c mt sl es hs <= sl + fold_left (fun a e => a + est_size c e) es 0 + 93 * N.of_nat (length es).
Proof.
  induction es as [|e es IH]; intros mt sl hs H; cbn [sl_puts fold_left length]; [lia|].
  destruct (hd_heights_ok hs H) as [H1 H2].
  specialize (IH (mt_put mt e) (sl_put c mt sl e (hd 1 hs)) (tl hs) H2).
  pose proof (sl_put_le c mt sl e (hd 1 hs) H1).
  rewrite (sum_shift (est_size c) es (0 + est_size c e)). lia.
Qed.

Lemma sl_puts_ge c es : forall mt sl hs, sl + val_bytes c es <= sl_puts c mt sl es hs.
Proof.
  unfold val_bytes. induction es as [|e es IH]; intros mt sl hs; cbn [sl_puts fold_left]; [lia|].
  specialize (IH (mt_put mt e) (sl_put c mt sl e (hd 1 hs)) (tl hs)).
  pose proof (sl_put_ge c mt sl e (hd 1 hs)).
  rewrite (sum_shift (stored_vlen c) es (0 + stored_vlen c e)). lia.
Qed.

(* ------------------------------------------------------------------------------------ *)
(* (i) the arena bound.  A request that passed sendToWriteCh (batch_ok), written into a
   memtable that ensureRoomForWrite found or made not full (MemSize() < MemTableSize), with
   tower heights <= 15, leaves MemSize() <= arenaSize(opt) = MemTableSize + maxBatchSize +
   maxBatchCount * MaxNodeSize *)
Theorem arena_bound c r1 es hs fin cts :
  r_sl r1 < rc_mts c -> batch_ok c es fin cts = true -> heights_ok hs ->
  sl_after c r1 es hs <= arena_size (rc_mts c).
Proof.
  intros Hsl Hb Hh. unfold sl_after.
  pose proof (sl_puts_le (rc_m c) es (l_mt (s_db (m_sys (r_m r1)))) (r_sl r1) hs Hh) as Hle.
  unfold batch_ok in Hb. apply andb_prop in Hb. destruct Hb as [Hn Hs].
  unfold arena_size. rewrite max_node_size_val.
  set (S := fold_left (fun a e => a + est_size (rc_m c) e) es 0) in *.
  set (mbc := max_batch_count (rc_mts c)) in *. set (mbs := max_batch_size (rc_mts c)) in *.
  destruct fin; lia.
Qed.

Lemma lift_not_arena c r o a b d e : lift c r o a b d e <> VDied 1.
Proof. unfold lift. destruct (mstep (rc_m c) (r_m r) o); discriminate. Qed.

Lemma lift_ok c r o a b d e r' : lift c r o a b d e = VOk r' ->
  r_sl r' = a /\ r_wal r' = b /\ r_rot r' = d /\ r_since r' = e /\ mstep (rc_m c) (r_m r) o = MOk (r_m r').
Proof.
  unfold lift. destruct (mstep (rc_m c) (r_m r) o) as [m'| |]; try discriminate.
  intros H. inversion H. subst. cbn. repeat split; reflexivity.
Qed.

Lemma ensure_room_ok c r rot r1 : ensure_room c r rot = VOk r1 ->
  (is_full c (r_sl r) (r_wal r) = false /\ rot = None /\ r1 = r) \/
  (is_full c (r_sl r) (r_wal r) = true /\ exists id, rot = Some id /\ r_sl r1 = sl_empty /\ r_wal r1 = wal_empty c
     /\ r_rot r1 = r_rot r + 1 /\ r_since r1 = 0 /\ mstep (rc_m c) (r_m r) (Base (Flush id)) = MOk (r_m r1)).
Proof.
  unfold ensure_room. destruct (is_full c (r_sl r) (r_wal r)); destruct rot as [id|]; try discriminate.
  - intros H. right. split; [reflexivity|]. exists id. split; [reflexivity|].
    apply lift_ok in H. tauto.
  - intros H. inversion H. left. auto.
Qed.

Lemma is_full_false_sl c sl wal : is_full c sl wal = false -> sl < rc_mts c.
Proof. unfold is_full. destruct (rc_mts c <=? sl) eqn:E; [discriminate|]. lia. Qed.

Lemma is_full_sl c sl wal : rc_mts c <= sl -> is_full c sl wal = true.
Proof. unfold is_full. intros H. destruct (rc_mts c <=? sl) eqn:E; [reflexivity|lia]. Qed.

Lemma ensure_room_not_arena c r rot : ensure_room c r rot <> VDied 1.
Proof.
  unfold ensure_room. destruct (is_full c (r_sl r) (r_wal r)); destruct rot; try discriminate; try apply lift_not_arena.
Qed.

(* heights carried by a label *)
Definition vop_heights_ok (o : vop) : Prop :=
  match o with VCommit _ _ _ _ hs _ _ => heights_ok hs | _ => True end.

Theorem vstep_no_arena_death c r o :
  sl_empty < rc_mts c -> vop_heights_ok o -> vstep c r o <> VDied 1.
Proof.
  intros Hm Hh. destruct o as [x|t cts res rot hs osl owal]; cbn [vstep].
  - destruct x as [b| |a b' d]; try apply lift_not_arena.
    destruct b; try apply lift_not_arena; [discriminate|].
    destruct (l_mt (s_db (m_sys (r_m r)))); apply lift_not_arena.
  - cbn [vop_heights_ok] in Hh.
    destruct (commit_applies (m_sys (r_m r)) t cts) as [|e0 es0] eqn:Ees.
    + destruct rot; [discriminate|]. destruct (_ && _); [apply lift_not_arena|discriminate].
    + destruct (batch_ok c (e0 :: es0) (keep_together (m_sys (r_m r)) t) cts) eqn:Hb; cbn [negb]; [|discriminate].
      destruct (ensure_room c r rot) as [r1|code|w] eqn:Er.
      * assert (Hsl : r_sl r1 < rc_mts c).
        { destruct (ensure_room_ok _ _ _ _ Er) as [(Hf & _ & ->)|(_ & id & _ & Hs & _)].
          - eapply is_full_false_sl; exact Hf.
          - rewrite Hs. exact Hm. }
        pose proof (arena_bound c r1 (e0 :: es0) hs _ cts Hsl Hb Hh) as Hab.
        destruct (arena_size (rc_mts c) <? sl_after c r1 (e0 :: es0) hs) eqn:E; [lia|].
        destruct (negb (_ =? osl)); [discriminate|]. destruct (negb (_ =? owal)); [discriminate|].
        apply lift_not_arena.
      * discriminate.
      * intros H. apply (ensure_room_not_arena c r rot). rewrite Er. exact H.
Qed.

(* the whole run, as a result *)
Fixpoint vrun (c : rcfg) (r : room) (ops : list vop) : vresult :=
  match ops with
  | [] => VOk r
  | o :: rest => match vstep c r o with VOk r' => vrun c r' rest | x => x end
  end.

Theorem vrun_no_arena_death c ops : forall r,
  sl_empty < rc_mts c -> Forall vop_heights_ok ops -> vrun c r ops <> VDied 1.
Proof.
  induction ops as [|o ops IH]; intros r Hm Hh; cbn [vrun]; [discriminate|].
  inversion Hh; subst. destruct (vstep c r o) eqn:E; try discriminate.
  - apply IH; assumption.
  - rewrite <- E. apply vstep_no_arena_death; assumption.
Qed.

(* vexec (what the correspondence evaluates) and vrun *)
Lemma vexec_vrun c ops : forall r i r',
  vexec c r ops i = (None, r') <-> vrun c r ops = VOk r'.
Proof.
  induction ops as [|o ops IH]; intros r i r'; cbn [vexec vrun].
  - split; intros H; inversion H; reflexivity.
  - destruct (vstep c r o) as [r1|code|w]; [apply IH| |].
    + split; discriminate.
    + split; [|discriminate]. destruct w as [|p]; [discriminate|]. destruct p; discriminate.
Qed.

Lemma vexec_died c ops : forall r i, vrun c r ops = VDied 1 -> exists j, fst (vexec c r ops i) = Some (j, 998).
Proof.
  induction ops as [|o ops IH]; intros r i H; cbn [vexec vrun] in *; [discriminate|].
  destruct (vstep c r o) as [r1|code|w]; [apply IH; exact H|discriminate|].
  inversion H. subst. exists i. reflexivity.
Qed.

(* the guard on the heights is needed: with towers of the maximal height a request that passes
   sendToWriteCh can exhaust the arena (MemTableSize 16384: maxBatchSize 2457, maxBatchCount
   25, arena 21241; 23 entries of 94 value bytes with an expiry and 20-level towers on top of
   16383 bytes; randomHeight returns 20 with probability 3^-19 per node) *)
Lemma arena_bound_needs_heights :
  let c := mkRC (mkMC true 1024) 16384 in
  let es := map (fun i => mkE [i] 1 0 0 9223372036854775808 (repeat 7 94))
                [1; 2; 3; 4; 5; 6; 7; 8; 9; 10; 11; 12; 13; 14; 15; 16; 17; 18; 19; 20; 21; 22; 23] in
  let r1 := mkR (init_msys (rc_m c) false true 1 4 1) 16383 0 0 0 in
  batch_ok c es true 1 = true /\ r_sl r1 < rc_mts c /\
  arena_size (rc_mts c) < sl_after c r1 es (repeat 20 23).
Proof. vm_compute. repeat split; reflexivity. Qed.

(* ------------------------------------------------------------------------------------ *)
(* (ii) rotation *)

(* a write request that finds the skiplist at or above MemTableSize rotates, in both modes *)
Theorem full_memtable_rotates c r t cts res rot hs sl wal r' :
  vstep c r (VCommit t cts res rot hs sl wal) = VOk r' ->
  commit_applies (m_sys (r_m r)) t cts <> [] ->
  rc_mts c <= r_sl r ->
  exists id, rot = Some id /\ r_rot r' = r_rot r + 1.
Proof.
  intros H Hne Hfull. cbn [vstep] in H.
  destruct (commit_applies (m_sys (r_m r)) t cts) as [|e0 es0] eqn:Ees; [contradiction Hne; reflexivity|].
  destruct (negb (batch_ok c (e0 :: es0) (keep_together (m_sys (r_m r)) t) cts)); [discriminate|].
  destruct (ensure_room c r rot) as [r1| |] eqn:Er; try discriminate.
  destruct (ensure_room_ok _ _ _ _ Er) as [(Hf & _ & _)|(_ & id & -> & Hs & _ & Hr & _)].
  - rewrite (is_full_sl c _ _ Hfull) in Hf. discriminate.
  - exists id. split; [reflexivity|].
    destruct (arena_size (rc_mts c) <? sl_after c r1 (e0 :: es0) hs) eqn:Ea; [discriminate|].
    destruct (negb (_ =? sl)); [discriminate|]. destruct (negb (_ =? wal)); [discriminate|].
    apply lift_ok in H. destruct H as (_ & _ & H3 & _). rewrite H3, Hr. reflexivity.
Qed.

(* MemSize() is at least the empty skiplist plus the value bytes put since the memtable was installed *)
Definition room_inv (r : room) : Prop := sl_empty + r_since r <= r_sl r.

Lemma init_room_inv c managed detect nkeep nlevels next : room_inv (init_room c managed detect nkeep nlevels next).
Proof. unfold room_inv, init_room. cbn. lia. Qed.

Lemma lift_inv c r o a b d e r' : lift c r o a b d e = VOk r' -> sl_empty + e <= a -> room_inv r'.
Proof. intros H Hle. apply lift_ok in H. destruct H as (H1 & _ & _ & H4 & _). unfold room_inv. rewrite H1, H4. exact Hle. Qed.

Theorem vstep_inv c r o r' : room_inv r -> vstep c r o = VOk r' -> room_inv r'.
Proof.
  intros Hi H. unfold room_inv in Hi. destruct o as [x|t cts res rot hs osl owal]; cbn [vstep] in H.
  - destruct x as [b| |a b' d]; try (eapply lift_inv; [exact H|lia]).
    destruct b; try (eapply lift_inv; [exact H|lia]); [discriminate|].
    destruct (l_mt (s_db (m_sys (r_m r)))); (eapply lift_inv; [exact H|lia]).
  - destruct (commit_applies (m_sys (r_m r)) t cts) as [|e0 es0] eqn:Ees.
    + destruct rot; [discriminate|]. destruct (_ && _); [|discriminate]. eapply lift_inv; [exact H|lia].
    + destruct (negb (batch_ok c (e0 :: es0) (keep_together (m_sys (r_m r)) t) cts)); [discriminate|].
      destruct (ensure_room c r rot) as [r1| |] eqn:Er; try discriminate.
      destruct (arena_size (rc_mts c) <? sl_after c r1 (e0 :: es0) hs); [discriminate|].
      destruct (negb (_ =? osl)); [discriminate|]. destruct (negb (_ =? owal)); [discriminate|].
      eapply lift_inv; [exact H|].
      assert (Hi1 : sl_empty + r_since r1 <= r_sl r1).
      { destruct (ensure_room_ok _ _ _ _ Er) as [(_ & _ & ->)|(_ & id & _ & Hs & _ & _ & Hz & _)]; [exact Hi|].
        rewrite Hs, Hz. lia. }
      unfold sl_after.
      pose proof (sl_puts_ge (rc_m c) (e0 :: es0) (l_mt (s_db (m_sys (r_m r1)))) (r_sl r1) hs). lia.
Qed.

Theorem vrun_inv c ops : forall r r', room_inv r -> vrun c r ops = VOk r' -> room_inv r'.
Proof.
  induction ops as [|o ops IH]; intros r r' Hi H; cbn [vrun] in H; [inversion H; subst; exact Hi|].
  destruct (vstep c r o) as [r1| |] eqn:E; try discriminate.
  eapply IH; [|exact H]. eapply vstep_inv; eassumption.
Qed.

(* every accepted history, in either mode: once the active memtable has taken MemTableSize
   bytes (the empty skiplist's 107 included) of values, the next write request rotates it *)
Theorem volume_rotates c managed detect nkeep nlevels next ops r t cts res rot hs sl wal r' :
  vrun c (init_room c managed detect nkeep nlevels next) ops = VOk r ->
  rc_mts c <= sl_empty + r_since r ->
  commit_applies (m_sys (r_m r)) t cts <> [] ->
  vstep c r (VCommit t cts res rot hs sl wal) = VOk r' ->
  exists id, rot = Some id /\ r_rot r' = r_rot r + 1.
Proof.
  intros Hrun Hvol Hne Hst.
  pose proof (vrun_inv c ops _ _ (init_room_inv c managed detect nkeep nlevels next) Hrun) as Hi.
  unfold room_inv in Hi.
  destruct (full_memtable_rotates c r t cts res rot hs sl wal r' Hst Hne) as (id & A & B); [lia|].
  exists id. split; assumption.
Qed.

(* and a memtable below MemTableSize (on disk: with a WAL below it too) is never rotated by a write *)
Theorem not_full_not_rotated c r t cts res rot hs sl wal r' :
  vstep c r (VCommit t cts res rot hs sl wal) = VOk r' ->
  is_full c (r_sl r) (r_wal r) = false -> rot = None /\ r_rot r' = r_rot r.
Proof.
  intros H Hf. cbn [vstep] in H.
  destruct (commit_applies (m_sys (r_m r)) t cts) as [|e0 es0] eqn:Ees.
  - destruct rot; [discriminate|]. destruct (_ && _); [|discriminate]. apply lift_ok in H. split; [reflexivity|tauto].
  - destruct (negb (batch_ok c (e0 :: es0) (keep_together (m_sys (r_m r)) t) cts)); [discriminate|].
    destruct (ensure_room c r rot) as [r1| |] eqn:Er; try discriminate.
    destruct (ensure_room_ok _ _ _ _ Er) as [(_ & -> & ->)|(Hf' & _)]; [|rewrite Hf in Hf'; discriminate].
    destruct (arena_size (rc_mts c) <? _); [discriminate|].
    destruct (negb (_ =? sl)); [discriminate|]. destruct (negb (_ =? wal)); [discriminate|].
    apply lift_ok in H. split; [reflexivity|tauto].
Qed.

(* InMemory mode: full iff the skiplist holds MemTableSize bytes *)
Lemma is_full_inmem thr mts sl wal : is_full (mkRC (mkMC true thr) mts) sl wal = (mts <=? sl).
Proof. unfold is_full. cbn. destruct (mts <=? sl); reflexivity. Qed.

Lemma is_full_disk thr mts sl wal : is_full (mkRC (mkMC false thr) mts) sl wal = (mts <=? sl) || (mts <=? wal).
Proof. unfold is_full. cbn. destruct (mts <=? sl); reflexivity. Qed.

(* ------------------------------------------------------------------------------------ *)
(* (iii) reads do not depend on where the rotations happen *)

(* --- the tree after a VCommit label --- *)
Lemma apply_entries_nil d : apply_entries d [] = d.
Proof. destruct d. reflexivity. Qed.

Lemma step_commit_db s t cts res s' :
  step s (Commit t cts res) = Ok s' -> s_db s' = apply_entries (s_db s) (commit_applies s t cts).
Proof.
  cbn [step]. unfold commit_applies. destruct (lookup (s_txns s) t) as [x|]; [|discriminate].
  destruct (txn_commit s t x cts) as [[r' ts] s1] eqn:Ec.
  destruct ((r' =? res) && _); [|discriminate]. intros H. inversion H. subst s1.
  unfold txn_commit in Ec. destruct (x_pend x) as [|p ps] eqn:Ep.
  - inversion Ec. subst. cbn [s_db]. destruct (0 =? 0); rewrite apply_entries_nil; reflexivity.
  - destruct (x_done x).
    + inversion Ec. subst. cbn. rewrite apply_entries_nil. reflexivity.
    + destruct (s_detect s && has_conflict s x).
      * inversion Ec. subst. cbn [s_db]. cbn. rewrite apply_entries_nil. reflexivity.
      * inversion Ec. subst. cbn [s_db]. rewrite N.eqb_refl. reflexivity.
Qed.

Lemma sstep_commit_db c s t cts res s' :
  sstep c s (Base (Commit t cts res)) = SOk s' -> s_db s' = apply_entries (s_db s) (commit_applies s t cts).
Proof.
  cbn [sstep]. destruct (step s (Commit t cts res)) as [s1|] eqn:E; [|discriminate].
  destruct (existsb _ _); [discriminate|]. intros H. inversion H. subst. eapply step_commit_db; exact E.
Qed.

Lemma mstep_sys c m o m' : mstep c m o = MOk m' -> sstep c (m_sys m) o = SOk (m_sys m').
Proof.
  unfold mstep. destruct (sstep c (m_sys m) o) as [s1| |]; try discriminate.
  destruct (files_ok c m o); [|discriminate]. intros H. inversion H. reflexivity.
Qed.

Lemma commit_applies_set_db s d t cts : commit_applies (set_db s d) t cts = commit_applies s t cts.
Proof.
  unfold commit_applies, set_db. cbn [s_txns]. destruct (lookup (s_txns s) t) as [x|]; [|reflexivity].
  unfold txn_commit. cbn [s_db s_next s_committed s_txns s_managed s_detect s_nkeep s_discard s_writes s_now].
  destruct (x_pend x); [reflexivity|]. destruct (x_done x); [reflexivity|].
  unfold has_conflict. cbn [s_committed]. destruct (s_detect s && _); reflexivity.
Qed.

Lemma mstep_flush_sys c m id m' : mstep c m (Base (Flush id)) = MOk m' ->
  s_db (m_sys m') = flush_oldest (rotate (s_db (m_sys m))) id /\
  forall t cts, commit_applies (m_sys m') t cts = commit_applies (m_sys m) t cts.
Proof.
  intros H. apply mstep_sys in H. cbn in H. inversion H. split; [reflexivity|].
  intros t cts. apply commit_applies_set_db.
Qed.

(* a VCommit label acts on the tree as room_db: the (possible) rotation, then the Puts *)
Theorem vcommit_db c r t cts res rot hs sl wal r' :
  vstep c r (VCommit t cts res rot hs sl wal) = VOk r' ->
  s_db (m_sys (r_m r')) = room_db (s_db (m_sys (r_m r))) (rot, commit_applies (m_sys (r_m r)) t cts).
Proof.
  intros H. cbn [vstep] in H. unfold room_db. cbn [fst snd].
  destruct (commit_applies (m_sys (r_m r)) t cts) as [|e0 es0] eqn:Ees.
  - destruct rot; [discriminate|]. destruct (_ && _); [|discriminate].
    apply lift_ok in H. destruct H as (_ & _ & _ & _ & H). apply mstep_sys, sstep_commit_db in H.
    rewrite H, Ees. reflexivity.
  - destruct (negb (batch_ok c (e0 :: es0) (keep_together (m_sys (r_m r)) t) cts)); [discriminate|].
    destruct (ensure_room c r rot) as [r1| |] eqn:Er; try discriminate.
    destruct (arena_size (rc_mts c) <? _); [discriminate|].
    destruct (negb (_ =? sl)); [discriminate|]. destruct (negb (_ =? wal)); [discriminate|].
    apply lift_ok in H. destruct H as (_ & _ & _ & _ & H). apply mstep_sys, sstep_commit_db in H. rewrite H.
    destruct (ensure_room_ok _ _ _ _ Er) as [(_ & -> & ->)|(_ & id & -> & _ & _ & _ & _ & Hm)].
    + rewrite Ees. reflexivity.
    + destruct (mstep_flush_sys _ _ _ _ Hm) as (Hd & Hc). rewrite Hd, Hc, Ees. reflexivity.
Qed.

(* --- Get --- *)
Lemma flush_rotate_wf d id : lsm_wf d -> lsm_wf (flush_oldest (rotate d) id).
Proof.
  intros (A & B & C). unfold flush_oldest, rotate. cbn [l_imm l_mt l_levels].
  destruct (l_imm d ++ [l_mt d]) as [|m rest] eqn:E.
  - destruct (l_imm d); discriminate.
  - assert (HF : Forall sorted (m :: rest)).
    { rewrite <- E. apply Forall_app. split; [exact B|]. constructor; [exact A|constructor]. }
    inversion HF as [|? ? Hm Hrest]; subst.
    unfold lsm_wf. cbn [l_mt l_imm l_levels]. split; [constructor|]. split; [exact Hrest|].
    destruct m as [|e0 m']; [exact C|].
    destruct (l_levels d) as [|l0 ls]; cbn [add_l0].
    + split; [constructor; [exact Hm|constructor]|constructor].
    + destruct C as [C1 C2]. split; [|exact C2]. apply Forall_app. split; [exact C1|]. constructor; [exact Hm|constructor].
Qed.

Lemma room_db_wf d b : lsm_wf d -> lsm_wf (room_db d b).
Proof.
  intros H. unfold room_db. apply GcProofs.apply_entries_wf. destruct (fst b); [apply flush_rotate_wf|]; exact H.
Qed.

Lemma room_db_get d b k ts : lsm_wf d ->
  db_get (room_db d b) k ts = fold_left (GcProofs.win1 k ts) (snd b) (db_get d k ts).
Proof.
  intros H. unfold room_db. rewrite GcProofs.db_get_puts.
  - destruct (fst b); [|reflexivity]. rewrite db_get_flush_oldest, db_get_rotate. reflexivity.
  - destruct (fst b); [apply flush_rotate_wf|]; exact H.
Qed.

Theorem write_all_get bs : forall d k ts, lsm_wf d ->
  db_get (write_all d bs) k ts = fold_left (GcProofs.win1 k ts) (concat (map snd bs)) (db_get d k ts).
Proof.
  unfold write_all. induction bs as [|b bs IH]; intros d k ts H; cbn [fold_left map concat]; [reflexivity|].
  rewrite IH by (apply room_db_wf; exact H). rewrite room_db_get by exact H. rewrite fold_left_app. reflexivity.
Qed.

(* --- the merged view --- *)
Lemma mt_put_in_iff s e x : ssorted s -> (In x (mt_put s e) <-> x = e \/ (In x s /\ ent_cmp x e <> Eq)).
Proof.
  induction s as [|y r IH]; intros Hs; cbn [mt_put].
  - cbn. split; [intros [<-|[]]; auto|intros [->|[[] _]]; auto].
  - destruct (ssorted_cons_inv _ _ Hs) as [Hr Hy]. rewrite Forall_forall in Hy.
    destruct (ent_cmp e y) eqn:C.
    + (* e replaces y; the rest is strictly above y, hence not Eq to e *)
      cbn [In]. split.
      * intros [<-|H]; [auto|]. right. split; [auto|].
        specialize (Hy _ H). unfold elt in Hy. rewrite ent_cmp_antisym, (ent_cmp_eq_l _ _ _ C), Hy. discriminate.
      * intros [->|[[<-|H] Hne]]; [auto| |auto].
        exfalso. apply Hne. rewrite ent_cmp_antisym, C. reflexivity.
    + cbn [In]. split.
      * intros [<-|[<-|H]]; [auto| |].
        -- right. split; [auto|]. rewrite ent_cmp_antisym, C. discriminate.
        -- right. split; [auto|]. assert (L : elt e x) by (eapply elt_trans; [exact C|apply Hy; exact H]).
           unfold elt in L. rewrite ent_cmp_antisym, L. discriminate.
      * intros [->|[H _]]; auto.
    + cbn [In]. rewrite (IH Hr). split.
      * intros [<-|[->|[H Hne]]]; auto.
        right. split; [auto|]. rewrite ent_cmp_antisym, C. discriminate.
      * intros [->|[[<-|H] Hne]]; auto.
Qed.

Lemma nocol_mt_put a e x : ssorted a -> (nocol (mt_put a e) x <-> nocol a x /\ ent_cmp e x <> Eq).
Proof.
  intros Ha. unfold nocol. split.
  - intros H. split.
    + intros z Hz Ez. destruct (ent_cmp z e) eqn:C.
      * apply (H e); [apply (mt_put_in_iff a e e Ha); auto|].
        rewrite <- (ent_cmp_eq_l _ _ _ C). exact Ez.
      * apply (H z); [apply (mt_put_in_iff a e z Ha); right; split; [exact Hz|rewrite C; discriminate]|exact Ez].
      * apply (H z); [apply (mt_put_in_iff a e z Ha); right; split; [exact Hz|rewrite C; discriminate]|exact Ez].
    + apply H. apply (mt_put_in_iff a e e Ha). auto.
  - intros [H1 H2] z Hz. apply (mt_put_in_iff a e z Ha) in Hz. destruct Hz as [->|[Hz _]]; auto.
Qed.

Lemma merge2_mt_put a b e : ssorted a -> ssorted b -> merge2 (mt_put a e) b = mt_put (merge2 a b) e.
Proof.
  intros Ha Hb.
  assert (Hpa : ssorted (mt_put a e)) by (apply LevelsWfProofs.mt_put_sorted; exact Ha).
  assert (Hm : ssorted (merge2 a b)) by (apply EntOrderProofs.merge2_sorted; assumption).
  apply ssorted_ext; [apply EntOrderProofs.merge2_sorted; assumption|apply LevelsWfProofs.mt_put_sorted; exact Hm|].
  intros x. rewrite (merge2_spec _ _ x Hpa Hb), (mt_put_in_iff _ e x Hm), (merge2_spec _ _ x Ha Hb),
    (mt_put_in_iff _ e x Ha), (nocol_mt_put a e x Ha).
  assert (Hsym : ent_cmp e x <> Eq <-> ent_cmp x e <> Eq).
  { rewrite (ent_cmp_antisym x e). destruct (ent_cmp x e); cbn; split; intros H; try discriminate; try (exfalso; apply H; reflexivity). }
  tauto.
Qed.

Definition srcs_sorted (d : lsm) : Prop := Forall ssorted (all_srcs d).

Lemma merged_apply_entries d es : srcs_sorted d ->
  merged (apply_entries d es) = fold_left mt_put es (merged d) /\ srcs_sorted (apply_entries d es).
Proof.
  unfold srcs_sorted, merged, all_srcs, apply_entries. cbn [l_mt l_imm l_levels].
  set (R := rev (l_imm d) ++ levels_srcs 0 (l_levels d)). intros H. inversion H as [|? ? Hmt HR]; subst.
  assert (HRs : ssorted (merge_all R)) by (apply EntOrderProofs.merge_all_sorted; exact HR).
  unfold merge_all in *. cbn [fold_right]. set (M := fold_right merge2 [] R) in *.
  clear H. revert Hmt. generalize (l_mt d). induction es as [|e es IH]; intros mt Hmt; cbn [fold_left].
  - split; [reflexivity|constructor; assumption].
  - destruct (IH (mt_put mt e) (LevelsWfProofs.mt_put_sorted _ _ Hmt)) as [IH1 IH2]. split; [|exact IH2].
    rewrite IH1, (merge2_mt_put mt M e Hmt HRs). reflexivity.
Qed.

Lemma all_srcs_flush_rotate d id :
  all_srcs (flush_oldest (rotate d) id) = [] :: all_srcs d \/
  exists a b, all_srcs d = a ++ [] :: b /\ all_srcs (flush_oldest (rotate d) id) = [] :: a ++ b.
Proof.
  unfold flush_oldest, rotate, all_srcs. cbn [l_imm l_mt l_levels].
  destruct (l_imm d ++ [l_mt d]) as [|m rest] eqn:E; [destruct (l_imm d); discriminate|].
  assert (Erev : rev (l_imm d ++ [l_mt d]) = l_mt d :: rev (l_imm d)) by (rewrite rev_app_distr; reflexivity).
  rewrite E in Erev. cbn [rev] in Erev. cbn [l_mt l_imm l_levels].
  destruct m as [|e0 m'].
  - right. exists (rev rest), (levels_srcs 0 (l_levels d)). split.
    + rewrite app_comm_cons, <- Erev, <- app_assoc. reflexivity.
    + reflexivity.
  - left. f_equal.
    assert (Hl : levels_srcs 0 (add_l0 (l_levels d) (mkT id (e0 :: m'))) = (e0 :: m') :: levels_srcs 0 (l_levels d)).
    { destruct (l_levels d) as [|l0 ls]; cbn [add_l0 levels_srcs level_src]; [reflexivity|].
      rewrite rev_app_distr. reflexivity. }
    rewrite Hl. rewrite app_comm_cons, <- Erev. rewrite <- app_assoc. reflexivity.
Qed.

Lemma flush_rotate_sorted d id : srcs_sorted d -> srcs_sorted (flush_oldest (rotate d) id).
Proof.
  unfold srcs_sorted. intros H. destruct (all_srcs_flush_rotate d id) as [E|(a & b & E1 & E2)].
  - rewrite E. constructor; [apply ssorted_nil|exact H].
  - rewrite E2. rewrite E1 in H. apply Forall_app in H. destruct H as [Ha Hb]. inversion Hb; subst.
    constructor; [apply ssorted_nil|]. apply Forall_app. split; assumption.
Qed.

Lemma room_db_merged d b : srcs_sorted d ->
  merged (room_db d b) = fold_left mt_put (snd b) (merged d) /\ srcs_sorted (room_db d b).
Proof.
  intros H. unfold room_db. destruct (fst b) as [id|].
  - destruct (merged_apply_entries (flush_oldest (rotate d) id) (snd b) (flush_rotate_sorted d id H)) as [A B].
    split; [|exact B]. rewrite A, merged_flush_oldest, merged_rotate. reflexivity.
  - apply merged_apply_entries. exact H.
Qed.

Theorem write_all_merged bs : forall d, srcs_sorted d ->
  merged (write_all d bs) = fold_left mt_put (concat (map snd bs)) (merged d).
Proof.
  unfold write_all. induction bs as [|b bs IH]; intros d H; cbn [fold_left map concat]; [reflexivity|].
  destruct (room_db_merged d b H) as [A B]. rewrite (IH _ B), A, fold_left_app. reflexivity.
Qed.

(* the same requests, rotations anywhere: every Get and the merged view (what every iterator
   is computed from) are the same *)
Theorem reads_indep_of_rotations d bs bs' :
  lsm_wf d -> srcs_sorted d -> map snd bs = map snd bs' ->
  (forall k ts, db_get (write_all d bs) k ts = db_get (write_all d bs') k ts) /\
  merged (write_all d bs) = merged (write_all d bs').
Proof.
  intros Hw Hs E. split.
  - intros k ts. rewrite !write_all_get by exact Hw. rewrite E. reflexivity.
  - rewrite !write_all_merged by exact Hs. rewrite E. reflexivity.
Qed.

Lemma empty_db_ok n : lsm_wf (mkLsm [] [] (repeat [] n)) /\ srcs_sorted (mkLsm [] [] (repeat [] n)).
Proof.
  split.
  - unfold lsm_wf. cbn. split; [constructor|]. split; [constructor|].
    destruct n; cbn; [exact I|]. split; [constructor|]. apply Forall_forall. intros l Hl. apply repeat_spec in Hl. subst.
    unfold level_ok. cbn. split; constructor.
  - unfold srcs_sorted, all_srcs. cbn. constructor; [apply ssorted_nil|].
    assert (H : forall lvl, Forall ssorted (levels_srcs lvl (repeat [] n))).
    { induction n as [|n IH]; intros lvl; cbn; [constructor|]. destruct lvl; cbn; [apply IH|].
      constructor; [apply ssorted_nil|apply IH]. }
    apply H.
Qed.

(* what a transaction reads is a function of db_get / merged of the tree *)
Lemma txn_get_ext s1 s2 x k :
  (forall ts, db_get (s_db s1) k ts = db_get (s_db s2) k ts) -> s_now s1 = s_now s2 ->
  txn_get s1 x k = txn_get s2 x k.
Proof. intros H Hn. unfold txn_get. rewrite H, Hn. reflexivity. Qed.

Lemma txn_iterate_ext s1 s2 x o seek :
  merged (s_db s1) = merged (s_db s2) -> s_now s1 = s_now s2 -> txn_iterate s1 x o seek = txn_iterate s2 x o seek.
Proof. intros H Hn. unfold txn_iterate. rewrite H, Hn. reflexivity. Qed.
