(* Sys.v — the composed system for sequential histories: oracle, transactions, write path,
   flush, compaction, discard timestamp.  `exec` replays a history whose labels carry what the
   implementation observed and reports the first label on which the model disagrees. *)
From Verif Require Import Bytes Keys Consts Spec Lsm Compact Iter.
Open Scope N_scope.

Record txn := mkTxn {
  x_read : N; x_update : bool; x_reads : list bytes;
  x_pend : list (bytes * entry);      (* pendingWrites, in first-insertion order *)
  x_dups : list entry;                (* duplicateWrites, in append order *)
  x_done : bool }.

Record sys := mkSys {
  s_db : lsm;
  s_next : N;                          (* oracle.nextTxnTs *)
  s_committed : list (N * list bytes); (* committedTxns: (commit ts, keys written) *)
  s_txns : list (N * txn);
  s_managed : bool;
  s_detect : bool;
  s_nkeep : N;
  s_discard : N;                       (* managed: SetDiscardTs *)
  s_writes : list entry;               (* ghost: every applied write, in application order *)
  s_now : N }.

Definition init_sys (managed detect : bool) (nkeep : N) (nlevels : nat) (next : N) : sys :=
  mkSys (mkLsm [] [] (repeat [] nlevels)) next [] [] managed detect nkeep 0 [] 0.

Fixpoint lookup {A} (l : list (N * A)) (i : N) : option A :=
  match l with [] => None | (j, a) :: r => if j =? i then Some a else lookup r i end.
Fixpoint update {A} (l : list (N * A)) (i : N) (a : A) : list (N * A) :=
  match l with
  | [] => [(i, a)]
  | (j, b) :: r => if j =? i then (i, a) :: r else (j, b) :: update r i a
  end.
Fixpoint klookup (l : list (bytes * entry)) (k : bytes) : option entry :=
  match l with [] => None | (j, a) :: r => if bytes_eqb j k then Some a else klookup r k end.
Fixpoint kupdate (l : list (bytes * entry)) (k : bytes) (a : entry) : list (bytes * entry) :=
  match l with
  | [] => [(k, a)]
  | (j, b) :: r => if bytes_eqb j k then (k, a) :: r else (j, b) :: kupdate r k a
  end.

(* ---- reads ---- *)
Inductive getres := GFound (e : entry) | GNotFound | GErr (code : N).

Definition with_ver (e : entry) (v : N) : entry :=
  mkE (e_key e) v (e_meta e) (e_umeta e) (e_exp e) (e_val e).

(* Txn.Get: pending write first (update txns), else db.get at readTs *)
Definition txn_get (s : sys) (x : txn) (k : bytes) : getres * txn :=
  match k with
  | [] => (GErr 1, x)                                   (* ErrEmptyKey *)
  | _ =>
    if x_done x then (GErr 2, x)                        (* ErrDiscardedTxn *)
    else
      match (if x_update x then klookup (x_pend x) k else None) with
      | Some e => if deleted_or_expired e (s_now s) then (GNotFound, x)
                  else (GFound (with_ver e (x_read x)), x)
      | None =>
          let x' := if x_update x then mkTxn (x_read x) (x_update x) (k :: x_reads x) (x_pend x) (x_dups x) (x_done x) else x in
          match db_get (s_db s) k (x_read x) with
          | Some e => if deleted_or_expired e (s_now s) then (GNotFound, x') else (GFound e, x')
          | None => (GNotFound, x')
          end
      end
  end.

(* the pending-writes iterator: entries at version readTs, sorted by user key *)
Fixpoint ins_key (e : entry) (l : src) : src :=
  match l with
  | [] => [e]
  | x :: r => match lex_cmp (e_key e) (e_key x) with Lt => e :: l | Eq => e :: r | Gt => x :: ins_key e r end
  end.
Definition pend_src (x : txn) : src :=
  if x_update x then fold_left (fun acc ke => ins_key (with_ver (snd ke) (x_read x)) acc) (x_pend x) [] else [].

Definition txn_iterate (s : sys) (x : txn) (o : iopts) (seek : bytes) : list entry :=
  iterate o (x_read x) (s_now s) (fun _ => false)
          (merge2 (pend_src x) (merged (s_db s))) seek.

(* ---- writes ---- *)
(* Txn.modify, validation abstracted to the cases sequential histories exercise *)
Definition txn_modify (x : txn) (e : entry) : N * txn :=
  if negb (x_update x) then (3, x)                      (* ErrReadOnlyTxn *)
  else if x_done x then (2, x)
  else match e_key e with
       | [] => (1, x)
       | _ =>
         if is_prefix c_badgerPrefix (e_key e) then (4, x)   (* ErrInvalidKey *)
         else
           let dups := match klookup (x_pend x) (e_key e) with
                       | Some old => if e_ver old =? e_ver e then x_dups x else x_dups x ++ [old]
                       | None => x_dups x
                       end in
           (0, mkTxn (x_read x) (x_update x) (x_reads x) (kupdate (x_pend x) (e_key e) e) dups (x_done x))
       end.

Definition has_conflict (s : sys) (x : txn) : bool :=
  existsb (fun cw => (x_read x <? fst cw) && existsb (fun r => existsb (bytes_eqb r) (snd cw)) (x_reads x))
          (s_committed s).

Definition stamp (ts : N) (e : entry) : entry := if e_ver e =? 0 then with_ver e ts else e.

(* commitAndSend + writeToLSM in one atomic step (sequential histories): entries are emitted
   duplicateWrites first (earlier writes of re-written keys, in call order), then
   pendingWrites (the latest write of every key), each Put into the memtable in that order
   (order after the repair of finding F3) *)
Definition commit_entries (x : txn) (ts : N) : list entry :=
  map (stamp ts) (x_dups x) ++ map (fun ke => stamp ts (snd ke)) (x_pend x).

Definition apply_entries (d : lsm) (es : list entry) : lsm :=
  mkLsm (fold_left mt_put es (l_mt d)) (l_imm d) (l_levels d).

Definition discard_txn (x : txn) : txn := mkTxn (x_read x) (x_update x) (x_reads x) (x_pend x) (x_dups x) true.

(* result code: 0 ok, 1 ErrConflict, 5 "Trying to commit a discarded txn", 6 CommitTs zero *)
Definition txn_commit (s : sys) (t : N) (x : txn) (cts : N) : N * N * sys :=
  match x_pend x with
  | [] => (0, 0, mkSys (s_db s) (s_next s) (s_committed s) (update (s_txns s) t (discard_txn x))
                       (s_managed s) (s_detect s) (s_nkeep s) (s_discard s) (s_writes s) (s_now s))
  | _ =>
    if x_done x then (5, 0, s)
    else if s_detect s && has_conflict s x then
      (1, 0, mkSys (s_db s) (s_next s) (s_committed s) (update (s_txns s) t (discard_txn x))
                   (s_managed s) (s_detect s) (s_nkeep s) (s_discard s) (s_writes s) (s_now s))
    else
      let ts := if s_managed s then cts else s_next s in
      let next' := if s_managed s then s_next s else s_next s + 1 in
      let es := commit_entries x ts in
      let comm := if s_detect s then s_committed s ++ [(ts, map fst (x_pend x))] else s_committed s in
      (0, ts, mkSys (apply_entries (s_db s) es) next' comm (update (s_txns s) t (discard_txn x))
                    (s_managed s) (s_detect s) (s_nkeep s) (s_discard s) (s_writes s ++ es) (s_now s))
  end.

(* ---- history labels (each carries what the implementation observed) ---- *)
Inductive op :=
| Begin (t : N) (upd : bool) (rts : N)
| Modify (t : N) (e : entry) (r : N)
| Get (t : N) (k : bytes) (r : getres)
| Iterate (t : N) (o : iopts) (seek : bytes) (items : list entry)
| Commit (t : N) (cts : N) (r : N)
| Discard (t : N)
| Flush (id : N)
| Compact (c : compaction) (out : list entry)
| SetDiscard (ts : N)
| SetNow (n : N)
| Dump (levels : list (list (N * list entry)))
| MaxVersion (v : N).

Definition set_db (s : sys) (d : lsm) : sys :=
  mkSys d (s_next s) (s_committed s) (s_txns s) (s_managed s) (s_detect s) (s_nkeep s) (s_discard s) (s_writes s) (s_now s).
Definition set_txn (s : sys) (t : N) (x : txn) : sys :=
  mkSys (s_db s) (s_next s) (s_committed s) (update (s_txns s) t x) (s_managed s) (s_detect s) (s_nkeep s) (s_discard s) (s_writes s) (s_now s).

Definition getres_eqb (a b : getres) : bool :=
  match a, b with
  | GFound x, GFound y => entry_eqb x y
  | GNotFound, GNotFound => true
  | GErr x, GErr y => x =? y
  | _, _ => false
  end.
Fixpoint entries_eqb (a b : list entry) : bool :=
  match a, b with
  | [], [] => true
  | x :: a', y :: b' => entry_eqb x y && entries_eqb a' b'
  | _, _ => false
  end.

Definition dump_eqb (ls : list (list table)) (d : list (list (N * list entry))) : bool :=
  (fix f (a : list (list table)) (b : list (list (N * list entry))) : bool :=
     match a, b with
     | [], [] => true
     | l :: a', m :: b' =>
         (fix g (x : list table) (y : list (N * list entry)) : bool :=
            match x, y with
            | [], [] => true
            | t :: x', (i, es) :: y' => (t_id t =? i) && entries_eqb (t_ents t) es && g x' y'
            | _, _ => false
            end) l m && f a' b'
     | _, _ => false
     end) ls d.

Definition max_version (d : lsm) : N :=
  fold_left (fun m e => N.max m (e_ver e)) (merged d) 0.

(* ---- the picker relation (levels.go fillTablesL0ToLbase / fillTablesL0ToL0 / fillTables /
   fillMaxLevelTables), as decidable checks on a Compact label in its pre-state ---- *)
Definition user_range (ts_ : list table) : option (bytes * bytes) :=
  match tables_min_key ts_, tables_max_key ts_ with
  | Some lo, Some hi => Some (lo, hi)
  | _, _ => None
  end.

(* L0 -> Lbase: the longest prefix of the L0 list in which each table intersects the union
   of the previous ones (keyRange.overlapsWith on the running range) *)
Fixpoint l0_chain (l0 : list table) (acc : list table) : list table :=
  match l0 with
  | [] => acc
  | t :: r =>
      match user_range acc with
      | None => l0_chain r (acc ++ [t])
      | Some (lo, hi) => if table_overlaps lo hi t then l0_chain r (acc ++ [t]) else acc
      end
  end.

Definition ids_of (l : list table) : list N := map t_id l.
Fixpoint ids_eqb (a b : list N) : bool :=
  match a, b with
  | [], [] => true
  | x :: a', y :: b' => (x =? y) && ids_eqb a' b'
  | _, _ => false
  end.

Definition overlapping (lo hi : bytes) (l : list table) : list table := filter (table_overlaps lo hi) l.

(* levels strictly between a and b are empty *)
Fixpoint levels_between_empty (ls : list (list table)) (lvl a b : nat) : bool :=
  match ls with
  | [] => true
  | l :: r => (if (a <? lvl)%nat && (lvl <? b)%nat then match l with [] => true | _ => false end else true)
              && levels_between_empty r (S lvl) a b
  end.

(* reason codes: 0 = legal *)
Definition pick_check (ls : list (list table)) (c : compaction) : N :=
  let this := nth (c_this c) ls [] in
  let next := nth (c_next c) ls [] in
  let top := pick_tables (c_top c) this in
  let bot := pick_tables (c_bot c) next in
  if negb (ids_eqb (ids_of top) (c_top c)) then 101            (* top ids exist, in level order *)
  else if negb (ids_eqb (ids_of bot) (c_bot c)) then 102
  else match c_top c with [] => 103 | _ =>
  match c_this c, c_next c with
  | O, O =>                                                     (* L0 -> L0 *)
      if (length top <? 4)%nat then 110 else match c_bot c with [] => 0 | _ => 111 end
  | O, S _ =>                                                   (* L0 -> Lbase *)
      if negb (match c_drop c with [] => ids_eqb (ids_of (l0_chain this [])) (c_top c)
                                | _ => ids_eqb (ids_of this) (c_top c) end) then 120
      else if negb (levels_between_empty ls 0 0 (c_next c)) then 2011   (* NoSkip: finding F11 *)
      else match user_range top with
           | Some (lo, hi) => if ids_eqb (ids_of (overlapping lo hi next)) (c_bot c) then 0 else 121
           | None => 122
           end
  | S _, _ =>
      if (c_this c =? c_next c)%nat then                        (* Lmax -> Lmax *)
        if (S (c_this c) =? length ls)%nat then 0 else 130
      else if negb (S (c_this c) =? c_next c)%nat then 131
      else if negb (length top =? 1)%nat then 132
      else match user_range top with
           | Some (lo, hi) => if ids_eqb (ids_of (overlapping lo hi next)) (c_bot c) then 0 else 133
           | None => 134
           end
  end end.

(* bookkeeping checks on what the implementation reports about a compaction's outputs *)
Definition all_ids (ls : list (list table)) : list N := map t_id (concat ls).
Fixpoint ids_nodup (l : list N) : bool :=
  match l with [] => true | x :: r => negb (existsb (N.eqb x) r) && ids_nodup r end.
Definition layout_ok (ls : list (list table)) (c : compaction) (out : src) : bool :=
  (fold_left (fun a ic => a + N.to_nat (snd ic))%nat (c_layout c) O =? length out)%nat
  && forallb (fun ic => negb (snd ic =? 0) && negb (existsb (N.eqb (fst ic)) (all_ids ls))) (c_layout c)
  && ids_nodup (map fst (c_layout c)).
Definition order_ok (order : list N) (nl : list table) : bool :=
  (length order =? length nl)%nat && forallb (fun t => existsb (N.eqb (t_id t)) order) nl
  && ids_nodup order.

Inductive result := Ok (s : sys) | Bad (code : N).

(* one label: Bad = the model disagrees with the observation carried by the label
   (code 1 = observation differs; >= 100 = the compaction pick is outside the picker relation) *)
Definition step (s : sys) (o : op) : result :=
  match o with
  | Begin t upd rts =>
      if s_managed s || (rts =? s_next s - 1)
      then Ok (set_txn s t (mkTxn rts upd [] [] [] false)) else Bad 1
  | Modify t e r =>
      match lookup (s_txns s) t with
      | Some x => let '(r', x') := txn_modify x e in if r' =? r then Ok (set_txn s t x') else Bad 1
      | None => Bad 2
      end
  | Get t k r =>
      match lookup (s_txns s) t with
      | Some x => let '(r', x') := txn_get s x k in if getres_eqb r' r then Ok (set_txn s t x') else Bad 1
      | None => Bad 2
      end
  | Iterate t o seek items =>
      match lookup (s_txns s) t with
      | Some x =>
          let its := txn_iterate s x o seek in
          if entries_eqb its items then
            (* Iterator.Item() records every returned key as read; Seek(key) records the key *)
            let rd := (match seek with [] => [] | _ => [seek] end) ++ map e_key its in
            Ok (set_txn s t (if x_update x then mkTxn (x_read x) (x_update x) (rd ++ x_reads x) (x_pend x) (x_dups x) (x_done x) else x))
          else Bad 1
      | None => Bad 2
      end
  | Commit t cts r =>
      match lookup (s_txns s) t with
      | Some x => let '(r', ts, s') := txn_commit s t x cts in
                  if (r' =? r) && ((negb (r' =? 0)) || (ts =? 0) || (ts =? cts)) then Ok s' else Bad 1
      | None => Bad 2
      end
  | Discard t =>
      match lookup (s_txns s) t with
      | Some x => Ok (set_txn s t (discard_txn x))
      | None => Bad 2
      end
  | Flush id =>
      let d := rotate (s_db s) in
      Ok (set_db s (flush_oldest d id))
  | Compact c out =>
      let ls := l_levels (s_db s) in
      let pc := pick_check ls c in
      if negb (pc =? 0) then Bad pc
      else
      let res := compaction_output ls c in
      if entries_eqb res out then
        let ls' := apply_compaction ls c in
        if sorted_by_smallest (nth (c_next c) ls' []) || (length (nth (c_next c) ls' []) <=? 1)%nat
        then Ok (set_db s (mkLsm (l_mt (s_db s)) (l_imm (s_db s)) ls')) else Bad 3
      else Bad 1
  | SetDiscard ts =>
      Ok (mkSys (s_db s) (s_next s) (s_committed s) (s_txns s) (s_managed s) (s_detect s) (s_nkeep s) ts (s_writes s) (s_now s))
  | SetNow n =>
      Ok (mkSys (s_db s) (s_next s) (s_committed s) (s_txns s) (s_managed s) (s_detect s) (s_nkeep s) (s_discard s) (s_writes s) n)
  | Dump d => if dump_eqb (l_levels (s_db s)) d then Ok s else Bad 1
  | MaxVersion v => if max_version (s_db s) =? v then Ok s else Bad 1
  end.

(* the bookkeeping conditions the tree-level theorems assume about what the implementation
   reports (fresh table ids, output layout covering the output exactly, the observed order a
   permutation of the level); checked on every label by the correspondence *)
Definition step_strict (s : sys) (o : op) : result :=
  match o with
  | Flush id =>
      if negb (id =? 0) && existsb (N.eqb id) (all_ids (l_levels (s_db s))) then Bad 142 else step s o
  | Compact c out =>
      let ls := l_levels (s_db s) in
      let res := compaction_output ls c in
      if negb (pick_check ls c =? 0) then step s o
      else if negb (layout_ok ls c res) then Bad 140
      else if negb (order_ok (c_order c)
                     (let nl := drop_tables (c_bot c) (nth (c_next c) ls []) ++ split_counts res (c_layout c) in
                      if (c_this c =? c_next c)%nat then drop_tables (c_top c) nl else nl)) then Bad 141
      else step s o
  | _ => step s o
  end.

(* replay: index of the first disagreeing label, or None when the whole history is accepted *)
Fixpoint exec (s : sys) (ops : list op) (i : N) : option (N * N) * sys :=
  match ops with
  | [] => (None, s)
  | o :: r => match step s o with
              | Ok s' => exec s' r (i + 1)
              | Bad code => (Some (i, code), s)
              end
  end.

Fixpoint exec_strict (s : sys) (ops : list op) (i : N) : option (N * N) * sys :=
  match ops with
  | [] => (None, s)
  | o :: r => match step_strict s o with
              | Ok s' => exec_strict s' r (i + 1)
              | Bad code => (Some (i, code), s)
              end
  end.
