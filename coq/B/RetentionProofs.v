(* RetentionProofs.v — what the compaction filter is guaranteed to keep (C13), as corollaries
   of the drop classification in CompactProofs.v *)
From Verif Require Import Bytes BytesProofs Keys Consts Spec Lsm Compact LsmProofs CompactProofs.
From Coq Require Import ZifyN ZifyNat ZifyBool Sorting.Sorted.
Open Scope N_scope.

Section Retention.
  Variable p : cparams.
  Hypothesis no_prefix : cp_drop p = [].

  (* no version newer than the discard watermark is ever removed *)
  Theorem keeps_above_discard m e :
    sorted m -> In e m -> cp_discard p < e_ver e -> In e (compact_filter p m).
  Proof.
    intros Hs He Hv. destruct (filter_class p no_prefix m Hs e He) as [H|[H|H]]; auto.
    - destruct H as (mk & _ & _ & A & B). lia.
    - destruct H as ((A & _) & _). lia.
  Qed.

  (* a merge-operator entry is never dropped on its own account: only behind a newer
     retention-ending entry at or below the watermark *)
  Theorem merge_entry_dropped_only_behind_marker m e :
    sorted m -> In e m -> is_merge e = true -> ~ In e (compact_filter p m) ->
    exists mk, In mk m /\ e_key mk = e_key e /\ e_ver e < e_ver mk /\ e_ver mk <= cp_discard p.
  Proof.
    intros Hs He Hm Hn. destruct (filter_class p no_prefix m Hs e He) as [H|[H|H]]; auto.
    - contradiction.
    - destruct H as ((_ & A & _) & _). congruence.
  Qed.

  (* a live (not deleted, not expired) entry is dropped only behind a newer entry of its key at
     or below the watermark; deletion markers and expired entries additionally when nothing
     below overlaps *)
  Theorem live_entry_dropped_only_behind_marker m e :
    sorted m -> In e m -> deleted_or_expired e (cp_now p) = false -> ~ In e (compact_filter p m) ->
    exists mk, In mk m /\ e_key mk = e_key e /\ e_ver e < e_ver mk /\ e_ver mk <= cp_discard p.
  Proof.
    intros Hs He Hl Hn. destruct (filter_class p no_prefix m Hs e He) as [H|[H|H]]; auto.
    - contradiction.
    - destruct H as ((_ & _ & A) & _). congruence.
  Qed.

  (* with overlap below, markers are never dropped either: only the skip rule removes entries *)
  Theorem with_overlap_only_skip m e :
    cp_overlap p = true -> sorted m -> In e m -> ~ In e (compact_filter p m) ->
    exists mk, In mk m /\ e_key mk = e_key e /\ e_ver e < e_ver mk /\ e_ver mk <= cp_discard p.
  Proof.
    intros Ho Hs He Hn. destruct (filter_class p no_prefix m Hs e He) as [H|[H|H]]; auto.
    - contradiction.
    - destruct H as (_ & A & _). congruence.
  Qed.

  (* the output is a sub-sequence of the input: nothing is invented or reordered *)
  Theorem output_from_input m e : In e (compact_filter p m) -> In e m.
  Proof. apply filter_run_sub. Qed.
End Retention.
