(* BatchSplitProofs.v — C27, SPLIT INVARIANCE of a WriteBatch (batch.go).
   A WriteBatch keeps one internal update transaction; a call that does not fit
   (ErrTxnTooBig from Txn.modify/checkSize) makes WriteBatch.handleEntry / Delete commit the
   transaction (WriteBatch.commit: txn.CommitWith, then db.newTransaction with the batch's
   commitTs) and re-apply THAT call on the fresh transaction.  So the calls of a batch are cut
   into consecutive groups, one internal transaction each, committed in order
   (commitAndSend holds orc.writeChLock, the write channel keeps the order).
     normal mode        : every group commits at a fresh, larger timestamp;
     NewWriteBatchAt(t) : every group commits at t;
     managed batches    : entries carry explicit versions (commit ts 0 keeps them: Sys.stamp).
   Here: whatever the cut, key@version holds the LAST call stored under it (mode-independent);
   hence the result does not depend on the cut when all groups commit at one timestamp or all
   entries carry explicit versions; and in normal mode the newest version of every key is the
   last call on that key, earlier calls surviving only as strictly older versions. *)
From Verif Require Import Bytes BytesProofs Keys C20Proofs Consts Spec Lsm Compact Iter Sys SysProofs
  MergeProofs CompactProofs GetProofs EntOrderProofs LevelsWfProofs IterOrderProofs BatchProofs.
From Coq Require Import ZifyN ZifyNat ZifyBool Sorting.Sorted.
Open Scope N_scope.

(* ---- the batch ---- *)
(* db.newTransaction(true, isManaged): a fresh update transaction (its read timestamp plays no
   role for what it commits: group_entries_any_txn below) *)
Definition batch_txn : txn := mkTxn 0 true [] [] [] false.

(* what one internal transaction hands to the write path: all calls of the group go through
   Txn.modify, then commitAndSend emits duplicateWrites ++ pendingWrites stamped with ts *)
Definition group_entries (g : list entry) (ts : N) : list entry :=
  commit_entries (modifies batch_txn g) ts.

(* the groups are committed in order, each one's entries Put into the memtable in order *)
Fixpoint run_batch (groups : list (list entry)) (tss : list N) (s : src) : src :=
  match groups, tss with
  | g :: gs, ts :: tr => run_batch gs tr (fold_left mt_put (group_entries g ts) s)
  | _, _ => s
  end.

(* Txn.modify accepts the call (the two rejections sequential batches exercise: ErrEmptyKey,
   ErrInvalidKey; WriteBatch.handleEntry returns such an error to the caller WITHOUT recording it,
   so Flush still returns nil and the call is simply not part of the batch) *)
Definition call_ok (e : entry) : bool :=
  match e_key e with [] => false | _ => negb (is_prefix c_badgerPrefix (e_key e)) end.

(* the accepted calls of the whole batch, in call order, each stamped with the commit
   timestamp of the group it ended up in *)
Fixpoint stamped_calls (groups : list (list entry)) (tss : list N) : list entry :=
  match groups, tss with
  | g :: gs, ts :: tr => map (stamp ts) (filter call_ok g) ++ stamped_calls gs tr
  | _, _ => []
  end.

(* the same, keeping every call (accepted or not) paired with its group's commit timestamp *)
Fixpoint tagged (groups : list (list entry)) (tss : list N) : list (N * entry) :=
  match groups, tss with
  | g :: gs, ts :: tr => map (pair ts) g ++ tagged gs tr
  | _, _ => []
  end.
Definition stamp_call (te : N * entry) : entry := stamp (fst te) (snd te).
Definition call_counts (te : N * entry) : bool := call_ok (snd te).

Definition on_key (k : bytes) (e : entry) : bool := bytes_eqb (e_key e) k.
Definition unver (e : entry) : entry := with_ver e 0.
Definition increasing (tss : list N) : Prop := StronglySorted N.lt tss.
Definition all_ver0 (groups : list (list entry)) : Prop := forall g e, In g groups -> In e g -> e_ver e = 0.
Definition all_explicit (groups : list (list entry)) : Prop := forall g e, In g groups -> In e g -> e_ver e <> 0.

(* ---- Txn.modify on a live update transaction: acceptance depends on the key only ---- *)
Lemma txn_modify_flags x e :
  x_update (snd (txn_modify x e)) = x_update x /\ x_done (snd (txn_modify x e)) = x_done x.
Proof.
  unfold txn_modify. destruct (x_update x) eqn:U; cbn [negb]; [|auto].
  destruct (x_done x) eqn:D; [auto|]. destruct (e_key e) as [|b0 k0]; [auto|].
  destruct (is_prefix c_badgerPrefix (b0 :: k0)); cbn [snd x_update x_done]; auto.
Qed.

Lemma txn_modify_code x e :
  x_update x = true -> x_done x = false -> (fst (txn_modify x e) =? 0) = call_ok e.
Proof.
  intros U D. unfold txn_modify, call_ok. rewrite U, D. cbn [negb].
  destruct (e_key e) as [|b0 k0]; [reflexivity|].
  destruct (is_prefix c_badgerPrefix (b0 :: k0)); reflexivity.
Qed.

Lemma accepted_calls_filter x es :
  x_update x = true -> x_done x = false -> accepted_calls x es = filter call_ok es.
Proof.
  revert x. induction es as [|e es IH]; intros x U D; cbn [accepted_calls filter]; auto.
  pose proof (txn_modify_code x e U D) as Hc. pose proof (txn_modify_flags x e) as [F1 F2].
  destruct (txn_modify x e) as [c x'] eqn:E. cbn [fst snd] in Hc, F1, F2.
  rewrite Hc, (IH x') by congruence. destruct (call_ok e); reflexivity.
Qed.

Lemma accepted_calls_batch g : accepted_calls batch_txn g = filter call_ok g.
Proof. now apply accepted_calls_filter. Qed.

Lemma pend_ok_batch_txn : pend_ok batch_txn.
Proof. split; [constructor|intros kk e []]. Qed.

(* the transaction's read timestamp and read set do not influence what it commits *)
Lemma txn_modify_agree x y e :
  x_update x = x_update y -> x_done x = x_done y -> x_pend x = x_pend y -> x_dups x = x_dups y ->
  x_update (snd (txn_modify x e)) = x_update (snd (txn_modify y e)) /\
  x_done (snd (txn_modify x e)) = x_done (snd (txn_modify y e)) /\
  x_pend (snd (txn_modify x e)) = x_pend (snd (txn_modify y e)) /\
  x_dups (snd (txn_modify x e)) = x_dups (snd (txn_modify y e)).
Proof.
  intros A B C D. unfold txn_modify. rewrite <- A, <- B, <- C, <- D.
  destruct (x_update x) eqn:U; cbn [negb snd]; [|rewrite U; auto].
  destruct (x_done x) eqn:Dn; cbn [snd]; [rewrite U, Dn; auto|].
  destruct (e_key e) as [|b0 k0]; cbn [snd]; [rewrite U, Dn; auto|].
  destruct (is_prefix c_badgerPrefix (b0 :: k0)); cbn [snd x_update x_done x_pend x_dups]; [rewrite U, Dn|]; auto.
Qed.

Lemma modifies_agree es : forall x y,
  x_update x = x_update y -> x_done x = x_done y -> x_pend x = x_pend y -> x_dups x = x_dups y ->
  x_pend (modifies x es) = x_pend (modifies y es) /\ x_dups (modifies x es) = x_dups (modifies y es).
Proof.
  induction es as [|e es IH]; intros x y A B C D; cbn [modifies]; auto.
  destruct (txn_modify_agree x y e A B C D) as (A' & B' & C' & D'). now apply IH.
Qed.

Lemma group_entries_any_txn x0 g ts :
  x_update x0 = true -> x_done x0 = false -> x_pend x0 = [] -> x_dups x0 = [] ->
  commit_entries (modifies x0 g) ts = group_entries g ts.
Proof.
  intros A B C D. unfold group_entries, commit_entries.
  destruct (modifies_agree g x0 batch_txn A B C D) as [P Q]. now rewrite P, Q.
Qed.

(* ---- last_match ---- *)
Lemma last_match_some {A} (f : A -> bool) l a : last_match f l = Some a -> In a l /\ f a = true.
Proof.
  induction l as [|x l IH]; cbn [last_match]; [discriminate|].
  destruct (last_match f l) as [y|].
  - intros [= <-]. destruct (IH eq_refl). split; [now right|auto].
  - destruct (f x) eqn:F; [|discriminate]. intros [= <-]. split; [now left|auto].
Qed.

Lemma last_match_none {A} (f : A -> bool) l : last_match f l = None -> forall x, In x l -> f x = false.
Proof.
  induction l as [|y l IH]; cbn [last_match]; [intros _ x []|].
  destruct (last_match f l) as [z|]; [discriminate|]. destruct (f y) eqn:F; [discriminate|].
  intros _ x [<-|Hx]; auto.
Qed.

Lemma last_match_none_intro {A} (f : A -> bool) l : (forall x, In x l -> f x = false) -> last_match f l = None.
Proof.
  intros H. destruct (last_match f l) as [a|] eqn:E; auto.
  apply last_match_some in E. destruct E as [Hin Hf]. rewrite (H a Hin) in Hf. discriminate.
Qed.

Lemma last_match_ext_in {A} (f g : A -> bool) l : (forall a, In a l -> f a = g a) -> last_match f l = last_match g l.
Proof.
  induction l as [|x l IH]; intros H; cbn [last_match]; auto.
  rewrite IH by (intros a Ha; apply H; now right). rewrite (H x) by now left. reflexivity.
Qed.

(* the last f-element is also the last g-element when g is a refinement of f that it satisfies *)
Lemma last_match_refine {A} (f g : A -> bool) l a :
  last_match f l = Some a -> (forall x, g x = true -> f x = true) -> g a = true -> last_match g l = Some a.
Proof.
  intros Hf Hgf Hga. induction l as [|x l IH]; cbn [last_match] in *; [discriminate|].
  destruct (last_match f l) as [y|] eqn:F.
  - injection Hf as ->. now rewrite (IH eq_refl).
  - destruct (f x) eqn:Fx; [|discriminate]. injection Hf as ->.
    rewrite (last_match_none_intro g l), Hga; auto.
    intros z Hz. destruct (g z) eqn:G; auto. apply Hgf in G. rewrite (last_match_none f l F z Hz) in G. discriminate.
Qed.

Definition ver_le (a b : entry) : Prop := e_ver a <= e_ver b.

(* in a list whose versions never decrease, the last f-element has the largest version among
   the f-elements *)
Lemma last_match_max (f : entry -> bool) L e' :
  StronglySorted ver_le L -> last_match f L = Some e' ->
  forall x, In x L -> f x = true -> e_ver x <= e_ver e'.
Proof.
  induction L as [|a L IH]; intros Hs Hl x Hx Hfx; [destruct Hx|].
  inversion Hs as [|? ? Hs' Ha]; subst. rewrite Forall_forall in Ha. cbn [last_match] in Hl.
  destruct (last_match f L) as [y|] eqn:F.
  - injection Hl as ->. destruct Hx as [<-|Hx]; [|now apply IH].
    apply last_match_some in F. destruct F as [Hy _]. exact (Ha _ Hy).
  - destruct (f a); [|discriminate]. injection Hl as ->. destruct Hx as [<-|Hx]; [lia|].
    rewrite (last_match_none f L F x Hx) in Hfx. discriminate.
Qed.

Lemma SSorted_app {A} (R : A -> A -> Prop) a b :
  StronglySorted R a -> StronglySorted R b -> (forall x y, In x a -> In y b -> R x y) -> StronglySorted R (a ++ b).
Proof.
  induction a as [|x a IH]; intros Ha Hb Hab; cbn [app]; auto.
  inversion Ha as [|? ? Ha' Hx]; subst. constructor.
  - apply IH; auto. intros u v Hu Hv. apply Hab; auto. now right.
  - apply Forall_app. split; auto. apply Forall_forall. intros y Hy. apply Hab; auto. now left.
Qed.

Lemma SSorted_const (l : list entry) c : (forall x, In x l -> e_ver x = c) -> StronglySorted ver_le l.
Proof.
  induction l as [|a l IH]; intros H; constructor.
  - apply IH. intros x Hx. apply H. now right.
  - apply Forall_forall. intros y Hy. unfold ver_le. rewrite (H a), (H y); [lia|now right|now left].
Qed.

Lemma filter_concat {A} (f : A -> bool) ls : filter f (concat ls) = concat (map (filter f) ls).
Proof. induction ls as [|l ls IH]; cbn [concat map filter]; auto. now rewrite filter_app, IH. Qed.

(* ---- key@version lookups in a strictly sorted source ---- *)
Lemma kv_match_self x : kv_match (e_key x) (e_ver x) x = true.
Proof. unfold kv_match. now rewrite bytes_eqb_refl, N.eqb_refl. Qed.

Lemma find_kv_in s k v x : find_kv s k v = Some x -> In x s /\ e_key x = k /\ e_ver x = v.
Proof.
  unfold find_kv. intros H. apply find_some in H. destruct H as [Hin Hm].
  unfold kv_match in Hm. apply andb_true_iff in Hm. destruct Hm as [M1 M2].
  apply bytes_eqb_eq in M1. apply N.eqb_eq in M2. auto.
Qed.

Lemma in_find_kv s x : ssorted s -> In x s -> find_kv s (e_key x) (e_ver x) = Some x.
Proof.
  intros Hs Hx. destruct (find_kv s (e_key x) (e_ver x)) as [y|] eqn:F.
  - apply find_kv_in in F. destruct F as (Hy & Hk & Hv). f_equal. apply (ssorted_nodup s Hs); auto.
  - unfold find_kv in F. pose proof (find_none _ _ F x Hx) as H. rewrite kv_match_self in H. discriminate.
Qed.

(* a strictly sorted list is determined by its elements *)
Lemma ssorted_same_elements l1 l2 :
  ssorted l1 -> ssorted l2 -> (forall e, In e l1 <-> In e l2) -> l1 = l2.
Proof.
  revert l2. induction l1 as [|a l1 IH]; intros l2 H1 H2 Hext.
  - destruct l2 as [|b l2]; auto. destruct (proj2 (Hext b)); now left.
  - destruct l2 as [|b l2]; [destruct (proj1 (Hext a)); now left|].
    destruct (ssorted_cons_inv _ _ H1) as [H1' Ha]. destruct (ssorted_cons_inv _ _ H2) as [H2' Hb].
    rewrite Forall_forall in Ha, Hb.
    assert (E: a = b).
    { destruct (proj1 (Hext a) (or_introl eq_refl)) as [E|Hin]; auto.
      destruct (proj2 (Hext b) (or_introl eq_refl)) as [E|Hin2]; auto.
      exfalso. exact (elt_irrefl a (elt_trans _ _ _ (Ha _ Hin2) (Hb _ Hin))). }
    subst b. f_equal. apply IH; auto. intros e. split; intros He.
    + destruct (proj1 (Hext e) (or_intror He)) as [<-|H]; auto. exfalso. exact (elt_irrefl _ (Ha _ He)).
    + destruct (proj2 (Hext e) (or_intror He)) as [<-|H]; auto. exfalso. exact (elt_irrefl _ (Hb _ He)).
Qed.

(* two strictly sorted sources answering every key@version lookup alike are the same list *)
Lemma find_kv_ext_eq a b :
  ssorted a -> ssorted b -> (forall k v, find_kv a k v = find_kv b k v) -> a = b.
Proof.
  intros Ha Hb H. apply ssorted_same_elements; auto. intros e. split; intros He.
  - pose proof (in_find_kv a e Ha He) as F. rewrite H in F. apply find_kv_in in F. tauto.
  - pose proof (in_find_kv b e Hb He) as F. rewrite <- H in F. apply find_kv_in in F. tauto.
Qed.

(* the point read of key k (skl.Get: newest version at or below rts) is determined by the
   key@version lookups of k *)
Lemma src_get_key_ext A B k rts :
  ssorted A -> ssorted B -> (forall v, find_kv A k v = find_kv B k v) -> src_get A k rts = src_get B k rts.
Proof.
  intros HA HB Hext. rewrite (src_get_newest A k rts HA), (src_get_newest B k rts HB).
  assert (Hin: forall X Y x, ssorted X -> (forall v, find_kv X k v = find_kv Y k v) ->
                             In x X -> e_key x = k -> In x Y).
  { intros X Y x HX HXY Hx Hk. pose proof (in_find_kv X x HX Hx) as F. rewrite Hk, HXY in F.
    apply find_kv_in in F. tauto. }
  assert (Hext': forall v, find_kv B k v = find_kv A k v) by (intros v; symmetry; apply Hext).
  destruct (newest A k rts) as [e|] eqn:E.
  - apply newest_some in E. destruct E as (Hi & Hk & Hv & Hmax). symmetry. apply newest_unique; auto.
    + now apply ssorted_nodup.
    + exact (Hin A B e HA Hext Hi Hk).
    + intros x Hx Hkx Hvx. apply Hmax; auto. exact (Hin B A x HB Hext' Hx Hkx).
  - destruct (newest B k rts) as [e|] eqn:E'; auto. exfalso.
    apply newest_some in E'. destruct E' as (Hi & Hk & Hv & _).
    apply (newest_none A k rts E e); auto. exact (Hin B A e HB Hext' Hi Hk).
Qed.

(* ==================================================================================== *)
(* 1. later call wins across splits (all modes)                                          *)
(* ==================================================================================== *)

(* one group = the one-transaction theorem of BatchProofs *)
Lemma group_later_wins g ts s k v :
  find_kv (fold_left mt_put (group_entries g ts) s) k v =
  match last_match (kv_match k v) (map (stamp ts) (filter call_ok g)) with
  | Some e => Some e
  | None => find_kv s k v
  end.
Proof.
  pose proof (commit_later_call_wins batch_txn g ts s k v pend_ok_batch_txn eq_refl eq_refl) as H.
  cbv zeta in H. unfold group_entries. rewrite H, accepted_calls_batch, last_match_map.
  destruct (last_match (fun a => kv_match k v (stamp ts a)) (filter call_ok g)); reflexivity.
Qed.

(* Theorem: however the calls were cut into internal transactions and whatever their commit
   timestamps, the memtable holds under key@version the LAST accepted call of the whole batch
   whose stamped entry has that key and that version (stamped with ITS group's timestamp) *)
Theorem batch_split_later_wins groups : forall tss s k v,
  find_kv (run_batch groups tss s) k v =
  match last_match (kv_match k v) (stamped_calls groups tss) with
  | Some e => Some e
  | None => find_kv s k v
  end.
Proof.
  induction groups as [|g gs IH]; intros [|ts tr] s k v; cbn [run_batch stamped_calls last_match]; auto.
  rewrite IH, last_match_app, group_later_wins.
  destruct (last_match (kv_match k v) (stamped_calls gs tr)); reflexivity.
Qed.

(* the call list behind `tagged` is the batch's call list, whatever the cut *)
Lemma tagged_calls groups : forall tss,
  length groups = length tss -> map snd (tagged groups tss) = concat groups.
Proof.
  induction groups as [|g gs IH]; intros [|ts tr] Hl; cbn [tagged concat map]; try discriminate; auto.
  cbn [length] in Hl. rewrite map_app, map_map, IH by lia. cbn [snd]. now rewrite map_id.
Qed.

Lemma tagged_ts groups : forall tss te, In te (tagged groups tss) -> In (fst te) tss.
Proof.
  induction groups as [|g gs IH]; intros [|ts tr] te; cbn [tagged]; try contradiction.
  intros H. apply in_app_or in H. destruct H as [H|H].
  - apply in_map_iff in H. destruct H as (e & <- & _). now left.
  - right. now apply IH.
Qed.

Lemma stamped_calls_tagged groups : forall tss,
  stamped_calls groups tss = map stamp_call (filter call_counts (tagged groups tss)).
Proof.
  induction groups as [|g gs IH]; intros [|ts tr]; cbn [stamped_calls tagged filter map]; auto.
  rewrite filter_app, map_app, <- IH. f_equal.
  induction g as [|e g IHg]; cbn [map filter]; auto.
  unfold call_counts at 1. cbn [snd]. destruct (call_ok e); cbn [map]; rewrite IHg; reflexivity.
Qed.

(* the same theorem over the batch's call list itself: `map snd (tagged groups tss)` is the
   call list `concat groups` (tagged_calls); each call is paired with its group's timestamp *)
Theorem batch_split_later_wins_tagged groups tss s k v :
  find_kv (run_batch groups tss s) k v =
  match last_match (fun te => call_counts te && kv_match k v (stamp_call te)) (tagged groups tss) with
  | Some te => Some (stamp_call te)
  | None => find_kv s k v
  end.
Proof.
  rewrite batch_split_later_wins, stamped_calls_tagged, last_match_map.
  rewrite <- (last_match_filter (fun te => kv_match k v (stamp_call te)) call_counts).
  destruct (last_match _ (tagged groups tss)); reflexivity.
Qed.

(* ---- sortedness, membership ---- *)
Lemma run_batch_sorted groups : forall tss s, ssorted s -> ssorted (run_batch groups tss s).
Proof.
  induction groups as [|g gs IH]; intros [|ts tr] s Hs; cbn [run_batch]; auto.
  apply IH. now apply fold_mt_put_sorted.
Qed.

(* nothing but the batch's stamped calls and the previous content *)
Lemma run_batch_in groups tss s x :
  ssorted s -> In x (run_batch groups tss s) -> In x (stamped_calls groups tss) \/ In x s.
Proof.
  intros Hs Hx. pose proof (in_find_kv _ x (run_batch_sorted groups tss s Hs) Hx) as F.
  rewrite batch_split_later_wins in F.
  destruct (last_match (kv_match (e_key x) (e_ver x)) (stamped_calls groups tss)) as [y|] eqn:E.
  - injection F as ->. apply last_match_some in E. tauto.
  - apply find_kv_in in F. tauto.
Qed.

(* ==================================================================================== *)
(* 2. split invariance, one commit timestamp (NewWriteBatchAt; managed batches)          *)
(* ==================================================================================== *)
Lemma stamped_calls_same_ts groups ts :
  stamped_calls groups (repeat ts (length groups)) = map (stamp ts) (filter call_ok (concat groups)).
Proof.
  induction groups as [|g gs IH]; cbn [stamped_calls repeat length concat filter map]; auto.
  now rewrite IH, filter_app, map_app.
Qed.

(* the result, per key@version, spelled out on the unsplit call list *)
Theorem batch_same_ts_later_wins groups ts s k v :
  find_kv (run_batch groups (repeat ts (length groups)) s) k v =
  match last_match (fun e => kv_match k v (stamp ts e)) (filter call_ok (concat groups)) with
  | Some e => Some (stamp ts e)
  | None => find_kv s k v
  end.
Proof.
  rewrite batch_split_later_wins, stamped_calls_same_ts, last_match_map.
  destruct (last_match _ (filter call_ok (concat groups))); reflexivity.
Qed.

(* (a) all groups commit at ts: same answer to every key@version lookup as the unsplit batch *)
Theorem batch_split_invariance_same_ts groups ts s k v :
  find_kv (run_batch groups (repeat ts (length groups)) s) k v =
  find_kv (run_batch [concat groups] [ts] s) k v.
Proof.
  rewrite !batch_split_later_wins, stamped_calls_same_ts. cbn [stamped_calls]. now rewrite app_nil_r.
Qed.

(* ... and, the memtable being a sorted list without repeated key@version, the very same memtable *)
Theorem batch_split_same_memtable groups ts s :
  ssorted s -> run_batch groups (repeat ts (length groups)) s = run_batch [concat groups] [ts] s.
Proof.
  intros Hs. apply find_kv_ext_eq; try now apply run_batch_sorted.
  intros k v. apply batch_split_invariance_same_ts.
Qed.

(* two cuts of the same call list *)
Corollary batch_two_splits_same_ts g1 g2 ts s :
  concat g1 = concat g2 -> ssorted s ->
  run_batch g1 (repeat ts (length g1)) s = run_batch g2 (repeat ts (length g2)) s.
Proof. intros E Hs. rewrite !batch_split_same_memtable by assumption. now rewrite E. Qed.

(* managed batches: commit timestamp 0 stores every entry at its own version *)
Lemma stamp_zero e : stamp 0 e = e.
Proof. unfold stamp. destruct (e_ver e =? 0) eqn:E; auto. apply N.eqb_eq in E. destruct e; cbn in *. now subst. Qed.

Lemma stamp_explicit ts e : e_ver e <> 0 -> stamp ts e = e.
Proof. unfold stamp. intros H. destruct (e_ver e =? 0) eqn:E; auto. apply N.eqb_eq in E. contradiction. Qed.

Lemma stamped_calls_explicit groups : forall tss,
  length groups = length tss -> all_explicit groups ->
  stamped_calls groups tss = filter call_ok (concat groups).
Proof.
  induction groups as [|g gs IH]; intros [|ts tr] Hl Hx; cbn [stamped_calls concat filter]; try discriminate; auto.
  cbn [length] in Hl. rewrite filter_app, IH; [|lia|intros g' e Hg He; apply (Hx g' e); [now right|auto]].
  f_equal. rewrite <- (map_id (filter call_ok g)) at 2. apply map_ext_in.
  intros e He. apply filter_In in He. destruct He as [He _]. apply stamp_explicit. apply (Hx g e); [now left|auto].
Qed.

(* (a') every entry carries an explicit version (SetEntryAt / DeleteAt): neither the cut NOR
   the commit timestamps matter *)
Theorem batch_explicit_later_wins groups tss s k v :
  length groups = length tss -> all_explicit groups ->
  find_kv (run_batch groups tss s) k v =
  match last_match (kv_match k v) (filter call_ok (concat groups)) with
  | Some e => Some e
  | None => find_kv s k v
  end.
Proof. intros Hl Hx. now rewrite batch_split_later_wins, stamped_calls_explicit. Qed.

Theorem batch_split_invariance_explicit groups tss ts s :
  length groups = length tss -> all_explicit groups -> ssorted s ->
  run_batch groups tss s = run_batch [concat groups] [ts] s.
Proof.
  intros Hl Hx Hs. apply find_kv_ext_eq; try now apply run_batch_sorted.
  intros k v. rewrite (batch_explicit_later_wins groups tss s k v Hl Hx).
  rewrite (batch_explicit_later_wins [concat groups] [ts] s k v eq_refl).
  - cbn [concat]. now rewrite app_nil_r.
  - intros g e [<-|[]] He. apply in_concat in He. destruct He as (g' & Hg' & He). exact (Hx g' e Hg' He).
Qed.

(* ==================================================================================== *)
(* 3. normal mode: strictly increasing commit timestamps, no explicit versions          *)
(* ==================================================================================== *)
Lemma stamp_ver0 ts e : e_ver e = 0 -> stamp ts e = with_ver e ts.
Proof. unfold stamp. now intros ->. Qed.

Lemma unver_stamp ts e : e_ver e = 0 -> unver (stamp ts e) = e.
Proof. intros H. rewrite stamp_ver0 by assumption. destruct e; cbn in *. now subst. Qed.

Lemma all_ver0_tail g gs : all_ver0 (g :: gs) -> all_ver0 gs.
Proof. intros H g' e Hg He. apply (H g' e); [now right|auto]. Qed.

Lemma stamped_group_ver ts g x : (forall e, In e g -> e_ver e = 0) ->
  In x (map (stamp ts) (filter call_ok g)) -> e_ver x = ts.
Proof.
  intros H0 Hx. apply in_map_iff in Hx. destruct Hx as (e & <- & He). apply filter_In in He.
  destruct He as [He _]. now rewrite stamp_ver0 by auto.
Qed.

(* every stamped call sits at the commit timestamp of some group *)
Lemma stamped_calls_vers groups : forall tss x,
  all_ver0 groups -> In x (stamped_calls groups tss) -> In (e_ver x) tss.
Proof.
  induction groups as [|g gs IH]; intros [|ts tr] x H0; cbn [stamped_calls]; try contradiction.
  intros Hx. apply in_app_or in Hx. destruct Hx as [Hx|Hx].
  - left. symmetry. apply (stamped_group_ver ts g x); auto. intros e He. apply (H0 g e); [now left|auto].
  - right. apply IH; auto. eapply all_ver0_tail; eauto.
Qed.

Lemma increasing_tail ts tr : increasing (ts :: tr) -> increasing tr /\ forall t, In t tr -> ts < t.
Proof. intros H. inversion H as [|? ? H1 H2]; subst. rewrite Forall_forall in H2. auto. Qed.

(* versions never decrease along the stamped call list *)
Lemma stamped_calls_mono groups : forall tss,
  all_ver0 groups -> increasing tss -> StronglySorted ver_le (stamped_calls groups tss).
Proof.
  induction groups as [|g gs IH]; intros [|ts tr] H0 Hi; cbn [stamped_calls]; try constructor.
  destruct (increasing_tail _ _ Hi) as [Hi' Hlt].
  assert (Hg: forall e, In e g -> e_ver e = 0) by (intros e He; apply (H0 g e); [now left|auto]).
  apply SSorted_app.
  - apply (SSorted_const _ ts). intros x Hx. now apply (stamped_group_ver ts g x).
  - apply IH; auto. eapply all_ver0_tail; eauto.
  - intros x y Hx Hy. unfold ver_le. rewrite (stamped_group_ver ts g x Hg Hx).
    apply stamped_calls_vers in Hy; [|eapply all_ver0_tail; eauto]. specialize (Hlt _ Hy). lia.
Qed.

Lemma kv_match_on_key k v e : kv_match k v e = true -> on_key k e = true.
Proof. unfold kv_match, on_key. intros H. apply andb_true_iff in H. tauto. Qed.

(* (b) Theorem: a reader at or above the last commit timestamp finds, for every key the batch
   wrote, the LAST call on that key of the whole batch (stored at the commit timestamp of the
   group it fell into); keys the batch did not write read as before.  `Hbelow`: the commit
   timestamps are above every version of k already in the memtable (oracle.newCommitTs) *)
Theorem batch_split_normal_reader groups tss s k rts :
  all_ver0 groups -> increasing tss -> ssorted s ->
  (forall e ts, In e s -> e_key e = k -> In ts tss -> e_ver e < ts) ->
  (forall ts, In ts tss -> ts <= rts) ->
  src_get (run_batch groups tss s) k rts =
  match last_match (on_key k) (stamped_calls groups tss) with
  | Some e => Some e
  | None => src_get s k rts
  end.
Proof.
  intros H0 Hinc Hs Hbelow Hr.
  pose proof (run_batch_sorted groups tss s Hs) as HR.
  destruct (last_match (on_key k) (stamped_calls groups tss)) as [e'|] eqn:EL.
  - destruct (last_match_some _ _ _ EL) as [HinL Hk'].
    pose proof (stamped_calls_vers groups tss e' H0 HinL) as Hv'.
    rewrite (src_get_newest _ k rts HR). apply newest_unique.
    + now apply ssorted_nodup.
    + pose proof (batch_split_later_wins groups tss s k (e_ver e')) as F.
      rewrite (last_match_refine (on_key k) (kv_match k (e_ver e')) _ e' EL) in F.
      * apply find_kv_in in F. tauto.
      * intros x. apply kv_match_on_key.
      * unfold kv_match. unfold on_key in Hk'. now rewrite Hk', N.eqb_refl.
    + apply bytes_eqb_eq. exact Hk'.
    + now apply Hr.
    + intros x Hx Hkx _. destruct (run_batch_in groups tss s x Hs Hx) as [HxL|HxS].
      * apply (last_match_max (on_key k) (stamped_calls groups tss)); auto.
        -- now apply stamped_calls_mono.
        -- unfold on_key. rewrite Hkx. apply bytes_eqb_refl.
      * specialize (Hbelow x (e_ver e') HxS Hkx Hv'). lia.
  - apply src_get_key_ext; auto. intros v. rewrite batch_split_later_wins.
    destruct (last_match (kv_match k v) (stamped_calls groups tss)) as [y|] eqn:EY; auto.
    apply last_match_some in EY. destruct EY as [Hy Hm]. apply kv_match_on_key in Hm.
    rewrite (last_match_none _ _ EL y Hy) in Hm. discriminate.
Qed.

(* the earlier calls on k: everything else stored under k is strictly OLDER than what the
   reader finds *)
Theorem batch_split_normal_older groups tss s k e' :
  all_ver0 groups -> increasing tss -> ssorted s ->
  (forall e ts, In e s -> e_key e = k -> In ts tss -> e_ver e < ts) ->
  last_match (on_key k) (stamped_calls groups tss) = Some e' ->
  forall x, In x (run_batch groups tss s) -> e_key x = k -> x = e' \/ e_ver x < e_ver e'.
Proof.
  intros H0 Hinc Hs Hbelow EL x Hx Hkx.
  pose proof (run_batch_sorted groups tss s Hs) as HR.
  destruct (last_match_some _ _ _ EL) as [HinL Hk'].
  pose proof (stamped_calls_vers groups tss e' H0 HinL) as Hv'.
  assert (Hle: e_ver x <= e_ver e').
  { destruct (run_batch_in groups tss s x Hs Hx) as [HxL|HxS].
    - apply (last_match_max (on_key k) (stamped_calls groups tss)); auto.
      + now apply stamped_calls_mono.
      + unfold on_key. rewrite Hkx. apply bytes_eqb_refl.
    - specialize (Hbelow x (e_ver e') HxS Hkx Hv'). lia. }
  destruct (N.eq_dec (e_ver x) (e_ver e')) as [E|NE]; [left|right; lia].
  apply (ssorted_nodup _ HR); auto.
  - pose proof (batch_split_later_wins groups tss s k (e_ver e')) as F.
    rewrite (last_match_refine (on_key k) (kv_match k (e_ver e')) _ e' EL) in F.
    + apply find_kv_in in F. tauto.
    + intros y. apply kv_match_on_key.
    + unfold kv_match. unfold on_key in Hk'. now rewrite Hk', N.eqb_refl.
  - apply bytes_eqb_eq in Hk'. congruence.
Qed.

(* where exactly they are: the i-th group's last call on k is stored at the i-th commit
   timestamp (and those timestamps increase) *)
Lemma stamped_group_version groups : forall tss i g ts k,
  all_ver0 groups -> increasing tss -> nth_error groups i = Some g -> nth_error tss i = Some ts ->
  last_match (kv_match k ts) (stamped_calls groups tss) =
  option_map (stamp ts) (last_match (on_key k) (filter call_ok g)).
Proof.
  induction groups as [|g0 gs IH]; intros [|t0 tr] i g ts k H0 Hinc Hg Ht;
    destruct i as [|i]; cbn [nth_error] in Hg, Ht; try discriminate.
  - injection Hg as ->. injection Ht as ->. cbn [stamped_calls]. rewrite last_match_app.
    destruct (increasing_tail _ _ Hinc) as [_ Hlt].
    rewrite (last_match_none_intro (kv_match k ts) (stamped_calls gs tr)).
    + rewrite last_match_map. f_equal. apply last_match_ext_in. intros e He.
      apply filter_In in He. destruct He as [He _].
      rewrite stamp_ver0 by (apply (H0 g e); [now left|auto]).
      unfold kv_match, on_key, with_ver. cbn [e_key e_ver]. now rewrite N.eqb_refl, andb_true_r.
    + intros x Hx. apply stamped_calls_vers in Hx; [|eapply all_ver0_tail; eauto].
      specialize (Hlt _ Hx). unfold kv_match. assert (E: (e_ver x =? ts) = false) by lia.
      now rewrite E, andb_false_r.
  - cbn [stamped_calls]. rewrite last_match_app.
    destruct (increasing_tail _ _ Hinc) as [Hinc' Hlt].
    rewrite (IH tr i g ts k (all_ver0_tail _ _ H0) Hinc' Hg Ht).
    rewrite (last_match_none_intro (kv_match k ts) (map (stamp t0) (filter call_ok g0))).
    + destruct (option_map _ _); reflexivity.
    + intros x Hx. apply nth_error_In in Ht. specialize (Hlt _ Ht). unfold kv_match.
      assert (Ex: e_ver x = t0) by (apply (stamped_group_ver t0 g0 x); auto; intros e He; apply (H0 g0 e); [now left|auto]).
      assert (E: (e_ver x =? ts) = false) by lia. now rewrite E, andb_false_r.
Qed.

Theorem batch_split_normal_group_version groups tss s i g ts k :
  all_ver0 groups -> increasing tss -> nth_error groups i = Some g -> nth_error tss i = Some ts ->
  find_kv (run_batch groups tss s) k ts =
  match last_match (on_key k) (filter call_ok g) with
  | Some e => Some (stamp ts e)
  | None => find_kv s k ts
  end.
Proof.
  intros H0 Hinc Hg Ht. rewrite batch_split_later_wins, (stamped_group_version groups tss i g ts k H0 Hinc Hg Ht).
  destruct (last_match (on_key k) (filter call_ok g)); reflexivity.
Qed.

(* the last stamped call on k is the last call on k of the call list, up to its version *)
Lemma stamped_last_call groups : forall tss k,
  length groups = length tss -> all_ver0 groups ->
  option_map unver (last_match (on_key k) (stamped_calls groups tss)) =
  last_match (on_key k) (filter call_ok (concat groups)).
Proof.
  induction groups as [|g gs IH]; intros [|ts tr] k Hl H0; cbn [stamped_calls concat filter last_match option_map];
    try discriminate; auto.
  cbn [length] in Hl. rewrite filter_app, !last_match_app, <- (IH tr k) by (try lia; eapply all_ver0_tail; eauto).
  destruct (last_match (on_key k) (stamped_calls gs tr)); cbn [option_map]; auto.
  rewrite last_match_map.
  rewrite (last_match_ext (fun a => on_key k (stamp ts a)) (on_key k)) by (intros a; unfold on_key; now rewrite stamp_key).
  destruct (last_match (on_key k) (filter call_ok g)) as [e|] eqn:E; cbn [option_map]; auto.
  f_equal. apply unver_stamp. apply last_match_some in E. destruct E as [He _].
  apply filter_In in He. destruct He as [He _]. apply (H0 g e); [now left|auto].
Qed.

(* the reader's view in terms of the UNSPLIT call list: the cut only decides at which commit
   timestamp the value is stored *)
Theorem batch_split_normal_reader_view groups tss s k rts :
  length groups = length tss ->
  all_ver0 groups -> increasing tss -> ssorted s ->
  (forall e ts, In e s -> e_key e = k -> In ts tss -> e_ver e < ts) ->
  (forall ts, In ts tss -> ts <= rts) ->
  option_map unver (src_get (run_batch groups tss s) k rts) =
  match last_match (on_key k) (filter call_ok (concat groups)) with
  | Some e => Some e
  | None => option_map unver (src_get s k rts)
  end.
Proof.
  intros Hl H0 Hinc Hs Hbelow Hr. rewrite (batch_split_normal_reader groups tss s k rts H0 Hinc Hs Hbelow Hr).
  rewrite <- (stamped_last_call groups tss k Hl H0).
  destruct (last_match (on_key k) (stamped_calls groups tss)); reflexivity.
Qed.

(* (b) split invariance in normal mode: two cuts of the same call list, each with its own
   increasing commit timestamps, look the same to a reader above both *)
Theorem batch_split_invariance_normal g1 t1 g2 t2 s k rts :
  concat g1 = concat g2 ->
  length g1 = length t1 -> length g2 = length t2 ->
  all_ver0 g1 -> increasing t1 -> increasing t2 -> ssorted s ->
  (forall e ts, In e s -> e_key e = k -> In ts (t1 ++ t2) -> e_ver e < ts) ->
  (forall ts, In ts (t1 ++ t2) -> ts <= rts) ->
  option_map unver (src_get (run_batch g1 t1 s) k rts) =
  option_map unver (src_get (run_batch g2 t2 s) k rts).
Proof.
  intros E L1 L2 H1 I1 I2 Hs Hbelow Hr.
  assert (H2: all_ver0 g2).
  { intros g e Hg He. assert (Hin: In e (concat g2)) by (apply in_concat; eauto).
    rewrite <- E in Hin. apply in_concat in Hin. destruct Hin as (g' & Hg' & He'). exact (H1 g' e Hg' He'). }
  rewrite (batch_split_normal_reader_view g1 t1 s k rts), (batch_split_normal_reader_view g2 t2 s k rts); auto.
  - now rewrite E.
  - intros e ts He Hk Ht. apply Hbelow; auto. apply in_or_app. now right.
  - intros ts Ht. apply Hr. apply in_or_app. now right.
  - intros e ts He Hk Ht. apply Hbelow; auto. apply in_or_app. now left.
  - intros ts Ht. apply Hr. apply in_or_app. now left.
Qed.

(* ==================================================================================== *)
(* 4. what is NOT invariant                                                              *)
(* ==================================================================================== *)
(* normal mode: the stored VERSIONS do depend on the cut (a WriteBatch is not atomic: every
   internal transaction is a commit of its own, earlier calls on a key survive as older
   versions and are visible to snapshots taken between the internal commits).  Set k=1; Set k=2
   unsplit at 10 stores only k@10=2; split at 10, 11 stores k@10=1 and k@11=2 *)
Theorem batch_split_normal_versions_refuted :
  exists g1 t1 g2 t2 k v,
    concat g1 = concat g2 /\ length g1 = length t1 /\ length g2 = length t2 /\
    all_ver0 g1 /\ increasing t1 /\ increasing t2 /\
    find_kv (run_batch g1 t1 []) k v <> find_kv (run_batch g2 t2 []) k v.
Proof.
  exists [[mkE [107] 0 0 0 0 [1]; mkE [107] 0 0 0 0 [2]]], [10],
         [[mkE [107] 0 0 0 0 [1]]; [mkE [107] 0 0 0 0 [2]]], [10; 11], [107], 10.
  repeat split; try reflexivity.
  - intros g e [<-|[]] [<-|[<-|[]]]; reflexivity.
  - repeat constructor.
  - repeat constructor; lia.
  - vm_compute. discriminate.
Qed.

(* increasing commit timestamps TOGETHER WITH explicit versions (WriteBatch.DeleteAt has no
   managed-mode guard, unlike SetEntryAt): the reader's view depends on the cut.
   DeleteAt(k, 11); Set(k, 1): unsplit at 10 the tombstone k@11 shadows k@10=1; split at 10, 11
   the Set is stamped 11 and REPLACES the tombstone.  So `all_ver0` cannot be dropped from
   batch_split_invariance_normal.  (Observed on the Go code, non-managed DB: NewWriteBatch;
   DeleteAt("k", 2); Set f0; Set f1; Set("k", "1"); Flush; three more commits; Get("k"):
   MemTableSize 64 MiB (no split) => Key not found; MemTableSize 1920 (maxBatchCount 3, the
   batch is split) => "1".) *)
Theorem batch_split_mixed_refuted :
  exists g1 t1 g2 t2 k rts,
    concat g1 = concat g2 /\ length g1 = length t1 /\ length g2 = length t2 /\
    increasing t1 /\ increasing t2 /\ (forall ts, In ts (t1 ++ t2) -> ts <= rts) /\
    option_map unver (src_get (run_batch g1 t1 []) k rts) <>
    option_map unver (src_get (run_batch g2 t2 []) k rts).
Proof.
  exists [[mkE [107] 11 1 0 0 []; mkE [107] 0 0 0 0 [1]]], [10],
         [[mkE [107] 11 1 0 0 []]; [mkE [107] 0 0 0 0 [1]]], [10; 11], [107], 11.
  repeat split; try reflexivity.
  - repeat constructor.
  - repeat constructor; lia.
  - cbn [app]. intros ts [<-|[<-|[<-|[]]]]; lia.
  - vm_compute. discriminate.
Qed.

(* ==================================================================================== *)
(* 5. the bridge to Sys.txn_commit (what the correspondence replays for every batch:     *)
(*    Begin / Modify* / Commit labels per internal transaction)                          *)
(* ==================================================================================== *)
Definition wb_txn (rts : N) : txn := mkTxn rts true [] [] [] false.

Lemma txn_modify_reads x e : x_reads (snd (txn_modify x e)) = x_reads x.
Proof.
  unfold txn_modify. destruct (x_update x); cbn [negb]; [|auto].
  destruct (x_done x); [auto|]. destruct (e_key e) as [|b0 k0]; [auto|].
  destruct (is_prefix c_badgerPrefix (b0 :: k0)); cbn [snd x_reads]; auto.
Qed.

Lemma modifies_reads es : forall x, x_reads (modifies x es) = x_reads x.
Proof. induction es as [|e es IH]; intros x; cbn [modifies]; auto. now rewrite IH, txn_modify_reads. Qed.

Lemma modifies_flags es : forall x,
  x_update (modifies x es) = x_update x /\ x_done (modifies x es) = x_done x.
Proof.
  induction es as [|e es IH]; intros x; cbn [modifies]; auto.
  destruct (IH (snd (txn_modify x e))) as [A B]. destruct (txn_modify_flags x e) as [C D]. split; congruence.
Qed.

(* a WriteBatch's transactions read nothing: blind writes never conflict *)
Lemma no_reads_no_conflict s x : x_reads x = [] -> has_conflict s x = false.
Proof.
  intros H. unfold has_conflict. rewrite H. induction (s_committed s) as [|cw l IH]; cbn [existsb] in *; auto.
  rewrite andb_false_r. exact IH.
Qed.

Definition dups_need_pend (x : txn) : Prop := x_pend x = [] -> x_dups x = [].

Lemma kupdate_not_nil l k e : kupdate l k e <> [].
Proof. destruct l as [|[j b] l]; cbn; [discriminate|]. destruct (bytes_eqb j k); discriminate. Qed.

Lemma txn_modify_dnp x e : dups_need_pend x -> dups_need_pend (snd (txn_modify x e)).
Proof.
  intros H. unfold dups_need_pend. rewrite txn_modify_pend.
  destruct (fst (txn_modify x e) =? 0) eqn:C.
  - intros P. exfalso. exact (kupdate_not_nil _ _ _ P).
  - rewrite txn_modify_rejected by now rewrite C. exact H.
Qed.

Lemma modifies_dnp es : forall x, dups_need_pend x -> dups_need_pend (modifies x es).
Proof. induction es as [|e es IH]; intros x H; cbn [modifies]; auto. apply IH. now apply txn_modify_dnp. Qed.

(* one internal transaction of a batch through Sys.txn_commit: never refused, and the memtable
   receives exactly `group_entries` at the timestamp the oracle hands out (normal mode:
   nextTxnTs, which then moves on; managed mode: the batch's commitTs) *)
Theorem wb_commit_step s t rts g cts :
  let x := modifies (wb_txn rts) g in
  let ts := if s_managed s then cts else s_next s in
  let r := txn_commit s t x cts in
  fst (fst r) = 0 /\
  l_mt (s_db (snd r)) = fold_left mt_put (group_entries g ts) (l_mt (s_db s)) /\
  s_managed (snd r) = s_managed s /\
  s_next (snd r) = (if s_managed s || (match x_pend x with [] => true | _ => false end)
                    then s_next s else s_next s + 1).
Proof.
  intros x ts r.
  assert (Hg: forall ts', commit_entries x ts' = group_entries g ts')
    by (intros ts'; now apply group_entries_any_txn).
  destruct (modifies_flags g (wb_txn rts)) as [_ Hd]. cbn [wb_txn x_done] in Hd. fold x in Hd.
  pose proof (modifies_reads g (wb_txn rts)) as Hrd. cbn [wb_txn x_reads] in Hrd. fold x in Hrd.
  pose proof (modifies_dnp g (wb_txn rts) (fun _ => eq_refl)) as Hdnp. fold x in Hdnp.
  subst r. unfold txn_commit. destruct (x_pend x) as [|p ps] eqn:P.
  - cbn [fst snd s_db s_managed s_next]. rewrite <- Hg. unfold commit_entries. rewrite P, (Hdnp P).
    cbn [map app fold_left]. rewrite orb_true_r. auto.
  - rewrite Hd, (no_reads_no_conflict s x Hrd), andb_false_r. cbn [fst snd s_db s_managed s_next apply_entries l_mt].
    rewrite Hg, orb_false_r. destruct (s_managed s); auto.
Qed.

(* a whole batch as a sequence of commits of the system model *)
Fixpoint sys_batch (s : sys) (t rts : N) (groups : list (list entry)) (ctss : list N) : sys :=
  match groups, ctss with
  | g :: gs, cts :: cr => sys_batch (snd (txn_commit s t (modifies (wb_txn rts) g) cts)) t rts gs cr
  | _, _ => s
  end.

(* the commit timestamps it used *)
Fixpoint sys_batch_tss (s : sys) (t rts : N) (groups : list (list entry)) (ctss : list N) : list N :=
  match groups, ctss with
  | g :: gs, cts :: cr =>
      (if s_managed s then cts else s_next s)
      :: sys_batch_tss (snd (txn_commit s t (modifies (wb_txn rts) g) cts)) t rts gs cr
  | _, _ => []
  end.

Theorem sys_batch_memtable groups : forall s t rts ctss,
  l_mt (s_db (sys_batch s t rts groups ctss)) =
  run_batch groups (sys_batch_tss s t rts groups ctss) (l_mt (s_db s)).
Proof.
  induction groups as [|g gs IH]; intros s t rts [|cts cr]; cbn [sys_batch sys_batch_tss run_batch]; auto.
  rewrite IH. destruct (wb_commit_step s t rts g cts) as (_ & H & _). cbv zeta in H. now rewrite H.
Qed.

Theorem sys_batch_tss_managed groups : forall s t rts ctss,
  s_managed s = true -> length groups = length ctss -> sys_batch_tss s t rts groups ctss = ctss.
Proof.
  induction groups as [|g gs IH]; intros s t rts [|cts cr] Hm Hl; cbn [sys_batch_tss]; try discriminate; auto.
  cbn [length] in Hl. destruct (wb_commit_step s t rts g cts) as (_ & _ & H & _). cbv zeta in H.
  rewrite Hm, IH; auto. congruence.
Qed.

Fixpoint count_from (n : N) (len : nat) : list N :=
  match len with O => [] | S l => n :: count_from (n + 1) l end.

Lemma count_from_ge n len : forall t, In t (count_from n len) -> n <= t.
Proof.
  revert n. induction len as [|l IH]; intros n t; cbn [count_from]; [intros []|].
  intros [<-|H]; [lia|]. specialize (IH _ _ H). lia.
Qed.

Lemma count_from_increasing n len : increasing (count_from n len).
Proof.
  revert n. induction len as [|l IH]; intros n; cbn [count_from]; constructor; [apply IH|].
  apply Forall_forall. intros t Ht. apply count_from_ge in Ht. lia.
Qed.

(* normal mode, every group holding at least one accepted call: the timestamps are
   nextTxnTs, nextTxnTs + 1, ... — strictly increasing, as assumed in section 3 *)
Theorem sys_batch_tss_normal groups : forall s t rts ctss,
  s_managed s = false -> length groups = length ctss ->
  (forall g, In g groups -> x_pend (modifies (wb_txn rts) g) <> []) ->
  sys_batch_tss s t rts groups ctss = count_from (s_next s) (length groups).
Proof.
  induction groups as [|g gs IH]; intros s t rts [|cts cr] Hm Hl Hne; cbn [sys_batch_tss count_from length];
    try discriminate; auto.
  cbn [length] in Hl. destruct (wb_commit_step s t rts g cts) as (_ & _ & H1 & H2). cbv zeta in H1, H2.
  rewrite Hm. f_equal. rewrite IH; auto; [|congruence|intros g' Hg'; apply Hne; now right].
  rewrite H2, Hm. destruct (x_pend (modifies (wb_txn rts) g)) eqn:P; [|reflexivity].
  exfalso. apply (Hne g); [now left|exact P].
Qed.

Corollary sys_batch_tss_normal_increasing groups s t rts ctss :
  s_managed s = false -> length groups = length ctss ->
  (forall g, In g groups -> x_pend (modifies (wb_txn rts) g) <> []) ->
  sys_batch_tss s t rts groups ctss = count_from (s_next s) (length groups) /\
  increasing (count_from (s_next s) (length groups)).
Proof.
  intros Hm Hl Hne. split; [now apply sys_batch_tss_normal|apply count_from_increasing].
Qed.
