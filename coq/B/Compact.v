(* Compact.v — levels.go: the compaction filter of subcompact (streaming, as coded), key
   ranges / overlap, installing the outputs (replaceTables + deleteTables). *)
From Verif Require Import Bytes Keys Consts Spec Lsm.
Open Scope N_scope.

Record cparams := mkCP {
  cp_discard : N;          (* discardTs (already clamped by an active GC rewrite) *)
  cp_nkeep : N;            (* Options.NumVersionsToKeep *)
  cp_overlap : bool;       (* hasOverlap: some level strictly below the output level intersects *)
  cp_drop : list bytes;    (* dropPrefixes (tested against the INTERNAL key, as coded) *)
  cp_now : N }.

Record cstate := mkCS { cs_last : option bytes; cs_skip : option bytes; cs_nver : N }.
Definition cs_init : cstate := mkCS None None 0.

Definition opt_key_is (o : option bytes) (k : bytes) : bool :=
  match o with Some x => bytes_eqb x k | None => false end.

Definition has_any_prefix (ps : list bytes) (e : entry) : bool :=
  existsb (fun p => is_prefix p (key_with_ts (e_key e) (e_ver e))) ps.

(* one iteration of the addKeys loop: new state and whether the entry is written out *)
Definition filter_step (p : cparams) (st : cstate) (e : entry) : cstate * bool :=
  if has_any_prefix (cp_drop p) e then (st, false)
  else if opt_key_is (cs_skip st) (e_key e) then (st, false)
  else
    let st1 := mkCS (cs_last st) None (cs_nver st) in
    let st2 := if opt_key_is (cs_last st1) (e_key e) then st1
               else mkCS (Some (e_key e)) None 0 in
    if (e_ver e <=? cp_discard p) && negb (is_merge e) then
      let nv := cs_nver st2 + 1 in
      let expired := deleted_or_expired e (cp_now p) in
      let last_valid := has_discard e || (nv =? cp_nkeep p) in
      if expired || last_valid then
        let st3 := mkCS (cs_last st2) (Some (e_key e)) nv in
        if negb expired && last_valid then (st3, true)
        else if cp_overlap p then (st3, true)
        else (st3, false)
      else (mkCS (cs_last st2) None nv, true)
    else (st2, true).

Fixpoint filter_run (p : cparams) (st : cstate) (s : src) : src :=
  match s with
  | [] => []
  | e :: r => let '(st', keep) := filter_step p st e in
              if keep then e :: filter_run p st' r else filter_run p st' r
  end.
Definition compact_filter (p : cparams) (s : src) : src := filter_run p cs_init s.

(* ---- key ranges (user-key granularity: getKeyRange uses key@MaxUint64 .. key@0) ---- *)
Definition tables_min_key (ts_ : list table) : option bytes :=
  fold_left (fun acc t => match t_smallest t with
                          | None => acc
                          | Some e => match acc with
                                      | None => Some (e_key e)
                                      | Some k => if match lex_cmp (e_key e) k with Lt => true | _ => false end
                                                  then Some (e_key e) else acc
                                      end
                          end) ts_ None.
Definition tables_max_key (ts_ : list table) : option bytes :=
  fold_left (fun acc t => match t_biggest t with
                          | None => acc
                          | Some e => match acc with
                                      | None => Some (e_key e)
                                      | Some k => if match lex_cmp (e_key e) k with Gt => true | _ => false end
                                                  then Some (e_key e) else acc
                                      end
                          end) ts_ None.
Definition le_key (a b : bytes) : bool := match lex_cmp a b with Gt => false | _ => true end.

(* table t intersects the user-key range [lo, hi] *)
Definition table_overlaps (lo hi : bytes) (t : table) : bool :=
  match t_smallest t, t_biggest t with
  | Some s, Some b => le_key lo (e_key b) && le_key (e_key s) hi
  | _, _ => false
  end.

(* checkOverlap(tables, lev): any table of a level with index >= lev intersects the range *)
Fixpoint check_overlap (lvl : nat) (ls : list (list table)) (lev : nat) (lo hi : bytes) : bool :=
  match ls with
  | [] => false
  | l :: r => ((lev <=? lvl)%nat && existsb (table_overlaps lo hi) l) || check_overlap (S lvl) r lev lo hi
  end.

(* ---- installing a compaction ---- *)
Definition in_ids (ids : list N) (t : table) : bool := existsb (N.eqb (t_id t)) ids.
Definition pick_tables (ids : list N) (l : list table) : list table := filter (in_ids ids) l.
Definition drop_tables (ids : list N) (l : list table) : list table := filter (fun t => negb (in_ids ids t)) l.

Fixpoint split_counts (s : src) (layout : list (N * N)) : list table :=
  match layout with
  | [] => []
  | (id, n) :: r => mkT id (firstn (N.to_nat n) s) :: split_counts (skipn (N.to_nat n) s) r
  end.

Fixpoint reorder (ids : list N) (l : list table) : list table :=
  match ids with
  | [] => []
  | i :: r => match find (fun t => t_id t =? i) l with
              | Some t => t :: reorder r l
              | None => reorder r l
              end
  end.

Fixpoint set_level (ls : list (list table)) (n : nat) (l : list table) : list (list table) :=
  match ls, n with
  | [], _ => []
  | _ :: r, O => l :: r
  | x :: r, S n' => x :: set_level r n' l
  end.

(* keepTable: a bottom table entirely inside a dropped prefix is not even read *)
Definition keep_table (drop : list bytes) (t : table) : bool :=
  negb (existsb (fun p => match t_smallest t, t_biggest t with
                          | Some s, Some b => is_prefix p (key_with_ts (e_key s) (e_ver s))
                                              && is_prefix p (key_with_ts (e_key b) (e_ver b))
                          | _, _ => false
                          end) drop).

Record compaction := mkC {
  c_this : nat; c_next : nat;
  c_top : list N; c_bot : list N;
  c_discard : N; c_nkeep : N; c_drop : list bytes; c_now : N;
  c_layout : list (N * N);          (* (new table id, number of entries) as the implementation built them *)
  c_order : list N }.               (* resulting order of the output level, as observed *)

Definition compaction_inputs (ls : list (list table)) (c : compaction) : list src :=
  let top := pick_tables (c_top c) (nth (c_this c) ls []) in
  let bot := filter (keep_table (c_drop c)) (pick_tables (c_bot c) (nth (c_next c) ls [])) in
  (match c_this c with
   | O => map t_ents (rev top)              (* appendIteratorsReversed: newest first *)
   | _ => map t_ents top
   end) ++ [concat (map t_ents bot)].

Definition compaction_overlap (ls : list (list table)) (c : compaction) : bool :=
  let all := pick_tables (c_top c) (nth (c_this c) ls []) ++ pick_tables (c_bot c) (nth (c_next c) ls []) in
  (* L0 -> L0: the L0 tables left out of the pick may hold older versions and checkOverlap does
     not look at level 0, so the markers are always kept (fix of finding F1) *)
  match c_this c, c_next c with
  | O, O => true
  | _, _ =>
    match tables_min_key all, tables_max_key all with
    | Some lo, Some hi => check_overlap 0 ls (S (c_next c)) lo hi
    | _, _ => false
    end
  end.

Definition compaction_output (ls : list (list table)) (c : compaction) : src :=
  compact_filter (mkCP (c_discard c) (c_nkeep c) (compaction_overlap ls c) (c_drop c) (c_now c))
                 (merge_all (compaction_inputs ls c)).

(* replaceTables(bot, new) on the next level (sorted by smallest key: the observed order is
   adopted after being checked by the caller), then deleteTables(top) on this level *)
Definition apply_compaction (ls : list (list table)) (c : compaction) : list (list table) :=
  let out := split_counts (compaction_output ls c) (c_layout c) in
  let nl := drop_tables (c_bot c) (nth (c_next c) ls []) ++ out in
  let ls1 := set_level ls (c_next c) (reorder (c_order c) nl) in
  set_level ls1 (c_this c) (drop_tables (c_top c) (nth (c_this c) ls1 [])).

(* the observed order must be a sort of the level by smallest key *)
Fixpoint sorted_by_smallest (l : list table) : bool :=
  match l with
  | a :: ((b :: _) as r) =>
      match t_smallest a, t_smallest b with
      | Some x, Some y => match ent_cmp x y with Gt => false | _ => sorted_by_smallest r end
      | _, _ => false
      end
  | _ => true
  end.
