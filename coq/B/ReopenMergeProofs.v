(* ReopenMergeProofs.v — C07, iterator view for an arbitrary level-0 order: the merged view
   does not depend on the order of strictly sorted sources that share no key@version, so Open's
   re-sorting of level 0 by file id leaves `merged` unchanged. *)
From Verif Require Import Bytes BytesProofs Keys C20Proofs Consts Spec Lsm LsmProofs Compact Iter Sys SysReopen EntOrderProofs ReopenReadProofs ReopenTsProofs LevelsWfProofs.
From Coq Require Import ZifyN ZifyNat ZifyBool Sorted Permutation.
Open Scope N_scope.

(* e collides with no entry of a *)
Definition nocol (a : src) (e : entry) : Prop := forall x, In x a -> ent_cmp x e <> Eq.

Lemma elt_neq a b : elt a b -> ent_cmp a b <> Eq.
Proof. unfold elt. intros ->. discriminate. Qed.

(* the two-way merge of sorted runs: everything of the first, plus what of the second does not
   collide with the first *)
Lemma merge2_spec a w e :
  ssorted a -> ssorted w ->
  (In e (merge2 a w) <-> In e a \/ (In e w /\ nocol a e)).
Proof.
  revert w. induction a as [|x a IHa]; intros w Ha Hw.
  - rewrite merge2_nil_l. split; [intros H; right; split; auto; intros ? []|intros [[]|[H _]]; auto].
  - induction w as [|y w IHw].
    + rewrite merge2_nil_r. split; [auto|intros [H|[[] _]]; auto].
    + rewrite merge2_cons.
      destruct (ssorted_cons_inv _ _ Ha) as [Ha' Hxa]. destruct (ssorted_cons_inv _ _ Hw) as [Hw' Hyw].
      rewrite Forall_forall in Hxa, Hyw.
      destruct (ent_cmp x y) eqn:C.
      * (* Eq *)
        cbn [In]. rewrite (IHa w Ha' Hw'). split.
        -- intros [->|[H|[H1 H2]]]; auto. right. split; auto.
           intros z [<-|Hz]; auto. unfold elt in Hyw. rewrite (ent_cmp_eq_l _ _ _ C).
           apply elt_neq. now apply Hyw.
        -- intros [[->|H]|[[<-|H1] H2]]; auto.
           ++ exfalso. apply (H2 x); auto. now left.
           ++ right. right. split; auto. intros z Hz. apply H2. now right.
      * (* Lt *)
        cbn [In]. rewrite (IHa (y :: w) Ha' Hw). split.
        -- intros [->|[H|[H1 H2]]]; auto. right. split; auto.
           intros z [<-|Hz]; auto. apply elt_neq.
           destruct H1 as [<-|H1]; auto. eapply elt_trans; [exact C|now apply Hyw].
        -- intros [[->|H]|[H1 H2]]; auto. right. right. split; auto. intros z Hz. apply H2. now right.
      * (* Gt *)
        cbn [In]. rewrite (IHw Hw'). apply elt_gt in C. split.
        -- intros [<-|[H|[H1 H2]]]; auto. right. split; auto.
           intros z [<-|Hz].
           ++ rewrite ent_cmp_antisym. unfold elt in C. rewrite C. discriminate.
           ++ rewrite ent_cmp_antisym. assert (E: elt y z) by (eapply elt_trans; [exact C|now apply Hxa]).
              unfold elt in E. rewrite E. discriminate.
        -- intros [H|[[<-|H1] H2]]; auto.
Qed.

(* a strictly sorted list is determined by its elements *)
Lemma ssorted_ext l1 l2 :
  ssorted l1 -> ssorted l2 -> (forall e, In e l1 <-> In e l2) -> l1 = l2.
Proof.
  revert l2. induction l1 as [|a l1 IH]; intros l2 H1 H2 Hext.
  - destruct l2 as [|b l2]; auto. destruct (proj2 (Hext b)); now left.
  - destruct l2 as [|b l2]; [destruct (proj1 (Hext a)); now left|].
    destruct (ssorted_cons_inv _ _ H1) as [H1' Ha]. destruct (ssorted_cons_inv _ _ H2) as [H2' Hb].
    rewrite Forall_forall in Ha, Hb.
    assert (E: a = b).
    { destruct (proj1 (Hext a) (or_introl eq_refl)) as [E|Hin]; auto.
      destruct (proj2 (Hext b) (or_introl eq_refl)) as [E|Hin2]; auto.
      exfalso. exact (elt_irrefl a (elt_trans _ _ _ (Ha _ Hin2) (Hb _ Hin))). }
    subst b. f_equal. apply IH; auto. intros e. split; intros He.
    + destruct (proj1 (Hext e) (or_intror He)) as [<-|H]; auto. exfalso. exact (elt_irrefl _ (Ha _ He)).
    + destruct (proj2 (Hext e) (or_intror He)) as [<-|H]; auto. exfalso. exact (elt_irrefl _ (Hb _ He)).
Qed.

Definition colfree (a b : src) : Prop := forall x y, In x a -> In y b -> ent_cmp x y <> Eq.

Lemma merge2_left_comm a b w :
  ssorted a -> ssorted b -> ssorted w -> colfree a b ->
  merge2 a (merge2 b w) = merge2 b (merge2 a w).
Proof.
  intros Ha Hb Hw Hc. apply ssorted_ext; try (apply merge2_sorted; auto; apply merge2_sorted; auto).
  intros e. rewrite !merge2_spec; auto; try (apply merge2_sorted; auto).
  assert (A: In e a -> nocol b e).
  { intros He y Hy E. apply (Hc e y He Hy). rewrite ent_cmp_antisym, E. reflexivity. }
  assert (B: In e b -> nocol a e).
  { intros He x Hx. now apply Hc. }
  tauto.
Qed.

(* key@version *)
Definition kv (e : entry) : bytes * N := (e_key e, e_ver e).

Lemma kv_eq x y : ent_cmp x y = Eq <-> kv x = kv y.
Proof. rewrite ent_cmp_eq. unfold kv. split; [intros [-> ->]; auto|intros [= -> ->]; auto]. Qed.

(* no key@version twice among the sources *)
Definition srcs_nodup (ss : list src) : Prop := NoDup (map kv (concat ss)).

Lemma srcs_nodup_tail s ss : srcs_nodup (s :: ss) -> srcs_nodup ss.
Proof. unfold srcs_nodup. cbn [concat]. rewrite map_app. apply NoDup_app_r. Qed.

Lemma srcs_nodup_colfree a b ss : srcs_nodup (a :: b :: ss) -> colfree a b.
Proof.
  unfold srcs_nodup. cbn [concat]. rewrite !map_app. intros Hn x y Hx Hy E. apply kv_eq in E.
  eapply (NoDup_app_disjoint _ _ (kv x) Hn); [now apply in_map|].
  apply in_or_app. left. rewrite E. now apply in_map.
Qed.

Lemma fold_merge_sorted z ss : ssorted z -> Forall ssorted ss -> ssorted (fold_right merge2 z ss).
Proof. intros Hz. induction 1; cbn; auto. apply merge2_sorted; auto. Qed.

Lemma Permutation_concat {A} (l l' : list (list A)) : Permutation l l' -> Permutation (concat l) (concat l').
Proof.
  induction 1; cbn [concat]; auto.
  - now apply Permutation_app_head.
  - apply Permutation_app_swap_app.
  - eapply perm_trans; eauto.
Qed.

Lemma fold_merge_perm z ss ss' :
  Permutation ss ss' -> ssorted z -> Forall ssorted ss -> srcs_nodup ss ->
  fold_right merge2 z ss = fold_right merge2 z ss'.
Proof.
  induction 1 as [|s l l' HP IH|a b l|l l' l'' HP1 IH1 HP2 IH2]; intros Hz HF Hn.
  - reflexivity.
  - cbn. inversion HF; subst. rewrite IH; auto. eapply srcs_nodup_tail; eauto.
  - cbn. inversion HF as [|? ? Hb HF']; subst. inversion HF' as [|? ? Ha HF'']; subst.
    apply merge2_left_comm; auto; [now apply fold_merge_sorted|].
    eapply srcs_nodup_colfree; eauto.
  - rewrite IH1; auto. apply IH2; auto.
    + eapply Permutation_Forall; eauto.
    + unfold srcs_nodup in *. eapply Permutation_NoDup; [|exact Hn].
      apply Permutation_map. now apply Permutation_concat.
Qed.

(* ---- Open re-sorts level 0: the merged view is unchanged ---- *)
Definition l0_nodup (l0 : list table) : Prop := srcs_nodup (map t_ents l0).

Lemma merge_all_app a b : merge_all (a ++ b) = fold_right merge2 (merge_all b) a.
Proof. unfold merge_all. apply fold_right_app. Qed.

Lemma levels_srcs_sorted lvl ls :
  (forall n, lvl_ok (lvl + n) (nth n ls [])) -> Forall ssorted (levels_srcs lvl ls).
Proof.
  revert lvl. induction ls as [|l ls IH]; intros lvl H; cbn [levels_srcs]; [constructor|].
  apply Forall_app. split.
  - pose proof (H O) as H0. rewrite Nat.add_0_r in H0. cbn [nth] in H0.
    destruct lvl; cbn [level_src lvl_ok] in *.
    + apply Forall_forall. intros s Hs. apply in_map_iff in Hs. destruct Hs as (t & <- & Ht).
      apply in_rev in Ht. rewrite Forall_forall in H0. apply (H0 _ Ht).
    + constructor; [|constructor]. destruct H0 as (A & B & _). now apply level_concat_sorted.
  - apply IH. intros n. specialize (H (S n)). cbn [nth] in H. now rewrite Nat.add_succ_r in H.
Qed.

Theorem merged_open_db d :
  l_mt d = [] -> db_ok d -> l0_nodup (nth 0 (l_levels d) []) -> merged (open_db d) = merged d.
Proof.
  intros Hm (_ & Himm & Hlv) Hn. unfold merged, all_srcs, open_db, open_levels. cbn [l_mt l_imm l_levels].
  rewrite Hm. destruct (l_levels d) as [|l0 r] eqn:El; auto.
  cbn [levels_srcs level_src nth] in *.
  change (merge_all (([] :: rev (l_imm d)) ++ (map t_ents (rev (sort_by_id l0)) ++ levels_srcs 1 r)) =
          merge_all (([] :: rev (l_imm d)) ++ (map t_ents (rev l0) ++ levels_srcs 1 r))).
  rewrite !(merge_all_app ([] :: rev (l_imm d))). f_equal.
  rewrite !merge_all_app.
  assert (Hr: Forall ssorted (levels_srcs 1 r)).
  { apply levels_srcs_sorted. intros n. apply (Hlv (S n)). }
  assert (H0: Forall tbl_ok l0) by apply (Hlv O).
  symmetry. apply fold_merge_perm.
  - apply Permutation_map. apply Permutation_rev'. symmetry. apply sort_by_id_perm.
  - now apply merge_all_sorted.
  - apply Forall_forall. intros s Hs. apply in_map_iff in Hs. destruct Hs as (t & <- & Ht).
    apply in_rev in Ht. rewrite Forall_forall in H0. apply (H0 _ Ht).
  - unfold l0_nodup, srcs_nodup in *. eapply Permutation_NoDup; [|exact Hn].
    apply Permutation_map. apply Permutation_concat. apply Permutation_map. apply Permutation_rev.
Qed.

(* C07, iterator view, any level-0 order *)
Theorem reopen_preserves_merged d ids :
  db_ok d -> l0_nodup (closed_l0 d ids) -> merged (reopen_db d ids) = merged d.
Proof.
  intros Hd Hn. unfold reopen_db. rewrite merged_open_db; auto.
  - apply merged_close_db.
  - apply close_db_mt.
  - now apply close_db_ok.
Qed.

(* in a reachable state of a normal-mode history the hypotheses hold: sortedness by the C14
   invariant; no key@version twice because every commit has its own timestamp - the second part
   is not proved here (it needs the history-level invariant `versions of s_writes are distinct
   per key`), so it stays a hypothesis *)
Lemma ex_db1_ok : db_ok ex_db1 /\ l0_nodup (closed_l0 ex_db1 [6]).
Proof.
  split.
  - unfold ex_db1, db_ok. cbn [l_mt l_imm l_levels]. repeat split; try (repeat constructor; fail).
    apply levels_wf_iff. reflexivity.
  - unfold l0_nodup, srcs_nodup, closed_l0, ex_db1. cbn.
    repeat constructor; cbn; intuition discriminate.
Qed.
