(* StreamProofs.v — proofs about Stream.v: KeyToList, the produceKVs loop, the range partition,
   the backup / load round trip and incremental chains.  Specification vocabulary first. *)
From Verif Require Import Bytes BytesProofs Keys C20Proofs Consts Spec Lsm Compact Iter Sys Stream.
From Coq Require Import ZifyN ZifyNat ZifyBool Sorting.Sorted.
Open Scope N_scope.

(* ---------------------------------------------------------------- vocabulary *)
Fixpoint drop_while {A} (p : A -> bool) (l : list A) : list A :=
  match l with
  | [] => []
  | x :: r => if p x then drop_while p r else l
  end.

Definition key_lt (a b : bytes) : bool := match lex_cmp a b with Lt => true | _ => false end.
Definition key_is (k : bytes) (e : entry) : bool := bytes_eqb (e_key e) k.
Definition ent_lt (a b : entry) : Prop := ent_cmp a b = Lt.

(* a merged view: strictly increasing internal keys (user key ascending, version descending) *)
Definition view_ok (m : src) : Prop := StronglySorted ent_lt m.
Definition no_empty_key (m : src) : Prop := Forall (fun e => e_key e <> []) m.

(* what the stream iterator of one producer shows: prefix, not internal, version <= rts,
   above SinceTs, not banned *)
Definition shown (prefix : bytes) (since rts : N) (banned : bytes -> bool) (e : entry) : bool :=
  is_prefix prefix (e_key e) && negb (skip_common (stream_io prefix since) rts banned e).
Definition shown_items prefix since rts banned (m : src) : list entry :=
  filter (shown prefix since rts banned) m.

(* the versions a backup retains for one key: newest first, down to and including the first
   delete / expired / discard-earlier marker *)
Definition marker (now : N) (e : entry) : bool := has_discard e || deleted_or_expired e now.
Fixpoint cut {A} (p : A -> bool) (l : list A) : list A :=
  match l with
  | [] => []
  | x :: r => if p x then [x] else x :: cut p r
  end.
(* the KVs written for the retained versions: the discard-earlier marker is followed by a
   synthetic delete one version below *)
Definition expand (now : N) (l : list entry) : list entry :=
  flat_map (fun e => bk_entry now e :: (if has_discard e then [synth_delete e] else [])) l.

(* ---------------------------------------------------------------- order on user keys *)
Lemma lex_le_trans a b c : lex_cmp a b <> Gt -> lex_cmp b c <> Gt -> lex_cmp a c <> Gt.
Proof.
  intros H1 H2.
  destruct (lex_cmp a b) eqn:E1; [|clear H1|congruence].
  - apply lex_cmp_eq in E1. now subst.
  - destruct (lex_cmp b c) eqn:E2; [|clear H2|congruence].
    + apply lex_cmp_eq in E2. subst. congruence.
    + rewrite (lex_cmp_trans_lt a b c E1 E2). congruence.
Qed.

Lemma lex_lt_le_trans a b c : lex_cmp a b = Lt -> lex_cmp b c <> Gt -> lex_cmp a c = Lt.
Proof.
  intros H1 H2. destruct (lex_cmp b c) eqn:E2; [| |congruence].
  - apply lex_cmp_eq in E2. now subst.
  - exact (lex_cmp_trans_lt a b c H1 E2).
Qed.

Lemma lex_le_lt_trans a b c : lex_cmp a b <> Gt -> lex_cmp b c = Lt -> lex_cmp a c = Lt.
Proof.
  intros H1 H2. destruct (lex_cmp a b) eqn:E1; [| |congruence].
  - apply lex_cmp_eq in E1. now subst.
  - exact (lex_cmp_trans_lt a b c E1 H2).
Qed.

Lemma lex_gt_lt a b : lex_cmp a b = Gt <-> lex_cmp b a = Lt.
Proof. rewrite (lex_cmp_antisym a b). destruct (lex_cmp a b); cbn; split; congruence. Qed.

Lemma lex_nil_le x : lex_cmp [] x <> Gt.
Proof. destruct x; cbn; congruence. Qed.

Lemma lex_not_lt_nil x : lex_cmp x [] <> Lt.
Proof. destruct x; cbn; congruence. Qed.

(* strings with prefix p are an interval: between two of them everything has the prefix *)
Lemma is_prefix_between p l x y :
  is_prefix p l = true -> is_prefix p y = true ->
  lex_cmp l x <> Gt -> lex_cmp x y <> Gt -> is_prefix p x = true.
Proof.
  revert l x y. induction p as [|a p IH]; intros l x y Hl Hy H1 H2; [reflexivity|].
  destruct l as [|b l]; [discriminate|]. destruct y as [|c y]; [discriminate|].
  cbn in Hl, Hy. apply andb_true_iff in Hl. destruct Hl as [Hab Hl].
  apply andb_true_iff in Hy. destruct Hy as [Hac Hy].
  apply N.eqb_eq in Hab, Hac. subst b c.
  destruct x as [|d x]; [cbn in H1; congruence|].
  cbn in H1, H2. cbn.
  destruct (a ?= d) eqn:E1; [|clear H1|congruence].
  - apply N.compare_eq_iff in E1. subst d. rewrite N.compare_refl in H2.
    rewrite N.eqb_refl. cbn. exact (IH l x y Hl Hy H1 H2).
  - rewrite N.compare_lt_iff in E1. destruct (d ?= a) eqn:E2.
    + apply N.compare_eq_iff in E2. lia.
    + rewrite N.compare_lt_iff in E2. lia.
    + congruence.
Qed.

Lemma is_prefix_le p x : is_prefix p x = true -> lex_cmp p x <> Gt.
Proof.
  revert x. induction p as [|a p IH]; intros x H; [apply lex_nil_le|].
  destruct x as [|b x]; [discriminate|]. cbn in H. apply andb_true_iff in H. destruct H as [Hab H].
  apply N.eqb_eq in Hab. subst b. cbn. rewrite N.compare_refl. now apply IH.
Qed.

Lemma is_prefix_refl p : is_prefix p p = true.
Proof. induction p as [|a p IH]; cbn; auto. now rewrite N.eqb_refl. Qed.

(* once a string >= l (l has the prefix) lacks the prefix, all larger strings lack it *)
Lemma no_prefix_upward p l x y :
  is_prefix p l = true -> lex_cmp l x <> Gt -> lex_cmp x y <> Gt ->
  is_prefix p x = false -> is_prefix p y = false.
Proof.
  intros Hl H1 H2 Hx. destruct (is_prefix p y) eqn:Hy; [|reflexivity].
  rewrite (is_prefix_between p l x y Hl Hy H1 H2) in Hx. discriminate.
Qed.

(* ---------------------------------------------------------------- small list facts *)
Lemma drop_while_app_all {A} (p : A -> bool) a b :
  Forall (fun x => p x = true) a -> drop_while p (a ++ b) = drop_while p b.
Proof. induction 1 as [|x a Hx _ IH]; cbn; auto. now rewrite Hx. Qed.

Lemma drop_while_none {A} (p : A -> bool) l :
  Forall (fun x => p x = false) l -> drop_while p l = l.
Proof. intros H. destruct H as [|x l Hx _]; cbn; auto. now rewrite Hx. Qed.

Lemma filter_none {A} (p : A -> bool) l : Forall (fun x => p x = false) l -> filter p l = [].
Proof. induction 1 as [|x l Hx _ IH]; cbn; auto. now rewrite Hx. Qed.

Lemma filter_all {A} (p : A -> bool) l : Forall (fun x => p x = true) l -> filter p l = l.
Proof. induction 1 as [|x l Hx _ IH]; cbn; auto. rewrite Hx. now f_equal. Qed.

Lemma filter_ext_in' {A} (p q : A -> bool) l : (forall x, In x l -> p x = q x) -> filter p l = filter q l.
Proof.
  induction l as [|x l IH]; intros H; cbn; auto.
  rewrite (H x (or_introl eq_refl)). rewrite IH; auto. intros y Hy. apply H. now right.
Qed.

Lemma filter_filter {A} (p q : A -> bool) l : filter p (filter q l) = filter (fun x => q x && p x) l.
Proof.
  induction l as [|x l IH]; cbn; auto. destruct (q x); cbn; [destruct (p x); cbn; now rewrite IH|auto].
Qed.

Lemma sorted_filter {A} (R : A -> A -> Prop) (p : A -> bool) l :
  StronglySorted R l -> StronglySorted R (filter p l).
Proof.
  induction 1 as [|x l Hs IH Hx]; cbn; [constructor|].
  destruct (p x); auto. constructor; auto.
  rewrite Forall_forall in *. intros y Hy. apply filter_In in Hy. apply Hx. tauto.
Qed.

Lemma sorted_app_r {A} (R : A -> A -> Prop) a b : StronglySorted R (a ++ b) -> StronglySorted R b.
Proof. induction a as [|x a IH]; cbn; auto. intros H. inversion H; subst. auto. Qed.

(* ---------------------------------------------------------------- the order on entries *)
Lemma ent_lt_key_le a b : ent_lt a b -> lex_cmp (e_key a) (e_key b) <> Gt.
Proof.
  unfold ent_lt, ent_cmp, key_order. destruct (lex_cmp (e_key a) (e_key b)); congruence.
Qed.

Lemma ent_lt_same_key a b : ent_lt a b -> e_key a = e_key b -> e_ver b < e_ver a.
Proof.
  unfold ent_lt, ent_cmp, key_order. intros H E. rewrite E, lex_cmp_refl in H.
  now apply N.compare_lt_iff in H.
Qed.

Lemma key_le_key k ts e : key_le k ts e = true -> lex_cmp k (e_key e) <> Gt.
Proof. unfold key_le, key_order. destruct (lex_cmp k (e_key e)); congruence. Qed.

(* key_le false: the entry is before (k, ts): smaller user key, or the key itself at a newer version *)
Lemma key_le_false k ts e : key_le k ts e = false ->
  lex_cmp (e_key e) k = Lt \/ (e_key e = k /\ ts < e_ver e).
Proof.
  unfold key_le, key_order. destruct (lex_cmp k (e_key e)) eqn:E; try discriminate.
  - apply lex_cmp_eq in E. subst k. destruct (e_ver e ?= ts) eqn:C; try discriminate.
    intros _. right. split; auto. now apply N.compare_gt_iff in C.
  - intros _. left. now apply lex_gt_lt.
Qed.

Lemma view_distinct m a b : view_ok m -> In a m -> In b m ->
  e_key a = e_key b -> e_ver a = e_ver b -> a = b.
Proof.
  unfold view_ok. induction 1 as [|x l Hs IH Hx]; [contradiction|].
  rewrite Forall_forall in Hx.
  intros [->|Ha] [->|Hb] Hk Hv; auto.
  - pose proof (ent_lt_same_key _ _ (Hx _ Hb) Hk). lia.
  - pose proof (ent_lt_same_key _ _ (Hx _ Ha) (eq_sym Hk)). lia.
Qed.

(* ---------------------------------------------------------------- KeyToList *)
Lemma fst_let {A B C} (p : A * B) (f : A -> C) : fst (let '(l, r) := p in (f l, r)) = f (fst p).
Proof. now destruct p. Qed.
Lemma snd_let {A B C} (p : A * B) (f : A -> C) : snd (let '(l, r) := p in (f l, r)) = snd p.
Proof. now destruct p. Qed.

(* the iterator only moves past items of the key it was called for *)
Lemma to_list_rest nkeep now key its :
  exists taken, its = taken ++ snd (to_list nkeep now key its) /\ Forall (fun e => key_is key e = true) taken.
Proof.
  induction its as [|e r IH]; cbn [to_list]; [exists []; auto|].
  destruct (deleted_or_expired e now); [exists []; auto|].
  destruct (bytes_eqb key (e_key e)) eqn:Ek; cbn [negb]; [|exists []; auto].
  destruct (nkeep =? 1); [exists []; auto|].
  destruct (has_discard e); [exists []; auto|].
  rewrite snd_let. destruct IH as (t & Ht & Hf). exists (e :: t). split.
  - cbn. now f_equal.
  - constructor; auto. unfold key_is. apply bytes_eqb_eq in Ek. subst key. apply bytes_eqb_refl.
Qed.

Lemma bk_list_rest since now key its :
  exists taken, its = taken ++ snd (bk_list since now key its) /\ Forall (fun e => key_is key e = true) taken.
Proof.
  induction its as [|e r IH]; cbn [bk_list]; [exists []; auto|].
  destruct (bytes_eqb (e_key e) key) eqn:Ek; cbn [negb]; [|exists []; auto].
  destruct (e_ver e <? since); [exists []; auto|].
  destruct (has_discard e); [exists []; auto|].
  destruct (deleted_or_expired e now); [exists []; auto|].
  rewrite snd_let. destruct IH as (t & Ht & Hf). exists (e :: t). split.
  - cbn. now f_equal.
  - constructor; auto.
Qed.

Lemma ktl_rest kd now key its :
  exists taken, its = taken ++ snd (key_to_list kd now key its) /\ Forall (fun e => key_is key e = true) taken.
Proof.
  destruct kd as [nkeep|since]; cbn [key_to_list].
  - rewrite snd_let. apply to_list_rest.
  - apply bk_list_rest.
Qed.

(* every KV of the list carries the key *)
Lemma to_list_keys nkeep now key its : Forall (fun x => e_key x = key) (fst (to_list nkeep now key its)).
Proof.
  induction its as [|e r IH]; cbn [to_list]; [constructor|].
  destruct (deleted_or_expired e now); [constructor|].
  destruct (bytes_eqb key (e_key e)); cbn [negb]; [|constructor].
  destruct (nkeep =? 1); [repeat constructor|].
  destruct (has_discard e); [repeat constructor|].
  rewrite fst_let. constructor; auto.
Qed.

Lemma bk_list_keys since now key its l :
  fst (bk_list since now key its) = Some l -> Forall (fun x => e_key x = key) l.
Proof.
  revert l. induction its as [|e r IH]; intros l; cbn [bk_list]; [intros [= <-]; constructor|].
  destruct (bytes_eqb (e_key e) key) eqn:Ek; cbn [negb]; [|intros [= <-]; constructor].
  apply bytes_eqb_eq in Ek.
  destruct (e_ver e <? since); [discriminate|].
  destruct (has_discard e); [intros [= <-]; repeat constructor; auto|].
  destruct (deleted_or_expired e now); [intros [= <-]; repeat constructor; auto|].
  rewrite fst_let. destruct (fst (bk_list since now key r)) as [l'|]; [|discriminate].
  intros [= <-]. constructor; auto.
Qed.

Lemma ktl_keys kd now key its l :
  fst (key_to_list kd now key its) = Some l -> Forall (fun x => e_key x = key) l.
Proof.
  destruct kd as [nkeep|since]; cbn [key_to_list].
  - rewrite fst_let. intros [= <-]. apply to_list_keys.
  - apply bk_list_keys.
Qed.

(* the result only depends on the leading items of that key *)
Definition other_head (k : bytes) (rest : list entry) : Prop :=
  match rest with [] => True | e :: _ => key_is k e = false end.

Lemma key_is_sym k e : bytes_eqb k (e_key e) = key_is k e.
Proof.
  unfold key_is. destruct (bytes_eqb k (e_key e)) eqn:E.
  - apply bytes_eqb_eq in E. subst k. symmetry. apply bytes_eqb_refl.
  - destruct (bytes_eqb (e_key e) k) eqn:E2; auto. apply bytes_eqb_eq in E2. subst k.
    rewrite bytes_eqb_refl in E. discriminate.
Qed.

Lemma to_list_local nkeep now k g rest :
  Forall (fun e => key_is k e = true) g -> other_head k rest ->
  fst (to_list nkeep now k (g ++ rest)) = fst (to_list nkeep now k g).
Proof.
  intros Hg Hr. induction Hg as [|e g He _ IH]; cbn [app].
  - destruct rest as [|e r]; cbn [to_list]; auto. cbn in Hr.
    destruct (deleted_or_expired e now); auto. rewrite key_is_sym, Hr. reflexivity.
  - cbn [to_list]. destruct (deleted_or_expired e now); auto.
    destruct (bytes_eqb k (e_key e)); cbn [negb]; auto.
    destruct (nkeep =? 1); auto. destruct (has_discard e); auto.
    rewrite !fst_let. now f_equal.
Qed.

Lemma bk_list_local since now k g rest :
  Forall (fun e => key_is k e = true) g -> other_head k rest ->
  fst (bk_list since now k (g ++ rest)) = fst (bk_list since now k g).
Proof.
  intros Hg Hr. induction Hg as [|e g He _ IH]; cbn [app].
  - destruct rest as [|e r]; cbn [bk_list]; auto. cbn in Hr. unfold key_is in Hr. now rewrite Hr.
  - cbn [bk_list]. destruct (bytes_eqb (e_key e) k); cbn [negb]; auto.
    destruct (e_ver e <? since); auto. destruct (has_discard e); auto.
    destruct (deleted_or_expired e now); auto.
    rewrite !fst_let. now f_equal.
Qed.

Lemma ktl_local kd now k g rest :
  Forall (fun e => key_is k e = true) g -> other_head k rest ->
  fst (key_to_list kd now k (g ++ rest)) = fst (key_to_list kd now k g).
Proof.
  intros Hg Hr. destruct kd as [nkeep|since]; cbn [key_to_list].
  - rewrite !fst_let. f_equal. now apply to_list_local.
  - now apply bk_list_local.
Qed.

(* ---------------------------------------------------------------- the produceKVs loop *)
Section ProduceProofs.
  Variable ktl : bytes -> list entry -> option (list entry) * list entry.
  Variable choose : entry -> bool.
  Hypothesis ktl_rest_ok : forall key its,
    exists taken, its = taken ++ snd (ktl key its) /\ Forall (fun e => key_is key e = true) taken.

  Definition deliver (e : entry) (its : list entry) : list (bytes * list entry) :=
    if choose e then match fst (ktl (e_key e) its) with
                     | Some (x :: l) => [(e_key e, x :: l)]
                     | _ => []
                     end
    else [].

  (* the same loop, structurally: one step per item; yields (key, KV list) *)
  Fixpoint produce_k (right : bytes) (its : list entry) (prev : bytes) : list (bytes * list entry) :=
    match its with
    | [] => []
    | e :: r =>
        if bytes_eqb (e_key e) prev then produce_k right r prev
        else if past_right right (e_key e) then []
        else deliver e its ++ produce_k right r (e_key e)
    end.

  Lemma produce_k_skip right taken rest k :
    Forall (fun e => key_is k e = true) taken ->
    produce_k right (taken ++ rest) k = produce_k right rest k.
  Proof.
    induction 1 as [|e t He _ IH]; cbn [app produce_k]; auto.
    unfold key_is in He. now rewrite He.
  Qed.

  Lemma produce_fuel_enough right : forall n its prev fuel,
    (length its <= n)%nat ->
    ((2 * length its + 1 <= fuel)%nat \/
     ((2 * length its <= fuel)%nat /\ match its with e :: _ => bytes_eqb (e_key e) prev = true | [] => True end)) ->
    produce ktl choose right fuel its prev = map snd (produce_k right its prev).
  Proof.
    induction n as [|n IH]; intros its prev fuel Hn Hf.
    - destruct its; [|cbn in Hn; lia]. destruct fuel; reflexivity.
    - destruct its as [|e r]; [destruct fuel; reflexivity|].
      cbn [length] in Hn, Hf.
      destruct fuel as [|f]; [exfalso; lia|].
      cbn [produce produce_k].
      destruct (bytes_eqb (e_key e) prev) eqn:Ep.
      + apply IH; [lia|]. left. lia.
      + assert (Hf1: (2 * S (length r) + 1 <= S f)%nat) by (destruct Hf as [H|[_ H]]; [exact H|discriminate]).
        destruct (past_right right (e_key e)); [reflexivity|].
        assert (Hhead: produce ktl choose right f (e :: r) (e_key e)
                       = map snd (produce_k right r (e_key e))).
        { destruct f as [|f']; [exfalso; lia|]. cbn [produce]. rewrite bytes_eqb_refl.
          apply IH; [lia|]. left. lia. }
        unfold deliver. destruct (choose e); cbn [negb app map].
        2:{ exact Hhead. }
        destruct (ktl_rest_ok (e_key e) (e :: r)) as (taken & Ht & Hk).
        destruct (ktl (e_key e) (e :: r)) as [ol rest] eqn:Ek. cbn [fst snd] in *.
        assert (Hrest: produce ktl choose right f rest (e_key e)
                       = map snd (produce_k right r (e_key e))).
        { destruct taken as [|t0 taken'].
          - cbn in Ht. subst rest. exact Hhead.
          - cbn in Ht. injection Ht as <- Hr. subst r.
            inversion Hk as [|? ? _ Hk']; subst.
            rewrite produce_k_skip by exact Hk'.
            apply IH.
            + rewrite app_length in Hn. lia.
            + left. rewrite app_length in Hf1. lia. }
        destruct ol as [[|x l]|]; cbn [map snd app]; rewrite Hrest; reflexivity.
  Qed.

  Lemma produce_is_produce_k right its :
    produce ktl choose right (produce_fuel its) its [] = map snd (produce_k right its []).
  Proof.
    apply (produce_fuel_enough right (length its)); [lia|]. left. unfold produce_fuel. lia.
  Qed.

  (* ---- two adjacent ranges deliver what the union range delivers ---- *)
  Lemma produce_k_prev_irrelevant right e r p1 p2 :
    bytes_eqb (e_key e) p1 = false -> bytes_eqb (e_key e) p2 = false ->
    produce_k right (e :: r) p1 = produce_k right (e :: r) p2.
  Proof. intros H1 H2. cbn [produce_k]. now rewrite H1, H2. Qed.

  Lemma past_right_nil k : past_right [] k = false.
  Proof. reflexivity. Qed.

  Lemma past_right_spec right k : right <> [] ->
    past_right right k = negb (key_lt k right).
  Proof. unfold past_right, key_lt. destruct right; [congruence|]. intros _. now destruct (lex_cmp k (n :: right)). Qed.

  Lemma split_two (k right : bytes) : k <> [] ->
    (right = [] \/ lex_cmp k right <> Gt) ->
    forall J prev,
    no_empty_key J -> (prev = [] \/ lex_cmp prev k = Lt) ->
    produce_k k J prev ++ produce_k right (drop_while (fun e => key_lt (e_key e) k) J) []
    = produce_k right J prev.
  Proof.
    intros Hk Hr. induction J as [|e r IH]; intros prev Hne Hp; [reflexivity|].
    inversion Hne as [|? ? He Hne']; subst.
    cbn [drop_while]. destruct (key_lt (e_key e) k) eqn:Elt.
    - (* the item belongs to the first range *)
      cbn [produce_k]. destruct (bytes_eqb (e_key e) prev) eqn:Ep; [now apply IH|].
      rewrite (past_right_spec k) by exact Hk. rewrite Elt. cbn [negb].
      assert (Hpr: past_right right (e_key e) = false).
      { destruct Hr as [->|Hr]; [reflexivity|].
        destruct right as [|b right']; [reflexivity|]. rewrite past_right_spec by discriminate.
        unfold key_lt in *. destruct (lex_cmp (e_key e) k) eqn:E; try discriminate.
        rewrite (lex_lt_le_trans _ _ _ E Hr). reflexivity. }
      rewrite Hpr. rewrite <- app_assoc. f_equal. apply IH; auto.
      right. unfold key_lt in Elt. now destruct (lex_cmp (e_key e) k).
    - (* first key at or beyond k: the first range stops, the second starts here *)
      assert (Ep: bytes_eqb (e_key e) prev = false).
      { destruct (bytes_eqb (e_key e) prev) eqn:E; auto. apply bytes_eqb_eq in E.
        destruct Hp as [->|Hp]; [congruence|]. subst prev. unfold key_lt in Elt. now rewrite Hp in Elt. }
      assert (En: bytes_eqb (e_key e) [] = false).
      { destruct (bytes_eqb (e_key e) []) eqn:E; auto. apply bytes_eqb_eq in E. congruence. }
      replace (produce_k k (e :: r) prev) with (@nil (bytes * list entry)).
      + cbn [app]. apply produce_k_prev_irrelevant; auto.
      + cbn [produce_k]. rewrite Ep. rewrite (past_right_spec k) by exact Hk. now rewrite Elt.
  Qed.
End ProduceProofs.
