(* StreamWriterPlaceProofs.v — the sorted writer of a stream places every value where
   valueLog.write put it, whatever the dynamic threshold does between the two consultations;
   hence every streamed value is read back unchanged (through VlogWriteProofs). *)
From Coq Require Import Lia ZifyN ZifyNat ZifyBool.
From Verif Require Import Bytes Codec LogRecord Consts Threshold ThresholdProofs C20Proofs VlogWrite VlogWriteProofs StreamWriterPlace.

(* ---- the two consultations ---- *)
Open Scope Z_scope.

Lemma sw_decisions_eq vlen t1 t2 :
  sw_decisions vlen t1 t2 = (vlen <? t1, vlen <? (if t1 =? 0 then t2 else t1)).
Proof.
  unfold sw_decisions, decisions, skip_vlog, set_threshold.
  replace (0 =? 0) with true by reflexivity. reflexivity.
Qed.

(* both decisions are the ones Threshold.decisions takes along [t_vlog; t_sorted] *)
Lemma sw_decisions_list vlen t1 t2 :
  decisions vlen 0 [t1; t2] = [sw_vlog_skip vlen t1 t2; sw_inline vlen t1 t2].
Proof.
  unfold sw_vlog_skip, sw_inline. rewrite sw_decisions_eq.
  unfold decisions, skip_vlog, set_threshold. replace (0 =? 0) with true by reflexivity. reflexivity.
Qed.

(* the sorted writer decides as valueLog.write did (instance of threshold_consistent) *)
Theorem sw_placement_consistent vlen t1 t2 : t1 <> 0 ->
  sw_decisions vlen t1 t2 = (vlen <? t1, vlen <? t1).
Proof.
  intros H. pose proof (threshold_consistent vlen t1 [t2] H) as F.
  rewrite sw_decisions_list in F.
  inversion F as [|a l Ha Fl]; subst. inversion Fl as [|b l' Hb _]; subst.
  rewrite (surjective_pairing (sw_decisions vlen t1 t2)).
  unfold sw_vlog_skip in Ha. unfold sw_inline in Hb. rewrite Ha, Hb. reflexivity.
Qed.

Corollary sw_inline_eq_skip vlen t1 t2 : t1 <> 0 ->
  sw_inline vlen t1 t2 = sw_vlog_skip vlen t1 t2.
Proof.
  intros H. unfold sw_inline, sw_vlog_skip. rewrite (sw_placement_consistent _ _ _ H). reflexivity.
Qed.

(* without any hypothesis: a value valueLog.write skipped is never stored as a pointer
   (a zero threshold caches nothing, but then valueLog.write skips nothing either) *)
Theorem sw_skip_inline vlen t1 t2 : 0 <= vlen ->
  sw_vlog_skip vlen t1 t2 = true -> sw_inline vlen t1 t2 = true.
Proof.
  intros Hv. unfold sw_vlog_skip, sw_inline. rewrite sw_decisions_eq. cbn [fst snd].
  intros H. destruct (t1 =? 0) eqn:E; [lia | exact H].
Qed.

Lemma zlen_nonneg b : 0 <= zlen b.
Proof. unfold zlen. lia. Qed.

Lemma se_skip_inline c : se_skip c = true -> se_inline c = true.
Proof. apply sw_skip_inline, zlen_nonneg. Qed.

Lemma se_inline_eq_skip c : se_tv c <> 0 -> se_inline c = se_skip c.
Proof. apply sw_inline_eq_skip. Qed.

(* ---- list plumbing ---- *)
Lemma Forall2_map_l {A B C} (f : A -> B) (P : B -> C -> Prop) l l2 :
  Forall2 P (map f l) l2 -> Forall2 (fun a c => P (f a) c) l l2.
Proof.
  revert l2. induction l as [|a r IH]; intros l2 H; inversion H; subst; constructor; auto.
Qed.

Lemma Forall2_with {A B} (Q : A -> Prop) (P R : A -> B -> Prop) l l2 :
  (forall a b, Q a -> P a b -> R a b) -> Forall Q l -> Forall2 P l l2 -> Forall2 R l l2.
Proof.
  intros I F H. induction H; constructor; inversion F; subst; auto.
Qed.

Open Scope N_scope.

Section PlaceP.
  Variable encrypted : bool.
  Variable xs : bytes -> bytes -> bytes.
  Variable iv_of hdr_of : N -> bytes.
  Variable file_size max_entries : N.
  Hypothesis xs_len : forall iv d, length (xs iv d) = length d.
  Hypothesis xs_invol : forall iv d, xs iv (xs iv d) = d.
  Hypothesis xs_stream : forall iv a b, firstn (length a) (xs iv (a ++ b)) = xs iv a.
  Hypothesis hdr_len : forall f, N.of_nat (length (hdr_of f)) = c_vlogHeaderSize.

  (* the inputs the implementation handles: a value that goes to the value log must be
     encodable as a record (wfe: the uint32 / byte ranges of the record header); a KV whose
     meta byte carries bitValuePointer is not a streamed entry (Stream never produces one): the
     sorted writer keeps the meta byte of an inline value as it is *)
  Definition se_wf (c : sentry) : Prop :=
    (se_skip c = false -> wfe (se_e c)) /\
    (se_inline c = true -> N.land (e_meta (se_e c)) c_bitValuePointer = 0).

  (* what is read back for a stored entry: the streamed value, and the stored struct carries
     the streamed user meta and expiry *)
  Definition sw_reads_back (st : vlog) (c : sentry) (p : vptr) : Prop :=
    sw_read encrypted xs iv_of st c p = Some (e_value (se_e c)) /\
    vs_umeta (sw_value (se_e c) (se_inline c) p) = e_umeta (se_e c) /\
    vs_expires (sw_value (se_e c) (se_inline c) p) = e_expires (se_e c).

  Lemma se_read_back st c p : se_wf c ->
    reads_back encrypted xs iv_of st (se_req c) p -> sw_reads_back st c p.
  Proof.
    intros [_ Wm] R. unfold reads_back, se_req in R. cbn [fst snd] in R.
    unfold sw_reads_back, sw_read.
    destruct (se_inline c) eqn:I.
    - unfold sw_value, VlogWrite.item_value. cbn [vs_meta vs_value vs_umeta vs_expires].
      rewrite (Wm eq_refl), N.eqb_refl. repeat split; reflexivity.
    - assert (S: se_skip c = false).
      { destruct (se_skip c) eqn:S; [|reflexivity]. rewrite (se_skip_inline c S) in I. discriminate. }
      rewrite S in R. unfold lsm_value in R. unfold sw_value.
      cbn [vs_umeta vs_expires]. repeat split; try reflexivity. exact R.
  Qed.

  (* every history of StreamWriter.Write calls (any streams, any batching, any entries, ANY
     thresholds at the two consultations of every entry): in the final value-log state every
     stored entry reads back its streamed value *)
  Theorem sw_streamed_read_back calls st st' psss :
    vwf st -> Forall (Forall (Forall se_wf)) calls ->
    sw_vlog_writes encrypted xs iv_of hdr_of file_size max_entries st calls = (st', psss) ->
    small st' ->
    Forall2 (Forall2 (Forall2 (sw_reads_back st'))) calls psss.
  Proof.
    intros W F H S. unfold sw_vlog_writes in H.
    assert (Fw: Forall (Forall wfes) (map (map (map se_req)) calls)).
    { apply Forall_map. eapply Forall_impl; [|exact F]. intros reqs Fr.
      apply Forall_map. eapply Forall_impl; [|exact Fr]. intros es Fe.
      unfold wfes. apply Forall_map. eapply Forall_impl; [|exact Fe]. intros c [Wc _].
      unfold se_req. cbn [fst snd]. exact Wc. }
    pose proof (write_calls_read_back encrypted xs iv_of hdr_of file_size max_entries
                  xs_len xs_invol xs_stream hdr_len _ _ _ _ W Fw H S) as G.
    apply Forall2_map_l in G.
    eapply Forall2_with; [|exact F|exact G]. intros reqs pss Fr Gr. cbv beta in Gr.
    apply Forall2_map_l in Gr.
    eapply Forall2_with; [|exact Fr|exact Gr]. intros es ps Fe Ge. cbv beta in Ge.
    apply Forall2_map_l in Ge.
    eapply Forall2_with; [|exact Fe|exact Ge]. intros c p Wc Gc. cbv beta in Gc.
    apply se_read_back; assumption.
  Qed.

  (* the defect the cache excludes, as a run of the same definitions: a sorted writer that
     decided from the LIVE threshold would store the zero pointer valueLog.write returned for
     a skipped value, and the read yields something else than the streamed value *)
  Lemma zero_pointer_not_read_back st e :
    vwf st -> e_value e <> [] ->
    item_value encrypted xs iv_of st (sw_value e false zero_ptr) <> Some (e_value e).
  Proof.
    intros [_ Hhi] Hv. unfold VlogWrite.item_value, sw_value. cbn [vs_meta vs_value].
    rewrite land_lor_bit.
    destruct (vptr_decode (vptr_encode zero_ptr)) as [p|] eqn:D; [|discriminate].
    assert (Ep: p = zero_ptr).
    { destruct (vptr_roundtrip zero_ptr) as [R _]; try (cbn; unfold two32; lia).
      rewrite R in D. injection D as <-. reflexivity. }
    subst p. unfold VlogWrite.read_value, read_bytes. cbn [zero_ptr vp_fid vp_off vp_len].
    destruct (fget (vl_files st) 0) as [d|] eqn:F; [|discriminate].
    destruct ((0 =? vl_max st) && (vl_woff st <=? 0)); [discriminate|].
    destruct ((N.of_nat (length d) <=? 0) || (N.of_nat (length d) <? 0 + 0)); [discriminate|].
    cbn [N.to_nat firstn].
    destruct (decode_entry encrypted xs (iv_of 0) [] 0) as [e'|] eqn:De; [|discriminate].
    exfalso. clear -De. unfold decode_entry in De. cbn in De. discriminate.
  Qed.
End PlaceP.
