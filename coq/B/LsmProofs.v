(* LsmProofs.v — facts about point lookup and the merged view *)
From Verif Require Import Bytes BytesProofs Keys C20Proofs Consts Spec Lsm.
From Coq Require Import ZifyN ZifyNat ZifyBool.
Open Scope N_scope.

(* the scan without the early exit: strict-max, first wins *)
Definition first_max (cs : list (option entry)) (best : option entry) : option entry :=
  fold_left better cs best.

Definition ver_le (ts : N) (c : option entry) : Prop :=
  match c with Some e => e_ver e <= ts | None => True end.

Lemma better_ver_le ts b c : ver_le ts b -> ver_le ts c -> ver_le ts (better b c).
Proof.
  destruct b as [b|], c as [c|]; cbn; auto.
  destruct (e_ver b <? e_ver c); cbn; auto.
Qed.

(* once the best candidate has version ts, no candidate <= ts can replace it *)
Lemma first_max_saturated cs e ts :
  e_ver e = ts -> Forall (ver_le ts) cs -> first_max cs (Some e) = Some e.
Proof.
  intros He. induction cs as [|c cs IH]; intros HF; cbn; auto.
  inversion HF as [|? ? Hc HF']; subst. destruct c as [c|]; cbn.
  - cbn in Hc. assert (E: (e_ver e <? e_ver c) = false) by (apply N.ltb_ge; lia).
    rewrite E. now apply IH.
  - now apply IH.
Qed.

(* the early exit of db.get / levelsController.get is only an optimisation *)
Lemma scan_first_max cs ts best :
  Forall (ver_le ts) cs -> ver_le ts best ->
  (forall b, best = Some b -> e_ver b <> ts) ->
  scan cs ts best = first_max cs best.
Proof.
  revert best. induction cs as [|c cs IH]; intros best HF Hb Hne; cbn; auto.
  inversion HF as [|? ? Hc HF']; subst. destruct c as [c|].
  - destruct (e_ver c =? ts) eqn:E.
    + apply N.eqb_eq in E. symmetry.
      assert (Hbt: better best (Some c) = Some c).
      { destruct best as [b|]; cbn; auto. cbn in Hb. specialize (Hne b eq_refl).
        assert (L: (e_ver b <? e_ver c) = true) by (apply N.ltb_lt; lia). now rewrite L. }
      unfold first_max. cbn [fold_left]. rewrite Hbt. now apply (first_max_saturated cs c ts).
    + apply N.eqb_neq in E. unfold first_max. cbn [fold_left]. apply IH; auto.
      * apply better_ver_le; auto.
      * intros b Hbb. destruct best as [b0|]; cbn in Hbb.
        -- destruct (e_ver b0 <? e_ver c); inversion Hbb; subst; auto.
        -- inversion Hbb; subst; auto.
  - apply IH; auto.
Qed.

(* every candidate produced by src_get has version <= ts (on any list: seek_ge guarantees it
   for the entry it lands on when that entry has the searched user key) *)
Lemma seek_ge_head s k ts e r : seek_ge s k ts = e :: r -> key_le k ts e = true.
Proof.
  induction s as [|x s IH]; cbn; [discriminate|].
  destruct (key_le k ts x) eqn:E; auto. intros [= -> ->]. exact E.
Qed.

Lemma src_get_ver_le s k ts e : src_get s k ts = Some e -> e_key e = k /\ e_ver e <= ts.
Proof.
  unfold src_get. destruct (seek_ge s k ts) as [|x r] eqn:E; [discriminate|].
  destruct (bytes_eqb (e_key x) k) eqn:Ek; [|discriminate]. intros [= ->].
  apply bytes_eqb_eq in Ek. split; auto.
  apply seek_ge_head in E. unfold key_le, key_order in E. rewrite <- Ek in E.
  rewrite lex_cmp_refl in E. destruct (e_ver e ?= ts) eqn:C; try discriminate.
  - apply N.compare_eq_iff in C. lia.
  - rewrite N.compare_lt_iff in C. lia.
Qed.
