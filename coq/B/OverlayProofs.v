(* OverlayProofs.v — C04 for iterators: Sys.txn_iterate reads merge2 (pend_src x) (merged db).
   For every key with a pending write the iterator shows that write (stamped with readTs) or —
   when it is a delete / expired / hidden by SinceTs — nothing, never the snapshot's version;
   for every other key it shows what the snapshot iteration shows; the order is the iterator's
   order; and the item under a key is what Txn.Get returns for that key. *)
From Verif Require Import Bytes BytesProofs Keys C20Proofs Consts Spec Lsm LsmProofs Compact CompactProofs EntOrderProofs Iter Sys.
From Verif Require Import IterOrderProofs IterSpecProofs.
From Verif Require GetProofs MergeProofs SysProofs.
From Coq Require Import ZifyN ZifyNat ZifyBool Sorting.Sorted.
Open Scope N_scope.

(* ---------- the pending-writes source ---------- *)
Definition ksorted (l : src) : Prop := StronglySorted klt (map e_key l).

Lemma ksorted_ssorted l : ksorted l -> ssorted l.
Proof.
  unfold ksorted. induction l as [|x l IH]; intros H; [constructor|]. cbn [map] in H.
  inversion H as [|? ? Hs Hx]; subst. rewrite Forall_forall in Hx. constructor; [now apply IH|].
  apply Forall_forall. intros y Hy. apply klt_elt. apply Hx. now apply in_map.
Qed.

Lemma ksorted_cons_inv x l : ksorted (x :: l) -> ksorted l /\ (forall y, In y l -> klt (e_key x) (e_key y)).
Proof.
  unfold ksorted. cbn [map]. intros H. inversion H as [|? ? Hs Hx]; subst. rewrite Forall_forall in Hx.
  split; auto. intros y Hy. apply Hx. now apply in_map.
Qed.

Lemma ksorted_cons x l : ksorted l -> (forall y, In y l -> klt (e_key x) (e_key y)) -> ksorted (x :: l).
Proof.
  unfold ksorted. cbn [map]. intros Hs Hx. constructor; auto. apply Forall_forall. intros k Hk.
  apply in_map_iff in Hk. destruct Hk as (y & <- & Hy). auto.
Qed.

Lemma klt_neq a b : klt a b -> a <> b.
Proof. intros H ->. now apply klt_irrefl in H. Qed.

Lemma ins_key_in e l y :
  ksorted l -> (In y (ins_key e l) <-> y = e \/ (In y l /\ e_key y <> e_key e)).
Proof.
  induction l as [|x r IH]; intros Hs; cbn [ins_key].
  - split; [intros [<-|[]]; auto|intros [->|[[] _]]; now left].
  - destruct (ksorted_cons_inv _ _ Hs) as [Hr Hx]. destruct (lex_cmp (e_key e) (e_key x)) eqn:C.
    + apply lex_cmp_eq in C. split.
      * intros [<-|Hy]; auto. right. split; [now right|]. rewrite C. intros E. apply (klt_neq _ _ (Hx y Hy)). auto.
      * intros [->|[[<-|Hy] Hne]]; [now left|congruence|now right].
    + split.
      * intros [<-|Hy]; auto. right. split; auto. intros E. destruct Hy as [<-|Hy].
        -- rewrite E in C. unfold klt in *. now rewrite lex_cmp_refl in C.
        -- apply (klt_neq (e_key e) (e_key y)); auto. eapply klt_trans; [exact C|auto].
      * intros [->|[Hy _]]; [now left|now right].
    + apply not_kle_klt in C. specialize (IH Hr). split.
      * intros [<-|Hy]; [right; split; [now left|now apply klt_neq]|].
        apply IH in Hy. destruct Hy as [->|[Hy Hne]]; auto. right. split; auto. now right.
      * intros [->|[[<-|Hy] Hne]]; [right; apply IH; now left|now left|right; apply IH; auto].
Qed.

Lemma ins_key_ksorted e l : ksorted l -> ksorted (ins_key e l).
Proof.
  induction l as [|x r IH]; intros Hs; cbn [ins_key]; [apply ksorted_cons; [constructor|intros ? []]|].
  destruct (ksorted_cons_inv _ _ Hs) as [Hr Hx]. destruct (lex_cmp (e_key e) (e_key x)) eqn:C.
  - apply lex_cmp_eq in C. apply ksorted_cons; auto. intros y Hy. rewrite C. auto.
  - apply ksorted_cons; auto. intros y [<-|Hy]; auto. eapply klt_trans; [exact C|auto].
  - apply not_kle_klt in C. apply ksorted_cons; [now apply IH|]. intros y Hy.
    apply ins_key_in in Hy; auto. destruct Hy as [->|[Hy _]]; auto.
Qed.

Section PendFold.
  Variable f : bytes * entry -> entry.
  Definition pend_fold (l : list (bytes * entry)) (acc : src) : src :=
    fold_left (fun acc ke => ins_key (f ke) acc) l acc.

  Lemma pend_fold_ksorted l acc : ksorted acc -> ksorted (pend_fold l acc).
  Proof. revert acc. induction l as [|ke l IH]; intros acc H; cbn; auto. apply IH. now apply ins_key_ksorted. Qed.

  Lemma pend_fold_in l : forall acc y,
    NoDup (map (fun ke => e_key (f ke)) l) -> ksorted acc ->
    (In y (pend_fold l acc) <->
     (exists ke, In ke l /\ y = f ke) \/ (In y acc /\ forall ke, In ke l -> e_key (f ke) <> e_key y)).
  Proof.
    induction l as [|ke l IH]; intros acc y Hnd Hs; cbn [pend_fold fold_left].
    - split; [intros H; right; split; auto; intros ? []|intros [(ke & [] & _)|[H _]]; auto].
    - cbn [map] in Hnd. inversion Hnd as [|? ? Hnin Hnd']; subst. fold (pend_fold l (ins_key (f ke) acc)).
      rewrite IH by (auto; now apply ins_key_ksorted). rewrite ins_key_in by assumption. split.
      + intros [(ke' & Hin & ->)|[[->|[Hy Hne]] Hall]].
        * left. exists ke'. split; auto. now right.
        * left. exists ke. split; auto. now left.
        * right. split; auto. intros ke' [<-|Hin]; auto.
      + intros [(ke' & [<-|Hin] & ->)|[Hy Hall]].
        * right. split; [now left|]. intros ke' Hin E. apply Hnin. rewrite <- E.
          apply (in_map (fun ke => e_key (f ke))). exact Hin.
        * left. eauto.
        * right. split.
          -- right. split; auto. apply not_eq_sym. apply Hall. now left.
          -- intros ke' Hin. apply Hall. now right.
  Qed.
End PendFold.

Definition pend_ok (x : txn) : Prop :=
  NoDup (map fst (x_pend x)) /\ (forall ke, In ke (x_pend x) -> fst ke = e_key (snd ke)).

Lemma klookup_in' l k a : klookup l k = Some a -> In (k, a) l.
Proof.
  induction l as [|[j b] l IH]; cbn; [discriminate|]. destruct (bytes_eqb j k) eqn:E.
  - apply bytes_eqb_eq in E. subst j. intros [= ->]. now left.
  - intros H. right. auto.
Qed.

Lemma klookup_nodup l k a : NoDup (map fst l) -> In (k, a) l -> klookup l k = Some a.
Proof.
  induction l as [|[j b] l IH]; intros Hnd Hin; [destruct Hin|]. cbn [map fst] in Hnd.
  inversion Hnd as [|? ? Hnin Hnd']; subst. cbn [klookup]. destruct Hin as [[= -> ->]|Hin].
  - now rewrite bytes_eqb_refl.
  - destruct (bytes_eqb j k) eqn:E; [|auto]. apply bytes_eqb_eq in E. subst j. exfalso. apply Hnin.
    apply (in_map fst) in Hin. exact Hin.
Qed.

Lemma klookup_none_notin l k a : klookup l k = None -> ~ In (k, a) l.
Proof.
  induction l as [|[j b] l IH]; cbn; [tauto|]. destruct (bytes_eqb j k) eqn:E; [discriminate|].
  intros H [[= -> ->]|Hin]; [now rewrite bytes_eqb_refl in E|]. now apply IH in Hin.
Qed.

Lemma pend_src_eq x :
  x_update x = true -> pend_src x = pend_fold (fun ke => with_ver (snd ke) (x_read x)) (x_pend x) [].
Proof. unfold pend_src. now intros ->. Qed.

Lemma pend_map_keys x :
  pend_ok x -> map (fun ke : bytes * entry => e_key (with_ver (snd ke) (x_read x))) (x_pend x) = map fst (x_pend x).
Proof. intros [_ H]. apply map_ext_in. intros ke Hke. cbn. symmetry. auto. Qed.

Lemma pend_src_ksorted x : ksorted (pend_src x).
Proof.
  unfold pend_src. destruct (x_update x); [|constructor].
  apply (pend_fold_ksorted (fun ke => with_ver (snd ke) (x_read x))). constructor.
Qed.

Lemma pend_src_sorted x : ssorted (pend_src x).
Proof. apply ksorted_ssorted, pend_src_ksorted. Qed.

(* the source holds exactly the pending write of every key, stamped with the read timestamp *)
Lemma pend_src_in x y :
  x_update x = true -> pend_ok x ->
  (In y (pend_src x) <-> exists pe, klookup (x_pend x) (e_key y) = Some pe /\ y = with_ver pe (x_read x)).
Proof.
  intros Hu Hok. rewrite (pend_src_eq x Hu). rewrite pend_fold_in.
  2:{ rewrite (pend_map_keys x Hok). apply Hok. }
  2:{ constructor. }
  destruct Hok as [Hnd Hkey]. split.
  - intros [(ke & Hin & ->)|[[] _]]. exists (snd ke). split; auto. cbn [with_ver e_key].
    apply klookup_nodup; auto. rewrite <- (Hkey ke Hin). now destruct ke.
  - intros (pe & Hl & ->). left. exists (e_key (with_ver pe (x_read x)), pe). split; auto.
    now apply klookup_in'.
Qed.

Lemma pend_src_ver x y : In y (pend_src x) -> e_ver y = x_read x.
Proof.
  unfold pend_src. destruct (x_update x); [|intros []].
  change (In y (pend_fold (fun ke => with_ver (snd ke) (x_read x)) (x_pend x) []) -> e_ver y = x_read x).
  assert (G: forall l acc, (forall z, In z acc -> e_ver z = x_read x) ->
             forall z, In z (pend_fold (fun ke => with_ver (snd ke) (x_read x)) l acc) -> e_ver z = x_read x).
  { induction l as [|ke l IH]; intros acc Hacc z; cbn; auto. apply IH.
    clear -Hacc. induction acc as [|a acc IHa]; cbn [ins_key].
    - intros z [<-|[]]. reflexivity.
    - destruct (lex_cmp _ _).
      + intros z [<-|Hz]; [reflexivity|]. apply Hacc. now right.
      + intros z [<-|Hz]; [reflexivity|]. apply Hacc. exact Hz.
      + intros z [<-|Hz]; [apply Hacc; now left|]. apply IHa; auto. intros w Hw. apply Hacc. now right. }
  apply G. intros z [].
Qed.

Lemma pend_src_none x k y : x_update x = true -> pend_ok x -> klookup (x_pend x) k = None -> In y (pend_src x) -> e_key y <> k.
Proof.
  intros Hu Hok Hn Hy E. apply pend_src_in in Hy; auto. destruct Hy as (pe & Hl & _). congruence.
Qed.

(* ---------- a sorted overlay P (all at version rts, one entry per key) over a sorted stream M ---------- *)
Lemma find_all_false {A} (f : A -> bool) l : (forall x, In x l -> f x = false) -> find f l = None.
Proof.
  induction l as [|x l IH]; intros H; cbn; auto. rewrite (H x (or_introl eq_refl)). apply IH.
  intros y Hy. apply H. now right.
Qed.

Section Overlay.
  Variable o : iopts.
  Variables rts now : N.
  Variable banned : bytes -> bool.
  Variables P M : src.
  Hypothesis HP : ssorted P.
  Hypothesis HM : ssorted M.
  Hypothesis HPver : forall y, In y P -> e_ver y = rts.
  Notation skip := (skip_common o rts banned).
  Notation fns := (first_nonskip o rts banned).

  Lemma overlay_sorted : ssorted (merge2 P M).
  Proof. now apply merge2_sorted. Qed.

  (* an entry at version rts that is skipped: every version of its key is skipped *)
  Lemma skip_at_rts_all pe e : skip pe = true -> e_ver pe = rts -> e_key e = e_key pe -> skip e = true.
  Proof.
    unfold skip_common, is_internal. intros H Hv Hk. rewrite Hk. rewrite Hv in H.
    rewrite N.ltb_irrefl in H. rewrite orb_false_r in H.
    destruct (negb (io_internal o) && is_prefix c_badgerPrefix (e_key pe)); [reflexivity|].
    destruct (negb (is_prefix c_badgerPrefix (e_key pe)) && banned (e_key pe)); [now rewrite orb_true_r|].
    cbn [orb] in *. rewrite orb_false_r in *. apply andb_true_iff in H. destruct H as [H1 H2]. rewrite H1. cbn [andb].
    apply N.leb_le in H2. destruct (rts <? e_ver e) eqn:L; [reflexivity|]. apply N.ltb_ge in L. cbn [orb].
    apply N.leb_le. lia.
  Qed.

  (* a key with a pending entry: the iterator's lookup finds the pending entry, or nothing *)
  Lemma overlay_first_pending pe :
    In pe P -> fns (merge2 P M) (e_key pe) = if skip pe then None else Some pe.
  Proof.
    intros Hin. pose proof (HPver pe Hin) as Hv. destruct (skip pe) eqn:S.
    - apply find_all_false. intros x _. destruct (bytes_eqb (e_key x) (e_key pe)) eqn:K; auto.
      apply bytes_eqb_eq in K. now rewrite (skip_at_rts_all pe x S Hv K).
    - apply not_hidden_first_nonskip; auto; [apply overlay_sorted|now apply MergeProofs.merge2_in_l|].
      apply hidden_false. intros e' _ _ Ve' Se'. rewrite Hv in Ve'.
      rewrite (skip_above_rts o rts banned e' Ve') in Se'. discriminate.
  Qed.

  (* a key without pending entry: the lookup is the snapshot's *)
  Lemma overlay_first_other k :
    (forall y, In y P -> e_key y <> k) -> fns (merge2 P M) k = fns M k.
  Proof.
    intros Hno. destruct (fns M k) as [e|] eqn:F.
    - destruct (first_nonskip_not_hidden o rts banned M k e HM F) as (Hin & Hk & Hs & Hh).
      rewrite <- Hk. apply not_hidden_first_nonskip; auto; [apply overlay_sorted| |].
      + destruct (MergeProofs.merge2_in_r P M e Hin) as [H|(y & Hy & Ky & _)]; auto.
        exfalso. apply (Hno y Hy). congruence.
      + apply hidden_false. intros e' He' Ke' Ve' Se'. apply merge2_in in He'. destruct He' as [He'|He'].
        * apply (Hno e' He'). congruence.
        * rewrite (hidden_false_inv o rts banned M e e' Hh He' Ke' Ve') in Se'. discriminate.
    - apply find_all_false. intros x Hx. destruct (bytes_eqb (e_key x) k) eqn:K; auto.
      apply bytes_eqb_eq in K. apply merge2_in in Hx. destruct Hx as [Hx|Hx].
      + exfalso. now apply (Hno x Hx).
      + now rewrite (first_nonskip_none o rts banned M k x F Hx K).
  Qed.
End Overlay.

(* ---------- Sys.txn_iterate ---------- *)
Lemma txn_stream_sorted s x : ssorted (merged (s_db s)) -> ssorted (merge2 (pend_src x) (merged (s_db s))).
Proof. intros H. apply merge2_sorted; auto. apply pend_src_sorted. Qed.

(* the equation: the iteration is the specification scan of the overlaid stream *)
Theorem txn_iterate_spec s x o :
  ssorted (merged (s_db s)) -> io_reverse o = false -> io_prefix o = [] -> io_prefix_is_key o = false ->
  let m := merge2 (pend_src x) (merged (s_db s)) in
  txn_iterate s x o [] = filter (emit o (x_read x) (s_now s) (fun _ => false) m) m.
Proof.
  intros Hs Hr Hp Hk. cbv zeta. unfold txn_iterate. rewrite iterate_plain by assumption.
  rewrite fwd_items_spec by now apply txn_stream_sorted. unfold spec_scan. now rewrite cut_id_noprefix.
Qed.

(* per key: the pending write (or nothing), else the snapshot's item; strictly increasing keys *)
Theorem iterate_reflects_pending s x o k :
  x_update x = true -> pend_ok x -> ssorted (merged (s_db s)) ->
  io_reverse o = false -> io_all o = false -> io_prefix o = [] -> io_prefix_is_key o = false ->
  let l := txn_iterate s x o [] in
  StronglySorted klt (map e_key l) /\
  find (fun e => bytes_eqb (e_key e) k) l =
  match klookup (x_pend x) k with
  | Some pe =>
      let e := with_ver pe (x_read x) in
      if skip_common o (x_read x) (fun _ => false) e || deleted_or_expired e (s_now s) then None else Some e
  | None =>
      find (fun e => bytes_eqb (e_key e) k) (iterate o (x_read x) (s_now s) (fun _ => false) (merged (s_db s)) [])
  end.
Proof.
  intros Hu Hok Hs Hr Ha Hp Hk. cbv zeta. unfold txn_iterate. rewrite !iterate_plain by assumption.
  pose proof (txn_stream_sorted s x Hs) as Hs'. split; [now apply fwd_items_keys_increasing|].
  rewrite !fwd_items_lookup by (auto; now apply cut_id_noprefix).
  destruct (klookup (x_pend x) k) as [pe|] eqn:L.
  - assert (Hin: In (with_ver pe (x_read x)) (pend_src x)).
    { apply pend_src_in; auto. exists pe. split; auto. cbn [with_ver e_key].
      pose proof (klookup_in' _ _ _ L) as Lin. destruct Hok as [_ Hkey]. specialize (Hkey _ Lin). cbn in Hkey. now rewrite <- Hkey. }
    assert (Ek: e_key (with_ver pe (x_read x)) = k).
    { pose proof (klookup_in' _ _ _ L) as Lin. destruct Hok as [_ Hkey]. specialize (Hkey _ Lin). cbn in Hkey. cbn. auto. }
    pose proof (overlay_first_pending o (x_read x) (fun _ => false) (pend_src x) (merged (s_db s))
                  (pend_src_sorted x) Hs (pend_src_ver x) _ Hin) as F.
    rewrite Ek in F. rewrite F. destruct (skip_common o (x_read x) (fun _ => false) (with_ver pe (x_read x))); reflexivity.
  - rewrite (overlay_first_other o (x_read x) (fun _ => false) (pend_src x) (merged (s_db s)) (pend_src_sorted x) Hs); auto.
    intros y Hy. eapply pend_src_none; eauto.
Qed.

(* membership form *)
Theorem iterate_reflects_pending_in s x o e :
  x_update x = true -> pend_ok x -> ssorted (merged (s_db s)) ->
  io_reverse o = false -> io_all o = false -> io_prefix o = [] -> io_prefix_is_key o = false ->
  (In e (txn_iterate s x o []) <->
   match klookup (x_pend x) (e_key e) with
   | Some pe => e = with_ver pe (x_read x) /\ skip_common o (x_read x) (fun _ => false) e = false /\
                deleted_or_expired e (s_now s) = false
   | None => In e (iterate o (x_read x) (s_now s) (fun _ => false) (merged (s_db s)) [])
   end).
Proof.
  intros Hu Hok Hs Hr Ha Hp Hk. unfold txn_iterate. rewrite !iterate_plain by assumption.
  pose proof (txn_stream_sorted s x Hs) as Hs'.
  rewrite !fwd_items_in_iff_first by (auto; now apply cut_id_noprefix).
  destruct (klookup (x_pend x) (e_key e)) as [pe|] eqn:L.
  - assert (Hin: In (with_ver pe (x_read x)) (pend_src x)).
    { apply pend_src_in; auto. exists pe. split; auto. cbn [with_ver e_key].
      pose proof (klookup_in' _ _ _ L) as Lin. destruct Hok as [_ Hkey]. specialize (Hkey _ Lin). cbn in Hkey. now rewrite <- Hkey. }
    assert (Ek: e_key (with_ver pe (x_read x)) = e_key e).
    { pose proof (klookup_in' _ _ _ L) as Lin. destruct Hok as [_ Hkey]. specialize (Hkey _ Lin). cbn in Hkey. cbn. auto. }
    pose proof (overlay_first_pending o (x_read x) (fun _ => false) (pend_src x) (merged (s_db s))
                  (pend_src_sorted x) Hs (pend_src_ver x) _ Hin) as F.
    rewrite Ek in F. rewrite F.
    destruct (skip_common o (x_read x) (fun _ => false) (with_ver pe (x_read x))) eqn:S; split.
    + intros [? _]. discriminate.
    + intros (-> & S' & _). congruence.
    + intros [[= <-] D]. auto.
    + intros (-> & _ & D). auto.
  - rewrite (fwd_items_in_iff_first o (x_read x) (s_now s) (fun _ => false) (merged (s_db s))) by (auto; now apply cut_id_noprefix).
    rewrite (overlay_first_other o (x_read x) (fun _ => false) (pend_src x) (merged (s_db s)) (pend_src_sorted x) Hs); [reflexivity|].
    intros y Hy. eapply pend_src_none; eauto.
Qed.

(* consistency of Get and iteration inside the transaction *)
Theorem iterate_agrees_with_get s x o k :
  k <> [] -> x_done x = false -> pend_ok x ->
  GetProofs.lsm_wf (s_db s) -> nodup_kv (GetProofs.all_entries (s_db s)) ->
  io_reverse o = false -> io_all o = false -> io_prefix o = [] -> io_prefix_is_key o = false -> io_since o = 0 ->
  allowed o k = true ->
  find (fun e => bytes_eqb (e_key e) k) (txn_iterate s x o []) =
  match fst (txn_get s x k) with GFound e => Some e | _ => None end.
Proof.
  intros Hk0 Hdone Hok Hwf Hnd Hr Ha Hp Hk Hsince Hal.
  pose proof (merged_sorted _ Hwf) as Hs.
  assert (Snap: find (fun e => bytes_eqb (e_key e) k) (iterate o (x_read x) (s_now s) (fun _ => false) (merged (s_db s)) []) =
                match db_get (s_db s) k (x_read x) with
                | Some e => if deleted_or_expired e (s_now s) then None else Some e
                | None => None
                end).
  { rewrite iterate_lookup_is_get by assumption. rewrite Hal. reflexivity. }
  unfold txn_get. destruct k as [|b k']; [congruence|]. rewrite Hdone.
  destruct (x_update x) eqn:Hu.
  - destruct (iterate_reflects_pending s x o (b :: k') Hu Hok Hs Hr Ha Hp Hk) as [_ F]. rewrite F.
    destruct (klookup (x_pend x) (b :: k')) as [pe|] eqn:L.
    + cbv zeta.
      assert (S: skip_common o (x_read x) (fun _ => false) (with_ver pe (x_read x)) = false).
      { apply skip_common_false_iff. unfold is_internal. cbn [with_ver e_key e_ver].
        pose proof (klookup_in' _ _ _ L) as Lin. destruct Hok as [_ Hkey]. specialize (Hkey _ Lin). cbn in Hkey. rewrite <- Hkey.
        unfold allowed in Hal. apply orb_true_iff in Hal. rewrite negb_true_iff in Hal.
        repeat split; auto; lia. }
      rewrite S. cbn [orb].
      change (deleted_or_expired (with_ver pe (x_read x)) (s_now s)) with (deleted_or_expired pe (s_now s)).
      destruct (deleted_or_expired pe (s_now s)); reflexivity.
    + rewrite Snap. destruct (db_get (s_db s) (b :: k') (x_read x)) as [e|]; [|reflexivity].
      destruct (deleted_or_expired e (s_now s)); reflexivity.
  - unfold txn_iterate. unfold pend_src. rewrite Hu. rewrite merge2_nil_l. rewrite Snap.
    destruct (db_get (s_db s) (b :: k') (x_read x)) as [e|]; [|reflexivity].
    destruct (deleted_or_expired e (s_now s)); reflexivity.
Qed.

(* the well-formedness of the pending map is what Txn.modify maintains *)
Lemma pend_ok_begin rts upd : pend_ok (mkTxn rts upd [] [] [] false).
Proof. split; [constructor|intros ? []]. Qed.

Lemma kupdate_in' l k a ke : In ke (kupdate l k a) -> ke = (k, a) \/ In ke l.
Proof.
  induction l as [|[j b] l IH]; cbn [kupdate].
  - intros [<-|[]]. auto.
  - destruct (bytes_eqb j k); cbn.
    + intros [<-|H]; auto.
    + intros [<-|H]; auto. destruct (IH H); auto.
Qed.

Lemma kupdate_fst_nodup l k a : NoDup (map fst l) -> NoDup (map fst (kupdate l k a)).
Proof.
  induction l as [|[j b] l IH]; intros H; cbn [kupdate map fst].
  - constructor; [intros []|constructor].
  - cbn [map fst] in H. inversion H as [|? ? Hnin Hnd]; subst. destruct (bytes_eqb j k) eqn:E.
    + apply bytes_eqb_eq in E. subst j. cbn [map fst]. constructor; auto.
    + cbn [map fst]. constructor; [|now apply IH]. intros Hin. apply in_map_iff in Hin.
      destruct Hin as (ke & Ek & Hke). apply kupdate_in' in Hke. destruct Hke as [->|Hke].
      * cbn in Ek. subst j. now rewrite bytes_eqb_refl in E.
      * apply Hnin. rewrite <- Ek. now apply in_map.
Qed.

Theorem pend_ok_modify x e : pend_ok x -> pend_ok (snd (txn_modify x e)).
Proof.
  intros [H1 H2]. split.
  - rewrite SysProofs.txn_modify_pend. destruct (fst (txn_modify x e) =? 0); auto. now apply kupdate_fst_nodup.
  - rewrite SysProofs.txn_modify_pend. destruct (fst (txn_modify x e) =? 0); auto.
    intros ke Hke. apply kupdate_in' in Hke. destruct Hke as [->|Hke]; auto.
Qed.

Theorem pend_ok_modifies x es : pend_ok x -> pend_ok (SysProofs.modifies x es).
Proof.
  revert x. induction es as [|e es IH]; intros x H; cbn [SysProofs.modifies]; auto. apply IH. now apply pend_ok_modify.
Qed.

(* ---------- Seek / Prefix / direction apply to the overlaid stream like to any sorted stream ---------- *)
Theorem txn_iterate_seek s x o seek :
  ssorted (merged (s_db s)) -> io_reverse o = false -> io_prefix_is_key o = false -> kle (io_prefix o) seek ->
  txn_iterate s x o seek = filter (fbound seek) (txn_iterate s x o []).
Proof. intros Hs Hr Hk Hp. unfold txn_iterate. apply iterate_seek_forward; auto. now apply txn_stream_sorted. Qed.

Theorem txn_iterate_prefix s x o :
  ssorted (merged (s_db s)) -> io_reverse o = false -> io_prefix_is_key o = false ->
  txn_iterate s x o [] = filter (fun e => is_prefix (io_prefix o) (e_key e)) (txn_iterate s x (no_prefix o) []).
Proof. intros Hs Hr Hk. unfold txn_iterate. apply iterate_prefix_forward; auto. now apply txn_stream_sorted. Qed.

Theorem txn_iterate_reverse s x o :
  ssorted (merged (s_db s)) -> io_reverse o = false -> io_prefix o = [] -> io_prefix_is_key o = false ->
  txn_iterate s x (set_reverse true o) [] = rev (txn_iterate s x o []).
Proof. intros Hs Hr Hp Hk. unfold txn_iterate. apply iterate_reverse_is_rev; auto. now apply txn_stream_sorted. Qed.

Theorem txn_iterate_seek_reverse s x o seek :
  ssorted (merged (s_db s)) -> io_reverse o = true -> io_prefix o = [] -> io_prefix_is_key o = false ->
  txn_iterate s x o seek = filter (rbound seek) (txn_iterate s x o []).
Proof. intros Hs Hr Hp Hk. unfold txn_iterate. apply iterate_seek_reverse; auto. now apply txn_stream_sorted. Qed.

(* ---------- every reachable state ---------- *)
From Verif Require Import SysReopen SysTree.
From Verif Require TreeSpecProofs.

Lemma lookup_in {A} (l : list (N * A)) i a : lookup l i = Some a -> In (i, a) l.
Proof.
  induction l as [|[j b] l IH]; cbn; [discriminate|]. destruct (j =? i) eqn:E.
  - apply N.eqb_eq in E. subst j. intros [= ->]. now left.
  - intros H. right. auto.
Qed.

Theorem iterate_agrees_with_get_reachable detect nkeep nlevels next ops :
  (0 < nlevels)%nat -> Forall op_plain ops ->
  let s := snd (exec_tree (init_sys false detect nkeep nlevels next) ops 0) in
  forall t x o k,
    lookup (s_txns s) t = Some x -> x_done x = false -> k <> [] ->
    io_reverse o = false -> io_all o = false -> io_prefix o = [] -> io_prefix_is_key o = false -> io_since o = 0 ->
    allowed o k = true ->
    find (fun e => bytes_eqb (e_key e) k) (txn_iterate s x o []) =
    match fst (txn_get s x k) with GFound e => Some e | _ => None end.
Proof.
  cbv zeta. intros Hn HF t x o k Hl Hd Hk0 Hr Ha Hp Hk Hsince Hal.
  destruct (reachable_tree_facts detect nkeep nlevels next ops Hn HF) as [Hwf Hnd].
  pose proof (TreeSpecProofs.exec_tree_spec ops _ 0 0 0 HF (TreeSpecProofs.init_spec_inv detect nkeep nlevels next Hn))
    as (_ & Htx & _).
  apply iterate_agrees_with_get; auto.
  unfold TreeSpecProofs.txns_keys_ok in Htx. rewrite Forall_forall in Htx.
  destruct (Htx _ (lookup_in _ _ _ Hl)) as (K1 & _ & K3). split; auto.
Qed.
