(* GcInvProofs.v — the GC invariant and its preservation, step by step.

   Inv ties the tree, the value log and the state of an in-flight rewrite together:
     - every pointer in the tree reads a record with the entry's key@version/meta (tree_ok),
     - all copies of a key@version dereference to the same thing in the ghost value log, i.e.
       ignoring deletions (agree),
     - no lookup at or above the largest discard timestamp used so far returns a LIVE entry whose
       file has been deleted (i_safe),
     - while a rewrite is between scan and write-back: every entry waiting in wb is still the
       value a lookup of its key@version gives and lookups of its key at or above its version
       still find a version at least that new (wb_ok); every other record of the file is
       referenced by no live lookup result (the J clause),
     - files pending deletion are referenced by no live lookup result and an iterator is open. *)
From Verif Require Import Bytes BytesProofs Keys C20Proofs Consts Spec Lsm Compact Iter Sys
  LsmProofs CompactProofs GetProofs MergeProofs C12Proofs Gc GcProofs.
From Coq Require Import ZifyN ZifyNat ZifyBool Sorting.Sorted.
Open Scope N_scope.

Definition deadb (now : N) (e : entry) : Prop := deleted_or_expired e now = true.
Definition points_to (e : entry) (fid idx : N) : Prop := is_ptr e = true /\ e_val e = [fid; idx].

Definition tree_ok (vl : vlog) (d : lsm) : Prop :=
  forall e, In e (all_entries d) -> is_ptr e = true ->
    exists fid idx r, e_val e = [fid; idx] /\ fread vl e = Some r /\ rec_matches e r.

Definition agree (v : vstate) (d : lsm) : Prop :=
  forall a b, In a (all_entries d) -> In b (all_entries d) ->
    e_key a = e_key b -> e_ver a = e_ver b -> gderef v a = gderef v b.

Definition wb_ok (v : vstate) (d : lsm) (fid idx : N) (w : entry) : Prop :=
  (exists rs r, vfind (v_files v) fid = Some rs /\ nth_error rs (N.to_nat idx) = Some r /\ w = norm r) /\
  forall ts, e_ver w <= ts ->
    exists e, db_get d (e_key w) ts = Some e /\ e_ver w <= e_ver e
              /\ (e_ver e = e_ver w -> gderef v e = Some w).

Record Inv (d : lsm) (v : vstate) (gc : option gcst) (todel : list N) (iters : bool) (dmax now : N) : Prop := {
  i_wf : lsm_wf d;
  i_tree : tree_ok (v_files v) d;
  i_agree : agree v d;
  i_safe : forall k ts e, dmax <= ts -> db_get d k ts = Some e -> deadb now e \/ file_live v e;
  i_bound : forall f rs, vfind (v_files v) f = Some rs -> f <= v_max v;
  i_gone : forall f, In f (v_gone v) -> f < v_max v;
  i_todel_lt : forall f, In f todel -> f < v_max v;
  i_todel : forall f, In f todel -> iters = true /\
      forall k ts e idx, dmax <= ts -> db_get d k ts = Some e -> points_to e f idx -> deadb now e;
  i_gc : match gc with
         | None => True
         | Some g => g_fid g < v_max v /\
             (g_scanned g = false -> g_wb g = []) /\
             (g_scanned g = true ->
                (forall idx w, In (idx, w) (g_wb g) -> wb_ok v d (g_fid g) idx w) /\
                (forall k ts e idx, dmax <= ts -> db_get d k ts = Some e -> points_to e (g_fid g) idx ->
                    In idx (map fst (g_wb g)) \/ deadb now e))
         end }.

Definition has_iters (s : xsys) : bool := match x_iters s with [] => false | _ => true end.

Definition inv (s : xsys) : Prop :=
  Inv (x_db s) (x_v s) (x_gc s) (x_todel s) (has_iters s) (x_dmax s) (s_now (x_sys s)).

(* ---- small facts ---- *)
Lemma fresh_next_of_bound v : (forall f rs, vfind (v_files v) f = Some rs -> f <= v_max v) -> fresh_next v.
Proof.
  intros H. unfold fresh_next. destruct (vfind (v_files v) (v_max v + 1)) as [rs|] eqn:E; auto.
  apply H in E. lia.
Qed.

Lemma gone_false_iff g f : gone g f = false <-> ~ In f g.
Proof.
  unfold gone. split.
  - intros H Hin. assert (E: existsb (N.eqb f) g = true) by (apply existsb_exists; exists f; split; auto; apply N.eqb_refl).
    congruence.
  - intros H. destruct (existsb (N.eqb f) g) eqn:E; auto. apply existsb_exists in E.
    destruct E as (y & A & B). apply N.eqb_eq in B. subst y. contradiction.
Qed.

Lemma ptr_fid_some e fid : ptr_fid e = Some fid -> exists idx, points_to e fid idx.
Proof.
  unfold ptr_fid, points_to. destruct (is_ptr e); [|discriminate].
  destruct (e_val e) as [|f [|idx [|? ?]]]; try discriminate. intros [= ->]. eauto.
Qed.

Lemma points_to_ptr_fid e fid idx : points_to e fid idx -> ptr_fid e = Some fid.
Proof. unfold ptr_fid. intros [-> ->]. reflexivity. Qed.

Lemma tree_gderef_some v d e : tree_ok (v_files v) d -> In e (all_entries d) -> exists x, gderef v e = Some x.
Proof.
  intros Ht Hin. destruct (is_ptr e) eqn:P.
  - destruct (Ht _ Hin P) as (fid & idx & r & A & B & C). eexists. eapply gderef_of_rec; eauto.
  - eexists. now apply gderef_inline.
Qed.

Lemma gderef_dead v a b now : gderef v a = gderef v b -> (exists x, gderef v a = Some x) ->
  deleted_or_expired a now = deleted_or_expired b now.
Proof.
  unfold gderef, deref. intros H [x Hx].
  destruct (is_ptr a) eqn:Pa; destruct (is_ptr b) eqn:Pb.
  - destruct (read_ptr (gv v) a) as [ra|]; [|discriminate].
    destruct (read_ptr (gv v) b) as [rb|]; [|rewrite Hx in H; discriminate].
    inversion H. apply dead_by_clr; auto.
  - destruct (read_ptr (gv v) a) as [ra|]; [|discriminate].
    injection H as H1. subst b. now rewrite dead_clr.
  - destruct (read_ptr (gv v) b) as [rb|]; [|discriminate].
    injection H as H1. subst a. now rewrite dead_clr.
  - injection H as H1. now subst.
Qed.

Lemma view_live v e : file_live v e -> view v e = view (gv v) e.
Proof. intros H. unfold view. now rewrite (deref_live _ _ H). Qed.

(* the user-visible read in terms of the ghost view *)
Definition gvis (v : vstate) (d : lsm) (now : N) (k : bytes) (ts : N) : option entry :=
  match db_get d k ts with
  | Some e => if deleted_or_expired e now then None else Some (view (gv v) e)
  | None => None
  end.

Lemma vread_gvis s k ts : inv s -> x_dmax s <= ts ->
  vread s k ts = gvis (x_v s) (x_db s) (s_now (x_sys s)) k ts.
Proof.
  intros I Hts. unfold vread, gvis. destruct (db_get (x_db s) k ts) as [e|] eqn:E; auto.
  destruct (deleted_or_expired e (s_now (x_sys s))) eqn:D; auto.
  destruct (i_safe _ _ _ _ _ _ _ I k ts e Hts E) as [H|H]; [unfold deadb in H; congruence|].
  now rewrite (view_live _ _ H).
Qed.

(* ------------------------------------------------------------------------------------ *)
(* GcScan establishes the rewrite clauses *)

Lemma scan_wb_ok d v gc todel it dmax now fid rs idx w :
  Inv d v gc todel it dmax now -> vfind (v_files v) fid = Some rs ->
  In (idx, w) (gc_scan d now fid 0 rs) -> wb_ok v d fid idx w.
Proof.
  intros I Hf Hin. destruct (gc_scan_in _ _ _ _ _ _ _ Hin) as (r & _ & Hn & -> & Hk).
  rewrite N.sub_0_r in Hn. split; [exists rs, r; auto|].
  unfold gc_keep in Hk. destruct (deleted_or_expired r now); [discriminate|].
  destruct (db_get d (e_key r) (e_ver r)) as [vs|] eqn:G; [|discriminate].
  destruct (e_ver vs =? e_ver r) eqn:Ev; [|discriminate]. apply N.eqb_eq in Ev. cbn [negb] in Hk.
  destruct (is_ptr vs) eqn:Pv; [|discriminate]. cbn [negb] in Hk.
  destruct (e_val vs) as [|f [|i [|? ?]]] eqn:Val; try discriminate.
  destruct (fid <? f) eqn:L1; [discriminate|]. destruct (idx <? i) eqn:L2; [discriminate|].
  apply andb_true_iff in Hk. destruct Hk as [K1 K2]. apply N.eqb_eq in K1, K2. subst f i.
  pose proof (i_wf _ _ _ _ _ _ _ I) as Hwf.
  destruct (db_get_some _ _ _ _ Hwf G) as (Vin & Vk & _ & _).
  (* what vs dereferences to *)
  assert (Gv: gderef v vs = Some (norm r)).
  { destruct (i_tree _ _ _ _ _ _ _ I vs Vin Pv) as (f' & i' & r' & A & B & C).
    assert (r' = r).
    { unfold fread in B. rewrite Val, Hf in B. congruence. }
    subst r'. eapply gderef_of_rec; eauto. }
  intros ts Hts. cbn [norm with_val e_key e_ver] in *.
  destruct (db_get_exists d (e_key r) ts vs Hwf Vin Vk ltac:(lia)) as (e & Ge & Hle).
  exists e. split; auto. split; [lia|]. intros Heq.
  destruct (db_get_some _ _ _ _ Hwf Ge) as (Ein & Ek & _ & _).
  rewrite <- Gv. apply (i_agree _ _ _ _ _ _ _ I); auto; congruence.
Qed.

Lemma scan_J d v gc todel it dmax now fid rs k ts e idx :
  Inv d v gc todel it dmax now -> vfind (v_files v) fid = Some rs ->
  db_get d k ts = Some e -> points_to e fid idx ->
  In idx (map fst (gc_scan d now fid 0 rs)) \/ deadb now e.
Proof.
  intros I Hf G [Pe Val].
  pose proof (i_wf _ _ _ _ _ _ _ I) as Hwf.
  destruct (db_get_some _ _ _ _ Hwf G) as (Ein & Ek & Ev & _).
  destruct (i_tree _ _ _ _ _ _ _ I e Ein Pe) as (f' & i' & r & A & B & (R1 & R2 & R3 & R4 & R5)).
  assert (Hn: nth_error rs (N.to_nat idx) = Some r).
  { unfold fread in B. now rewrite Val, Hf in B. }
  destruct (gc_keep d now fid idx r) eqn:K.
  - left. apply in_map_iff. exists (idx, norm r). split; auto.
    pose proof (gc_scan_complete d now fid rs 0 (N.to_nat idx) r Hn) as Hc.
    rewrite N2Nat.id in Hc. cbn in Hc. replace (0 + idx) with idx in Hc by lia. auto.
  - right. unfold gc_keep in K.
    destruct (deleted_or_expired r now) eqn:D.
    { unfold deadb. rewrite <- D. symmetry. apply dead_by_clr; auto. }
    exfalso. rewrite R1, R2, Ek, (db_get_own_version _ _ _ _ Hwf G) in K.
    rewrite N.eqb_refl, Pe, Val in K. cbn [negb] in K.
    rewrite !N.ltb_irrefl, !N.eqb_refl in K. cbn in K. discriminate.
Qed.

(* ------------------------------------------------------------------------------------ *)
(* putting placed entries into the memtable (commit and write-back) *)

Lemma Forall2_in_r {A B} (P : A -> B -> Prop) l m y :
  Forall2 P l m -> In y m -> exists x, In x l /\ P x y.
Proof.
  intros F. induction F as [|a b l m Hab F IH]; [contradiction|].
  intros [<-|H]; [exists a; split; auto; now left|].
  destruct (IH H) as (x & A1 & A2). exists x. split; auto. now right.
Qed.

Lemma Forall2_in_l {A B} (P : A -> B -> Prop) l m x :
  Forall2 P l m -> In x l -> exists y, In y m /\ P x y.
Proof.
  intros F. induction F as [|a b l m Hab F IH]; [contradiction|].
  intros [<-|H]; [exists b; split; auto; now left|].
  destruct (IH H) as (y & A1 & A2). exists y. split; auto. now right.
Qed.

Section Puts.
  Variables (d : lsm) (v v' : vstate) (es pes : list entry).
  Variables (todel : list N) (it : bool) (dmax now : N) (gc0 : option gcst).
  Hypothesis I : Inv d v gc0 todel it dmax now.
  Hypothesis W : write_req v es = (v', pes).
  (* (A) a key@version that is put again carries the value its copies in the tree have *)
  Hypothesis HA : forall e x, In e es -> In x (all_entries d) -> e_key x = e_key e -> e_ver x = e_ver e ->
                    gderef v x = Some (norm e).
  Hypothesis HB : forall a b, In a es -> In b es -> e_key a = e_key b -> e_ver a = e_ver b -> norm a = norm b.

  Let d' := apply_entries d pes.
  Let Hwf := i_wf _ _ _ _ _ _ _ I.
  Let Hfn : fresh_next v := fresh_next_of_bound _ (i_bound _ _ _ _ _ _ _ I).
  Let Hext := proj1 (write_req_ext _ _ _ _ Hfn W).
  Let Hgone := proj2 (write_req_ext _ _ _ _ Hfn W).
  Let Hpl := write_req_placed _ _ _ _ Hfn W.

  Lemma puts_old_gderef x : In x (all_entries d) -> gderef v' x = gderef v x.
  Proof.
    intros Hin. destruct (tree_gderef_some v d x (i_tree _ _ _ _ _ _ _ I) Hin) as [y Hy].
    rewrite Hy. eapply gderef_stable; eauto.
  Qed.

  Lemma puts_new_live x : In x pes -> file_live v' x.
  Proof.
    intros Hin f Hf. destruct (Forall2_in_r _ _ _ _ Hpl Hin) as (e & _ & P).
    destruct P as (_ & _ & _ & _ & [[P _]|(_ & idx & P & _)]).
    - unfold ptr_fid in Hf. rewrite P in Hf. discriminate.
    - unfold ptr_fid in Hf. rewrite P in Hf. destruct (is_ptr x); [|discriminate]. injection Hf as <-.
      rewrite Hgone. apply gone_false_iff. intros Hg. apply (i_gone _ _ _ _ _ _ _ I) in Hg. lia.
  Qed.

  Lemma puts_new_fid x fid idx : In x pes -> points_to x fid idx -> fid = v_max v.
  Proof.
    intros Hin [Hp Hv]. destruct (Forall2_in_r _ _ _ _ Hpl Hin) as (e & _ & P).
    destruct P as (_ & _ & _ & _ & [[P _]|(_ & i & P & _)]); congruence.
  Qed.

  Lemma puts_winner k ts x : db_get d' k ts = Some x ->
    (In x pes /\ cand k ts x = true /\ le_ver (db_get d k ts) x = true)
    \/ (db_get d k ts = Some x /\ forall pe, In pe pes -> cand k ts pe = true -> e_ver pe < e_ver x).
  Proof. unfold d'. rewrite db_get_puts by exact Hwf. apply fold_win1_result. Qed.

  Lemma puts_winner_exists k ts o : db_get d k ts = Some o ->
    exists x, db_get d' k ts = Some x /\ e_ver o <= e_ver x.
  Proof. unfold d'. rewrite db_get_puts by exact Hwf. intros ->. apply fold_win1_some. Qed.

  Lemma puts_file_live_old x : file_live v x -> file_live v' x.
  Proof. intros H f Hf. rewrite Hgone. auto. Qed.

  Lemma puts_inv_core gc' :
    match gc' with
    | None => True
    | Some g => g_fid g < v_max v' /\
        (g_scanned g = false -> g_wb g = []) /\
        (g_scanned g = true ->
           (forall idx w, In (idx, w) (g_wb g) -> wb_ok v' d' (g_fid g) idx w) /\
           (forall k ts e idx, dmax <= ts -> db_get d' k ts = Some e -> points_to e (g_fid g) idx ->
               In idx (map fst (g_wb g)) \/ deadb now e))
    end ->
    Inv d' v' gc' todel it dmax now.
  Proof.
    intros Hgc. constructor.
    - apply apply_entries_wf; exact Hwf.
    - (* tree_ok *)
      intros x Hin Hp. destruct (apply_entries_in _ _ _ Hin) as [Hn|Ho].
      + destruct (Forall2_in_r _ _ _ _ Hpl Hn) as (e & _ & P).
        destruct P as (_ & _ & _ & _ & [[P _]|(_ & idx & P1 & P2 & P3)]); [congruence|].
        exists (v_max v), idx, (norm e). auto.
      + destruct (i_tree _ _ _ _ _ _ _ I x Ho Hp) as (f & i & r & A & B & C).
        exists f, i, r. split; [exact A|]. split; [|exact C]. eapply fread_stable; eauto.
    - (* agree *)
      intros a b Ha Hb Hk Hv.
      destruct (apply_entries_in _ _ _ Ha) as [Na|Oa]; destruct (apply_entries_in _ _ _ Hb) as [Nb|Ob].
      + destruct (Forall2_in_r _ _ _ _ Hpl Na) as (ea & Ea & Pa).
        destruct (Forall2_in_r _ _ _ _ Hpl Nb) as (eb & Eb & Pb).
        rewrite (placed_gderef _ _ _ _ Pa), (placed_gderef _ _ _ _ Pb). f_equal.
        destruct Pa as (A1 & A2 & _), Pb as (B1 & B2 & _). apply HB; auto; congruence.
      + destruct (Forall2_in_r _ _ _ _ Hpl Na) as (ea & Ea & Pa).
        rewrite (placed_gderef _ _ _ _ Pa), (puts_old_gderef _ Ob).
        destruct Pa as (A1 & A2 & _). symmetry. apply HA; auto; congruence.
      + destruct (Forall2_in_r _ _ _ _ Hpl Nb) as (eb & Eb & Pb).
        rewrite (placed_gderef _ _ _ _ Pb), (puts_old_gderef _ Oa).
        destruct Pb as (B1 & B2 & _). apply HA; auto; congruence.
      + rewrite !puts_old_gderef by assumption. now apply (i_agree _ _ _ _ _ _ _ I).
    - (* safe *)
      intros k ts x Hts G. destruct (puts_winner _ _ _ G) as [(A & _)|(A & _)].
      + right. now apply puts_new_live.
      + destruct (i_safe _ _ _ _ _ _ _ I k ts x Hts A) as [H|H]; auto. right. now apply puts_file_live_old.
    - (* bound *)
      intros f rs Hf. destruct (write_req_max _ _ _ _ W) as (M1 & M2 & M3).
      destruct (M3 _ _ Hf) as [H|[rs0 H]]; auto. apply (i_bound _ _ _ _ _ _ _ I) in H. lia.
    - intros f Hf. rewrite Hgone in Hf. apply (i_gone _ _ _ _ _ _ _ I) in Hf.
      destruct (write_req_max _ _ _ _ W) as (M1 & _). lia.
    - intros f Hf. apply (i_todel_lt _ _ _ _ _ _ _ I) in Hf.
      destruct (write_req_max _ _ _ _ W) as (M1 & _). lia.
    - intros f Hf. destruct (i_todel _ _ _ _ _ _ _ I f Hf) as [A B]. split; auto.
      intros k ts x idx Hts G Hp. destruct (puts_winner _ _ _ G) as [(N1 & _)|(O1 & _)].
      + exfalso. pose proof (puts_new_fid _ _ _ N1 Hp). apply (i_todel_lt _ _ _ _ _ _ _ I) in Hf. lia.
      + eapply B; eauto.
    - exact Hgc.
  Qed.
End Puts.

(* ------------------------------------------------------------------------------------ *)
(* GcWriteBack *)

Lemma gderef_dead1 v a w now : gderef v a = Some w -> deleted_or_expired a now = deleted_or_expired w now.
Proof.
  unfold gderef, deref. destruct (is_ptr a).
  - destruct (read_ptr (gv v) a) as [r|]; [|discriminate]. intros [= <-]. now rewrite dead_clr.
  - now intros [= ->].
Qed.

Lemma gview_of_gderef v a w : gderef v a = Some w -> view (gv v) a = w.
Proof. unfold gderef. apply view_of_deref. Qed.

Lemma wb_ok_winner v d fid idx w :
  lsm_wf d -> wb_ok v d fid idx w ->
  exists e0, db_get d (e_key w) (e_ver w) = Some e0 /\ e_ver e0 = e_ver w /\ gderef v e0 = Some w
             /\ In e0 (all_entries d) /\ e_key e0 = e_key w.
Proof.
  intros Hwf [_ H]. destruct (H (e_ver w) ltac:(lia)) as (e0 & G & Hle & Heq).
  destruct (db_get_some _ _ _ _ Hwf G) as (A & B & C & _).
  assert (e_ver e0 = e_ver w) by lia. exists e0. repeat split; auto.
Qed.

Lemma wb_norm v d fid idx w : wb_ok v d fid idx w -> norm w = w.
Proof. intros [(rs & r & _ & _ & ->) _]. apply norm_norm. Qed.

Lemma writeback_inv d v g todel it dmax now v' pes :
  Inv d v (Some g) todel it dmax now -> g_scanned g = true ->
  write_req v (map snd (g_wb g)) = (v', pes) ->
  Inv (apply_entries d pes) v' (Some (mkGc (g_fid g) (g_clamp g) true [])) todel it dmax now
  /\ forall k ts, gvis v' (apply_entries d pes) now k ts = gvis v d now k ts.
Proof.
  intros I Hsc W.
  pose proof (i_wf _ _ _ _ _ _ _ I) as Hwf.
  destruct (i_gc _ _ _ _ _ _ _ I) as (Hfid & _ & Hg). destruct (Hg Hsc) as [Hwb HJ]. clear Hg.
  assert (Hws: forall w, In w (map snd (g_wb g)) -> exists idx, In (idx, w) (g_wb g)).
  { intros w Hw. apply in_map_iff in Hw. destruct Hw as ([idx w'] & <- & Hin). eauto. }
  assert (HA: forall e x, In e (map snd (g_wb g)) -> In x (all_entries d) -> e_key x = e_key e -> e_ver x = e_ver e ->
               gderef v x = Some (norm e)).
  { intros e x He Hx Hk Hv. destruct (Hws _ He) as [idx Hin]. pose proof (Hwb _ _ Hin) as Ok.
    rewrite (wb_norm _ _ _ _ _ Ok).
    destruct (wb_ok_winner _ _ _ _ _ Hwf Ok) as (e0 & _ & E1 & E2 & E3 & E4).
    rewrite <- E2. apply (i_agree _ _ _ _ _ _ _ I); auto; congruence. }
  assert (HB: forall a b, In a (map snd (g_wb g)) -> In b (map snd (g_wb g)) -> e_key a = e_key b -> e_ver a = e_ver b -> norm a = norm b).
  { intros a b Ha Hb Hk Hv. destruct (Hws _ Ha) as [ia Hia]. destruct (Hws _ Hb) as [ib Hib].
    pose proof (Hwb _ _ Hia) as Oa. pose proof (Hwb _ _ Hib) as Ob.
    rewrite (wb_norm _ _ _ _ _ Oa), (wb_norm _ _ _ _ _ Ob).
    destruct (wb_ok_winner _ _ _ _ _ Hwf Oa) as (e0 & G0 & _ & E2 & _).
    destruct (wb_ok_winner _ _ _ _ _ Hwf Ob) as (e1 & G1 & _ & F2 & _).
    rewrite Hk, Hv in G0. congruence. }
  pose proof (fresh_next_of_bound _ (i_bound _ _ _ _ _ _ _ I)) as Hfn.
  pose proof (write_req_placed _ _ _ _ Hfn W) as Hpl.
  split.
  - eapply puts_inv_core; eauto. cbn [g_fid g_scanned g_wb].
    split; [destruct (write_req_max _ _ _ _ W); lia|]. split; [discriminate|]. intros _.
    split; [intros idx w []|].
    intros k ts x idx Hts G Hp. right.
    destruct (puts_winner _ _ pes _ _ _ _ _ I k ts x G) as [(N1 & _)|(O1 & O2)].
    + exfalso. pose proof (puts_new_fid _ _ _ _ _ _ _ _ _ _ I W x _ _ N1 Hp). lia.
    + destruct (HJ k ts x idx Hts O1 Hp) as [Hpend|Hd]; auto. exfalso.
      apply in_map_iff in Hpend. destruct Hpend as ([idx' w] & Hfst & Hin). cbn in Hfst. subst idx'.
      destruct (Hwb _ _ Hin) as [(rs & r & F1 & F2 & ->) _].
      destruct (db_get_some _ _ _ _ Hwf O1) as (Xin & Xk & Xv & _).
      destruct Hp as [Hp Hval].
      destruct (i_tree _ _ _ _ _ _ _ I x Xin Hp) as (f' & i' & r' & A & B & (R1 & R2 & _)).
      assert (r' = r) by (unfold fread in B; rewrite Hval, F1 in B; congruence). subst r'.
      assert (Hw: In (norm r) (map snd (g_wb g))) by (apply in_map_iff; exists (idx, norm r); auto).
      destruct (Forall2_in_l _ _ _ _ Hpl Hw) as (pe & Pin & (P1 & P2 & _)).
      assert (C: cand k ts pe = true).
      { apply cand_spec. cbn [norm with_val e_key e_ver] in P1, P2. split; [congruence|]. rewrite P2, R2. exact Xv. }
      specialize (O2 pe Pin C). cbn [norm with_val e_ver] in P2. lia.
  - (* the ghost-visible read does not change *)
    intros k ts. unfold gvis.
    destruct (db_get d k ts) as [e0|] eqn:G0.
    + destruct (puts_winner_exists _ _ pes _ _ _ _ _ I k ts e0 G0) as (x & Gx & Hle).
      rewrite Gx.
      destruct (puts_winner _ _ pes _ _ _ _ _ I k ts x Gx) as [(N1 & N2 & N3)|(O1 & _)].
      * destruct (Forall2_in_r _ _ _ _ Hpl N1) as (w & Hw & P).
        destruct (Hws _ Hw) as [idx Hin]. pose proof (Hwb _ _ Hin) as Ok.
        pose proof (placed_gderef _ _ _ _ P) as Gd. rewrite (wb_norm _ _ _ _ _ Ok) in Gd.
        destruct P as (P1 & P2 & _). apply cand_spec in N2. destruct N2 as [N2k N2v].
        destruct Ok as [_ Ok]. destruct (Ok ts ltac:(lia)) as (e1 & G1 & L1 & Q1).
        rewrite <- P1, N2k, G0 in G1. injection G1 as <-.
        rewrite G0 in N3. cbn [le_ver] in N3.
        assert (Heq: e_ver e0 = e_ver w) by lia. specialize (Q1 Heq).
        rewrite (gderef_dead1 _ _ _ now Gd), (gderef_dead1 _ _ _ now Q1).
        now rewrite (gview_of_gderef _ _ _ Gd), (gview_of_gderef _ _ _ Q1).
      * rewrite G0 in O1. injection O1 as <-.
        destruct (db_get_some _ _ _ _ Hwf G0) as (Ein & _).
        destruct (deleted_or_expired e0 now); auto. f_equal. unfold view.
        change (deref (gv v') e0) with (gderef v' e0). change (deref (gv v) e0) with (gderef v e0).
        now rewrite (puts_old_gderef _ _ _ _ _ _ _ _ _ _ I W e0 Ein).
    + assert (Hn: forall pe, In pe pes -> cand k ts pe = false).
      { intros pe Pin. destruct (cand k ts pe) eqn:C; auto. exfalso. apply cand_spec in C. destruct C as [C1 C2].
        destruct (Forall2_in_r _ _ _ _ Hpl Pin) as (w & Hw & (P1 & P2 & _)).
        destruct (Hws _ Hw) as [idx Hin]. destruct (Hwb _ _ Hin) as [_ Ok].
        destruct (Ok ts ltac:(lia)) as (e1 & G1 & _). rewrite <- P1, C1, G0 in G1. discriminate. }
      rewrite (db_get_puts _ _ _ _ Hwf), G0, (fold_win1_none _ _ _ Hn). reflexivity.
Qed.

(* ------------------------------------------------------------------------------------ *)
(* Commit: fresh versions *)

Definition fresh_entries (d : lsm) (es : list entry) : Prop :=
  (forall e x, In e es -> In x (all_entries d) -> e_key x = e_key e -> e_ver x < e_ver e) /\
  (forall a b, In a es -> In b es -> e_key a = e_key b -> e_ver a = e_ver b -> norm a = norm b).

Lemma commit_inv d v gc todel it dmax now es v' pes :
  Inv d v gc todel it dmax now -> fresh_entries d es -> write_req v es = (v', pes) ->
  Inv (apply_entries d pes) v' gc todel it dmax now.
Proof.
  intros I [F1 F2] W.
  pose proof (i_wf _ _ _ _ _ _ _ I) as Hwf.
  pose proof (fresh_next_of_bound _ (i_bound _ _ _ _ _ _ _ I)) as Hfn.
  pose proof (write_req_placed _ _ _ _ Hfn W) as Hpl.
  destruct (write_req_ext _ _ _ _ Hfn W) as [Hext Hgone].
  eapply puts_inv_core; eauto.
  { intros e x He Hx Hk Hv. specialize (F1 e x He Hx Hk). lia. }
  destruct gc as [g|]; auto.
  destruct (i_gc _ _ _ _ _ _ _ I) as (Hfid & Hns & Hg).
  split; [destruct (write_req_max _ _ _ _ W); lia|]. split; auto.
  intros Hsc. destruct (Hg Hsc) as [Hwb HJ]. split.
  - intros idx w Hin. destruct (Hwb _ _ Hin) as [(rs & r & R1 & R2 & R3) Ok]. split.
    + destruct (Hext _ _ R1) as [more R1']. exists (rs ++ more), r. split; auto. split; auto.
      now apply nth_error_app_l.
    + intros ts Hts. destruct (Ok ts Hts) as (e & G & Hle & Heq).
      destruct (puts_winner_exists _ _ pes _ _ _ _ _ I _ _ _ G) as (x & Gx & Hx).
      exists x. split; auto. split; [lia|]. intros Hxv.
      destruct (puts_winner _ _ pes _ _ _ _ _ I _ _ _ Gx) as [(N1 & N2 & _)|(O1 & _)].
      * exfalso. destruct (Forall2_in_r _ _ _ _ Hpl N1) as (e' & He' & (P1 & P2 & _)).
        destruct (db_get_some _ _ _ _ Hwf G) as (Ein & Ek & _).
        apply cand_spec in N2. destruct N2 as [N2 _].
        specialize (F1 e' e He' Ein ltac:(congruence)). lia.
      * rewrite G in O1. injection O1 as <-.
        destruct (db_get_some _ _ _ _ Hwf G) as (Ein & _).
        rewrite (puts_old_gderef _ _ _ _ _ _ _ _ _ _ I W e Ein). apply Heq. lia.
  - intros k ts x idx Hts G Hp.
    destruct (puts_winner _ _ pes _ _ _ _ _ I k ts x G) as [(N1 & _)|(O1 & _)].
    + exfalso. pose proof (puts_new_fid _ _ _ _ _ _ _ _ _ _ I W x _ _ N1 Hp). lia.
    + eauto.
Qed.

(* ------------------------------------------------------------------------------------ *)
(* flush and compaction: the tree is re-shaped, entries may disappear *)

Definition keeps_winners (d d' : lsm) (D : N) : Prop :=
  forall k ts e, D <= ts -> db_get d' k ts = Some e -> db_get d k ts = Some e.

Definition keeps_pending (d' : lsm) (gc : option gcst) : Prop :=
  match gc with
  | Some g => forall idx w, In (idx, w) (g_wb g) -> forall ts, e_ver w <= ts ->
                exists e', db_get d' (e_key w) ts = Some e' /\ e_ver w <= e_ver e'
  | None => True
  end.

Lemma reshape_inv d d' v gc todel it dmax D now :
  Inv d v gc todel it dmax now -> lsm_wf d' ->
  (forall x, In x (all_entries d') -> In x (all_entries d)) ->
  keeps_winners d d' D -> keeps_pending d' gc ->
  Inv d' v gc todel it (N.max dmax D) now.
Proof.
  intros I Hwf' Hsub HP HC.
  pose proof (i_wf _ _ _ _ _ _ _ I) as Hwf.
  constructor; auto.
  - intros e He Hp. apply (i_tree _ _ _ _ _ _ _ I); auto.
  - intros a b Ha Hb. apply (i_agree _ _ _ _ _ _ _ I); auto.
  - intros k ts e Hts G. apply (i_safe _ _ _ _ _ _ _ I k ts); [lia|]. apply HP; auto. lia.
  - apply (i_bound _ _ _ _ _ _ _ I).
  - apply (i_gone _ _ _ _ _ _ _ I).
  - apply (i_todel_lt _ _ _ _ _ _ _ I).
  - intros f Hf. destruct (i_todel _ _ _ _ _ _ _ I f Hf) as [A B]. split; auto.
    intros k ts e idx Hts G Hp. apply (B k ts e idx); [lia| |auto]. apply HP; auto. lia.
  - destruct gc as [g|]; auto. destruct (i_gc _ _ _ _ _ _ _ I) as (Hfid & Hns & Hg).
    split; auto. split; auto. intros Hsc. destruct (Hg Hsc) as [Hwb HJ]. split.
    + intros idx w Hin. pose proof (Hwb _ _ Hin) as Ok. split; [exact (proj1 Ok)|].
      intros ts Hts. destruct (HC idx w Hin ts Hts) as (e' & G' & Hle). exists e'. split; auto. split; auto.
      intros Heq. destruct (wb_ok_winner _ _ _ _ _ Hwf Ok) as (e0 & _ & E1 & E2 & E3 & E4).
      destruct (db_get_some _ _ _ _ Hwf' G') as (Ein & Ek & _).
      rewrite <- E2. apply (i_agree _ _ _ _ _ _ _ I); auto; congruence.
    + intros k ts e idx Hts G Hp. apply (HJ k ts e idx); [lia| |auto]. apply HP; auto. lia.
Qed.

Lemma flush_wf d id : lsm_wf d -> lsm_wf (flush_oldest (rotate d) id).
Proof.
  intros (Hmt & Himm & Hlev). unfold flush_oldest, rotate, lsm_wf. cbn [l_mt l_imm l_levels].
  assert (Hall: Forall sorted (l_imm d ++ [l_mt d])) by (apply Forall_app; split; auto).
  destruct (l_imm d ++ [l_mt d]) as [|m r] eqn:E; cbn [l_mt l_imm l_levels].
  - split; [constructor|]. split; auto.
  - inversion Hall as [|? ? Hm Hr]; subst. split; [constructor|]. split; auto.
    destruct m as [|e0 m']; auto.
    destruct (l_levels d) as [|l0 rest]; cbn [add_l0].
    + split; [|constructor]. constructor; [exact Hm|constructor].
    + destruct Hlev as [H0 Hrest]. split; auto. apply Forall_app. split; auto.
Qed.

Lemma flush_inv d v gc todel it dmax now id :
  Inv d v gc todel it dmax now -> Inv (flush_oldest (rotate d) id) v gc todel it dmax now.
Proof.
  intros I. pose proof (i_wf _ _ _ _ _ _ _ I) as Hwf. pose proof (flush_wf d id Hwf) as Hwf'.
  assert (Hm: N.max dmax 0 = dmax) by lia. rewrite <- Hm.
  apply (reshape_inv d); auto.
  - intros x. now rewrite flush_all_entries.
  - intros k ts e _. now rewrite flush_db_get.
  - unfold keeps_pending. destruct gc as [g|]; auto. intros idx w Hin ts Hts.
    destruct (i_gc _ _ _ _ _ _ _ I) as (_ & Hns & Hg).
    destruct (g_scanned g) eqn:Sc; [|rewrite (Hns eq_refl) in Hin; contradiction].
    destruct (Hg eq_refl) as [Hwb _]. destruct (Hwb _ _ Hin) as [_ Ok].
    destruct (Ok ts Hts) as (e & G & Hle & _). exists e. rewrite flush_db_get by assumption. auto.
Qed.

(* ------------------------------------------------------------------------------------ *)
(* the remaining steps *)

Lemma now_inv d v gc todel it dmax now now' :
  Inv d v gc todel it dmax now -> now <= now' -> Inv d v gc todel it dmax now'.
Proof.
  intros I Hn.
  assert (Hd: forall e, deadb now e -> deadb now' e).
  { intros e. unfold deadb. now apply deleted_or_expired_mono_c. }
  constructor; try (apply I).
  - intros k ts e Hts G. destruct (i_safe _ _ _ _ _ _ _ I k ts e Hts G); auto.
  - intros f Hf. destruct (i_todel _ _ _ _ _ _ _ I f Hf) as [A B]. split; auto. intros. eapply Hd, B; eauto.
  - destruct gc as [g|]; auto. destruct (i_gc _ _ _ _ _ _ _ I) as (A & B & C). split; auto. split; auto.
    intros Hsc. destruct (C Hsc) as [C1 C2]. split; auto. intros k ts e idx Hts G Hp.
    destruct (C2 k ts e idx Hts G Hp); auto.
Qed.

Lemma iters_inv d v gc todel it it' dmax now :
  Inv d v gc todel it dmax now -> (todel = [] \/ it' = true) -> Inv d v gc todel it' dmax now.
Proof.
  intros I H. constructor; try (apply I).
  intros f Hf. destruct (i_todel _ _ _ _ _ _ _ I f Hf) as [A B]. split; auto.
  destruct H as [->|H]; [contradiction|auto].
Qed.

Lemma gcstart_inv d v todel it dmax now fid clamp :
  Inv d v None todel it dmax now -> fid < v_max v ->
  Inv d v (Some (mkGc fid clamp false [])) todel it dmax now.
Proof.
  intros I Hf. constructor; try (apply I). cbn. split; auto. split; auto. discriminate.
Qed.

Lemma gcend_inv d v g todel it dmax now :
  Inv d v (Some g) todel it dmax now -> Inv d v None todel it dmax now.
Proof. intros I. constructor; try (apply I). exact Logic.I. Qed.

Lemma gcscan_inv d v g todel it dmax now rs :
  Inv d v (Some g) todel it dmax now -> vfind (v_files v) (g_fid g) = Some rs ->
  Inv d v (Some (mkGc (g_fid g) (g_clamp g) true (gc_scan d now (g_fid g) 0 rs))) todel it dmax now.
Proof.
  intros I Hf. constructor; try (apply I). cbn [g_fid g_scanned g_wb].
  destruct (i_gc _ _ _ _ _ _ _ I) as (A & _). split; auto. split; [discriminate|]. intros _. split.
  - intros idx w Hin. eapply scan_wb_ok; eauto.
  - intros k ts e idx _ G Hp. eapply scan_J; eauto.
Qed.

Lemma remove_inv d v gc todel it dmax now fs :
  Inv d v gc todel it dmax now ->
  (forall f, In f fs -> f < v_max v /\
     forall k ts e idx, dmax <= ts -> db_get d k ts = Some e -> points_to e f idx -> deadb now e) ->
  forall todel', (forall f, In f todel' -> In f todel) ->
  Inv d (remove_fids fs v) gc todel' it dmax now.
Proof.
  intros I Hfs todel' Hsub. constructor; try (apply I); cbn [remove_fids v_files v_max v_gone].
  - intros k ts e Hts G. destruct (i_safe _ _ _ _ _ _ _ I k ts e Hts G) as [H|H]; auto.
    destruct (deleted_or_expired e now) eqn:D; [now left|]. right. intros f Hf.
    unfold remove_fids. cbn [v_gone]. apply gone_false_iff. intros Hin. apply in_app_or in Hin.
    destruct Hin as [Hin|Hin].
    + destruct (ptr_fid_some _ _ Hf) as [idx Hp]. destruct (Hfs f Hin) as [_ Hdead].
      specialize (Hdead k ts e idx Hts G Hp). unfold deadb in Hdead. congruence.
    + specialize (H f Hf). apply gone_false_iff in H. contradiction.
  - intros f Hin. apply in_app_or in Hin. destruct Hin as [Hin|Hin].
    + now destruct (Hfs f Hin).
    + now apply (i_gone _ _ _ _ _ _ _ I).
  - intros f Hf. apply (i_todel_lt _ _ _ _ _ _ _ I). auto.
  - intros f Hf. apply (i_todel _ _ _ _ _ _ _ I). auto.
Qed.

Lemma defer_inv d v g todel it dmax now :
  Inv d v (Some g) todel it dmax now -> g_scanned g = true -> g_wb g = [] -> it = true ->
  Inv d v (Some g) (todel ++ [g_fid g]) it dmax now.
Proof.
  intros I Hsc Hwb Hit. destruct (i_gc _ _ _ _ _ _ _ I) as (A & _ & C). destruct (C Hsc) as [_ HJ].
  constructor; try (apply I).
  - intros f Hf. apply in_app_or in Hf. destruct Hf as [Hf|[<-|[]]]; auto. now apply (i_todel_lt _ _ _ _ _ _ _ I).
  - intros f Hf. apply in_app_or in Hf. destruct Hf as [Hf|[<-|[]]]; [now apply (i_todel _ _ _ _ _ _ _ I)|].
    split; auto. intros k ts e idx Hts G Hp. destruct (HJ k ts e idx Hts G Hp) as [H|H]; auto.
    rewrite Hwb in H. contradiction.
Qed.

(* a read at or above dmax does not notice the removal of unreferenced files *)
Lemma remove_gvis v fs d now k ts : gvis (remove_fids fs v) d now k ts = gvis v d now k ts.
Proof. reflexivity. Qed.
