(* SysRejected.v — the system model of Sys.v extended with the commits that are refused AFTER
   oracle.newCommitTs has run (finding F12).

   txn.go commitAndSend:   commitTs, conflict := orc.newCommitTs(txn)      (ts allocated, write set
                                                                             appended to committedTxns)
                           ... req, err := txn.db.sendToWriteCh(entries)
                           if err != nil { orc.doneCommit(commitTs); return nil, err }
   db.go sendToWriteCh:    blockWrites == 1            => ErrBlockedWrites   (DropAll / DropPrefix / Close window)
                           count/size over the limits  => ErrTxnTooBig       (finding F4: reachable although every
                                                                             Set was accepted)
   Neither error path removes the entry newCommitTs appended to committedTxns, and the timestamp
   stays consumed.  Wrapper labels (Sys.v itself is shared and unchanged):
     XBlock on          db.blockWrites := on (prepareToDrop / Close; a verif export in the harness)
     XTooBig t cts      Commit/CommitAt of t observed ErrTxnTooBig (which commits are over the limit is
                        decided by the size accounting modelled in A/TxnModify.v (C28); here it is an
                        environment choice carried by the label)
     Base (Commit ..)   while blocked: the commit takes the rejected path and must observe code 7.
   `fx` = the repair (roll the conflict-log entry back on the error path); fx = false is the pinned tree. *)
From Verif Require Import Bytes Keys Consts Spec Lsm Compact Iter Sys.
Open Scope N_scope.

Record xsys := mkX { x_base : sys; x_blocked : bool }.

Inductive xop :=
| Base (o : op)
| XBlock (on : bool)
| XTooBig (t : N) (cts : N).

Definition c_errBlocked : N := 7.
Definition c_errTooBig : N := 8.

(* Txn.Commit when sendToWriteCh refuses the request with error `code`:
   result codes as txn_commit, plus `code` when the refusal is reached. *)
Definition rejected_commit (fx : bool) (s : sys) (t : N) (x : txn) (cts : N) (code : N) : N * N * sys :=
  match x_pend x with
  | [] => (0, 0, mkSys (s_db s) (s_next s) (s_committed s) (update (s_txns s) t (discard_txn x))
                       (s_managed s) (s_detect s) (s_nkeep s) (s_discard s) (s_writes s) (s_now s))
  | _ =>
    if x_done x then (5, 0, s)
    else if s_detect s && has_conflict s x then
      (1, 0, mkSys (s_db s) (s_next s) (s_committed s) (update (s_txns s) t (discard_txn x))
                   (s_managed s) (s_detect s) (s_nkeep s) (s_discard s) (s_writes s) (s_now s))
    else
      (* newCommitTs ran: timestamp consumed, conflict keys logged; nothing is written *)
      let ts := if s_managed s then cts else s_next s in
      let next' := if s_managed s then s_next s else s_next s + 1 in
      let comm := if s_detect s && negb fx then s_committed s ++ [(ts, map fst (x_pend x))] else s_committed s in
      (code, ts, mkSys (s_db s) next' comm (update (s_txns s) t (discard_txn x))
                       (s_managed s) (s_detect s) (s_nkeep s) (s_discard s) (s_writes s) (s_now s))
  end.

Inductive xresult := XOk (s : xsys) | XBad (code : N).

Definition lift (b : bool) (r : result) : xresult :=
  match r with Ok s => XOk (mkX s b) | Bad c => XBad c end.

Definition xstep (fx : bool) (s : xsys) (o : xop) : xresult :=
  match o with
  | XBlock on => XOk (mkX (x_base s) on)
  | XTooBig t cts =>
      match lookup (s_txns (x_base s)) t with
      | Some x => let '(r', _, s') := rejected_commit fx (x_base s) t x cts c_errTooBig in
                  if r' =? c_errTooBig then XOk (mkX s' (x_blocked s)) else XBad 1
      | None => XBad 2
      end
  | Base (Commit t cts r) =>
      if x_blocked s then
        match lookup (s_txns (x_base s)) t with
        | Some x => let '(r', _, s') := rejected_commit fx (x_base s) t x cts c_errBlocked in
                    if r' =? r then XOk (mkX s' true) else XBad 1
        | None => XBad 2
        end
      else lift false (step (x_base s) (Commit t cts r))
  | Base o => lift (x_blocked s) (step (x_base s) o)
  end.

Fixpoint xexec (fx : bool) (s : xsys) (ops : list xop) (i : N) : option (N * N) * xsys :=
  match ops with
  | [] => (None, s)
  | o :: r => match xstep fx s o with
              | XOk s' => xexec fx s' r (i + 1)
              | XBad code => (Some (i, code), s)
              end
  end.

Definition init_xsys (managed detect : bool) (nkeep : N) (nlevels : nat) (next : N) : xsys :=
  mkX (init_sys managed detect nkeep nlevels next) false.
