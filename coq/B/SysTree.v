(* SysTree.v — step_strict plus the three remaining decidable conditions the tree-invariant
   theorems (TreeStepProofs.v) need from a label; proposed for inclusion in Sys.step_strict:
     143  Flush id: the new table's id is fresh whenever a table is created (id 0 included)
     144  Compact: the output level exists (c_next < number of levels)
     8xx  Compact: SysReopen.compact_extra_check (new tables break only between different user
          keys; Lmax->Lmax picks a contiguous run) *)
From Verif Require Import Bytes Keys Consts Spec Lsm Compact Iter Sys SysReopen.
Open Scope N_scope.

Definition step_tree (s : sys) (o : op) : result :=
  match o with
  | Flush id =>
      match l_mt (s_db s) with
      | [] => step_strict s o
      | _ => if existsb (N.eqb id) (all_ids (l_levels (s_db s))) then Bad 143 else step_strict s o
      end
  | Compact c out =>
      let ls := l_levels (s_db s) in
      if negb (pick_check ls c =? 0) then step_strict s o
      else if negb (c_next c <? length ls)%nat then Bad 144
      else let x := compact_extra_check ls c in
           if negb (x =? 0) then Bad x else step_strict s o
  | _ => step_strict s o
  end.

Fixpoint exec_tree (s : sys) (ops : list op) (i : N) : option (N * N) * sys :=
  match ops with
  | [] => (None, s)
  | o :: r => match step_tree s o with
              | Ok s' => exec_tree s' r (i + 1)
              | Bad code => (Some (i, code), s)
              end
  end.

(* what the theorems require of the labels themselves (not of the state): normal-mode writes carry
   no explicit version (the API has no way to give one), compactions carry no drop prefixes
   (DropPrefix is C29's) *)
Definition op_plain (o : op) : Prop :=
  match o with
  | Modify _ e _ => e_ver e = 0
  | Compact c _ => c_drop c = []
  | _ => True
  end.
