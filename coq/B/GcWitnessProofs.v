(* GcWitnessProofs.v — the recorded histories of GcWitness.v are accepted by the model and
   exhibit the defects (all by computation). *)
From Coq Require Import String.
From Verif Require Import Bytes Keys Consts Spec Lsm Compact Iter Sys Gc GcWitness.
Open Scope N_scope.

Definition key_k : bytes := [107].    (* "k" *)

(* F2: after the rewrite the item held by the still-open transaction 2 points into the deleted
   file: it does not dereference, and the API yields an empty value *)
Lemma witness_f2 :
  exists s tags e x,
    xexec w_init w_f2 0 [] = (None, s, tags) /\
    lookup (x_items s) 0 = Some e /\
    lookup (s_txns (x_sys s)) 2 = Some x /\ x_done x = false /\
    e_key e = key_k /\ deref (x_v s) e = None /\ e_val (view (x_v s) e) = [].
Proof.
  eexists. eexists. eexists. eexists.
  split; [vm_compute; reflexivity|].
  split; [vm_compute; reflexivity|].
  split; [vm_compute; reflexivity|].
  repeat split; vm_compute; reflexivity.
Qed.

(* ... although the very same item dereferenced to the written value before the rewrite *)
Lemma witness_f2_before :
  exists s tags e v,
    xexec w_init (firstn 12 w_f2) 0 [] = (None, s, tags) /\
    lookup (x_items s) 0 = Some e /\ deref (x_v s) e = Some v /\ length (e_val v) = 40%nat.
Proof.
  eexists. eexists. eexists. eexists.
  split; [vm_compute; reflexivity|].
  split; [vm_compute; reflexivity|].
  split; vm_compute; reflexivity.
Qed.

(* F23: the history is accepted (so the compaction inside the rewrite respected the clamp),
   key k is not visible at timestamp 3 before GcWriteBack and visible after it *)
Lemma witness_f23 :
  exists s tags s' tg e,
    xexec w_init w_f23_before 0 [] = (None, s, tags) /\
    xstep s GcWriteBack = XOk s' tg /\
    x_dmax s <= 3 /\ vread s key_k 3 = None /\ vread s' key_k 3 = Some e /\ e_ver e = 1.
Proof.
  eexists. eexists. eexists. eexists. eexists.
  split; [vm_compute; reflexivity|].
  split; [vm_compute; reflexivity|].
  split; [vm_compute; discriminate|].
  split; [vm_compute; reflexivity|].
  split; vm_compute; reflexivity.
Qed.

(* F26: the rewrite has ended (no clamp any more); the next compaction resurrects k *)
Lemma witness_f26 :
  exists s tags s' tg e,
    xexec w_init w_f26_before 0 [] = (None, s, tags) /\ x_gc s = None /\
    xstep s w_f26_compact = XOk s' tg /\
    x_dmax s' <= 4 /\ vread s key_k 4 = None /\ vread s' key_k 4 = Some e /\ e_ver e = 1.
Proof.
  eexists. eexists. eexists. eexists. eexists.
  split; [vm_compute; reflexivity|].
  split; [vm_compute; reflexivity|].
  split; [vm_compute; reflexivity|].
  split; [vm_compute; discriminate|].
  split; [vm_compute; reflexivity|].
  split; vm_compute; reflexivity.
Qed.

(* ------------------------------------------------------------------------------------ *)
(* the hypotheses of the theorems are satisfiable: a decidable check of `run_ok` for
   histories without compactions, and a history with two commits and a complete rewrite *)
From Verif Require Import BytesProofs CompactProofs GetProofs GcProofs GcInvProofs GcStepProofs.
From Coq Require Import ZifyN ZifyNat ZifyBool.

Lemma entry_eqb_eq a b : entry_eqb a b = true -> a = b.
Proof.
  unfold entry_eqb. rewrite !andb_true_iff, !bytes_eqb_eq, !N.eqb_eq.
  destruct a, b; cbn. intros (((((-> & ->) & ->) & ->) & ->) & ->). reflexivity.
Qed.

Definition fresh_b (d : lsm) (es : list entry) : bool :=
  forallb (fun e => forallb (fun x => negb (bytes_eqb (e_key x) (e_key e)) || (e_ver x <? e_ver e)) (all_entries d)) es
  && forallb (fun a => forallb (fun b => negb (bytes_eqb (e_key a) (e_key b) && (e_ver a =? e_ver b))
                                         || entry_eqb (norm a) (norm b)) es) es.

Lemma fresh_b_ok d es : fresh_b d es = true -> fresh_entries d es.
Proof.
  unfold fresh_b, fresh_entries. rewrite andb_true_iff, !forallb_forall. intros [A B]. split.
  - intros e x He Hx Hk. specialize (A e He). rewrite forallb_forall in A. specialize (A x Hx).
    apply orb_true_iff in A. destruct A as [A|A]; [|lia].
    apply negb_true_iff in A. assert (bytes_eqb (e_key x) (e_key e) = true) by now apply bytes_eqb_eq. congruence.
  - intros a b Ha Hb Hk Hv. specialize (B a Ha). rewrite forallb_forall in B. specialize (B b Hb).
    apply orb_true_iff in B. destruct B as [B|B]; [|now apply entry_eqb_eq].
    apply negb_true_iff in B. apply andb_false_iff in B. destruct B as [B|B].
    + assert (bytes_eqb (e_key a) (e_key b) = true) by now apply bytes_eqb_eq. congruence.
    + apply N.eqb_neq in B. contradiction.
Qed.

Definition adm_commit_b (s : xsys) (t cts : N) (ord : list (bytes * N)) : bool :=
  match lookup (s_txns (x_sys s)) t with
  | Some x => fresh_b (x_db s) (order_by ord (commit_entries x (commit_ts (x_sys s) cts)))
  | None => true
  end.

Definition admissible_b (s : xsys) (o : xop) : bool :=
  match o with
  | Base (Commit t cts _) => adm_commit_b s t cts []
  | CommitV t cts _ ord => adm_commit_b s t cts ord
  | Base (Compact _ _) => false
  | Base (SetNow n) => s_now (x_sys s) <=? n
  | _ => true
  end.

Lemma admissible_b_ok s o : admissible_b s o = true -> admissible s o.
Proof.
  assert (Hc: forall t cts ord, adm_commit_b s t cts ord = true -> adm_commit s t cts ord).
  { intros t cts ord. unfold adm_commit_b, adm_commit. intros H x Hx. rewrite Hx in H. now apply fresh_b_ok. }
  destruct o; cbn; auto. destruct o; cbn; auto; try discriminate. intros H. lia.
Qed.

Fixpoint run_okb (s : xsys) (ops : list xop) : bool :=
  match ops with
  | [] => true
  | o :: r => admissible_b s o && match xstep s o with XOk s' _ => run_okb s' r | XBad _ => true end
  end.

Lemma run_okb_ok ops : forall s, run_okb s ops = true -> run_ok s ops.
Proof.
  induction ops as [|o r IH]; intros s; cbn [run_okb run_ok]; auto.
  rewrite andb_true_iff. intros [A B]. split; [now apply admissible_b_ok|].
  destruct (xstep s o); auto.
Qed.

(* two commits (k, p: both values in the value log, file 1 sealed by the second), then a whole
   rewrite of file 1 *)
Definition w_ok : list xop :=
  firstn 7 w_f2 ++ [GcStart 1 0; GcScan [(key_k, 1); ([112], 2)]; GcWriteBack; GcDelete false; GcEnd].

Lemma w_ok_run_ok : run_ok w_init w_ok.
Proof. apply run_okb_ok. vm_compute. reflexivity. Qed.

Lemma w_ok_accepted : exists s tags, xexec w_init w_ok 0 [] = (None, s, tags) /\ v_gone (x_v s) = [1].
Proof. eexists. eexists. split; vm_compute; reflexivity. Qed.
