(* StreamProofs2.v — the key ranges partition the key space (C25): per-range iteration as a
   function of one list of shown items; key-once characterisation of one pass. *)
From Verif Require Import Bytes BytesProofs Keys C20Proofs Consts Spec Lsm Compact Iter Sys Stream StreamProofs.
From Coq Require Import ZifyN ZifyNat ZifyBool Sorting.Sorted.
Open Scope N_scope.

Definition dW (l : bytes) (J : list entry) : list entry := drop_while (fun e => key_lt (e_key e) l) J.

Lemma dW_nil J : dW [] J = J.
Proof.
  unfold dW. apply drop_while_none. apply Forall_forall. intros e _. unfold key_lt.
  pose proof (lex_not_lt_nil (e_key e)). destruct (lex_cmp (e_key e) []); congruence.
Qed.

Lemma dW_dW start k J : (start = [] \/ lex_cmp start k <> Gt) -> dW k (dW start J) = dW k J.
Proof.
  intros [->|H]; [now rewrite dW_nil|].
  unfold dW. induction J as [|e r IH]; cbn [drop_while]; auto.
  destruct (key_lt (e_key e) start) eqn:E1.
  - rewrite IH. unfold key_lt in *. destruct (lex_cmp (e_key e) start) eqn:E; try discriminate.
    rewrite (lex_lt_le_trans _ _ _ E H). reflexivity.
  - reflexivity.
Qed.

Lemma dW_suffix l J : exists A, J = A ++ dW l J.
Proof.
  unfold dW. induction J as [|e r IH]; [exists []; auto|]. cbn [drop_while].
  destruct (key_lt (e_key e) l); [|exists []; auto].
  destruct IH as [A HA]. exists (e :: A). cbn. now f_equal.
Qed.

Lemma no_empty_key_dW l J : no_empty_key J -> no_empty_key (dW l J).
Proof.
  intros H. destruct (dW_suffix l J) as [A HA]. unfold no_empty_key in *. rewrite HA in H.
  apply Forall_app in H. tauto.
Qed.

Section Ranges.
  Variable ktl : bytes -> list entry -> option (list entry) * list entry.
  Variable choose : entry -> bool.

  Definition range_k (J : list entry) (rng : bytes * bytes) : list (bytes * list entry) :=
    produce_k ktl choose (snd rng) (dW (fst rng) J) [].

  Lemma ranges_concat J : no_empty_key J -> forall ks start,
    Forall (fun k => k <> []) ks -> sorted_keys (start :: ks) = true ->
    concat (map (range_k J) (ranges_from start ks)) = range_k J (start, []).
  Proof.
    intros Hne. induction ks as [|k ks IH]; intros start Hnn Hs.
    - cbn. now rewrite app_nil_r.
    - inversion Hnn as [|? ? Hk Hnn']; subst.
      cbn [ranges_from map concat]. rewrite (IH k Hnn').
      2:{ cbn [sorted_keys] in Hs. apply andb_true_iff in Hs. tauto. }
      unfold range_k. cbn [fst snd].
      assert (Hle: start = [] \/ lex_cmp start k <> Gt).
      { cbn [sorted_keys] in Hs. apply andb_true_iff in Hs. destruct Hs as [Hs _].
        right. destruct (lex_cmp start k); congruence. }
      rewrite <- (dW_dW start k J Hle).
      apply (split_two ktl choose k [] Hk (or_introl eq_refl)); [now apply no_empty_key_dW|now left].
  Qed.
End Ranges.

(* ---------------------------------------------------------------- Seek / iteration *)
Lemma seek_split m k ts :
  exists A, m = A ++ seek_ge m k ts /\ Forall (fun e => key_le k ts e = false) A.
Proof.
  induction m as [|e r IH]; cbn [seek_ge]; [exists []; auto|].
  destruct (key_le k ts e) eqn:E; [exists []; auto|].
  destruct IH as (A & HA & HF). exists (e :: A). split; [cbn; now f_equal|constructor; auto].
Qed.

Lemma seek_ge_all m k ts : view_ok m ->
  Forall (fun e => lex_cmp k (e_key e) <> Gt) (seek_ge m k ts).
Proof.
  unfold view_ok. induction 1 as [|e r Hs IH Hx]; cbn [seek_ge]; [constructor|].
  destruct (key_le k ts e) eqn:E; auto.
  pose proof (key_le_key _ _ _ E) as Hk. constructor; auto.
  rewrite Forall_forall in *. intros y Hy. eapply lex_le_trans; [exact Hk|].
  apply ent_lt_key_le. now apply Hx.
Qed.

Lemma match_list_nil {A B} (p : list A) (a b : B) : p = [] -> match p with [] => a | _ :: _ => b end = a.
Proof. now intros ->. Qed.
Lemma match_list_cons {A B} (p : list A) (a b : B) : p <> [] -> match p with [] => a | _ :: _ => b end = b.
Proof. destruct p; congruence. Qed.

Section Items.
  Variable prefix : bytes.
  Variable since now : N.
  Variable banned : bytes -> bool.
  Variable rts : N.
  Let o := stream_io prefix since.
  Let sh := shown prefix since rts banned.

  Lemma shp_eq e : stream_has_prefix o e = is_prefix prefix (e_key e).
  Proof. unfold stream_has_prefix, o, stream_io. cbn. destruct prefix; reflexivity. Qed.

  Lemma fwd_all_filter l : is_prefix prefix l = true -> forall s last,
    StronglySorted ent_lt s -> Forall (fun e => lex_cmp l (e_key e) <> Gt) s ->
    fwd_items o rts now banned s last = filter sh s.
  Proof.
    intros Hl s last Hs. induction Hs as [|e r Hs IH Hx]; intros Hge; [reflexivity|].
    inversion Hge as [|? ? He Hge']; subst.
    cbn [fwd_items filter]. rewrite shp_eq. unfold sh at 1, shown. fold o.
    destruct (is_prefix prefix (e_key e)) eqn:Ep; cbn [negb andb].
    - destruct (skip_common o rts banned e); cbn [negb]; [now apply IH|].
      replace (io_all o) with true by reflexivity. f_equal. now apply IH.
    - symmetry. apply filter_none. rewrite Forall_forall in *. intros y Hy.
      unfold sh, shown. rewrite (no_prefix_upward prefix l (e_key e) (e_key y) Hl He); auto.
      apply ent_lt_key_le. now apply Hx.
  Qed.

  Lemma take_valid_shown s : take_valid o (filter sh s) = filter sh s.
  Proof.
    induction s as [|e r IH]; [reflexivity|]. cbn [filter]. destruct (sh e) eqn:E; auto.
    cbn [take_valid]. unfold item_valid, o at 1. cbn [io_prefix_is_key stream_io io_prefix].
    replace (io_prefix o) with prefix by reflexivity.
    unfold sh, shown in E. apply andb_true_iff in E. destruct E as [E _]. rewrite E. now f_equal.
  Qed.

  Lemma newer_not_shown e : rts < e_ver e -> sh e = false.
  Proof.
    intros H. unfold sh, shown, skip_common. apply N.ltb_lt in H. rewrite H.
    rewrite !orb_true_r. cbn. apply andb_false_r.
  Qed.

  (* Seek(left) + Valid/Next, as one list: the shown items from the first key >= left on *)
  Lemma seek_range_shown m key : view_ok m -> key <> [] -> is_prefix prefix key = true ->
    take_valid o (fwd_items o rts now banned (seek_ge m key rts) None) = filter sh (seek_ge m key rts).
  Proof.
    intros Hm Hk Hkp.
    destruct (seek_split m key rts) as (A & HA & HF).
    pose proof (seek_ge_all m key rts Hm) as Hge.
    assert (Hs: StronglySorted ent_lt (seek_ge m key rts)).
    { unfold view_ok in Hm. rewrite HA in Hm. now apply sorted_app_r in Hm. }
    rewrite (fwd_all_filter key Hkp _ None Hs Hge). apply take_valid_shown.
  Qed.

  (* Seek(left) + Valid/Next, as one list: the shown items from the first key >= left on *)
  Lemma range_items_shown m (left : bytes) : view_ok m ->
    (left = [] \/ is_prefix prefix left = true) ->
    range_items prefix since now banned rts m left = dW left (shown_items prefix since rts banned m).
  Proof.
    intros Hm Hl. unfold range_items, iterate. fold o. replace (io_reverse o) with false by reflexivity.
    replace (io_prefix o) with prefix by reflexivity.
    unfold shown_items. fold sh.
    destruct left as [|c left'].
    - rewrite dW_nil. destruct (list_eq_dec N.eq_dec prefix []) as [Epfx|Hk].
      + (* Rewind *)
        rewrite (match_list_nil prefix _ _ Epfx).
        assert (Hp0: is_prefix prefix [] = true) by now rewrite Epfx.
        rewrite (fwd_all_filter [] Hp0 m None Hm).
        * apply take_valid_shown.
        * apply Forall_forall. intros e _. apply lex_nil_le.
      + (* Seek(prefix) *)
        rewrite (match_list_cons prefix _ _ Hk).
        rewrite (seek_range_shown m prefix Hm Hk (is_prefix_refl prefix)).
        destruct (seek_split m prefix rts) as (A & HA & HF).
        rewrite HA at 2. rewrite filter_app.
        replace (filter sh A) with (@nil entry); [reflexivity|].
        symmetry. apply filter_none. rewrite Forall_forall in *. intros a Ha.
        destruct (key_le_false _ _ _ (HF a Ha)) as [Hlt|[_ Hv]]; [|now apply newer_not_shown].
        unfold sh, shown. destruct (is_prefix prefix (e_key a)) eqn:Ep; [|reflexivity].
        exfalso. apply is_prefix_le in Ep. apply lex_gt_lt in Hlt. congruence.
    - destruct Hl as [Hl|Hl]; [discriminate|].
      rewrite (seek_range_shown m (c :: left') Hm ltac:(discriminate) Hl).
      destruct (seek_split m (c :: left') rts) as (A & HA & HF).
      pose proof (seek_ge_all m (c :: left') rts Hm) as Hge.
      rewrite HA at 2. rewrite filter_app.
      unfold dW. rewrite drop_while_app_all.
      + symmetry. apply drop_while_none. rewrite Forall_forall in *. intros y Hy.
        apply filter_In in Hy. destruct Hy as [Hy _]. specialize (Hge y Hy).
        unfold key_lt. destruct (lex_cmp (e_key y) (c :: left')) eqn:E; auto.
        apply lex_gt_lt in E. congruence.
      + rewrite Forall_forall in *. intros a Ha. apply filter_In in Ha. destruct Ha as [Ha Hsh].
        destruct (key_le_false _ _ _ (HF a Ha)) as [Hlt|[_ Hv]].
        * unfold key_lt. now rewrite Hlt.
        * rewrite (newer_not_shown a Hv) in Hsh. discriminate.
  Qed.
End Items.

(* ---------------------------------------------------------------- C25: partition *)
Lemma no_empty_key_filter p m : no_empty_key m -> no_empty_key (filter p m).
Proof.
  unfold no_empty_key. rewrite !Forall_forall. intros H e He. apply filter_In in He. apply H. tauto.
Qed.

Lemma splits_ok_spec prefix ks : splits_ok prefix ks = true ->
  sorted_keys ([] :: ks) = true /\ Forall (fun k => k <> []) ks /\ Forall (fun k => is_prefix prefix k = true) ks.
Proof.
  unfold splits_ok. intros H. apply andb_true_iff in H. destruct H as [Hs Hf].
  rewrite forallb_forall in Hf. repeat split.
  - cbn [sorted_keys]. rewrite Hs. destruct ks as [|k ks']; [reflexivity|].
    pose proof (lex_nil_le k). destruct (lex_cmp [] k); cbn; congruence.
  - apply Forall_forall. intros k Hk. specialize (Hf k Hk). destruct k; [discriminate|discriminate].
  - apply Forall_forall. intros k Hk. specialize (Hf k Hk). destruct k; [discriminate|exact Hf].
Qed.

Lemma ranges_from_lefts prefix ks : Forall (fun k => is_prefix prefix k = true) ks -> forall start,
  (start = [] \/ is_prefix prefix start = true) ->
  Forall (fun rng => fst rng = [] \/ is_prefix prefix (fst rng) = true) (ranges_from start ks).
Proof.
  induction 1 as [|k ks Hk _ IH]; intros start Hs; cbn [ranges_from]; constructor; auto.
Qed.

Section Pass.
  Variable prefix : bytes.
  Variable since now : N.
  Variable banned : bytes -> bool.
  Variable kd : ktl_kind.
  Variable choose : entry -> bool.
  Let ktl := key_to_list kd now.

  Definition pass_k (rts : N) (m : src) (rng : bytes * bytes) : list (bytes * list entry) :=
    range_k ktl choose (shown_items prefix since rts banned m) rng.

  Lemma produce_range_k rts m (rng : bytes * bytes) : view_ok m ->
    (fst rng = [] \/ is_prefix prefix (fst rng) = true) ->
    produce_range prefix since now banned kd choose rts m rng = map snd (pass_k rts m rng).
  Proof.
    intros Hm Hl. unfold produce_range. cbv zeta. rewrite (range_items_shown prefix since now banned rts m (fst rng) Hm Hl).
    apply (produce_is_produce_k ktl choose). intros key its. apply ktl_rest.
  Qed.

  Theorem stream_pass_partition rts m ks :
    view_ok m -> no_empty_key m -> splits_ok prefix ks = true ->
    stream_pass prefix since now banned kd choose rts m ks
    = produce_range prefix since now banned kd choose rts m ([], []).
  Proof.
    intros Hm Hne Hok. destruct (splits_ok_spec _ _ Hok) as (Hs & Hnn & Hp).
    unfold stream_pass, ranges.
    rewrite (produce_range_k rts m ([], []) Hm (or_introl eq_refl)).
    pose proof (ranges_from_lefts prefix ks Hp [] (or_introl eq_refl)) as Hl.
    rewrite (map_ext_in _ (fun rng => map snd (pass_k rts m rng))).
    2:{ intros rng Hin. rewrite Forall_forall in Hl. apply produce_range_k; auto. }
    rewrite <- (map_map (pass_k rts m) (map snd)). rewrite <- concat_map. f_equal.
    unfold pass_k. apply ranges_concat; auto. now apply no_empty_key_filter.
  Qed.
End Pass.

(* ---------------------------------------------------------------- C25: each key once *)
Lemma key_is_true k e : key_is k e = true <-> e_key e = k.
Proof. unfold key_is. apply bytes_eqb_eq. Qed.
Lemma key_is_false k e : key_is k e = false <-> e_key e <> k.
Proof.
  unfold key_is. split.
  - intros H E. subst k. rewrite bytes_eqb_refl in H. discriminate.
  - intros H. destruct (bytes_eqb (e_key e) k) eqn:E; auto. apply bytes_eqb_eq in E. contradiction.
Qed.

(* in a sorted view the versions of the first key are a prefix of the list *)
Lemma run_split e r : StronglySorted ent_lt (e :: r) ->
  exists g rest, r = g ++ rest /\ Forall (fun y => key_is (e_key e) y = true) g
                 /\ Forall (fun y => key_is (e_key e) y = false) rest.
Proof.
  induction r as [|y r IH]; intros Hs; [exists [], []; auto|].
  inversion Hs as [|? ? Hs' Hx]; subst. inversion Hx as [|? ? Hy Hx']; subst.
  inversion Hs' as [|? ? Hs'' Hyx]; subst.
  destruct (key_is (e_key e) y) eqn:Ek.
  - destruct IH as (g & rest & Hr & Hg & Hrest); [constructor; auto|].
    exists (y :: g), rest. subst r. repeat split; auto.
  - exists [], (y :: r). repeat split; auto. constructor; auto.
    apply key_is_false in Ek. pose proof (ent_lt_key_le _ _ Hy) as Hle.
    assert (Hlt: lex_cmp (e_key e) (e_key y) = Lt).
    { destruct (lex_cmp (e_key e) (e_key y)) eqn:E; try congruence. apply lex_cmp_eq in E. congruence. }
    rewrite Forall_forall in *. intros z Hz. apply key_is_false. intros Ez.
    pose proof (lex_lt_le_trans _ _ _ Hlt (ent_lt_key_le _ _ (Hyx z Hz))) as H.
    rewrite Ez, lex_cmp_refl in H. discriminate.
Qed.

Section KeyOnce.
  Variable ktl : bytes -> list entry -> option (list entry) * list entry.
  Variable choose : entry -> bool.
  Hypothesis ktl_local_ok : forall k g rest,
    Forall (fun e => key_is k e = true) g -> other_head k rest ->
    fst (ktl k (g ++ rest)) = fst (ktl k g).

  (* what one pass must deliver for key k, from the versions of k it is shown (newest first) *)
  Definition delivered_for (V : list entry) (k : bytes) (l : list entry) : Prop :=
    exists e vs, filter (key_is k) V = e :: vs /\ choose e = true /\ fst (ktl k (e :: vs)) = Some l /\ l <> [].

  Lemma in_deliver e its k l :
    In (k, l) (deliver ktl choose e its) <->
    k = e_key e /\ choose e = true /\ fst (ktl (e_key e) its) = Some l /\ l <> [].
  Proof.
    unfold deliver. destruct (choose e); [|split; [contradiction|intros (_ & H & _); discriminate]].
    destruct (fst (ktl (e_key e) its)) as [[|x t]|]; cbn.
    - split; [contradiction|]. intros (_ & _ & [= <-] & H). congruence.
    - split.
      + intros [[= <- <-]|[]]. repeat split; auto. discriminate.
      + intros (-> & _ & [= <-] & _). now left.
    - split; [contradiction|]. intros (_ & _ & H & _). discriminate.
  Qed.

  Lemma produce_k_iff V : StronglySorted ent_lt V -> no_empty_key V -> forall prev,
    (prev = [] \/ Forall (fun e => lex_cmp prev (e_key e) <> Gt) V) ->
    forall k l, In (k, l) (produce_k ktl choose [] V prev) <-> (k <> prev /\ delivered_for V k l).
  Proof.
    induction 1 as [|e r Hs IH Hx]; intros Hne prev Hp k l.
    - cbn. split; [contradiction|]. intros (_ & e & vs & H & _). discriminate.
    - inversion Hne as [|? ? He Hne']; subst.
      assert (Hr_ge: Forall (fun y => lex_cmp (e_key e) (e_key y) <> Gt) r).
      { rewrite Forall_forall in *. intros y Hy. apply ent_lt_key_le. now apply Hx. }
      cbn [produce_k]. destruct (bytes_eqb (e_key e) prev) eqn:Ep.
      + (* further version of the previous key *)
        apply bytes_eqb_eq in Ep.
        assert (Hp': prev = [] \/ Forall (fun y => lex_cmp prev (e_key y) <> Gt) r).
        { right. rewrite <- Ep. exact Hr_ge. }
        rewrite (IH Hne' prev Hp' k l). unfold delivered_for. cbn [filter].
        split; intros (Hk & H); split; auto.
        * assert (E: key_is k e = false) by (apply key_is_false; congruence). now rewrite E.
        * assert (E: key_is k e = false) by (apply key_is_false; congruence). now rewrite E in H.
      + (* a new key *)
        rewrite past_right_nil. rewrite in_app_iff, in_deliver.
        rewrite (IH Hne' (e_key e) (or_intror Hr_ge) k l).
        assert (Hpne: e_key e <> prev).
        { intros E. rewrite E, bytes_eqb_refl in Ep. discriminate. }
        destruct (run_split e r (SSorted_cons e Hs Hx)) as (g & rest & Hr & Hg & Hrest).
        assert (Hfil: filter (key_is (e_key e)) r = g).
        { rewrite Hr, filter_app, (filter_all _ g Hg), (filter_none _ rest Hrest). apply app_nil_r. }
        assert (Hloc: fst (ktl (e_key e) (e :: r)) = fst (ktl (e_key e) (e :: g))).
        { rewrite Hr. change (e :: g ++ rest) with ((e :: g) ++ rest). apply ktl_local_ok.
          - constructor; auto. apply key_is_true. reflexivity.
          - destruct rest as [|z rest']; cbn; auto. now inversion Hrest. }
        unfold delivered_for. cbn [filter].
        destruct (key_is k e) eqn:Eke.
        * apply key_is_true in Eke. subst k. rewrite Hfil. split.
          -- intros [(_ & Hc & Hf & Hl)|(Hk & _)]; [|congruence].
             split; auto. exists e, g. rewrite <- Hloc. auto.
          -- intros (_ & e0 & vs & [= <- <-] & Hc & Hf & Hl). left. rewrite Hloc. auto.
        * apply key_is_false in Eke. split.
          -- intros [(Hk & _)|(Hk & e0 & vs & Hf & H)]; [congruence|].
             split; [|exists e0, vs; auto].
             (* k is a key of r, hence above prev *)
             assert (Hin: In e0 r).
             { assert (In e0 (filter (key_is k) r)) by (rewrite Hf; now left). apply filter_In in H0. tauto. }
             assert (Hk0: e_key e0 = k).
             { assert (In e0 (filter (key_is k) r)) by (rewrite Hf; now left). apply filter_In in H0.
               apply key_is_true. tauto. }
             destruct Hp as [->|Hp].
             ++ rewrite Forall_forall in Hne'. specialize (Hne' e0 Hin). congruence.
             ++ inversion Hp as [|? ? Hpe _]; subst.
                assert (Hlt: lex_cmp prev (e_key e) = Lt).
                { destruct (lex_cmp prev (e_key e)) eqn:E; try congruence. apply lex_cmp_eq in E. congruence. }
                rewrite Forall_forall in Hr_ge.
                pose proof (lex_lt_le_trans _ _ _ Hlt (Hr_ge e0 Hin)) as H1.
                intros E. rewrite <- E, lex_cmp_refl in H1. discriminate.
          -- intros (Hk & e0 & vs & Hf & H). right. split; [congruence|]. exists e0, vs. auto.
  Qed.

  (* the delivered keys are strictly increasing: no key is delivered twice *)
  Lemma produce_k_keys_sorted V : StronglySorted ent_lt V -> forall prev,
    (prev = [] \/ Forall (fun e => lex_cmp prev (e_key e) <> Gt) V) -> no_empty_key V ->
    StronglySorted (fun a b => lex_cmp a b = Lt) (map fst (produce_k ktl choose [] V prev))
    /\ Forall (fun a => a <> prev /\ (prev = [] \/ lex_cmp prev a <> Gt)) (map fst (produce_k ktl choose [] V prev)).
  Proof.
    induction 1 as [|e r Hs IH Hx]; intros prev Hp Hne; [cbn; split; constructor|].
    inversion Hne as [|? ? He Hne']; subst.
    assert (Hr_ge: Forall (fun y => lex_cmp (e_key e) (e_key y) <> Gt) r).
    { rewrite Forall_forall in *. intros y Hy. apply ent_lt_key_le. now apply Hx. }
    cbn [produce_k]. destruct (bytes_eqb (e_key e) prev) eqn:Ep.
    - apply bytes_eqb_eq in Ep. apply IH; auto. right. rewrite <- Ep. exact Hr_ge.
    - rewrite past_right_nil.
      assert (Hpne: e_key e <> prev) by (intros E; rewrite E, bytes_eqb_refl in Ep; discriminate).
      destruct (IH (e_key e) (or_intror Hr_ge) Hne') as (IHs & IHf).
      assert (Hple: prev = [] \/ lex_cmp prev (e_key e) <> Gt).
      { destruct Hp as [Hp|Hp]; [now left|right]. now inversion Hp. }
      assert (Hrest: Forall (fun a => a <> prev /\ (prev = [] \/ lex_cmp prev a <> Gt))
                            (map fst (produce_k ktl choose [] r (e_key e)))).
      { rewrite Forall_forall in *. intros a Ha. destruct (IHf a Ha) as (Hae & [Hnil|Hle]); [congruence|].
        destruct Hple as [->|Hple].
        - split; [|now left]. intros ->.
          assert (E: lex_cmp (e_key e) [] <> Gt) by exact Hle.
          destruct (e_key e); [congruence|cbn in E; congruence].
        - split; [|right; eapply lex_le_trans; eauto].
          assert (Hlt: lex_cmp prev (e_key e) = Lt).
          { destruct (lex_cmp prev (e_key e)) eqn:E; try congruence. apply lex_cmp_eq in E. congruence. }
          pose proof (lex_lt_le_trans _ _ _ Hlt Hle) as H1. intros E. rewrite E, lex_cmp_refl in H1. discriminate. }
      rewrite map_app. unfold deliver.
      destruct (choose e); cbn [map app]; [|split; auto].
      assert (Hhd: Forall (fun a => lex_cmp (e_key e) a = Lt) (map fst (produce_k ktl choose [] r (e_key e)))).
      { rewrite Forall_forall in *. intros a Ha. destruct (IHf a Ha) as (Hae & [Hnil|Hle]); [congruence|].
        destruct (lex_cmp (e_key e) a) eqn:E; try congruence. apply lex_cmp_eq in E. congruence. }
      destruct (fst (ktl (e_key e) (e :: r))) as [[|x t]|]; cbn [map app fst]; split; auto;
        constructor; auto.
  Qed.
End KeyOnce.

(* ---------------------------------------------------------------- C25 assembled *)
Section PassTheorems.
  Variable prefix : bytes.
  Variable since now : N.
  Variable banned : bytes -> bool.
  Variable kd : ktl_kind.
  Variable choose : entry -> bool.
  Let ktl := key_to_list kd now.

  Theorem pass_key_once rts m : view_ok m -> no_empty_key m ->
    let V := shown_items prefix since rts banned m in
    exists pairs,
      produce_range prefix since now banned kd choose rts m ([], []) = map snd pairs
      /\ StronglySorted (fun a b => lex_cmp a b = Lt) (map fst pairs)
      /\ forall k l, In (k, l) pairs <-> delivered_for ktl choose V k l.
  Proof.
    intros Hm Hne V. exists (pass_k prefix since now banned kd choose rts m ([], [])).
    assert (HV: StronglySorted ent_lt V) by (apply sorted_filter; exact Hm).
    assert (HVne: no_empty_key V) by (apply no_empty_key_filter; exact Hne).
    split; [apply produce_range_k; auto|].
    unfold pass_k, range_k. cbn [fst snd]. rewrite dW_nil. fold V. fold ktl.
    split.
    - apply (produce_k_keys_sorted ktl choose V HV [] (or_introl eq_refl) HVne).
    - intros k l.
      rewrite (produce_k_iff ktl choose (fun k g rest => ktl_local kd now k g rest) V HV HVne [] (or_introl eq_refl) k l).
      split; [tauto|]. intros H. split; auto.
      destruct H as (e & vs & Hf & _).
      assert (Hin: In e (filter (key_is k) V)) by (rewrite Hf; now left).
      apply filter_In in Hin. destruct Hin as (Hin & Hk). apply key_is_true in Hk.
      unfold no_empty_key in HVne. rewrite Forall_forall in HVne. specialize (HVne e Hin). congruence.
  Qed.

  (* producers that are shown the same items deliver one snapshot, whatever the split *)
  Theorem run_reads_one_snapshot (rs : list ((bytes * bytes) * (N * src))) r m ks :
    view_ok m -> no_empty_key m -> splits_ok prefix ks = true ->
    map fst rs = ranges ks ->
    (forall x, In x rs -> view_ok (snd (snd x)) /\
       shown_items prefix since (fst (snd x)) banned (snd (snd x)) = shown_items prefix since r banned m) ->
    run_reads prefix since now banned kd choose rs
    = produce_range prefix since now banned kd choose r m ([], []).
  Proof.
    intros Hm Hne Hok Hrs Hsame.
    rewrite <- (stream_pass_partition prefix since now banned kd choose r m ks Hm Hne Hok).
    unfold run_reads, stream_pass. rewrite <- Hrs. rewrite map_map. f_equal.
    apply map_ext_in. intros x Hx. destruct (Hsame x Hx) as (Hv & Hs).
    destruct (splits_ok_spec _ _ Hok) as (_ & _ & Hp).
    pose proof (ranges_from_lefts prefix ks Hp [] (or_introl eq_refl)) as Hl.
    fold (ranges ks) in Hl. rewrite <- Hrs in Hl. rewrite Forall_forall in Hl.
    assert (Hlx: fst (fst x) = [] \/ is_prefix prefix (fst (fst x)) = true).
    { apply Hl. now apply in_map. }
    rewrite (produce_range_k prefix since now banned kd choose _ _ (fst x) Hv Hlx).
    rewrite (produce_range_k prefix since now banned kd choose r m (fst x) Hm Hlx).
    unfold pass_k. now rewrite Hs.
  Qed.

  (* what a producer is shown only depends on the entries at or below its read timestamp *)
  Lemma shown_items_below rts m :
    shown_items prefix since rts banned m
    = filter (shown prefix since rts banned) (filter (fun e => e_ver e <=? rts) m).
  Proof.
    unfold shown_items. rewrite filter_filter. apply filter_ext_in'. intros e _.
    destruct (e_ver e <=? rts) eqn:E; [reflexivity|]. cbn [andb].
    apply N.leb_gt in E. unfold shown, skip_common. apply N.ltb_lt in E. rewrite E.
    rewrite !orb_true_r. cbn. apply andb_false_r.
  Qed.

  Corollary shown_items_stable r m m' :
    filter (fun e => e_ver e <=? r) m' = filter (fun e => e_ver e <=? r) m ->
    shown_items prefix since r banned m' = shown_items prefix since r banned m.
  Proof. intros H. rewrite (shown_items_below r m'), (shown_items_below r m). now rewrite H. Qed.

  (* and not on the read timestamp itself once it is above every version in the view *)
  Lemma shown_items_above r1 r2 m :
    Forall (fun e => e_ver e <= r1) m -> r1 <= r2 ->
    shown_items prefix since r2 banned m = shown_items prefix since r1 banned m.
  Proof.
    intros Hf Hle. unfold shown_items. apply filter_ext_in'. intros e He.
    rewrite Forall_forall in Hf. specialize (Hf e He).
    unfold shown, skip_common.
    assert (E1: (r1 <? e_ver e) = false) by (apply N.ltb_ge; lia).
    assert (E2: (r2 <? e_ver e) = false) by (apply N.ltb_ge; lia).
    now rewrite E1, E2.
  Qed.

  (* one pass does not depend on the read timestamp once it is above every version *)
  Lemma stream_pass_above r1 r2 m ks : view_ok m -> splits_ok prefix ks = true ->
    Forall (fun e => e_ver e <= r1) m -> r1 <= r2 ->
    stream_pass prefix since now banned kd choose r2 m ks
    = stream_pass prefix since now banned kd choose r1 m ks.
  Proof.
    intros Hm Hok Hf Hle. unfold stream_pass. f_equal. apply map_ext_in. intros rng Hin.
    destruct (splits_ok_spec _ _ Hok) as (_ & _ & Hp).
    pose proof (ranges_from_lefts prefix ks Hp [] (or_introl eq_refl)) as Hl.
    fold (ranges ks) in Hl. rewrite Forall_forall in Hl. specialize (Hl rng Hin).
    rewrite !(produce_range_k prefix since now banned kd choose _ m rng Hm Hl).
    unfold pass_k. now rewrite (shown_items_above r1 r2 m Hf Hle).
  Qed.
End PassTheorems.
