(* StreamProofs2.v — the key ranges partition the key space (C25): per-range iteration as a
   function of one list of shown items; key-once characterisation of one pass. *)
From Verif Require Import Bytes BytesProofs Keys C20Proofs Consts Spec Lsm Compact Iter Sys Stream StreamProofs.
From Coq Require Import ZifyN ZifyNat ZifyBool Sorting.Sorted.
Open Scope N_scope.

Definition dW (l : bytes) (J : list entry) : list entry := drop_while (fun e => key_lt (e_key e) l) J.

Lemma dW_nil J : dW [] J = J.
Proof.
  unfold dW. apply drop_while_none. apply Forall_forall. intros e _. unfold key_lt.
  pose proof (lex_not_lt_nil (e_key e)). destruct (lex_cmp (e_key e) []); congruence.
Qed.

Lemma dW_dW start k J : (start = [] \/ lex_cmp start k <> Gt) -> dW k (dW start J) = dW k J.
Proof.
  intros [->|H]; [now rewrite dW_nil|].
  unfold dW. induction J as [|e r IH]; cbn [drop_while]; auto.
  destruct (key_lt (e_key e) start) eqn:E1.
  - rewrite IH. unfold key_lt in *. destruct (lex_cmp (e_key e) start) eqn:E; try discriminate.
    rewrite (lex_lt_le_trans _ _ _ E H). reflexivity.
  - reflexivity.
Qed.

Lemma dW_suffix l J : exists A, J = A ++ dW l J.
Proof.
  unfold dW. induction J as [|e r IH]; [exists []; auto|]. cbn [drop_while].
  destruct (key_lt (e_key e) l); [|exists []; auto].
  destruct IH as [A HA]. exists (e :: A). cbn. now f_equal.
Qed.

Lemma no_empty_key_dW l J : no_empty_key J -> no_empty_key (dW l J).
Proof.
  intros H. destruct (dW_suffix l J) as [A HA]. unfold no_empty_key in *. rewrite HA in H.
  apply Forall_app in H. tauto.
Qed.

Section Ranges.
  Variable ktl : bytes -> list entry -> option (list entry) * list entry.
  Variable choose : entry -> bool.

  Definition range_k (J : list entry) (rng : bytes * bytes) : list (bytes * list entry) :=
    produce_k ktl choose (snd rng) (dW (fst rng) J) [].

  Lemma ranges_concat J : no_empty_key J -> forall ks start,
    Forall (fun k => k <> []) ks -> sorted_keys (start :: ks) = true ->
    concat (map (range_k J) (ranges_from start ks)) = range_k J (start, []).
  Proof.
    intros Hne. induction ks as [|k ks IH]; intros start Hnn Hs.
    - cbn. now rewrite app_nil_r.
    - inversion Hnn as [|? ? Hk Hnn']; subst.
      cbn [ranges_from map concat]. rewrite (IH k Hnn').
      2:{ cbn [sorted_keys] in Hs. apply andb_true_iff in Hs. tauto. }
      unfold range_k. cbn [fst snd].
      assert (Hle: start = [] \/ lex_cmp start k <> Gt).
      { cbn [sorted_keys] in Hs. apply andb_true_iff in Hs. destruct Hs as [Hs _].
        right. destruct (lex_cmp start k); congruence. }
      rewrite <- (dW_dW start k J Hle).
      apply (split_two ktl choose k [] Hk (or_introl eq_refl)); [now apply no_empty_key_dW|now left].
  Qed.
End Ranges.

(* ---------------------------------------------------------------- Seek / iteration *)
Lemma seek_split m k ts :
  exists A, m = A ++ seek_ge m k ts /\ Forall (fun e => key_le k ts e = false) A.
Proof.
  induction m as [|e r IH]; cbn [seek_ge]; [exists []; auto|].
  destruct (key_le k ts e) eqn:E; [exists []; auto|].
  destruct IH as (A & HA & HF). exists (e :: A). split; [cbn; now f_equal|constructor; auto].
Qed.

Lemma seek_ge_all m k ts : view_ok m ->
  Forall (fun e => lex_cmp k (e_key e) <> Gt) (seek_ge m k ts).
Proof.
  unfold view_ok. induction 1 as [|e r Hs IH Hx]; cbn [seek_ge]; [constructor|].
  destruct (key_le k ts e) eqn:E; auto.
  pose proof (key_le_key _ _ _ E) as Hk. constructor; auto.
  rewrite Forall_forall in *. intros y Hy. eapply lex_le_trans; [exact Hk|].
  apply ent_lt_key_le. now apply Hx.
Qed.

Lemma match_list_nil {A B} (p : list A) (a b : B) : p = [] -> match p with [] => a | _ :: _ => b end = a.
Proof. now intros ->. Qed.
Lemma match_list_cons {A B} (p : list A) (a b : B) : p <> [] -> match p with [] => a | _ :: _ => b end = b.
Proof. destruct p; congruence. Qed.

Section Items.
  Variable prefix : bytes.
  Variable since now : N.
  Variable banned : bytes -> bool.
  Variable rts : N.
  Let o := stream_io prefix since.
  Let sh := shown prefix since rts banned.

  Lemma shp_eq e : stream_has_prefix o e = is_prefix prefix (e_key e).
  Proof. unfold stream_has_prefix, o, stream_io. cbn. destruct prefix; reflexivity. Qed.

  Lemma fwd_all_filter l : is_prefix prefix l = true -> forall s last,
    StronglySorted ent_lt s -> Forall (fun e => lex_cmp l (e_key e) <> Gt) s ->
    fwd_items o rts now banned s last = filter sh s.
  Proof.
    intros Hl s last Hs. induction Hs as [|e r Hs IH Hx]; intros Hge; [reflexivity|].
    inversion Hge as [|? ? He Hge']; subst.
    cbn [fwd_items filter]. rewrite shp_eq. unfold sh at 1, shown. fold o.
    destruct (is_prefix prefix (e_key e)) eqn:Ep; cbn [negb andb].
    - destruct (skip_common o rts banned e); cbn [negb]; [now apply IH|].
      replace (io_all o) with true by reflexivity. f_equal. now apply IH.
    - symmetry. apply filter_none. rewrite Forall_forall in *. intros y Hy.
      unfold sh, shown. rewrite (no_prefix_upward prefix l (e_key e) (e_key y) Hl He); auto.
      apply ent_lt_key_le. now apply Hx.
  Qed.

  Lemma take_valid_shown s : take_valid o (filter sh s) = filter sh s.
  Proof.
    induction s as [|e r IH]; [reflexivity|]. cbn [filter]. destruct (sh e) eqn:E; auto.
    cbn [take_valid]. unfold item_valid, o at 1. cbn [io_prefix_is_key stream_io io_prefix].
    replace (io_prefix o) with prefix by reflexivity.
    unfold sh, shown in E. apply andb_true_iff in E. destruct E as [E _]. rewrite E. now f_equal.
  Qed.

  Lemma newer_not_shown e : rts < e_ver e -> sh e = false.
  Proof.
    intros H. unfold sh, shown, skip_common. apply N.ltb_lt in H. rewrite H.
    rewrite !orb_true_r. cbn. apply andb_false_r.
  Qed.

  (* Seek(left) + Valid/Next, as one list: the shown items from the first key >= left on *)
  Lemma seek_range_shown m key : view_ok m -> key <> [] -> is_prefix prefix key = true ->
    take_valid o (fwd_items o rts now banned (seek_ge m key rts) None) = filter sh (seek_ge m key rts).
  Proof.
    intros Hm Hk Hkp.
    destruct (seek_split m key rts) as (A & HA & HF).
    pose proof (seek_ge_all m key rts Hm) as Hge.
    assert (Hs: StronglySorted ent_lt (seek_ge m key rts)).
    { unfold view_ok in Hm. rewrite HA in Hm. now apply sorted_app_r in Hm. }
    rewrite (fwd_all_filter key Hkp _ None Hs Hge). apply take_valid_shown.
  Qed.

  (* Seek(left) + Valid/Next, as one list: the shown items from the first key >= left on *)
  Lemma range_items_shown m (left : bytes) : view_ok m ->
    (left = [] \/ is_prefix prefix left = true) ->
    range_items prefix since now banned rts m left = dW left (shown_items prefix since rts banned m).
  Proof.
    intros Hm Hl. unfold range_items, iterate. fold o. replace (io_reverse o) with false by reflexivity.
    replace (io_prefix o) with prefix by reflexivity.
    unfold shown_items. fold sh.
    destruct left as [|c left'].
    - rewrite dW_nil. destruct (list_eq_dec N.eq_dec prefix []) as [Epfx|Hk].
      + (* Rewind *)
        rewrite (match_list_nil prefix _ _ Epfx).
        assert (Hp0: is_prefix prefix [] = true) by now rewrite Epfx.
        rewrite (fwd_all_filter [] Hp0 m None Hm).
        * apply take_valid_shown.
        * apply Forall_forall. intros e _. apply lex_nil_le.
      + (* Seek(prefix) *)
        rewrite (match_list_cons prefix _ _ Hk).
        rewrite (seek_range_shown m prefix Hm Hk (is_prefix_refl prefix)).
        destruct (seek_split m prefix rts) as (A & HA & HF).
        rewrite HA at 2. rewrite filter_app.
        replace (filter sh A) with (@nil entry); [reflexivity|].
        symmetry. apply filter_none. rewrite Forall_forall in *. intros a Ha.
        destruct (key_le_false _ _ _ (HF a Ha)) as [Hlt|[_ Hv]]; [|now apply newer_not_shown].
        unfold sh, shown. destruct (is_prefix prefix (e_key a)) eqn:Ep; [|reflexivity].
        exfalso. apply is_prefix_le in Ep. apply lex_gt_lt in Hlt. congruence.
    - destruct Hl as [Hl|Hl]; [discriminate|].
      rewrite (seek_range_shown m (c :: left') Hm ltac:(discriminate) Hl).
      destruct (seek_split m (c :: left') rts) as (A & HA & HF).
      pose proof (seek_ge_all m (c :: left') rts Hm) as Hge.
      rewrite HA at 2. rewrite filter_app.
      unfold dW. rewrite drop_while_app_all.
      + symmetry. apply drop_while_none. rewrite Forall_forall in *. intros y Hy.
        apply filter_In in Hy. destruct Hy as [Hy _]. specialize (Hge y Hy).
        unfold key_lt. destruct (lex_cmp (e_key y) (c :: left')) eqn:E; auto.
        apply lex_gt_lt in E. congruence.
      + rewrite Forall_forall in *. intros a Ha. apply filter_In in Ha. destruct Ha as [Ha Hsh].
        destruct (key_le_false _ _ _ (HF a Ha)) as [Hlt|[_ Hv]].
        * unfold key_lt. now rewrite Hlt.
        * rewrite (newer_not_shown a Hv) in Hsh. discriminate.
  Qed.
End Items.

(* ---------------------------------------------------------------- C25: partition *)
Lemma no_empty_key_filter p m : no_empty_key m -> no_empty_key (filter p m).
Proof.
  unfold no_empty_key. rewrite !Forall_forall. intros H e He. apply filter_In in He. apply H. tauto.
Qed.

Lemma splits_ok_spec prefix ks : splits_ok prefix ks = true ->
  sorted_keys ([] :: ks) = true /\ Forall (fun k => k <> []) ks /\ Forall (fun k => is_prefix prefix k = true) ks.
Proof.
  unfold splits_ok. intros H. apply andb_true_iff in H. destruct H as [Hs Hf].
  rewrite forallb_forall in Hf. repeat split.
  - cbn [sorted_keys]. rewrite Hs. destruct ks as [|k ks']; [reflexivity|].
    pose proof (lex_nil_le k). destruct (lex_cmp [] k); cbn; congruence.
  - apply Forall_forall. intros k Hk. specialize (Hf k Hk). destruct k; [discriminate|discriminate].
  - apply Forall_forall. intros k Hk. specialize (Hf k Hk). destruct k; [discriminate|exact Hf].
Qed.

Lemma ranges_from_lefts prefix ks : Forall (fun k => is_prefix prefix k = true) ks -> forall start,
  (start = [] \/ is_prefix prefix start = true) ->
  Forall (fun rng => fst rng = [] \/ is_prefix prefix (fst rng) = true) (ranges_from start ks).
Proof.
  induction 1 as [|k ks Hk _ IH]; intros start Hs; cbn [ranges_from]; constructor; auto.
Qed.

Section Pass.
  Variable prefix : bytes.
  Variable since now : N.
  Variable banned : bytes -> bool.
  Variable kd : ktl_kind.
  Variable choose : entry -> bool.
  Let ktl := key_to_list kd now.

  Definition pass_k (rts : N) (m : src) (rng : bytes * bytes) : list (bytes * list entry) :=
    range_k ktl choose (shown_items prefix since rts banned m) rng.

  Lemma produce_range_k rts m (rng : bytes * bytes) : view_ok m ->
    (fst rng = [] \/ is_prefix prefix (fst rng) = true) ->
    produce_range prefix since now banned kd choose rts m rng = map snd (pass_k rts m rng).
  Proof.
    intros Hm Hl. unfold produce_range. cbv zeta. rewrite (range_items_shown prefix since now banned rts m (fst rng) Hm Hl).
    apply (produce_is_produce_k ktl choose). intros key its. apply ktl_rest.
  Qed.

  Theorem stream_pass_partition rts m ks :
    view_ok m -> no_empty_key m -> splits_ok prefix ks = true ->
    stream_pass prefix since now banned kd choose rts m ks
    = produce_range prefix since now banned kd choose rts m ([], []).
  Proof.
    intros Hm Hne Hok. destruct (splits_ok_spec _ _ Hok) as (Hs & Hnn & Hp).
    unfold stream_pass, ranges.
    rewrite (produce_range_k rts m ([], []) Hm (or_introl eq_refl)).
    pose proof (ranges_from_lefts prefix ks Hp [] (or_introl eq_refl)) as Hl.
    rewrite (map_ext_in _ (fun rng => map snd (pass_k rts m rng))).
    2:{ intros rng Hin. rewrite Forall_forall in Hl. apply produce_range_k; auto. }
    rewrite <- (map_map (pass_k rts m) (map snd)). rewrite <- concat_map. f_equal.
    unfold pass_k. apply ranges_concat; auto. now apply no_empty_key_filter.
  Qed.
End Pass.
