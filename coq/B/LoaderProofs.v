(* LoaderProofs.v — KVLoader (Loader.v): for ALL KV sequences, size functions and limits the
   batches sent, concatenated, are exactly the input in order (a prefix of it when the write
   path rejects a batch); every batch respects the count limit and, unless it is a single
   entry, the size limit; no batch is rejected when every entry fits a batch on its own. *)
From Verif Require Import Loader.
From Coq Require Import ZArith List Bool Lia.
Import ListNotations.
Open Scope Z_scope.

Section LoaderProofs.
  Context {A : Type}.
  Variable est : A -> Z.
  Variable vlen : A -> Z.
  Variables maxc maxs flush : Z.

  Notation ldr := (@ldr A).
  Notation state := (@state A).
  Notation send := (send est maxc maxs).
  Notation set := (set est vlen maxc maxs flush).
  Notation set_all := (set_all est vlen maxc maxs flush).
  Notation finish := (finish est maxc maxs).
  Notation loader_run := (loader_run est vlen maxc maxs flush).
  Notation batch_ok := (batch_ok est maxc maxs).
  Notation batch_size := (batch_size est).
  Notation batch_total := (batch_total est vlen).
  Notation too_big := (too_big est maxc maxs).

  Lemma blen_app (a b : list A) : blen (a ++ b) = blen a + blen b.
  Proof. unfold blen. rewrite app_length. lia. Qed.

  Lemma batch_size_app (a b : list A) : batch_size (a ++ b) = batch_size a + batch_size b.
  Proof. unfold Loader.batch_size. induction a as [|x a IH]; cbn [app fold_right]; lia. Qed.

  Lemma batch_total_app (a b : list A) : batch_total (a ++ b) = batch_total a + batch_total b.
  Proof. unfold Loader.batch_total. induction a as [|x a IH]; cbn [app fold_right]; lia. Qed.

  Lemma blen_nonneg (b : list A) : 0 <= blen b.
  Proof. unfold blen. lia. Qed.

  (* the counters describe the pending entries; the pending entries form an admissible batch *)
  Definition ldr_inv (l : ldr) : Prop :=
    l_len l = blen (l_ents l) /\ l_esize l = batch_size (l_ents l)
    /\ l_tsize l = batch_total (l_ents l) /\ batch_ok (l_ents l).

  (* everything processed so far is in the accepted batches followed by the pending entries *)
  Definition st_inv (st : state) (p : list A) : Prop :=
    concat (rev (snd st)) ++ l_ents (fst st) = p /\ ldr_inv (fst st) /\ Forall batch_ok (snd st).

  Lemma ldr0_inv : ldr_inv ldr0.
  Proof.
    unfold ldr_inv, Loader.batch_ok, l_ents, blen. cbn. repeat split; try reflexivity; right; lia.
  Qed.

  Lemma send_ok st p st' : st_inv st p -> send st = inl st' ->
    st_inv st' p /\ fst st' = ldr0 /\ snd st' = l_ents (fst st) :: snd st.
  Proof.
    intros (Hc & Hl & Hf) H. unfold Loader.send in H.
    destruct (too_big (l_ents (fst st))); [discriminate|]. injection H as <-. unfold st_inv. cbn [fst snd].
    split; [|split; reflexivity]. split; [|split].
    - cbn [rev]. rewrite concat_app. cbn [concat]. rewrite app_nil_r.
      rewrite ?app_nil_r. exact Hc.
    - exact ldr0_inv.
    - constructor; [exact (proj2 (proj2 (proj2 Hl)))|exact Hf].
  Qed.

  Lemma send_rej st p b : st_inv st p -> send st = inr b -> b = l_ents (fst st) /\ batch_ok b.
  Proof.
    intros (Hc & Hl & Hf) H. unfold Loader.send in H.
    destruct (too_big (l_ents (fst st))); [|discriminate]. injection H as <-.
    split; [reflexivity|exact (proj2 (proj2 (proj2 Hl)))].
  Qed.

  (* appending kv to a loader whose Set did not (need to) flush, or that was just reset *)
  Lemma append_inv (l : ldr) kv :
    ldr_inv l ->
    (must_flush maxc maxs flush l (est kv) = false \/ l = ldr0) ->
    ldr_inv (mkL (kv :: l_rev l) (l_len l + 1) (l_esize l + est kv) (l_tsize l + (est kv + vlen kv))).
  Proof.
    intros (Hn & Hs & Ht & Hok) Hc. unfold ldr_inv, l_ents in *. cbn [l_rev l_len l_esize l_tsize rev].
    rewrite blen_app, batch_size_app, batch_total_app. unfold blen at 2.
    cbn [length Loader.batch_size Loader.batch_total fold_right].
    split; [lia|]. split; [lia|]. split; [lia|].
    unfold Loader.batch_ok. rewrite blen_app, batch_size_app. unfold blen at 2 4 6.
    cbn [length Loader.batch_size fold_right].
    destruct Hc as [Hc| ->].
    - unfold must_flush in Hc. apply orb_false_elim in Hc as [Hc _]. apply orb_false_elim in Hc as [H1 H2].
      apply Z.leb_gt in H1. apply Z.leb_gt in H2. split; left; lia.
    - cbn. split; right; lia.
  Qed.

  Lemma set_ok st p kv st' : st_inv st p -> set st kv = inl st' -> st_inv st' (p ++ [kv]).
  Proof.
    intros Hi H. unfold Loader.set in H.
    destruct (must_flush maxc maxs flush (fst st) (est kv)) eqn:Hm.
    - destruct (send st) as [st1|b] eqn:Hs; [|discriminate].
      destruct (send_ok _ _ _ Hi Hs) as ((Hc & Hl & Hf) & H0 & _).
      destruct st1 as [l sent]. injection H as <-. cbn [fst snd] in *.
      unfold st_inv; cbn [fst snd]; split; [|split].
      + unfold l_ents. cbn [l_rev rev]. rewrite app_assoc. f_equal. exact Hc.
      + apply append_inv; [exact Hl|right; exact H0].
      + exact Hf.
    - destruct st as [l sent]. injection H as <-. destruct Hi as (Hc & Hl & Hf). cbn [fst snd] in *.
      unfold st_inv; cbn [fst snd]; split; [|split].
      + unfold l_ents. cbn [l_rev rev]. rewrite app_assoc. f_equal. exact Hc.
      + apply append_inv; [exact Hl|left; exact Hm].
      + exact Hf.
  Qed.

  Lemma set_rej st p kv b : st_inv st p -> set st kv = inr b -> b = l_ents (fst st) /\ batch_ok b.
  Proof.
    intros Hi H. unfold Loader.set in H.
    destruct (must_flush maxc maxs flush (fst st) (est kv)).
    - destruct (send st) as [[l sent]|b'] eqn:Hs; [discriminate|]. injection H as <-.
      exact (send_rej _ _ _ Hi Hs).
    - destruct st as [l sent]. discriminate.
  Qed.

  Lemma set_all_spec kvs : forall st p st' r, st_inv st p -> set_all st kvs = (st', r) ->
    exists p' rest, st_inv st' p' /\ p ++ kvs = p' ++ rest
      /\ match r with None => rest = [] | Some b => b = l_ents (fst st') /\ batch_ok b /\ rest <> [] end.
  Proof.
    induction kvs as [|kv kvs IH]; intros st p st' r Hi H; cbn [Loader.set_all] in H.
    - injection H as <- <-. exists p, []. split; [exact Hi|]. split; reflexivity.
    - destruct (set st kv) as [st1|b] eqn:Hs.
      + destruct (IH _ _ _ _ (set_ok _ _ _ _ Hi Hs) H) as (p' & rest & H1 & H2 & H3).
        exists p', rest. split; [exact H1|]. split; [|exact H3].
        rewrite <- H2, <- app_assoc. reflexivity.
      + injection H as <- <-. exists p, (kv :: kvs). split; [exact Hi|]. split; [reflexivity|].
        destruct (set_rej _ _ _ _ Hi Hs) as [H1 H2]. split; [exact H1|]. split; [exact H2|discriminate].
  Qed.

  Lemma nil_inv : st_inv (ldr0, []) [].
  Proof. split; [reflexivity|]. split; [exact ldr0_inv|constructor]. Qed.

  Lemma forall_rev (P : list A -> Prop) l : Forall P l -> Forall P (rev l).
  Proof. intros H. apply Forall_forall. intros x Hx. apply in_rev in Hx. exact (proj1 (Forall_forall P l) H x Hx). Qed.

  (* ---- main statement ---- *)
  Lemma loader_run_spec kvs bs r : loader_run kvs = (bs, r) ->
    Forall batch_ok bs
    /\ match r with
       | None => concat bs = kvs
       | Some b => batch_ok b /\ exists rest, kvs = concat bs ++ b ++ rest
       end.
  Proof.
    unfold Loader.loader_run. destruct (set_all (ldr0, []) kvs) as [st r1] eqn:Hs.
    destruct (set_all_spec _ _ _ _ _ nil_inv Hs) as (p' & rest & Hi & Hp & Hr). cbn [app] in Hp.
    destruct r1 as [b|].
    - intros [= <- <-]. destruct Hr as (Hb & Hok & _). destruct Hi as (Hc & Hl & Hf).
      split; [exact (forall_rev _ _ Hf)|]. split; [exact Hok|]. exists rest.
      rewrite Hp, <- Hc, Hb, <- app_assoc. reflexivity.
    - subst rest. rewrite app_nil_r in Hp. subst p'. unfold Loader.finish.
      destruct (0 <? l_len (fst st)) eqn:Hn.
      + destruct (send st) as [st1|b] eqn:Hsend.
        * intros [= <- <-]. destruct (send_ok _ _ _ Hi Hsend) as ((Hc & Hl & Hf) & H0 & _).
          split; [exact (forall_rev _ _ Hf)|]. rewrite H0 in Hc. unfold l_ents in Hc. cbn [ldr0 l_rev rev] in Hc.
          rewrite app_nil_r in Hc. exact Hc.
        * intros [= <- <-]. destruct (send_rej _ _ _ Hi Hsend) as [Hb Hok]. destruct Hi as (Hc & Hl & Hf).
          split; [exact (forall_rev _ _ Hf)|]. split; [exact Hok|]. exists []. rewrite app_nil_r, Hb. symmetry. exact Hc.
      + intros [= <- <-]. destruct Hi as (Hc & (Hlen & _) & Hf). split; [exact (forall_rev _ _ Hf)|].
        apply Z.ltb_ge in Hn. assert (Hz : blen (l_ents (fst st)) = 0) by (pose proof (blen_nonneg (l_ents (fst st))); lia).
        unfold blen in Hz. destruct (l_ents (fst st)) as [|x l]; [|cbn in Hz; lia].
        rewrite app_nil_r in Hc. exact Hc.
  Qed.

  (* nothing lost, duplicated or reordered *)
  Theorem loader_concat kvs bs : loader_run kvs = (bs, None) -> concat bs = kvs.
  Proof. intros H. exact (proj2 (loader_run_spec _ _ _ H)). Qed.

  (* on ErrTxnTooBig: what was accepted, then the rejected batch, is a prefix of the input *)
  Theorem loader_prefix kvs bs b : loader_run kvs = (bs, Some b) -> exists rest, kvs = concat bs ++ b ++ rest.
  Proof. intros H. exact (proj2 (proj2 (loader_run_spec _ _ _ H))). Qed.

  Theorem loader_batches_ok kvs bs r : loader_run kvs = (bs, r) ->
    Forall batch_ok bs /\ match r with Some b => batch_ok b | None => True end.
  Proof.
    intros H. destruct (loader_run_spec _ _ _ H) as [H1 H2]. split; [exact H1|].
    destruct r; [exact (proj1 H2)|exact I].
  Qed.

  (* accepted batches passed the admission test of sendToWriteCh *)
  Lemma set_all_accepted kvs : forall st st' r, Forall (fun b => too_big b = false) (snd st) ->
    set_all st kvs = (st', r) -> Forall (fun b => too_big b = false) (snd st').
  Proof.
    induction kvs as [|kv kvs IH]; intros st st' r Hf H; cbn [Loader.set_all] in H.
    - injection H as <- <-. exact Hf.
    - destruct (set st kv) as [st1|b] eqn:Hs; [|injection H as <- <-; exact Hf].
      apply (IH st1 st' r); [|exact H]. unfold Loader.set in Hs.
      destruct (must_flush maxc maxs flush (fst st) (est kv)).
      + unfold Loader.send in Hs. destruct (too_big (l_ents (fst st))) eqn:Ht; [discriminate|].
        injection Hs as <-. cbn [snd]. constructor; assumption.
      + destruct st as [l sent]. injection Hs as <-. exact Hf.
  Qed.

  Theorem loader_accepted kvs bs r : loader_run kvs = (bs, r) ->
    Forall (fun b => blen b < maxc /\ batch_size b < maxs) bs.
  Proof.
    unfold Loader.loader_run. destruct (set_all (ldr0, []) kvs) as [st r1] eqn:Hs.
    pose proof (set_all_accepted kvs (ldr0, []) st r1 (Forall_nil _) Hs) as Hf.
    assert (Hconv : forall l, Forall (fun b => too_big b = false) l ->
                              Forall (fun b => blen b < maxc /\ batch_size b < maxs) (rev l)).
    { intros l Hl. apply Forall_forall. intros b Hb. apply in_rev in Hb.
      pose proof (proj1 (Forall_forall _ l) Hl b Hb) as Ht. unfold Loader.too_big in Ht.
      apply orb_false_elim in Ht as [H1 H2]. apply Z.leb_gt in H1. apply Z.leb_gt in H2. split; assumption. }
    destruct r1 as [b|]; [intros [= <- <-]; exact (Hconv _ Hf)|].
    unfold Loader.finish. destruct (0 <? l_len (fst st)).
    - unfold Loader.send. destruct (too_big (l_ents (fst st))) eqn:Ht.
      + intros [= <- <-]. exact (Hconv _ Hf).
      + intros [= <- <-]. apply (Hconv (l_ents (fst st) :: snd st)). constructor; assumption.
    - intros [= <- <-]. exact (Hconv _ Hf).
  Qed.

  (* ---- no batch is rejected when every entry fits a batch on its own ---- *)
  Section Fits.
    Hypothesis Hc : 2 <= maxc.
    Hypothesis Hs : 0 < maxs.

    Definition fits (l : ldr) : Prop := l_len l < maxc /\ l_esize l < maxs.

    Lemma send_fits st p : st_inv st p -> fits (fst st) -> exists st', send st = inl st' /\ fst st' = ldr0.
    Proof.
      intros (_ & (Hn & Hz & _) & _) [H1 H2]. unfold Loader.send, Loader.too_big.
      rewrite <- Hn, <- Hz. destruct (Z.leb_spec maxc (l_len (fst st))); [lia|].
      destruct (Z.leb_spec maxs (l_esize (fst st))); [lia|]. cbn [orb]. eexists. split; reflexivity.
    Qed.

    Lemma set_fits st p kv : st_inv st p -> fits (fst st) -> est kv < maxs ->
      exists st', set st kv = inl st' /\ fits (fst st').
    Proof.
      intros Hi Hf Hk. unfold Loader.set.
      destruct (must_flush maxc maxs flush (fst st) (est kv)) eqn:Hm.
      - destruct (send_fits _ _ Hi Hf) as ([l sent] & -> & H0). cbn [fst] in H0. subst l.
        eexists. split; [reflexivity|]. unfold fits. cbn. lia.
      - destruct st as [l sent]. eexists. split; [reflexivity|]. unfold fits. cbn [fst l_len l_esize].
        unfold must_flush in Hm. cbn [fst] in Hm. apply orb_false_elim in Hm as [Hm _].
        apply orb_false_elim in Hm as [H1 H2]. apply Z.leb_gt in H1. apply Z.leb_gt in H2. lia.
    Qed.

    Lemma set_all_fits kvs : forall st p, st_inv st p -> fits (fst st) ->
      (forall kv, In kv kvs -> est kv < maxs) ->
      exists st', set_all st kvs = (st', None) /\ st_inv st' (p ++ kvs) /\ fits (fst st').
    Proof.
      induction kvs as [|kv kvs IH]; intros st p Hi Hf Hall; cbn [Loader.set_all].
      - exists st. rewrite app_nil_r. split; [reflexivity|split; assumption].
      - destruct (set_fits _ _ kv Hi Hf (Hall kv (or_introl eq_refl))) as (st1 & E & Hf1).
        pose proof (set_ok _ _ _ _ Hi E) as Hi1. rewrite E.
        destruct (IH st1 (p ++ [kv]) Hi1 Hf1 (fun x Hx => Hall x (or_intror Hx))) as (st' & E' & Hi' & Hf').
        exists st'. split; [exact E'|]. split; [|exact Hf']. rewrite <- app_assoc in Hi'. exact Hi'.
    Qed.

    Theorem loader_no_error kvs : (forall kv, In kv kvs -> est kv < maxs) ->
      exists bs, loader_run kvs = (bs, None).
    Proof.
      intros Hall. unfold Loader.loader_run.
      assert (Hf0 : fits (@fst ldr (list (list A)) (ldr0, []))) by (unfold fits; cbn; lia).
      destruct (set_all_fits kvs _ _ nil_inv Hf0 Hall) as (st & -> & Hi & Hf).
      unfold Loader.finish. destruct (0 <? l_len (fst st)).
      - destruct (send_fits _ _ Hi Hf) as (st' & -> & _). eexists. reflexivity.
      - eexists. reflexivity.
    Qed.
  End Fits.
End LoaderProofs.

(* ---------- the batching depends on the KVs only through the projection it is computed from:
   running the loader on `map f kvs` gives the images of the batches of kvs ---------- *)
Section LoaderMap.
  Context {A B : Type}.
  Variable f : B -> A.
  Variable est : A -> Z.
  Variable vlen : A -> Z.
  Variables maxc maxs flush : Z.

  Let estf (x : B) : Z := est (f x).
  Let vlenf (x : B) : Z := vlen (f x).

  Definition map_ldr (l : @ldr B) : @ldr A := mkL (map f (l_rev l)) (l_len l) (l_esize l) (l_tsize l).
  Definition map_state (st : @state B) : @state A := (map_ldr (fst st), map (map f) (snd st)).

  Lemma map_l_ents l : l_ents (map_ldr l) = map f (l_ents l).
  Proof. unfold l_ents, map_ldr. cbn [l_rev]. apply eq_sym, map_rev. Qed.

  Lemma map_blen (b : list B) : blen (map f b) = blen b.
  Proof. unfold blen. rewrite map_length. reflexivity. Qed.

  Lemma map_batch_size (b : list B) : batch_size est (map f b) = batch_size estf b.
  Proof. unfold batch_size. induction b as [|x b IH]; cbn [map fold_right]; [reflexivity|]. rewrite IH. reflexivity. Qed.

  Lemma map_too_big (b : list B) : too_big est maxc maxs (map f b) = too_big estf maxc maxs b.
  Proof. unfold too_big. rewrite map_blen, map_batch_size. reflexivity. Qed.

  Definition map_sum (r : @state B + list B) : @state A + list A :=
    match r with inl st => inl (map_state st) | inr b => inr (map f b) end.

  Lemma map_send st : send est maxc maxs (map_state st) = map_sum (send estf maxc maxs st).
  Proof.
    unfold send. cbn [map_state fst snd]. rewrite map_l_ents, map_too_big.
    destruct (too_big estf maxc maxs (l_ents (fst st))); reflexivity.
  Qed.

  Lemma map_set st kv : set est vlen maxc maxs flush (map_state st) (f kv) = map_sum (set estf vlenf maxc maxs flush st kv).
  Proof.
    unfold set. fold (estf kv). fold (vlenf kv).
    change (must_flush maxc maxs flush (fst (map_state st)) (estf kv))
      with (must_flush maxc maxs flush (fst st) (estf kv)).
    destruct (must_flush maxc maxs flush (fst st) (estf kv)).
    - rewrite map_send. destruct (send estf maxc maxs st) as [[l sent]|b]; reflexivity.
    - destruct st as [l sent]. reflexivity.
  Qed.

  Lemma map_set_all kvs : forall st,
    set_all est vlen maxc maxs flush (map_state st) (map f kvs)
    = (map_state (fst (set_all estf vlenf maxc maxs flush st kvs)),
       option_map (map f) (snd (set_all estf vlenf maxc maxs flush st kvs))).
  Proof.
    induction kvs as [|kv kvs IH]; intros st; cbn [map set_all]; [reflexivity|].
    rewrite map_set. destruct (set estf vlenf maxc maxs flush st kv) as [st1|b]; cbn [map_sum]; [apply IH|reflexivity].
  Qed.

  Theorem loader_run_map kvs :
    loader_run est vlen maxc maxs flush (map f kvs)
    = (map (map f) (fst (loader_run estf vlenf maxc maxs flush kvs)),
       option_map (map f) (snd (loader_run estf vlenf maxc maxs flush kvs))).
  Proof.
    unfold loader_run. change (@ldr0 A, @nil (list A)) with (map_state (@ldr0 B, [])).
    rewrite map_set_all. destruct (set_all estf vlenf maxc maxs flush (ldr0, []) kvs) as [st [b|]]; cbn [fst snd option_map].
    - unfold map_state. cbn [snd]. rewrite map_rev. reflexivity.
    - unfold finish. change (l_len (fst (map_state st))) with (l_len (fst st)).
      destruct (0 <? l_len (fst st)).
      + rewrite map_send. destruct (send estf maxc maxs st) as [st1|b]; cbn [map_sum fst snd option_map];
          unfold map_state; cbn [snd]; rewrite map_rev; reflexivity.
      + cbn [fst snd option_map]. unfold map_state. cbn [snd]. rewrite map_rev. reflexivity.
  Qed.
End LoaderMap.

(* ---------- tie to DB.Load of the system model (Stream.v `load`) ---------- *)
From Verif Require Import Bytes Keys Consts Spec Lsm Compact Iter Sys Stream Threshold.

Lemma apply_entries_app d a b : apply_entries (apply_entries d a) b = apply_entries d (a ++ b).
Proof. unfold apply_entries. cbn [l_mt l_imm l_levels]. rewrite fold_left_app. reflexivity. Qed.

Lemma apply_entries_nil d : apply_entries d [] = d.
Proof. destruct d. reflexivity. Qed.

Lemma apply_batches d bs : fold_left apply_entries bs d = apply_entries d (concat bs).
Proof.
  revert d. induction bs as [|b bs IH]; intros d; cbn [fold_left concat].
  - symmetry. apply apply_entries_nil.
  - rewrite IH. apply apply_entries_app.
Qed.

(* the Entry KVLoader.Set builds from a KV: key = y.KeyWithTs(kv.Key, kv.Version) *)
Definition ent_kv (e : entry) : Z * Z := (Z.of_nat (length (e_key e)) + 8, Z.of_nat (length (e_val e))).

(* writing the loader's batches one after the other through the write path = the model's Load,
   whatever the limits, whenever no batch was rejected *)
Theorem load_batched : forall maxc maxs flush thr s kvs bs,
  loader_run (fun e => kv_est thr (ent_kv e)) (fun e => kv_vlen (ent_kv e)) maxc maxs flush kvs = (bs, None) ->
  fold_left apply_entries bs (s_db s) = s_db (load s kvs)
  /\ map (map ent_kv) bs = fst (kv_loader_run maxc maxs flush thr (map ent_kv kvs)).
Proof.
  intros maxc maxs flush thr s kvs bs H. split.
  - rewrite apply_batches, (loader_concat _ _ _ _ _ _ _ H). reflexivity.
  - unfold kv_loader_run. rewrite (loader_run_map ent_kv (kv_est thr) kv_vlen). rewrite H. reflexivity.
Qed.

(* limits of a target opened with MemTableSize = 4 KiB (maxBatchCount 6, maxBatchSize 614), value
   threshold 32: a count-arm flush, a size-arm flush in front of an entry that fits no batch, which
   the write path then rejects (ErrTxnTooBig) *)
Example loader_ex :
  kv_loader_run 6 614 104857600 32 (expand_runs [(7, (11, 3)); (1, (11, 600)); (2, (700, 0))])
  = ([[(11, 3); (11, 3); (11, 3); (11, 3); (11, 3)]; [(11, 3); (11, 3); (11, 600)]], Some [(700, 0)]).
Proof. vm_compute. reflexivity. Qed.
