(* SequenceProofs.v — the invariant behind C30 for Sequence.v, over all interleavings of the
   Call / Ret halves of GetSequence, Next, Release of any number of objects and keys, with restarts.

   "Safe" executions: no call on an object whose lease update failed at commit (st_misuse = false;
   automatically true for the repaired code fx = true), and no uint64 wrap-around (st_wrapped =
   false).  Both flags are monotone, so "false at the end" means "false throughout". *)
From Coq Require Import List NArith Bool Lia Sorted.
From Coq Require Import ZifyN ZifyNat ZifyBool.
From Verif Require Import Sequence.
Import ListNotations.
Open Scope N_scope.

Definition holds (o : obj) : bool := match o_pc o with Refreshing _ _ _ => false | _ => true end.

(* n is in the range the object may hand out without another commit *)
Definition inr (o : obj) (n : N) : Prop :=
  o_poison o = false /\ holds o = true /\ o_next o <= n /\ n < o_leased o.

Definition sv (s : state) (k : N) : N := sval (st_store s k).
Definition wv (s : state) (k : N) : N := wver (st_store s k).

Definition pc_ok (fx : bool) (store : N -> kstate) (o : obj) : Prop :=
  match o_pc o with
  | Idle => True
  | Refreshing snap rv _ =>
      snap <= wver (store (o_key o)) /\ (wver (store (o_key o)) = snap -> sval (store (o_key o)) = rv)
      /\ rv + o_bw o < two64
      /\ (if fx then o_leased o <= o_next o else o_next o = rv /\ o_leased o = rv + o_bw o)
  | Releasing snap w =>
      snap <= wver (store (o_key o))
      /\ (wver (store (o_key o)) = snap -> w = true -> sval (store (o_key o)) = o_leased o)
  end.

Definition hkey (e : N * N * N) : N := fst (fst e).
Definition hobj (e : N * N * N) : N := snd (fst e).
Definition hnum (e : N * N * N) : N := snd e.

(* later entries (towards the head) of one object are larger *)
Fixpoint incr_hist (h : list (N * N * N)) : Prop :=
  match h with
  | [] => True
  | e :: r => (forall e', In e' r -> hobj e' = hobj e -> hnum e' < hnum e) /\ incr_hist r
  end.

Record Inv (fx : bool) (s : state) : Prop := mkInv {
  i_misuse : st_misuse s = false;
  i_wrapped : st_wrapped s = false;
  i_ids : forall i o, st_objs s i = Some o -> i < st_nobj s;
  i_hids : forall e, In e (st_hist s) -> hobj e < st_nobj s;
  i_rng : forall i o n, st_objs s i = Some o -> inr o n -> n < sv s (o_key o);
  i_disj : forall i j oi oj n, st_objs s i = Some oi -> st_objs s j = Some oj -> i <> j ->
           o_key oi = o_key oj -> inr oi n -> inr oj n -> False;
  i_hist : forall e, In e (st_hist s) -> hnum e < sv s (hkey e)
           /\ forall j o, st_objs s j = Some o -> o_key o = hkey e -> ~ inr o (hnum e);
  i_uniq : NoDup (map (fun e => (hkey e, hnum e)) (st_hist s));
  i_pc : forall i o, st_objs s i = Some o -> pc_ok fx (st_store s) o;
  i_poison : forall i o, st_objs s i = Some o -> o_poison o = true -> o_pc o = Idle;
  i_own : forall e o, In e (st_hist s) -> st_objs s (hobj e) = Some o -> hkey e = o_key o /\ hnum e < o_next o;
  i_incr : incr_hist (st_hist s);
  i_bw : forall i o, st_objs s i = Some o -> 0 < o_bw o
}.

Lemma updN_eq : forall A (f : N -> A) i x, updN f i x i = x.
Proof. intros. unfold updN. rewrite N.eqb_refl. reflexivity. Qed.
Lemma updN_neq : forall A (f : N -> A) i j x, j <> i -> updN f i x j = f j.
Proof. intros A f i j x H. unfold updN. apply N.eqb_neq in H. rewrite H. reflexivity. Qed.

Lemma inv_init : forall fx, Inv fx init.
Proof.
  intros fx. constructor; cbn; try reflexivity; try (intros; discriminate); try (intros ? []); try constructor.
Qed.

(* ---------- generic step 1: put an object (and optionally record a returned number) ---------- *)
Definition put (s : state) (i : N) (o' : obj) (he : option N) : state :=
  mkS (st_store s) (updN (st_objs s) i (Some o')) (st_nobj s)
      (match he with Some n => (o_key o', i, n) :: st_hist s | None => st_hist s end) false false.

Lemma inv_put : forall fx s i o' he, Inv fx s -> i < st_nobj s ->
  (forall n, inr o' n \/ he = Some n -> n < sv s (o_key o')) ->
  (forall n j oj, inr o' n \/ he = Some n -> j <> i -> st_objs s j = Some oj -> o_key oj = o_key o' -> ~ inr oj n) ->
  (forall n e, inr o' n \/ he = Some n -> In e (st_hist s) -> hkey e = o_key o' -> hnum e <> n) ->
  (forall n, he = Some n -> ~ inr o' n /\ n < o_next o') ->
  pc_ok fx (st_store s) o' ->
  (o_poison o' = true -> o_pc o' = Idle) ->
  (forall e, In e (st_hist s) -> hobj e = i -> hkey e = o_key o' /\ hnum e < o_next o'
                                            /\ forall n, he = Some n -> hnum e < n) ->
  0 < o_bw o' ->
  Inv fx (put s i o' he).
Proof.
  intros fx s i o' he HI Hi H1 H2 H3 H4 Hpc Hpo Hown Hbw. destruct HI.
  assert (Lk : forall j oj, updN (st_objs s) i (Some o') j = Some oj ->
               (j = i /\ oj = o') \/ (j <> i /\ st_objs s j = Some oj)).
  { intros j oj H. destruct (N.eq_dec j i) as [->|Hn].
    - rewrite updN_eq in H. injection H as <-. left. auto.
    - rewrite updN_neq in H by exact Hn. right. auto. }
  assert (Hin : forall e, In e (st_hist (put s i o' he)) ->
            (exists n, he = Some n /\ e = (o_key o', i, n)) \/ In e (st_hist s)).
  { intros e He. unfold put in He. cbn [st_hist] in He. destruct he as [n|]; [|right; exact He].
    destruct He as [<-|He]; [left; exists n; auto|right; exact He]. }
  constructor; cbn [put st_misuse st_wrapped st_objs st_nobj st_store]; try reflexivity.
  - intros j oj H. destruct (Lk _ _ H) as [[-> _]|[_ H']]; [exact Hi|eauto].
  - intros e He. destruct (Hin e He) as [(n & _ & ->)|He']; [exact Hi|eauto].
  - intros j oj n H Hr. unfold sv. cbn [st_store]. destruct (Lk _ _ H) as [[-> ->]|[_ H']].
    + apply H1. left. exact Hr.
    + exact (i_rng0 _ _ _ H' Hr).
  - intros a b oa ob n Ha Hb Hne Hk Hra Hrb.
    destruct (Lk _ _ Ha) as [[-> ->]|[Na Ha']]; destruct (Lk _ _ Hb) as [[-> ->]|[Nb Hb']].
    + congruence.
    + eapply (H2 n b ob); eauto.
    + eapply (H2 n a oa); eauto.
    + eapply i_disj0; eauto.
  - intros e He. unfold sv. cbn [st_store]. destruct (Hin e He) as [(n & En & ->)|He'].
    + cbn [hkey hnum fst snd]. split; [apply H1; right; exact En|].
      intros j oj Hj Hk. destruct (Lk _ _ Hj) as [[-> ->]|[Nj Hj']].
      * apply (H4 n En).
      * eapply H2; eauto.
    + destruct (i_hist0 e He') as [Ha Hb]. split; [exact Ha|].
      intros j oj Hj Hk. destruct (Lk _ _ Hj) as [[-> ->]|[Nj Hj']]; [|eauto].
      intros Hr. eapply (H3 (hnum e) e); eauto.
  - cbn [st_hist]. destruct he as [n|]; [|exact i_uniq0]. cbn [map hkey hnum fst snd]. constructor; [|exact i_uniq0].
    intros Hm. apply in_map_iff in Hm. destruct Hm as (e & Ee & He). injection Ee as Ek En.
    eapply (H3 n e); eauto.
  - intros j oj Hj. destruct (Lk _ _ Hj) as [[-> ->]|[Nj Hj']]; [exact Hpc|eauto].
  - intros j oj Hj. destruct (Lk _ _ Hj) as [[-> ->]|[Nj Hj']]; [exact Hpo|eauto].
  - intros e o He Ho. destruct (Hin e He) as [(n & En & ->)|He'].
    + cbn [hobj hkey hnum fst snd] in *. rewrite updN_eq in Ho. injection Ho as <-.
      split; [reflexivity|apply (H4 n En)].
    + destruct (Lk _ _ Ho) as [[Ei ->]|[Nj Hj']]; [|eauto].
      destruct (Hown e He' Ei) as (A & B & _). auto.
  - cbn [st_hist]. destruct he as [n|]; [|exact i_incr0]. cbn [incr_hist]. split; [|exact i_incr0].
    intros e' He' Ho. cbn [hobj hnum fst snd] in *. destruct (Hown e' He' Ho) as (_ & _ & C). apply C. reflexivity.
  - intros j oj Hj. destruct (Lk _ _ Hj) as [[-> ->]|[Nj Hj']]; [exact Hbw|eauto].
Qed.

(* ---------- generic step 2: a commit changes the stored lease of key k ---------- *)
Definition setk (s : state) (k : N) (ks' : kstate) : state :=
  mkS (updN (st_store s) k ks') (st_objs s) (st_nobj s) (st_hist s) false false.

Lemma inv_setk : forall fx s k ks', Inv fx s ->
  wver (st_store s k) < wver ks' ->
  (forall j oj n, st_objs s j = Some oj -> o_key oj = k -> inr oj n -> n < sval ks') ->
  (forall e, In e (st_hist s) -> hkey e = k -> hnum e < sval ks') ->
  Inv fx (setk s k ks').
Proof.
  intros fx s k ks' HI Hw H1 H2. destruct HI.
  assert (Sv : forall k', (k' = k /\ updN (st_store s) k ks' k' = ks') \/ (k' <> k /\ updN (st_store s) k ks' k' = st_store s k')).
  { intros k'. destruct (N.eq_dec k' k) as [->|Hn]; [left; rewrite updN_eq; auto|right; rewrite updN_neq by exact Hn; auto]. }
  constructor; cbn [setk st_misuse st_wrapped st_objs st_nobj st_store st_hist]; try reflexivity; try assumption.
  - intros i o n Ho Hr. unfold sv, setk. cbn [st_store]. destruct (Sv (o_key o)) as [[E ->]|[_ ->]]; [eapply H1; eauto|eapply i_rng0; eauto].
  - intros e He. destruct (i_hist0 e He) as [Ha Hb]. split; [|exact Hb]. unfold sv, setk. cbn [st_store].
    destruct (Sv (hkey e)) as [[E ->]|[_ ->]]; [eapply H2; eauto|exact Ha].
  - intros i o Ho. specialize (i_pc0 i o Ho). unfold pc_ok in *. destruct (o_pc o) as [|snap rv take|snap w]; [exact I| |].
    + destruct (Sv (o_key o)) as [[E ->]|[_ ->]]; [|exact i_pc0]. rewrite E in *.
      destruct i_pc0 as (A & B & C). split; [lia|]. split; [intros; lia|exact C].
    + destruct (Sv (o_key o)) as [[E ->]|[_ ->]]; [|exact i_pc0]. rewrite E in *.
      destruct i_pc0 as (A & B). split; [lia|intros; lia].
Qed.

(* flags off after the step means flags off before *)
Lemma or_false_l : forall a b, a || b = false -> a = false /\ b = false.
Proof. intros [] []; cbn; auto. Qed.

Ltac inv_obj H := match type of H with Some _ = Some _ => injection H as <- end.

(* ---------- the steps ---------- *)
Lemma get_call_inv : forall fx s k bw s' r, Inv fx s -> get_call fx s k bw = (s', r) ->
  st_misuse s' = false -> st_wrapped s' = false -> Inv fx s'.
Proof.
  intros fx s k bw s' r HI HS Hm Hw. unfold get_call in HS.
  destruct (k =? 0); [injection HS as <- <-; exact HI|].
  destruct (bw =? 0) eqn:Ebw; [injection HS as <- <-; exact HI|]. apply N.eqb_neq in Ebw.
  injection HS as <- <-. unfold begin_refresh in *. cbn [st_wrapped st_misuse st_store st_objs st_nobj st_hist o_key o_bw] in *.
  apply or_false_l in Hw. destruct Hw as [Hw1 Hw2]. apply N.leb_gt in Hw2.
  set (ks := st_store s k) in *.
  set (o' := if fx then mkObj k 0 0 bw (Refreshing (wver ks) (sval ks) false) false
             else mkObj k (sval ks) (lease_of (sval ks) bw) bw (Refreshing (wver ks) (sval ks) false) false).
  assert (Ho' : o_key o' = k /\ o_pc o' = Refreshing (wver ks) (sval ks) false /\ o_poison o' = false /\ o_bw o' = bw)
    by (unfold o'; destruct fx; cbn; auto).
  destruct Ho' as (K1 & K2 & K3 & K4).
  assert (Nr : forall n, ~ inr o' n) by (intros n (_ & Hh & _); unfold holds in Hh; rewrite K2 in Hh; discriminate).
  set (s1 := mkS (st_store s) (st_objs s) (st_nobj s + 1) (st_hist s) false false).
  assert (HI1 : Inv fx s1).
  { destruct HI. constructor; cbn; auto.
    - intros i o Ho. specialize (i_ids0 i o Ho). lia.
    - intros e He. specialize (i_hids0 e He). lia. }
  replace (mkS (st_store s) (updN (st_objs s) (st_nobj s) (Some _)) (st_nobj s + 1) (st_hist s) _ _)
    with (put s1 (st_nobj s) o' None).
  2:{ unfold put, s1. cbn [st_store st_objs st_nobj st_hist]. rewrite Hm, Hw1.
      replace (two64 <=? sval ks + bw) with false by (symmetry; apply N.leb_gt; exact Hw2). reflexivity. }
  apply inv_put; try exact HI1.
  - cbn. lia.
  - intros n [Hr|Hr]; [destruct (Nr n Hr)|discriminate].
  - intros n j oj [Hr|Hr]; [destruct (Nr n Hr)|discriminate].
  - intros n e [Hr|Hr]; [destruct (Nr n Hr)|discriminate].
  - intros n Hn. discriminate.
  - unfold pc_ok. rewrite K2, K1, K4. cbn [s1 st_store]. fold ks. split; [lia|]. split; [reflexivity|].
    split; [exact Hw2|]. unfold o'. destruct fx; cbn; [lia|]. unfold lease_of.
    split; [reflexivity|]. apply N.mod_small. exact Hw2.
  - intros Hp. congruence.
  - intros e He Ei. cbn [s1 st_hist] in He. destruct HI. specialize (i_hids0 e He). lia.
  - rewrite K4. lia.
Qed.

(* the object stays, its range shrinks or stays, nothing is recorded *)
Lemma inv_put_shrink : forall fx s i o o', Inv fx s -> st_objs s i = Some o ->
  o_key o' = o_key o -> o_bw o' = o_bw o -> (forall n, inr o' n -> inr o n) ->
  pc_ok fx (st_store s) o' -> (o_poison o' = true -> o_pc o' = Idle) ->
  (forall e, In e (st_hist s) -> hobj e = i -> hnum e < o_next o') ->
  Inv fx (put s i o' None).
Proof.
  intros fx s i o o' HI Ho Hk Hbw Hsub Hpc Hpo Hnx. pose proof HI as HI'. destruct HI'.
  apply inv_put; auto.
  - eauto.
  - intros n [Hr|Hr]; [|discriminate]. rewrite Hk. eapply i_rng0; eauto.
  - intros n j oj [Hr|Hr] Hne Hj Hkj Hrj; [|discriminate]. eapply (i_disj0 i j o oj n); eauto. congruence.
  - intros n e [Hr|Hr] He Hke; [|discriminate]. intros <-.
    destruct (i_hist0 e He) as [_ Hb]. eapply (Hb i o); eauto. congruence.
  - intros n Hn. discriminate.
  - intros e He Ei. rewrite <- Ei in Ho. destruct (i_own0 e o He Ho) as [A B].
    split; [congruence|]. split; [apply Hnx; assumption|intros; discriminate].
  - rewrite Hbw. eauto.
Qed.

Lemma state_eta : forall s, s = mkS (st_store s) (st_objs s) (st_nobj s) (st_hist s) (st_wrapped s) (st_misuse s).
Proof. intros []. reflexivity. Qed.

Lemma take_num_inv : forall fx s i o, Inv fx s ->
  i < st_nobj s -> o_poison o = false -> o_next o < o_leased o -> o_next o + 1 < two64 ->
  (* o is the object about to be stored under i; its range is granted w.r.t. s *)
  (forall n, o_next o <= n < o_leased o -> n < sv s (o_key o)) ->
  (forall n j oj, o_next o <= n < o_leased o -> j <> i -> st_objs s j = Some oj -> o_key oj = o_key o -> ~ inr oj n) ->
  (forall n e, o_next o <= n < o_leased o -> In e (st_hist s) -> hkey e = o_key o -> hnum e <> n) ->
  (forall e, In e (st_hist s) -> hobj e = i -> hkey e = o_key o /\ hnum e < o_next o) ->
  0 < o_bw o ->
  Inv fx (put s i (mkObj (o_key o) (o_next o + 1) (o_leased o) (o_bw o) Idle false) (Some (o_next o))).
Proof.
  intros fx s i o HI Hi Hpo Hlt Hnw H1 H2 H3 Hown Hbw.
  assert (R : forall n, inr (mkObj (o_key o) (o_next o + 1) (o_leased o) (o_bw o) Idle false) n \/ Some (o_next o) = Some n ->
              o_next o <= n < o_leased o).
  { intros n [(_ & _ & A & B)|E]; cbn in *; [lia|]. injection E as <-. lia. }
  apply inv_put; cbn [o_key o_next o_bw o_poison o_pc].
  - exact HI.
  - exact Hi.
  - intros n Hn. apply H1. apply R. exact Hn.
  - intros n j oj Hn. apply H2. apply R. exact Hn.
  - intros n e Hn. apply H3. apply R. exact Hn.
  - intros n E. injection E as <-. split; [|lia]. intros (_ & _ & A & _). cbn in A. lia.
  - exact I.
  - intros. reflexivity.
  - intros e He Ei. destruct (Hown e He Ei) as [A B]. split; [exact A|]. split; [lia|]. intros n E. injection E as <-. exact B.
  - exact Hbw.
Qed.

Lemma next_call_inv : forall fx s i s' r, Inv fx s -> next_call fx s i = (s', r) ->
  st_misuse s' = false -> st_wrapped s' = false -> Inv fx s'.
Proof.
  intros fx s i s' r HI HS Hm Hw. unfold next_call in HS.
  destruct (st_objs s i) as [o|] eqn:Ho; [|injection HS as <- <-; exact HI].
  destruct (o_pc o) eqn:Epc; try (injection HS as <- <-; exact HI).
  pose proof HI as HI'. destruct HI'.
  destruct (o_next o <? o_leased o) eqn:Elt.
  - (* fast path *)
    apply N.ltb_lt in Elt. unfold take_num, note_misuse in HS. injection HS as <- <-.
    cbn [st_misuse st_wrapped st_store st_objs st_nobj st_hist] in *.
    apply or_false_l in Hm. destruct Hm as [_ Hpo]. apply or_false_l in Hw. destruct Hw as [_ Hw]. apply N.leb_gt in Hw.
    rewrite N.mod_small by exact Hw. rewrite Hpo, i_misuse0, i_wrapped0.
    replace (two64 <=? o_next o + 1) with false by (symmetry; apply N.leb_gt; exact Hw). cbn [orb].
    assert (Hr : forall n, o_next o <= n < o_leased o -> inr o n).
    { intros n Hn. unfold inr, holds. rewrite Epc. repeat split; try assumption; lia. }
    apply (take_num_inv fx s i o HI).
    + eapply i_ids0; eauto.
    + exact Hpo.
    + exact Elt.
    + exact Hw.
    + intros n Hn. eapply i_rng0; eauto.
    + intros n j oj Hn Hne Hj Hk Hrj. eapply (i_disj0 i j o oj n); eauto.
    + intros n e Hn He Hk <-. destruct (i_hist0 e He) as [_ Hb]. eapply (Hb i o); eauto.
    + intros e He Ei. rewrite <- Ei in Ho. exact (i_own0 e o He Ho).
    + eapply i_bw0; eauto.
  - (* refresh begins *)
    apply N.ltb_ge in Elt. injection HS as <- <-. unfold begin_refresh, note_misuse in *.
    cbn [st_misuse st_wrapped st_store st_objs st_nobj st_hist] in *.
    apply or_false_l in Hm. destruct Hm as [_ Hpo]. apply or_false_l in Hw. destruct Hw as [_ Hw]. apply N.leb_gt in Hw.
    set (ks := st_store s (o_key o)) in *.
    set (o' := if fx then mkObj (o_key o) (o_next o) (o_leased o) (o_bw o) (Refreshing (wver ks) (sval ks) true) (o_poison o)
               else mkObj (o_key o) (sval ks) (lease_of (sval ks) (o_bw o)) (o_bw o) (Refreshing (wver ks) (sval ks) true) (o_poison o)).
    rewrite i_misuse0, i_wrapped0, Hpo.
    replace (two64 <=? sval ks + o_bw o) with false by (symmetry; apply N.leb_gt; exact Hw). cbn [orb].
    change (Inv fx (put s i o' None)).
    assert (K : o_key o' = o_key o /\ o_pc o' = Refreshing (wver ks) (sval ks) true /\ o_poison o' = o_poison o /\ o_bw o' = o_bw o)
      by (unfold o'; destruct fx; cbn; auto).
    destruct K as (K1 & K2 & K3 & K4).
    apply (inv_put_shrink fx s i o o' HI Ho K1 K4).
    + intros n (_ & Hh & _). unfold holds in Hh. rewrite K2 in Hh. discriminate.
    + unfold pc_ok. rewrite K2, K1, K4. fold ks. split; [lia|]. split; [reflexivity|]. split; [exact Hw|].
      unfold o'. destruct fx; cbn; [lia|]. unfold lease_of. split; [reflexivity|]. apply N.mod_small. exact Hw.
    + rewrite K3, K2. intros; congruence.
    + intros e He Ei. rewrite <- Ei in Ho. destruct (i_own0 e o He Ho) as [A B].
      unfold o'. destruct fx; cbn [o_next]; [exact B|]. destruct (i_hist0 e He) as [C _]. unfold sv in C. rewrite A in C. exact C.
Qed.

Lemma rel_call_inv : forall fx s i s' r, Inv fx s -> rel_call s i = (s', r) ->
  st_misuse s' = false -> st_wrapped s' = false -> Inv fx s'.
Proof.
  intros fx s i s' r HI HS Hm Hw. unfold rel_call in HS.
  destruct (st_objs s i) as [o|] eqn:Ho; [|injection HS as <- <-; exact HI].
  destruct (o_pc o) eqn:Epc; try (injection HS as <- <-; exact HI).
  pose proof HI as HI'. destruct HI'. unfold note_misuse in HS. cbn [st_store st_objs] in HS.
  destruct (stored (st_store s (o_key o))) as [num|] eqn:Est.
  - injection HS as <- <-. unfold set_obj in *. cbn [st_misuse st_wrapped st_store st_objs st_nobj st_hist] in *.
    apply or_false_l in Hm. destruct Hm as [_ Hpo]. rewrite Hpo, i_misuse0, Hw. cbn [orb].
    match goal with |- Inv fx (mkS _ (updN _ i (Some ?o1)) _ _ _ _) => change (Inv fx (put s i o1 None)) end.
    apply (inv_put_shrink fx s i o _ HI Ho); cbn [o_key o_bw o_pc o_poison o_next]; auto.
    + intros n (A & _ & B). unfold inr, holds. rewrite Epc. cbn in *. auto.
    + unfold pc_ok. cbn [o_pc o_key o_leased]. split; [lia|]. intros _ Ew. apply N.eqb_eq in Ew.
      unfold sval. rewrite Est. exact Ew.
    + intros; congruence.
    + intros e He Ei. rewrite <- Ei in Ho. apply (i_own0 e o He Ho).
  - injection HS as <- <-. cbn [st_misuse st_wrapped] in *. apply or_false_l in Hm. destruct Hm as [Hm1 Hm2].
    rewrite Hm2, orb_false_r. rewrite <- state_eta. exact HI.
Qed.

Lemma restart_inv : forall fx s, Inv fx s -> Inv fx (restart s).
Proof.
  intros fx s HI. destruct HI. constructor; unfold restart; cbn; auto; try (intros; discriminate).
  intros e He. destruct (i_hist0 e He) as [A _]. split; [exact A|intros; discriminate].
Qed.

(* commit of key k at snapshot snap *)
Lemma commit_cases : forall s k snap v blocked s1 c, commit s k snap v blocked = (s1, c) ->
  (c = CConflict /\ s1 = s /\ wver (st_store s k) <> snap)
  \/ (c = CBlocked /\ wver (st_store s k) = snap
      /\ s1 = mkS (updN (st_store s) k (mkK (stored (st_store s k)) (wver (st_store s k) + 1)))
                  (st_objs s) (st_nobj s) (st_hist s) (st_wrapped s) (st_misuse s))
  \/ (c = CDone /\ wver (st_store s k) = snap
      /\ s1 = mkS (updN (st_store s) k (mkK (Some v) (wver (st_store s k) + 1)))
                  (st_objs s) (st_nobj s) (st_hist s) (st_wrapped s) (st_misuse s)).
Proof.
  intros s k snap v blocked s1 c H. unfold commit in H.
  destruct (wver (st_store s k) =? snap) eqn:E; cbn [negb] in H.
  - apply N.eqb_eq in E. destruct blocked; injection H as <- <-; [right; left|right; right]; auto.
  - apply N.eqb_neq in E. injection H as <- <-. left. auto.
Qed.

(* a blocked commit only moves the write counter *)
Lemma inv_bump : forall fx s k, Inv fx s ->
  Inv fx (setk s k (mkK (stored (st_store s k)) (wver (st_store s k) + 1))).
Proof.
  intros fx s k HI. pose proof HI as HI'. destruct HI'. apply inv_setk; auto; cbn [wver sval stored].
  - lia.
  - intros j oj n Hj Hk Hr. specialize (i_rng0 j oj n Hj Hr). unfold sv, sval in i_rng0. rewrite Hk in i_rng0. exact i_rng0.
  - intros e He Hk. destruct (i_hist0 e He) as [A _]. unfold sv, sval in A. rewrite Hk in A. exact A.
Qed.

Lemma setk_put_comm : forall s k ks i o he, put (setk s k ks) i o he = setk (put s i o he) k ks.
Proof. intros. reflexivity. Qed.

Lemma ret_inv : forall fx s i b s' r, Inv fx s -> ret fx s i b = (s', r) ->
  st_misuse s' = false -> st_wrapped s' = false -> Inv fx s'.
Proof.
  intros fx s i b s' r HI HS Hm Hw. unfold ret in HS.
  destruct (st_objs s i) as [o|] eqn:Ho; [|injection HS as <- <-; exact HI].
  pose proof HI as HI'. destruct HI'.
  pose proof (i_pc0 i o Ho) as Hpc. unfold pc_ok in Hpc.
  pose proof (i_ids0 i o Ho) as Hid. pose proof (i_bw0 i o Ho) as Hbw.
  assert (Hpo : o_poison o = false \/ o_pc o = Idle).
  { destruct (o_poison o) eqn:E; [right; eapply i_poison0; eauto|left; reflexivity]. }
  assert (Hown : forall e, In e (st_hist s) -> hobj e = i -> hkey e = o_key o /\ hnum e < o_next o).
  { intros e He Ei. rewrite <- Ei in Ho. exact (i_own0 e o He Ho). }
  destruct (o_pc o) as [|snap rv take|snap w] eqn:Epc; [injection HS as <- <-; exact HI| |].
  - (* updateLease commits *)
    destruct Hpo as [Hpo|?]; [|discriminate].
    destruct Hpc as (P1 & P2 & P3 & P4).
    assert (Hl : lease_of rv (o_bw o) = rv + o_bw o) by (unfold lease_of; apply N.mod_small; exact P3).
    rewrite Hl in HS.
    destruct (commit s (o_key o) snap (rv + o_bw o) b) as [s1 c] eqn:Ec.
    destruct (commit_cases _ _ _ _ _ _ _ Ec) as [(-> & -> & Hne)|[(-> & Hwv & ->)|(-> & Hwv & ->)]].
    + (* conflict *)
      injection HS as <- <-. unfold set_obj in *. cbn [st_misuse st_wrapped st_store st_objs st_nobj st_hist] in *.
      rewrite Hm, Hw.
      match goal with |- Inv fx (mkS _ (updN _ i (Some ?o1)) _ _ _ _) => change (Inv fx (put s i o1 None)) end.
      apply (inv_put_shrink fx s i o _ HI Ho); cbn [o_key o_bw o_pc o_poison o_next]; auto.
      * intros n (A & _ & B & C). cbn in *. rewrite Hpo in A. cbn in A. destruct fx; cbn in A; [|discriminate].
        lia.
      * exact I.
      * intros e He Ei. apply (Hown e He Ei).
    + (* blocked *)
      injection HS as <- <-. unfold set_obj in *. cbn [st_misuse st_wrapped st_store st_objs st_nobj st_hist] in *.
      rewrite Hm, Hw.
      match goal with |- Inv fx (mkS (updN _ ?k ?ks) (updN _ i (Some ?o1)) _ _ _ _) =>
        change (Inv fx (put (setk s k ks) i o1 None)) end.
      pose proof (inv_bump fx s (o_key o) HI) as HB.
      apply (inv_put_shrink fx _ i o _ HB Ho); cbn [o_key o_bw o_pc o_poison o_next]; auto.
      * intros n (A & _ & B & C). cbn in *. rewrite Hpo in A. cbn in A. destruct fx; cbn in A; [|discriminate].
        lia.
      * exact I.
      * intros e He Ei. apply (Hown e He Ei).
    + (* the lease is stored *)
      specialize (P2 Hwv).
      set (ks' := mkK (Some (rv + o_bw o)) (wver (st_store s (o_key o)) + 1)).
      assert (HK : Inv fx (setk s (o_key o) ks')).
      { apply inv_setk; auto; cbn [ks' wver sval stored].
        - lia.
        - intros j oj n Hj Hk Hr. specialize (i_rng0 j oj n Hj Hr). unfold sv in i_rng0. rewrite Hk in i_rng0. lia.
        - intros e He Hk. destruct (i_hist0 e He) as [A _]. unfold sv in A. rewrite Hk in A. lia. }
      (* facts about the granted range [rv, rv + bw) *)
      assert (G1 : forall n, rv <= n < rv + o_bw o -> n < sv (setk s (o_key o) ks') (o_key o)).
      { intros n Hn. unfold sv, setk. cbn [st_store]. rewrite updN_eq. cbn [ks' sval stored]. lia. }
      assert (G2 : forall n j oj, rv <= n < rv + o_bw o -> j <> i -> st_objs s j = Some oj -> o_key oj = o_key o -> ~ inr oj n).
      { intros n j oj Hn Hne Hj Hk Hr. specialize (i_rng0 j oj n Hj Hr). unfold sv in i_rng0. rewrite Hk in i_rng0. lia. }
      assert (G3 : forall n e, rv <= n < rv + o_bw o -> In e (st_hist s) -> hkey e = o_key o -> hnum e <> n).
      { intros n e Hn He Hk <-. destruct (i_hist0 e He) as [A _]. unfold sv in A. rewrite Hk in A. lia. }
      assert (G4 : forall e, In e (st_hist s) -> hobj e = i -> hkey e = o_key o /\ hnum e < rv).
      { intros e He Ei. destruct (Hown e He Ei) as [A B]. split; [exact A|].
        destruct (i_hist0 e He) as [C _]. unfold sv in C. rewrite A in C. lia. }
      destruct take.
      * unfold take_num in HS. cbn [o_key o_next o_leased o_bw o_poison] in HS. injection HS as <- <-.
        cbn [st_misuse st_wrapped st_store st_objs st_nobj st_hist] in *.
        apply or_false_l in Hw. destruct Hw as [Hw1 Hw2]. apply N.leb_gt in Hw2.
        rewrite Hm, Hw1, Hpo. rewrite N.mod_small by exact Hw2.
        replace (two64 <=? rv + 1) with false by (symmetry; apply N.leb_gt; exact Hw2). cbn [orb].
        pose proof (take_num_inv fx (setk s (o_key o) ks') i (mkObj (o_key o) rv (rv + o_bw o) (o_bw o) Idle false) HK) as T.
        cbn [o_key o_next o_leased o_bw o_poison] in T. apply T; auto; try lia.
      * injection HS as <- <-. unfold set_obj in *. cbn [st_misuse st_wrapped st_store st_objs st_nobj st_hist] in *.
        rewrite Hm, Hw.
        match goal with |- Inv fx (mkS (updN _ ?k ?ks) (updN _ i (Some ?o1)) _ _ _ _) =>
          change (Inv fx (put (setk s k ks) i o1 None)) end.
        apply inv_put; cbn [o_key o_next o_leased o_bw o_poison o_pc]; auto.
        -- intros n [(_ & _ & A & B)|E]; [|discriminate]. cbn in A, B. apply G1. lia.
        -- intros n j oj [(_ & _ & A & B)|E]; [|discriminate]. cbn in A, B. apply G2. lia.
        -- intros n e [(_ & _ & A & B)|E]; [|discriminate]. cbn in A, B. apply G3. lia.
        -- intros n E. discriminate.
        -- exact I.
        -- intros e He Ei. destruct (G4 e He Ei) as [A B]. split; [exact A|]. split; [exact B|intros; discriminate].
  - (* Release commits *)
    destruct Hpo as [Hpo|?]; [|discriminate].
    destruct Hpc as (P1 & P2).
    assert (Hsub : forall o1, o_poison o1 = o_poison o -> o_next o1 = o_next o -> o_leased o1 = o_next o ->
                    forall n, inr o1 n -> inr o n).
    { intros o1 E1 E2 E3 n (_ & _ & A & B). lia. }
    destruct w.
    + destruct (commit s (o_key o) snap (o_next o) b) as [s1 c] eqn:Ec.
      destruct (commit_cases _ _ _ _ _ _ _ Ec) as [(-> & -> & Hne)|[(-> & Hwv & ->)|(-> & Hwv & ->)]].
      * injection HS as <- <-. unfold set_obj in *. cbn [st_misuse st_wrapped st_store st_objs st_nobj st_hist] in *.
        rewrite Hm, Hw.
        match goal with |- Inv fx (mkS _ (updN _ i (Some ?o1)) _ _ _ _) => change (Inv fx (put s i o1 None)) end.
        apply (inv_put_shrink fx s i o _ HI Ho); cbn [o_key o_bw o_pc o_poison o_next]; auto.
        -- intros n (A & _ & B & C). unfold inr, holds. rewrite Epc. cbn in *. auto.
        -- exact I.
        -- intros e He Ei. apply (Hown e He Ei).
      * injection HS as <- <-. unfold set_obj in *. cbn [st_misuse st_wrapped st_store st_objs st_nobj st_hist] in *.
        rewrite Hm, Hw.
        match goal with |- Inv fx (mkS (updN _ ?k ?ks) (updN _ i (Some ?o1)) _ _ _ _) =>
          change (Inv fx (put (setk s k ks) i o1 None)) end.
        pose proof (inv_bump fx s (o_key o) HI) as HB.
        apply (inv_put_shrink fx _ i o _ HB Ho); cbn [o_key o_bw o_pc o_poison o_next]; auto.
        -- intros n (A & _ & B & C). unfold inr, holds. rewrite Epc. cbn in *. auto.
        -- exact I.
        -- intros e He Ei. apply (Hown e He Ei).
      * (* stored lease := next *)
        specialize (P2 Hwv eq_refl).
        injection HS as <- <-. unfold set_obj in *. cbn [st_misuse st_wrapped st_store st_objs st_nobj st_hist] in *.
        rewrite Hm, Hw.
        set (o1 := mkObj (o_key o) (o_next o) (o_next o) (o_bw o) Idle (o_poison o)).
        set (ks' := mkK (Some (o_next o)) (wver (st_store s (o_key o)) + 1)).
        change (Inv fx (setk (put s i o1 None) (o_key o) ks')).
        assert (HP : Inv fx (put s i o1 None)).
        { apply (inv_put_shrink fx s i o o1 HI Ho); cbn [o1 o_key o_bw o_pc o_poison o_next]; auto.
          - intros n (_ & _ & A & B). cbn in A, B. lia.
          - exact I.
          - intros e He Ei. apply (Hown e He Ei). }
        assert (Hri : forall n, o_next o <= n < o_leased o -> inr o n).
        { intros n Hn. unfold inr, holds. rewrite Epc. repeat split; try assumption; lia. }
        apply inv_setk; auto; cbn [ks' wver sval stored put st_store st_objs st_hist].
        -- lia.
        -- intros j oj n Hj Hk Hr. destruct (N.eq_dec j i) as [->|Hne].
           ++ rewrite updN_eq in Hj. injection Hj as <-. destruct Hr as (_ & _ & A & B). cbn in A, B. lia.
           ++ rewrite updN_neq in Hj by exact Hne.
              pose proof (i_rng0 j oj n Hj Hr) as R. unfold sv in R. rewrite Hk, P2 in R.
              destruct (N.lt_ge_cases n (o_next o)) as [?|Hge]; [assumption|]. exfalso.
              eapply (i_disj0 i j o oj n); eauto; try (apply Hri; lia).
        -- intros e He Hk. destruct (i_hist0 e He) as [A B]. unfold sv in A. rewrite Hk, P2 in A.
           destruct (N.lt_ge_cases (hnum e) (o_next o)) as [?|Hge]; [assumption|]. exfalso.
           eapply (B i o); eauto; try (apply Hri; lia).
    + injection HS as <- <-. unfold set_obj in *. cbn [st_misuse st_wrapped st_store st_objs st_nobj st_hist] in *.
      rewrite Hm, Hw.
      match goal with |- Inv fx (mkS _ (updN _ i (Some ?o1)) _ _ _ _) => change (Inv fx (put s i o1 None)) end.
      apply (inv_put_shrink fx s i o _ HI Ho); cbn [o_key o_bw o_pc o_poison o_next]; auto.
      * intros n (_ & _ & A & B). cbn in A, B. lia.
      * exact I.
      * intros e He Ei. apply (Hown e He Ei).
Qed.

Lemma step_inv : forall fx s l s' r, Inv fx s -> step fx s l = (s', r) ->
  st_misuse s' = false -> st_wrapped s' = false -> Inv fx s'.
Proof.
  intros fx s [k bw|i|i|i b|] s' r HI HS Hm Hw; cbn [step] in HS.
  - eapply get_call_inv; eauto.
  - eapply next_call_inv; eauto.
  - eapply rel_call_inv; eauto.
  - eapply ret_inv; eauto.
  - injection HS as <- <-. apply restart_inv. exact HI.
Qed.

(* ---------- the ghost flags are monotone ---------- *)
Lemma take_num_flags : forall s i o, 
  (st_misuse s = true -> st_misuse (fst (take_num s i o)) = true)
  /\ (st_wrapped s = true -> st_wrapped (fst (take_num s i o)) = true).
Proof. intros. unfold take_num. cbn. split; intros ->; reflexivity. Qed.

Lemma commit_flags : forall s k snap v b, st_misuse (fst (commit s k snap v b)) = st_misuse s
  /\ st_wrapped (fst (commit s k snap v b)) = st_wrapped s.
Proof. intros. unfold commit. destruct (negb _); [auto|]. destruct b; cbn; auto. Qed.

Lemma step_flags : forall fx s l,
  (st_misuse s = true -> st_misuse (fst (step fx s l)) = true)
  /\ (st_wrapped s = true -> st_wrapped (fst (step fx s l)) = true).
Proof.
  intros fx s [k bw|i|i|i b|]; cbn [step].
  - unfold get_call. destruct (k =? 0); [cbn; auto|]. destruct (bw =? 0); [cbn; auto|].
    unfold begin_refresh. cbn. split; intros ->; reflexivity.
  - unfold next_call. destruct (st_objs s i) as [o|]; [|cbn; auto]. destruct (o_pc o); try (cbn; auto).
    destruct (_ <? _).
    + destruct (take_num_flags (note_misuse s o) i o) as [A B]. split; intros H; [apply A|apply B]; cbn; rewrite H; reflexivity.
    + unfold begin_refresh, note_misuse. cbn. split; intros ->; reflexivity.
  - unfold rel_call. destruct (st_objs s i) as [o|]; [|cbn; auto]. destruct (o_pc o); try (cbn; auto).
    cbn [note_misuse st_store]. destruct (stored _); cbn; split; intros ->; reflexivity.
  - unfold ret. destruct (st_objs s i) as [o|]; [|cbn; auto]. destruct (o_pc o) as [|snap rv take|snap w]; [cbn; auto| |].
    + pose proof (commit_flags s (o_key o) snap (lease_of rv (o_bw o)) b) as [A B].
      destruct (commit s (o_key o) snap (lease_of rv (o_bw o)) b) as [s1 c]. cbn [fst] in A, B.
      destruct c; [destruct take|..]; cbn; rewrite ?A, ?B; split; intros ->; reflexivity.
    + destruct w; [|cbn; auto].
      pose proof (commit_flags s (o_key o) snap (o_next o) b) as [A B].
      destruct (commit s (o_key o) snap (o_next o) b) as [s1 c]. cbn [fst] in A, B.
      destruct c; cbn; rewrite ?A, ?B; auto.
  - cbn. auto.
Qed.

Lemma exec_flags : forall fx ls s,
  (st_misuse s = true -> st_misuse (fst (exec fx s ls)) = true)
  /\ (st_wrapped s = true -> st_wrapped (fst (exec fx s ls)) = true).
Proof.
  induction ls as [|l ls IH]; intros s; cbn [exec fst]; [auto|].
  pose proof (step_flags fx s l) as [A B]. destruct (step fx s l) as [s1 x]. cbn [fst] in A, B.
  specialize (IH s1). destruct (exec fx s1 ls) as [s2 xs]. cbn [fst] in *. destruct IH. split; auto.
Qed.

Lemma exec_inv : forall fx ls s, Inv fx s ->
  st_misuse (fst (exec fx s ls)) = false -> st_wrapped (fst (exec fx s ls)) = false ->
  Inv fx (fst (exec fx s ls)).
Proof.
  induction ls as [|l ls IH]; intros s HI Hm Hw; cbn [exec fst] in *; [exact HI|].
  destruct (step fx s l) as [s1 x] eqn:E.
  pose proof (exec_flags fx ls s1) as [A B].
  specialize (IH s1). destruct (exec fx s1 ls) as [s2 xs]. cbn [fst] in *.
  apply IH; auto. eapply step_inv; eauto.
  - destruct (st_misuse s1); [rewrite A in Hm by reflexivity; discriminate|reflexivity].
  - destruct (st_wrapped s1); [rewrite B in Hw by reflexivity; discriminate|reflexivity].
Qed.

Lemma reachable_inv : forall fx s, reachable fx s -> st_misuse s = false -> st_wrapped s = false -> Inv fx s.
Proof. intros fx s [ls <-] Hm Hw. apply exec_inv; auto. apply inv_init. Qed.

(* ---------- the repaired code never poisons an object ---------- *)
Definition clean (s : state) : Prop :=
  st_misuse s = false /\ forall i o, st_objs s i = Some o -> o_poison o = false.

Lemma clean_upd : forall (objs : N -> option obj) i o', (forall j o, objs j = Some o -> o_poison o = false) ->
  o_poison o' = false -> forall j o, updN objs i (Some o') j = Some o -> o_poison o = false.
Proof.
  intros objs i o' H Ho' j o Hj. destruct (N.eq_dec j i) as [->|Hn].
  - rewrite updN_eq in Hj. injection Hj as <-. exact Ho'.
  - rewrite updN_neq in Hj by exact Hn. eauto.
Qed.

Lemma commit_objs : forall s k snap v b, st_objs (fst (commit s k snap v b)) = st_objs s.
Proof. intros. unfold commit. destruct (negb _); [reflexivity|]. destruct b; reflexivity. Qed.

Lemma step_clean : forall s l, clean s -> clean (fst (step true s l)).
Proof.
  intros s [k bw|i|i|i b|] [Hm Hc]; cbn [step].
  - unfold get_call. destruct (k =? 0); [split; assumption|]. destruct (bw =? 0); [split; assumption|].
    unfold begin_refresh. cbn. split; [exact Hm|]. apply clean_upd; auto.
  - unfold next_call. destruct (st_objs s i) as [o|] eqn:Ho; [|split; assumption].
    pose proof (Hc i o Ho) as Hp. destruct (o_pc o); try (split; assumption).
    destruct (_ <? _); unfold take_num, begin_refresh, note_misuse; cbn; rewrite Hm, Hp; (split; [reflexivity|]);
      apply clean_upd; auto.
  - unfold rel_call. destruct (st_objs s i) as [o|] eqn:Ho; [|split; assumption].
    pose proof (Hc i o Ho) as Hp. destruct (o_pc o); try (split; assumption).
    unfold note_misuse, set_obj. cbn [st_store]. destruct (stored _); unfold clean; cbn; rewrite Hm, Hp; (split; [reflexivity|]); auto.
    apply clean_upd; auto.
  - unfold ret. destruct (st_objs s i) as [o|] eqn:Ho; [|split; assumption].
    pose proof (Hc i o Ho) as Hp. destruct (o_pc o) as [|snap rv take|snap w]; [split; assumption| |].
    + pose proof (commit_flags s (o_key o) snap (lease_of rv (o_bw o)) b) as [A _].
      pose proof (commit_objs s (o_key o) snap (lease_of rv (o_bw o)) b) as C.
      destruct (commit s (o_key o) snap (lease_of rv (o_bw o)) b) as [s1 c]. cbn [fst] in A, C.
      destruct c; [destruct take|..]; unfold clean, take_num, set_obj; cbn; rewrite A, C; (split; [exact Hm|]);
        apply clean_upd; cbn; auto; rewrite Hp; reflexivity.
    + destruct w.
      * pose proof (commit_flags s (o_key o) snap (o_next o) b) as [A _].
        pose proof (commit_objs s (o_key o) snap (o_next o) b) as C.
        destruct (commit s (o_key o) snap (o_next o) b) as [s1 c]. cbn [fst] in A, C.
        destruct c; unfold clean, set_obj; cbn; rewrite A, C; (split; [exact Hm|]); apply clean_upd; cbn; auto.
      * unfold clean, set_obj. cbn. split; [exact Hm|]. apply clean_upd; cbn; auto.
  - cbn. split; [exact Hm|]. intros; discriminate.
Qed.

Lemma exec_clean : forall ls s, clean s -> clean (fst (exec true s ls)).
Proof.
  induction ls as [|l ls IH]; intros s Hc; cbn [exec fst]; [exact Hc|].
  pose proof (step_clean s l Hc) as H1. destruct (step true s l) as [s1 x]. cbn [fst] in H1.
  specialize (IH s1 H1). destruct (exec true s1 ls) as [s2 xs]. exact IH.
Qed.

Lemma fixed_no_misuse : forall s, reachable true s -> st_misuse s = false.
Proof. intros s [ls <-]. apply exec_clean. split; [reflexivity|intros; discriminate]. Qed.

(* ---------- C30 ---------- *)
Lemma nodup_filter_key : forall (h : list (N * N * N)) k, NoDup (map (fun e => (hkey e, hnum e)) h) ->
  NoDup (map snd (filter (fun e => fst (fst e) =? k) h)).
Proof.
  induction h as [|e h IH]; intros k Hn; cbn [filter map]; [constructor|].
  inversion Hn as [|? ? Hni Hn']; subst. destruct (fst (fst e) =? k) eqn:E; [|apply IH; exact Hn'].
  cbn [map]. constructor; [|apply IH; exact Hn']. intros Hin. apply Hni.
  apply in_map_iff in Hin. destruct Hin as (e' & E1 & E2). apply filter_In in E2. destruct E2 as [E2 E3].
  apply in_map_iff. exists e'. split; [|exact E2]. apply N.eqb_eq in E, E3. unfold hkey, hnum. rewrite E1. congruence.
Qed.

Theorem unique : forall fx s, reachable fx s -> st_misuse s = false -> st_wrapped s = false ->
  forall k, NoDup (nums_of_key s k).
Proof.
  intros fx s HR Hm Hw k. destruct (reachable_inv fx s HR Hm Hw). unfold nums_of_key.
  apply NoDup_rev. apply nodup_filter_key. exact i_uniq0.
Qed.

Theorem unique_fixed : forall s, reachable true s -> st_wrapped s = false -> forall k, NoDup (nums_of_key s k).
Proof. intros s HR Hw. apply (unique true s HR (fixed_no_misuse s HR) Hw). Qed.

Lemma ss_app_single : forall (R : N -> N -> Prop) l a, StronglySorted R l -> Forall (fun x => R x a) l ->
  StronglySorted R (l ++ [a]).
Proof.
  induction l as [|x l IH]; intros a Hs Hf; cbn [app]; [constructor; constructor|].
  inversion Hs; subst. inversion Hf; subst. constructor; [apply IH; assumption|].
  apply Forall_app. split; [assumption|constructor; [assumption|constructor]].
Qed.

Lemma ss_rev : forall l, StronglySorted (fun a b => b < a) l -> StronglySorted N.lt (rev l).
Proof.
  induction l as [|a l IH]; intros Hs; cbn [rev]; [constructor|]. inversion Hs; subst.
  apply ss_app_single; [apply IH; assumption|]. apply Forall_rev. assumption.
Qed.

Lemma incr_hist_sorted : forall h i, incr_hist h ->
  StronglySorted (fun a b => b < a) (map snd (filter (fun e => snd (fst e) =? i) h)).
Proof.
  induction h as [|e h IH]; intros i [Hh Hi] || intros i Hi; cbn [filter map]; try constructor.
  destruct (snd (fst e) =? i) eqn:E; [|apply IH; exact Hi]. cbn [map]. constructor; [apply IH; exact Hi|].
  apply Forall_forall. intros n Hn. apply in_map_iff in Hn. destruct Hn as (e' & <- & He').
  apply filter_In in He'. destruct He' as [He' E']. apply N.eqb_eq in E, E'. apply (Hh e' He'). unfold hobj. congruence.
Qed.

Theorem increasing : forall fx s, reachable fx s -> st_misuse s = false -> st_wrapped s = false ->
  forall i, StronglySorted N.lt (nums_of_obj s i).
Proof.
  intros fx s HR Hm Hw i. destruct (reachable_inv fx s HR Hm Hw). unfold nums_of_obj.
  apply ss_rev. apply incr_hist_sorted. exact i_incr0.
Qed.

Theorem increasing_fixed : forall s, reachable true s -> st_wrapped s = false ->
  forall i, StronglySorted N.lt (nums_of_obj s i).
Proof. intros s HR Hw. apply (increasing true s HR (fixed_no_misuse s HR) Hw). Qed.

(* every number handed out is below the stored lease: nothing handed out before a restart or
   crash can be leased again *)
Theorem below_stored : forall fx s, reachable fx s -> st_misuse s = false -> st_wrapped s = false ->
  forall k i n, In (k, i, n) (st_hist s) -> n < sval (st_store s k).
Proof.
  intros fx s HR Hm Hw k i n Hin. destruct (reachable_inv fx s HR Hm Hw).
  destruct (i_hist0 _ Hin) as [A _]. exact A.
Qed.

(* refutation helper: a computable duplicate test *)
Fixpoint has_dupb (l : list N) : bool :=
  match l with
  | [] => false
  | x :: r => existsb (N.eqb x) r || has_dupb r
  end.

Lemma has_dupb_not_nodup : forall l, has_dupb l = true -> ~ NoDup l.
Proof.
  induction l as [|x r IH]; intros H Hn; cbn [has_dupb] in H; [discriminate|].
  inversion Hn; subst. apply orb_true_iff in H. destruct H as [H|H]; [|exact (IH H H3)].
  apply existsb_exists in H. destruct H as (y & Hy & E). apply N.eqb_eq in E. subst y. contradiction.
Qed.

Fixpoint sortedb (l : list N) : bool :=
  match l with
  | x :: ((y :: _) as r) => (x <? y) && sortedb r
  | _ => true
  end.

Lemma sortedb_false_not_sorted : forall l, sortedb l = false -> ~ StronglySorted N.lt l.
Proof.
  induction l as [|x r IH]; intros H Hs; [discriminate|]. destruct r as [|y r']; [discriminate|].
  cbn [sortedb] in H. inversion Hs as [|? ? Hs' Hf]; subst. apply andb_false_iff in H. destruct H as [H|H].
  - inversion Hf; subst. apply N.ltb_ge in H. lia.
  - exact (IH H Hs').
Qed.

(* ---------- the machine with the explicit lock (xstep) restricted to the locked Release is exec ---------- *)
Lemma xstep_L : forall fx x l,
  x_s (fst (xstep fx x (L l))) = fst (step fx (x_s x) l) /\ snd (xstep fx x (L l)) = snd (step fx (x_s x) l).
Proof.
  intros fx x l. destruct l; cbn [xstep]; try (destruct (step fx (x_s x) _) as [s1 r]; cbn; split; reflexivity).
  cbn. split; reflexivity.
Qed.

Lemma xexec_L : forall fx ls x,
  x_s (fst (xexec fx x (map L ls))) = fst (exec fx (x_s x) ls)
  /\ snd (xexec fx x (map L ls)) = snd (exec fx (x_s x) ls).
Proof.
  induction ls as [|l ls IH]; intros x; cbn [map xexec exec]; [split; reflexivity|].
  pose proof (xstep_L fx x l) as [A B].
  destruct (xstep fx x (L l)) as [x1 y]. destruct (step fx (x_s x) l) as [s1 r]. cbn [fst snd] in A, B. subst.
  specialize (IH x1). destruct (xexec fx x1 (map L ls)) as [x2 ys]. destruct (exec fx (x_s x1) ls) as [s2 xs].
  cbn [fst snd] in *. destruct IH as [-> ->]. split; reflexivity.
Qed.

Lemma locked_reachable : forall fx ls, locked_only ls -> reachable fx (x_s (fst (xexec fx xinit ls))).
Proof. intros fx ls [ls0 ->]. exists ls0. symmetry. apply (xexec_L fx ls0 xinit). Qed.

(* all interleavings of the atomic (lock-holding) calls: unique, increasing, below the stored lease *)
Theorem locked_unique : forall fx ls, locked_only ls -> let s := x_s (fst (xexec fx xinit ls)) in
  st_misuse s = false -> st_wrapped s = false -> forall k, NoDup (nums_of_key s k).
Proof. intros fx ls HL s. apply (unique fx s). apply locked_reachable. exact HL. Qed.

Theorem locked_increasing : forall fx ls, locked_only ls -> let s := x_s (fst (xexec fx xinit ls)) in
  st_misuse s = false -> st_wrapped s = false -> forall i, StronglySorted N.lt (nums_of_obj s i).
Proof. intros fx ls HL s. apply (increasing fx s). apply locked_reachable. exact HL. Qed.

Theorem locked_below_stored : forall fx ls, locked_only ls -> let s := x_s (fst (xexec fx xinit ls)) in
  st_misuse s = false -> st_wrapped s = false ->
  forall k i n, In (k, i, n) (st_hist s) -> n + 1 <= sval (st_store s k).
Proof.
  intros fx ls HL s Hm Hw k i n Hin.
  pose proof (below_stored fx s (locked_reachable fx ls HL) Hm Hw k i n Hin). lia.
Qed.
